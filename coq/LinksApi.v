(* ITEM_NEXT LINK INVARIANT of the writer model, part 4: writer.c.  The state invariant lk_stinv (= wmw_stinv of
   WmWriteOnce3.v with lk_binv / lk_track of LinksCore.v in the place of wmw_binv / wmw_track) holds after jls_wr_open and
   is preserved by every API call and by jls_wr_close, for EVERY program.  The base steps (first part of this file) are
   new; from "signals" on, the text is WmWriteOnce3.v's with the lk_ relations (its proofs only use the combinators).
   Every top-level name starts with lk_. *)
From Coq Require Import NArith ZArith List Bool Lia Arith.
From Coq Require Import ZifyBool ZifyN ZifyNat.
From JLS Require Import Generated CrcDefs Spec Format FormatProofs WriteOnce WriteOnceProofs
                        WmRaw WmCore WmTs WmFsr WriterModel WmProofs WmWriteOnce WmWriteOnce2 WmWriteOnce3
                        LinksCore LinksCore2 LinksFsr.
Import ListNotations.
Local Open Scope N_scope.
Ltac Zify.zify_post_hook ::= Z.div_mod_to_equations.
Local Opaque crc32c.

(* names of WmWriteOnce*.v used unchanged by the copied text *)
Notation lk_ble := wmw_ble.
Notation lk_bgood := wmw_bgood.
Notation lk_le_refl := wmw_le_refl.
Notation lk_le_trans := wmw_le_trans.
Notation lk_good_le := wmw_good_le.
Notation lk_le_fault := wmw_le_fault.
Notation lk_fr_refl := wmw_fr_refl.
Notation lk_fr_trans := wmw_fr_trans.
Notation lk_fr_weaken := wmw_fr_weaken.
Notation lk_headopt := wmw_headopt.
Notation lk_head_off := wmw_head_off.
Notation lk_track_tag_ok := wmw_track_tag_ok.
Notation lk_bounded := wmw_bounded.
Notation lk_evs := wmw_evs.

(* ================================================================ base steps *)
Lemma lk_bstep_refl : forall b, lk_bstep b b.
Proof. intro b. split; [apply wmw_le_refl|]. intros s Hb _. exists s. split; [exact Hb|apply wmw_fr_refl]. Qed.

Lemma lk_bstep_trans : forall a b c, lk_bstep a b -> lk_bstep b c -> lk_bstep a c.
Proof.
  intros a b c [L1 S1] [L2 S2]. split; [eapply wmw_le_trans; eauto|].
  intros s Ha Hg. assert (Hg1 : wmw_bgood b) by (eapply wmw_good_le; eauto).
  destruct (S1 s Ha Hg1) as (s1 & Hb1 & F1). destruct (S2 s1 Hb1 Hg) as (s2 & Hb2 & F2).
  exists s2. split; [exact Hb2|eapply wmw_fr_trans; eauto].
Qed.

Lemma lk_bstep_tstep : forall id ty b b' t, lk_bstep b b' -> lk_tstep id ty b t b' t.
Proof.
  intros id ty b b' t [L S]. split; [exact L|].
  intros s Hb Ht Hg. destruct (S s Hb Hg) as (s' & Hb' & Hfr).
  exists s'. split; [exact Hb'|]. split; [eapply lk_track_fr_none; eauto|]. split; [apply wmw_fr_weaken; exact Hfr|auto].
Qed.

(* a chunk appended to the source / signal / user-data list: the list stays linked *)
Lemma lk_source_append_bstep : forall b tag meta plen payload r1 h1 r2 c,
  wm_raw_wr (wm_b_raw b) (wm_mk_hdr (wm_ck_offset (wm_b_source_head b)) tag meta plen) payload = (r1, h1) ->
  wm_update_item_head r1 (wm_b_source_head b) {| wm_ck_offset := wm_raw_chunk_tell (wm_b_raw b); wm_ck_hdr := h1 |} = (r2, c) ->
  tag <> 0 -> tag < 256 -> meta < 65536 -> lk_key tag = 1 ->
  lk_bstep b (wm_b_set_source_head (wm_b_set_raw b r2) c).
Proof.
  intros b tag meta plen payload r1 h1 r2 c E1 E2 T0 T1 M Hk.
  destruct (wmw_source_append_bstep _ _ _ _ _ _ _ _ _ E1 E2 T0 T1 M) as [L S]. split; [exact L|].
  intros s [Hb Hdl] Hg. destruct (S s Hb Hg) as (s' & Hb' & Hfr). exists s'. split; [|exact Hfr]. split; [exact Hb'|].
  pose proof (proj1 Hb) as Hsim. pose proof (proj1 Hb') as Hsim'. pose proof Hb as (_ & R1 & R2 & R3).
  unfold wmw_bgood in Hg. cbn [wm_b_raw wm_b_set_source_head wm_b_set_raw] in Hg, Hsim'.
  destruct (lk_append_exact _ _ _ _ _ _ _ _ _ _ s s' E1 E2 Hsim R1 T0 T1 M Hg Hsim')
    as (upd & Hp & Ht1 & Hn1 & Ha0 & Hna & Hc & U0 & U1).
  rewrite Hp, Hc. apply lk_dl_append_src; auto. rewrite Ht1. exact Hk.
Qed.

Lemma lk_signal_append_bstep : forall b tag meta plen payload r1 h1 r2 c,
  wm_raw_wr (wm_b_raw b) (wm_mk_hdr (wm_ck_offset (wm_b_signal_head b)) tag meta plen) payload = (r1, h1) ->
  wm_update_item_head r1 (wm_b_signal_head b) {| wm_ck_offset := wm_raw_chunk_tell (wm_b_raw b); wm_ck_hdr := h1 |} = (r2, c) ->
  tag <> 0 -> tag < 256 -> meta < 65536 -> lk_key tag = 2 ->
  lk_bstep b (wm_b_set_signal_head (wm_b_set_raw b r2) c).
Proof.
  intros b tag meta plen payload r1 h1 r2 c E1 E2 T0 T1 M Hk.
  destruct (wmw_signal_append_bstep _ _ _ _ _ _ _ _ _ E1 E2 T0 T1 M) as [L S]. split; [exact L|].
  intros s [Hb Hdl] Hg. destruct (S s Hb Hg) as (s' & Hb' & Hfr). exists s'. split; [|exact Hfr]. split; [exact Hb'|].
  pose proof (proj1 Hb) as Hsim. pose proof (proj1 Hb') as Hsim'. pose proof Hb as (_ & R1 & R2 & R3).
  unfold wmw_bgood in Hg. cbn [wm_b_raw wm_b_set_signal_head wm_b_set_raw] in Hg, Hsim'.
  destruct (lk_append_exact _ _ _ _ _ _ _ _ _ _ s s' E1 E2 Hsim R2 T0 T1 M Hg Hsim')
    as (upd & Hp & Ht1 & Hn1 & Ha0 & Hna & Hc & U0 & U1).
  rewrite Hp, Hc. apply lk_dl_append_sig; auto. rewrite Ht1. exact Hk.
Qed.

Lemma lk_ud_append_bstep : forall b tag meta plen payload r1 h1 r2 c,
  wm_raw_wr (wm_b_raw b) (wm_mk_hdr (wm_ck_offset (wm_b_ud_head b)) tag meta plen) payload = (r1, h1) ->
  wm_update_item_head r1 (wm_b_ud_head b) {| wm_ck_offset := wm_raw_chunk_tell (wm_b_raw b); wm_ck_hdr := h1 |} = (r2, c) ->
  tag <> 0 -> tag < 256 -> meta < 65536 -> lk_key tag = 3 ->
  lk_bstep b (wm_b_set_ud_head (wm_b_set_raw b r2) c).
Proof.
  intros b tag meta plen payload r1 h1 r2 c E1 E2 T0 T1 M Hk.
  destruct (wmw_ud_append_bstep _ _ _ _ _ _ _ _ _ E1 E2 T0 T1 M) as [L S]. split; [exact L|].
  intros s [Hb Hdl] Hg. destruct (S s Hb Hg) as (s' & Hb' & Hfr). exists s'. split; [|exact Hfr]. split; [exact Hb'|].
  pose proof (proj1 Hb) as Hsim. pose proof (proj1 Hb') as Hsim'. pose proof Hb as (_ & R1 & R2 & R3).
  unfold wmw_bgood in Hg. cbn [wm_b_raw wm_b_set_ud_head wm_b_set_raw] in Hg, Hsim'.
  destruct (lk_append_exact _ _ _ _ _ _ _ _ _ _ s s' E1 E2 Hsim R3 T0 T1 M Hg Hsim')
    as (upd & Hp & Ht1 & Hn1 & Ha0 & Hna & Hc & U0 & U1).
  rewrite Hp, Hc. apply lk_dl_append_ud; auto. rewrite Ht1. exact Hk.
Qed.

(* jls_track_wr_def *)
Lemma lk_track_wr_def_bstep : forall b id ty, ty < 4 -> id < 256 -> lk_bstep b (wm_track_wr_def b id ty).
Proof.
  intros b id ty Hty Hid. unfold wm_track_wr_def. cbv zeta.
  destruct (wm_raw_wr _ _ _) as [r1 h1] eqn:E1. destruct (wm_update_item_head _ _ _) as [r2 sh] eqn:E2.
  destruct (wmw_track_tag_ok ty JLS_TRACK_CHUNK_DEF Hty ltac:(discriminate)) as [G0 G1].
  eapply lk_signal_append_bstep; [exact E1|exact E2|exact G0|exact G1|lia|].
  rewrite (lk_key_track_tag ty JLS_TRACK_CHUNK_DEF Hty); [reflexivity|discriminate].
Qed.

Lemma lk_track0_ok : forall E id ty, id < 256 -> ty < 4 -> lk_track E id ty (wm_track0 ty).
Proof.
  intros E id ty Hid Hty. split; [apply wmw_track0_ok; assumption|].
  unfold lk_tki, wm_track0. cbn [wm_tk_data_head wm_tk_index_head wm_tk_summary_head].
  assert (HF : Forall lk_slot (repeat wm_chunk0 wm_level_count)).
  { apply Forall_forall. intros c Hin. apply repeat_spec in Hin. subst c. apply lk_slot0. }
  split; [apply lk_slot0|]. split; exact HF.
Qed.

(* jls_track_wr_def + jls_track_wr_head of a new track *)
Lemma lk_def_track_step : forall b id ty b' t', wm_def_track b id ty = (b', t') -> ty < 4 -> id < 256 ->
  lk_tstep id ty b (wm_track0 ty) b' t'.
Proof.
  intros b id ty b' t' Heq Hty Hid. unfold wm_def_track in Heq.
  eapply lk_tstep_trans; [apply lk_bstep_tstep; apply (lk_track_wr_def_bstep b id ty Hty Hid)|].
  destruct (lk_track_wr_head_step id ty (wm_track_wr_def b id ty) (wm_track0 ty) (repeat 0 wm_level_count) b' t' Heq) as [L S].
  split; [exact L|]. intros s Hb Ht Hg.
  apply (S s Hb Ht); [reflexivity| |exact Hg].
  cbn [wm_track0 wm_tk_offsets]. apply wmw_ent_refl.
Qed.

(* a DATA chunk written by the API layer itself (annotation, utc): chunk, link, jls_track_update(0) *)
Lemma lk_data_update_step : forall id ty b t tag meta plen payload r1 h1 r2 dh b' t',
  wm_raw_wr (wm_b_raw b) (wm_mk_hdr (wm_ck_offset (wm_tk_data_head t)) tag meta plen) payload = (r1, h1) ->
  wm_update_item_head r1 (wm_tk_data_head t) {| wm_ck_offset := wm_raw_chunk_tell (wm_b_raw b); wm_ck_hdr := h1 |} = (r2, dh) ->
  wm_track_update (wm_b_set_raw b r2) id (wm_tk_set_data_head t dh) 0 (wm_raw_chunk_tell (wm_b_raw b)) = (b', t') ->
  tag <> 0 -> tag < 256 -> meta < 65536 -> lk_key tag = 0 -> lk_tstep id ty b t b' t'.
Proof.
  intros id ty b t tag meta plen payload r1 h1 r2 dh b' t' E1 E2 Heq T0 T1 M Hk.
  destruct (lk_base_append_nd _ _ _ _ _ _ _ _ _ _ E1 E2) as [L S].
  destruct (lk_track_update_step id ty _ _ _ _ _ _ Heq) as [L2 S2].
  split; [eapply wmw_le_trans; eauto|].
  intros s Hb Ht Hg. pose proof (proj1 Ht) as (_ & _ & _ & _ & T5 & _). pose proof (proj2 Ht) as (K1 & _).
  assert (Hg1 : wmw_good r2) by (eapply wmw_good_le; [exact L2|exact Hg]).
  destruct (S s Hb T5 K1 Hk T0 T1 M Hg1) as (s1 & Hb1 & Hfr & Hrc & Hsl & Hoc & Hc64 & Hst).
  pose proof (lk_track_fr_none _ _ _ _ _ Hfr Ht) as Ht1.
  pose proof (lk_track_set_data_head _ _ _ _ _ Ht1 Hrc Hsl) as Ht1'.
  rewrite <- Hoc in S2.
  destruct (S2 s1 Hb1 Ht1' Hc64 Hst Hg) as (s2 & Hb2 & Ht2 & Hfr2 & Hst2).
  exists s2. split; [exact Hb2|]. split; [exact Ht2|]. split.
  - eapply wmw_fr_trans; [apply wmw_fr_weaken; exact Hfr|exact Hfr2].
  - exact Hst2.
Qed.

(* jls_core_wr_end: the END chunk is on no list *)
Lemma lk_core_wr_end_bstep : forall b, lk_bstep b (wm_core_wr_end b).
Proof.
  intro b. destruct (wmw_core_wr_end_bstep b) as [L S]. split; [exact L|].
  intros s [Hb Hdl] Hg. destruct (S s Hb Hg) as (s' & Hb' & Hfr). exists s'. split; [|exact Hfr]. split; [exact Hb'|].
  pose proof (proj1 Hb) as Hsim. pose proof (proj1 Hb') as Hsim'.
  unfold wm_core_wr_end in *. destruct (wm_raw_wr _ _ _) as [r1 h1] eqn:E1.
  unfold wmw_bgood in Hg. cbn [wm_b_raw wm_b_set_raw] in Hg, Hsim'.
  assert (Hpre : wmw_hdr_pre (wm_mk_hdr 0 JLS_TAG_END 0 0)).
  { unfold wmw_hdr_pre, wm_mk_hdr. cbn [fm_item_next fm_item_prev fm_tag fm_rsv0 fm_chunk_meta].
    repeat split; try discriminate; reflexivity. }
  destruct (wmw_sim_append _ _ _ _ _ _ Hsim Hpre E1 Hg) as (s1 & Hsim1 & Hh1 & _ & Hex & Hnone).
  assert (Es : s' = s1) by (eapply lk_sim_det; eauto). subst s1.
  rewrite Hex. change (wo_pairs (?x :: ?E)) with ((wo_e_off x, wo_e_hdr x) :: wo_pairs E). cbn [wo_e_off wo_e_hdr].
  apply lk_dl_set_raw.
  apply (lk_dl_append_nd b (wo_pairs (wo_exts s)) (wm_fend (wm_b_raw b)) h1 None wm_chunk0); auto.
  - rewrite Hh1. reflexivity.
  - rewrite lk_pairs_find, Hnone. reflexivity.
  - apply lk_slot0.
  - intro X. exfalso. apply X. reflexivity.
Qed.

Lemma lk_raw_flush_bstep : forall b, lk_bstep b (wm_b_set_raw b (wm_raw_flush (wm_b_raw b))).
Proof.
  intro b. destruct (wmw_raw_flush_bstep b) as [L S]. split; [exact L|].
  intros s [Hb Hdl] Hg. destruct (S s Hb Hg) as (s' & Hb' & Hfr). exists s'. split; [|exact Hfr]. split; [exact Hb'|].
  pose proof (wmw_sim_flush _ _ (proj1 Hb)) as Hs. pose proof (proj1 Hb') as Hsim'. cbn [wm_b_raw wm_b_set_raw] in Hsim'.
  assert (Es : s' = s) by (eapply lk_sim_det; eauto). subst s'. apply lk_dl_set_raw. exact Hdl.
Qed.

(* ================================================================ signals: the four tracks, focus on one signal *)
Definition lk_tk (g : wm_signal) (ty : N) : wm_track :=
  if ty =? 0 then wm_sg_tk_fsr g else if ty =? 1 then wm_sg_tk_vsr g else if ty =? 2 then wm_sg_tk_anno g else wm_sg_tk_utc g.

Definition lk_sig_ok (E : list wo_ext) (g : wm_signal) : Prop :=
  forall ty, ty < 4 -> lk_track E (wm_sig_id g) ty (lk_tk g ty).

Definition lk_focus (sigs : list wm_signal) (b : wm_base) (g : wm_signal) (s : wo_st) : Prop :=
  lk_binv b s /\ lk_sig_ok (wo_exts s) g /\
  (forall x, In x sigs -> wm_sig_id x <> wm_sig_id g -> lk_sig_ok (wo_exts s) x).

Definition lk_fstep (sigs : list wm_signal) (b : wm_base) (g : wm_signal) (b' : wm_base) (g' : wm_signal) : Prop :=
  lk_ble b b' /\ wm_sig_id g' = wm_sig_id g /\
  forall s, lk_focus sigs b g s -> lk_bgood b' -> exists s', lk_focus sigs b' g' s'.

Lemma lk_fstep_refl : forall sigs b g, lk_fstep sigs b g b g.
Proof. intros. split; [apply lk_le_refl|]. split; [reflexivity|]. intros s H _. exists s. exact H. Qed.

Lemma lk_fstep_trans : forall sigs b g b1 g1 b2 g2,
  lk_fstep sigs b g b1 g1 -> lk_fstep sigs b1 g1 b2 g2 -> lk_fstep sigs b g b2 g2.
Proof.
  intros sigs b g b1 g1 b2 g2 (L1 & I1 & S1) (L2 & I2 & S2).
  split; [eapply lk_le_trans; eauto|]. split; [congruence|].
  intros s Hf Hg. assert (Hg1 : lk_bgood b1) by (eapply lk_good_le; eauto).
  destruct (S1 s Hf Hg1) as (s1 & Hf1). exact (S2 s1 Hf1 Hg).
Qed.

(* the signal record changes but not its id and tracks *)
Lemma lk_fstep_same : forall sigs b g g', wm_sig_id g' = wm_sig_id g -> (forall ty, ty < 4 -> lk_tk g' ty = lk_tk g ty) ->
  lk_fstep sigs b g b g'.
Proof.
  intros sigs b g g' Hid Htk. split; [apply lk_le_refl|]. split; [exact Hid|].
  intros s (Hb & Hg & Ho) _. exists s. split; [exact Hb|]. split.
  - intros ty Hty. rewrite Hid, (Htk ty Hty). apply Hg. exact Hty.
  - intros x Hin Hne. apply Ho; [exact Hin|congruence].
Qed.

Lemma lk_fstep_tstep : forall sigs b g ty b' t' g', ty < 4 ->
  lk_tstep (wm_sig_id g) ty b (lk_tk g ty) b' t' ->
  wm_sig_id g' = wm_sig_id g -> lk_tk g' ty = t' ->
  (forall ty2, ty2 < 4 -> ty2 <> ty -> lk_tk g' ty2 = lk_tk g ty2) ->
  lk_fstep sigs b g b' g'.
Proof.
  intros sigs b g ty b' t' g' Hty [L S] Hid Htk Hoth. split; [exact L|]. split; [exact Hid|].
  intros s (Hb & Hg & Ho) Hgood.
  destruct (S s Hb (Hg ty Hty) Hgood) as (s' & Hb' & Ht' & Hfr & _).
  exists s'. split; [exact Hb'|]. split.
  - intros ty2 Hty2. rewrite Hid. destruct (N.eq_dec ty2 ty) as [->|Hne].
    + rewrite Htk. exact Ht'.
    + rewrite (Hoth ty2 Hty2 Hne).
      eapply lk_track_fr_other; [exact Hfr|exact Ht'|auto|apply Hg; exact Hty2|right; exact Hne].
  - intros x Hin Hne. rewrite Hid in Hne. intros ty2 Hty2.
    eapply lk_track_fr_other; [exact Hfr|exact Ht'|auto|apply (Ho x Hin Hne); exact Hty2|left; exact Hne].
Qed.

Lemma lk_fstep_bstep : forall sigs b g b', lk_bstep b b' -> lk_fstep sigs b g b' g.
Proof.
  intros sigs b g b' [L S]. split; [exact L|]. split; [reflexivity|].
  intros s (Hb & Hg & Ho) Hgood. destruct (S s Hb Hgood) as (s' & Hb' & Hfr).
  exists s'. split; [exact Hb'|]. split.
  - intros ty Hty. eapply lk_track_fr_none; [exact Hfr|apply Hg; exact Hty].
  - intros x Hin Hne ty Hty. eapply lk_track_fr_none; [exact Hfr|apply (Ho x Hin Hne); exact Hty].
Qed.

(* ================================================================ the state invariant *)
Definition lk_stinv (st : wm_state) (s : wo_st) : Prop :=
  lk_binv (wm_st_base st) s /\ Forall (lk_sig_ok (wo_exts s)) (wm_st_sigs st).

Definition lk_stgood (st : wm_state) : Prop := lk_bgood (wm_st_base st).

Definition lk_ststep (st st' : wm_state) : Prop :=
  lk_ble (wm_st_base st) (wm_st_base st') /\
  forall s, lk_stinv st s -> lk_stgood st' -> exists s', lk_stinv st' s'.

Lemma lk_ststep_refl : forall st, lk_ststep st st.
Proof. intro st. split; [apply lk_le_refl|]. intros s H _. exists s. exact H. Qed.

Lemma lk_ststep_trans : forall a b c, lk_ststep a b -> lk_ststep b c -> lk_ststep a c.
Proof.
  intros a b c [L1 S1] [L2 S2]. split; [eapply lk_le_trans; eauto|].
  intros s Ha Hg. assert (Hg1 : lk_stgood b) by (eapply lk_good_le; eauto).
  destruct (S1 s Ha Hg1) as (s1 & H1). exact (S2 s1 H1 Hg).
Qed.

Lemma lk_ststep_fault : forall st st', wm_st_base st' = wm_b_fault (wm_st_base st) -> lk_ststep st st'.
Proof.
  intros st st' H. split; [unfold lk_ble; rewrite H; apply lk_le_fault; reflexivity|].
  intros s _ [Hf _]. rewrite H in Hf. cbn in Hf. discriminate.
Qed.

Lemma lk_ststep_bstep : forall st st', wm_st_sigs st' = wm_st_sigs st -> lk_bstep (wm_st_base st) (wm_st_base st') ->
  lk_ststep st st'.
Proof.
  intros st st' Hs [L S]. split; [exact L|].
  intros s (Hb & Hsig) Hg. destruct (S s Hb Hg) as (s' & Hb' & Hfr).
  exists s'. split; [exact Hb'|]. rewrite Hs. eapply Forall_impl; [|exact Hsig].
  intros g Hg0 ty Hty. eapply lk_track_fr_none; [exact Hfr|apply Hg0; exact Hty].
Qed.

Lemma lk_find_sig_some : forall st id g, wm_find_sig st id = Some g -> In g (wm_st_sigs st) /\ wm_sig_id g = id.
Proof.
  intros st id g H. unfold wm_find_sig in H. apply find_some in H. destruct H as [Hin He].
  split; [exact Hin|]. apply N.eqb_eq. exact He.
Qed.

Lemma lk_ststep_fstep : forall st id g b' g', wm_find_sig st id = Some g ->
  lk_fstep (wm_st_sigs st) (wm_st_base st) g b' g' -> lk_ststep st (wm_put_sig st b' g').
Proof.
  intros st id g b' g' Hfind (L & Hid & S). destruct (lk_find_sig_some _ _ _ Hfind) as [Hin _].
  split; [exact L|].
  intros s (Hb & Hsig) Hgood. rewrite Forall_forall in Hsig.
  assert (Hfoc : lk_focus (wm_st_sigs st) (wm_st_base st) g s).
  { split; [exact Hb|]. split; [apply Hsig; exact Hin|]. intros x Hx _. apply Hsig. exact Hx. }
  destruct (S s Hfoc Hgood) as (s' & Hb' & Hg' & Ho').
  exists s'. split; [exact Hb'|]. cbn [wm_put_sig wm_st_sigs].
  apply Forall_forall. intros y Hy. apply in_map_iff in Hy. destruct Hy as (x & Hy & Hx).
  destruct (wm_sig_id x =? wm_sig_id g') eqn:Ex.
  - subst y. exact Hg'.
  - subst y. apply N.eqb_neq in Ex. apply Ho'; assumption.
Qed.

(* ================================================================ API calls that touch no signal *)
Lemma lk_lt_pow2_log2 : forall a n, a < 2 ^ n -> 0 < n -> N.log2 a < n.
Proof.
  intros a n H Hn. destruct (N.eq_dec a 0) as [->|Hne]; [exact Hn|].
  apply N.log2_lt_pow2; [lia|exact H].
Qed.

Lemma lk_ud_meta_lt : forall m stype, stype <= 3 -> N.lor (N.land m 4095) (N.shiftl stype 12) < 65536.
Proof.
  intros m stype Hs. set (v := N.lor (N.land m 4095) (N.shiftl stype 12)).
  destruct (N.eq_dec v 0) as [->|Hne]; [reflexivity|].
  change 65536 with (2 ^ 16). apply N.log2_lt_pow2; [lia|].
  subst v. rewrite N.log2_lor. apply N.max_lub_lt.
  - eapply N.le_lt_trans; [apply N.log2_land|]. eapply N.le_lt_trans; [apply N.le_min_r|]. reflexivity.
  - apply lk_lt_pow2_log2; [|reflexivity]. rewrite N.shiftl_mul_pow2. change (2 ^ 12) with 4096. change (2 ^ 16) with 65536. lia.
Qed.

Lemma lk_api_user_data_step : forall st u, lk_ststep st (fst (wm_api_user_data st u)).
Proof.
  intros st u. unfold wm_api_user_data. cbv zeta.
  destruct (3 <? ud_stype u) eqn:E3; [apply lk_ststep_refl|].
  destruct (wm_raw_wr _ _ _) as [r1 h1] eqn:E1. destruct (wm_update_item_head _ _ _) as [r2 uh] eqn:E2. cbn [fst].
  apply lk_ststep_bstep; [reflexivity|]. cbn [wm_st_base wm_st_set_base].
  eapply lk_ud_append_bstep; [exact E1|exact E2|discriminate|reflexivity| |reflexivity].
  apply lk_ud_meta_lt. apply N.ltb_ge in E3. exact E3.
Qed.

Lemma lk_api_source_def_step : forall st d, lk_ststep st (fst (wm_api_source_def st d)).
Proof.
  intros st d. unfold wm_api_source_def. cbv zeta.
  destruct (JLS_SOURCE_COUNT <=? so_id d) eqn:Eid; [apply lk_ststep_refl|].
  destruct (existsb _ _); [apply lk_ststep_refl|].
  destruct (negb _); [apply lk_ststep_refl|].
  destruct (wm_raw_wr _ _ _) as [r1 h1] eqn:E1. destruct (wm_update_item_head _ _ _) as [r2 sh] eqn:E2. cbn [fst].
  apply lk_ststep_bstep; [reflexivity|]. cbn [wm_st_base].
  eapply lk_source_append_bstep; [exact E1|exact E2|discriminate|reflexivity| |reflexivity].
  apply N.leb_gt in Eid. unfold JLS_SOURCE_COUNT in Eid. lia.
Qed.

Lemma lk_api_flush_step : forall st, lk_ststep st (fst (wm_api_flush st)).
Proof.
  intro st. unfold wm_api_flush. cbv zeta. cbn [fst].
  apply lk_ststep_bstep; [reflexivity|]. cbn [wm_st_base wm_st_set_base]. apply lk_raw_flush_bstep.
Qed.

(* ================================================================ jls_wr_signal_def *)
Definition lk_mk_sig (d : sigdef) (tf tv ta tu : wm_track) (f : option wm_fsr) (a u : option wm_ts) : wm_signal :=
  {| wm_sg_def := d; wm_sg_tk_fsr := tf; wm_sg_tk_vsr := tv; wm_sg_tk_anno := ta; wm_sg_tk_utc := tu;
     wm_sg_fsr := f; wm_sg_anno := a; wm_sg_utc := u |}.

Lemma lk_sig_align_id : forall d0 d, wm_sig_align d0 = Some d -> sg_id d = sg_id d0.
Proof.
  intros d0 d H. unfold wm_sig_align in H. cbv zeta in H.
  destruct (wm_round_up _ _) as [sdf|]; [|discriminate].
  destruct (wm_round_up _ _) as [eps|]; [|discriminate].
  destruct (wm_round_up _ _) as [spd2|]; [|discriminate].
  destruct (_ <? _); [discriminate|]. destruct (_ <? _); [discriminate|].
  inversion H. reflexivity.
Qed.

Ltac lk_ty4 ty H :=
  let K := fresh "K" in
  assert (K : ty = 0 \/ ty = 1 \/ ty = 2 \/ ty = 3) by lia;
  destruct K as [K|[K|[K|K]]]; subst ty.

Lemma lk_focus_new : forall sigs b s d, lk_binv b s -> Forall (lk_sig_ok (wo_exts s)) sigs -> sg_id d < 256 ->
  lk_focus sigs b (lk_mk_sig d (wm_track0 0) (wm_track0 1) (wm_track0 2) (wm_track0 3) None None None) s.
Proof.
  intros sigs b s d Hb Hs Hid. split; [exact Hb|]. split.
  - intros ty Hty. unfold wm_sig_id. cbn [lk_mk_sig wm_sg_def].
    lk_ty4 ty Hty; cbn; apply lk_track0_ok; auto; lia.
  - intros x Hin _. rewrite Forall_forall in Hs. apply Hs. exact Hin.
Qed.

(* one new track of the signal under definition *)
Lemma lk_def_track_fstep : forall sigs b g ty b' t' g', wm_def_track b (wm_sig_id g) ty = (b', t') ->
  ty < 4 -> wm_sig_id g < 256 -> lk_tk g ty = wm_track0 ty ->
  wm_sig_id g' = wm_sig_id g -> lk_tk g' ty = t' ->
  (forall ty2, ty2 < 4 -> ty2 <> ty -> lk_tk g' ty2 = lk_tk g ty2) ->
  lk_fstep sigs b g b' g'.
Proof.
  intros sigs b g ty b' t' g' Heq Hty Hid H0 Hid' Htk Hoth.
  eapply lk_fstep_tstep; [exact Hty| |exact Hid'|exact Htk|exact Hoth].
  rewrite H0. apply lk_def_track_step; assumption.
Qed.

Lemma lk_api_signal_def_step : forall st d0, lk_ststep st (fst (wm_api_signal_def st d0)).
Proof.
  intros st d0. unfold wm_api_signal_def.
  destruct (JLS_SIGNAL_COUNT <=? sg_id d0) eqn:Eid; [apply lk_ststep_refl|].
  destruct (JLS_SOURCE_COUNT <=? sg_src d0); [apply lk_ststep_refl|].
  destruct (negb (existsb _ _)); [apply lk_ststep_refl|].
  destruct (wm_find_sig st (sg_id d0)) as [g0|] eqn:Efind; [apply lk_ststep_refl|].
  destruct (negb (_ || _)); [apply lk_ststep_refl|].
  destruct (negb (_ && _)); [apply lk_ststep_refl|].
  destruct (negb (wm_dt_valid _)); [apply lk_ststep_refl|].
  destruct (wm_sig_align d0) as [d|] eqn:Eal; [|apply lk_ststep_refl].
  destruct (_ && _); [apply lk_ststep_refl|].
  cbv zeta.
  pose proof (lk_sig_align_id _ _ Eal) as Hsid.
  assert (Hid : sg_id d < 256) by (rewrite Hsid; apply N.leb_gt in Eid; unfold JLS_SIGNAL_COUNT in Eid; lia).
  destruct (wm_raw_wr _ _ _) as [r1 h1] eqn:E1. destruct (wm_update_item_head _ _ _) as [r2 sh] eqn:E2.
  set (b1 := wm_b_set_signal_head (wm_b_set_raw (wm_st_base st) r2) sh).
  assert (B1 : lk_bstep (wm_st_base st) b1).
  { eapply lk_signal_append_bstep; [exact E1|exact E2|discriminate|reflexivity|lia|reflexivity]. }
  set (g0 := lk_mk_sig d (wm_track0 0) (wm_track0 1) (wm_track0 2) (wm_track0 3) None None None).
  (* the rest: a focus-step chain from g0 to the new signal, then the new state *)
  assert (Hend : forall b4 g4, lk_fstep (wm_st_sigs st) b1 g0 b4 g4 ->
            lk_ststep st {| wm_st_base := b4; wm_st_srcs := wm_st_srcs st; wm_st_sigs := wm_st_sigs st ++ [g4] |}).
  { intros b4 g4 (L & Hid4 & S). destruct B1 as [L1 S1].
    split; [cbn [wm_st_base]; eapply lk_le_trans; eauto|].
    intros s (Hb & Hsig) Hgood. unfold lk_stgood in Hgood. cbn [wm_st_base] in Hgood.
    assert (Hg1 : lk_bgood b1) by (eapply lk_good_le; eauto).
    destruct (S1 s Hb Hg1) as (s1 & Hb1 & Hfr1).
    assert (Hsig1 : Forall (lk_sig_ok (wo_exts s1)) (wm_st_sigs st)).
    { eapply Forall_impl; [|exact Hsig]. intros g Hg0 ty Hty. eapply lk_track_fr_none; [exact Hfr1|apply Hg0; exact Hty]. }
    destruct (S s1 (lk_focus_new _ _ _ d Hb1 Hsig1 Hid) Hgood) as (s4 & Hb4 & Hg4 & Ho4).
    exists s4. split; [exact Hb4|]. cbn [wm_st_sigs]. apply Forall_app. split.
    - apply Forall_forall. intros x Hx. apply Ho4; [exact Hx|].
      rewrite Hid4. unfold wm_sig_id at 2. cbn [g0 lk_mk_sig wm_sg_def]. rewrite Hsid.
      pose proof (find_none _ _ Efind x Hx) as Hn. cbv beta in Hn. apply N.eqb_neq. exact Hn.
    - constructor; [exact Hg4|constructor]. }
  assert (Hg0id : wm_sig_id g0 = sg_id d) by reflexivity.
  destruct (sg_type d =? JLS_SIGNAL_TYPE_FSR).
  - destruct (wm_def_track b1 (sg_id d) JLS_TRACK_TYPE_FSR) as [b2 tf] eqn:D1.
    destruct (wm_def_track b2 (sg_id d) JLS_TRACK_TYPE_ANNOTATION) as [b3 ta] eqn:D2.
    destruct (wm_def_track b3 (sg_id d) JLS_TRACK_TYPE_UTC) as [b4 tu] eqn:D3.
    cbn [fst]. apply Hend.
    set (g1 := lk_mk_sig d tf (wm_track0 1) (wm_track0 2) (wm_track0 3) None None None).
    set (g2 := lk_mk_sig d tf (wm_track0 1) ta (wm_track0 3) None None None).
    eapply lk_fstep_trans; [apply (lk_def_track_fstep _ b1 g0 0 b2 tf g1)|
      eapply lk_fstep_trans; [apply (lk_def_track_fstep _ b2 g1 2 b3 ta g2)|
        apply (lk_def_track_fstep _ b3 g2 3 b4 tu)]];
      try exact D1; try exact D2; try exact D3; try reflexivity; try exact Hid;
      try (intros ty2 H2 Hne; lk_ty4 ty2 H2; try reflexivity; exfalso; apply Hne; reflexivity).
  - destruct (wm_def_track b1 (sg_id d) JLS_TRACK_TYPE_VSR) as [b2 tv] eqn:D1.
    destruct (wm_def_track b2 (sg_id d) JLS_TRACK_TYPE_ANNOTATION) as [b3 ta] eqn:D2.
    cbn [fst]. apply Hend.
    set (g1 := lk_mk_sig d (wm_track0 0) tv (wm_track0 2) (wm_track0 3) None None None).
    eapply lk_fstep_trans; [apply (lk_def_track_fstep _ b1 g0 1 b2 tv g1)|
        apply (lk_def_track_fstep _ b2 g1 2 b3 ta)];
      try exact D1; try exact D2; try reflexivity; try exact Hid;
      try (intros ty2 H2 Hne; lk_ty4 ty2 H2; try reflexivity; exfalso; apply Hne; reflexivity).
Qed.

(* ================================================================ API calls on one signal *)
Lemma lk_validate_find : forall st sig g, wm_signal_validate st sig = (0, Some g) -> wm_find_sig st sig = Some g.
Proof.
  intros st sig g H. unfold wm_signal_validate in H.
  destruct (JLS_SIGNAL_COUNT <=? sig); [discriminate|].
  destruct (wm_find_sig st sig); [|discriminate]. inversion H. reflexivity.
Qed.
Lemma lk_validate_typed_find : forall st sig ty g, wm_signal_validate_typed st sig ty = (0, Some g) -> wm_find_sig st sig = Some g.
Proof.
  intros st sig ty g H. unfold wm_signal_validate_typed in H.
  destruct (wm_signal_validate st sig) as [rc og] eqn:E.
  destruct rc as [|p]; [destruct og as [g1|]|]; try discriminate.
  destruct (sg_type (wm_sg_def g1) =? ty); [|discriminate]. inversion H; subst g1.
  apply lk_validate_find. exact E.
Qed.

Ltac lk_oth := intros ty2 H2 Hne; lk_ty4 ty2 H2; try reflexivity; exfalso; apply Hne; reflexivity.

Lemma lk_api_fsr_omit_data_step : forall st sig en, lk_ststep st (fst (wm_api_fsr_omit_data st sig en)).
Proof.
  intros st sig en. unfold wm_api_fsr_omit_data.
  destruct (wm_signal_validate_typed st sig JLS_SIGNAL_TYPE_FSR) as [rc og] eqn:Ev.
  destruct rc as [|p]; [destruct og as [g|]|]; try apply lk_ststep_refl.
  pose proof (lk_validate_typed_find _ _ _ _ Ev) as Hfind.
  destruct (wm_sg_fsr g) as [f|]; cbn [fst].
  - eapply lk_ststep_fstep; [exact Hfind|]. apply lk_fstep_same; [reflexivity|]. intros ty Hty. reflexivity.
  - apply lk_ststep_fault. reflexivity.
Qed.

Lemma lk_api_annotation_step : forall st sig a, lk_ststep st (fst (wm_api_annotation st sig a)).
Proof.
  intros st sig a. unfold wm_api_annotation.
  destruct (wm_signal_validate st sig) as [rc og] eqn:Ev.
  destruct rc as [|p]; [destruct og as [g|]|]; try apply lk_ststep_refl.
  pose proof (lk_validate_find _ _ _ Ev) as Hfind.
  destruct (lk_find_sig_some _ _ _ Hfind) as [Hin Hid].
  destruct (256 <=? an_type a); [apply lk_ststep_refl|].
  destruct (256 <=? an_stype a); [apply lk_ststep_refl|].
  destruct (negb _); [apply lk_ststep_refl|].
  destruct (wm_sg_anno g) as [ts|]; [|cbn [fst]; apply lk_ststep_fault; reflexivity].
  cbv zeta.
  destruct (wm_raw_wr _ _ _) as [r1 h1] eqn:E1. destruct (wm_update_item_head _ _ _) as [r2 dh] eqn:E2.
  destruct (wm_track_update _ _ _ _ _) as [b1 t1] eqn:E3. cbn [fst].
  eapply lk_ststep_fstep; [exact Hfind|].
  assert (Hsig : sig < 256).
  { unfold wm_signal_validate in Ev. destruct (JLS_SIGNAL_COUNT <=? sig) eqn:El; [discriminate|].
    apply N.leb_gt in El. exact El. }
  eapply (lk_fstep_tstep _ _ g 2); [reflexivity| |reflexivity|reflexivity|lk_oth].
  rewrite Hid. change (lk_tk g 2) with (wm_sg_tk_anno g).
  eapply lk_tstep_trans; [|apply (lk_ts_add_step sig 2 {| wm_tx_base := b1; wm_tx_tk := t1; wm_tx_ts := ts |})].
  cbn [wm_tx_base wm_tx_tk].
  eapply lk_data_update_step; [exact E1|exact E2|exact E3|discriminate|reflexivity|lia|reflexivity].
Qed.

Lemma lk_api_utc_step : forall st sig sample_id utc, lk_ststep st (fst (wm_api_utc st sig sample_id utc)).
Proof.
  intros st sig sample_id utc. unfold wm_api_utc.
  destruct (wm_signal_validate_typed st sig JLS_SIGNAL_TYPE_FSR) as [rc og] eqn:Ev.
  destruct rc as [|p]; [destruct og as [g|]|]; try apply lk_ststep_refl.
  pose proof (lk_validate_typed_find _ _ _ _ Ev) as Hfind.
  destruct (lk_find_sig_some _ _ _ Hfind) as [Hin Hid].
  destruct (wm_sg_utc g) as [ts|]; [|cbn [fst]; apply lk_ststep_fault; reflexivity].
  cbv zeta.
  destruct (wm_raw_wr _ _ _) as [r1 h1] eqn:E1. destruct (wm_update_item_head _ _ _) as [r2 dh] eqn:E2.
  destruct (wm_track_update _ _ _ _ _) as [b1 t1] eqn:E3. cbn [fst].
  eapply lk_ststep_fstep; [exact Hfind|].
  assert (Hsig : sig < 256).
  { unfold wm_signal_validate_typed, wm_signal_validate in Ev. destruct (JLS_SIGNAL_COUNT <=? sig) eqn:El; [discriminate|].
    apply N.leb_gt in El. exact El. }
  eapply (lk_fstep_tstep _ _ g 3); [reflexivity| |reflexivity|reflexivity|lk_oth].
  rewrite Hid. change (lk_tk g 3) with (wm_sg_tk_utc g).
  eapply lk_tstep_trans; [|apply (lk_ts_add_step sig 3 {| wm_tx_base := b1; wm_tx_tk := t1; wm_tx_ts := ts |})].
  cbn [wm_tx_base wm_tx_tk].
  eapply lk_data_update_step; [exact E1|exact E2|exact E3|discriminate|reflexivity|lia|reflexivity].
Qed.

Section LK_API.
Variable summ1 : N -> list N -> wm_sentry.
Variable summN : bool -> list wm_sentry -> wm_sentry.

Lemma lk_api_fsr_step : forall st sig sample_id samples, lk_ststep st (fst (wm_api_fsr summ1 summN st sig sample_id samples)).
Proof.
  intros st sig sample_id samples. unfold wm_api_fsr.
  destruct (wm_signal_validate_typed st sig JLS_SIGNAL_TYPE_FSR) as [rc og] eqn:Ev.
  destruct rc as [|p]; [destruct og as [g|]|]; try apply lk_ststep_refl.
  pose proof (lk_validate_typed_find _ _ _ _ Ev) as Hfind.
  destruct (wm_sg_fsr g) as [f|]; [|cbn [fst]; apply lk_ststep_fault; reflexivity].
  cbv zeta. cbn [fst].
  eapply lk_ststep_fstep; [exact Hfind|].
  eapply (lk_fstep_tstep _ _ g 0); [reflexivity| |reflexivity|reflexivity|lk_oth].
  apply (lk_fsr_data_step summ1 summN 0 (wm_sg_def g) {| wm_fx_base := wm_st_base st; wm_fx_tk := wm_sg_tk_fsr g; wm_fx_fsr := f |}).
Qed.

(* ---- jls_wr_close ---- *)
(* the three phases of closing one signal, as functions of (base, signal record) *)
Definition lk_cl_fsr (b : wm_base) (g : wm_signal) : wm_base * wm_signal :=
  match wm_sg_fsr g with
  | None => (b, g)
  | Some f =>
    let x := wm_fsr_close summ1 summN (wm_sg_def g) {| wm_fx_base := b; wm_fx_tk := wm_sg_tk_fsr g; wm_fx_fsr := f |} in
    (wm_fx_base x, wm_sg_set_fsr g (wm_fx_tk x) None)
  end.
Definition lk_cl_anno (id : N) (b : wm_base) (g : wm_signal) : wm_base * wm_signal :=
  match wm_sg_anno g with
  | None => (b, g)
  | Some ts =>
    let x := wm_ts_close id {| wm_tx_base := b; wm_tx_tk := wm_sg_tk_anno g; wm_tx_ts := ts |} in
    (wm_tx_base x, wm_sg_set_anno g (wm_tx_tk x) None)
  end.
Definition lk_cl_utc (id : N) (b : wm_base) (g : wm_signal) : wm_base * wm_signal :=
  match wm_sg_utc g with
  | None => (b, g)
  | Some ts =>
    let x := wm_ts_close id {| wm_tx_base := b; wm_tx_tk := wm_sg_tk_utc g; wm_tx_ts := ts |} in
    (wm_tx_base x, wm_sg_set_utc g (wm_tx_tk x) None)
  end.

Lemma lk_cl_fsr_fstep : forall sigs b g, lk_fstep sigs b g (fst (lk_cl_fsr b g)) (snd (lk_cl_fsr b g)).
Proof.
  intros sigs b g. unfold lk_cl_fsr. destruct (wm_sg_fsr g) as [f|]; cbv zeta; cbn [fst snd]; [|apply lk_fstep_refl].
  match goal with |- context [wm_fsr_close ?a ?b ?c ?d] =>
    pose proof (lk_fsr_close_step a b 0 c d) as H; set (x := wm_fsr_close a b c d) in *; clearbody x end.
  eapply (lk_fstep_tstep _ _ g 0); [reflexivity|exact H|reflexivity|reflexivity|lk_oth].
Qed.
Lemma lk_cl_anno_fstep : forall sigs b g, lk_fstep sigs b g (fst (lk_cl_anno (wm_sig_id g) b g)) (snd (lk_cl_anno (wm_sig_id g) b g)).
Proof.
  intros sigs b g. unfold lk_cl_anno. destruct (wm_sg_anno g) as [ts|]; cbv zeta; cbn [fst snd]; [|apply lk_fstep_refl].
  match goal with |- context [wm_ts_close ?a ?b] =>
    pose proof (lk_ts_close_step a 2 b) as H; set (x := wm_ts_close a b) in *; clearbody x end.
  eapply (lk_fstep_tstep _ _ g 2); [reflexivity|exact H|reflexivity|reflexivity|lk_oth].
Qed.
Lemma lk_cl_utc_fstep : forall sigs b g, lk_fstep sigs b g (fst (lk_cl_utc (wm_sig_id g) b g)) (snd (lk_cl_utc (wm_sig_id g) b g)).
Proof.
  intros sigs b g. unfold lk_cl_utc. destruct (wm_sg_utc g) as [ts|]; cbv zeta; cbn [fst snd]; [|apply lk_fstep_refl].
  match goal with |- context [wm_ts_close ?a ?b] =>
    pose proof (lk_ts_close_step a 3 b) as H; set (x := wm_ts_close a b) in *; clearbody x end.
  eapply (lk_fstep_tstep _ _ g 3); [reflexivity|exact H|reflexivity|reflexivity|lk_oth].
Qed.

Lemma lk_close_signal_step : forall st id, lk_ststep st (wm_close_signal summ1 summN st id).
Proof.
  intros st id. unfold wm_close_signal.
  destruct (wm_find_sig st id) as [g|] eqn:Hfind; [|apply lk_ststep_refl].
  destruct (lk_find_sig_some _ _ _ Hfind) as [_ Hid].
  change (lk_ststep st (let '(b1, s1) := lk_cl_fsr (wm_st_base st) g in
                         let '(b2, s2) := lk_cl_anno id b1 s1 in
                         let '(b3, s3) := lk_cl_utc id b2 s2 in wm_put_sig st b3 s3)).
  pose proof (lk_cl_fsr_fstep (wm_st_sigs st) (wm_st_base st) g) as F1.
  destruct (lk_cl_fsr (wm_st_base st) g) as [b1 g1]. cbn [fst snd] in F1.
  assert (I1 : wm_sig_id g1 = id) by (destruct F1 as (_ & I & _); congruence).
  pose proof (lk_cl_anno_fstep (wm_st_sigs st) b1 g1) as F2. rewrite I1 in F2.
  destruct (lk_cl_anno id b1 g1) as [b2 g2]. cbn [fst snd] in F2.
  assert (I2 : wm_sig_id g2 = id) by (destruct F2 as (_ & I & _); congruence).
  pose proof (lk_cl_utc_fstep (wm_st_sigs st) b2 g2) as F3. rewrite I2 in F3.
  destruct (lk_cl_utc id b2 g2) as [b3 g3]. cbn [fst snd] in F3.
  eapply lk_ststep_fstep; [exact Hfind|].
  eapply lk_fstep_trans; [exact F1|]. eapply lk_fstep_trans; [exact F2|exact F3].
Qed.

(* jls_wr_close up to (not including) the final file-header write *)
Definition lk_close_pre (st : wm_state) : wm_state :=
  let st1 := fold_left (wm_close_signal summ1 summN) wm_signal_ids st in
  wm_st_set_base st1 (wm_core_wr_end (wm_st_base st1)).

Lemma lk_api_close_eq : forall st,
  wm_api_close summ1 summN st =
  wm_st_set_base (lk_close_pre st) (wm_b_set_raw (wm_st_base (lk_close_pre st)) (wm_raw_close (wm_b_raw (wm_st_base (lk_close_pre st))))).
Proof.
  intro st. unfold wm_api_close, lk_close_pre. cbv zeta.
  generalize (fold_left (wm_close_signal summ1 summN) wm_signal_ids st). intro st1.
  generalize (wm_core_wr_end (wm_st_base st1)). intro b. destruct st1. reflexivity.
Qed.

Lemma lk_close_pre_step : forall st, lk_ststep st (lk_close_pre st).
Proof.
  intro st. unfold lk_close_pre. cbv zeta.
  assert (H1 : forall l st0, lk_ststep st0 (fold_left (wm_close_signal summ1 summN) l st0)).
  { induction l as [|id l IH]; intro st0; cbn [fold_left]; [apply lk_ststep_refl|].
    eapply lk_ststep_trans; [apply lk_close_signal_step|apply IH]. }
  eapply lk_ststep_trans; [apply (H1 wm_signal_ids st)|].
  set (st1 := fold_left (wm_close_signal summ1 summN) wm_signal_ids st).
  apply lk_ststep_bstep; [reflexivity|]. cbn [wm_st_base wm_st_set_base]. apply lk_core_wr_end_bstep.
Qed.

(* ---- any call, any program ---- *)
Lemma lk_step_rc_step : forall st o, lk_ststep st (fst (wm_step_rc summ1 summN st o)).
Proof.
  intros st o. destruct o; cbn [wm_step_rc].
  - apply lk_api_source_def_step.
  - apply lk_api_signal_def_step.
  - apply lk_api_fsr_step.
  - apply lk_api_fsr_omit_data_step.
  - apply lk_api_annotation_step.
  - apply lk_api_utc_step.
  - apply lk_api_user_data_step.
  - apply lk_api_flush_step.
Qed.

Lemma lk_steps_step : forall p st rcs, lk_ststep st (fst (wm_steps summ1 summN st p rcs)).
Proof.
  induction p as [|o p IH]; intros st rcs; cbn [wm_steps]; [apply lk_ststep_refl|].
  pose proof (lk_step_rc_step st o) as H. destruct (wm_step_rc summ1 summN st o) as [st1 rc]. cbn [fst] in H.
  eapply lk_ststep_trans; [exact H|apply IH].
Qed.

End LK_API.

(* ---- jls_wr_open ---- *)
Lemma lk_state0_inv : exists s, lk_stinv wm_state0 s.
Proof.
  destruct wmw_sim_open as (s & Hsim & Hex). exists s. split; [|constructor].
  unfold wm_state0. cbn [wm_st_base]. split.
  - split; [exact Hsim|]. cbn [wm_b_source_head wm_b_signal_head wm_b_ud_head]. repeat split; apply wmw_ref0.
  - rewrite Hex. unfold lk_dl, lk_list. cbn. auto.
Qed.

Lemma lk_api_open_step : lk_ststep wm_state0 wm_api_open.
Proof.
  unfold wm_api_open.
  pose proof (lk_api_user_data_step wm_state0 {| ud_meta := 0; ud_stype := JLS_STORAGE_TYPE_INVALID; ud_data := [] |}) as H1.
  destruct (wm_api_user_data wm_state0 _) as [st1 rc1]. cbn [fst] in H1.
  pose proof (lk_api_source_def_step st1 source0) as H2.
  destruct (wm_api_source_def st1 source0) as [st2 rc2]. cbn [fst] in H2.
  pose proof (lk_api_signal_def_step st2 wm_signal0_raw) as H3.
  destruct (wm_api_signal_def st2 wm_signal0_raw) as [st3 rc3]. cbn [fst] in H3.
  eapply lk_ststep_trans; [exact H1|]. eapply lk_ststep_trans; [exact H2|exact H3].
Qed.

Lemma lk_run_snoc_inv : forall lenient l s i e s2, wo_run lenient s i (l ++ [e]) = inl s2 ->
  exists s1, wo_run lenient s i l = inl s1 /\ wo_step lenient s1 e = inl s2.
Proof.
  induction l as [|x l IH]; intros s i e s2 H; cbn [app wo_run] in *.
  - destruct (wo_step lenient s e) as [s1|] eqn:Es; [|discriminate]. exists s. split; [reflexivity|]. inversion H; subst. exact Es.
  - destruct (wo_step lenient s x) as [s1|]; [|discriminate]. eapply IH; eauto.
Qed.

(* ================================================================ the theorems *)
Lemma lk_stinv_run : forall st s, lk_stinv st s -> wo_run false wo_st0 0 (lk_evs (wm_st_log st)) = inl s.
Proof. intros st s (((Hsim & _) & _) & _). exact (proj1 Hsim). Qed.

Lemma lk_reach_accepted : forall st, lk_ststep wm_state0 st -> wm_st_fault st = false -> lk_bounded (wm_st_log st) ->
  exists s, lk_stinv st s.
Proof.
  intros st [_ S] Hf Hb. destruct lk_state0_inv as (s0 & H0). apply (S s0 H0). split; assumption.
Qed.

