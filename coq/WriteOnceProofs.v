(* Soundness of the write-once checker: every log accepted by wo_check_log satisfies the
   semantic write-once property, stated over the byte contents of the file after each prefix of
   the log and over the chunks found in those bytes (not over the checker's state). *)
From Coq Require Import NArith ZArith List Bool Lia Arith.
From Coq Require Import ZifyBool ZifyN ZifyNat.
From JLS Require Import Generated CrcDefs CrcProofs Format FormatProofs WriteOnce.
Import ListNotations.
Local Open Scope N_scope.
Ltac Zify.zify_post_hook ::= Z.div_mod_to_equations.

(* ---------------------------------------------------------------- the semantic statement *)
Definition wo_size (h : fm_chunk_header) : N := fm_chunk_size (fm_payload_length h).

(* the chunks of a file under construction: starting at offset 32, each CRC-valid header whose chunk
   (header, payload, pad, CRC) lies completely inside the file, the next one starting where it ends.
   Most recent first; the last argument is the offset where the next chunk would start. *)
Inductive wo_chunks (f : list N) : list (N * fm_chunk_header) -> N -> Prop :=
| wo_chunks_nil : wo_chunks f [] 32
| wo_chunks_cons : forall r o h, wo_chunks f r o ->
    fm_decode_chunk_header (skipn (N.to_nat o) f) = Some h ->
    o + wo_size h <= N.of_nat (length f) ->
    wo_chunks f ((o, h) :: r) (o + wo_size h).

(* (o, h): a completed chunk of f with header h at offset o *)
Definition wo_completed (f : list N) (o : N) (h : fm_chunk_header) : Prop :=
  exists l e, wo_chunks f l e /\ In (o, h) l.

Definition wo_same_fields (lenient : bool) (h h' : fm_chunk_header) : Prop :=
  fm_item_prev h' = fm_item_prev h /\ fm_tag h' = fm_tag h /\ fm_rsv0 h' = fm_rsv0 h /\
  fm_chunk_meta h' = fm_chunk_meta h /\ fm_payload_length h' = fm_payload_length h /\
  (lenient = false -> fm_payload_prev_length h' = fm_payload_prev_length h).

(* one write took the file from f to f' *)
Definition wo_step_ok (lenient : bool) (f f' : list N) : Prop :=
  (* the file never shrinks *)
  (length f <= length f')%nat /\
  forall o h, wo_completed f o h ->
    (* its header is still a CRC-valid header with the same item_prev, tag, rsv0, chunk_meta, payload_length
       (and payload_prev_length): only item_next and the CRC may differ *)
    (exists h', fm_decode_chunk_header (skipn (N.to_nat o) f') = Some h' /\ wo_same_fields lenient h h') /\
    (* unless it is a TRACK_*_HEAD chunk, every byte of its payload, pad and payload CRC is unchanged *)
    (fm_is_head_tag (fm_tag h) = false ->
       forall i, o + 32 <= i -> i < o + wo_size h -> nth (N.to_nat i) f' 0 = nth (N.to_nat i) f 0).

Definition wo_write_once (lenient : bool) (l : list wo_ev) : Prop :=
  forall l1 w l2, l = l1 ++ w :: l2 -> wo_step_ok lenient (wo_file_after l1) (wo_file_after (l1 ++ [w])).

(* ---------------------------------------------------------------- lists *)
Lemma wo_nth_skipn : forall (A : Type) a (l : list A) i d, nth i (skipn a l) d = nth (a + i) l d.
Proof.
  induction a as [|a IH]; intros l i d; [reflexivity|].
  destruct l as [|x l]; cbn [skipn Nat.add nth]; [now destruct i|]. apply IH.
Qed.
Lemma wo_nth_firstn : forall (A : Type) n (l : list A) i d, (i < n)%nat -> nth i (firstn n l) d = nth i l d.
Proof.
  induction n as [|n IH]; intros l i d Hi; [lia|].
  destruct l as [|x l]; [reflexivity|]. destruct i as [|i]; cbn [firstn nth]; [reflexivity|]. apply IH. lia.
Qed.

Lemma wo_window_eq : forall (f1 f2 : list N) a n,
  (forall i, (a <= i < a + n)%nat -> nth i f1 0 = nth i f2 0) ->
  (a + n <= length f1)%nat -> (a + n <= length f2)%nat ->
  firstn n (skipn a f1) = firstn n (skipn a f2).
Proof.
  intros f1 f2 a n H H1 H2.
  apply nth_ext with (d := 0) (d' := 0).
  - rewrite !firstn_length, !skipn_length. lia.
  - intros i Hi. rewrite firstn_length, skipn_length in Hi.
    rewrite !wo_nth_firstn by lia. rewrite !wo_nth_skipn. apply H. lia.
Qed.

Lemma wo_decode_local : forall f1 f2 o,
  firstn 32 (skipn o f1) = firstn 32 (skipn o f2) ->
  fm_decode_chunk_header (skipn o f1) = fm_decode_chunk_header (skipn o f2).
Proof.
  intros f1 f2 o H. rewrite <- (fm_decode_chunk_header_firstn (skipn o f1)), H. apply fm_decode_chunk_header_firstn.
Qed.

Lemma wo_decode_unchanged : forall f1 f2 o,
  (forall i, (o <= i < o + 32)%nat -> nth i f1 0 = nth i f2 0) ->
  (o + 32 <= length f1)%nat -> (o + 32 <= length f2)%nat ->
  fm_decode_chunk_header (skipn o f1) = fm_decode_chunk_header (skipn o f2).
Proof. intros. apply wo_decode_local. now apply wo_window_eq. Qed.

(* ---------------------------------------------------------------- writes *)
Lemma wo_write_append : forall f off b, N.to_nat off = length f -> wo_apply_write f off b = f ++ b.
Proof.
  intros f off b H. unfold wo_apply_write. rewrite H, firstn_all, Nat.sub_diag.
  rewrite skipn_all2 by lia. cbn [repeat app]. now rewrite app_nil_r.
Qed.

Lemma wo_write_inplace : forall f off b, (N.to_nat off + length b <= length f)%nat ->
  wo_apply_write f off b = firstn (N.to_nat off) f ++ b ++ skipn (N.to_nat off + length b) f.
Proof.
  intros f off b H. unfold wo_apply_write.
  replace (N.to_nat off - length f)%nat with 0%nat by lia. reflexivity.
Qed.

Lemma wo_inplace_length : forall (f : list N) o b, (o + length b <= length f)%nat ->
  length (firstn o f ++ b ++ skipn (o + length b) f) = length f.
Proof. intros. rewrite !app_length, firstn_length, skipn_length. lia. Qed.

Lemma wo_inplace_nth : forall (f : list N) o b i, (o + length b <= length f)%nat ->
  (i < o \/ o + length b <= i)%nat ->
  nth i (firstn o f ++ b ++ skipn (o + length b) f) 0 = nth i f 0.
Proof.
  intros f o b i H Hi.
  assert (Hl : length (firstn o f) = o) by (rewrite firstn_length; lia).
  destruct Hi as [Hi|Hi].
  - rewrite app_nth1 by lia. apply wo_nth_firstn. exact Hi.
  - rewrite app_nth2 by lia. rewrite app_nth2 by lia. rewrite wo_nth_skipn. f_equal. lia.
Qed.

Lemma wo_inplace_window : forall (f : list N) o b, (o + length b <= length f)%nat ->
  firstn (length b) (skipn o (firstn o f ++ b ++ skipn (o + length b) f)) = b.
Proof.
  intros f o b H. rewrite skipn_app_exact by (rewrite firstn_length; lia).
  now rewrite firstn_app_exact.
Qed.

Lemma wo_append_decode : forall (f b : list N) o, (o + 32 <= length f)%nat ->
  fm_decode_chunk_header (skipn o (f ++ b)) = fm_decode_chunk_header (skipn o f).
Proof.
  intros f b o H. apply wo_decode_local. rewrite skipn_app.
  rewrite firstn_app. rewrite skipn_length. replace (32 - (length f - o))%nat with 0%nat by lia.
  cbn [firstn]. now rewrite app_nil_r.
Qed.

Lemma wo_append_nth : forall (f b : list N) i, (i < length f)%nat -> nth i (f ++ b) 0 = nth i f 0.
Proof. intros. now apply app_nth1. Qed.

(* ---------------------------------------------------------------- chains *)
Lemma wo_size_ge : forall h, 32 <= wo_size h.
Proof. intros. apply fm_chunk_size_ge. Qed.

Lemma wo_chunks_bounds : forall f l e, wo_chunks f l e ->
  32 <= e /\ forall o h, In (o, h) l -> 32 <= o /\ o + wo_size h <= e /\ e <= N.of_nat (length f) /\
     fm_decode_chunk_header (skipn (N.to_nat o) f) = Some h.
Proof.
  intros f l e H. induction H as [|r o h Hr IH Hd Hb].
  - split; [lia|]. intros o h [].
  - destruct IH as [IH1 IH2]. pose proof (wo_size_ge h). split; [lia|].
    intros o' h' [E|Hin].
    + inversion E; subst. repeat split; try lia. exact Hd.
    + destruct (IH2 _ _ Hin) as (A & B & C & D). pose proof (wo_size_ge h'). repeat split; try lia. exact D.
Qed.

Lemma wo_chunks_disjoint : forall f l e, wo_chunks f l e ->
  forall o1 h1 o2 h2, In (o1, h1) l -> In (o2, h2) l ->
    (o1 = o2 /\ h1 = h2) \/ o1 + wo_size h1 <= o2 \/ o2 + wo_size h2 <= o1.
Proof.
  intros f l e H. induction H as [|r o h Hr IH Hd Hb]; intros o1 h1 o2 h2 H1 H2; [destruct H1|].
  destruct (wo_chunks_bounds _ _ _ Hr) as [_ Hbd].
  destruct H1 as [E1|H1], H2 as [E2|H2].
  - inversion E1; inversion E2; subst. now left.
  - inversion E1; subst. destruct (Hbd _ _ H2) as (_ & B & _). right; right. exact B.
  - inversion E2; subst. destruct (Hbd _ _ H1) as (_ & B & _). right; left. exact B.
  - now apply IH.
Qed.

Lemma wo_chunks_end_fun : forall f l e1 e2, wo_chunks f l e1 -> wo_chunks f l e2 -> e1 = e2.
Proof. intros f l e1 e2 H1 H2. inversion H1; subst; inversion H2; subst; reflexivity. Qed.

(* a chain that contains r as its older part either ends where r ends or continues with a chunk there *)
Lemma wo_chunks_split : forall f pre r E o, wo_chunks f (pre ++ r) E -> wo_chunks f r o ->
  (pre = [] /\ E = o) \/ (exists pre' h', pre = pre' ++ [(o, h')]).
Proof.
  induction pre as [|x pre IH]; intros r E o H Hr.
  - left. split; [reflexivity|]. eapply wo_chunks_end_fun; eauto.
  - right. cbn [app] in H. inversion H as [|r' o1 h1 Hr1 Hd1 Hb1]; subst.
    destruct (IH _ _ _ Hr1 Hr) as [[-> ->]|(pre' & h' & ->)].
    + exists [], h1. reflexivity.
    + exists ((o1, h1) :: pre'), h'. reflexivity.
Qed.

(* nothing complete starts at e *)
Definition wo_tail_ok (f : list N) (e : N) : Prop :=
  forall h, fm_decode_chunk_header (skipn (N.to_nat e) f) = Some h -> N.of_nat (length f) < e + wo_size h.

(* the chain of f is unique: with nothing complete after L, every chain of f is an older part of L *)
Lemma wo_chunks_complete : forall f L E, wo_chunks f L E -> wo_tail_ok f E ->
  forall l e, wo_chunks f l e -> exists pre, L = pre ++ l.
Proof.
  intros f L E HL HT l e H. induction H as [|r o h Hr IH Hd Hb].
  - exists L. now rewrite app_nil_r.
  - destruct IH as [pre ->].
    destruct (wo_chunks_split _ _ _ _ _ HL Hr) as [[-> ->]|(pre' & h' & ->)].
    + exfalso. specialize (HT _ Hd). lia.
    + exists pre'. rewrite <- app_assoc. cbn [app].
      assert (Hin : In (o, h') ((pre' ++ [(o, h')]) ++ r)) by (apply in_or_app; left; apply in_or_app; right; now left).
      destruct (wo_chunks_bounds _ _ _ HL) as [_ Hbd]. destruct (Hbd _ _ Hin) as (_ & _ & _ & Hd').
      rewrite Hd in Hd'. inversion Hd'; subst. reflexivity.
Qed.

Lemma wo_completed_in : forall f L E, wo_chunks f L E -> wo_tail_ok f E ->
  forall o h, wo_completed f o h -> In (o, h) L.
Proof.
  intros f L E HL HT o h (l & e & Hl & Hin).
  destruct (wo_chunks_complete _ _ _ HL HT _ _ Hl) as [pre ->]. apply in_or_app. now right.
Qed.

(* chains survive changes that leave every header of the chain intact *)
Lemma wo_chunks_preserved : forall f f' l e, wo_chunks f l e ->
  (length f <= length f')%nat ->
  (forall o h, In (o, h) l -> fm_decode_chunk_header (skipn (N.to_nat o) f') = Some h) ->
  wo_chunks f' l e.
Proof.
  intros f f' l e H Hlen. induction H as [|r o h Hr IH Hd Hb]; intros Hk; [constructor|].
  constructor.
  - apply IH. intros o' h' Hin. apply Hk. now right.
  - apply Hk. now left.
  - lia.
Qed.

(* ---------------------------------------------------------------- the invariant *)
Definition wo_pairs (exts : list wo_ext) : list (N * fm_chunk_header) := map (fun x => (wo_e_off x, wo_e_hdr x)) exts.

Definition wo_pend_ok (s : wo_st) (f : list N) : Prop :=
  match wo_pending s with
  | WoIdle => wo_end s = wo_len s
  | WoHdr h => fm_decode_chunk_header (skipn (N.to_nat (wo_end s)) f) = Some h /\ wo_len s = wo_end s + 32 /\ fm_payload_length h <> 0
  | WoPay h p => fm_decode_chunk_header (skipn (N.to_nat (wo_end s)) f) = Some h /\
                 wo_len s = wo_end s + 32 + fm_payload_length h /\ fm_payload_length h <> 0
  | WoTbl o h p => wo_end s = wo_len s /\ In (o, h) (wo_pairs (wo_exts s)) /\ fm_payload_length h = SIZEOF_track_head /\
                   fm_is_head_tag (fm_tag h) = true
  end.

Record wo_inv (s : wo_st) (f : list N) : Prop := {
  wi_len : wo_len s = N.of_nat (length f);
  wi_empty : wo_len s = 0 -> wo_exts s = [] /\ wo_pending s = WoIdle;
  wi_chain : wo_len s <> 0 -> wo_chunks f (wo_pairs (wo_exts s)) (wo_end s);
  wi_pend : wo_len s <> 0 -> wo_pend_ok s f }.

Lemma wo_inv_tail : forall s f, wo_inv s f -> wo_len s <> 0 -> wo_tail_ok f (wo_end s).
Proof.
  intros s f I Hne h Hd. pose proof (wi_len _ _ I) as Hl. pose proof (wi_pend _ _ I Hne) as Hp.
  unfold wo_pend_ok in Hp. pose proof (wo_size_ge h) as Hs.
  destruct (wo_pending s) as [|h0|h0 p|o h0 p].
  - lia.
  - destruct Hp as (Hd0 & Hlen & Hpl). rewrite Hd in Hd0. inversion Hd0; subst h0.
    unfold wo_size, fm_chunk_size, fm_disk_len, SIZEOF_chunk_header, RAW_CRC_SIZE.
    apply N.eqb_neq in Hpl. rewrite Hpl. lia.
  - destruct Hp as (Hd0 & Hlen & Hpl). rewrite Hd in Hd0. inversion Hd0; subst h0.
    unfold wo_size, fm_chunk_size, fm_disk_len, SIZEOF_chunk_header, RAW_CRC_SIZE.
    apply N.eqb_neq in Hpl. rewrite Hpl. lia.
  - destruct Hp as (He & _). lia.
Qed.

Lemma wo_completed_nil : forall o h, ~ wo_completed [] o h.
Proof.
  intros o h (l & e & Hl & Hin). destruct (wo_chunks_bounds _ _ _ Hl) as [_ Hb].
  destruct (Hb _ _ Hin) as (A & B & C & _). pose proof (wo_size_ge h). cbn in C. lia.
Qed.

Lemma wo_inv_completed : forall s f o h, wo_inv s f -> wo_completed f o h ->
  wo_len s <> 0 /\ In (o, h) (wo_pairs (wo_exts s)).
Proof.
  intros s f o h I Hc.
  assert (Hne : wo_len s <> 0).
  { intro E. pose proof (wi_len _ _ I) as Hl. rewrite E in Hl. destruct f; [|cbn in Hl; lia].
    now apply wo_completed_nil in Hc. }
  split; [exact Hne|].
  eapply wo_completed_in; [apply (wi_chain _ _ I Hne)|apply (wo_inv_tail _ _ I Hne)|exact Hc].
Qed.

(* ---------------------------------------------------------------- the general step lemma *)
Lemma wo_same_fields_refl : forall b h, wo_same_fields b h h.
Proof. intros. repeat split; reflexivity. Qed.

Lemma wo_step_ok_from : forall lenient s f f',
  wo_inv s f -> (length f <= length f')%nat ->
  (forall o h, In (o, h) (wo_pairs (wo_exts s)) ->
     exists h', fm_decode_chunk_header (skipn (N.to_nat o) f') = Some h' /\ wo_same_fields lenient h h') ->
  (forall o h, In (o, h) (wo_pairs (wo_exts s)) -> fm_is_head_tag (fm_tag h) = false ->
     forall i, o + 32 <= i -> i < o + wo_size h -> nth (N.to_nat i) f' 0 = nth (N.to_nat i) f 0) ->
  wo_step_ok lenient f f'.
Proof.
  intros lenient s f f' I Hlen H1 H2. split; [exact Hlen|].
  intros o h Hc. destruct (wo_inv_completed _ _ _ _ I Hc) as [_ Hin]. split.
  - now apply H1.
  - intros Hh. now apply H2.
Qed.

(* appends change nothing that exists *)
Lemma wo_step_ok_append : forall lenient s f b, wo_inv s f -> wo_step_ok lenient f (f ++ b).
Proof.
  intros lenient s f b I. apply (wo_step_ok_from lenient s); [exact I|rewrite app_length; lia| |].
  - intros o h Hin. exists h. split; [|apply wo_same_fields_refl].
    assert (Hne : wo_len s <> 0).
    { intro E. destruct (wi_empty _ _ I E) as [Hx _]. rewrite Hx in Hin. destruct Hin. }
    destruct (wo_chunks_bounds _ _ _ (wi_chain _ _ I Hne)) as [_ Hb].
    destruct (Hb _ _ Hin) as (A & B & C & D). pose proof (wo_size_ge h).
    rewrite wo_append_decode by lia. exact D.
  - intros o h Hin _ i Hi1 Hi2.
    assert (Hne : wo_len s <> 0).
    { intro E. destruct (wi_empty _ _ I E) as [Hx _]. rewrite Hx in Hin. destruct Hin. }
    destruct (wo_chunks_bounds _ _ _ (wi_chain _ _ I Hne)) as [_ Hb].
    destruct (Hb _ _ Hin) as (A & B & C & D).
    apply wo_append_nth. lia.
Qed.

(* an in-place write [a, a+|b|) that avoids a chunk's header leaves the header readable *)
Lemma wo_inplace_decode_other : forall (f : list N) a b o,
  (a + length b <= length f)%nat -> (o + 32 <= length f)%nat -> (o + 32 <= a \/ a + length b <= o)%nat ->
  fm_decode_chunk_header (skipn o (firstn a f ++ b ++ skipn (a + length b) f)) = fm_decode_chunk_header (skipn o f).
Proof.
  intros f a b o Ha Ho Hd. apply wo_decode_unchanged.
  - intros i Hi. apply wo_inplace_nth; lia.
  - rewrite wo_inplace_length; lia.
  - exact Ho.
Qed.

Lemma wo_pairs_in : forall x l, In x l -> In (wo_e_off x, wo_e_hdr x) (wo_pairs l).
Proof. intros x l H. unfold wo_pairs. now apply (in_map (fun x => (wo_e_off x, wo_e_hdr x))). Qed.

Lemma wo_find_some : forall o l x, wo_find o l = Some x -> In x l /\ wo_e_off x = o.
Proof.
  induction l as [|y l IH]; intros x H; cbn in H; [discriminate|].
  destruct (wo_e_off y =? o) eqn:E.
  - inversion H; subst. apply N.eqb_eq in E. split; [now left|exact E].
  - destruct (IH _ H) as [A B]. split; [now right|exact B].
Qed.

(* wo_update replaces the header of the chunk at offset off y, keeping all offsets *)
Lemma wo_update_pairs : forall y l o h, In (o, h) (wo_pairs (wo_update y l)) ->
  (o = wo_e_off y /\ h = wo_e_hdr y) \/ (In (o, h) (wo_pairs l)).
Proof.
  induction l as [|x l IH]; intros o h H; cbn in H; [destruct H|].
  destruct (wo_e_off x =? wo_e_off y) eqn:E.
  - cbn in H. destruct H as [H|H]; [left; inversion H; now subst|right; now right].
  - cbn in H. destruct H as [H|H]; [right; now left|].
    destruct (IH _ _ H) as [A|A]; [now left|right; now right].
Qed.

Lemma wo_chunks_update : forall f f' y l e, wo_chunks f (wo_pairs l) e ->
  (length f <= length f')%nat ->
  (forall o h, In (o, h) (wo_pairs l) -> o <> wo_e_off y -> fm_decode_chunk_header (skipn (N.to_nat o) f') = Some h) ->
  (forall h, In (wo_e_off y, h) (wo_pairs l) ->
     fm_decode_chunk_header (skipn (N.to_nat (wo_e_off y)) f') = Some (wo_e_hdr y) /\
     fm_payload_length (wo_e_hdr y) = fm_payload_length h) ->
  wo_chunks f' (wo_pairs (wo_update y l)) e.
Proof.
  intros f f' y l. induction l as [|x l IH]; intros e H Hlen Hk Hy; cbn [wo_update wo_pairs map]; [cbn in H; inversion H; subst; constructor|].
  cbn [wo_pairs map] in H. inversion H as [|r o h Hr Hd Hb]; subst.
  destruct (wo_e_off x =? wo_e_off y) eqn:E.
  - apply N.eqb_eq in E. cbn [map].
    destruct (Hy (wo_e_hdr x)) as [Hd' Hpl]; [left; now rewrite E|].
    unfold wo_size. rewrite <- Hpl. rewrite E. constructor.
    + rewrite <- E. apply (wo_chunks_preserved f); [exact Hr|exact Hlen|].
      intros o h Hin. apply Hk; [now right|].
      destruct (wo_chunks_bounds _ _ _ Hr) as [_ Hbd]. destruct (Hbd _ _ Hin) as (_ & B & _).
      pose proof (wo_size_ge h). lia.
    + exact Hd'.
    + unfold wo_size in *. rewrite Hpl, <- E. lia.
  - apply N.eqb_neq in E. cbn [map]. constructor.
    + apply IH; [exact Hr|exact Hlen| |].
      * intros o h Hin Hne. apply Hk; [now right|exact Hne].
      * intros h Hin. apply Hy. now right.
    + apply Hk; [now left|exact E].
    + lia.
Qed.

(* ---------------------------------------------------------------- one step *)
Lemma wo_footer_len : forall h p b, wo_footer_ok h p b = true ->
  N.of_nat (length b) = fm_pad_len (fm_payload_length h) + 4.
Proof.
  intros h p b H. unfold wo_footer_ok in H. apply andb_true_iff in H as [H _]. apply andb_true_iff in H as [H _].
  apply N.eqb_eq in H. exact H.
Qed.

Lemma wo_hdr_diff_none : forall lenient h h', wo_hdr_diff lenient h h' = None -> wo_same_fields lenient h h'.
Proof.
  intros lenient h h' H. unfold wo_hdr_diff in H.
  destruct (fm_item_prev h' =? fm_item_prev h) eqn:E1; cbn [negb] in H; [|discriminate].
  destruct (fm_tag h' =? fm_tag h) eqn:E2; cbn [negb] in H; [|discriminate].
  destruct (fm_rsv0 h' =? fm_rsv0 h) eqn:E3; cbn [negb] in H; [|discriminate].
  destruct (fm_chunk_meta h' =? fm_chunk_meta h) eqn:E4; cbn [negb] in H; [|discriminate].
  destruct (fm_payload_length h' =? fm_payload_length h) eqn:E5; cbn [negb] in H; [|discriminate].
  apply N.eqb_eq in E1, E2, E3, E4, E5. repeat split; try assumption.
  intros ->. cbn [negb andb] in H.
  destruct (fm_payload_prev_length h' =? fm_payload_prev_length h) eqn:E6; cbn [negb] in H; [|discriminate].
  now apply N.eqb_eq in E6.
Qed.

Lemma wo_size_pl0 : forall h, fm_payload_length h = 0 -> wo_size h = 32.
Proof. intros h H. unfold wo_size, fm_chunk_size, fm_disk_len. rewrite H. reflexivity. Qed.
Lemma wo_size_pl : forall h, fm_payload_length h <> 0 ->
  wo_size h = 32 + fm_payload_length h + fm_pad_len (fm_payload_length h) + 4.
Proof.
  intros h H. unfold wo_size, fm_chunk_size, fm_disk_len, SIZEOF_chunk_header, RAW_CRC_SIZE.
  apply N.eqb_neq in H. rewrite H. lia.
Qed.

Lemma wo_decode_len32 : forall b h, fm_decode_chunk_header b = Some h -> (32 <= length b)%nat.
Proof. intros b h H. now destruct (fm_decode_chunk_header_some _ _ H). Qed.

Lemma wo_decode_at_end : forall (f b : list N) h, fm_decode_chunk_header b = Some h ->
  fm_decode_chunk_header (skipn (length f) (f ++ b)) = Some h.
Proof. intros f b h H. rewrite skipn_app_exact by reflexivity. exact H. Qed.

Theorem wo_step_sound : forall lenient s f e s',
  wo_inv s f -> wo_step lenient s e = inl s' ->
  wo_inv s' (wo_apply f e) /\ wo_step_ok lenient f (wo_apply f e).
Proof.
  intros lenient s f e s' I H.
  pose proof (wi_len _ _ I) as Hlen.
  destruct e as [off b| n |]; cbn [wo_step wo_apply] in *.
  3:{ inversion H; subst. split; [exact I|]. apply (wo_step_ok_from lenient s'); auto.
      - intros o h Hin. exists h. split; [|apply wo_same_fields_refl].
        assert (Hne : wo_len s' <> 0) by (intro E; destruct (wi_empty _ _ I E) as [Hx _]; rewrite Hx in Hin; destruct Hin).
        destruct (wo_chunks_bounds _ _ _ (wi_chain _ _ I Hne)) as [_ Hb]. now destruct (Hb _ _ Hin) as (_ & _ & _ & D). }
  2:{ destruct (n =? wo_len s) eqn:E; [|discriminate]. inversion H; subst s'. apply N.eqb_eq in E.
      replace (firstn (N.to_nat n) f ++ repeat 0 (N.to_nat n - length f)) with f.
      2:{ rewrite firstn_all2 by lia. replace (N.to_nat n - length f)%nat with 0%nat by lia. cbn. now rewrite app_nil_r. }
      split; [exact I|]. apply (wo_step_ok_from lenient s); auto.
      - intros o h Hin. exists h. split; [|apply wo_same_fields_refl].
        assert (Hne : wo_len s <> 0) by (intro E'; destruct (wi_empty _ _ I E') as [Hx _]; rewrite Hx in Hin; destruct Hin).
        destruct (wo_chunks_bounds _ _ _ (wi_chain _ _ I Hne)) as [_ Hb]. now destruct (Hb _ _ Hin) as (_ & _ & _ & D). }
  unfold wo_step_write in H.
  destruct (off =? 0) eqn:Eoff.
  { (* ---- file header ---- *)
    apply N.eqb_eq in Eoff. subst off.
    destruct (fm_decode_file_header b) as [fh|] eqn:Efh; [|discriminate].
    destruct (N.of_nat (length b) =? SIZEOF_file_header) eqn:En; cbn [negb] in H; [|discriminate].
    apply N.eqb_eq in En. unfold SIZEOF_file_header in En.
    destruct (wo_is_idle (wo_pending s)) eqn:Eidle; cbn [negb] in H; [|discriminate].
    assert (Hidle : wo_pending s = WoIdle) by (destruct (wo_pending s); try discriminate; reflexivity).
    destruct (wo_len s =? 0) eqn:E0.
    - apply N.eqb_eq in E0. destruct (fm_fh_length fh =? 0); [|discriminate]. inversion H; subst s'. clear H.
      assert (Hf : f = []) by (destruct f; [reflexivity|cbn in Hlen; lia]). subst f.
      rewrite wo_write_append by reflexivity. cbn [app]. split.
      + constructor; cbn.
        * reflexivity.
        * intros E. lia.
        * intros _. rewrite En. constructor.
        * intros _. unfold wo_pend_ok. cbn. reflexivity.
      + split; [cbn; lia|]. intros o h Hc. now apply wo_completed_nil in Hc.
    - apply N.eqb_neq in E0. destruct (fm_fh_length fh =? wo_len s); [|discriminate]. inversion H; subst s'. clear H.
      assert (Hb32 : length b = 32%nat) by lia.
      destruct (wo_chunks_bounds _ _ _ (wi_chain _ _ I E0)) as [He Hbd].
      assert (Hpe : wo_end s = wo_len s) by (pose proof (wi_pend _ _ I E0) as Hp; unfold wo_pend_ok in Hp; now rewrite Hidle in Hp).
      rewrite wo_write_inplace by (change (N.to_nat 0) with 0%nat; lia).
      change (N.to_nat 0) with 0%nat. cbn [firstn Nat.add app].
      assert (Hk : forall o h, In (o, h) (wo_pairs (wo_exts s)) ->
                fm_decode_chunk_header (skipn (N.to_nat o) (b ++ skipn (length b) f)) = Some h).
      { intros o h Hin. destruct (Hbd _ _ Hin) as (A & B & C & D). pose proof (wo_size_ge h).
        rewrite <- D. apply (wo_inplace_decode_other f 0 b (N.to_nat o)); cbn; lia. }
      split.
      + constructor; cbn [wo_set wo_len wo_end wo_exts wo_pending].
        * pose proof (wo_inplace_length f 0 b) as Hl. cbn [firstn Nat.add app] in Hl. rewrite Hl by lia. exact Hlen.
        * intros E. now elim E0.
        * intros _. apply (wo_chunks_preserved f); [apply (wi_chain _ _ I E0)| |exact Hk].
          pose proof (wo_inplace_length f 0 b) as Hl. cbn [firstn Nat.add app] in Hl. rewrite Hl by lia. lia.
        * intros _. unfold wo_pend_ok. cbn. exact Hpe.
      + apply (wo_step_ok_from lenient s); [exact I| | |].
        * pose proof (wo_inplace_length f 0 b) as Hl. cbn [firstn Nat.add app] in Hl. rewrite Hl by lia. lia.
        * intros o h Hin. exists h. split; [now apply Hk|apply wo_same_fields_refl].
        * intros o h Hin _ i Hi1 Hi2. destruct (Hbd _ _ Hin) as (A & B & C & D).
          apply (wo_inplace_nth f 0 b (N.to_nat i)); cbn; lia. }
  apply N.eqb_neq in Eoff.
  destruct (wo_len s =? 0) eqn:E0; [discriminate|]. apply N.eqb_neq in E0.
  pose proof (wi_chain _ _ I E0) as Hch. pose proof (wi_pend _ _ I E0) as Hpend.
  destruct (wo_chunks_bounds _ _ _ Hch) as [He Hbd].
  unfold wo_pend_ok in Hpend.
  destruct (wo_pending s) as [|hp|hp pp|ot ht pt] eqn:Epend.
  4:{ (* ---- pad + CRC after a table rewrite ---- *)
    destruct Hpend as (Hpe & Hin & Hpl & Hhd).
    destruct ((off =? ot + SIZEOF_chunk_header + fm_payload_length ht) && wo_footer_ok ht pt b) eqn:Ec; [|discriminate].
    apply andb_true_iff in Ec as [Eo Ef]. apply N.eqb_eq in Eo. apply wo_footer_len in Ef.
    inversion H; subst s'. clear H.
    destruct (Hbd _ _ Hin) as (A & B & C & D).
    assert (Hpl0 : fm_payload_length ht <> 0) by (rewrite Hpl; discriminate).
    pose proof (wo_size_pl _ Hpl0) as Hsz. unfold SIZEOF_chunk_header in Eo.
    rewrite wo_write_inplace by lia.
    set (f' := firstn (N.to_nat off) f ++ b ++ skipn (N.to_nat off + length b) f).
    assert (Hl' : length f' = length f) by (subst f'; apply wo_inplace_length; lia).
    assert (Hk : forall o h, In (o, h) (wo_pairs (wo_exts s)) -> fm_decode_chunk_header (skipn (N.to_nat o) f') = Some h).
    { intros o h Hin2. destruct (Hbd _ _ Hin2) as (A2 & B2 & C2 & D2). pose proof (wo_size_ge h).
      rewrite <- D2. subst f'. apply wo_inplace_decode_other; try lia.
      destruct (wo_chunks_disjoint _ _ _ Hch _ _ _ _ Hin Hin2) as [[-> ->]|[K|K]]; lia. }
    split.
    - constructor; cbn [wo_set wo_len wo_end wo_exts wo_pending].
      + rewrite Hl'. exact Hlen.
      + intros E. now elim E0.
      + intros _. apply (wo_chunks_preserved f); [exact Hch|lia|exact Hk].
      + intros _. unfold wo_pend_ok. cbn. exact Hpe.
    - apply (wo_step_ok_from lenient s); [exact I|lia| |].
      + intros o h Hin2. exists h. split; [now apply Hk|apply wo_same_fields_refl].
      + intros o h Hin2 Hnh i Hi1 Hi2. destruct (Hbd _ _ Hin2) as (A2 & B2 & C2 & D2).
        subst f'. apply wo_inplace_nth; [lia|].
        destruct (wo_chunks_disjoint _ _ _ Hch _ _ _ _ Hin Hin2) as [[-> ->]|[K|K]]; [congruence|lia|lia]. }
  all: destruct (wo_len s <? off) eqn:Ehole; [discriminate|]; apply N.ltb_ge in Ehole.
  all: destruct (off =? wo_len s) eqn:Eapp.
  all: try (apply N.eqb_eq in Eapp; subst off; rewrite wo_write_append by lia).
  - (* append, idle: a chunk header *)
    destruct (fm_decode_chunk_header b) as [h|] eqn:Ed; [|discriminate].
    destruct (N.of_nat (length b) =? SIZEOF_chunk_header) eqn:En; cbn [negb] in H; [|discriminate].
    apply N.eqb_eq in En. unfold SIZEOF_chunk_header in En.
    split; [|now apply (wo_step_ok_append lenient s)].
    assert (Hd' : fm_decode_chunk_header (skipn (N.to_nat (wo_end s)) (f ++ b)) = Some h).
    { replace (N.to_nat (wo_end s)) with (length f) by lia. now apply wo_decode_at_end. }
    assert (Hkeep : forall o h0, In (o, h0) (wo_pairs (wo_exts s)) -> fm_decode_chunk_header (skipn (N.to_nat o) (f ++ b)) = Some h0).
    { intros o h0 Hin. destruct (Hbd _ _ Hin) as (A & B & C & D). pose proof (wo_size_ge h0). rewrite wo_append_decode by lia. exact D. }
    destruct (fm_payload_length h =? 0) eqn:Epl; inversion H; subst s'; clear H.
    + apply N.eqb_eq in Epl. constructor; cbn [wo_complete wo_len wo_end wo_exts wo_pending].
      * rewrite app_length. lia.
      * intros E. lia.
      * intros _. cbn [wo_pairs map wo_e_off wo_e_hdr].
        replace (wo_len s + N.of_nat (length b)) with (wo_end s + wo_size h) by (rewrite wo_size_pl0 by exact Epl; lia).
        constructor.
        -- apply (wo_chunks_preserved f); [exact Hch|rewrite app_length; lia|exact Hkeep].
        -- exact Hd'.
        -- rewrite wo_size_pl0 by exact Epl. rewrite app_length. lia.
      * intros _. unfold wo_pend_ok. cbn. reflexivity.
    + apply N.eqb_neq in Epl. constructor; cbn [wo_set wo_len wo_end wo_exts wo_pending].
      * rewrite app_length. lia.
      * intros E. lia.
      * intros _. apply (wo_chunks_preserved f); [exact Hch|rewrite app_length; lia|exact Hkeep].
      * intros _. unfold wo_pend_ok. cbn. repeat split; [exact Hd'|lia|exact Epl].
  - (* in place, idle *)
    apply N.eqb_neq in Eapp. cbn [wo_is_idle negb] in H.
    destruct (wo_find off (wo_exts s)) as [x|] eqn:Efind.
    + (* header link *)
      destruct (wo_find_some _ _ _ Efind) as [Hxin Hxoff].
      destruct (fm_decode_chunk_header b) as [h'|] eqn:Ed; [|discriminate].
      destruct (N.of_nat (length b) =? SIZEOF_chunk_header) eqn:En; cbn [negb] in H; [|discriminate].
      apply N.eqb_eq in En. unfold SIZEOF_chunk_header in En.
      destruct (wo_hdr_diff lenient (wo_e_hdr x) h') as [r|] eqn:Ediff; [discriminate|].
      apply wo_hdr_diff_none in Ediff. inversion H; subst s'. clear H.
      pose proof (wo_pairs_in _ _ Hxin) as Hpin. rewrite Hxoff in Hpin.
      destruct (Hbd _ _ Hpin) as (A & B & C & D). pose proof (wo_size_ge (wo_e_hdr x)) as Hsx.
      rewrite wo_write_inplace by lia.
      set (f' := firstn (N.to_nat off) f ++ b ++ skipn (N.to_nat off + length b) f).
      assert (Hl' : length f' = length f) by (subst f'; apply wo_inplace_length; lia).
      assert (Hself : fm_decode_chunk_header (skipn (N.to_nat off) f') = Some h').
      { rewrite <- (fm_decode_chunk_header_firstn (skipn (N.to_nat off) f')).
        replace 32%nat with (length b) by lia. subst f'. rewrite wo_inplace_window by lia.
        replace (length b) with 32%nat by lia. rewrite <- Ed. first [reflexivity | apply fm_decode_chunk_header_firstn]. }
      assert (Hother : forall o h, In (o, h) (wo_pairs (wo_exts s)) -> o <> off ->
                 fm_decode_chunk_header (skipn (N.to_nat o) f') = Some h).
      { intros o h Hin Hne. destruct (Hbd _ _ Hin) as (A2 & B2 & C2 & D2). pose proof (wo_size_ge h).
        rewrite <- D2. subst f'. apply wo_inplace_decode_other; try lia.
        destruct (wo_chunks_disjoint _ _ _ Hch _ _ _ _ Hpin Hin) as [[K _]|[K|K]]; [congruence|lia|lia]. }
      assert (Hsame : forall h, In (off, h) (wo_pairs (wo_exts s)) -> h = wo_e_hdr x).
      { intros h Hin. destruct (Hbd _ _ Hin) as (_ & _ & _ & D2). rewrite D in D2. now inversion D2. }
      split.
      * constructor; cbn [wo_set wo_len wo_end wo_exts wo_pending].
        -- rewrite Hl'. exact Hlen.
        -- intros E. now elim E0.
        -- intros _. apply (wo_chunks_update f); [exact Hch|lia| |].
           ++ cbn [wo_e_off]. exact Hother.
           ++ cbn [wo_e_off wo_e_hdr]. intros h Hin. rewrite (Hsame _ Hin). split; [exact Hself|].
              now destruct Ediff as (_ & _ & _ & _ & K & _).
        -- intros _. unfold wo_pend_ok. cbn. exact Hpend.
      * apply (wo_step_ok_from lenient s); [exact I|lia| |].
        -- intros o h Hin. destruct (N.eq_dec o off) as [->|Hne].
           ++ exists h'. split; [exact Hself|]. rewrite (Hsame _ Hin). exact Ediff.
           ++ exists h. split; [now apply Hother|apply wo_same_fields_refl].
        -- intros o h Hin _ i Hi1 Hi2. destruct (Hbd _ _ Hin) as (A2 & B2 & C2 & D2).
           subst f'. apply wo_inplace_nth; [lia|].
           destruct (wo_chunks_disjoint _ _ _ Hch _ _ _ _ Hpin Hin) as [[<- <-]|[K|K]]; lia.
    + (* head table *)
      destruct (off <? SIZEOF_chunk_header) eqn:Elt; [discriminate|]. apply N.ltb_ge in Elt. unfold SIZEOF_chunk_header in *.
      destruct (wo_find (off - 32) (wo_exts s)) as [x|] eqn:Efind2; [|discriminate].
      destruct (wo_find_some _ _ _ Efind2) as [Hxin Hxoff].
      destruct (fm_is_head_tag (fm_tag (wo_e_hdr x))) eqn:Ehd; cbn [negb] in H; [|discriminate].
      destruct ((fm_payload_length (wo_e_hdr x) =? SIZEOF_track_head) && (N.of_nat (length b) =? SIZEOF_track_head)) eqn:El;
        cbn [negb] in H; [|discriminate].
      apply andb_true_iff in El as [Epl En]. apply N.eqb_eq in Epl, En.
      destruct (wo_tbl_check _ _ _ _ _) as [r|]; [discriminate|]. inversion H; subst s'. clear H.
      pose proof (wo_pairs_in _ _ Hxin) as Hpin.
      destruct (Hbd _ _ Hpin) as (A & B & C & D).
      assert (Hpl0 : fm_payload_length (wo_e_hdr x) <> 0) by (rewrite Epl; discriminate).
      pose proof (wo_size_pl _ Hpl0) as Hsz.
      rewrite wo_write_inplace by lia.
      set (f' := firstn (N.to_nat off) f ++ b ++ skipn (N.to_nat off + length b) f).
      assert (Hl' : length f' = length f) by (subst f'; apply wo_inplace_length; lia).
      assert (Hk : forall o h, In (o, h) (wo_pairs (wo_exts s)) -> fm_decode_chunk_header (skipn (N.to_nat o) f') = Some h).
      { intros o h Hin2. destruct (Hbd _ _ Hin2) as (A2 & B2 & C2 & D2). pose proof (wo_size_ge h).
        rewrite <- D2. subst f'. apply wo_inplace_decode_other; try lia.
        destruct (wo_chunks_disjoint _ _ _ Hch _ _ _ _ Hpin Hin2) as [[<- <-]|[K|K]]; lia. }
      split.
      * constructor; cbn [wo_set wo_len wo_end wo_exts wo_pending].
        -- rewrite Hl'. exact Hlen.
        -- intros E. now elim E0.
        -- intros _. apply (wo_chunks_update f); [exact Hch|lia| |].
           ++ cbn [wo_e_off]. intros o h Hin _. now apply Hk.
           ++ cbn [wo_e_off wo_e_hdr]. intros h Hin. split; [now apply Hk|].
              destruct (Hbd _ _ Hin) as (_ & _ & _ & D2). rewrite D in D2. now inversion D2.
        -- intros _. unfold wo_pend_ok. cbn [wo_pending wo_end wo_len wo_exts]. repeat split; try assumption.
           assert (Hin' : In (wo_e_off x, wo_e_hdr x) (wo_pairs (wo_update {| wo_e_off := wo_e_off x; wo_e_hdr := wo_e_hdr x; wo_e_table := b |} (wo_exts s)))).
           { clear -Hxin. induction (wo_exts s) as [|y l IH]; [destruct Hxin|]. cbn [wo_update wo_e_off].
             destruct (wo_e_off y =? wo_e_off x) eqn:E.
             - left. reflexivity.
             - destruct Hxin as [->|Hxin]; [rewrite N.eqb_refl in E; discriminate|]. right. now apply IH. }
           exact Hin'.
      * apply (wo_step_ok_from lenient s); [exact I|lia| |].
        -- intros o h Hin2. exists h. split; [now apply Hk|apply wo_same_fields_refl].
        -- intros o h Hin2 Hnh i Hi1 Hi2. destruct (Hbd _ _ Hin2) as (A2 & B2 & C2 & D2).
           subst f'. apply wo_inplace_nth; [lia|].
           destruct (wo_chunks_disjoint _ _ _ Hch _ _ _ _ Hpin Hin2) as [[K1 K2]|[K|K]]; [|lia|lia].
           rewrite <- K2 in Hnh. congruence.
  - (* append, header written: the payload *)
    destruct Hpend as (Hd & Hl & Hpl).
    destruct (N.of_nat (length b) =? fm_payload_length hp) eqn:En; [|discriminate]. apply N.eqb_eq in En.
    inversion H; subst s'. clear H.
    split; [|now apply (wo_step_ok_append lenient s)].
    constructor; cbn [wo_set wo_len wo_end wo_exts wo_pending].
    + rewrite app_length. lia.
    + intros E. lia.
    + intros _. apply (wo_chunks_preserved f); [exact Hch|rewrite app_length; lia|].
      intros o h0 Hin. destruct (Hbd _ _ Hin) as (A & B & C & D). pose proof (wo_size_ge h0). rewrite wo_append_decode by lia. exact D.
    + intros _. unfold wo_pend_ok. cbn. repeat split; [|lia|exact Hpl].
      rewrite wo_append_decode by lia. exact Hd.
  - (* in place while appending *)
    cbn [wo_is_idle negb] in H. discriminate.
  - (* append, payload written: pad + CRC *)
    destruct Hpend as (Hd & Hl & Hpl).
    destruct (wo_footer_ok hp pp b) eqn:Ef; [|discriminate]. apply wo_footer_len in Ef.
    inversion H; subst s'. clear H.
    split; [|now apply (wo_step_ok_append lenient s)].
    pose proof (wo_size_pl _ Hpl) as Hsz.
    constructor; cbn [wo_complete wo_len wo_end wo_exts wo_pending].
    + rewrite app_length. lia.
    + intros E. lia.
    + intros _. cbn [wo_pairs map wo_e_off wo_e_hdr].
      replace (wo_len s + N.of_nat (length b)) with (wo_end s + wo_size hp) by lia.
      constructor.
      * apply (wo_chunks_preserved f); [exact Hch|rewrite app_length; lia|].
        intros o h0 Hin. destruct (Hbd _ _ Hin) as (A & B & C & D). pose proof (wo_size_ge h0). rewrite wo_append_decode by lia. exact D.
      * rewrite wo_append_decode by lia. exact Hd.
      * rewrite app_length. lia.
    + intros _. unfold wo_pend_ok. cbn. reflexivity.
  - cbn [wo_is_idle negb] in H. discriminate.
Qed.

(* ---------------------------------------------------------------- whole logs *)
Lemma wo_inv0 : wo_inv wo_st0 [].
Proof.
  constructor; cbn.
  - reflexivity.
  - intros _. split; reflexivity.
  - intros E. now elim E.
  - intros E. now elim E.
Qed.

Lemma wo_file_after_app : forall l1 l2, wo_file_after (l1 ++ l2) = fold_left wo_apply l2 (wo_file_after l1).
Proof. intros. unfold wo_file_after. apply fold_left_app. Qed.

Lemma wo_run_sound : forall lenient l s f idx s', wo_inv s f -> wo_run lenient s idx l = inl s' ->
  forall l1 w l2, l = l1 ++ w :: l2 ->
    wo_step_ok lenient (fold_left wo_apply l1 f) (fold_left wo_apply (l1 ++ [w]) f).
Proof.
  induction l as [|e l IH]; intros s f idx s' I H l1 w l2 Hl.
  - destruct l1; discriminate.
  - cbn [wo_run] in H. destruct (wo_step lenient s e) as [s1|why] eqn:Es; [|discriminate].
    destruct (wo_step_sound _ _ _ _ _ I Es) as [I1 Hok].
    destruct l1 as [|e1 l1].
    + cbn [app] in Hl. inversion Hl; subst. cbn [fold_left app]. exact Hok.
    + cbn [app] in Hl. inversion Hl; subst. cbn [fold_left app].
      eapply IH; [exact I1|exact H|reflexivity].
Qed.

Theorem wo_check_log_gen_sound : forall lenient l, wo_check_log_gen lenient l = true -> wo_write_once lenient l.
Proof.
  intros lenient l H. unfold wo_check_log_gen in H.
  destruct (wo_run lenient wo_st0 0 l) as [s'|bad] eqn:E; [|discriminate].
  intros l1 w l2 Hl. unfold wo_file_after.
  eapply wo_run_sound; [apply wo_inv0|exact E|exact Hl].
Qed.

Theorem wo_check_log_sound : forall l, wo_check_log l = true -> wo_write_once false l.
Proof. intros l H. now apply wo_check_log_gen_sound. Qed.

Theorem wo_check_log_lenient_sound : forall l, wo_check_log_lenient l = true -> wo_write_once true l.
Proof. intros l H. now apply wo_check_log_gen_sound. Qed.

(* the tracked chunks are genuine: after an accepted log, the checker's extents are exactly the chunks of the file *)
Theorem wo_run_tracks_chunks : forall lenient l s',
  wo_run lenient wo_st0 0 l = inl s' ->
  wo_inv s' (wo_file_after l).
Proof.
  intros lenient l s' H. unfold wo_file_after.
  assert (G : forall l s f idx s', wo_inv s f -> wo_run lenient s idx l = inl s' -> wo_inv s' (fold_left wo_apply l f)).
  { clear. induction l as [|e l IH]; intros s f idx s' I H.
    - cbn in H. inversion H; subst. exact I.
    - cbn [wo_run] in H. destruct (wo_step lenient s e) as [s1|why] eqn:Es; [|discriminate].
      destruct (wo_step_sound _ _ _ _ _ I Es) as [I1 _]. cbn [fold_left]. eapply IH; eauto. }
  eapply G; [apply wo_inv0|exact H].
Qed.

(* ---------------------------------------------------------------- examples (built with the encoders of Format.v) *)
Definition wo_ex_hdr (next prev tag meta pl ppl : N) : fm_chunk_header :=
  {| fm_item_next := next; fm_item_prev := prev; fm_tag := tag; fm_rsv0 := 0; fm_chunk_meta := meta;
     fm_payload_length := pl; fm_payload_prev_length := ppl |}.
Definition wo_ex_footer (p : list N) : list N := skipn (length p) (fm_frame p).
Definition wo_ex_table (e0 : N) : list N := fm_enc_u64 e0 ++ repeat 0 120.
Definition wo_ex_data : list N := fm_encode_payload_header {| fm_ph_timestamp := 0; fm_ph_entry_count := 1; fm_ph_entry_size_bits := 32; fm_ph_rsv16 := 0 |} ++ [1; 2; 3; 4].

(* open; USER_DATA (empty) at 32; TRACK_FSR_HEAD at 64 (ends 232); TRACK_FSR_DATA at 232 (20-byte payload, ends 288) *)
Definition wo_ex_prefix : list wo_ev :=
  [ WoTrunc 0;
    WoWrite 0 (fm_encode_file_header {| fm_fh_length := 0; fm_fh_version := JLS_FORMAT_VERSION_U32 |});
    WoWrite 32 (fm_encode_chunk_header (wo_ex_hdr 0 0 JLS_TAG_USER_DATA 0 0 0));
    WoWrite 64 (fm_encode_chunk_header (wo_ex_hdr 0 0 JLS_TAG_TRACK_FSR_HEAD 1 128 0));
    WoWrite 96 (wo_ex_table 0);
    WoWrite 224 (wo_ex_footer (wo_ex_table 0));
    WoWrite 232 (fm_encode_chunk_header (wo_ex_hdr 0 0 JLS_TAG_TRACK_FSR_DATA 1 20 128));
    WoWrite 264 wo_ex_data;
    WoWrite 284 (wo_ex_footer wo_ex_data) ].
(* head table entry 0 := 232 (two writes); a second USER_DATA chunk at 288 and the link from the first; close *)
Definition wo_ex_rest : list wo_ev :=
  [ WoWrite 96 (wo_ex_table 232);
    WoWrite 224 (wo_ex_footer (wo_ex_table 232));
    WoWrite 288 (fm_encode_chunk_header (wo_ex_hdr 0 32 JLS_TAG_USER_DATA 0 0 20));
    WoWrite 32 (fm_encode_chunk_header (wo_ex_hdr 288 0 JLS_TAG_USER_DATA 0 0 0));
    WoSync;
    WoWrite 0 (fm_encode_file_header {| fm_fh_length := 320; fm_fh_version := JLS_FORMAT_VERSION_U32 |}) ].

Example wo_example_pass : wo_check_log (wo_ex_prefix ++ wo_ex_rest) = true.
Proof. vm_compute. reflexivity. Qed.

Example wo_example_pass_classes :
  match wo_run false wo_st0 0 (wo_ex_prefix ++ wo_ex_rest) with
  | inl s => (wo_n_app s, wo_n_link s, wo_n_tbl s, wo_n_fh s, wo_len s) = (4, 1, 1, 2, 320)
  | inr _ => False
  end.
Proof. vm_compute. reflexivity. Qed.

(* a byte of the stored DATA payload is rewritten *)
Example wo_example_fail_payload :
  wo_run false wo_st0 0 (wo_ex_prefix ++ [WoWrite 281 [9]]) = inr (9, WoR_rewrite_elsewhere).
Proof. vm_compute. reflexivity. Qed.

(* a header rewrite that changes the tag *)
Example wo_example_fail_tag :
  wo_run false wo_st0 0 (wo_ex_prefix ++ [WoWrite 32 (fm_encode_chunk_header (wo_ex_hdr 288 0 JLS_TAG_SOURCE_DEF 0 0 0))])
  = inr (9, WoR_hdr_rewrite_changes 2 JLS_TAG_USER_DATA).
Proof. vm_compute. reflexivity. Qed.

(* a head-table entry changed from non-zero *)
Example wo_example_fail_head_entry :
  wo_run false wo_st0 0 (wo_ex_prefix ++ [WoWrite 96 (wo_ex_table 232); WoWrite 224 (wo_ex_footer (wo_ex_table 232)); WoWrite 96 (wo_ex_table 64)])
  = inr (11, WoR_tbl_entry 0).
Proof. vm_compute. reflexivity. Qed.

(* a head-table entry set to something that is not the start of a completed chunk *)
Example wo_example_fail_head_target :
  wo_run false wo_st0 0 (wo_ex_prefix ++ [WoWrite 96 (wo_ex_table 240)]) = inr (9, WoR_tbl_entry 0).
Proof. vm_compute. reflexivity. Qed.

(* the known defect class: a header rewrite that also changes payload_prev_length is rejected by the strict
   checker and accepted by the lenient one *)
Example wo_example_ppl :
  let l := wo_ex_prefix ++ [WoWrite 232 (fm_encode_chunk_header (wo_ex_hdr 288 0 JLS_TAG_TRACK_FSR_DATA 1 20 0))] in
  wo_run false wo_st0 0 l = inr (9, WoR_hdr_rewrite_ppl JLS_TAG_TRACK_FSR_DATA) /\ wo_check_log_lenient l = true.
Proof. vm_compute. split; reflexivity. Qed.

(* the semantic property is not vacuous on the passing example: the file has completed chunks *)
Example wo_example_nonvacuous :
  exists h, wo_completed (wo_file_after (wo_ex_prefix ++ wo_ex_rest)) 232 h /\ fm_tag h = JLS_TAG_TRACK_FSR_DATA.
Proof.
  destruct (wo_run false wo_st0 0 (wo_ex_prefix ++ wo_ex_rest)) as [s|bad] eqn:E; [|vm_compute in E; discriminate].
  pose proof (wo_run_tracks_chunks _ _ _ E) as I.
  vm_compute in E. inversion E; subst s. clear E.
  pose proof (wi_chain _ _ I) as Hc. cbn [wo_len wo_exts wo_end wo_pairs map wo_e_off wo_e_hdr] in Hc.
  specialize (Hc ltac:(discriminate)).
  eexists. split.
  - eexists _, _. split; [exact Hc|]. right. left. reflexivity.
  - reflexivity.
Qed.

(* the soundness theorem with the definitions of the property spelled out (for Properties_C14.v) *)
Theorem wo_check_log_sound_explicit : forall l, wo_check_log l = true ->
  forall l1 w l2, l = l1 ++ w :: l2 ->
    let f := wo_file_after l1 in
    let f' := wo_file_after (l1 ++ [w]) in
    (length f <= length f')%nat /\
    forall o h, wo_completed f o h ->
      (exists h', fm_decode_chunk_header (skipn (N.to_nat o) f') = Some h' /\
         fm_item_prev h' = fm_item_prev h /\ fm_tag h' = fm_tag h /\ fm_rsv0 h' = fm_rsv0 h /\
         fm_chunk_meta h' = fm_chunk_meta h /\ fm_payload_length h' = fm_payload_length h /\
         fm_payload_prev_length h' = fm_payload_prev_length h) /\
      (fm_is_head_tag (fm_tag h) = false ->
         forall i, o + 32 <= i -> i < o + fm_chunk_size (fm_payload_length h) -> nth (N.to_nat i) f' 0 = nth (N.to_nat i) f 0).
Proof.
  intros l H l1 w l2 Hl. destruct (wo_check_log_sound l H l1 w l2 Hl) as [H1 H2]. cbn zeta. split; [exact H1|].
  intros o h Hc. destruct (H2 o h Hc) as [(h' & Hd & A & B & C & D & E & F) G]. split; [|exact G].
  exists h'. repeat split; try assumption. now apply F.
Qed.

Theorem wo_check_log_lenient_sound_explicit : forall l, wo_check_log_lenient l = true ->
  forall l1 w l2, l = l1 ++ w :: l2 ->
    let f := wo_file_after l1 in
    let f' := wo_file_after (l1 ++ [w]) in
    (length f <= length f')%nat /\
    forall o h, wo_completed f o h ->
      (exists h', fm_decode_chunk_header (skipn (N.to_nat o) f') = Some h' /\
         fm_item_prev h' = fm_item_prev h /\ fm_tag h' = fm_tag h /\ fm_rsv0 h' = fm_rsv0 h /\
         fm_chunk_meta h' = fm_chunk_meta h /\ fm_payload_length h' = fm_payload_length h) /\
      (fm_is_head_tag (fm_tag h) = false ->
         forall i, o + 32 <= i -> i < o + fm_chunk_size (fm_payload_length h) -> nth (N.to_nat i) f' 0 = nth (N.to_nat i) f 0).
Proof.
  intros l H l1 w l2 Hl. destruct (wo_check_log_lenient_sound l H l1 w l2 Hl) as [H1 H2]. cbn zeta. split; [exact H1|].
  intros o h Hc. destruct (H2 o h Hc) as [(h' & Hd & A & B & C & D & E & F) G]. split; [|exact G].
  exists h'. repeat split; assumption.
Qed.
