(* C15 - Omitting level-0 data never changes summaries; automatically omitted constant blocks read
   back exactly: the numeric / relational part (slice `summ`).  The chunk-level part (length, index
   entries 0 for omitted blocks, first block always stored, reconstructed sample counts) is
   Properties_C01_pyr.v (py_plan, length_correct, seek_correct).
   Model: SummQ.v.  sq_wr_data = wr_data of /repo/src/wr_fsr.c as far as level 1 is concerned
   (`omit` = the decision wr_data has reached: request shift register, constant test for <= 8-bit
   types, "never the first chunk" mask; `pos` = file position of the DATA chunk);
   sq_reconstruct = reconstruct_omitted_chunk of /repo/src/core.c for u1/u4/u8/i4/i8. *)
From Coq Require Import NArith ZArith QArith List.
From JLS Require Import StatsQ StatsQProofs SummQ SummQProofs.
Import ListNotations.
Local Open Scope Q_scope.

(* what wr_data hands to level 1: the index entry is 0 or the offset, the summary entries are ONE
   function of the block's samples - jls_core_fsr_summary1 takes no omit argument *)
Theorem omit_wr_data_shape : forall (d : nat) (omit : bool) (pos : Z) (block : list (option Q)),
  sq_wr_data d omit pos block = ((if omit then 0%Z else pos), sq_level1 d block).
Proof. exact sq_wr_data_shape. Qed.
Print Assumptions omit_wr_data_shape.

(* two runs over the same samples with ANY omission decisions and ANY file positions (they differ:
   omitted DATA chunks are not written) produce the same entries at every level L *)
Theorem omit_summaries_equal : forall (d sumdf : nat) (b1 b2 : list (bool * Z * list (option Q))) (L : nat),
  map snd b1 = map snd b2 ->
  Nat.iter (L - 1) (sq_level_next sumdf) (snd (sq_wr_blocks d b1)) =
  Nat.iter (L - 1) (sq_level_next sumdf) (snd (sq_wr_blocks d b2)).
Proof. exact sq_C15_omit_summaries_equal. Qed.
Print Assumptions omit_summaries_equal.

(* ... namely the entries of the whole stream (blocks are whole numbers of entries except the last:
   samples_per_data is a multiple of sample_decimate_factor), while the level-1 index entries are 0
   exactly for the omitted blocks *)
Theorem omit_stream : forall (d sumdf : nat) (blocks : list (bool * Z * list (option Q))) (last : bool * Z * list (option Q)) (L : nat),
  (1 <= d)%nat -> (1 <= L)%nat ->
  Forall (fun b => exists j, length (snd b) = (j * d)%nat) blocks ->
  Nat.iter (L - 1) (sq_level_next sumdf) (snd (sq_wr_blocks d (blocks ++ [last]))) =
  sq_levels d sumdf (concat (map snd (blocks ++ [last]))) L /\
  fst (sq_wr_blocks d (blocks ++ [last])) =
  map (fun x : bool * Z * list (option Q) => if fst (fst x) then 0%Z else snd (fst x)) (blocks ++ [last]).
Proof. exact sq_C15_omit_stream. Qed.
Print Assumptions omit_stream.

(* auto_omit_exact.  A block of j*d samples, all equal to c, of a <= 8-bit type (c in the type's range):
   the reader rebuilds it from the stored means exactly.  Stated hypothesis (the float step): the
   conversion `rnd` of the computed double mean to the stored f32 and back maps the integer c to c
   (true of binary32 for |c| <= 256).  The mean of a constant group is c exactly. *)
Theorem auto_omit_exact : forall (dt : sq_dt) (d : nat) (rnd : Q -> Q) (c : Z) (j : nat),
  (0 < d)%nat -> sq_dt_range dt c ->
  (forall q, q == inject_Z c -> rnd q == inject_Z c) ->
  sq_reconstruct dt d rnd (sq_level1 d (repeat (Some (inject_Z c)) (j * d))) = Some (repeat c (j * d)).
Proof. exact sq_auto_omit_exact. Qed.
Print Assumptions auto_omit_exact.

Theorem auto_omit_mean_const : forall (c : Z) (d : nat), (0 < d)%nat -> (-256 <= c <= 256)%Z ->
  exists m v lo hi, sq_summary1 (repeat (Some (inject_Z c)) d) = mkSqEnt (Some m) (Some v) (Some lo) (Some hi) /\
                    m == inject_Z c.
Proof. exact sq_summary1_const. Qed.
Print Assumptions auto_omit_mean_const.

(* non-vacuity: i4 block of 3 entries of 8 samples, all -3; u1 block of ones *)
Example auto_omit_example :
  sq_reconstruct SqI4 8 (fun q => q) (sq_level1 8 (repeat (Some (inject_Z (-3))) 24)) = Some (repeat (-3)%Z 24) /\
  sq_reconstruct SqU1 4 (fun q => q) (sq_level1 4 (repeat (Some 1) 8)) = Some (repeat 1%Z 8).
Proof. vm_compute. split; reflexivity. Qed.
Print Assumptions auto_omit_example.

Example omit_stream_example :
  let b := [Some 1; Some 2; Some 3; Some 4] in
  sq_wr_blocks 2 [(false, 100%Z, b); (true, 200%Z, b); (false, 200%Z, [Some 7])] =
  ([100%Z; 0%Z; 200%Z], sq_level1 2 (b ++ b ++ [Some 7])).
Proof. vm_compute. reflexivity. Qed.
Print Assumptions omit_stream_example.
