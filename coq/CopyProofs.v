(* C17: proofs about CopyModel.v (jls_copy as a transformation of writer programs, against Spec.spec_of). *)
From Coq Require Import NArith ZArith List Bool Lia ZifyBool ZifyN ZifyNat.
From JLS Require Import Generated Spec SpecProofs CopyModel.
Import ListNotations.
Local Open Scope N_scope.

(* ------------------------------------------------------------------ *)
(* 1. sp_align is idempotent                                            *)

Lemma cp_round_multiple : forall x m, m <> 0 -> x mod m = 0 -> sp_round_up x m = x.
Proof.
  intros x m Hm Hx. unfold sp_round_up.
  apply N.div_exact in Hx; [|exact Hm].
  set (q := x / m) in *.
  replace (x + m - 1) with (q * m + (m - 1)) by (rewrite Hx; lia).
  rewrite N.div_add_l by exact Hm.
  rewrite (N.div_small (m - 1) m) by lia.
  rewrite N.add_0_r. rewrite Hx. apply N.mul_comm.
Qed.

Lemma cp_round_spec : forall x m, m <> 0 -> sp_round_up x m mod m = 0 /\ x <= sp_round_up x m.
Proof.
  intros x m Hm. unfold sp_round_up.
  split; [apply N.mod_mul; exact Hm|].
  pose proof (N.div_mod (x + m - 1) m Hm) as E.
  pose proof (N.mod_upper_bound (x + m - 1) m Hm) as B.
  rewrite (N.mul_comm m) in E. lia.
Qed.

Lemma cp_fit_div : forall fuel e epd, sp_fit_epd fuel e epd <> 0 /\ e mod (sp_fit_epd fuel e epd) = 0.
Proof.
  induction fuel as [|f IH]; intros e epd; cbn [sp_fit_epd].
  - split; [discriminate|apply N.mod_1_r].
  - destruct (epd =? 0) eqn:E0; [split; [discriminate|apply N.mod_1_r]|].
    destruct (e mod epd =? 0) eqn:Em; [|apply IH].
    apply N.eqb_neq in E0. apply N.eqb_eq in Em. split; assumption.
Qed.

Lemma cp_fit_hit : forall fuel e epd, epd <> 0 -> e mod epd = 0 -> sp_fit_epd (S fuel) e epd = epd.
Proof.
  intros fuel e epd H0 Hm. cbn [sp_fit_epd].
  apply N.eqb_neq in H0. rewrite H0. apply N.eqb_eq in Hm. rewrite Hm. reflexivity.
Qed.

(* the relations among the parameters that sp_align establishes (and that make it a fixed point) *)
Definition cp_aligned (d : sigdef) : Prop :=
  let w := dt_bits (sg_dtype d) in
  let mult := if w =? 24 then 32 else (SAMPLE_SIZE_BYTES_MAX * 8) / w in
  mult <> 0 /\ 10 <= sg_sdf d /\ sg_sdf d mod mult = 0 /\
  (exists epd, epd <> 0 /\ sg_spd d = sg_sdf d * epd /\ sg_eps d mod epd = 0) /\
  10 <= sg_sumdf d /\ 10 <= sg_eps d /\ sg_eps d mod sg_sumdf d = 0 /\
  10 <= sg_adf d /\ 10 <= sg_udf d /\
  (if sg_type d =? JLS_SIGNAL_TYPE_VSR then sg_rate d = 0 else True).

Lemma cp_mult_nz : forall w, w <> 0 -> w <= 255 -> (if w =? 24 then 32 else (SAMPLE_SIZE_BYTES_MAX * 8) / w) <> 0.
Proof.
  intros w H0 H1. destruct (w =? 24); [discriminate|].
  change (SAMPLE_SIZE_BYTES_MAX * 8) with 256.
  intro E. apply N.div_small_iff in E; lia.
Qed.

Lemma cp_dt_bits_le : forall dt, dt_bits dt <= 255.
Proof.
  intros dt. unfold dt_bits. change (N.land (N.shiftr dt 8) 255) with (N.land (N.shiftr dt 8) (N.ones 8)).
  rewrite N.land_ones. change (2 ^ 8) with 256.
  assert (B : N.shiftr dt 8 mod 256 < 256) by (apply N.mod_upper_bound; discriminate). lia.
Qed.

Lemma cp_align_aligned : forall d, dt_bits (sg_dtype d) <> 0 -> cp_aligned (sp_align d).
Proof.
  intros d Hw. pose proof (cp_mult_nz _ Hw (cp_dt_bits_le _)) as Hm.
  unfold cp_aligned, sp_align.
  cbn [sg_dtype sg_sdf sg_spd sg_eps sg_sumdf sg_adf sg_udf sg_type sg_rate].
  set (w := dt_bits (sg_dtype d)) in *.
  set (mult := if w =? 24 then 32 else SAMPLE_SIZE_BYTES_MAX * 8 / w) in *.
  unfold SAMPLE_DECIMATE_FACTOR_MIN, SAMPLES_PER_DATA_MIN, ENTRIES_PER_SUMMARY_MIN, SUMMARY_DECIMATE_FACTOR_MIN.
  set (sdf := sp_round_up (N.max (sp_dflt w 1 (sg_sdf d)) 10) mult).
  set (sumdf := N.max (sp_dflt w 3 (sg_sumdf d)) 10).
  set (eps := sp_round_up (N.max (sp_dflt w 2 (sg_eps d)) 10) sumdf).
  set (spd2 := sp_round_up (N.max (sp_dflt w 0 (sg_spd d)) 10) sdf).
  destruct (cp_round_spec (N.max (sp_dflt w 1 (sg_sdf d)) 10) mult Hm) as [S1 S2]. fold sdf in S1, S2.
  assert (Hsum : sumdf <> 0) by (unfold sumdf; lia).
  destruct (cp_round_spec (N.max (sp_dflt w 2 (sg_eps d)) 10) sumdf Hsum) as [E1 E2]. fold eps in E1, E2.
  destruct (cp_fit_div (N.to_nat (spd2 / sdf)) eps (spd2 / sdf)) as [F1 F2].
  repeat split; try assumption; try lia.
  - eexists. split; [exact F1|]. split; [reflexivity|exact F2].
  - destruct (sg_type d =? JLS_SIGNAL_TYPE_VSR); [reflexivity|exact I].
Qed.

Lemma cp_aligned_fixed : forall d, cp_aligned d -> sp_align d = d.
Proof.
  intros [id src ty dt rate spd sdf eps sumdf adf udf name units].
  unfold cp_aligned. cbn [sg_dtype sg_sdf sg_spd sg_eps sg_sumdf sg_adf sg_udf sg_type sg_rate].
  intros (Hm & Hsdf & Hsdfm & (epd & Hepd & Hspd & Hepsm) & Hsum & Heps & Hepss & Hadf & Hudf & Hrate).
  unfold sp_align. cbn [sg_id sg_src sg_name sg_units sg_dtype sg_sdf sg_spd sg_eps sg_sumdf sg_adf sg_udf sg_type sg_rate].
  set (w := dt_bits dt) in *.
  set (mult := if w =? 24 then 32 else SAMPLE_SIZE_BYTES_MAX * 8 / w) in *.
  unfold SAMPLE_DECIMATE_FACTOR_MIN, SAMPLES_PER_DATA_MIN, ENTRIES_PER_SUMMARY_MIN, SUMMARY_DECIMATE_FACTOR_MIN.
  assert (Hspd10 : 10 <= spd) by (subst spd; nia).
  assert (D0 : sp_dflt w 0 spd = spd) by (unfold sp_dflt; destruct (spd =? 0) eqn:E; [lia|reflexivity]).
  assert (D1 : sp_dflt w 1 sdf = sdf) by (unfold sp_dflt; destruct (sdf =? 0) eqn:E; [lia|reflexivity]).
  assert (D2 : sp_dflt w 2 eps = eps) by (unfold sp_dflt; destruct (eps =? 0) eqn:E; [lia|reflexivity]).
  assert (D3 : sp_dflt w 3 sumdf = sumdf) by (unfold sp_dflt; destruct (sumdf =? 0) eqn:E; [lia|reflexivity]).
  rewrite D0, D1, D2, D3.
  rewrite (N.max_l sdf 10), (N.max_l spd 10), (N.max_l eps 10), (N.max_l sumdf 10) by lia.
  rewrite (cp_round_multiple sdf mult Hm Hsdfm).
  assert (Hs0 : sdf <> 0) by lia.
  assert (Hspdm : spd mod sdf = 0) by (subst spd; rewrite N.mul_comm; apply N.mod_mul; exact Hs0).
  rewrite (cp_round_multiple spd sdf Hs0 Hspdm).
  rewrite (cp_round_multiple eps sumdf) by (try assumption; lia).
  assert (Hq : spd / sdf = epd) by (subst spd; rewrite N.mul_comm; apply N.div_mul; exact Hs0).
  rewrite Hq.
  assert (Hfit : sp_fit_epd (N.to_nat epd) eps epd = epd).
  { destruct (N.to_nat epd) as [|k] eqn:Ek; [lia|]. apply cp_fit_hit; assumption. }
  rewrite Hfit.
  assert (A1 : N.max (if adf =? 0 then DEF32_annotation_decimate_factor else adf) 10 = adf)
    by (destruct (adf =? 0) eqn:E; lia).
  assert (A2 : N.max (if udf =? 0 then DEF32_utc_decimate_factor else udf) 10 = udf)
    by (destruct (udf =? 0) eqn:E; lia).
  rewrite A1, A2, <- Hspd.
  destruct (ty =? JLS_SIGNAL_TYPE_VSR); [rewrite Hrate|]; reflexivity.
Qed.

Theorem cp_align_idem : forall d, dt_bits (sg_dtype d) <> 0 -> sp_align (sp_align d) = sp_align d.
Proof. intros d H. apply cp_aligned_fixed, cp_align_aligned, H. Qed.
