(* ITEM_NEXT LINK INVARIANT of the writer model, part 5: the theorems.
     lk_run_final   EVERY program (guards: no model fault, bounded log): in the checker state after the complete log of
                    jls_wr_open; p; jls_wr_close the three definition lists are linked (lk_dl), heads = the writer's.
     lk_file_links  the same on the FILE BYTES: for each definition list, the chunks of the chunk view (RefineLog.rf_chunks)
                    with a tag of that list, in append order: the header bytes in the file of the i-th one decode to a
                    header whose item_next is the offset of the (i+1)-th one, 0 for the last.
   Every top-level name starts with lk_. *)
From Coq Require Import NArith ZArith List Bool Lia Arith.
From Coq Require Import ZifyBool ZifyN ZifyNat.
From JLS Require Import Generated CrcDefs Spec Format FormatProofs WriteOnce WriteOnceProofs
                        WmRaw WmCore WmTs WmFsr WriterModel WmProofs WmWriteOnce WmWriteOnce2 WmWriteOnce3
                        RefineLog E2eLog E2eNoTrunc E2eModel LinksCore LinksCore2 LinksFsr LinksApi.
Import ListNotations.
Local Open Scope N_scope.
Local Opaque crc32c.

Lemma lk_run_pre : forall summ1 summN p,
  lk_ststep wm_state0 (lk_close_pre summ1 summN (fst (wm_steps summ1 summN wm_api_open p []))) /\
  fst (wm_run_full summ1 summN p) = wmw_fin (lk_close_pre summ1 summN (fst (wm_steps summ1 summN wm_api_open p []))).
Proof.
  intros summ1 summN p. unfold wm_run_full.
  pose proof (lk_steps_step summ1 summN p wm_api_open []) as H.
  destruct (wm_steps summ1 summN wm_api_open p []) as [st1 rcs]. cbn [fst] in *. split.
  - eapply lk_ststep_trans; [apply lk_api_open_step|]. eapply lk_ststep_trans; [exact H|apply lk_close_pre_step].
  - apply lk_api_close_eq.
Qed.

Lemma lk_fin_links : forall pre, lk_ststep wm_state0 pre ->
  wm_st_fault (wmw_fin pre) = false -> wmw_bounded (wm_st_log (wmw_fin pre)) ->
  exists s, wo_run false wo_st0 0 (wmw_evs (wm_st_log (wmw_fin pre))) = inl s /\ wo_pending s = WoIdle /\
            lk_dl (wm_st_base (wmw_fin pre)) (wo_pairs (wo_exts s)).
Proof.
  intros pre Hreach Hf Hb.
  unfold wmw_fin, wm_st_fault, wm_st_log in *. cbn [wm_st_base wm_st_set_base wm_b_raw wm_b_set_raw] in *.
  assert (Hgood : wmw_good (wm_raw_close (wm_b_raw (wm_st_base pre)))) by (split; assumption).
  destruct (wmw_good_close _ Hgood) as [G1 G2].
  destruct (lk_reach_accepted pre Hreach G1 G2) as (s & Hinv).
  destruct Hinv as (((Hsim & _) & Hdl) & _).
  destruct (wmw_sim_close _ _ Hsim) as (s' & Hsim' & Hex).
  exists s'. split; [exact (proj1 Hsim')|]. split; [apply Hsim'|].
  rewrite Hex. exact Hdl.
Qed.

Theorem lk_run_final : forall summ1 summN p,
  let st := fst (wm_run_full summ1 summN p) in
  wm_st_fault st = false -> wmw_bounded (wm_st_log st) ->
  exists s, wo_run false wo_st0 0 (wmw_evs (wm_st_log st)) = inl s /\ wo_pending s = WoIdle /\
            lk_dl (wm_st_base st) (wo_pairs (wo_exts s)).
Proof.
  intros summ1 summN p. cbv zeta. destruct (lk_run_pre summ1 summN p) as [Hreach Heq]. rewrite Heq.
  apply lk_fin_links. exact Hreach.
Qed.

(* ================================================================ list lemmas *)
Lemma lk_linked_nth : forall L nxt j p, lk_linked nxt L -> nth_error L j = Some p ->
  fm_item_next (snd p) = match j with O => nxt | S j' => match nth_error L j' with Some p' => fst p' | None => 0 end end.
Proof.
  induction L as [|p0 r IH]; intros nxt j p HL Hn; [destruct j; discriminate|].
  cbn [lk_linked] in HL. destruct HL as [Hnx0 HL]. destruct j as [|j']; cbn [nth_error] in Hn.
  - inversion Hn as [Hp]. rewrite <- Hp. exact Hnx0.
  - rewrite (IH _ _ _ HL Hn). destruct j' as [|j'']; reflexivity.
Qed.

Lemma lk_nth_error_rev : forall (A : Type) (L : list A) i, (i < length L)%nat ->
  nth_error (rev L) i = nth_error L (length L - S i).
Proof.
  intros A L i Hi. destruct L as [|d L']; [cbn in Hi; lia|]. set (L := d :: L') in *.
  rewrite (nth_error_nth' (rev L) d) by (rewrite rev_length; exact Hi).
  rewrite (nth_error_nth' L d) by lia. rewrite rev_nth by exact Hi. reflexivity.
Qed.

Lemma lk_filter_rev : forall (A : Type) (f : A -> bool) l, filter f (rev l) = rev (filter f l).
Proof.
  intros A f l. induction l as [|a l IH]; [reflexivity|]. cbn [rev filter]. rewrite filter_app, IH. cbn [filter].
  destruct (f a); cbn [rev]; [reflexivity|apply app_nil_r].
Qed.

Lemma lk_F2_filter : forall (A B : Type) (R : A -> B -> Prop) (f : A -> bool) (g : B -> bool) l1 l2,
  Forall2 R l1 l2 -> (forall a b, R a b -> f a = g b) -> Forall2 R (filter f l1) (filter g l2).
Proof.
  intros A B R f g l1 l2 H Hfg. induction H as [|x y l1 l2 Hxy HF IH]; [constructor|].
  cbn [filter]. rewrite (Hfg _ _ Hxy). destruct (g y); [constructor; assumption|exact IH].
Qed.

Lemma lk_F2_nth : forall (A B : Type) (R : A -> B -> Prop) l1 l2 j b, Forall2 R l1 l2 -> nth_error l2 j = Some b ->
  exists a, nth_error l1 j = Some a /\ R a b.
Proof.
  intros A B R l1 l2 j b H. revert j. induction H as [|x y l1 l2 Hxy HF IH]; intros j Hn; [destruct j; discriminate|].
  destruct j as [|j]; cbn [nth_error] in *; [inversion Hn; subst; eauto|apply IH; exact Hn].
Qed.

Lemma lk_filter_pairs : forall k E,
  filter (lk_on k) (wo_pairs E) = wo_pairs (filter (fun x => lk_key (fm_tag (wo_e_hdr x)) =? k) E).
Proof.
  intros k E. unfold wo_pairs. induction E as [|x E IH]; [reflexivity|]. cbn [map filter]. unfold lk_on at 1. cbn [snd].
  destruct (lk_key (fm_tag (wo_e_hdr x)) =? k); cbn [map]; rewrite IH; reflexivity.
Qed.

(* ================================================================ on the file bytes *)
Theorem lk_file_links : forall summ1 summN p,
  let st := fst (wm_run_full summ1 summN p) in
  wm_st_fault st = false -> wmw_bounded (wm_st_log st) ->
  let f := e2_file summ1 summN p in
  forall k, k = 1 \/ k = 2 \/ k = 3 ->
  let l := filter (fun c => lk_key (rc_tag c) =? k) (rf_chunks (wm_st_log st)) in
  forall i c, nth_error l i = Some c ->
    exists h pl, e2_chunk_at f (rc_off c) h pl /\ fm_tag h = rc_tag c /\ fm_chunk_meta h = rc_meta c /\
      fm_item_next h = match nth_error l (S i) with Some c' => rc_off c' | None => 0 end.
Proof.
  intros summ1 summN p st Hf Hb f k Hk l i c Hn.
  destruct (lk_run_final summ1 summN p Hf Hb) as (s & Hrun & Hidle & Hdl). fold st in Hrun, Hdl.
  pose proof (e2_log_J _ _ Hrun (e2_run_trunc_first summ1 summN p)) as J.
  change (wo_file_after (wmw_evs (wm_st_log st))) with f in J.
  set (q := rf_scan (wm_st_log st)) in *.
  pose proof (j_out _ _ _ J) as O. rewrite Hidle in O.
  set (E := wo_exts s) in *. set (out := rp_out q) in *.
  set (fE := fun x => lk_key (fm_tag (wo_e_hdr x)) =? k). set (fc := fun c => lk_key (rc_tag c) =? k) in *.
  assert (HL : lk_linked 0 (wo_pairs (filter fE E))).
  { unfold fE. rewrite <- lk_filter_pairs. destruct Hdl as (D1 & D2 & D3). destruct Hk as [->|[->| ->]]; [apply D1|apply D2|apply D3]. }
  assert (F2 : Forall2 (e2_rel f) (filter fE E) (filter fc out)).
  { apply lk_F2_filter; [exact O|]. intros a b (_ & R2 & _). unfold fE, fc. rewrite R2. reflexivity. }
  assert (El : l = rev (filter fc out)) by (unfold l, rf_chunks; fold q; fold out; apply lk_filter_rev).
  set (Lc := filter fc out) in *. set (LE := filter fE E) in *.
  assert (Hi : (i < length Lc)%nat).
  { rewrite <- rev_length, <- El. apply nth_error_Some. rewrite Hn. discriminate. }
  rewrite El in Hn. rewrite lk_nth_error_rev in Hn by exact Hi.
  destruct (lk_F2_nth _ _ _ _ _ _ _ F2 Hn) as (x & Hx & Rxc).
  assert (HxE : In x E).
  { apply nth_error_In in Hx. unfold LE in Hx. apply filter_In in Hx. apply Hx. }
  assert (Hc : In c out).
  { apply nth_error_In in Hn. unfold Lc in Hn. apply filter_In in Hn. apply Hn. }
  destruct (e2_J_chunk s q f c J Hidle Hc) as (x' & Hx'in & Hfind & Hoff & Htag & Hmeta & Hat).
  (* x' = x : offsets are distinct *)
  pose proof (j_wo _ _ _ J) as I.
  assert (E0 : wo_len s <> 0) by (intro Z; destruct (wi_empty _ _ I Z) as [Hex _]; fold E in Hex; rewrite Hex in HxE; destruct HxE).
  assert (Hnd : NoDup (map wo_e_off E)) by (rewrite <- e2_pairs_offs; eapply e2_chunks_nodup; apply (wi_chain _ _ I E0)).
  assert (Exx : x' = x).
  { pose proof (e2_find_in E x Hnd HxE) as Fx. destruct Rxc as (R1 & _). rewrite R1 in Fx. fold E in Hfind. congruence. }
  subst x'.
  assert (Hp : nth_error (wo_pairs LE) (length Lc - S i) = Some (wo_e_off x, wo_e_hdr x)).
  { unfold wo_pairs. rewrite (map_nth_error _ _ _ Hx). reflexivity. }
  pose proof (lk_linked_nth _ _ _ _ HL Hp) as Hnext. cbn [snd] in Hnext.
  assert (Hnx : fm_item_next (wo_e_hdr x) = match nth_error l (S i) with Some c' => rc_off c' | None => 0 end).
  { rewrite Hnext, El. destruct (Nat.eq_dec (S i) (length Lc)) as [Ee|Ene].
    - replace (length Lc - S i)%nat with 0%nat by lia.
      assert (Z : nth_error (rev Lc) (S i) = None) by (apply nth_error_None; rewrite rev_length; lia). rewrite Z. reflexivity.
    - assert (Hi2 : (S i < length Lc)%nat) by lia.
      rewrite lk_nth_error_rev by exact Hi2.
      replace (length Lc - S i)%nat with (S (length Lc - S (S i))) by lia.
      destruct (nth_error Lc (length Lc - S (S i))) as [c'|] eqn:Ec'.
      + destruct (lk_F2_nth _ _ _ _ _ _ _ F2 Ec') as (x2 & Hx2 & (R1 & _)).
        unfold wo_pairs. rewrite (map_nth_error _ _ _ Hx2). cbn [fst]. exact R1.
      + exfalso. apply nth_error_None in Ec'. lia. }
  destruct (fm_is_head_tag (rc_tag c)).
  - destruct Hat as [Hat _]. exists (wo_e_hdr x), (wo_e_table x). auto.
  - exists (wo_e_hdr x), (rc_pay c). auto.
Qed.

(* ================================================================ the vocabulary of the statements, spelled out *)
Lemma lk_vocabulary :
  (forall tag, lk_key tag =
     if tag =? JLS_TAG_SOURCE_DEF then 1
     else if tag =? JLS_TAG_USER_DATA then 3
     else if (tag =? JLS_TAG_SIGNAL_DEF) || (fm_is_track_tag tag && (fm_tag_chunk_kind tag <=? JLS_TRACK_CHUNK_HEAD)) then 2
     else 0) /\
  (forall k p, lk_on k p = (lk_key (fm_tag (snd p)) =? k)) /\
  (forall nxt, lk_linked nxt [] <-> True) /\
  (forall nxt p r, lk_linked nxt (p :: r) <-> (fm_item_next (snd p) = nxt /\ lk_linked (fst p) r)) /\
  (forall o, lk_pfind o [] = None) /\
  (forall o p r, lk_pfind o (p :: r) = if fst p =? o then Some (snd p) else lk_pfind o r) /\
  (forall k P c, lk_list k P c <->
     (lk_linked 0 (filter (lk_on k) P) /\
      match filter (lk_on k) P with
      | [] => wm_ck_offset c = 0
      | p :: _ => wm_ck_offset c = fst p /\ fst p <> 0 /\ lk_pfind (fst p) P = Some (snd p)
      end)) /\
  (forall b P, lk_dl b P <->
     (lk_list 1 P (wm_b_source_head b) /\ lk_list 2 P (wm_b_signal_head b) /\ lk_list 3 P (wm_b_ud_head b))) /\
  (forall E, wo_pairs E = map (fun x => (wo_e_off x, wo_e_hdr x)) E).
Proof.
  split; [reflexivity|]. split; [reflexivity|]. split; [intro; cbn; tauto|]. split; [intros; cbn; tauto|].
  split; [reflexivity|]. split; [reflexivity|]. split; [intros; unfold lk_list; tauto|]. split; [intros; unfold lk_dl; tauto|reflexivity].
Qed.
