(* Proofs about MrbModel.v (message ring buffer, /repo/src/msg_ring_buffer.c).
   Structure: byte/list lemmas; agreement of memories; segments (SegE) and the
   representation invariant (Rep / MInv, defined in MrbModel.v); the walk computes the
   extents; alloc_body_spec (the one case analysis of jls_mrb_alloc); peek/pop;
   the refinement theorems; all operation sequences; witnesses for the defects of the
   function as it is in /repo; tightness of the guard; examples. *)
From Coq Require Import NArith ZArith List Bool Lia ZifyBool ZifyN ZifyNat.
From JLS Require Import MrbModel.
Import ListNotations.
Local Open Scope N_scope.
Ltac Zify.zify_post_hook ::= Z.div_mod_to_equations.

(* ---------- lists and bytes ---------- *)
Lemma upd_length : forall b i v, length (upd b i v) = length b.
Proof. induction b as [|x r IH]; intros [|i] v; simpl; auto. Qed.

Lemma nth_upd : forall b i j v d,
  nth j (upd b i v) d = if (Nat.eqb j i) && (Nat.ltb i (length b)) then v else nth j b d.
Proof.
  induction b as [|x r IH]; intros i j v d.
  - simpl. destruct j; rewrite Bool.andb_false_r; reflexivity.
  - destruct i as [|i]; destruct j as [|j]; simpl; try reflexivity.
    rewrite IH. reflexivity.
Qed.

Lemma len_upd : forall b i v, len (upd b i v) = len b.
Proof. intros. unfold len. now rewrite upd_length. Qed.

Lemma byte_at_upd : forall b i j v,
  byte_at (upd b (N.to_nat i) v) j = if (j =? i) && (i <? len b) then v else byte_at b j.
Proof.
  intros. unfold byte_at, len. rewrite nth_upd.
  destruct (Nat.eqb (N.to_nat j) (N.to_nat i)) eqn:E1; destruct (j =? i) eqn:E2; try lia; simpl; auto.
  destruct (Nat.ltb (N.to_nat i) (length b)) eqn:E3; destruct (i <? N.of_nat (length b)) eqn:E4; try lia; auto.
Qed.

Lemma u32_small : forall x, x < 4294967296 -> u32 x = x.
Proof. intros. unfold u32. now apply N.mod_small. Qed.

Lemma lor_shl_add : forall a b n, a < 2 ^ n -> N.lor a (N.shiftl b n) = a + b * 2 ^ n.
Proof.
  intros a b n Ha. rewrite N.shiftl_mul_pow2.
  assert (HL : N.land a (b * 2 ^ n) = 0); [|rewrite (N.add_nocarry_lxor _ _ HL); symmetry; now apply N.lxor_lor].
  apply N.bits_inj. intro k. rewrite N.land_spec, N.bits_0.
  destruct (N.ltb k n) eqn:E.
  - apply N.ltb_lt in E. rewrite (N.mul_pow2_bits_low b n k E). apply Bool.andb_false_r.
  - apply N.ltb_ge in E.
    assert (N.testbit a k = false) as ->; [|reflexivity].
    destruct (N.eq_dec a 0) as [->|Hn]; [apply N.bits_0|].
    apply N.bits_above_log2. apply N.log2_lt_pow2 in Ha; lia.
Qed.

Lemma rd_bytes : forall b0 b1 b2 b3, b0 < 256 -> b1 < 256 -> b2 < 256 ->
  N.lor (N.lor (N.lor b0 (N.shiftl b1 8)) (N.shiftl b2 16)) (N.shiftl b3 24)
  = b0 + 256 * b1 + 65536 * b2 + 16777216 * b3.
Proof.
  intros.
  rewrite (lor_shl_add b0 b1 8) by (change (2 ^ 8) with 256; lia).
  change (2 ^ 8) with 256.
  rewrite (lor_shl_add _ b2 16) by (change (2 ^ 16) with 65536; lia).
  change (2 ^ 16) with 65536.
  rewrite (lor_shl_add _ b3 24) by (change (2 ^ 24) with 16777216; lia).
  change (2 ^ 24) with 16777216. lia.
Qed.

Lemma land255 : forall x, N.land x 255 = x mod 256.
Proof. intros. change 255 with (N.ones 8). now rewrite N.land_ones. Qed.

Lemma sz_roundtrip : forall v, v < 4294967296 ->
  N.lor (N.lor (N.lor (N.land v 255) (N.shiftl (N.land (N.shiftr v 8) 255) 8))
               (N.shiftl (N.land (N.shiftr v 16) 255) 16)) (N.shiftl (N.land (N.shiftr v 24) 255) 24) = v.
Proof.
  intros v Hv. rewrite !land255, !N.shiftr_div_pow2.
  rewrite rd_bytes by (apply N.mod_lt; lia).
  change (2 ^ 8) with 256. change (2 ^ 16) with 65536. change (2 ^ 24) with 16777216.
  lia.
Qed.

(* ---------- agreement of two memories ---------- *)
(* b' agrees with b on [lo,hi) *)
Definition agree (b b' : list N) (lo hi : N) : Prop :=
  len b' = len b /\ forall i, lo <= i < hi -> byte_at b' i = byte_at b i.
(* b' agrees with b outside [lo,hi) *)
Definition same_out (b b' : list N) (lo hi : N) : Prop :=
  len b' = len b /\ forall i, i < lo \/ hi <= i -> byte_at b' i = byte_at b i.

Lemma agree_refl : forall b lo hi, agree b b lo hi.
Proof. split; auto. Qed.
Lemma agree_sub : forall b b' lo hi lo' hi', agree b b' lo hi -> lo <= lo' -> hi' <= hi -> agree b b' lo' hi'.
Proof. intros b b' lo hi lo' hi' [HL H] ? ?. split; auto. intros; apply H; lia. Qed.
Lemma agree_trans : forall b b' b'' lo hi, agree b b' lo hi -> agree b' b'' lo hi -> agree b b'' lo hi.
Proof. intros b b' b'' lo hi [L1 H1] [L2 H2]. split; [congruence|]. intros. rewrite H2, H1; auto. Qed.
Lemma same_out_agree : forall b b' lo hi a e, same_out b b' lo hi -> e <= lo \/ hi <= a -> agree b b' a e.
Proof. intros b b' lo hi a e [HL H] Hd. split; auto. intros; apply H; lia. Qed.
Lemma same_out_refl : forall b lo hi, same_out b b lo hi.
Proof. split; auto. Qed.
Lemma same_out_trans : forall b b' b'' lo hi lo' hi' l h,
  same_out b b' lo hi -> same_out b' b'' lo' hi' -> l <= lo -> l <= lo' -> hi <= h -> hi' <= h ->
  same_out b b'' l h.
Proof.
  intros b b' b'' lo hi lo' hi' l h [L1 H1] [L2 H2] ? ? ? ?. split; [congruence|].
  intros. rewrite H2, H1; auto; lia.
Qed.

Lemma rd_sz_agree : forall b b' p, agree b b' p (p + 4) -> rd_sz b' p = rd_sz b p.
Proof. intros b b' p [_ H]. unfold rd_sz. rewrite !H by lia. reflexivity. Qed.

(* ---------- set / add_sz / get_sz ---------- *)
Lemma add_sz_ok : forall b B p v, len b = B -> p + 4 <= B -> v < 4294967296 ->
  exists b', add_sz b B p v = Ok b' /\ same_out b b' p (p + 4) /\ rd_sz b' p = v.
Proof.
  intros b B p v HL Hp Hv. unfold add_sz, set.
  assert (p <? B = true) as -> by lia. cbn [bind].
  assert (p + 1 <? B = true) as -> by lia. cbn [bind].
  assert (p + 2 <? B = true) as -> by lia. cbn [bind].
  assert (p + 3 <? B = true) as -> by lia.
  eexists; split; [reflexivity|]. split.
  - split. { now rewrite !len_upd. }
    intros i Hi. rewrite !byte_at_upd, !len_upd.
    assert (i =? p + 3 = false) as -> by lia. assert (i =? p + 2 = false) as -> by lia.
    assert (i =? p + 1 = false) as -> by lia. assert (i =? p = false) as -> by lia. reflexivity.
  - unfold rd_sz. rewrite !byte_at_upd, !len_upd. rewrite HL.
    assert (p + 3 <? B = true) as -> by lia. assert (p + 2 <? B = true) as -> by lia.
    assert (p + 1 <? B = true) as -> by lia. assert (p <? B = true) as -> by lia.
    rewrite !N.eqb_refl. cbn [andb].
    assert (p =? p + 3 = false) as -> by lia. assert (p =? p + 2 = false) as -> by lia.
    assert (p =? p + 1 = false) as -> by lia.
    assert (p + 1 =? p + 3 = false) as -> by lia. assert (p + 1 =? p + 2 = false) as -> by lia.
    assert (p + 2 =? p + 3 = false) as -> by lia. cbn [andb].
    now apply sz_roundtrip.
Qed.

Lemma add_sz_fault : forall b B p v, B < p + 4 -> exists i, add_sz b B p v = Fault (OOB_write i) /\ B <= i.
Proof.
  intros b B p v H. unfold add_sz, set.
  destruct (p <? B) eqn:E0; cbn [bind]; [|exists p; split; [reflexivity|lia]].
  destruct (p + 1 <? B) eqn:E1; cbn [bind]; [|exists (p + 1); split; [reflexivity|lia]].
  destruct (p + 2 <? B) eqn:E2; cbn [bind]; [|exists (p + 2); split; [reflexivity|lia]].
  destruct (p + 3 <? B) eqn:E3; cbn [bind]; [lia|exists (p + 3); split; [reflexivity|lia]].
Qed.

Lemma get_sz_ok : forall b B p, p + 4 <= B -> get_sz b B p = Ok (rd_sz b p).
Proof.
  intros b B p Hp. unfold get_sz, get.
  assert (p <? B = true) as -> by lia. assert (p + 1 <? B = true) as -> by lia.
  assert (p + 2 <? B = true) as -> by lia. assert (p + 3 <? B = true) as -> by lia.
  reflexivity.
Qed.

(* ---------- slices and block writes ---------- *)
Lemma nth_skipn' : forall (A : Type) p (l : list A) i d, nth i (skipn p l) d = nth (p + i) l d.
Proof. induction p; intros [|x l] i d; simpl; auto. destruct i; reflexivity. Qed.
Lemma nth_firstn' : forall (A : Type) z (l : list A) i d, (i < z)%nat -> nth i (firstn z l) d = nth i l d.
Proof.
  induction z; intros [|x l] i d H; simpl; auto; try lia.
  destruct i; auto. apply IHz; lia.
Qed.

Lemma slice_length : forall b p z, p + z <= len b -> length (slice b p z) = N.to_nat z.
Proof. intros. unfold slice, len in *. rewrite firstn_length, skipn_length. lia. Qed.

Lemma slice_len : forall b p z, p + z <= len b -> len (slice b p z) = z.
Proof. intros. unfold len at 1. rewrite slice_length by auto. lia. Qed.

Lemma slice_agree : forall b b' p z, p + z <= len b -> agree b b' p (p + z) -> slice b' p z = slice b p z.
Proof.
  intros b b' p z Hb [HL H].
  apply nth_ext with (d := 0) (d' := 0).
  - rewrite !slice_length; auto. lia.
  - intros i Hi. rewrite slice_length in Hi by lia.
    unfold slice. rewrite !nth_firstn' by lia. rewrite !nth_skipn'.
    specialize (H (p + N.of_nat i)). unfold byte_at in H.
    replace (N.to_nat (p + N.of_nat i)) with (N.to_nat p + i)%nat in H by lia.
    apply H. lia.
Qed.

Lemma blit_length : forall b p d, (p + length d <= length b)%nat -> length (blit b p d) = length b.
Proof. intros. unfold blit. rewrite !app_length, firstn_length, skipn_length. lia. Qed.

Lemma nth_blit : forall b p d i, (p + length d <= length b)%nat ->
  nth i (blit b p d) 0 = if (Nat.ltb i p) then nth i b 0 else if Nat.ltb i (p + length d) then nth (i - p) d 0 else nth i b 0.
Proof.
  intros b p d i H. unfold blit.
  destruct (Nat.ltb i p) eqn:E1.
  - rewrite app_nth1 by (rewrite firstn_length; lia). apply nth_firstn'. lia.
  - rewrite app_nth2 by (rewrite firstn_length; lia). rewrite firstn_length.
    replace (Nat.min p (length b)) with p by lia.
    destruct (Nat.ltb i (p + length d)) eqn:E2.
    + rewrite app_nth1 by lia. reflexivity.
    + rewrite app_nth2 by lia. rewrite nth_skipn'. f_equal. lia.
Qed.

Lemma blit_same_out : forall b p d, p + len d <= len b ->
  same_out b (blit b (N.to_nat p) d) p (p + len d).
Proof.
  intros b p d H. split; unfold len in *.
  - rewrite blit_length by lia. reflexivity.
  - intros i Hi. unfold byte_at. rewrite nth_blit by lia.
    destruct (Nat.ltb (N.to_nat i) (N.to_nat p)) eqn:E1; auto.
    destruct (Nat.ltb (N.to_nat i) (N.to_nat p + length d)) eqn:E2; auto. lia.
Qed.

Lemma slice_blit : forall b p d, p + len d <= len b -> slice (blit b (N.to_nat p) d) p (len d) = d.
Proof.
  intros b p d H. unfold len in *.
  apply nth_ext with (d := 0) (d' := 0).
  - rewrite slice_length; [lia|]. unfold len. rewrite blit_length by lia. lia.
  - intros i Hi. rewrite slice_length in Hi by (unfold len; rewrite blit_length by lia; lia).
    unfold slice. rewrite nth_firstn' by lia. rewrite nth_skipn', nth_blit by lia.
    assert (Nat.ltb (N.to_nat p + i) (N.to_nat p) = false) as -> by lia.
    assert (Nat.ltb (N.to_nat p + i) (N.to_nat p + length d) = true) as -> by lia.
    f_equal. lia.
Qed.

(* fill: the byte-by-byte copy equals the block write *)
Lemma firstn_S_upd : forall b p x, (p < length b)%nat -> firstn (S p) (upd b p x) = firstn p b ++ [x].
Proof.
  induction b as [|y r IH]; intros [|p] x H; simpl in *; try lia; auto.
  f_equal. apply IH. lia.
Qed.
Lemma skipn_upd : forall b p x k, (p < k)%nat -> skipn k (upd b p x) = skipn k b.
Proof.
  induction b as [|y r IH]; intros [|p] x [|k] H; simpl in *; try lia; auto.
  apply IH. lia.
Qed.

Lemma fill_bytes_ok : forall d b B p, len b = B -> p + len d <= B ->
  fill_bytes b B p d = Ok (blit b (N.to_nat p) d).
Proof.
  induction d as [|x r IH]; intros b B p HL Hp.
  - simpl. unfold blit. simpl. rewrite Nat.add_0_r, firstn_skipn. reflexivity.
  - unfold len in *. simpl length in *. cbn [fill_bytes]. unfold set.
    assert (p <? B = true) as -> by lia. cbn [bind].
    assert (Hp1 : p + 1 + N.of_nat (length r) <= B) by lia.
    rewrite IH; [|now rewrite upd_length|exact Hp1].
    f_equal. unfold blit.
    replace (N.to_nat (p + 1)) with (S (N.to_nat p)) by lia.
    rewrite firstn_S_upd by lia. rewrite skipn_upd by lia.
    rewrite <- app_assoc. cbn [app length]. do 4 f_equal. lia.
Qed.

Lemma fill_bytes_fault : forall d b B p, d <> [] -> B < p + len d ->
  fill_bytes b B p d = Fault (OOB_write (N.max p B)).
Proof.
  induction d as [|x r IH]; intros b B p Hne Hp; [congruence|].
  cbn [fill_bytes]. unfold set. destruct (p <? B) eqn:E; cbn [bind].
  - unfold len in *. simpl length in *. rewrite IH.
    + do 2 f_equal. lia.
    + intros ->. simpl in Hp. lia.
    + lia.
  - do 2 f_equal. lia.
Qed.

Lemma fill_fast_eq : forall s p d, len (buf s) = size s -> fill_fast s p d = fill s p d.
Proof.
  intros s p d HL. unfold fill_fast, fill.
  destruct (p + len d <=? size s) eqn:E.
  - rewrite fill_bytes_ok by (auto; lia). reflexivity.
  - destruct d as [|x r].
    + simpl. destruct s; reflexivity.
    + assert (len (x :: r) =? 0 = false) as -> by (unfold len; simpl length; lia).
      rewrite fill_bytes_fault by (try congruence; lia). reflexivity.
Qed.

(* ---------- segments of messages ---------- *)




Lemma SegE_len : forall es b a e, SegE b a e es -> a + 4 * nlen es <= e.
Proof.
  induction es as [|[o z] r IH]; intros b a e H; unfold nlen in *; cbn [SegE fst snd length app] in *.
  - lia.
  - destruct H as (Ho & Hz & Hle & Hrd & Hr). apply IH in Hr. lia.
Qed.

Lemma SegE_le : forall es b a e, SegE b a e es -> a <= e.
Proof. intros es b a e H. apply SegE_len in H. lia. Qed.

Lemma SegE_same : forall es b a, SegE b a a es -> es = [].
Proof. intros [|x r] b a H; auto. apply SegE_len in H. unfold nlen in H. simpl length in H. lia. Qed.

Lemma SegE_nonempty : forall es b a e, SegE b a e es -> a <> e -> es <> [].
Proof. intros [|x r] b a e H Hne; cbn [SegE fst snd length app] in *; congruence. Qed.

Lemma SegE_agree : forall es b b' a e, SegE b a e es -> agree b b' a e -> SegE b' a e es.
Proof.
  induction es as [|[o z] r IH]; intros b b' a e H Ha; cbn [SegE fst snd length app] in *; auto.
  destruct H as (Ho & Hz & Hle & Hrd & Hr).
  pose proof (SegE_le _ _ _ _ Hr) as Hle2.
  repeat split; auto.
  - rewrite <- Hrd. apply rd_sz_agree. eapply agree_sub; eauto; lia.
  - eapply IH; eauto. eapply agree_sub; eauto; lia.
Qed.

Lemma SegE_app : forall es1 es2 b a c e, SegE b a c es1 -> SegE b c e es2 -> SegE b a e (es1 ++ es2).
Proof.
  induction es1 as [|[o z] r IH]; intros es2 b a c e H1 H2; cbn [SegE fst snd length app] in *.
  - subst; auto.
  - destruct H1 as (Ho & Hz & Hle & Hrd & Hr).
    pose proof (SegE_le _ _ _ _ H2). repeat split; auto; try lia. eapply IH; eauto.
Qed.

(* where the messages of a segment lie *)
Definition within (a e : N) (x : N * N) : Prop := a + 4 <= fst x /\ fst x + snd x <= e.

Lemma SegE_within : forall es b a e, SegE b a e es -> Forall (within a e) es.
Proof.
  induction es as [|[o z] r IH]; intros b a e H; cbn [SegE fst snd length app] in *; constructor.
  - destruct H as (Ho & Hz & Hle & Hrd & Hr). unfold within; simpl. lia.
  - destruct H as (Ho & Hz & Hle & Hrd & Hr). apply IH in Hr.
    eapply Forall_impl; [|exact Hr]. unfold within; cbn [SegE fst snd length app] in *. intros; lia.
Qed.

(* ---------- representation invariant ---------- *)






(* ---------- the walk computes the extents ---------- *)
Lemma walk_lin : forall es fuel b h a, SegE b a h es -> (length es < fuel)%nat -> walk fuel b h a = es.
Proof.
  induction es as [|[o z] r IH]; intros fuel b h a H Hf; destruct fuel as [|f]; try (cbn [length] in Hf; lia).
  - cbn [SegE fst snd length app] in H. subst. cbn [walk]. now rewrite N.eqb_refl.
  - cbn [SegE fst snd length app] in H. destruct H as (Ho & Hz & Hle & Hrd & Hr). cbn [SegE fst snd length app] in *.
    pose proof (SegE_le _ _ _ _ Hr).
    cbn [walk]. assert (a =? h = false) as -> by lia.
    rewrite Hrd. assert (2147483648 <=? z = false) as -> by lia.
    subst o. f_equal. apply IH; auto. lia.
Qed.

Lemma walk_pre : forall es1 fuel b h a m, SegE b a m es1 -> h < a ->
  (length es1 <= fuel)%nat -> walk fuel b h a = es1 ++ walk (fuel - length es1) b h m.
Proof.
  induction es1 as [|[o z] r IH]; intros fuel b h a m H Hh Hf.
  - cbn [SegE fst snd length app] in H. subst. simpl. now rewrite Nat.sub_0_r.
  - destruct fuel as [|f]; [cbn [length] in Hf; lia|].
    cbn [SegE fst snd length app] in H. destruct H as (Ho & Hz & Hle & Hrd & Hr). cbn [SegE fst snd length app] in *.
    cbn [walk]. assert (a =? h = false) as -> by lia.
    rewrite Hrd. assert (2147483648 <=? z = false) as -> by lia.
    subst o. f_equal. apply IH; auto; lia.
Qed.

Lemma Rep_extents : forall s es, Rep s es -> extents s = es.
Proof.
  intros s es (HL & HB & [(Hth & Hh & Hseg) | (m & es1 & es2 & Hht & Htm & Hm & Hmk & H1 & H2 & Hne & ->)]);
    unfold extents.
  - apply walk_lin; auto. apply SegE_len in Hseg. unfold nlen in Hseg. lia.
  - pose proof (SegE_len _ _ _ _ H1) as L1. pose proof (SegE_len _ _ _ _ H2) as L2. unfold nlen in *.
    rewrite (walk_pre es1 _ _ _ _ m) by (auto; lia).
    f_equal.
    remember (N.to_nat (size s / 4) + 2 - length es1)%nat as fuel.
    destruct fuel as [|f]; [lia|].
    cbn [walk]. assert (m =? head s = false) as -> by lia.
    unfold is_marker in Hmk. assert (2147483648 <=? rd_sz (buf s) m = true) as -> by lia.
    apply walk_lin; auto. lia.
Qed.

Lemma Rep_unique : forall s es es', Rep s es -> Rep s es' -> es = es'.
Proof. intros s es es' H H'. apply Rep_extents in H, H'. congruence. Qed.

Lemma MInv_Rep : forall s, MInv s -> Rep s (extents s) /\ count s = nlen (extents s).
Proof. intros s (es & HR & HC). rewrite (Rep_extents _ _ HR). auto. Qed.

(* empty <-> head = tail *)
Lemma Rep_empty : forall s es, Rep s es -> (es = [] <-> head s = tail s).
Proof.
  intros s es (HL & HB & [(Hth & Hh & Hseg) | (m & es1 & es2 & Hht & Htm & Hm & Hmk & H1 & H2 & Hne & ->)]).
  - split; intros H.
    + subst. simpl in Hseg. auto.
    + rewrite H in Hseg. eapply SegE_same; eauto.
  - split; intros H; [|lia]. apply app_eq_nil in H. tauto.
Qed.

(* ---------- alloc ---------- *)
Definition set_buf (s : mrb) (b : list N) : mrb := mk_mrb (head s) (tail s) (count s) b (size s).

(* what a successful alloc guarantees about the messages es that were in the queue *)
Definition kept (b b' : list N) (p sz : N) (x : N * N) : Prop :=
  4 <= fst x /\ fst x + snd x <= len b /\
  (p + sz <= fst x - 4 \/ fst x + snd x <= p - 4) /\
  agree b b' (fst x - 4) (fst x + snd x).

Lemma SegE_single : forall b a z, rd_sz b a = z -> z < 2147483648 -> SegE b a (a + 4 + z) [(a + 4, z)].
Proof. intros. cbn [SegE fst snd]. repeat split; auto; lia. Qed.

Lemma seg_keep : forall es b b' a e p sz, SegE b a e es -> agree b b' a e ->
  4 <= p -> (e <= p - 4 \/ p + sz <= a) -> e <= len b -> Forall (kept b b' p sz) es.
Proof.
  intros es b b' a e p sz H Ha Hp Hd He. apply SegE_within in H.
  eapply Forall_impl; [|exact H]. intros [o z] [H1 H2]; cbn [fst snd] in *.
  unfold kept; cbn [fst snd]. split; [lia|]. split; [lia|]. split; [lia|].
  eapply agree_sub; eauto; lia.
Qed.

Lemma place_ok : forall s0 b p sz, len b = size s0 -> size s0 <= 2147483648 -> p + 4 + sz < size s0 ->
  exists b', place s0 b p sz = Ok (mk_mrb (p + 4 + sz) (tail s0) (u32 (count s0 + 1)) b' (size s0), Some (p + 4))
             /\ same_out b b' p (p + 4) /\ rd_sz b' p = sz.
Proof.
  intros s0 b p sz HL HB Hp. unfold place.
  destruct (add_sz_ok b (size s0) p sz HL) as (b' & E & Hso & Hrd); [lia|lia|].
  exists b'. rewrite E. cbn [bind].
  rewrite (u32_small (p + 4)) by lia. rewrite (u32_small (p + 4 + sz)) by lia.
  assert (size s0 <=? p + 4 + sz = false) as -> by lia. auto.
Qed.

Lemma alloc_body_spec : forall s es sz, Rep s es -> usable (size s) sz ->
  (alloc_body s sz = Ok (s, None) /\ ~ fits s sz /\ es <> [])
  \/ (exists s' p, alloc_body s sz = Ok (s', Some p) /\
        size s' = size s /\ count s' = u32 (count s + 1) /\ 4 <= p /\ p + sz <= size s /\
        Forall (kept (buf s) (buf s') p sz) es /\
        (forall b'', same_out (buf s') b'' p (p + sz) -> Rep (set_buf s' b'') (es ++ [(p, sz)]))).
Proof.
  intros s es sz HR HU. unfold usable in HU.
  destruct HR as (HL & HB & [(Hth & Hh & Hseg) | (m & es1 & es2 & Hht & Htm & Hm & Hmk & H1 & H2 & Hne & ->)]);
    unfold alloc_body.
  - (* tail <= head *)
    assert (tail s <=? head s = true) as -> by lia.
    assert (Hh' : head s + 4 <= size s) by lia.
    set (k := if tail s =? 0 then 1 else 0).
    assert (Hk : k = 0 \/ k = 1) by (unfold k; destruct (tail s =? 0); auto).
    rewrite (u32_small (head s + 4 + sz + 4 + k)) by lia.
    destruct (head s + 4 + sz + 4 + k <? size s) eqn:E1.
    + (* fits as is *)
      right.
      destruct (place_ok s (buf s) (head s) sz HL HB) as (b' & EP & Hso & Hrd); [lia|].
      eexists; eexists. split; [exact EP|]. cbn [size count buf head tail set_buf].
      split; [reflexivity|]. split; [reflexivity|]. split; [lia|]. split; [lia|]. split.
      * eapply seg_keep; eauto; try lia. eapply same_out_agree; eauto; lia.
      * intros b'' Hb''. unfold Rep; cbn [set_buf size count buf head tail]. split; [destruct Hb'' as [-> _]; destruct Hso as [-> _]; exact HL|].
        split; [exact HB|]. left. cbn [size count buf head tail].
        split; [apply SegE_le in Hseg; lia|]. split; [lia|].
        eapply SegE_app with (c := head s).
        -- eapply SegE_agree; [exact Hseg|].
           eapply agree_trans; eapply same_out_agree; eauto; lia.
        -- apply SegE_single; [|lia]. rewrite <- Hrd. apply rd_sz_agree.
           eapply same_out_agree; eauto; lia.
    + rewrite (u32_small (sz + 5)) by lia.
      destruct (sz + 5 <? tail s) eqn:E2.
      * (* wrap *)
        right.
        destruct (add_sz_ok (buf s) (size s) (head s) 4294967295 HL) as (b1 & EM & Hso1 & Hrd1); [lia|lia|].
        rewrite EM. cbn [bind].
        destruct (place_ok s b1 0 sz) as (b' & EP & Hso & Hrd); [destruct Hso1 as [-> _]; exact HL|exact HB|lia|].
        eexists; eexists. split; [exact EP|]. cbn [size count buf head tail set_buf].
        split; [reflexivity|]. split; [reflexivity|]. split; [lia|]. split; [lia|].
        assert (Hag : agree (buf s) b' (tail s) (head s)).
        { eapply agree_trans; eapply same_out_agree; eauto; lia. }
        split.
        -- eapply seg_keep; eauto; lia.
        -- intros b'' Hb''. unfold Rep; cbn [set_buf size count buf head tail]. split; [destruct Hb'' as [-> _]; destruct Hso as [-> _]; destruct Hso1 as [-> _]; exact HL|].
           split; [exact HB|]. right. cbn [size count buf head tail].
           exists (head s), es, [(0 + 4, sz)].
           split; [lia|]. split; [lia|]. split; [lia|]. split.
           { unfold is_marker.
             assert (rd_sz b'' (head s) = 4294967295) as ->; [|lia].
             rewrite <- Hrd1. apply rd_sz_agree.
             eapply agree_trans; eapply same_out_agree; eauto; lia. }
           split.
           { eapply SegE_agree; [exact Hseg|]. eapply agree_trans; [exact Hag|].
             eapply same_out_agree; eauto; lia. }
           split.
           { apply SegE_single; [|lia]. rewrite <- Hrd. apply rd_sz_agree.
             eapply same_out_agree; eauto; lia. }
           split; [congruence|reflexivity].
      * destruct (head s =? tail s) eqn:E3.
        -- (* empty: reset *)
           right. apply N.eqb_eq in E3. rewrite E3 in Hseg. apply SegE_same in Hseg. subst es.
           destruct (place_ok (mk_mrb 0 0 (count s) (buf s) (size s)) (buf s) 0 sz) as (b' & EP & Hso & Hrd);
             cbn [size]; [exact HL|exact HB|lia|].
           cbn [size count tail] in EP.
           eexists; eexists. split; [exact EP|]. cbn [size count buf head tail set_buf].
           split; [reflexivity|]. split; [reflexivity|]. split; [lia|]. split; [lia|]. split; [constructor|].
           intros b'' Hb''. unfold Rep; cbn [set_buf size count buf head tail]. split; [destruct Hb'' as [-> _]; destruct Hso as [-> _]; exact HL|].
           split; [exact HB|]. left. cbn [size count buf head tail app].
           split; [lia|]. split; [lia|].
           apply SegE_single; [|lia]. rewrite <- Hrd. apply rd_sz_agree.
           eapply same_out_agree; eauto; lia.
        -- (* does not fit *)
           left. split; [reflexivity|]. split.
           ++ unfold fits. fold k. intros (_ & [F | [F | [F | F]]]); try lia.
              unfold k in *. destruct (tail s =? 0); lia.
           ++ eapply SegE_nonempty; eauto. lia.
  - (* head < tail *)
    assert (tail s <=? head s = false) as -> by lia.
    rewrite (u32_small (head s + sz + 5)) by lia.
    pose proof (SegE_le _ _ _ _ H1) as Hle1.
    destruct (head s + sz + 5 <? tail s) eqn:E1.
    + right.
      destruct (place_ok s (buf s) (head s) sz HL HB) as (b' & EP & Hso & Hrd); [lia|].
      eexists; eexists. split; [exact EP|]. cbn [size count buf head tail set_buf].
      split; [reflexivity|]. split; [reflexivity|]. split; [lia|]. split; [lia|]. split.
      * apply Forall_app. split.
        -- eapply seg_keep; eauto; try lia. eapply same_out_agree; eauto; lia.
        -- eapply seg_keep; eauto; try lia. eapply same_out_agree; eauto; lia.
      * intros b'' Hb''. unfold Rep; cbn [set_buf size count buf head tail]. split; [destruct Hb'' as [-> _]; destruct Hso as [-> _]; exact HL|].
        split; [exact HB|]. right. cbn [size count buf head tail].
        exists m, es1, (es2 ++ [(head s + 4, sz)]).
        split; [lia|]. split; [lia|]. split; [lia|]. split.
        { unfold is_marker in *.
          assert (rd_sz b'' m = rd_sz (buf s) m) as ->; [|lia].
          apply rd_sz_agree. eapply agree_trans; eapply same_out_agree; eauto; lia. }
        split.
        { eapply SegE_agree; [exact H1|]. eapply agree_trans; eapply same_out_agree; eauto; lia. }
        split.
        { eapply SegE_app with (c := head s).
          - eapply SegE_agree; [exact H2|]. eapply agree_trans; eapply same_out_agree; eauto; lia.
          - apply SegE_single; [|lia]. rewrite <- Hrd. apply rd_sz_agree.
            eapply same_out_agree; eauto; lia. }
        split; [destruct es2; cbn; congruence|now rewrite app_assoc].
    + left. split; [reflexivity|]. split.
      * unfold fits. intros (_ & [F | [F | [F | F]]]); lia.
      * destruct es1; cbn; [exact Hne|congruence].
Qed.

(* ---------- peek / pop ---------- *)
Lemma peek_spec : forall s es, Rep s es ->
  match es with
  | [] => peek s = Ok (s, None)
  | x :: r => exists s', peek s = Ok (s', Some x) /\ Rep s' es /\ buf s' = buf s /\ count s' = count s /\
                         size s' = size s /\ head s' = head s /\ tail s' + 4 = fst x /\ fst x + snd x < size s
  end.
Proof.
  intros s es (HL & HB & [(Hth & Hh & Hseg) | (m & es1 & es2 & Hht & Htm & Hm & Hmk & H1 & H2 & Hne & ->)]).
  - destruct es as [|[o z] r].
    + cbn [SegE] in Hseg. unfold peek. rewrite Hseg, N.eqb_refl. reflexivity.
    + pose proof Hseg as Hseg0. cbn [SegE fst snd] in Hseg. destruct Hseg as (Ho & Hz & Hle & Hrd & Hr).
      pose proof (SegE_le _ _ _ _ Hr) as Hle2.
      exists s. unfold peek.
      assert (tail s =? head s = false) as -> by lia.
      rewrite get_sz_ok by lia. cbn [bind]. rewrite Hrd.
      assert (2147483648 <=? z = false) as -> by lia. subst o.
      split; [reflexivity|]. cbn [fst snd].
      split; [|repeat split; auto; lia].
      split; [exact HL|]. split; [exact HB|]. left. auto.
  - pose proof (SegE_le _ _ _ _ H1) as Hle1.
    destruct es1 as [|[o z] r1].
    + (* tail is at the marker *)
      cbn [SegE] in H1. cbn [app].
      destruct es2 as [|[o z] r2]; [congruence|].
      pose proof H2 as H20. cbn [SegE fst snd] in H2. destruct H2 as (Ho & Hz & Hle & Hrd & Hr).
      pose proof (SegE_le _ _ _ _ Hr) as Hle2.
      exists (set_tail s 0). unfold peek.
      assert (tail s =? head s = false) as -> by lia.
      rewrite get_sz_ok by lia. cbn [bind]. unfold is_marker in Hmk. rewrite H1.
      assert (2147483648 <=? rd_sz (buf s) m = true) as -> by lia.
      rewrite <- H1. assert (tail s <? head s = false) as -> by lia.
      assert (0 =? head s = false) as -> by lia.
      rewrite get_sz_ok by lia. cbn [bind]. rewrite Hrd. subst o.
      split; [reflexivity|]. cbn [fst snd set_tail buf count size head tail].
      split; [|repeat split; auto; lia].
      split; [exact HL|]. split; [exact HB|]. left. unfold set_tail; cbn [buf count size head tail].
      split; [lia|]. split; [lia|]. exact H20.
    + pose proof H1 as H10. cbn [SegE fst snd] in H1. destruct H1 as (Ho & Hz & Hle & Hrd & Hr).
      pose proof (SegE_le _ _ _ _ Hr) as Hle2.
      exists s. unfold peek.
      assert (tail s =? head s = false) as -> by lia.
      rewrite get_sz_ok by lia. cbn [bind]. rewrite Hrd.
      assert (2147483648 <=? z = false) as -> by lia. subst o.
      split; [reflexivity|]. cbn [fst snd app].
      split; [|repeat split; auto; lia].
      split; [exact HL|]. split; [exact HB|]. right.
      exists m, ((tail s + 4, z) :: r1), es2. repeat split; auto.
Qed.

Lemma nlen_cons : forall x (r : list (N * N)), nlen (x :: r) = nlen r + 1.
Proof. intros. unfold nlen. cbn [length]. lia. Qed.

Lemma pop_spec : forall s es, Rep s es -> count s = nlen es ->
  match es with
  | [] => pop s = Ok (s, None)
  | x :: r => exists s', pop s = Ok (s', Some x) /\ Rep s' r /\ count s' = nlen r /\ buf s' = buf s /\
                         size s' = size s /\ fst x + snd x <= size s
  end.
Proof.
  intros s es HR HC. pose proof (peek_spec s es HR) as HP.
  destruct es as [|[o z] r].
  - unfold pop. rewrite HP. reflexivity.
  - destruct HP as (s1 & EP & HR1 & Hb & Hc & Hs & Hh & Ht & Hlt). cbn [fst snd] in *.
    unfold pop. rewrite EP. cbn [bind].
    destruct HR1 as (HL & HB & HR1).
    rewrite (u32_small (4 + z)) by lia. rewrite (u32_small (tail s1 + (4 + z))) by lia.
    assert (size s1 <=? tail s1 + (4 + z) = false) as -> by lia.
    rewrite Hc, HC, nlen_cons.
    assert (nlen r + 1 =? 0 = false) as -> by lia.
    eexists. split; [reflexivity|]. cbn [buf count size head tail].
    split; [|repeat split; auto; lia].
    split; [exact HL|]. split; [exact HB|]. cbn [buf count size head tail].
    destruct HR1 as [(Hth & Hh' & Hseg) | (m & es1 & es2 & Hht & Htm & Hm & Hmk & H1 & H2 & Hne & Heq)].
    + left. cbn [SegE fst snd] in Hseg. destruct Hseg as (Ho & Hz & Hle & Hrd & Hr).
      pose proof (SegE_le _ _ _ _ Hr). replace (tail s1 + (4 + z)) with (o + z) by lia.
      split; [lia|]. split; [lia|]. exact Hr.
    + right. destruct es1 as [|[o1 z1] r1].
      * (* peek has moved the tail off the marker: cannot be *)
        exfalso. cbn [SegE] in H1. cbn [app] in Heq. subst es2.
        cbn [SegE fst snd] in H2. lia.
      * cbn [app] in Heq. injection Heq as Eo Ez Er. subst o1 z1 r.
        cbn [SegE fst snd] in H1. destruct H1 as (Ho & Hz & Hle & Hrd & Hr).
        pose proof (SegE_le _ _ _ _ Hr).
        exists m, r1, es2. replace (tail s1 + (4 + z)) with (o + z) by lia.
        repeat split; auto; lia.
Qed.

(* ---------- invariant-level statements ---------- *)
Lemma Rep_count_bound : forall s es, Rep s es -> 4 * nlen es <= size s.
Proof.
  intros s es (HL & HB & [(Hth & Hh & Hseg) | (m & es1 & es2 & Hht & Htm & Hm & Hmk & H1 & H2 & Hne & ->)]).
  - apply SegE_len in Hseg. lia.
  - apply SegE_len in H1, H2. unfold nlen in *. rewrite app_length. lia.
Qed.

Lemma set_buf_id : forall s, set_buf s (buf s) = s.
Proof. destruct s; reflexivity. Qed.

Lemma init_MInv : forall B, B <= 2147483648 -> MInv (init B).
Proof.
  intros B HB. exists []. split; [|reflexivity].
  split; [|split; [exact HB|]]; cbn [init buf size head tail].
  - unfold len. rewrite repeat_length. lia.
  - left. cbn [SegE]. split; [lia|]. split; [right|]; reflexivity.
Qed.

Lemma abs_Rep : forall s es, Rep s es -> mrb_abs s = map (fun e => slice (buf s) (fst e) (snd e)) es.
Proof. intros s es H. unfold mrb_abs. now rewrite (Rep_extents _ _ H). Qed.

Lemma alloc_usable : forall s sz, usable (size s) sz -> alloc s sz = alloc_body s sz /\ alloc_fixed s sz = alloc_body s sz.
Proof.
  intros s sz H. unfold usable in H. unfold alloc, alloc_fixed.
  assert (size s <? sz = false) as -> by lia.
  assert (size s <? 8 = false) as -> by lia.
  assert (size s - 8 <? sz = false) as -> by lia. auto.
Qed.

Lemma alloc_fixed_unusable : forall s sz, ~ usable (size s) sz -> alloc_fixed s sz = Ok (s, None).
Proof.
  intros s sz H. unfold usable in H. unfold alloc_fixed.
  destruct (size s <? 8) eqn:E1; cbn [orb]; auto.
  assert (size s - 8 <? sz = true) as -> by lia. reflexivity.
Qed.

(* alloc followed by the caller's copy *)
Lemma alloc_fill_spec : forall s es sz s' p d, Rep s es -> count s = nlen es -> usable (size s) sz ->
  alloc_body s sz = Ok (s', Some p) -> len d = sz ->
  (Rep s' (es ++ [(p, sz)]) /\ count s' = nlen (es ++ [(p, sz)])) /\
  (exists s'', fill s' p d = Ok s'' /\ Rep s'' (es ++ [(p, sz)]) /\ count s'' = nlen (es ++ [(p, sz)]) /\
               size s'' = size s /\ mrb_abs s'' = mrb_abs s ++ [d]) /\
  size s' = size s /\ 4 <= p /\ p + sz <= size s /\
  Forall (fun x => p + sz + 4 <= fst x \/ fst x + snd x + 4 <= p) es.
Proof.
  intros s es sz s' p d HR HC HU EA Hd.
  destruct (alloc_body_spec s es sz HR HU) as [(E & _) | (s1 & p1 & E & Hsz & Hcnt & Hp4 & Hpe & Hk & Hrep)];
    rewrite E in EA; [discriminate|]. injection EA as <- <-.
  pose proof (Rep_count_bound _ _ HR) as Hcb. destruct HR as (HL & HB & HR0).
  assert (Hc1 : count s1 = nlen (es ++ [(p1, sz)])).
  { rewrite Hcnt, HC. unfold nlen. rewrite app_length. cbn [length]. unfold nlen in Hcb.
    rewrite u32_small by lia. lia. }
  pose proof (Hrep (buf s1) (same_out_refl _ _ _)) as HR1. rewrite set_buf_id in HR1.
  split; [split; [exact HR1|exact Hc1]|].
  split.
  - assert (HL1 : len (buf s1) = size s1) by (destruct HR1 as (H & _); exact H).
    unfold fill. rewrite fill_bytes_ok by (auto; lia). cbn [bind].
    assert (Hso : same_out (buf s1) (blit (buf s1) (N.to_nat p1) d) p1 (p1 + sz)).
    { rewrite <- Hd. apply blit_same_out. lia. }
    eexists. split; [reflexivity|].
    pose proof (Hrep _ Hso) as HR2. unfold set_buf in HR2.
    split; [exact HR2|]. cbn [count size]. split; [exact Hc1|]. split; [exact Hsz|].
    rewrite (abs_Rep _ _ HR2). cbn [buf]. rewrite map_app. cbn [map fst snd].
    rewrite (abs_Rep s es) by (split; [exact HL|split; [exact HB|exact HR0]]).
    f_equal.
    + apply map_ext_in. intros [o z] Hin. cbn [fst snd].
      rewrite Forall_forall in Hk. destruct (Hk _ Hin) as (K1 & K2 & K3 & K4). cbn [fst snd] in *.
      apply slice_agree; [lia|].
      eapply agree_trans.
      * eapply agree_sub; [exact K4|lia|lia].
      * eapply same_out_agree; [exact Hso|]. lia.
    + f_equal. rewrite <- Hd. apply slice_blit. lia.
  - repeat split; auto.
    eapply Forall_impl; [|exact Hk]. intros x (K1 & K2 & K3 & K4). lia.
Qed.

(* ---------- the theorems ---------- *)


Lemma alloc_body_refines : forall s sz s' p d,
  MInv s -> usable (size s) sz -> alloc_body s sz = Ok (s', Some p) -> len d = sz ->
  MInv s' /\ size s' = size s /\
  (exists s'', fill s' p d = Ok s'' /\ MInv s'' /\ size s'' = size s /\ mrb_abs s'' = mrb_abs s ++ [d]) /\
  4 <= p /\ p + sz <= size s /\ disjoint_from_live s p sz.
Proof.
  intros s sz s' p d (es & HR & HC) HU EA Hd.
  destruct (alloc_fill_spec s es sz s' p d HR HC HU EA Hd) as ((R1 & C1) & (s'' & EF & R2 & C2 & S2 & A2) & S1 & P4 & PE & DJ).
  split; [exists (es ++ [(p, sz)]); auto|]. split; [exact S1|].
  split; [exists s''; split; [exact EF|]; split; [exists (es ++ [(p, sz)]); auto|auto]|].
  split; [exact P4|]. split; [exact PE|].
  unfold disjoint_from_live. now rewrite (Rep_extents _ _ HR).
Qed.

Lemma alloc_refines_guarded : forall s sz s' p d,
  MInv s -> usable (size s) sz -> alloc s sz = Ok (s', Some p) -> len d = sz ->
  MInv s' /\ size s' = size s /\
  (exists s'', fill s' p d = Ok s'' /\ MInv s'' /\ size s'' = size s /\ mrb_abs s'' = mrb_abs s ++ [d]) /\
  4 <= p /\ p + sz <= size s /\ disjoint_from_live s p sz.
Proof. intros s sz s' p d HI HU EA. rewrite (proj1 (alloc_usable s sz HU)) in EA. now apply alloc_body_refines. Qed.

Lemma alloc_fixed_refines : forall s sz s' p d,
  MInv s -> alloc_fixed s sz = Ok (s', Some p) -> len d = sz ->
  MInv s' /\ size s' = size s /\
  (exists s'', fill s' p d = Ok s'' /\ MInv s'' /\ size s'' = size s /\ mrb_abs s'' = mrb_abs s ++ [d]) /\
  4 <= p /\ p + sz <= size s /\ disjoint_from_live s p sz.
Proof.
  intros s sz s' p d HI EA.
  assert (HU : usable (size s) sz).
  { unfold usable. destruct (N.le_gt_cases (sz + 8) (size s)) as [H|H]; auto.
    rewrite alloc_fixed_unusable in EA by (unfold usable; lia). discriminate. }
  rewrite (proj2 (alloc_usable s sz HU)) in EA. now apply alloc_body_refines.
Qed.

Lemma alloc_body_fail : forall s sz s', MInv s -> usable (size s) sz -> alloc_body s sz = Ok (s', None) ->
  s' = s /\ ~ fits s sz /\ mrb_abs s <> [].
Proof.
  intros s sz s' (es & HR & HC) HU EA.
  destruct (alloc_body_spec s es sz HR HU) as [(E & NF & NE) | (s1 & p1 & E & _)]; rewrite E in EA; [|discriminate].
  injection EA as <-. split; [reflexivity|]. split; [exact NF|].
  rewrite (abs_Rep _ _ HR). destruct es; [congruence|discriminate].
Qed.

Lemma alloc_fail_sound : forall s sz s', MInv s -> alloc s sz = Ok (s', None) -> s' = s /\ ~ fits s sz.
Proof.
  intros s sz s' HI EA.
  destruct (N.le_gt_cases (sz + 8) (size s)) as [H|H].
  - rewrite (proj1 (alloc_usable s sz H)) in EA. destruct (alloc_body_fail s sz s' HI H EA) as (A & B & _). auto.
  - split; [|unfold fits, usable; lia].
    unfold alloc in EA. destruct (size s <? sz) eqn:E; [now injection EA as <-|].
    (* sizes in (size-8, size]: the original takes the reset or a failing branch; only s' = s is claimed *)
    destruct HI as (es & (HL & HB & HR0) & HC). unfold alloc_body, place in EA.
    repeat match type of EA with
    | context [if ?c then _ else _] => destruct c
    | context [bind ?r _] => destruct r; cbn [bind] in EA
    end; try discriminate; now injection EA as <-.
Qed.

Lemma alloc_fixed_fail_sound : forall s sz s', MInv s -> alloc_fixed s sz = Ok (s', None) -> s' = s /\ ~ fits s sz.
Proof.
  intros s sz s' HI EA.
  destruct (N.le_gt_cases (sz + 8) (size s)) as [H|H].
  - rewrite (proj2 (alloc_usable s sz H)) in EA. destruct (alloc_body_fail s sz s' HI H EA) as (A & B & _). auto.
  - rewrite alloc_fixed_unusable in EA by (unfold usable; lia). injection EA as <-.
    split; [reflexivity|unfold fits, usable; lia].
Qed.

(* the failure criterion in terms of the free runs: C refuses only if the queue is
   non-empty and neither free run can take 4 + sz bytes plus 6 bytes of slack *)
Lemma alloc_fail_no_room : forall s sz s', MInv s -> usable (size s) sz ->
  (alloc s sz = Ok (s', None) \/ alloc_fixed s sz = Ok (s', None)) ->
  mrb_abs s <> [] /\ Forall (fun run => run < 4 + sz + 6) (free_runs s).
Proof.
  intros s sz s' HI HU EA.
  rewrite (proj1 (alloc_usable s sz HU)), (proj2 (alloc_usable s sz HU)) in EA.
  assert (EA' : alloc_body s sz = Ok (s', None)) by tauto.
  destruct (alloc_body_fail s sz s' HI HU EA') as (_ & NF & NE). split; [exact NE|].
  destruct HI as (es & HR & HC). pose proof (proj1 (Rep_empty _ _ HR)) as HE.
  assert (head s <> tail s).
  { intro Heq. apply NE. rewrite (abs_Rep _ _ HR). rewrite (proj2 (Rep_empty _ _ HR) Heq). reflexivity. }
  unfold fits, usable in NF. unfold usable in HU. unfold free_runs.
  destruct (tail s <=? head s) eqn:E.
  - destruct (tail s =? 0) eqn:E0; (apply Forall_cons; [lia|apply Forall_cons; [lia|apply Forall_nil]]).
  - apply Forall_cons; [lia|apply Forall_nil].
Qed.

Lemma empty_then_any_body : forall s sz, MInv s -> mrb_abs s = [] -> usable (size s) sz ->
  exists s' p, alloc_body s sz = Ok (s', Some p).
Proof.
  intros s sz (es & HR & HC) HA HU.
  destruct (alloc_body_spec s es sz HR HU) as [(E & NF & NE) | (s1 & p1 & E & _)]; [|eauto].
  exfalso. rewrite (abs_Rep _ _ HR) in HA. destruct es; [congruence|discriminate].
Qed.

Lemma empty_then_any : forall s sz, MInv s -> mrb_abs s = [] -> usable (size s) sz ->
  (exists s' p, alloc s sz = Ok (s', Some p)) /\ (exists s' p, alloc_fixed s sz = Ok (s', Some p)).
Proof.
  intros s sz HI HA HU. rewrite (proj1 (alloc_usable s sz HU)), (proj2 (alloc_usable s sz HU)).
  split; now apply empty_then_any_body.
Qed.

Lemma read_msg_ok : forall s p z, p + z <= size s -> read_msg s p z = Ok (slice (buf s) p z).
Proof. intros. unfold read_msg. assert (p + z <=? size s = true) as -> by lia. reflexivity. Qed.

Lemma peek_refines : forall s, MInv s ->
  match mrb_abs s with
  | [] => peek s = Ok (s, None)
  | m :: _ => exists s' p, peek s = Ok (s', Some (p, len m)) /\ read_msg s' p (len m) = Ok m /\
                           MInv s' /\ size s' = size s /\ mrb_abs s' = mrb_abs s
  end.
Proof.
  intros s (es & HR & HC). rewrite (abs_Rep _ _ HR). pose proof (peek_spec s es HR) as HP.
  destruct es as [|[o z] r]; cbn [map fst snd]; [exact HP|].
  destruct HP as (s1 & EP & HR1 & Hb & Hc & Hs & Hh & Ht & Hlt). cbn [fst snd] in *.
  assert (HL : len (buf s) = size s) by (destruct HR as (H & _); exact H).
  rewrite slice_len by lia.
  exists s1, o. split; [exact EP|]. split; [rewrite read_msg_ok by lia; now rewrite Hb|].
  split; [exists ((o, z) :: r); split; [exact HR1|congruence]|]. split; [exact Hs|].
  rewrite (abs_Rep _ _ HR1), Hb. reflexivity.
Qed.

Lemma pop_refines : forall s, MInv s ->
  match mrb_abs s with
  | [] => pop s = Ok (s, None)
  | m :: q => exists s' p, pop s = Ok (s', Some (p, len m)) /\ read_msg s' p (len m) = Ok m /\
                           MInv s' /\ size s' = size s /\ mrb_abs s' = q
  end.
Proof.
  intros s (es & HR & HC). rewrite (abs_Rep _ _ HR). pose proof (pop_spec s es HR HC) as HP.
  destruct es as [|[o z] r]; cbn [map fst snd]; [exact HP|].
  destruct HP as (s1 & EP & HR1 & Hc & Hb & Hs & Hle). cbn [fst snd] in *.
  assert (HL : len (buf s) = size s) by (destruct HR as (H & _); exact H).
  rewrite slice_len by lia.
  exists s1, o. split; [exact EP|]. split; [rewrite read_msg_ok by lia; now rewrite Hb|].
  split; [exists r; split; [exact HR1|exact Hc]|]. split; [exact Hs|].
  rewrite (abs_Rep _ _ HR1), Hb. reflexivity.
Qed.

(* ---------- all operation sequences ---------- *)
(* al behaves on (B, sz) either as the guarded body or refuses without touching the state *)
Definition al_ok (al : mrb -> N -> res (mrb * option N)) (B sz : N) : Prop :=
  forall s, size s = B -> (usable B sz /\ al s sz = alloc_body s sz) \/ al s sz = Ok (s, None).

Definition op_al_ok (al : mrb -> N -> res (mrb * option N)) (B : N) (o : op) : Prop :=
  match o with OAlloc d => al_ok al B (len d) | _ => True end.

Lemma fifo_dec_refl : forall (m : msg) (A : Type) (x y : A), (if list_eq_dec N.eq_dec m m then x else y) = x.
Proof. intros. destruct (list_eq_dec N.eq_dec m m); congruence. Qed.

Lemma step_ok : forall al s o, MInv s -> op_al_ok al (size s) o ->
  exists s' r, step al s o = Ok (s', r) /\ MInv s' /\ size s' = size s /\
               forall ops outs, fifo (mrb_abs s) (o :: ops) (r :: outs) = fifo (mrb_abs s') ops outs.
Proof.
  intros al s o HI HO. destruct o as [d| |]; cbn [step op_al_ok] in *.
  - destruct (HO s eq_refl) as [(HU & E) | E]; rewrite E; cbn [bind].
    + destruct (alloc_body s (len d)) as [[s1 [p|]]|f] eqn:EA; cbn [bind].
      * destruct (alloc_body_refines s (len d) s1 p d HI HU EA eq_refl) as (I1 & S1 & (s2 & EF & I2 & S2 & A2) & _).
        rewrite EF. cbn [bind]. exists s2, (RAlloc (Some p)). repeat split; auto.
        intros. cbn [fifo]. now rewrite A2.
      * destruct (alloc_body_fail s (len d) s1 HI HU EA) as (-> & _).
        exists s, (RAlloc None). repeat split; auto.
      * exfalso. destruct HI as (es & HR & HC).
        destruct (alloc_body_spec s es (len d) HR HU) as [(E' & _) | (s1 & p1 & E' & _)]; congruence.
    + exists s, (RAlloc None). repeat split; auto.
  - pose proof (peek_refines s HI) as HP. unfold deliver.
    destruct (mrb_abs s) as [|m q] eqn:EA.
    + rewrite HP. cbn [bind]. exists s, (RMsg None). repeat split; auto. intros. cbn [fifo]. now rewrite EA.
    + destruct HP as (s1 & p & EP & ER & I1 & S1 & A1). rewrite EP. cbn [bind]. rewrite ER. cbn [bind].
      exists s1, (RMsg (Some (p, m))). repeat split; auto. intros. cbn [fifo]. rewrite fifo_dec_refl. now rewrite A1.
  - pose proof (pop_refines s HI) as HP. unfold deliver.
    destruct (mrb_abs s) as [|m q] eqn:EA.
    + rewrite HP. cbn [bind]. exists s, (RMsg None). repeat split; auto. intros. cbn [fifo]. now rewrite EA.
    + destruct HP as (s1 & p & EP & ER & I1 & S1 & A1). rewrite EP. cbn [bind]. rewrite ER. cbn [bind].
      exists s1, (RMsg (Some (p, m))). repeat split; auto. intros. cbn [fifo]. rewrite fifo_dec_refl. now rewrite A1.
Qed.

Lemma run_ok : forall al ops s, MInv s -> Forall (op_al_ok al (size s)) ops ->
  exists s' outs, run al s ops = Ok (s', outs) /\ MInv s' /\ size s' = size s /\
                  fifo (mrb_abs s) ops outs = Some (mrb_abs s').
Proof.
  intros al ops. induction ops as [|o r IH]; intros s HI HF.
  - exists s, []. repeat split; auto.
  - inversion HF as [|? ? HO HR]; subst.
    destruct (step_ok al s o HI HO) as (s1 & r1 & ES & I1 & S1 & F1).
    rewrite <- S1 in HR. destruct (IH s1 I1 HR) as (s2 & outs & ER & I2 & S2 & F2).
    exists s2, (r1 :: outs). cbn [run]. rewrite ES. cbn [bind fst snd]. rewrite ER. cbn [bind fst snd].
    repeat split; auto; [congruence|]. rewrite F1. exact F2.
Qed.

Lemma al_ok_fixed : forall B sz, al_ok alloc_fixed B sz.
Proof.
  intros B sz s <-. destruct (N.le_gt_cases (sz + 8) (size s)) as [H|H].
  - left. split; [exact H|]. apply alloc_usable. exact H.
  - right. apply alloc_fixed_unusable. unfold usable. lia.
Qed.

Lemma al_ok_orig : forall B sz, usable B sz \/ B < sz -> al_ok alloc B sz.
Proof.
  intros B sz [H|H] s <-.
  - left. split; [exact H|]. apply alloc_usable. exact H.
  - right. unfold alloc. assert (size s <? sz = true) as -> by lia. reflexivity.
Qed.

Lemma abs_init : forall B, B <= 2147483648 -> mrb_abs (init B) = [].
Proof.
  intros B HB. destruct (init_MInv B HB) as (es & HR & HC).
  rewrite (abs_Rep _ _ HR). cbn [init count] in HC. destruct es; [reflexivity|].
  rewrite nlen_cons in HC. lia.
Qed.



Lemma reachable_inv_guarded : forall B ops, B <= 2147483648 -> Forall (op_guard B) ops ->
  exists s outs, run alloc (init B) ops = Ok (s, outs) /\ MInv s /\ size s = B /\
                 fifo [] ops outs = Some (mrb_abs s).
Proof.
  intros B ops HB HG.
  assert (HF : Forall (op_al_ok alloc (size (init B))) ops).
  { eapply Forall_impl; [|exact HG]. intros [d| |] H; cbn [op_al_ok op_guard init size] in *; auto.
    apply al_ok_orig. exact H. }
  destruct (run_ok alloc ops (init B) (init_MInv B HB) HF) as (s & outs & ER & I & S & F).
  rewrite (abs_init B HB) in F. exists s, outs. repeat split; auto.
Qed.

Lemma reachable_inv_fixed : forall B ops, B <= 2147483648 ->
  exists s outs, run alloc_fixed (init B) ops = Ok (s, outs) /\ MInv s /\ size s = B /\
                 fifo [] ops outs = Some (mrb_abs s).
Proof.
  intros B ops HB.
  assert (HF : Forall (op_al_ok alloc_fixed (size (init B))) ops).
  { apply Forall_forall. intros [d| |] _; cbn [op_al_ok]; auto. apply al_ok_fixed. }
  destruct (run_ok alloc_fixed ops (init B) (init_MInv B HB) HF) as (s & outs & ER & I & S & F).
  rewrite (abs_init B HB) in F. exists s, outs. repeat split; auto.
Qed.

(* ---------- the function as it is in /repo: witnesses outside the guard ---------- *)
(* capacity 100, alloc 98 on the empty queue: region [4,102) is handed out; the caller's copy
   writes bytes 100 and 101 *)
Lemma refuted_oob :
  MInv (init 100) /\
  (exists s', alloc (init 100) 98 = Ok (s', Some 4) /\ ~ (4 + 98 <= size s')) /\
  run alloc (init 100) [OAlloc (repeat 7 98)] = Fault (OOB_write 100).
Proof.
  split; [apply init_MInv; lia|]. split.
  - eexists. split; [vm_compute; reflexivity|]. cbn [size]. lia.
  - vm_compute. reflexivity.
Qed.

(* capacity 100, alloc 96: accepted at offset 4, head = tail = 0 afterwards: the queue looks
   empty and the message is never delivered *)
Lemma refuted_lost :
  exists s, run alloc (init 100) [OAlloc (repeat 7 96); OPop] = Ok (s, [RAlloc (Some 4); RMsg None]) /\
            head s = 0 /\ tail s = 0 /\ count s = 1 /\
            fifo [] [OAlloc (repeat 7 96); OPop] [RAlloc (Some 4); RMsg None] = None.
Proof. eexists. split; [vm_compute; reflexivity|]. cbn [head tail count]. repeat split. Qed.

(* capacity 100, alloc 94 (in bounds: [4,98)), pop, alloc 10: the wrap marker is written at 98..101 *)
Lemma refuted_marker :
  (exists s, run alloc (init 100) [OAlloc (repeat 7 94); OPop] = Ok (s, [RAlloc (Some 4); RMsg (Some (4, repeat 7 94))]) /\
             head s = 98 /\ tail s = 98) /\
  run alloc (init 100) [OAlloc (repeat 7 94); OPop; OAlloc (repeat 1 10)] = Fault (OOB_write 100).
Proof.
  split; [eexists; split; [vm_compute; reflexivity|]; cbn [head tail]; auto|].
  vm_compute. reflexivity.
Qed.

(* the invariant is not preserved by an in-bounds alloc of capacity-6 bytes *)
Lemma refuted_inv :
  MInv (init 100) /\ exists s', alloc (init 100) 94 = Ok (s', Some 4) /\ 4 + 94 <= size s' /\ ~ MInv s'.
Proof.
  split; [apply init_MInv; lia|].
  eexists. split; [vm_compute; reflexivity|]. split; [cbn [size]; lia|].
  intros (es & (HL & HB & [(H1 & H2 & H3) | (m & es1 & es2 & H1 & _)]) & HC); cbn [head tail size] in *; lia.
Qed.

(* the guard is tight: for every capacity 16..64 and EVERY size in (capacity-8, capacity], the
   three-operation program  alloc sz; pop; alloc 0  from the initial state either faults or
   produces outputs that are not FIFO *)


Lemma guard_tight_sweep :
  forallb (fun B => forallb (fun k => misbehaves alloc (N.of_nat B) (N.of_nat B - N.of_nat k)
                                      && negb (misbehaves alloc_fixed (N.of_nat B) (N.of_nat B - N.of_nat k)))
                            (seq 0 8)) (seq 16 49) = true.
Proof. vm_compute. reflexivity. Qed.

Lemma guard_tight : forall B sz, 16 <= B <= 64 -> B < sz + 8 -> sz <= B ->
  misbehaves alloc B sz = true /\ misbehaves alloc_fixed B sz = false.
Proof.
  intros B sz HB H1 H2.
  pose proof guard_tight_sweep as H. rewrite forallb_forall in H.
  specialize (H (N.to_nat B)). rewrite forallb_forall in H.
  assert (HI : In (N.to_nat B) (seq 16 49)) by (apply in_seq; lia).
  specialize (H HI (N.to_nat (B - sz))).
  assert (HK : In (N.to_nat (B - sz)) (seq 0 8)) by (apply in_seq; lia).
  specialize (H HK). rewrite N2Nat.id in H.
  replace (B - N.of_nat (N.to_nat (B - sz))) with sz in H by lia.
  apply andb_true_iff in H. destruct H as [Ha Hb]. apply negb_true_iff in Hb. auto.
Qed.

(* ---------- examples: the hypotheses are satisfiable by non-trivial values ---------- *)
(* a wrapped state of capacity 48 holding three messages (marker at 42) *)


Lemma ex_state : exists s, MInv s /\ size s = 48 /\ head s = 6 /\ tail s = 14 /\
  mrb_abs s = [repeat 2 10; repeat 3 10; repeat 4 2] /\
  (exists s', alloc s 1 = Ok (s', Some 10)) /\ (exists s', alloc_fixed s 1 = Ok (s', Some 10)) /\
  alloc s 3 = Ok (s, None) /\ alloc_fixed s 3 = Ok (s, None) /\ usable (size s) 3.
Proof.
  destruct (reachable_inv_fixed 48 ex_ops) as (s & outs & ER & I & S & F); [lia|].
  vm_compute in ER. injection ER as <- <-.
  eexists. split; [exact I|]. cbn [size head tail].
  split; [reflexivity|]. split; [reflexivity|]. split; [reflexivity|].
  split; [vm_compute; reflexivity|].
  split; [eexists; vm_compute; reflexivity|]. split; [eexists; vm_compute; reflexivity|].
  split; [vm_compute; reflexivity|]. split; [vm_compute; reflexivity|]. unfold usable. lia.
Qed.

Lemma ex_empty : exists s, MInv s /\ mrb_abs s = [] /\ head s = 42 /\ usable (size s) 40.
Proof.
  destruct (reachable_inv_fixed 48 [OAlloc (repeat 1 38); OPop]) as (s & outs & ER & I & S & F); [lia|].
  vm_compute in ER. injection ER as <- <-.
  eexists. split; [exact I|]. split; [vm_compute; reflexivity|]. cbn [head size]. unfold usable. split; lia.
Qed.

Lemma ex_guard : Forall (op_guard 48) [OAlloc (repeat 1 40); OPop; OAlloc (repeat 2 49); OAlloc (repeat 3 17); OPeek].
Proof. repeat (apply Forall_cons || apply Forall_nil); cbn [op_guard]; auto; unfold len; rewrite repeat_length; lia. Qed.
