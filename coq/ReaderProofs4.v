(* Proofs about ReaderModel.v, part 4: termination.
   (1) Only the three chain walks (annotation DATA chain, UTC INDEX chain, user-data chain) can run out of fuel:
       jls_rd_fsr_length, jls_rd_fsr and the seeks never do, on any byte string, any state, any request.
   (2) A chain walk runs out of the fuel computed from the file length only if it read more chunks than the file has
       byte offsets: some chunk offset was visited twice (the item_next chain is cyclic; the C then loops forever). *)
From Coq Require Import NArith ZArith List Bool Lia Arith FinFun.
From Coq Require Import ZifyBool ZifyN ZifyNat.
From JLS Require Import Generated CrcDefs Spec Format WmRaw WmCore WmFsr WriterModel RepairRaw RepairModel BitCopyModel
  RawReadProofs ReaderModel ReaderProofs.
Import ListNotations.
Local Open Scope N_scope.

(* ------------------------------------------------------------------ "does not raise the fuel fault" *)
Definition rdm_nf (st st' : rdm_st) : Prop := rdm_flt st' = RpF_fuel -> rdm_flt st = RpF_fuel.
Lemma rdm_nf_refl : forall st, rdm_nf st st.
Proof. intros st H. exact H. Qed.
Lemma rdm_nf_trans : forall a b c, rdm_nf a b -> rdm_nf b c -> rdm_nf a c.
Proof. intros a b c H1 H2 H. auto. Qed.

Lemma rdm_nf_fault : forall st c, c <> RpF_fuel -> rdm_nf st (rdm_fault st c).
Proof.
  intros st c Hc H. unfold rdm_flt, rdm_fault, rdm_io in *. cbn [rdm_set_io rdm_set_c rdm_c rp_rd_set_io rp_io_ rp_io_fault rp_flt] in H.
  destruct (rp_flt (rp_io_ (rdm_c st)) =? 0) eqn:E; [congruence | exact H].
Qed.
Lemma rdm_nf_fault_if : forall st b c, c <> RpF_fuel -> rdm_nf st (rdm_fault_if st b c).
Proof. intros st b c Hc. destruct b; [now apply rdm_nf_fault | apply rdm_nf_refl]. Qed.
Lemma rdm_nf_same : forall st st', rdm_flt st' = rdm_flt st -> rdm_nf st st'.
Proof. intros st st' H1 H2. congruence. Qed.
Lemma rdm_nf_buf_wr : forall st off d, rdm_nf st (rdm_buf_wr st off d).
Proof.
  intros st off d. unfold rdm_buf_wr. destruct (JLS_BUF_DEFAULT_SIZE <? off + rp_len d); [apply rdm_nf_fault; discriminate | apply rdm_nf_same; reflexivity].
Qed.
Lemma rdm_nf_set_offsets : forall st id ty l, rdm_nf st (rdm_set_offsets st id ty l).
Proof. intros st id ty l. unfold rdm_set_offsets. destruct (rp_sg_track (rdm_sig st id) ty). apply rdm_nf_same. reflexivity. Qed.

Ltac nf_solve :=
  lazymatch goal with
  | H : rdm_nf ?a ?b |- rdm_nf ?a ?b => exact H
  | |- rdm_nf ?a ?a => apply rdm_nf_refl
  | |- rdm_nf ?a (rdm_fault ?x ?c) => apply (rdm_nf_trans a x); [nf_solve | apply rdm_nf_fault; discriminate]
  | |- rdm_nf ?a (rdm_fault_if ?x ?b ?c) => apply (rdm_nf_trans a x); [nf_solve | apply rdm_nf_fault_if; discriminate]
  | |- rdm_nf ?a (rdm_set_stale ?x ?b) => apply (rdm_nf_trans a x); [nf_solve | apply rdm_nf_same; reflexivity]
  | |- rdm_nf ?a (rdm_put_len ?x ?i ?v) => apply (rdm_nf_trans a x); [nf_solve | apply rdm_nf_same; reflexivity]
  | |- rdm_nf ?a (rdm_set_offsets ?x ?i ?t ?l) => apply (rdm_nf_trans a x); [nf_solve | apply rdm_nf_set_offsets]
  | |- rdm_nf ?a (rdm_copy_index ?x) => apply (rdm_nf_trans a x); [nf_solve | apply rdm_nf_same; reflexivity]
  | |- rdm_nf ?a (rdm_copy_summary ?x) => apply (rdm_nf_trans a x); [nf_solve | apply rdm_nf_same; reflexivity]
  | |- rdm_nf ?a (rdm_ick_clear ?x) => apply (rdm_nf_trans a x); [nf_solve | apply rdm_nf_same; reflexivity]
  | |- rdm_nf ?a (rdm_buf_wr ?x ?o ?d) => apply (rdm_nf_trans a x); [nf_solve | apply rdm_nf_buf_wr]
  end.

Lemma rdm_nf_seek : forall st o, rdm_nf st (fst (rdm_seek st o)).
Proof.
  intros st o. unfold rdm_seek. pose proof (rdm_chunk_seek_file (rdm_io st) o) as [_ H].
  destruct (rp_chunk_seek (rdm_io st) o) as [s1 rc]. cbn [fst] in *. apply rdm_nf_same. exact H.
Qed.
Lemma rdm_nf_rd_chunk : forall st, rdm_nf st (fst (rdm_rd_chunk st)).
Proof.
  intros st. unfold rdm_rd_chunk. pose proof (rr_rd_chunk_no_fault (rdm_io st)) as (_ & _ & H).
  destruct (rp_rd_chunk (rdm_io st)) as [s1 rc]. cbn [fst snd] in H.
  assert (K : rp_flt s1 = RpF_fuel -> rdm_flt st = RpF_fuel).
  { intro E. destruct H as [H | (_ & H & _)]; [unfold rdm_flt; congruence | rewrite H in E; discriminate]. }
  destruct (rc =? 0); cbn [fst]; intro E; apply K; exact E.
Qed.
Lemma rdm_nf_rd_header : forall st, rdm_nf st (fst (rdm_rd_header st)).
Proof.
  intros st. unfold rdm_rd_header. pose proof (rr_rd_header_no_fault (rdm_io st)) as (H & _).
  destruct (rp_raw_rd_header (rdm_io st)) as [s1 rc]. cbn [fst] in *. apply rdm_nf_same. exact H.
Qed.
Lemma rdm_nf_chunk_next : forall st, rdm_nf st (fst (rdm_chunk_next st)).
Proof.
  intros st. unfold rdm_chunk_next. pose proof (rdm_nf_rd_header st) as K.
  destruct (rdm_rd_header st) as [st1 rc]. cbn [fst] in K.
  destruct (negb (rc =? 0)); [exact K |]. eapply rdm_nf_trans; [exact K |].
  match goal with |- context [if ?c then _ else _] => destruct c end; [apply rdm_nf_same; reflexivity |].
  match goal with |- context [if ?c then _ else _] => destruct c end; [apply rdm_nf_same; reflexivity |].
  unfold rp_bk_fseek. match goal with |- context [if ?c then _ else _] => destruct c end; apply rdm_nf_same; reflexivity.
Qed.
Lemma rdm_nf_buf_rd : forall st off n, rdm_nf st (fst (rdm_buf_rd st off n)).
Proof. intros st off n. unfold rdm_buf_rd. destruct (rdm_mem_rd _ _ off n) as [[b oob] stale]. cbn [fst]. nf_solve. Qed.
Lemma rdm_nf_buf_rd_fresh : forall st off n, rdm_nf st (fst (rdm_buf_rd_fresh st off n)).
Proof. intros st off n. unfold rdm_buf_rd_fresh. destruct (rdm_mem_rd _ _ off n) as [[b oob] stale]. cbn [fst]. nf_solve. Qed.
Lemma rdm_nf_buf_u : forall st off n, rdm_nf st (fst (rdm_buf_u st off n)).
Proof. intros st off n. unfold rdm_buf_u. pose proof (rdm_nf_buf_rd st off n) as K. destruct (rdm_buf_rd st off n). exact K. Qed.
Lemma rdm_nf_buf_i64 : forall st off, rdm_nf st (fst (rdm_buf_i64 st off)).
Proof. intros st off. unfold rdm_buf_i64. pose proof (rdm_nf_buf_rd st off 8) as K. destruct (rdm_buf_rd st off 8). exact K. Qed.
Lemma rdm_nf_idx_rd : forall st off n, rdm_nf st (fst (rdm_idx_rd st off n)).
Proof. intros st off n. unfold rdm_idx_rd. destruct (rdm_mem_rd _ _ off n) as [[b oob] stale]. cbn [fst]. nf_solve. Qed.
Lemma rdm_nf_sum_rd : forall st off n, rdm_nf st (fst (rdm_sum_rd st off n)).
Proof. intros st off n. unfold rdm_sum_rd. destruct (rdm_mem_rd _ _ off n) as [[b oob] stale]. cbn [fst]. nf_solve. Qed.
Lemma rdm_nf_i64 : forall st z, rdm_nf st (fst (rdm_i64 st z)).
Proof. intros st z. unfold rdm_i64. cbn [fst]. nf_solve. Qed.

Create HintDb nfdb discriminated.
#[global] Hint Resolve rdm_nf_seek rdm_nf_rd_chunk rdm_nf_rd_header rdm_nf_chunk_next rdm_nf_buf_rd rdm_nf_buf_rd_fresh
  rdm_nf_buf_u rdm_nf_buf_i64 rdm_nf_idx_rd rdm_nf_sum_rd rdm_nf_i64 : nfdb.

Ltac nf_call st0 := eapply (rdm_nf_trans st0); [ | solve [ eauto 2 with nfdb nocore ] ]; nf_solve.
Ltac nf_step st0 :=
  match goal with
  | |- context [match ?e with pair _ _ => _ end] =>
      lazymatch e with
      | context [if _ then _ else _] => fail
      | _ => idtac
      end;
      let K := fresh "K" in
      first [ assert (K : rdm_nf st0 (fst e)) by nf_call st0
            | assert (K : rdm_nf st0 (fst (fst e))) by nf_call st0
            | assert (K : rdm_nf st0 (fst (fst (fst e)))) by nf_call st0
            | assert (K : True) by exact I ];
      let E := fresh "E" in
      destruct e as [?p ?q] eqn:E; rewrite ?E in K; cbn [fst snd] in K;
      repeat match goal with
             | x : (_ * _)%type |- _ => destruct x as [? ?]; cbn [fst snd] in K
             end
  end.
Ltac nf_auto st0 :=
  repeat (cbv beta iota zeta; cbn [fst snd]; first [ nf_step st0 | rdm_if | rdm_other ]);
  cbv beta iota zeta; cbn [fst snd]; first [ nf_solve | nf_call st0 ].

Lemma rdm_nf_len_first : forall k st offs, rdm_nf st (fst (fst (fst (rdm_len_first k st offs)))).
Proof. induction k as [| k IH]; intros st offs; cbn [rdm_len_first]; [apply rdm_nf_refl |]. nf_auto st. Qed.
#[global] Hint Resolve rdm_nf_len_first : nfdb.
Lemma rdm_nf_len_levels : forall k st id offset, rdm_nf st (fst (fst (rdm_len_levels k st id offset))).
Proof. induction k as [| k IH]; intros st id offset; cbn [rdm_len_levels]; [apply rdm_nf_refl |]. destruct k as [| k']; nf_auto st. Qed.
#[global] Hint Resolve rdm_nf_len_levels : nfdb.
Theorem rdm_fsr_length_nofuel : forall st id, rdm_nf st (fst (fst (rdm_fsr_length st id))).
Proof. intros st id. unfold rdm_fsr_length. nf_auto st. Qed.
#[global] Hint Resolve rdm_fsr_length_nofuel : nfdb.
Lemma rdm_nf_seek_levels : forall k st d level sid offset, rdm_nf st (fst (fst (rdm_seek_levels k st d level sid offset))).
Proof.
  induction k as [| k IH]; intros st d level sid offset; cbn [rdm_seek_levels]; [apply rdm_nf_refl |].
  destruct (rdm_step_size d (N.of_nat (S k))) as [[step div0] ok]. nf_auto st.
Qed.
#[global] Hint Resolve rdm_nf_seek_levels : nfdb.
Lemma rdm_nf_fsr_seek : forall st id level sid, rdm_nf st (fst (rdm_fsr_seek st id level sid)).
Proof.
  intros st id level sid. unfold rdm_fsr_seek.
  destruct (rdm_top_level rdm_levels (rdm_offsets st id JLS_TRACK_TYPE_FSR)) as [top offset]. nf_auto st.
Qed.
#[global] Hint Resolve rdm_nf_fsr_seek : nfdb.
Lemma rdm_nf_level1_load : forall st id start, rdm_nf st (fst (rdm_level1_load st id start)).
Proof. intros st id start. unfold rdm_level1_load. nf_auto st. Qed.
#[global] Hint Resolve rdm_nf_level1_load : nfdb.
Lemma rdm_nf_rd_fsr_level1 : forall st id start, rdm_nf st (fst (rdm_rd_fsr_level1 st id start)).
Proof. intros st id start. unfold rdm_rd_fsr_level1. nf_auto st. Qed.
#[global] Hint Resolve rdm_nf_rd_fsr_level1 : nfdb.
Lemma rdm_nf_ts_levels : forall k st level t offset, rdm_nf st (fst (fst (rdm_ts_levels k st level t offset))).
Proof. induction k as [| k IH]; intros st level t offset; cbn [rdm_ts_levels]; [apply rdm_nf_refl |]. nf_auto st. Qed.
#[global] Hint Resolve rdm_nf_ts_levels : nfdb.
Theorem rdm_ts_seek_nofuel : forall st id level tt t, rdm_nf st (fst (rdm_ts_seek st id level tt t)).
Proof.
  intros st id level tt t. unfold rdm_ts_seek.
  destruct (rdm_top_level rdm_levels (rdm_offsets st id tt)) as [top offset]. nf_auto st.
Qed.
#[global] Hint Resolve rdm_ts_seek_nofuel : nfdb.

Section NfFsr.
Variable recon : bool -> bool -> Z -> N -> N -> N -> list N.
Variable f32_of_f64 : N -> N.
Lemma rdm_nf_recon_loop : forall k st dt is64 sdf szb sid sidx sec acc count,
  rdm_nf st (fst (fst (rdm_recon_loop recon f32_of_f64 k st dt is64 sdf szb sid sidx sec acc count))).
Proof. induction k as [| k IH]; intros; cbn [rdm_recon_loop]; [apply rdm_nf_refl |]. nf_auto st. Qed.
Hint Resolve rdm_nf_recon_loop : nfdb.
Lemma rdm_nf_reconstruct : forall st id start, rdm_nf st (fst (rdm_reconstruct recon f32_of_f64 st id start)).
Proof. intros st id start. unfold rdm_reconstruct. nf_auto st. Qed.
Hint Resolve rdm_nf_reconstruct : nfdb.
Lemma rdm_nf_data0_finish : forall st id start csid, rdm_nf st (fst (fst (rdm_data0_finish recon f32_of_f64 st id start csid))).
Proof. intros st id start csid. unfold rdm_data0_finish. nf_auto st. Qed.
Hint Resolve rdm_nf_data0_finish : nfdb.
Lemma rdm_nf_rd_fsr_data0 : forall st id start, rdm_nf st (fst (fst (rdm_rd_fsr_data0 recon f32_of_f64 st id start))).
Proof. intros st id start. unfold rdm_rd_fsr_data0. nf_auto st. Qed.
End NfFsr.
#[global] Hint Resolve rdm_nf_recon_loop rdm_nf_reconstruct rdm_nf_data0_finish rdm_nf_rd_fsr_data0 : nfdb.

(* ------------------------------------------------------------------ jls_bit_copy always terminates *)
Lemma rdm_bc_loop_term : forall fuel dst di db src si sb cnt,
  (N.to_nat cnt <= fuel)%nat -> db < 8 -> sb < 8 -> bc_loop fuel dst di db src si sb cnt <> BC_nonterm.
Proof.
  induction fuel as [| fu IH]; intros dst di db src si sb cnt Hf Hd Hs; cbn [bc_loop].
  - assert (cnt = 0) by lia. subst. cbn. discriminate.
  - destruct (cnt =? 0) eqn:E0; [discriminate |]. apply N.eqb_neq in E0.
    set (m0 := 8 - (if sb <? db then db else sb)).
    set (m := if cnt <? m0 then cnt else m0).
    assert (Hn0 : 1 <= m0 /\ m0 <= 8 - db /\ m0 <= 8 - sb) by (unfold m0; destruct (sb <? db) eqn:E; lia).
    assert (Hn : 1 <= m /\ m <= cnt /\ m <= m0) by (unfold m; destruct (cnt <? m0) eqn:E; lia).
    destruct (bc_get src si); [| discriminate]. destruct (bc_get dst di); [| discriminate].
    destruct (bc_set dst di _); [| discriminate].
    apply IH.
    + lia.
    + destruct (8 <=? db + m) eqn:E; [lia | apply N.leb_gt in E; exact E].
    + destruct (8 <=? sb + m) eqn:E; [lia | apply N.leb_gt in E; exact E].
Qed.
Lemma rdm_land7_lt : forall x, N.land x 7 < 8.
Proof. intro x. change 7 with (N.ones 3). rewrite N.land_ones. apply N.mod_lt. discriminate. Qed.
Lemma rdm_bit_copy_term : forall dst dbit src sbit cnt, bc_bit_copy dst dbit src sbit cnt <> BC_nonterm.
Proof.
  intros dst dbit src sbit cnt. unfold bc_bit_copy. cbv zeta.
  pose proof (rdm_land7_lt dbit) as Hd. pose proof (rdm_land7_lt sbit) as Hs.
  destruct ((N.land dbit 7 =? 0) && (N.land sbit 7 =? 0)).
  - destruct (cnt / 8 =? 0); [apply rdm_bc_loop_term; [lia | assumption | assumption] |].
    destruct (bc_memcpy dst (dbit / 8) src (sbit / 8) (cnt / 8)); [| discriminate].
    apply rdm_bc_loop_term; [lia | assumption | assumption].
  - apply rdm_bc_loop_term; [lia | assumption | assumption].
Qed.

(* ------------------------------------------------------------------ jls_rd_fsr never runs out of fuel *)
Section NfFsr2.
Variable recon : bool -> bool -> Z -> N -> N -> N -> list N.
Variable f32_of_f64 : N -> N.
Lemma rdm_nf_fsr_loop : forall fuel st id esb start dl dst dbit pcs, (dl < Z.of_nat fuel)%Z ->
  rdm_nf st (fst (fst (fst (rdm_fsr_loop recon f32_of_f64 fuel st id esb start dl dst dbit pcs)))).
Proof.
  induction fuel as [| fu IH]; intros st id esb start dl dst dbit pcs Hf; cbn [rdm_fsr_loop].
  - destruct (dl <=? 0)%Z eqn:E; [apply rdm_nf_refl | lia].
  - destruct (dl <=? 0)%Z eqn:E0; [apply rdm_nf_refl |].
    pose proof (rdm_nf_rd_fsr_data0 recon f32_of_f64 st id start) as K1.
    destruct (rdm_rd_fsr_data0 recon f32_of_f64 st id start) as [[st1 rc1] omitted]. cbn [fst] in K1.
    destruct (negb (rc1 =? 0)); [exact K1 |].
    pose proof (rdm_nf_buf_i64 st1 0) as K2. destruct (rdm_buf_i64 st1 0) as [st2 csid]. cbn [fst] in K2.
    pose proof (rdm_nf_buf_u st2 (Z.of_N OFFSETOF_payload_entry_count) 4) as K3.
    destruct (rdm_buf_u st2 (Z.of_N OFFSETOF_payload_entry_count) 4) as [st3 count]. cbn [fst] in K3.
    pose proof (rdm_nf_buf_u st3 (Z.of_N OFFSETOF_payload_entry_size_bits) 2) as K4.
    destruct (rdm_buf_u st3 (Z.of_N OFFSETOF_payload_entry_size_bits) 2) as [st4 esb1]. cbn [fst] in K4.
    pose proof (rdm_nf_trans _ _ _ K1 (rdm_nf_trans _ _ _ K2 (rdm_nf_trans _ _ _ K3 K4))) as K14.
    destruct (negb (esb1 =? esb)); [exact K14 |].
    assert (K5 : exists st5 idx, (if (csid <? start)%Z then rdm_i64 st4 (start - csid)%Z else (st4, 0%Z)) = (st5, idx) /\ rdm_nf st4 st5).
    { destruct (csid <? start)%Z.
      - pose proof (rdm_nf_i64 st4 (start - csid)%Z) as A. destruct (rdm_i64 st4 (start - csid)%Z) as [s5 i5]. exists s5, i5. split; [reflexivity | exact A].
      - exists st4, 0%Z. split; [reflexivity | apply rdm_nf_refl]. }
    destruct K5 as (st5 & idx & E5 & K5). rewrite E5.
    pose proof (rdm_nf_trans _ _ _ K14 K5) as K15.
    set (sz0 := (Z.of_N count - idx)%Z). set (sz := if (dl <? sz0)%Z then dl else sz0).
    destruct (sz <=? 0)%Z eqn:Esz; [exact K15 |].
    match goal with |- context [(if omitted then rdm_buf_rd_fresh else rdm_buf_rd) st5 ?o ?nb] =>
      assert (K6 : rdm_nf st5 (fst ((if omitted then rdm_buf_rd_fresh else rdm_buf_rd) st5 o nb)))
        by (destruct omitted; [apply rdm_nf_buf_rd_fresh | apply rdm_nf_buf_rd]);
      destruct ((if omitted then rdm_buf_rd_fresh else rdm_buf_rd) st5 o nb) as [st6 src] end.
    cbn [fst] in K6. pose proof (rdm_nf_trans _ _ _ K15 K6) as K16.
    match goal with |- context [rdm_apply_piece dst ?p] => pose proof (rdm_bit_copy_term dst (rdm_pc_dbit p) (rdm_pc_src p) (rdm_pc_sbit p) (rdm_pc_cnt p)) as Hterm;
      change (rdm_apply_piece dst p <> BC_nonterm) in Hterm; destruct (rdm_apply_piece dst p) as [dst1 | |] end.
    + pose proof (rdm_nf_i64 st6 (start + sz)%Z) as K7. destruct (rdm_i64 st6 (start + sz)%Z) as [st7 start1]. cbn [fst] in K7.
      eapply rdm_nf_trans; [exact (rdm_nf_trans _ _ _ K16 K7) |]. apply IH. lia.
    + cbn [fst]. eapply rdm_nf_trans; [exact K16 | apply rdm_nf_fault; discriminate].
    + contradiction.
Qed.

Theorem rdm_fsr_nofuel : forall st id start dl dst, rdm_nf st (fst (fst (fst (rdm_fsr recon f32_of_f64 st id start dl dst)))).
Proof.
  intros st id start dl dst. unfold rdm_fsr.
  destruct (negb (rp_signal_validate_typed (rdm_c st) id JLS_SIGNAL_TYPE_FSR =? 0)); [apply rdm_nf_refl |].
  pose proof (rdm_fsr_length_nofuel st id) as K1. destruct (rdm_fsr_length st id) as [[st1 rc1] samples]. cbn [fst] in K1.
  destruct (negb (rc1 =? 0)); [exact K1 |].
  destruct (dl <=? 0)%Z eqn:E0; [exact K1 |].
  destruct (start <? 0)%Z; [exact K1 |].
  match goal with |- context [if ?c then (st1, JLS_ERROR_PARAMETER_INVALID, dst, []) else _] => destruct c end; [exact K1 |].
  destruct (dt_bits (sg_dtype (rdm_def st1 id)) =? 0) eqn:Eesb.
  { cbn [fst]. eapply rdm_nf_trans; [exact K1 | apply rdm_nf_fault; discriminate]. }
  match goal with |- context [if ?c then (rdm_fault st1 RdmF_dst, 0, dst, []) else _] => destruct c eqn:Edst end.
  { cbn [fst]. eapply rdm_nf_trans; [exact K1 | apply rdm_nf_fault; discriminate]. }
  pose proof (rdm_nf_i64 st1 (start + rdm_sid0 st1 id)%Z) as K2.
  destruct (rdm_i64 st1 (start + rdm_sid0 st1 id)%Z) as [st2 start1]. cbn [fst] in K2.
  match goal with |- context [rdm_fsr_loop _ _ ?a ?b ?c ?d ?e ?g ?h ?i ?j] =>
    pose proof (rdm_nf_fsr_loop a b c d e g h i j) as K3; destruct (rdm_fsr_loop recon f32_of_f64 a b c d e g h i j) as [[[st3 rc3] dst3] pcs3] end.
  cbn [fst] in *. eapply rdm_nf_trans; [exact (rdm_nf_trans _ _ _ K1 K2) |]. apply K3.
  apply N.eqb_neq in Eesb. apply Z.ltb_ge in Edst. unfold rp_len in Edst. nia.
Qed.
End NfFsr2.

(* ------------------------------------------------------------------ the chain walks: out of fuel = more chunk reads than fuel *)
Lemma rdm_ext_len : forall st st', rdm_ext st st' -> (length (rdm_tr st) <= length (rdm_tr st'))%nat.
Proof. intros st st' ([l H] & _). rewrite H, app_length. lia. Qed.
Lemma rdm_rd_chunk_len : forall st st', rdm_rd_chunk st = (st', 0) -> length (rdm_tr st') = S (length (rdm_tr st)).
Proof.
  intros st st' H. unfold rdm_rd_chunk in H. destruct (rp_rd_chunk (rdm_io st)) as [s1 rc].
  destruct (rc =? 0) eqn:E; [inversion H; reflexivity | inversion H; subst; rewrite N.eqb_refl in E; discriminate].
Qed.

Lemma rdm_ud_loop_fuel : forall f fuel st stopf pos items n st' rc out,
  rdm_inv f st -> rdm_flt st <> RpF_fuel ->
  rdm_ud_loop fuel st stopf pos items n = (st', rc, out) -> rdm_flt st' = RpF_fuel ->
  (length (rdm_tr st) + fuel <= length (rdm_tr st'))%nat.
Proof.
  intros f. induction fuel as [| fu IH]; intros st stopf pos items n st' rc out Hinv Hnf H Hfl; cbn [rdm_ud_loop] in H.
  - destruct (pos =? 0); inversion H; subst; [contradiction | cbn; lia].
  - destruct (pos =? 0); [inversion H; subst; contradiction |].
    pose proof (rdm_seek_ok st pos f Hinv) as [Hinv1 Hx1]. pose proof (rdm_nf_seek st pos) as N1.
    destruct (rdm_seek st pos) as [st1 rc1]. cbn [fst] in Hinv1, Hx1, N1.
    destruct (negb (rc1 =? 0)); [inversion H; subst; exfalso; auto |].
    pose proof (rdm_rd_chunk_ok st1 f Hinv1) as [Hinv2 Hx2]. pose proof (rdm_nf_rd_chunk st1) as N2.
    destruct (rdm_rd_chunk st1) as [st2 rc2] eqn:E2. cbn [fst] in Hinv2, Hx2, N2.
    assert (Hnf2 : rdm_flt st2 <> RpF_fuel) by auto.
    destruct (negb (rc2 =? 0)) eqn:Erc2; [inversion H; subst; contradiction |].
    apply negb_false_iff in Erc2. apply N.eqb_eq in Erc2. subst rc2.
    pose proof (rdm_rd_chunk_len _ _ E2) as L2. pose proof (rdm_ext_len _ _ Hx1) as L1.
    destruct (negb (fm_tag (wm_ck_hdr (rp_cur (rdm_io st2))) =? JLS_TAG_USER_DATA)); [inversion H; subst; contradiction |].
    match type of H with context [if ?c then rdm_ud_loop _ _ _ _ _ _ else _] => destruct c end.
    { pose proof (IH _ _ _ _ _ _ _ _ Hinv2 Hnf2 H Hfl). lia. }
    match type of H with context [if negb ?c then _ else _] => destruct (negb c) end; [inversion H; subst; contradiction |].
    destruct (stopf (n + 1)); [inversion H; subst; contradiction |].
    pose proof (IH _ _ _ _ _ _ _ _ Hinv2 Hnf2 H Hfl). lia.
Qed.

Lemma rdm_anno_loop_fuel : forall f fuel st sid0 stopf pos items n st' rc out,
  rdm_inv f st -> rdm_flt st <> RpF_fuel ->
  rdm_anno_loop fuel st sid0 stopf pos items n = (st', rc, out) -> rdm_flt st' = RpF_fuel ->
  (length (rdm_tr st) + fuel <= length (rdm_tr st'))%nat.
Proof.
  intros f. induction fuel as [| fu IH]; intros st sid0 stopf pos items n st' rc out Hinv Hnf H Hfl; cbn [rdm_anno_loop] in H.
  - destruct (pos =? 0); inversion H; subst; [contradiction | cbn; lia].
  - destruct (pos =? 0); [inversion H; subst; contradiction |].
    pose proof (rdm_seek_ok st pos f Hinv) as [Hinv1 Hx1]. pose proof (rdm_nf_seek st pos) as N1.
    destruct (rdm_seek st pos) as [st1 rc1]. cbn [fst] in Hinv1, Hx1, N1.
    destruct (negb (rc1 =? 0)); [inversion H; subst; exfalso; auto |].
    pose proof (rdm_rd_chunk_ok st1 f Hinv1) as [Hinv2 Hx2]. pose proof (rdm_nf_rd_chunk st1) as N2.
    destruct (rdm_rd_chunk st1) as [st2 rc2] eqn:E2. cbn [fst] in Hinv2, Hx2, N2.
    assert (Hnf2 : rdm_flt st2 <> RpF_fuel) by auto.
    destruct (negb (rc2 =? 0)) eqn:Erc2; [inversion H; subst; contradiction |].
    apply negb_false_iff in Erc2. apply N.eqb_eq in Erc2. subst rc2.
    pose proof (rdm_rd_chunk_len _ _ E2) as L2. pose proof (rdm_ext_len _ _ Hx1) as L1.
    destruct (negb (fm_tag (wm_ck_hdr (rp_cur (rdm_io st2))) =? JLS_TAG_TRACK_ANNOTATION_DATA)); [inversion H; subst; contradiction |].
    pose proof (rdm_buf_i64_ok st2 0 f Hinv2) as [Hinv3 Hx3]. pose proof (rdm_nf_buf_i64 st2 0) as N3.
    destruct (rdm_buf_i64 st2 0) as [st3 ts0]. cbn [fst] in Hinv3, Hx3, N3.
    pose proof (rdm_i64_ok st3 (ts0 - sid0)%Z f Hinv3) as [Hinv4 Hx4]. pose proof (rdm_nf_i64 st3 (ts0 - sid0)%Z) as N4.
    destruct (rdm_i64 st3 (ts0 - sid0)%Z) as [st4 ts]. cbn [fst] in Hinv4, Hx4, N4.
    match type of H with context [rdm_buf_rd st4 ?o ?k] => pose proof (rdm_buf_rd_ok st4 o k f Hinv4) as [Hinv5 Hx5];
      pose proof (rdm_nf_buf_rd st4 o k) as N5; destruct (rdm_buf_rd st4 o k) as [st5 fx] end.
    cbn [fst] in Hinv5, Hx5, N5.
    match type of H with context [rdm_buf_rd st5 ?o ?k] => pose proof (rdm_buf_rd_ok st5 o k f Hinv5) as [Hinv6 Hx6];
      pose proof (rdm_nf_buf_rd st5 o k) as N6; destruct (rdm_buf_rd st5 o k) as [st6 data] end.
    cbn [fst] in Hinv6, Hx6, N6.
    pose proof (rdm_buf_wr_ok st6 0 (fm_enc_i64 ts) f Hinv6) as [Hinv7 Hx7]. pose proof (rdm_nf_buf_wr st6 0 (fm_enc_i64 ts)) as N7.
    set (st7 := rdm_buf_wr st6 0 (fm_enc_i64 ts)) in *.
    assert (Hnf7 : rdm_flt st7 <> RpF_fuel) by (intro X; apply Hnf2, N3, N4, N5, N6, N7, X).
    pose proof (rdm_ext_len _ _ Hx3). pose proof (rdm_ext_len _ _ Hx4). pose proof (rdm_ext_len _ _ Hx5).
    pose proof (rdm_ext_len _ _ Hx6). pose proof (rdm_ext_len _ _ Hx7).
    destruct (stopf (n + 1)); [inversion H; subst; contradiction |].
    pose proof (IH _ _ _ _ _ _ _ _ _ Hinv7 Hnf7 H Hfl). lia.
Qed.

Lemma rdm_utc_loop_fuel : forall f fuel st sid0 t stopf pos items n st' rc out,
  rdm_inv f st -> rdm_flt st <> RpF_fuel ->
  rdm_utc_loop fuel st sid0 t stopf pos items n = (st', rc, out) -> rdm_flt st' = RpF_fuel ->
  (length (rdm_tr st) + fuel <= length (rdm_tr st'))%nat.
Proof.
  intros f. induction fuel as [| fu IH]; intros st sid0 t stopf pos items n st' rc out Hinv Hnf H Hfl; cbn [rdm_utc_loop] in H.
  - destruct (pos =? 0); inversion H; subst; [contradiction | cbn; lia].
  - destruct (pos =? 0); [inversion H; subst; contradiction |].
    pose proof (rdm_seek_ok st pos f Hinv) as [Hinv1 Hx1]. pose proof (rdm_nf_seek st pos) as N1.
    destruct (rdm_seek st pos) as [st1 rc1]. cbn [fst] in Hinv1, Hx1, N1.
    destruct (negb (rc1 =? 0)); [inversion H; subst; exfalso; auto |].
    pose proof (rdm_rd_header_ok st1 f Hinv1) as [Hinv2 Hx2]. pose proof (rdm_nf_rd_header st1) as N2.
    destruct (rdm_rd_header st1) as [st2 rc2]. cbn [fst] in Hinv2, Hx2, N2.
    assert (Hnf2 : rdm_flt st2 <> RpF_fuel) by auto.
    pose proof (rdm_ext_len _ _ Hx1) as L1. pose proof (rdm_ext_len _ _ Hx2) as L2.
    destruct (negb (rc2 =? 0)); [inversion H; subst; contradiction |].
    destruct (fm_tag (rp_hdr (rp_r (rdm_io st2))) =? JLS_TAG_TRACK_UTC_DATA).
    { pose proof (rdm_rd_chunk_ok st2 f Hinv2) as [Hinv3 Hx3]. pose proof (rdm_nf_rd_chunk st2) as N3.
      destruct (rdm_rd_chunk st2) as [st3 rc3] eqn:E3. cbn [fst] in Hinv3, Hx3, N3.
      assert (Hnf3 : rdm_flt st3 <> RpF_fuel) by auto.
      destruct (negb (rc3 =? 0)) eqn:Erc3; [inversion H; subst; contradiction |].
      apply negb_false_iff in Erc3. apply N.eqb_eq in Erc3. subst rc3.
      pose proof (rdm_rd_chunk_len _ _ E3) as L3.
      pose proof (rdm_buf_i64_ok st3 0 f Hinv3) as [Hinv4 Hx4]. pose proof (rdm_nf_buf_i64 st3 0) as N4.
      destruct (rdm_buf_i64 st3 0) as [st4 ts0]. cbn [fst] in Hinv4, Hx4, N4.
      pose proof (rdm_buf_i64_ok st4 (Z.of_N SIZEOF_payload_header) f Hinv4) as [Hinv5 Hx5]. pose proof (rdm_nf_buf_i64 st4 (Z.of_N SIZEOF_payload_header)) as N5.
      destruct (rdm_buf_i64 st4 (Z.of_N SIZEOF_payload_header)) as [st5 utc]. cbn [fst] in Hinv5, Hx5, N5.
      pose proof (rdm_i64_ok st5 (ts0 - sid0)%Z f Hinv5) as [Hinv6 Hx6]. pose proof (rdm_nf_i64 st5 (ts0 - sid0)%Z) as N6.
      destruct (rdm_i64 st5 (ts0 - sid0)%Z) as [st6 sid]. cbn [fst] in Hinv6, Hx6, N6.
      assert (Hnf6 : rdm_flt st6 <> RpF_fuel) by (intro X; apply Hnf3, N4, N5, N6, X).
      pose proof (rdm_ext_len _ _ Hx4). pose proof (rdm_ext_len _ _ Hx5). pose proof (rdm_ext_len _ _ Hx6).
      destruct (stopf (n + 1)); [inversion H; subst; contradiction |].
      pose proof (IH _ _ _ _ _ _ _ _ _ _ Hinv6 Hnf6 H Hfl). lia. }
    destruct (fm_tag (rp_hdr (rp_r (rdm_io st2))) =? JLS_TAG_TRACK_UTC_INDEX); [| inversion H; subst; contradiction].
    pose proof (rdm_chunk_next_ok st2 f Hinv2) as [Hinv3 Hx3]. pose proof (rdm_nf_chunk_next st2) as N3.
    destruct (rdm_chunk_next st2) as [st3 rc3]. cbn [fst] in Hinv3, Hx3, N3.
    assert (Hnf3 : rdm_flt st3 <> RpF_fuel) by auto. pose proof (rdm_ext_len _ _ Hx3) as L3.
    destruct (negb (rc3 =? 0)); [inversion H; subst; contradiction |].
    pose proof (rdm_rd_chunk_ok st3 f Hinv3) as [Hinv4 Hx4]. pose proof (rdm_nf_rd_chunk st3) as N4.
    destruct (rdm_rd_chunk st3) as [st4 rc4] eqn:E4. cbn [fst] in Hinv4, Hx4, N4.
    assert (Hnf4 : rdm_flt st4 <> RpF_fuel) by auto.
    destruct (negb (rc4 =? 0)) eqn:Erc4; [inversion H; subst; contradiction |].
    apply negb_false_iff in Erc4. apply N.eqb_eq in Erc4. subst rc4.
    pose proof (rdm_rd_chunk_len _ _ E4) as L4.
    destruct (negb (fm_tag (wm_ck_hdr (rp_cur (rdm_io st4))) =? JLS_TAG_TRACK_UTC_SUMMARY)); [inversion H; subst; contradiction |].
    pose proof (rdm_buf_u_ok st4 (Z.of_N OFFSETOF_payload_entry_count) 4 f Hinv4) as [Hinv5 Hx5].
    pose proof (rdm_nf_buf_u st4 (Z.of_N OFFSETOF_payload_entry_count) 4) as N5.
    destruct (rdm_buf_u st4 (Z.of_N OFFSETOF_payload_entry_count) 4) as [st5 ec]. cbn [fst] in Hinv5, Hx5, N5.
    assert (Hnf5 : rdm_flt st5 <> RpF_fuel) by auto. pose proof (rdm_ext_len _ _ Hx5) as L5.
    match type of H with context [if ?c then (rdm_fault st5 RpF_buf, 0, items) else _] => destruct c end.
    { inversion H; subst. exfalso. apply Hnf5. apply (rdm_nf_fault st5 RpF_buf); [discriminate | exact Hfl]. }
    pose proof (rdm_buf_rd_ok st5 (Z.of_N SIZEOF_payload_header) (SIZEOF_utc_summary_entry * ec) f Hinv5) as [Hinv6 Hx6].
    pose proof (rdm_nf_buf_rd st5 (Z.of_N SIZEOF_payload_header) (SIZEOF_utc_summary_entry * ec)) as N6.
    destruct (rdm_buf_rd st5 (Z.of_N SIZEOF_payload_header) (SIZEOF_utc_summary_entry * ec)) as [st6 raw]. cbn [fst] in Hinv6, Hx6, N6.
    pose proof (rdm_ext_len _ _ Hx6) as L6.
    set (all := rdm_dec_utc (N.to_nat ec) raw) in *. set (rest := rdm_utc_skip t all) in *.
    destruct (rdm_utc_shift sid0 rest) as [shifted ok].
    match type of H with context [rdm_buf_wr ?x ?o ?d] =>
      assert (K7 : rdm_ok f st6 (rdm_buf_wr x o d)) by rdm_solve;
      assert (N7 : rdm_nf st6 (rdm_buf_wr x o d)) by nf_solve;
      set (st7 := rdm_buf_wr x o d) in * end.
    destruct (K7 Hinv6) as [Hinv7 Hx7]. pose proof (rdm_ext_len _ _ Hx7) as L7.
    assert (Hnf7 : rdm_flt st7 <> RpF_fuel) by (intro X; apply Hnf5, N6, N7, X).
    destruct rest as [| r0 rest'].
    + pose proof (IH _ _ _ _ _ _ _ _ _ _ Hinv7 Hnf7 H Hfl). lia.
    + match type of H with context [if stopf ?k then _ else _] => destruct (stopf k) end; [inversion H; subst; contradiction |].
      pose proof (IH _ _ _ _ _ _ _ _ _ _ Hinv7 Hnf7 H Hfl). lia.
Qed.

(* ------------------------------------------------------------------ pigeonhole on chunk offsets *)
Lemma rdm_ev_ok_off : forall f e, rdm_ev_ok f e -> (N.to_nat (rdm_ev_off e) < length f)%nat.
Proof.
  intros f e (Hat & _). destruct Hat as (Hl & _).
  pose proof (rr_sub_full (rdm_ev_off e) 32 f) as K. change (N.to_nat 32) with 32%nat in K.
  specialize (K Hl). assert (32 <> 0) by discriminate. specialize (K H). lia.
Qed.
Lemma rdm_pigeon : forall f (new : list rdm_ev), Forall (rdm_ev_ok f) new -> (length f < length new)%nat ->
  ~ NoDup (map rdm_ev_off new).
Proof.
  intros f new Hall Hlen Hnd.
  assert (Hnd2 : NoDup (map N.to_nat (map rdm_ev_off new))).
  { apply FinFun.Injective_map_NoDup; [| exact Hnd]. intros a b Hab. now apply N2Nat.inj. }
  assert (Hincl : incl (map N.to_nat (map rdm_ev_off new)) (seq 0 (length f))).
  { intros x Hx. apply in_map_iff in Hx. destruct Hx as (o & Ho & Hin). apply in_map_iff in Hin. destruct Hin as (e & He & Hin).
    subst. apply in_seq. rewrite Forall_forall in Hall. pose proof (rdm_ev_ok_off f e (Hall e Hin)). lia. }
  pose proof (NoDup_incl_length Hnd2 Hincl) as K. rewrite !map_length, seq_length in K. lia.
Qed.

(* the events a call added: everything before the old trace *)
Lemma rdm_new_events : forall f st st', rdm_inv f st' -> rdm_ext st st' ->
  exists new, rdm_tr st' = new ++ rdm_tr st /\ Forall (rdm_ev_ok f) new /\ length new = (length (rdm_tr st') - length (rdm_tr st))%nat.
Proof.
  intros f st st' (_ & _ & Hall) ([new H] & _). exists new. split; [exact H |]. split.
  - rewrite H in Hall. apply Forall_app in Hall. apply Hall.
  - rewrite H, app_length. lia.
Qed.

Theorem rdm_user_data_fuel_cycle : forall f st stopf st' rc items,
  rdm_inv f st -> rdm_flt st <> RpF_fuel -> rdm_user_data st stopf = (st', rc, items) -> rdm_flt st' = RpF_fuel ->
  exists walk, rdm_tr st' = walk ++ rdm_tr st /\ Forall (rdm_ev_ok f) walk /\ ~ NoDup (map rdm_ev_off walk).
Proof.
  intros f st stopf st' rc items Hinv Hnf H Hfl.
  pose proof (rdm_user_data_ok st stopf f Hinv) as [Hinv' Hx]. rewrite H in Hinv', Hx. cbn [fst] in Hinv', Hx.
  unfold rdm_user_data in H.
  destruct (rdm_ud_loop (rdm_chain_fuel st) st stopf (fm_item_next (wm_ck_hdr (rp_ud_head (rdm_c st)))) [] 0) as [[s1 r1] its] eqn:E.
  inversion H; subst s1 r1 items.
  pose proof (rdm_ud_loop_fuel f _ _ _ _ _ _ _ _ _ Hinv Hnf E Hfl) as L.
  destruct (rdm_new_events f st st' Hinv' Hx) as (new & Hn & Hall & Hlen). exists new. split; [exact Hn | split; [exact Hall |]].
  apply (rdm_pigeon f); [exact Hall |].
  unfold rdm_chain_fuel, rp_chain_fuel in L. destruct Hinv as (Hf & _). rewrite Hf in L. lia.
Qed.

Theorem rdm_annotations_fuel_cycle : forall f st id ts stopf st' rc items,
  rdm_inv f st -> rdm_flt st <> RpF_fuel -> rdm_annotations st id ts stopf = (st', rc, items) -> rdm_flt st' = RpF_fuel ->
  exists walk rest, rdm_tr st' = walk ++ rest ++ rdm_tr st /\ Forall (rdm_ev_ok f) walk /\ ~ NoDup (map rdm_ev_off walk).
Proof.
  intros f st id ts stopf st' rc items Hinv Hnf H Hfl. unfold rdm_annotations in H.
  destruct (negb (rp_signal_validate (rdm_c st) id =? 0)); [inversion H; subst; contradiction |].
  match type of H with context [rdm_ts_seek st ?a ?b ?c ?d] => pose proof (rdm_ts_seek_ok st a b c d f Hinv) as [Hinv1 Hx1];
    pose proof (rdm_ts_seek_nofuel st a b c d) as N1; destruct (rdm_ts_seek st a b c d) as [st1 rv] end.
  cbn [fst] in Hinv1, Hx1, N1.
  assert (Hnf1 : rdm_flt st1 <> RpF_fuel) by auto.
  destruct (rv =? JLS_ERROR_NOT_FOUND); [inversion H; subst; contradiction |].
  destruct (negb (rv =? 0)); [inversion H; subst; contradiction |].
  match type of H with context [rdm_anno_loop ?a ?b ?c ?d ?e ?g ?h] =>
    pose proof (rdm_anno_loop_ok a b c d e g h f Hinv1) as [Hinv2 Hx2];
    destruct (rdm_anno_loop a b c d e g h) as [[s2 r2] its] eqn:E end.
  cbn [fst] in Hinv2, Hx2. inversion H; subst s2 r2 items.
  pose proof (rdm_anno_loop_fuel f _ _ _ _ _ _ _ _ _ _ Hinv1 Hnf1 E Hfl) as L.
  destruct (rdm_new_events f st1 st' Hinv2 Hx2) as (walk & Hw & Hall & Hlen).
  destruct Hx1 as ([rest Hr] & _). exists walk, rest. split; [rewrite Hw, Hr; reflexivity | split; [exact Hall |]].
  apply (rdm_pigeon f); [exact Hall |].
  unfold rdm_chain_fuel, rp_chain_fuel in L. destruct Hinv1 as (Hf & _). rewrite Hf in L. lia.
Qed.

Theorem rdm_utc_fuel_cycle : forall f st id sample_id stopf st' rc items,
  rdm_inv f st -> rdm_flt st <> RpF_fuel -> rdm_utc st id sample_id stopf = (st', rc, items) -> rdm_flt st' = RpF_fuel ->
  exists walk rest, rdm_tr st' = walk ++ rest ++ rdm_tr st /\ Forall (rdm_ev_ok f) walk /\ ~ NoDup (map rdm_ev_off walk).
Proof.
  intros f st id sample_id stopf st' rc items Hinv Hnf H Hfl. unfold rdm_utc in H.
  destruct (negb (rp_signal_validate (rdm_c st) id =? 0)); [inversion H; subst; contradiction |].
  match type of H with context [rdm_ts_seek st ?a ?b ?c ?d] => pose proof (rdm_ts_seek_ok st a b c d f Hinv) as [Hinv1 Hx1];
    pose proof (rdm_ts_seek_nofuel st a b c d) as N1; destruct (rdm_ts_seek st a b c d) as [st1 rv] end.
  cbn [fst] in Hinv1, Hx1, N1.
  assert (Hnf1 : rdm_flt st1 <> RpF_fuel) by auto.
  destruct (rv =? JLS_ERROR_NOT_FOUND); [inversion H; subst; contradiction |].
  destruct (negb (rv =? 0)); [inversion H; subst; contradiction |].
  match type of H with context [rdm_utc_loop ?a ?b ?c ?d ?e ?g ?h ?i] =>
    pose proof (rdm_utc_loop_ok a b c d e g h i f Hinv1) as [Hinv2 Hx2];
    destruct (rdm_utc_loop a b c d e g h i) as [[s2 r2] its] eqn:E end.
  cbn [fst] in Hinv2, Hx2. inversion H; subst s2 r2 items.
  pose proof (rdm_utc_loop_fuel f _ _ _ _ _ _ _ _ _ _ _ Hinv1 Hnf1 E Hfl) as L.
  destruct (rdm_new_events f st1 st' Hinv2 Hx2) as (walk & Hw & Hall & Hlen).
  destruct Hx1 as ([rest Hr] & _). exists walk, rest. split; [rewrite Hw, Hr; reflexivity | split; [exact Hall |]].
  apply (rdm_pigeon f); [exact Hall |].
  unfold rdm_chain_fuel, rp_chain_fuel in L. destruct Hinv1 as (Hf & _). rewrite Hf in L. lia.
Qed.
