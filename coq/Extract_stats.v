(* Private extraction file of the `stats` slice (C20); same conventions as Extract.v
   (ExtrOcamlBasic only).  At integration the StatsQ.* / Qreduction.Qred names are merged
   into Extract.v. *)
From Coq Require Import Extraction ExtrOcamlBasic NArith ZArith QArith Qreduction List.
From JLS Require Import StatsQ.
Extraction Language OCaml.
Extraction "jlsmodel_ext"
  BinInt.Z.add BinInt.Z.opp BinInt.Z.of_N BinInt.Z.to_N BinNat.N.add BinNat.N.mul BinNat.N.of_nat BinNat.N.to_nat
  Qreduction.Qred
  StatsQ.stats_reset StatsQ.stats_compute_f64 StatsQ.stats_compute_f32 StatsQ.stats_add StatsQ.stats_add_list
  StatsQ.stats_var StatsQ.stats_copy_store StatsQ.stats_combine_store StatsQ.stats_combine StatsQ.stats_of.
