(* Numeric content of the FSR summaries and of jls_rd_fsr_statistics over the rationals
   (slice `summ`: properties C02, C09 last clause, C15 numeric part).

   What is modelled, function by function (control flow kept as in the C):
     /repo/src/wr_fsr.c
       jls_core_fsr_summary1 (the per-entry loops)   sq_summary1
       SUMMARYN_BODY_TEMPLATE / jls_core_fsr_summaryN sq_summaryN
       summary_entry_add                             the record sq_ent; sqrt is kept SYMBOLIC:
                                                     an entry holds the VARIANCE v_var, the file holds
                                                     std = sqrt(v_var) and every reader squares it again
       wr_data (pos = omit ? 0 : tell; summary1(pos)) sq_wr_data
     /repo/src/core.c
       reconstruct_omitted_chunk (<= 8-bit types)     sq_recon_value / sq_reconstruct
     /repo/src/reader.c
       f32_to_stats / f64_to_stats                    sq_to_stats
       stats_to_f64                                   sq_of_stats
       jls_core_fsr_statistics                        sq_core_stats (argument checks, level selection
                                                      sq_sel_loop, level-0 path sq_l0_loop / sq_l0_window)
       fsr_statistics                                 sq_fsr_stats (head edge) + sq_fsr_loop (the while loop)
     /repo/src/statistics.c                           StatsQ.stats_combine / stats_var / stats_reset

   Numbers.  Every double operation is the exact rational operation (followed by Qred, which
   preserves the value, to keep the extracted code fast).  A non-finite double (NaN, the fill
   value of float signals) is `None`; arithmetic with None gives None, a comparison with None is
   false (IEEE).  +-inf is not distinguished from NaN.  Binary32/64 rounding is NOT modelled: the
   correspondence run measures it.
   The writer side is option-valued everywhere (faithful NaN flow; both loops of summaryN skip
   a child whose MEAN is not finite - a child with a finite mean and a NaN std still makes the
   variance NaN).  The reader side works on rationals: when it would
   consume an entry or sample that is not finite it returns the distinct result SqNaN (the
   statements about the reader are for windows without fill).

   Abstraction of the file.  The summary entries of level L are ONE list (file order): the
   concatenation of the SUMMARY chunks of that level.  That chunk j of level L starts at entry
   j*entries_per_summary, that seek lands on the chunk containing the sample and that item_next
   leads to the next chunk is the `pyr` slice (PyramidModel / Properties_C01_pyr).  With
   entries_per_summary a multiple of summary_decimate_factor and samples_per_data a multiple of
   sample_decimate_factor (jls_core_signal_def_align) the per-chunk recurrences of the writer are the
   stream recurrences sq_level1 / sq_level_next (sq_level1_blocks in SummQProofs.v for the block level).
   Sample ids are 0-based (sample_id_offset cancels in every expression of the reader).

   Faults are distinct results: SqFault SF_DivZero (integer division by a zero decimation factor),
   SqFault SF_Nonterm (the level-selection loop with summary_decimate_factor = 1, or the model's
   recursion fuel).  Definitions only; proofs are in SummQProofs.v. *)
From Coq Require Import NArith ZArith QArith Qreduction Qround Qminmax List Bool.
From JLS Require Import StatsQ.
Import ListNotations.
Local Open Scope Q_scope.

(* ---- doubles that may be NaN ---- *)
Definition sq_oadd (a b : option Q) : option Q :=
  match a, b with Some x, Some y => Some (qr_add x y) | _, _ => None end.
Definition sq_osub (a b : option Q) : option Q :=
  match a, b with Some x, Some y => Some (qr_sub x y) | _, _ => None end.
Definition sq_omul (a b : option Q) : option Q :=
  match a, b with Some x, Some y => Some (qr_mul x y) | _, _ => None end.
(* v /= count *)
Definition sq_odiv_n (a : option Q) (n : N) : option Q :=
  match a with Some x => Some (qr_div x (q_of_N n)) | None => None end.

(* one stored summary entry: mean, VARIANCE (file: std = sqrt of it), min, max *)
Record sq_ent : Set := mkSqEnt {
  se_mean : option Q; se_var : option Q; se_min : option Q; se_max : option Q }.
Definition sq_nan_ent : sq_ent := mkSqEnt None None None None.

(* ---- jls_core_fsr_summary1, one entry: the samples data[sample_idx .. +sample_decimate_factor) ---- *)
(* first loop: if (isfinite(v)) { ++count; v_mean += v; if (v < v_min) ..; if (v > v_max) ..; } *)
Definition sq_s1_step1 (acc : N * (Q * Q * Q)) (o : option Q) : N * (Q * Q * Q) :=
  match o with
  | Some v => ((fst acc + 1)%N, stats_pass1_step (snd acc) v)
  | None => acc
  end.
(* second loop: if (isfinite(v)) { v -= v_mean; v_var += v * v; } *)
Definition sq_s1_step2 (v_mean : Q) (v_var : Q) (o : option Q) : Q :=
  match o with
  | Some v => stats_pass2_step v_mean v_var v
  | None => v_var
  end.
(* count is uint32 and at most sample_decimate_factor (uint32): ++count never wraps *)
Definition sq_summary1 (xs : list (option Q)) : sq_ent :=
  let '(count, (v_sum, v_min, v_max)) := fold_left sq_s1_step1 xs (0%N, (0, dbl_max, - dbl_max)) in
  if (count =? 0)%N then sq_nan_ent
  else
    let v_mean := qr_div v_sum (q_of_N count) in
    let v_var := fold_left (sq_s1_step2 v_mean) xs 0 in
    let v_var := if (count =? 1)%N then 0 else qr_div v_var (q_of_N count) in
    mkSqEnt (Some v_mean) (Some v_var) (Some v_min) (Some v_max).

(* ---- SUMMARYN_BODY_TEMPLATE, one entry: summary_decimate_factor child entries ---- *)
(* if (src[MIN] < v_min) v_min = src[MIN];   false when src[MIN] is NaN *)
Definition sq_selmin_o (lo : Q) (o : option Q) : Q :=
  match o with Some y => if qr_lt y lo then y else lo | None => lo end.
Definition sq_selmax_o (hi : Q) (o : option Q) : Q :=
  match o with Some y => if qr_lt hi y then y else hi | None => hi end.
(* first loop: v = src[MEAN]; if (isfinite(v)) { ++count; v_mean += v; min; max } *)
Definition sq_sN_step1 (acc : N * (Q * Q * Q)) (c : sq_ent) : N * (Q * Q * Q) :=
  match se_mean c with
  | Some m =>
    let '(count, (v_sum, v_min, v_max)) := acc in
    ((count + 1)%N, (qr_add v_sum m, sq_selmin_o v_min (se_min c), sq_selmax_o v_max (se_max c)))
  | None => acc
  end.
(* second loop (same isfinite test on the child's MEAN as the first loop):
     if (isfinite(src[MEAN])) { double v = src[MEAN] - v_mean; double std = src[STD];
                                v_var += (std * std) + (v * v); } *)
Definition sq_sN_step2 (v_mean : Q) (v_var : option Q) (c : sq_ent) : option Q :=
  match se_mean c with
  | Some m =>
    let v := qr_sub m v_mean in
    sq_oadd v_var (sq_oadd (se_var c) (Some (qr_mul v v)))
  | None => v_var
  end.
(* isfinite(src[MEAN]) *)
Definition sq_mean_finite (c : sq_ent) : bool := match se_mean c with Some _ => true | None => false end.
Definition sq_summaryN (cs : list sq_ent) : sq_ent :=
  let '(count, (v_sum, v_min, v_max)) := fold_left sq_sN_step1 cs (0%N, (0, dbl_max, - dbl_max)) in
  if (count =? 0)%N then sq_nan_ent
  else
    let v_mean := qr_div v_sum (q_of_N count) in
    let v_var := fold_left (sq_sN_step2 v_mean) cs (Some 0) in
    mkSqEnt (Some v_mean) (sq_odiv_n v_var count) (Some v_min) (Some v_max).

(* ---- the streams: summaries_per = entry_count / factor whole groups, the rest is dropped ---- *)
Fixpoint sq_take {A : Type} (n : nat) (l : list A) : option (list A * list A) :=
  match n with
  | O => Some ([], l)
  | S n' =>
    match l with
    | [] => None
    | x :: r => match sq_take n' r with Some (a, b) => Some (x :: a, b) | None => None end
    end
  end.
Fixpoint sq_chunks_f {A : Type} (fuel n : nat) (l : list A) : list (list A) :=
  match fuel with
  | O => []
  | S f => match sq_take n l with Some (a, b) => a :: sq_chunks_f f n b | None => [] end
  end.
(* n = 0 is a division by zero in C; the callers below test for it *)
Definition sq_chunks {A : Type} (n : nat) (l : list A) : list (list A) :=
  match n with O => [] | S _ => sq_chunks_f (length l) n l end.

Definition sq_level1 (d : nat) (xs : list (option Q)) : list sq_ent := map sq_summary1 (sq_chunks d xs).
Definition sq_level_next (sumdf : nat) (es : list sq_ent) : list sq_ent := map sq_summaryN (sq_chunks sumdf es).
(* all entries of level L (1-based) of a signal whose samples are xs *)
Fixpoint sq_levels (d sumdf : nat) (xs : list (option Q)) (L : nat) : list sq_ent :=
  match L with
  | O => []
  | S L' => match L' with
            | O => sq_level1 d xs
            | S _ => sq_level_next sumdf (sq_levels d sumdf xs L')
            end
  end.

(* ---- wr_data: what one block contributes to level 1.  `omit` is the decision wr_data has
   made (request register, constant test, "never the first chunk" mask), `pos` the file
   position of the DATA chunk.  jls_core_fsr_summary1(self, pos) reads self->data only. ---- *)
Definition sq_wr_data (d : nat) (omit : bool) (pos : Z) (block : list (option Q)) : Z * list sq_ent :=
  ((if omit then 0%Z else pos), sq_level1 d block).

(* the level-1 index entries and summary entries of a whole stream of blocks *)
Fixpoint sq_wr_blocks (d : nat) (blocks : list (bool * Z * list (option Q))) : list Z * list sq_ent :=
  match blocks with
  | [] => ([], [])
  | (omit, pos, b) :: r =>
    let '(i, s) := sq_wr_data d omit pos b in
    let '(ir, sr) := sq_wr_blocks d r in (i :: ir, s ++ sr)
  end.

(* ---- reconstruct_omitted_chunk for the <= 8-bit types: one value per level-1 entry ---- *)
Inductive sq_dt : Set := SqU1 | SqU4 | SqU8 | SqI4 | SqI8.
(* roundf: to nearest, halves away from zero *)
Definition sq_roundf (q : Q) : Z :=
  if Qle_bool 0 q then Qfloor (q + (1 # 2)) else (- Qfloor (- q + (1 # 2)))%Z.
(* the sample value (as the integer a read returns) written into every sample of the entry.
   (uint8_t) / (int8_t) of an out-of-range float is undefined in C; taken mod 256 here. *)
Definition sq_recon_value (dt : sq_dt) (mu : Q) : Z :=
  let b := (sq_roundf mu mod 256)%Z in
  match dt with
  | SqU8 => b
  | SqU4 => (b mod 16)%Z
  | SqU1 => (b mod 2)%Z
  | SqI8 => if (b <? 128)%Z then b else (b - 256)%Z
  | SqI4 => let n := (b mod 16)%Z in if (n <? 8)%Z then n else (n - 16)%Z
  end.
Definition sq_dt_range (dt : sq_dt) (c : Z) : Prop :=
  match dt with
  | SqU1 => (0 <= c < 2)%Z | SqU4 => (0 <= c < 16)%Z | SqU8 => (0 <= c < 256)%Z
  | SqI4 => (-8 <= c < 8)%Z | SqI8 => (-128 <= c < 128)%Z
  end.
(* rnd = the conversion of the computed double mean to the stored float and back;
   None = an entry whose mean is NaN (roundf(NaN) cast to an integer: undefined) *)
Fixpoint sq_reconstruct (dt : sq_dt) (d : nat) (rnd : Q -> Q) (es : list sq_ent) : option (list Z) :=
  match es with
  | [] => Some []
  | e :: r =>
    match se_mean e, sq_reconstruct dt d rnd r with
    | Some m, Some t => Some (repeat (sq_recon_value dt (rnd m)) d ++ t)
    | _, _ => None
    end
  end.

(* ================================================================== *)
(* the reader                                                          *)
Inductive sq_fault : Set := SF_DivZero | SF_Nonterm.
Inductive sq_res (A : Type) : Type :=
| SqOk (a : A)
| SqErr                    (* a JLS_ERROR_* return code *)
| SqNaN                    (* a non-finite sample / entry would be consumed: outside the rational model *)
| SqFault (f : sq_fault).
Arguments SqOk {A} a.
Arguments SqErr {A}.
Arguments SqNaN {A}.
Arguments SqFault {A} f.

(* one returned entry: mean, VARIANCE (the C returns std = sqrt of it), min, max *)
Record sq_out : Set := mkSqOut { so_mean : Q; so_var : Q; so_min : Q; so_max : Q }.

(* f32_to_stats / f64_to_stats: s = std * std * (count - 1) if count > 1 else 0 *)
Definition sq_to_stats (o : sq_out) (count : Z) : stats :=
  mkStats (Z.to_N count) (so_mean o)
          (if (1 <? count)%Z then qr_mul (so_var o) (inject_Z (count - 1)) else 0)
          (so_min o) (so_max o).
(* stats_to_f64 *)
Definition sq_of_stats (st : stats) : sq_out :=
  mkSqOut (st_mean st) (stats_var st) (st_min st) (st_max st).
Definition sq_ent_out (e : sq_ent) : option sq_out :=
  match se_mean e, se_var e, se_min e, se_max e with
  | Some a, Some b, Some c, Some d => Some (mkSqOut a b c d)
  | _, _, _, _ => None
  end.

Fixpoint sq_all_some (l : list (option Q)) : option (list Q) :=
  match l with
  | [] => Some []
  | Some v :: r => match sq_all_some r with Some t => Some (v :: t) | None => None end
  | None :: _ => None
  end.

(* level-0 path, one window of `increment` samples:
   v_mean *= mean_scale; v_var = sum (x - v_mean)^2; v_var *= var_scale *)
Definition sq_l0_window (incr : Z) (w : list Q) : sq_out :=
  let '(v_sum, v_min, v_max) := fold_left stats_pass1_step w (0, dbl_max, - dbl_max) in
  let v_mean := qr_mul v_sum (qr_div 1 (inject_Z incr)) in
  let v_var := fold_left (stats_pass2_step v_mean) w 0 in
  let var_scale := if (1 <? incr)%Z then qr_div 1 (qr_sub (inject_Z incr) 1) else 1 in
  mkSqOut v_mean (qr_mul v_var var_scale) v_min v_max.
Fixpoint sq_l0_loop (incr : nat) (l : list (option Q)) (count : nat) : sq_res (list sq_out) :=
  match count with
  | O => SqOk []
  | S c =>
    match sq_take incr l with
    | None => SqErr
    | Some (w, rest) =>
      match sq_all_some w with
      | None => SqNaN
      | Some wq =>
        match sq_l0_loop incr rest c with
        | SqOk r => SqOk (sq_l0_window (Z.of_nat incr) wq :: r)
        | e => e
        end
      end
    end
  end.

(* DECIMATE_PER_DURATION *)
Definition sq_dpd : Z := 25.
(* while ((increment >= sample_multiple_next) && (duration >= 25 * sample_multiple_next))
     { ++level; sample_multiple_next *= summary_decimate_factor; }
   level is uint8 (no wrap below 256 iterations); None = fuel exhausted *)
Fixpoint sq_sel_loop (fuel : nat) (sumdf incr dur smn : Z) (level : nat) : option nat :=
  match fuel with
  | O => None
  | S f =>
    if ((smn <=? incr) && (sq_dpd * smn <=? dur))%Z
    then sq_sel_loop f sumdf incr dur (smn * sumdf)%Z (S level)
    else Some level
  end.

Definition sq_bind_out {A : Type} (r : sq_res (list sq_out)) (f : sq_out -> sq_res A) : sq_res A :=
  match r with
  | SqOk [o] => f o
  | SqOk _ => SqErr
  | SqErr => SqErr
  | SqNaN => SqNaN
  | SqFault x => SqFault x
  end.

Section Reader.
  (* sample_decimate_factor, summary_decimate_factor, the samples (level 0), the entries of
     level L, the highest level that has chunks, and whether the level-0 path supports the
     sample type (it returns JLS_ERROR_UNSUPPORTED_FILE for 64-bit types) *)
  Variables (d sumdf : Z) (xs : list (option Q)) (lv : nat -> list sq_ent) (top : nat) (l0_ok : bool).

  (* step_size = sample_decimate_factor; for (lvl = 2; lvl <= level; ++lvl) step_size *= summary_decimate_factor *)
  Definition sq_step (level : nat) : Z := (d * sumdf ^ Z.of_nat (level - 1))%Z.

  Section Loop.
    (* lower start incr = jls_core_fsr_statistics(start, incr, f64_tmp4, 1) *)
    Variable lower : Z -> Z -> sq_res (list sq_out).
    Variables (step increment : Z).

    (* the while (data_length) loop of fsr_statistics; es = the entries from src_offset on
       (through item_next to the end of the level), rem = incr_remaining, cnt = data_length *)
    Fixpoint sq_fsr_loop (es : list sq_ent) (acc : stats) (rem start : Z) (cnt : nat) : sq_res (list sq_out) :=
      match cnt with
      | O => SqOk []
      | S c =>
        match es with
        | [] =>
          (* src_offset >= src_end and no next chunk *)
          if ((rem <=? step)%Z && Nat.eqb c 0)
          then sq_bind_out (lower start rem) (fun o =>
                 SqOk [sq_of_stats (stats_combine acc (sq_to_stats o rem))])
          else SqErr
        | e :: es' =>
          if (rem <=? step)%Z then
            if Nat.eqb c 0
            then sq_bind_out (lower start rem) (fun o =>
                   SqOk [sq_of_stats (stats_combine acc (sq_to_stats o rem))])
            else
              match sq_ent_out e with
              | None => SqNaN
              | Some eo =>
                let acc1 := stats_combine acc (sq_to_stats eo rem) in
                let incr := (step - rem)%Z in
                (* incr < 0 is unreachable here (rem <= step) *)
                let acc2 := if (incr =? 0)%Z then stats_reset else sq_to_stats eo incr in
                match sq_fsr_loop es' acc2 (increment - incr)%Z (start + step)%Z c with
                | SqOk r => SqOk (sq_of_stats acc1 :: r)
                | x => x
                end
              end
          else
            match sq_ent_out e with
            | None => SqNaN
            | Some eo =>
              sq_fsr_loop es' (stats_combine acc (sq_to_stats eo step)) (rem - step)%Z (start + step)%Z cnt
            end
        end
      end.
  End Loop.

  Definition sq_fsr_stats (lower : Z -> Z -> sq_res (list sq_out))
             (start increment : Z) (level : nat) (cnt : nat) : sq_res (list sq_out) :=
    if (top <? level)%nat then SqErr          (* seek / rd_stats_chunk: no such level *)
    else
      let step := sq_step level in
      if (step <=? 0)%Z then SqFault SF_DivZero else
      let entry_offset := ((start + step - 1) / step)%Z in
      let entry_sample_id := (entry_offset * step)%Z in
      let es := skipn (Z.to_nat entry_offset) (lv level) in
      if (entry_sample_id =? start)%Z
      then sq_fsr_loop lower step increment es stats_reset increment start cnt
      else
        let h := (entry_sample_id - start)%Z in
        sq_bind_out (lower start h) (fun o =>
          sq_fsr_loop lower step increment es (sq_to_stats o h) (increment - h)%Z (start + h)%Z cnt).

  (* jls_core_fsr_statistics; fuel bounds the recursion depth (one per summary level) *)
  Fixpoint sq_core_stats (fuel : nat) (start increment count : Z) : sq_res (list sq_out) :=
    match fuel with
    | O => SqFault SF_Nonterm
    | S f =>
      if (increment <=? 0)%Z then SqErr
      else if (count <=? 0)%Z then SqOk []
      else if (start <? 0)%Z then SqErr
      else
        let samples := Z.of_nat (length xs) in
        if ((samples <? increment) || (samples / increment <? count)
            || (samples - increment * count <? start))%Z then SqErr
        else
          match sq_sel_loop 64 sumdf increment (increment * count)%Z d 0 with
          | None => SqFault SF_Nonterm
          | Some O =>
            if l0_ok
            then sq_l0_loop (Z.to_nat increment) (skipn (Z.to_nat start) xs) (Z.to_nat count)
            else SqErr
          | Some level =>
            sq_fsr_stats (fun s i => sq_core_stats f s i 1%Z) start increment level (Z.to_nat count)
          end
    end.
End Reader.

(* the reader on a file written by the writer; 16 = JLS_SUMMARY_LEVEL_COUNT bounds the depth *)
Definition sq_rd_statistics (d sumdf : nat) (xs : list (option Q)) (top : nat) (l0_ok : bool)
           (start increment count : Z) : sq_res (list sq_out) :=
  sq_core_stats (Z.of_nat d) (Z.of_nat sumdf) xs (sq_levels d sumdf xs) top l0_ok 17 start increment count.

(* ---- exact statistics of a window, as an entry (specification side) ---- *)
(* the finite samples of a list *)
Fixpoint sq_finite (l : list (option Q)) : list Q :=
  match l with
  | [] => []
  | Some v :: r => v :: sq_finite r
  | None :: r => sq_finite r
  end.
(* samples [a, a+n) *)
Definition sq_rng {A : Type} (l : list A) (a n : nat) : list A := firstn n (skipn a l).
(* e describes the non-empty sample list w exactly: mean, POPULATION variance, min, max *)
Definition sq_exact (e : sq_ent) (w : list Q) : Prop :=
  exists m v lo hi, e = mkSqEnt (Some m) (Some v) (Some lo) (Some hi) /\
    m == mean_of w /\ v == ssq_of w / qlen w /\ lo == min_of w /\ hi == max_of w.
