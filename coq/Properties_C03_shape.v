(* C03 layer 1 (writer side): the shape of the file when the writer is stopped, for EVERY program of the byte-exact
   writer model (WriterModel.v; tied to the C by the byte-for-byte comparison of write logs) and every crash point.
   Crash model of DESIGN.md: the backend log [w1..wn] of a run; crash point (k, j) = the first k backend calls complete
   and the first j bytes of call k+1; single fd, no reordering.  wo_file_after l = the bytes of the file after the
   log l; wmw_evs = the writer's log (kept newest first) as the checker's event list (oldest first).

   Clean points (j = 0), full:
     C03_shape_clean_points            the write-once checker's state after the first k calls satisfies wo_inv with the
                                       file's bytes: its tracked (offset, header) pairs ARE a chunk chain of the file
     C03_shape_clean_points_explicit   the same without the checker's state: the file is empty, or it has a chain of
                                       completed chunks from offset 32 (each header CRC-valid, each chunk completely
                                       inside the file, each starting where the previous one ends) that contains every
                                       completed chunk, and no complete chunk follows the chain (only the torn rest of
                                       the chunk being appended)
   Torn write (any j), partial (names end in _partial):
     C03_shape_torn_partial            in the image (k, j) every chunk completed before call k+1 keeps bytes 8..27 of its
                                       header (item_prev, tag, rsv0, chunk_meta, payload_length, payload_prev_length);
                                       keeps its whole header unless call k+1 writes AT its offset (the re-link of that
                                       chunk); keeps payload + pad + payload CRC unless it is a TRACK_*_HEAD chunk; the
                                       file does not shrink; every completed chunk before the write position - and, when
                                       call k+1 is not a re-link, EVERY completed chunk - is still a completed chunk
                                       (CRC-valid chain from offset 32).  So: a torn append leaves all completed chunks
                                       intact; a torn head-table update touches only the payload/pad/CRC of one
                                       TRACK_*_HEAD chunk.
     C03_shape_torn_link_partial       if call k+1 writes at the offset of a completed chunk (in-place 32-byte header
                                       write), the image (k, j) has the same length as the file before and differs from it
                                       at most in the 8 bytes of that header's item_next and the 4 bytes of its crc32
     C03_torn_write_checker_partial    the checker-level statement the two follow from: for ANY log accepted by the
                                       strict checker (e.g. the interposed log of the C, which the extracted checker
                                       replays) whose values are bytes
     C03_shape_file_header             at every crash point after the first two backend calls (O_TRUNC, file header) and
                                       before the very last write of jls_wr_close, the first 32 bytes of the file are the
                                       file header written by jls_wr_open: CRC-valid, length field 0, the format version
                                       (full, clean points; _open: the run without jls_wr_close, every k >= 2)
     C03_shape_torn_file_header_partial  a torn write that is not at offset 0 leaves those 32 bytes alone (the only writes
                                       at offset 0 are the two file-header writes: open and the last write of close)
   What is missing for the CrashShape of DESIGN.md (why _partial): (1) the torn LAST write of jls_wr_close (the file header
   being replaced in place) is not characterised; (2) nothing is said about the TARGETS of links and index entries (that
   every non-zero item_next / item_prev / head-table / index entry points to a completed chunk of the right kind); (3) that
   a torn header is never CRC-valid-but-wrong (the burst argument of C04) is not proved here - the statement is about
   which bytes can differ, not about what a reader concludes; (4) the payload of a TRACK_*_HEAD chunk during a head-table
   update (two writes) is unconstrained, as in C14.
   Guards: no model fault; bounded log (see Properties_C14_writer.v); for the torn statements also "every value written
   is a byte (< 256)" - the model's byte lists are lists of N, the guard is stated on the log (decidable:
   wmw_log_bytes_b) and not derived from a condition on the program's arguments.
   Proofs: WmWriteOnce4.v (clean points), WmWriteOnce5.v (torn writes, file header). *)
From Coq Require Import NArith ZArith List Bool.
From JLS Require Import Generated CrcDefs Spec Format WriteOnce WriteOnceProofs WmRaw WmCore WmTs WmFsr WriterModel WmProofs
                        WmWriteOnce WmWriteOnce2 WmWriteOnce3 WmWriteOnce4 WmWriteOnce5.
Import ListNotations.
Local Open Scope N_scope.

Theorem C03_shape_clean_points :
  forall (summ1 : N -> list N -> wm_sentry) (summN : bool -> list wm_sentry -> wm_sentry) (p : list wop),
  let st := fst (wm_run_full summ1 summN p) in
  wm_st_fault st = false ->
  (forall off b, In (WmWrite off b) (wm_st_log st) ->
     off + N.of_nat (length b) < 18446744073709551616 /\ N.of_nat (length b) < 4294967296) ->
  forall k, exists s, wo_run false wo_st0 0 (firstn k (wmw_evs (wm_st_log st))) = inl s /\
                      wo_inv s (wo_file_after (firstn k (wmw_evs (wm_st_log st)))).
Proof. exact wmw_crash_clean. Qed.
Print Assumptions C03_shape_clean_points.

Theorem C03_shape_clean_points_explicit :
  forall (summ1 : N -> list N -> wm_sentry) (summN : bool -> list wm_sentry -> wm_sentry) (p : list wop),
  let st := fst (wm_run_full summ1 summN p) in
  wm_st_fault st = false ->
  (forall off b, In (WmWrite off b) (wm_st_log st) ->
     off + N.of_nat (length b) < 18446744073709551616 /\ N.of_nat (length b) < 4294967296) ->
  forall k, let f := wo_file_after (firstn k (wmw_evs (wm_st_log st))) in
    f = [] \/
    exists L e, wo_chunks f L e /\ e <= N.of_nat (length f) /\
      (forall o h, wo_completed f o h -> In (o, h) L) /\
      (forall h, fm_decode_chunk_header (skipn (N.to_nat e) f) = Some h -> N.of_nat (length f) < e + fm_chunk_size (fm_payload_length h)).
Proof. exact wmw_crash_clean_shape. Qed.
Print Assumptions C03_shape_clean_points_explicit.

(* what wo_inv gives for any accepted log (Properties_C14.v: C14_tracked_chunks_genuine), prefix by prefix *)
Theorem C03_accepted_log_prefix_shape : forall l, wo_check_log l = true ->
  forall k, exists s, wo_run false wo_st0 0 (firstn k l) = inl s /\ wo_inv s (wo_file_after (firstn k l)).
Proof. exact wmw_accepted_prefix_inv. Qed.
Print Assumptions C03_accepted_log_prefix_shape.

Theorem C03_shape_torn_partial :
  forall (summ1 : N -> list N -> wm_sentry) (summN : bool -> list wm_sentry -> wm_sentry) (p : list wop),
  let st := fst (wm_run_full summ1 summN p) in
  wm_st_fault st = false ->
  (forall off b, In (WmWrite off b) (wm_st_log st) ->
     off + N.of_nat (length b) < 18446744073709551616 /\ N.of_nat (length b) < 4294967296) ->
  (forall off b, In (WmWrite off b) (wm_st_log st) -> Forall (fun x => x < 256) b) ->
  forall k off b, nth_error (wmw_evs (wm_st_log st)) k = Some (WoWrite off b) ->
  forall j,
    let f := wo_file_after (firstn k (wmw_evs (wm_st_log st))) in
    let f' := wo_apply_write f off (firstn j b) in
    (length f <= length f')%nat /\
    forall o h, wo_completed f o h ->
      (forall i, o + 8 <= i -> i < o + 28 -> nth (N.to_nat i) f' 0 = nth (N.to_nat i) f 0) /\
      (off <> o -> forall i, o <= i -> i < o + 32 -> nth (N.to_nat i) f' 0 = nth (N.to_nat i) f 0) /\
      (fm_is_head_tag (fm_tag h) = false ->
         forall i, o + 32 <= i -> i < o + fm_chunk_size (fm_payload_length h) -> nth (N.to_nat i) f' 0 = nth (N.to_nat i) f 0) /\
      ((o < off \/ forall h0, ~ wo_completed f off h0) -> wo_completed f' o h).
Proof. exact wmw_crash_torn. Qed.
Print Assumptions C03_shape_torn_partial.

Theorem C03_shape_torn_link_partial :
  forall (summ1 : N -> list N -> wm_sentry) (summN : bool -> list wm_sentry -> wm_sentry) (p : list wop),
  let st := fst (wm_run_full summ1 summN p) in
  wm_st_fault st = false ->
  (forall off b, In (WmWrite off b) (wm_st_log st) ->
     off + N.of_nat (length b) < 18446744073709551616 /\ N.of_nat (length b) < 4294967296) ->
  (forall off b, In (WmWrite off b) (wm_st_log st) -> Forall (fun x => x < 256) b) ->
  forall k off b, nth_error (wmw_evs (wm_st_log st)) k = Some (WoWrite off b) ->
  forall j,
    let f := wo_file_after (firstn k (wmw_evs (wm_st_log st))) in
    let f' := wo_apply_write f off (firstn j b) in
    forall h0, wo_completed f off h0 ->
      length f' = length f /\
      forall i, nth (N.to_nat i) f' 0 <> nth (N.to_nat i) f 0 -> (off <= i /\ i < off + 8) \/ (off + 28 <= i /\ i < off + 32).
Proof. exact wmw_crash_torn_link. Qed.
Print Assumptions C03_shape_torn_link_partial.

(* the file header: jls_wr_open; p; jls_wr_close, every crash point from the third backend call up to (not including) the last *)
Theorem C03_shape_file_header :
  forall (summ1 : N -> list N -> wm_sentry) (summN : bool -> list wm_sentry -> wm_sentry) (p : list wop),
  let st := fst (wm_run_full summ1 summN p) in
  wm_st_fault st = false ->
  (forall off b, In (WmWrite off b) (wm_st_log st) ->
     off + N.of_nat (length b) < 18446744073709551616 /\ N.of_nat (length b) < 4294967296) ->
  forall k, (2 <= k < length (wmw_evs (wm_st_log st)))%nat ->
    let f := wo_file_after (firstn k (wmw_evs (wm_st_log st))) in
    firstn 32 f = fm_encode_file_header {| fm_fh_length := 0; fm_fh_version := JLS_FORMAT_VERSION_U32 |} /\
    fm_decode_file_header f = Some {| fm_fh_length := 0; fm_fh_version := JLS_FORMAT_VERSION_U32 |}.
Proof. exact wmw_crash_file_header. Qed.
Print Assumptions C03_shape_file_header.

(* the same for a writer that is never closed: every crash point from the third backend call on *)
Theorem C03_shape_file_header_open :
  forall (summ1 : N -> list N -> wm_sentry) (summN : bool -> list wm_sentry -> wm_sentry) (p : list wop),
  let st := fst (wm_steps summ1 summN wm_api_open p []) in
  wm_st_fault st = false ->
  (forall off b, In (WmWrite off b) (wm_st_log st) ->
     off + N.of_nat (length b) < 18446744073709551616 /\ N.of_nat (length b) < 4294967296) ->
  forall k, (2 <= k)%nat ->
    let f := wo_file_after (firstn k (wmw_evs (wm_st_log st))) in
    firstn 32 f = fm_encode_file_header {| fm_fh_length := 0; fm_fh_version := JLS_FORMAT_VERSION_U32 |} /\
    fm_decode_file_header f = Some {| fm_fh_length := 0; fm_fh_version := JLS_FORMAT_VERSION_U32 |}.
Proof. exact wmw_crash_file_header_open. Qed.
Print Assumptions C03_shape_file_header_open.

Theorem C03_shape_torn_file_header_partial :
  forall (summ1 : N -> list N -> wm_sentry) (summN : bool -> list wm_sentry -> wm_sentry) (p : list wop),
  let st := fst (wm_run_full summ1 summN p) in
  wm_st_fault st = false ->
  (forall off b, In (WmWrite off b) (wm_st_log st) ->
     off + N.of_nat (length b) < 18446744073709551616 /\ N.of_nat (length b) < 4294967296) ->
  forall k off b, nth_error (wmw_evs (wm_st_log st)) k = Some (WoWrite off b) -> (2 <= k)%nat -> off <> 0 ->
  forall j,
    let f := wo_file_after (firstn k (wmw_evs (wm_st_log st))) in
    firstn 32 (wo_apply_write f off (firstn j b)) = firstn 32 f.
Proof. exact wmw_crash_torn_file_header. Qed.
Print Assumptions C03_shape_torn_file_header_partial.

(* the only writes at offset 0: the log of jls_wr_open; p (no close) is O_TRUNC, the file header with length 0, then
   no write at offset 0 *)
Theorem C03_writer_log_head :
  forall (summ1 : N -> list N -> wm_sentry) (summN : bool -> list wm_sentry -> wm_sentry) (p : list wop),
  let st := fst (wm_steps summ1 summN wm_api_open p []) in
  wm_st_fault st = false ->
  exists l, wm_st_log st = l ++ [WmWrite 0 (fm_encode_file_header {| fm_fh_length := 0; fm_fh_version := JLS_FORMAT_VERSION_U32 |}); WmTrunc 0] /\
            forall b, ~ In (WmWrite 0 b) l.
Proof. exact wmw_steps_log_shape. Qed.
Print Assumptions C03_writer_log_head.

(* checker level: any write accepted by the strict checker in a state that satisfies wo_inv with the file's bytes *)
Theorem C03_torn_write_checker_partial : forall s f off b s' j,
  wo_inv s f -> Forall (fun x => x < 256) f -> Forall (fun x => x < 256) b -> wo_step false s (WoWrite off b) = inl s' ->
  let f' := wo_apply_write f off (firstn j b) in
  (length f <= length f')%nat /\
  forall o h, In (o, h) (wo_pairs (wo_exts s)) ->
    (forall i, o + 8 <= i -> i < o + 28 -> nth (N.to_nat i) f' 0 = nth (N.to_nat i) f 0) /\
    (off <> o -> forall i, o <= i -> i < o + 32 -> nth (N.to_nat i) f' 0 = nth (N.to_nat i) f 0) /\
    (fm_is_head_tag (fm_tag h) = false ->
       forall i, o + 32 <= i -> i < o + fm_chunk_size (fm_payload_length h) -> nth (N.to_nat i) f' 0 = nth (N.to_nat i) f 0).
Proof. exact wmw_torn_write. Qed.
Print Assumptions C03_torn_write_checker_partial.

Theorem C03_torn_link_checker_partial : forall s f off b s' j h0,
  wo_inv s f -> Forall (fun x => x < 256) f -> Forall (fun x => x < 256) b -> wo_step false s (WoWrite off b) = inl s' ->
  wo_completed f off h0 ->
  let f' := wo_apply_write f off (firstn j b) in
  length f' = length f /\
  forall i, nth (N.to_nat i) f' 0 <> nth (N.to_nat i) f 0 -> (off <= i /\ i < off + 8) \/ (off + 28 <= i /\ i < off + 32).
Proof. exact wmw_torn_link. Qed.
Print Assumptions C03_torn_link_checker_partial.

(* the byte guard in boolean form *)
Theorem C03_log_bytes_decidable : forall l, wmw_log_bytes_b l = true ->
  forall off b, In (WmWrite off b) l -> Forall (fun x => x < 256) b.
Proof. exact wmw_log_bytes_b_sound. Qed.
Print Assumptions C03_log_bytes_decidable.

(* the hypotheses are satisfiable: the program of Properties_C14_writer.v (C14_writer_example) writes bytes only ... *)
Example C03_shape_example_bytes :
  forall off b, In (WmWrite off b) (wm_st_log (fst (wm_run_full wm_zero_summ1 wm_zero_summN wmw_ex_prog))) -> Forall (fun x => x < 256) b.
Proof. exact wmw_ex_bytes. Qed.
Print Assumptions C03_shape_example_bytes.

(* ... and a crash point inside a re-link exists already in jls_wr_open; jls_wr_close: backend call number 10 (from 0)
   rewrites the 32-byte header of the SIGNAL_DEF chunk at offset 208, a completed chunk of the file after calls 0..9,
   whose item_next was 0 *)
Example C03_shape_example_link_point :
  let st := fst (wm_run_full wm_zero_summ1 wm_zero_summN []) in
  let evs := wmw_evs (wm_st_log st) in
  wm_st_fault st = false /\
  (forall off b, In (WmWrite off b) (wm_st_log st) ->
     off + N.of_nat (length b) < 18446744073709551616 /\ N.of_nat (length b) < 4294967296) /\
  (forall off b, In (WmWrite off b) (wm_st_log st) -> Forall (fun x => x < 256) b) /\
  exists b h0, nth_error evs 10 = Some (WoWrite 208 b) /\ length b = 32%nat /\
               wo_completed (wo_file_after (firstn 10 evs)) 208 h0 /\ fm_tag h0 = JLS_TAG_SIGNAL_DEF /\ fm_item_next h0 = 0.
Proof. exact wmw_ex_torn_link_point. Qed.
Print Assumptions C03_shape_example_link_point.
