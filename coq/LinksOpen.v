(* jls_rd_open's SCAN PHASE (RepairModel.rp_scan) on the FILE of the writer model, EVERY program:
   from the link invariant (LinksTop.lk_file_links), the file layout (E2eModel.e2_model_file) and the reader lemmas of LinksRead.v.
   Every top-level name starts with lk_. *)
From Coq Require Import NArith ZArith List Bool Lia Arith.
From Coq Require Import ZifyBool ZifyN ZifyNat.
From JLS Require Import Generated CrcDefs Spec Format FormatProofs WriteOnce WriteOnceProofs
                        WmRaw WmCore WmTs WmFsr WriterModel WmProofs WmWriteOnce WmWriteOnce2 WmWriteOnce3
                        RefineLog RepairRaw RepairModel RawReadProofs RepairProofs E2eLog E2eNoTrunc E2eRead E2eModel E2eTop
                        LinksCore LinksCore2 LinksFsr LinksApi LinksTop LinksRead.
Import ListNotations.
Local Open Scope N_scope.
Ltac Zify.zify_post_hook ::= Z.div_mod_to_equations.
Local Opaque crc32c.

(* ================================================================ small facts *)
Lemma lk_chunk_at_inj : forall f o h p h' p', e2_chunk_at f o h p -> e2_chunk_at f o h' p' -> h = h' /\ p = p'.
Proof.
  intros f o h p h' p' (D & L & S & _) (D' & L' & S' & _). rewrite D in D'. inversion D'; subst h'. split; [reflexivity|].
  rewrite <- S, <- S'. congruence.
Qed.

Lemma lk_layout_len : forall cs a z, e2_layout cs a z -> a + 32 * N.of_nat (length cs) <= z.
Proof.
  intros cs a z H. induction H as [a|c r a z Ho Hr IH]; cbn [length]; [lia|].
  pose proof (rf_chunk_size_pos (rf_len (rc_pay c))). lia.
Qed.
Lemma lk_layout_mod8 : forall cs a z, e2_layout cs a z -> a mod 8 = 0 -> z mod 8 = 0.
Proof.
  intros cs a z H. induction H as [a|c r a z Ho Hr IH]; intro Ha; [exact Ha|]. apply IH.
  unfold fm_chunk_size, SIZEOF_chunk_header. pose proof (fm_disk_len_mod8 (rf_len (rc_pay c))). lia.
Qed.

Lemma lk_key_nz : forall tag, lk_key tag <> 0 -> tag <> JLS_TAG_INVALID.
Proof. intros tag H E. apply H. rewrite E. reflexivity. Qed.

(* the chunk view only grows with the log *)
Lemma lk_step_out : forall s e, exists n, rp_out (rf_step s e) = n ++ rp_out s.
Proof.
  intros s e. destruct e as [off b|n|]; cbn [rf_step]; try (exists []; reflexivity).
  destruct (rp_pend s) as [[[o t] m]|].
  - destruct (off =? o + 32); cbn [rp_out]; [eexists [_]|exists []]; reflexivity.
  - destruct ((off =? rp_end s) && negb (off =? 0) && (rf_len b =? 32)); cbn [rp_out]; [|exists []; reflexivity].
    destruct (fm_payload_length (fm_ch_fields b) =? 0); cbn [rp_out]; [eexists [_]|exists []]; reflexivity.
Qed.
Lemma lk_scan_out_app : forall ext l, exists n, rp_out (rf_scan (ext ++ l)) = n ++ rp_out (rf_scan l).
Proof.
  induction ext as [|e ext IH]; intro l; [exists []; reflexivity|]. cbn [app rf_scan].
  destruct (lk_step_out (rf_scan (ext ++ l)) e) as (n1 & E1). destruct (IH l) as (n2 & E2).
  exists (n1 ++ n2). rewrite E1, E2. apply app_assoc.
Qed.
Lemma lk_chunks_app : forall ext l, exists rest, rf_chunks (ext ++ l) = rf_chunks l ++ rest.
Proof.
  intros ext l. destruct (lk_scan_out_app ext l) as (n & E). exists (rev n). unfold rf_chunks. rewrite E. apply rev_app_distr.
Qed.

(* from the nth_error form of the link theorem to a linked list of complete chunks *)
Definition lk_ck_of (f : list N) (t : lk_ck) (c : rf_chunk) : Prop :=
  lk_ck_off t = rc_off c /\ e2_chunk_at f (rc_off c) (lk_ck_hdr t) (lk_ck_pay t) /\
  fm_tag (lk_ck_hdr t) = rc_tag c /\ fm_chunk_meta (lk_ck_hdr t) = rc_meta c.

Lemma lk_build : forall f (l : list rf_chunk),
  (forall i c, nth_error l i = Some c ->
     exists h pl, e2_chunk_at f (rc_off c) h pl /\ fm_tag h = rc_tag c /\ fm_chunk_meta h = rc_meta c /\
       fm_item_next h = match nth_error l (S i) with Some c' => rc_off c' | None => 0 end) ->
  exists L, Forall2 (lk_ck_of f) L l /\ lk_rlinked L.
Proof.
  intros f l. induction l as [|c r IH]; intro H; [exists []; split; constructor|].
  destruct (H 0%nat c eq_refl) as (h & pl & Hat & Ht & Hm & Hn). cbn [nth_error] in Hn.
  destruct (IH (fun i c' Hi => H (S i) c' Hi)) as (L' & F' & K').
  exists ((rc_off c, h, pl) :: L'). split.
  - constructor; [|exact F']. unfold lk_ck_of, lk_ck_off, lk_ck_hdr, lk_ck_pay. cbn [fst snd]. auto.
  - cbn [lk_rlinked]. split; [|exact K']. unfold lk_ck_hdr at 1. cbn [fst snd]. rewrite Hn.
    destruct F' as [|t' c' L'' r' Htc _]; [reflexivity|]. cbn [nth_error]. symmetry. apply Htc.
Qed.

(* ================================================================ the chunks jls_wr_open writes *)
Definition lk_open_cs : list rf_chunk := rf_chunks (wm_st_log wm_api_open).
Lemma lk_open_cs_facts : exists c1 c2 c3 r,
  lk_open_cs = c1 :: c2 :: c3 :: r /\
  rc_off c1 = 32 /\ rc_tag c1 = JLS_TAG_USER_DATA /\ rc_tag c2 = JLS_TAG_SOURCE_DEF /\ rc_tag c3 = JLS_TAG_SIGNAL_DEF /\
  filter (fun c => lk_key (rc_tag c) =? 1) lk_open_cs = [c2] /\
  (exists r2, filter (fun c => lk_key (rc_tag c) =? 2) lk_open_cs = c3 :: r2).
Proof.
  assert (H : exists c1 c2 c3 r, lk_open_cs = c1 :: c2 :: c3 :: r) by (vm_compute; do 4 eexists; reflexivity).
  destruct H as (c1 & c2 & c3 & r & E). exists c1, c2, c3, r. split; [exact E|].
  assert (X : lk_open_cs = c1 :: c2 :: c3 :: r ->
    rc_off c1 = 32 /\ rc_tag c1 = JLS_TAG_USER_DATA /\ rc_tag c2 = JLS_TAG_SOURCE_DEF /\ rc_tag c3 = JLS_TAG_SIGNAL_DEF /\
    filter (fun c => lk_key (rc_tag c) =? 1) lk_open_cs = [c2] /\
    (exists r2, filter (fun c => lk_key (rc_tag c) =? 2) lk_open_cs = c3 :: r2)).
  { vm_compute. intro X. inversion X. repeat split. eexists. reflexivity. }
  exact (X E).
Qed.

(* the complete log extends jls_wr_open's *)
Lemma lk_run_chunks_prefix : forall summ1 summN p, exists rest,
  rf_chunks (wm_st_log (fst (wm_run_full summ1 summN p))) = lk_open_cs ++ rest.
Proof.
  intros summ1 summN p. destruct (lk_run_pre summ1 summN p) as [_ Heq]. rewrite Heq.
  pose proof (lk_steps_step summ1 summN p wm_api_open []) as [L1 _].
  pose proof (lk_close_pre_step summ1 summN (fst (wm_steps summ1 summN wm_api_open p []))) as [L2 _].
  set (pre := lk_close_pre summ1 summN (fst (wm_steps summ1 summN wm_api_open p []))) in *.
  pose proof (wmw_le_trans _ _ _ L1 L2) as (ext & Hlog & _).
  unfold wmw_fin, wm_st_log. cbn [wm_st_base wm_st_set_base wm_b_raw wm_b_set_raw].
  destruct (wmw_close_log (wm_b_raw (wm_st_base pre))) as [Lc _]. rewrite Lc, Hlog.
  change (WmWrite 0 ?b :: ext ++ ?l) with ((WmWrite 0 b :: ext) ++ l).
  apply lk_chunks_app.
Qed.

(* ================================================================ the END chunk is found *)
Lemma lk_end_found : forall f cs s, e2_wf_file f cs -> rf_len f < rp_two63 -> e2_rdr s f ->
  exists s', rp_rd_chunk_end s = (s', 0) /\ e2_rdr s' f /\ fm_tag (wm_ck_hdr (rp_cur s')) = JLS_TAG_END.
Proof.
  intros f cs s (Hhdr & H64 & Hlt64 & Hlay & Hok & (cs0 & Hend)) H63 (Rf & Rl & Re).
  assert (Hin : In {| rc_off := rf_len f - 32; rc_tag := JLS_TAG_END; rc_meta := 0; rc_pay := [] |} cs)
    by (rewrite Hend; apply in_or_app; right; left; reflexivity).
  rewrite Forall_forall in Hok. destruct (Hok _ Hin) as (h & p & Hat & Ht & _ & Hl & _).
  cbn [rc_off rc_tag rc_pay] in *. destruct Hat as (Hd & Hpl & _).
  destruct (e2_fields_of_decode f (rf_len f - 32) h Hd) as (Hb32 & Hcomp & Hcrc & Hfld).
  assert (Hsk : rp_skip (rp_len f - 32) f = fm_sub (rf_len f - 32) 32 f).
  { rewrite rr_skip_eq. unfold fm_sub. change (rp_len f) with (rf_len f). symmetry. apply firstn_all2.
    rewrite skipn_length. unfold rf_len in *. lia. }
  assert (Hm8 : rp_len f mod 8 = 0) by (change (rp_len f) with (rf_len f); eapply lk_layout_mod8; [exact Hlay|reflexivity]).
  assert (P1 : 64 <= rp_len f) by exact H64.
  assert (P2 : rp_len f < rp_two63) by exact H63.
  assert (P3 : fm_ch_crc_ok (rp_skip (rp_len f - 32) f) = true) by (rewrite Hsk; exact Hcrc).
  assert (P4 : fm_tag (fm_ch_fields (rp_skip (rp_len f - 32) f)) = JLS_TAG_END) by (rewrite Hsk, Hfld; exact Ht).
  assert (P5 : fm_payload_length (fm_ch_fields (rp_skip (rp_len f - 32) f)) = 0) by (rewrite Hsk, Hfld, <- Hpl, Hl; reflexivity).
  destruct (rpp_rd_chunk_end_closed s f Rf Rl Re P1 P2 Hm8 P3 P4 P5) as (s' & E & T).
  exists s'. split; [exact E|]. split; [|exact T].
  pose proof (rpp_rd_chunk_end_frame s) as (F1 & F2 & F3). rewrite E in F1, F2, F3. cbn [fst] in *.
  unfold e2_rdr. rewrite F1, F2, F3. repeat split; assumption.
Qed.

(* a chunk of a definition list, as the reader needs it *)
Lemma lk_ok_of : forall f cs c t, Forall (e2_chunk_ok f) cs -> In c cs -> lk_key (rc_tag c) <> 0 ->
  fm_disk_len (rf_len (rc_pay c)) <= JLS_BUF_DEFAULT_SIZE -> rf_len f < rp_two63 -> lk_ck_of f t c ->
  lk_ck_ok f t /\ rf_len (lk_ck_pay t) = rf_len (rc_pay c).
Proof.
  intros f cs c t Hok Hin Hk Hbig H63 (Ho & Hat & Ht & Hm).
  rewrite Forall_forall in Hok. destruct (Hok _ Hin) as (h & p & Hat' & _ & _ & Hl & _).
  destruct (lk_chunk_at_inj _ _ _ _ _ _ Hat Hat') as [_ Ep].
  assert (El : rf_len (lk_ck_pay t) = rf_len (rc_pay c)) by (rewrite Ep; exact Hl).
  split; [|exact El]. unfold lk_ck_ok. rewrite Ho. split; [exact Hat|]. split; [apply lk_key_nz; rewrite Ht; exact Hk|].
  split; [rewrite El; exact Hbig|]. destruct Hat as (_ & _ & _ & _ & _ & Hsz).
  pose proof (rf_chunk_size_pos (rf_len (lk_ck_pay t))). lia.
Qed.

Lemma lk_pay_of : forall f cs c t, Forall (e2_chunk_ok f) cs -> In c cs -> fm_is_head_tag (rc_tag c) = false -> lk_ck_of f t c ->
  lk_ck_pay t = rc_pay c.
Proof.
  intros f cs c t Hok Hin Hh (Ho & Hat & _). rewrite Forall_forall in Hok. destruct (Hok _ Hin) as (h & p & Hat' & _ & _ & _ & Hp).
  destruct (lk_chunk_at_inj _ _ _ _ _ _ Hat Hat') as [_ Ep]. rewrite Ep. apply Hp. exact Hh.
Qed.

Lemma lk_F2_ok : forall f cs l L, Forall (e2_chunk_ok f) cs -> rf_len f < rp_two63 -> Forall2 (lk_ck_of f) L l ->
  (forall c, In c l -> In c cs /\ lk_key (rc_tag c) <> 0 /\ fm_disk_len (rf_len (rc_pay c)) <= JLS_BUF_DEFAULT_SIZE) ->
  Forall (lk_ck_ok f) L.
Proof.
  intros f cs l L Hok H63 F. induction F as [|t c L l Htc F IH]; intro Hall; [constructor|].
  destruct (Hall c (or_introl eq_refl)) as (A & B & C). constructor.
  - apply (lk_ok_of f cs c t Hok A B C H63 Htc).
  - apply IH. intros c' Hc'. apply Hall. right. exact Hc'.
Qed.

Lemma lk_key1 : forall tag, lk_key tag = 1 -> tag = JLS_TAG_SOURCE_DEF.
Proof.
  intros tag H. unfold lk_key in H. destruct (N.eqb_spec tag JLS_TAG_SOURCE_DEF) as [E|_]; [exact E|].
  destruct (tag =? JLS_TAG_USER_DATA); [discriminate|]. destruct (_ || _); discriminate.
Qed.

Lemma lk_F2_parse : forall f cs l L, Forall (e2_chunk_ok f) cs -> Forall2 (lk_ck_of f) L l ->
  (forall c, In c l -> In c cs /\ fm_is_head_tag (rc_tag c) = false /\
                      (JLS_SOURCE_COUNT <= rc_meta c \/ rp_source_parse (rc_pay c) = 0)) ->
  Forall (fun t => JLS_SOURCE_COUNT <= fm_chunk_meta (lk_ck_hdr t) \/ rp_source_parse (lk_ck_pay t) = 0) L.
Proof.
  intros f cs l L Hok F. induction F as [|t c L l Htc F IH]; intro Hall; [constructor|].
  destruct (Hall c (or_introl eq_refl)) as (A & B & C). constructor.
  - rewrite (lk_pay_of f cs c t Hok A B Htc). destruct Htc as (_ & _ & _ & Hm). rewrite Hm. exact C.
  - apply IH. intros c' Hc'. apply Hall. right. exact Hc'.
Qed.

Lemma lk_F2_length : forall (A B : Type) (R : A -> B -> Prop) l1 l2, Forall2 R l1 l2 -> length l1 = length l2.
Proof. intros A B R l1 l2 H. induction H; cbn [length]; congruence. Qed.

Lemma lk_filter_len : forall (A : Type) (g : A -> bool) l, (length (filter g l) <= length l)%nat.
Proof. intros A g l. induction l as [|a l IH]; cbn [filter length]; [lia|]. destruct (g a); cbn [length]; lia. Qed.

(* ================================================================ the scan phase of jls_rd_open, every program *)
Theorem lk_scan_file : forall summ1 summN p,
  let st := fst (wm_run_full summ1 summN p) in
  wm_st_fault st = false -> wmw_bounded (wm_st_log st) ->
  let f := e2_file summ1 summN p in
  let cs := rf_chunks (wm_st_log st) in
  rf_len f < rp_two63 ->
  e2t_bigb (filter (fun c => negb (lk_key (rc_tag c) =? 0)) cs) = true ->
  forallb (fun c => (JLS_SOURCE_COUNT <=? rc_meta c) || (rp_source_parse (rc_pay c) =? 0))
          (filter (fun c => lk_key (rc_tag c) =? 1) cs) = true ->
  exists c L2, rp_scan f = inr c /\ e2_rdr (rp_io_ c) f /\ fm_tag (wm_ck_hdr (rp_cur (rp_io_ c))) = JLS_TAG_END /\
     Forall2 (lk_ck_of f) L2 (filter (fun c => lk_key (rc_tag c) =? 2) cs) /\ Forall (lk_ck_ok f) L2 /\
     rp_sigs c = fold_left lk_sigs_step L2 (map rp_sig0 rp_signal_ids).
Proof.
  intros summ1 summN p st Hf Hb f cs H63 Hbig Hparse.
  destruct (e2_model_file summ1 summN p Hf Hb) as (Hwf & _ & _). fold st in Hwf. fold f in Hwf. fold cs in Hwf.
  pose proof Hwf as (Hhdr & H64 & Hlt64 & Hlay & Hok & Hend).
  destruct (lk_run_chunks_prefix summ1 summN p) as (rest & Hpre). fold st in Hpre. fold cs in Hpre.
  destruct lk_open_cs_facts as (c1 & c2 & c3 & r & Eo & O1 & T1 & T2 & T3 & F1 & (r2 & F2)).
  pose proof (lk_file_links summ1 summN p Hf Hb) as HK. cbv zeta in HK. fold st in HK. fold f in HK. fold cs in HK.
  destruct (lk_build f _ (HK 1 (or_introl eq_refl))) as (L1 & FL1 & KL1).
  destruct (lk_build f _ (HK 2 (or_intror (or_introl eq_refl)))) as (L2 & FL2 & KL2).
  pose proof (e2t_bigb_sound _ Hbig) as HB. rewrite Forall_forall in HB.
  assert (Hdef : forall c, In c cs -> lk_key (rc_tag c) <> 0 -> fm_disk_len (rf_len (rc_pay c)) <= JLS_BUF_DEFAULT_SIZE).
  { intros c Hc Hk. apply HB. apply filter_In. split; [exact Hc|]. apply negb_true_iff. apply N.eqb_neq. exact Hk. }
  assert (Hmem : forall k c, k <> 0 -> In c (filter (fun c => lk_key (rc_tag c) =? k) cs) ->
            In c cs /\ lk_key (rc_tag c) <> 0 /\ fm_disk_len (rf_len (rc_pay c)) <= JLS_BUF_DEFAULT_SIZE).
  { intros k c Hk0 Hc. apply filter_In in Hc. destruct Hc as [Hc Ek]. apply N.eqb_eq in Ek.
    split; [exact Hc|]. split; [congruence|]. apply Hdef; [exact Hc|congruence]. }
  pose proof (lk_F2_ok f cs _ L1 Hok H63 FL1 (fun c Hc => Hmem 1 c ltac:(discriminate) Hc)) as OK1.
  pose proof (lk_F2_ok f cs _ L2 Hok H63 FL2 (fun c Hc => Hmem 2 c ltac:(discriminate) Hc)) as OK2.
  (* the source chunks parse *)
  assert (PAR1 : Forall (fun t => JLS_SOURCE_COUNT <= fm_chunk_meta (lk_ck_hdr t) \/ rp_source_parse (lk_ck_pay t) = 0) L1).
  { apply (lk_F2_parse f cs _ L1 Hok FL1). intros c Hc.
    rewrite forallb_forall in Hparse. pose proof (Hparse c Hc) as Hp. apply filter_In in Hc. destruct Hc as [Hc Ek]. apply N.eqb_eq in Ek.
    split; [exact Hc|]. split; [rewrite (lk_key1 _ Ek); reflexivity|].
    apply orb_true_iff in Hp. destruct Hp as [Hp|Hp]; [left; apply N.leb_le; exact Hp|right; apply N.eqb_eq; exact Hp]. }
  (* shape of the two lists: they start with the chunks of jls_wr_open *)
  assert (Efl1 : filter (fun c => lk_key (rc_tag c) =? 1) cs = c2 :: filter (fun c => lk_key (rc_tag c) =? 1) rest)
    by (rewrite Hpre, filter_app, F1; reflexivity).
  assert (Efl2 : filter (fun c => lk_key (rc_tag c) =? 2) cs = c3 :: (r2 ++ filter (fun c => lk_key (rc_tag c) =? 2) rest))
    by (rewrite Hpre, filter_app, F2; reflexivity).
  assert (Hlen1 : (length L1 <= length cs)%nat).
  { rewrite (lk_F2_length _ _ _ _ _ FL1). apply lk_filter_len. }
  assert (Hlen2 : (length L2 <= length cs)%nat).
  { rewrite (lk_F2_length _ _ _ _ _ FL2). apply lk_filter_len. }
  assert (FL2' := FL2).
  rewrite Efl1 in FL1. rewrite Efl2 in FL2'.
  destruct L1 as [|ts L1r]; [inversion FL1|]. destruct L2 as [|tg L2r]; [inversion FL2'|].
  assert (Hts : lk_ck_of f ts c2) by (inversion FL1; assumption).
  assert (Htg : lk_ck_of f tg c3) by (inversion FL2'; assumption).
  (* the first chunk *)
  assert (Hc1 : In c1 cs) by (rewrite Hpre, Eo; left; reflexivity).
  assert (Hc2 : In c2 cs) by (rewrite Hpre, Eo; right; left; reflexivity).
  assert (Hok' := Hok). rewrite Forall_forall in Hok'. destruct (Hok' _ Hc1) as (h1 & p1 & Hat1 & Ht1 & Hm1 & Hl1 & _).
  set (t1 := (rc_off c1, h1, p1) : lk_ck).
  assert (Ht1of : lk_ck_of f t1 c1) by (unfold lk_ck_of, t1, lk_ck_off, lk_ck_hdr, lk_ck_pay; cbn [fst snd]; auto).
  assert (Hk1 : lk_key (rc_tag c1) <> 0) by (rewrite T1; discriminate).
  destruct (lk_ok_of f cs c1 t1 Hok Hc1 Hk1 (Hdef c1 Hc1 Hk1) H63 Ht1of) as [K1ok Hl1'].
  assert (Hk2 : lk_key (rc_tag c2) <> 0) by (rewrite T2; discriminate).
  destruct (lk_ok_of f cs c2 ts Hok Hc2 Hk2 (Hdef c2 Hc2 Hk2) H63 Hts) as [_ Hl2'].
  inversion OK1 as [|? ? Ksrc _]; subst. inversion OK2 as [|? ? Ksig _]; subst.
  (* layout of the first three chunks *)
  assert (Hlay' := Hlay). rewrite Hpre, Eo in Hlay'. cbn [app] in Hlay'.
  inversion Hlay' as [|? ? ? ? A1 Hlay2]. inversion Hlay2 as [|? ? ? ? A2 Hlay3]. inversion Hlay3 as [|? ? ? ? A3 _].
  assert (Off2 : lk_ck_off ts = lk_ck_off t1 + fm_chunk_size (rf_len (lk_ck_pay t1))).
  { destruct Hts as (-> & _). destruct Ht1of as (-> & _). rewrite Hl1'. congruence. }
  assert (Off3 : lk_ck_off tg = lk_ck_off ts + fm_chunk_size (rf_len (lk_ck_pay ts))).
  { destruct Htg as (-> & _). rewrite Hl2'. destruct Hts as (-> & _). congruence. }
  (* run *)
  destruct (lk_raw_open f Hhdr ltac:(lia) Hlt64) as (s1 & Eraw & Hpos1 & _).
  assert (Hfuel : (3 < rp_chunk_fuel (rp_io_ (rp_rd0 s1)))%nat).
  { unfold rp_chunk_fuel. cbn [rp_rd0 rp_io_]. destruct Hpos1 as (_ & Hfl & _). rewrite Hfl.
    change (rp_len f) with (rf_len f). change SIZEOF_chunk_header with 32. lia. }
  assert (Hpos1' : e2_pos (rp_io_ (rp_rd0 s1)) f (lk_ck_off t1)).
  { cbn [rp_rd0 rp_io_]. destruct Ht1of as (-> & _). rewrite O1. exact Hpos1. }
  destruct (lk_scan_initial_loop f _ (rp_rd0 s1) t1 ts tg K1ok Ksrc Ksig
              ltac:(destruct Ht1of as (_ & _ & -> & _); exact T1) ltac:(destruct Hts as (_ & _ & -> & _); exact T2)
              ltac:(destruct Htg as (_ & _ & -> & _); exact T3) Off2 Off3 Hfuel Hpos1' eq_refl eq_refl eq_refl)
    as (ci & Ei & Ri & _ & Si & Ui & Srci & Sigi).
  assert (E_init : rp_scan_initial (rp_rd0 s1) = (ci, 0)) by exact Ei.
  (* sources *)
  assert (Hcslen : (length cs < length f)%nat).
  { pose proof (lk_layout_len _ _ _ Hlay). unfold rf_len in *. lia. }
  destruct (e2_seek (rp_io_ ci) f (lk_ck_off ts) Ri (lk_ck_off_pos f ts Ksrc) ltac:(apply Ksrc)) as (sk & Esk & Hposk & _).
  assert (Hfk : rp_file sk = f) by apply Hposk.
  destruct (lk_scan_sources_loop f L1r (rp_chain_fuel sk) sk ts OK1 KL1 PAR1
              ltac:(unfold rp_chain_fuel; rewrite Hfk; cbn [length] in Hlen1; lia) Hposk) as (s2 & E2 & R2 & _).
  assert (E_src : rp_scan_sources ci = (rp_rd_set_io ci s2, 0)).
  { unfold rp_scan_sources. rewrite Srci. cbn [wm_ck_offset]. rewrite Esk. cbn [N.eqb negb]. rewrite E2. reflexivity. }
  (* signals *)
  destruct (e2_seek s2 f (lk_ck_off tg) R2 (lk_ck_off_pos f tg Ksig) ltac:(apply Ksig)) as (sk2 & Esk2 & Hposk2 & _).
  assert (Hfk2 : rp_file sk2 = f) by apply Hposk2.
  destruct (lk_scan_signals_loop f L2r (rp_chain_fuel sk2) (rp_rd_set_io (rp_rd_set_io ci s2) sk2) tg OK2 KL2
              ltac:(unfold rp_chain_fuel; rewrite Hfk2; cbn [length] in Hlen2; lia) Hposk2)
    as (c3' & E3 & R3 & _ & S3 & _).
  assert (E_sig : rp_scan_signals (rp_rd_set_io ci s2) = (c3', 0)).
  { unfold rp_scan_signals. cbn [rp_rd_set_io rp_io_ rp_sig_head]. rewrite Sigi. cbn [wm_ck_offset]. rewrite Esk2. cbn [N.eqb negb].
    exact E3. }
  (* END *)
  destruct (lk_end_found f cs (rp_io_ c3') Hwf H63 R3) as (s4 & E4 & R4 & T4).
  exists (rp_rd_set_io c3' s4), (tg :: L2r).
  split.
  { unfold rp_scan. rewrite Eraw. cbn [N.eqb negb andb]. rewrite E_init. cbn [N.eqb negb]. rewrite E_src. cbn [N.eqb negb].
    rewrite E_sig. cbn [N.eqb negb]. rewrite E4. cbn [N.eqb negb]. reflexivity. }
  cbn [rp_rd_set_io rp_io_ rp_sigs]. split; [exact R4|]. split; [exact T4|]. split; [exact FL2|]. split; [exact OK2|].
  rewrite S3. cbn [rp_rd_set_io rp_sigs]. rewrite Si. reflexivity.
Qed.

(* ================================================================ the same with the list read off the file *)
(* header and payload standing in the file at the offset of a chunk of the chunk view *)
Definition lk_rl1 (f : list N) (c : rf_chunk) : lk_ck :=
  let h := fm_ch_fields (fm_sub (rc_off c) 32 f) in (rc_off c, h, fm_sub (rc_off c + 32) (fm_payload_length h) f).

Lemma lk_rl1_of : forall f t c, lk_ck_of f t c -> t = lk_rl1 f c.
Proof.
  intros f [[o h] p] c (Ho & (Hd & Hl & Hs & _) & _). unfold lk_ck_off, lk_ck_hdr, lk_ck_pay in *. cbn [fst snd] in *. subst o.
  destruct (e2_fields_of_decode f (rc_off c) h Hd) as (_ & _ & _ & Hf). unfold lk_rl1. cbv zeta. rewrite Hf, <- Hl, Hs. reflexivity.
Qed.
Lemma lk_F2_rl : forall f L l, Forall2 (lk_ck_of f) L l -> L = map (lk_rl1 f) l.
Proof. intros f L l H. induction H as [|t c L l Htc F IH]; [reflexivity|]. cbn [map]. rewrite <- IH, <- (lk_rl1_of f t c Htc). reflexivity. Qed.

Theorem lk_scan_file_det : forall summ1 summN p,
  let st := fst (wm_run_full summ1 summN p) in
  wm_st_fault st = false -> wmw_bounded (wm_st_log st) ->
  let f := e2_file summ1 summN p in
  let cs := rf_chunks (wm_st_log st) in
  rf_len f < rp_two63 ->
  e2t_bigb (filter (fun c => negb (lk_key (rc_tag c) =? 0)) cs) = true ->
  forallb (fun c => (JLS_SOURCE_COUNT <=? rc_meta c) || (rp_source_parse (rc_pay c) =? 0))
          (filter (fun c => lk_key (rc_tag c) =? 1) cs) = true ->
  let R2 := map (lk_rl1 f) (filter (fun c => lk_key (rc_tag c) =? 2) cs) in
  exists c, rp_scan f = inr c /\ e2_rdr (rp_io_ c) f /\ fm_tag (wm_ck_hdr (rp_cur (rp_io_ c))) = JLS_TAG_END /\
     Forall2 (lk_ck_of f) R2 (filter (fun c => lk_key (rc_tag c) =? 2) cs) /\ Forall (lk_ck_ok f) R2 /\
     rp_sigs c = fold_left lk_sigs_step R2 (map rp_sig0 rp_signal_ids).
Proof.
  intros summ1 summN p st Hf Hb f cs H63 Hbig Hparse R2.
  destruct (lk_scan_file summ1 summN p Hf Hb H63 Hbig Hparse) as (c & L2 & A & B & C & D & E & F).
  fold st in D, F. fold f in A, B, D, E. fold cs in D.
  assert (EL : L2 = R2) by (apply lk_F2_rl; exact D). subst L2. exists c. auto 10.
Qed.
