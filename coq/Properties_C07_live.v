(* C07, progress / liveness of the threaded writer, repaired protocol (fx = true: jls_twr_close repeats
   msg_send(CLOSE) until the message is queued).  Same model and quantification as Properties_C07.v
   (TwrModel.v / TwrProofs.v); proofs in TwrLive.v.
   What is proved: POSSIBILITY of termination from every reachable state (AG EF final): for every capacity
   >= 48, every number of producers, every well-formed program set and every state s that any schedule can
   reach, there is a continuation schedule (thread steps and advances of virtual time) after which every
   thread has finished.  No reachable state is doomed.  C07_no_deadlock (some thread can run or sleeps) is
   strengthened to "some finite sequence of decisions finishes the run".
   What is NOT proved: termination under every FAIR schedule (AF final under fairness).  The witness
   schedule is chosen by the proof: polling producers are let time out (send retry: 5000 ms, flush poll:
   20000 ms), the consumer drains the queue before producer 0 allocates the CLOSE message. *)
From Coq Require Import NArith List Bool.
From JLS Require Import MrbModel TwrModel TwrProofs TwrLive.
Import ListNotations.
Local Open Scope N_scope.

(* can_always_finish: from every reachable state s of the repaired protocol there is a schedule `sched`
   (list of decisions TwDStep t = thread t takes its next step, TwDTick d = d ms pass; tw_run returns None
   if a decision names a thread that cannot step) whose run from s ends in a state in which all producers
   are at TwPDone and the consumer (jls_twr_run) has returned.  Premises as for C07_no_deadlock. *)
Theorem C07_can_always_finish :
  forall (cap : N) (progs : list (list tw_call)) (s : tw_state),
  tw_wf cap progs -> tw_wf_close progs -> tw_wf_live progs -> tw_reach true cap progs s ->
  exists (sched : list tw_dec) (s' : tw_state), tw_run true s sched = Some s' /\ tw_final s' = true.
Proof. exact tw_can_always_finish. Qed.
Print Assumptions C07_can_always_finish.

(* can_always_close: the same, with what the final state looks like: it is reachable, jls_wr_close has been
   called (TwAEnd applied: so C07_close_post applies to s': close is the last writer operation and the queue is
   empty), the messages handed to the writer are exactly the accepted messages in acceptance order, and every
   message that was accepted in s is still accepted in s' (nothing accepted is lost on the way): every
   accepted message can still be applied and the file closed from every reachable state. *)
Theorem C07_can_always_close :
  forall (cap : N) (progs : list (list tw_call)) (s : tw_state),
  tw_wf cap progs -> tw_wf_close progs -> tw_wf_live progs -> tw_reach true cap progs s ->
  exists (sched : list tw_dec) (s' : tw_state),
    tw_run true s sched = Some s' /\ tw_reach true cap progs s' /\ tw_final s' = true /\
    In TwAEnd (tw_applied s') /\ tw_processed s' = tw_acc_msgs s' /\
    (forall e, In e (tw_accepted s) -> In e (tw_accepted s')).
Proof. exact tw_can_always_close. Qed.
Print Assumptions C07_can_always_close.

(* consumer_runs (component of the proof, both protocol variants): the consumer alone cannot run forever.
   From every reachable state, n consecutive steps of the consumer thread (for some n) lead to a state in which
   the consumer cannot step (it has ended, waits for the event, or waits for a mutex held by a producer);
   the producers are untouched.  Measure: unprocessed messages, event flag, control location (tw_cm). *)
Theorem C07_consumer_runs :
  forall (fx : bool) (cap : N) (progs : list (list tw_call)) (s : tw_state),
  tw_wf cap progs -> tw_reach fx cap progs s ->
  exists (n : nat) (s' : tw_state),
    tw_run fx s (repeat (TwDStep TwTCons) n) = Some s' /\ tw_step fx s' TwTCons = None /\
    tw_prods s' = tw_prods s /\ tw_reach fx cap progs s'.
Proof. exact tw_consumer_runs_reach. Qed.
Print Assumptions C07_consumer_runs.

(* the premises are satisfiable: the example program set tw_ex_prog (two producers, capacity 128) is well
   formed in all three senses and has a reachable state that is not final (the initial one) *)
Example C07_can_always_finish_hyps :
  tw_wf 128 tw_ex_prog /\ tw_wf_close tw_ex_prog /\ tw_wf_live tw_ex_prog /\
  exists s : tw_state, tw_reach true 128 tw_ex_prog s /\ tw_final s = false.
Proof. exact tw_ex_live_hyps. Qed.
Print Assumptions C07_can_always_finish_hyps.
