(* C05: files conform to the published format; an independent decoder agrees.
   The decoder (Format.v, Decode.v) is written from include/jls/format.h only.  Here: the
   encoders/decoders of the format are mutually inverse, framing preserves 8-byte alignment,
   and the walker is a *verified checker*: whenever dw_walk answers Ok on the bytes of a file,
   the structural conformance facts below hold of those bytes (w.r.t. the bit-serial CRC-32C
   crc_spec), and it answers (never runs out of fuel) on every byte list.  The extracted
   walker is run on every file the implementation produces (tools/props/C05_walk.py).
   Proofs are in FormatProofs.v and DecodeProofs.v.
   Not covered by a theorem (checked at run time by dw_walk only): payload length formulas of DATA/SUMMARY
   chunks, entry sizes of DATA/SUMMARY chunks, the annotation/UTC DATA layouts, and that the rebuilt content
   record is the content of the chunks (it is a plain projection of the validated chunks: dw_sig_of). *)
From Coq Require Import NArith ZArith List.
From JLS Require Import Generated CrcDefs CrcProofs Spec Format FormatProofs Decode DecodeProofs.
Import ListNotations.
Local Open Scope N_scope.

Theorem C05_u8_roundtrip : forall x, x < 256 -> fm_dec_u8 (fm_enc_u8 x) = x.
Proof. exact fm_u8_roundtrip. Qed.
Print Assumptions C05_u8_roundtrip.

Theorem C05_u16_roundtrip : forall x, x < 65536 -> fm_dec_u16 (fm_enc_u16 x) = x.
Proof. exact fm_u16_roundtrip. Qed.
Print Assumptions C05_u16_roundtrip.

Theorem C05_u32_roundtrip : forall x, x < 4294967296 -> fm_dec_u32 (fm_enc_u32 x) = x.
Proof. exact fm_u32_roundtrip. Qed.
Print Assumptions C05_u32_roundtrip.

Theorem C05_u64_roundtrip : forall x, x < 18446744073709551616 -> fm_dec_u64 (fm_enc_u64 x) = x.
Proof. exact fm_u64_roundtrip. Qed.
Print Assumptions C05_u64_roundtrip.

Theorem C05_i64_roundtrip : forall z, (- 9223372036854775808 <= z < 9223372036854775808)%Z -> fm_dec_i64 (fm_enc_i64 z) = z.
Proof. exact fm_i64_roundtrip. Qed.
Print Assumptions C05_i64_roundtrip.

Theorem C05_chunk_header_roundtrip : forall h,
  fm_item_next h < 18446744073709551616 /\ fm_item_prev h < 18446744073709551616 /\ fm_tag h < 256 /\ fm_rsv0 h < 256 /\
  fm_chunk_meta h < 65536 /\ fm_payload_length h < 4294967296 /\ fm_payload_prev_length h < 4294967296 ->
  fm_decode_chunk_header (fm_encode_chunk_header h) = Some h.
Proof. exact fm_chunk_header_roundtrip0. Qed.
Print Assumptions C05_chunk_header_roundtrip.

Theorem C05_file_header_roundtrip : forall h, fm_fh_length h < 18446744073709551616 -> fm_fh_version h < 4294967296 ->
  fm_decode_file_header (fm_encode_file_header h) = Some h.
Proof. exact fm_file_header_roundtrip0. Qed.
Print Assumptions C05_file_header_roundtrip.

Theorem C05_payload_header_roundtrip : forall h r,
  (- Z.of_N fm_two63 <= fm_ph_timestamp h < Z.of_N fm_two63)%Z /\ fm_ph_entry_count h < 4294967296 /\
  fm_ph_entry_size_bits h < 65536 /\ fm_ph_rsv16 h < 65536 ->
  fm_decode_payload_header (fm_encode_payload_header h ++ r) = Some h.
Proof. exact fm_payload_header_roundtrip. Qed.
Print Assumptions C05_payload_header_roundtrip.

(* payload framing, for all payloads (no hypothesis on the bytes) *)
Theorem C05_unframe_frame : forall p : list N, fm_unframe (N.of_nat (length p)) (fm_frame p) = Some p.
Proof. exact fm_unframe_frame. Qed.
Print Assumptions C05_unframe_frame.

Theorem C05_chunk_aligned : forall h (p : list N), (length (fm_encode_chunk_header h ++ fm_frame p) mod 8 = 0)%nat.
Proof. exact fm_chunk_aligned. Qed.
Print Assumptions C05_chunk_aligned.

Theorem C05_track_tag_roundtrip : forall tt ck, tt < 4 -> ck <= JLS_TRACK_CHUNK_SUMMARY ->
  fm_is_track_tag (fm_track_tag tt ck) = true /\ fm_tag_track_type (fm_track_tag tt ck) = tt /\
  fm_tag_chunk_kind (fm_track_tag tt ck) = ck /\ fm_track_tag tt ck < 256.
Proof. exact fm_track_tag_roundtrip. Qed.
Print Assumptions C05_track_tag_roundtrip.

Theorem C05_meta_roundtrip : forall s l, s < 256 -> l < 16 ->
  fm_meta_signal (fm_meta_track s l) = s /\ fm_meta_level (fm_meta_track s l) = l /\ fm_meta_rsv (fm_meta_track s l) = 0 /\
  fm_meta_track s l < 65536.
Proof. exact fm_meta_track_roundtrip. Qed.
Print Assumptions C05_meta_roundtrip.

(* the walker is sound: Ok implies conformance of the bytes.
   dw_chunk_at f c: c's offset is a multiple of 8, the 32 bytes there decode to c's header with a CRC field equal to
   crc_spec of the first 28, rsv0 = 0, the chunk lies inside the file, its payload bytes are c's payload, the pad
   bytes are zero and the 4 bytes after the pad are crc_spec of the payload (pad not covered).
   dw_tiles 32 l (length f): the chunks follow each other without gap or overlap from 32 to the end of the file.
   dw_links_ok: item_next / item_prev lead to chunks of the same list identity at a larger / smaller offset that point back.
   dw_heads_unique: at most one chunk per list has item_prev = 0.  dw_index_summary_ok: INDEX is followed by its SUMMARY. *)
Theorem C05_walk_sound : forall f w, bytes_ok f -> dw_walk f = DwOk w ->
  (exists fh, fm_decode_file_header f = Some fh /\ fm_fh_length fh = N.of_nat (length f) /\
              fm_version_major (fm_fh_version fh) = fm_version_major JLS_FORMAT_VERSION_U32) /\
  fm_u32_at OFFSETOF_file_header_crc32 f = crc_spec (firstn 28 f) /\
  dw_tiles 32 (dw_w_chunks w) (N.of_nat (length f)) /\
  Forall (dw_chunk_at f) (dw_w_chunks w) /\
  (exists pre c, dw_w_chunks w = pre ++ [c] /\ fm_tag (dw_hdr c) = JLS_TAG_END /\
                 Forall (fun c => fm_tag (dw_hdr c) <> JLS_TAG_END) pre) /\
  dw_ppl_ok 0 (dw_w_chunks w) /\
  Forall (dw_links_ok (dw_w_chunks w)) (dw_w_chunks w) /\
  dw_heads_unique (dw_w_chunks w) /\
  dw_index_summary_ok (dw_w_chunks w).
Proof. exact dw_walk_sound_explicit. Qed.
Print Assumptions C05_walk_sound.

(* the reporting variant: everything but payload_prev_length, whose mismatches are listed exactly *)
Theorem C05_walk_report_sound : forall f w, bytes_ok f -> dw_walk_report f = DwOk w ->
  (exists fh, fm_decode_file_header f = Some fh /\ fm_fh_length fh = N.of_nat (length f) /\
              fm_version_major (fm_fh_version fh) = fm_version_major JLS_FORMAT_VERSION_U32) /\
  fm_u32_at OFFSETOF_file_header_crc32 f = crc_spec (firstn 28 f) /\
  dw_tiles 32 (dw_w_chunks w) (N.of_nat (length f)) /\
  Forall (dw_chunk_at f) (dw_w_chunks w) /\
  (exists pre c, dw_w_chunks w = pre ++ [c] /\ fm_tag (dw_hdr c) = JLS_TAG_END /\
                 Forall (fun c => fm_tag (dw_hdr c) <> JLS_TAG_END) pre) /\
  dw_w_ppl w = dw_ppl_mismatches 0 true (dw_w_chunks w) /\
  (dw_w_ppl w = [] -> dw_ppl_ok 0 (dw_w_chunks w)) /\
  Forall (dw_links_ok (dw_w_chunks w)) (dw_w_chunks w) /\
  dw_heads_unique (dw_w_chunks w) /\
  dw_index_summary_ok (dw_w_chunks w).
Proof. exact dw_walk_report_sound_explicit. Qed.
Print Assumptions C05_walk_report_sound.

(* pointers.  dw_track_ok l c, for a track chunk c (unfold it to read the statement): its signal is defined by an earlier
   SIGNAL_DEF chunk sc with decoded definition d; a DEF chunk has an empty payload; a HEAD chunk has a 128-byte payload whose
   16 u64 entries equal dw_find_head of (DATA list of the track) / (INDEX list of level L) (specified by C05_head_entry_spec);
   an INDEX chunk has a payload header ph with payload_length = 16 + entry_count * entry_size_bits / 8, and
     FSR: u64 entries; entry k is 0 (level 1 only: data omitted) or the offset of a chunk of the file which is an FSR DATA
          chunk of the signal (level 1) / an INDEX chunk of level - 1 (level > 1) whose payload-header timestamp equals
          ph.timestamp + k * step, step = dw_fsr_step d level (samples_per_data; samples_per_data * (entries_per_summary /
          (samples_per_data / sample_decimate_factor)); then * summary_decimate_factor per level);
     annotation / UTC: (timestamp, offset) entries; each offset is a chunk of the file of the expected list identity
          (DATA of that track and signal / INDEX of level - 1) whose payload-header timestamp equals the entry's timestamp. *)
Theorem C05_walk_sound_pointers : forall f w, dw_walk f = DwOk w -> Forall (dw_track_ok (dw_w_chunks w)) (dw_w_chunks w).
Proof. exact dw_walk_sound_pointers. Qed.
Print Assumptions C05_walk_sound_pointers.

Theorem C05_walk_report_sound_pointers : forall f w, dw_walk_report f = DwOk w -> Forall (dw_track_ok (dw_w_chunks w)) (dw_w_chunks w).
Proof. exact dw_walk_report_sound_pointers. Qed.
Print Assumptions C05_walk_report_sound_pointers.

(* a head-table value: the first chunk (item_prev = 0) of the list, or 0 exactly when the list has no first chunk *)
Theorem C05_head_entry_spec : forall strict f w k, bytes_ok f -> dw_walk_gen strict f = DwOk w -> k <> DwK_end ->
  let l := dw_w_chunks w in
  let e := dw_find_head k (dw_heads l) in
  (e <> 0 -> exists c, In c l /\ dw_off c = e /\ dw_key_of (dw_hdr c) = inr k /\ fm_item_prev (dw_hdr c) = 0) /\
  (e = 0 -> forall c, In c l -> dw_key_of (dw_hdr c) = inr k -> fm_item_prev (dw_hdr c) <> 0).
Proof. exact dw_walk_find_head_spec. Qed.
Print Assumptions C05_head_entry_spec.

(* termination by structure: fuel = number of bytes is never exhausted *)
Theorem C05_walk_total : forall f, (exists w, dw_walk f = DwOk w) \/ (exists e o, dw_walk f = DwErr e o /\ e <> DwE_fuel).
Proof. exact dw_walk_total. Qed.
Print Assumptions C05_walk_total.

(* non-vacuity: a concrete file built with the encoders (file header, USER_DATA, SOURCE_DEF with payload, END) walks Ok *)
Example C05_example_walk_ok :
  match dw_walk dw_ex_file with
  | DwOk w => map (fun c => (dw_off c, fm_tag (dw_hdr c))) (dw_w_chunks w) = [(32, JLS_TAG_USER_DATA); (64, JLS_TAG_SOURCE_DEF); (184, JLS_TAG_END)]
              /\ map so_id (dw_c_sources (dw_w_content w)) = [7]
              /\ map (fun s => str_read (so_name s)) (dw_c_sources (dw_w_content w)) = [[115; 114; 99]]
              /\ dw_w_ppl w = []
  | DwErr _ _ => False
  end.
Proof. exact dw_example_walk_ok. Qed.
Print Assumptions C05_example_walk_ok.

Example C05_example_bytes_ok : bytes_ok dw_ex_file.
Proof. exact dw_example_bytes_ok. Qed.
Print Assumptions C05_example_bytes_ok.
