(* Proofs about the rational model of the FSR summaries and of jls_rd_fsr_statistics (SummQ.v). *)
From Coq Require Import NArith ZArith QArith Qreduction Qround Qminmax Qfield Lqa Lia List Bool Setoid Morphisms.
From Coq Require Import ZifyBool ZifyN ZifyNat.
From JLS Require Import StatsQ StatsQProofs SummQ.
Import ListNotations.
Local Open Scope Q_scope.

(* ================================================================== *)
(* 1. lists: sq_take, sq_chunks, sq_rng                                *)
Section Chunks.
  Context {A : Type}.

  Lemma sq_take_app n (a b : list A) : length a = n -> sq_take n (a ++ b) = Some (a, b).
  Proof.
    revert a. induction n as [|n IH]; intros a Ha.
    - destruct a; [reflexivity | discriminate].
    - destruct a as [|x a]; [discriminate|]. cbn [app sq_take]. rewrite IH by (cbn in Ha; lia). reflexivity.
  Qed.
  Lemma sq_take_some n (l a b : list A) : sq_take n l = Some (a, b) -> l = a ++ b /\ length a = n.
  Proof.
    revert l a b. induction n as [|n IH]; intros l a b H.
    - cbn in H. inversion H; subst. split; reflexivity.
    - destruct l as [|x l]; [discriminate|]. cbn [sq_take] in H.
      destruct (sq_take n l) as [[a' b']|] eqn:E; [|discriminate]. inversion H; subst.
      destruct (IH _ _ _ E) as [-> <-]. split; reflexivity.
  Qed.
  Lemma sq_take_none n (l : list A) : sq_take n l = None -> (length l < n)%nat.
  Proof.
    revert l. induction n as [|n IH]; intros l H; [discriminate|].
    destruct l as [|x l]; [cbn; lia|]. cbn [sq_take] in H.
    destruct (sq_take n l) as [[a' b']|] eqn:E; [discriminate|]. apply IH in E. cbn; lia.
  Qed.
  Lemma sq_take_short n (l : list A) : (length l < n)%nat -> sq_take n l = None.
  Proof.
    intros H. destruct (sq_take n l) as [[a b]|] eqn:E; [|reflexivity].
    apply sq_take_some in E. destruct E as [-> E]. rewrite app_length in H. lia.
  Qed.
  Lemma sq_take_firstn n (l : list A) : (n <= length l)%nat -> sq_take n l = Some (firstn n l, skipn n l).
  Proof.
    intros H. rewrite <- (firstn_skipn n l) at 1. apply sq_take_app. rewrite firstn_length. lia.
  Qed.

  Lemma sq_chunks_f_irrel n : (0 < n)%nat -> forall f1 f2 (l : list A),
    (length l <= f1)%nat -> (length l <= f2)%nat -> sq_chunks_f f1 n l = sq_chunks_f f2 n l.
  Proof.
    intros Hn. induction f1 as [|f1 IH]; intros f2 l H1 H2.
    - destruct l; [|cbn in H1; lia]. destruct f2; [reflexivity|]. cbn [sq_chunks_f].
      rewrite sq_take_short by (cbn; lia). reflexivity.
    - destruct f2 as [|f2].
      + destruct l; [|cbn in H2; lia]. cbn [sq_chunks_f]. rewrite sq_take_short by (cbn; lia). reflexivity.
      + cbn [sq_chunks_f]. destruct (sq_take n l) as [[a b]|] eqn:E; [|reflexivity].
        apply sq_take_some in E. destruct E as [-> Ha]. rewrite app_length in H1, H2.
        f_equal. apply IH; lia.
  Qed.

  Lemma sq_chunks_short n (l : list A) : (length l < n)%nat -> sq_chunks n l = [].
  Proof.
    intros H. unfold sq_chunks. destruct n; [reflexivity|].
    destruct (length l) eqn:E; [reflexivity|]. cbn [sq_chunks_f]. rewrite sq_take_short by lia. reflexivity.
  Qed.
  Lemma sq_chunks_app n (a l : list A) : (0 < n)%nat -> length a = n -> sq_chunks n (a ++ l) = a :: sq_chunks n l.
  Proof.
    intros Hn Ha. unfold sq_chunks. destruct n as [|n']; [lia|].
    rewrite app_length, Ha. cbn [Nat.add sq_chunks_f]. rewrite sq_take_app by exact Ha.
    f_equal. apply sq_chunks_f_irrel; lia.
  Qed.

  (* induction along the chunks *)
  Lemma sq_chunks_ind n (Hn : (0 < n)%nat) (P : list A -> Prop) :
    (forall l, (length l < n)%nat -> P l) ->
    (forall a l, length a = n -> P l -> P (a ++ l)) ->
    forall l, P l.
  Proof.
    intros Hs Hc l. remember (length l) as k eqn:Hk. revert l Hk.
    induction k as [k IH] using lt_wf_ind. intros l Hk.
    destruct (Nat.lt_ge_cases (length l) n) as [Hlt|Hge]; [apply Hs, Hlt|].
    rewrite <- (firstn_skipn n l). apply Hc.
    - rewrite firstn_length. lia.
    - apply (IH (length (skipn n l))); [rewrite skipn_length; lia | reflexivity].
  Qed.

  Lemma sq_chunks_len_each n (l : list A) : (0 < n)%nat -> Forall (fun c => length c = n) (sq_chunks n l).
  Proof.
    intros Hn. induction l as [l Hl | a l Ha IH] using (sq_chunks_ind n Hn).
    - rewrite sq_chunks_short by exact Hl. constructor.
    - rewrite sq_chunks_app by assumption. constructor; assumption.
  Qed.
  Lemma sq_chunks_length n (l : list A) : (0 < n)%nat -> length (sq_chunks n l) = (length l / n)%nat.
  Proof.
    intros Hn. induction l as [l Hl | a l Ha IH] using (sq_chunks_ind n Hn).
    - rewrite sq_chunks_short by exact Hl. rewrite Nat.div_small by exact Hl. reflexivity.
    - rewrite sq_chunks_app by assumption. cbn [length]. rewrite IH, app_length, Ha.
      replace (n + length l)%nat with (length l + 1 * n)%nat by lia.
      rewrite Nat.div_add by lia. lia.
  Qed.
  Lemma sq_chunks_incl n (l : list A) : (0 < n)%nat -> forall c, In c (sq_chunks n l) -> incl c l.
  Proof.
    intros Hn. induction l as [l Hl | a l Ha IH] using (sq_chunks_ind n Hn); intros c Hc.
    - rewrite sq_chunks_short in Hc by exact Hl. destruct Hc.
    - rewrite sq_chunks_app in Hc by assumption. destruct Hc as [<-|Hc].
      + apply incl_appl, incl_refl.
      + apply incl_appr, IH, Hc.
  Qed.
  Lemma sq_chunks_app_mult n j (a l : list A) : (0 < n)%nat -> length a = (j * n)%nat ->
    sq_chunks n (a ++ l) = sq_chunks n a ++ sq_chunks n l.
  Proof.
    intros Hn. revert a. induction j as [|j IH]; intros a Ha.
    - destruct a; [|discriminate]. cbn [app]. rewrite (sq_chunks_short n []) by (cbn; lia). reflexivity.
    - rewrite <- (firstn_skipn n a), <- app_assoc.
      assert (H1 : length (firstn n a) = n) by (rewrite firstn_length; lia).
      rewrite (sq_chunks_app n (firstn n a) (skipn n a ++ l) Hn H1), (sq_chunks_app n (firstn n a) (skipn n a) Hn H1).
      cbn [app]. f_equal. apply IH. rewrite skipn_length. lia.
  Qed.
  Lemma sq_chunks_concat_exact n j (a : list A) : (0 < n)%nat -> length a = (j * n)%nat ->
    concat (sq_chunks n a) = a /\ length (sq_chunks n a) = j.
  Proof.
    intros Hn. revert a. induction j as [|j IH]; intros a Ha.
    - destruct a; [|discriminate]. rewrite sq_chunks_short by (cbn; lia). split; reflexivity.
    - rewrite <- (firstn_skipn n a).
      assert (H1 : length (firstn n a) = n) by (rewrite firstn_length; lia).
      rewrite sq_chunks_app by assumption. cbn [concat length].
      destruct (IH (skipn n a)) as [E1 E2]; [rewrite skipn_length; lia|]. rewrite E1, E2. split; reflexivity.
  Qed.

End Chunks.

(* chunks of chunks *)
Lemma sq_chunks_chunks {A : Type} n m (l : list A) : (0 < n)%nat -> (0 < m)%nat ->
    sq_chunks (n * m) l = map (@concat A) (sq_chunks m (sq_chunks n l)).
  Proof.
  intros Hn Hm. assert (Hnm : (0 < n * m)%nat) by lia.
  induction l as [l Hl | a l Ha IH] using (sq_chunks_ind (n * m) Hnm).
    - rewrite sq_chunks_short by exact Hl. rewrite (sq_chunks_short m); [reflexivity|].
      rewrite sq_chunks_length by exact Hn. apply Nat.div_lt_upper_bound; lia.
    - rewrite sq_chunks_app by assumption.
      rewrite (sq_chunks_app_mult n m) by (try exact Hn; lia).
      destruct (sq_chunks_concat_exact n m a Hn) as [E1 E2]; [lia|].
      rewrite sq_chunks_app by assumption. cbn [map]. rewrite E1, IH. reflexivity.
Qed.

Section Ranges.
  Context {A : Type}.

  Lemma sq_rng_app_l (a l : list A) k n : sq_rng (a ++ l) (length a + k) n = sq_rng l k n.
  Proof. unfold sq_rng. rewrite skipn_app, skipn_all2 by lia. replace (length a + k - length a)%nat with k by lia. reflexivity. Qed.

  Lemma sq_chunks_nth n (l : list A) k : (0 < n)%nat -> ((k + 1) * n <= length l)%nat ->
    nth_error (sq_chunks n l) k = Some (sq_rng l (k * n) n).
  Proof.
    intros Hn. revert l. induction k as [|k IH]; intros l Hl.
    - rewrite <- (firstn_skipn n l) at 1. rewrite sq_chunks_app; [|exact Hn | rewrite firstn_length; lia]. reflexivity.
    - rewrite <- (firstn_skipn n l).
      assert (H1 : length (firstn n l) = n) by (rewrite firstn_length; lia).
      rewrite sq_chunks_app by assumption. cbn [nth_error].
      rewrite IH by (rewrite skipn_length; lia).
      replace (S k * n)%nat with (length (firstn n l) + k * n)%nat by lia.
      rewrite sq_rng_app_l. reflexivity.
  Qed.
  Lemma sq_chunks_nth_inv n (l : list A) k w : (0 < n)%nat -> nth_error (sq_chunks n l) k = Some w ->
    ((k + 1) * n <= length l)%nat /\ w = sq_rng l (k * n) n.
  Proof.
    intros Hn H. assert (Hk : (k < length (sq_chunks n l))%nat) by (apply nth_error_Some; congruence).
    rewrite sq_chunks_length in Hk by exact Hn.
    assert (Hle : ((k + 1) * n <= length l)%nat).
    { pose proof (Nat.div_mod (length l) n ltac:(lia)). nia. }
    split; [exact Hle|]. rewrite sq_chunks_nth in H by assumption. congruence.
  Qed.

  Lemma sq_rng_length (l : list A) a n : (a + n <= length l)%nat -> length (sq_rng l a n) = n.
  Proof. intros H. unfold sq_rng. rewrite firstn_length, skipn_length. lia. Qed.
  Lemma sq_skipn_add (l : list A) a b : skipn a (skipn b l) = skipn (b + a) l.
  Proof.
    revert l. induction b as [|b IH]; intros l; [reflexivity|].
    destruct l as [|x l]; [rewrite !skipn_nil; reflexivity|]. cbn [skipn Nat.add]. apply IH.
  Qed.
  Lemma sq_rng_split (l : list A) a n1 n2 : sq_rng l a (n1 + n2) = sq_rng l a n1 ++ sq_rng l (a + n1) n2.
  Proof.
    unfold sq_rng. rewrite <- (firstn_skipn n1 (skipn a l)) at 1.
    rewrite firstn_app, firstn_firstn. replace (Nat.min (n1 + n2) n1) with n1 by lia.
    destruct (Nat.le_gt_cases n1 (length (skipn a l))) as [H|H].
    - rewrite firstn_length. replace (n1 + n2 - Nat.min n1 (length (skipn a l)))%nat with n2 by lia.
      rewrite sq_skipn_add. reflexivity.
    - rewrite sq_skipn_add. rewrite (skipn_all2 (n := (a + n1)%nat)) by (rewrite skipn_length in H; lia).
      rewrite !firstn_nil. reflexivity.
  Qed.
  Lemma sq_rng_incl (l : list A) a n : incl (sq_rng l a n) l.
  Proof.
    intros x Hx. unfold sq_rng in Hx.
    rewrite <- (firstn_skipn a l). apply in_or_app. right.
    rewrite <- (firstn_skipn n (skipn a l)). apply in_or_app. left. exact Hx.
  Qed.
  Lemma sq_rng_sub (l : list A) a n a' n' : (a' <= a)%nat -> (a + n <= a' + n')%nat ->
    incl (sq_rng l a n) (sq_rng l a' n').
  Proof.
    intros H1 H2. replace n' with ((a - a') + (n + (a' + n' - (a + n))))%nat by lia.
    rewrite sq_rng_split. apply incl_appr. rewrite sq_rng_split.
    replace (a' + (a - a'))%nat with a by lia. apply incl_appl, incl_refl.
  Qed.
End Ranges.

Lemma sq_chunks_map {A B : Type} (f : A -> B) n (l : list A) : (0 < n)%nat ->
  sq_chunks n (map f l) = map (map f) (sq_chunks n l).
Proof.
  intros Hn. induction l as [l Hl | a l Ha IH] using (sq_chunks_ind n Hn).
  - rewrite !sq_chunks_short by (rewrite ?map_length; exact Hl). reflexivity.
  - rewrite map_app, !sq_chunks_app by (rewrite ?map_length; assumption). cbn [map]. rewrite IH. reflexivity.
Qed.
Lemma sq_Forall2_length {A B : Type} (R : A -> B -> Prop) l l' : Forall2 R l l' -> length l = length l'.
Proof. induction 1; cbn; congruence. Qed.
Lemma sq_chunks_Forall2 {A B : Type} (R : A -> B -> Prop) n (l : list A) (l' : list B) : (0 < n)%nat ->
  Forall2 R l l' -> Forall2 (Forall2 R) (sq_chunks n l) (sq_chunks n l').
Proof.
  intros Hn. revert l'. induction l as [l Hl | a l Ha IH] using (sq_chunks_ind n Hn); intros l' H.
  - pose proof (sq_Forall2_length _ _ _ H) as E. rewrite !sq_chunks_short by lia. constructor.
  - apply Forall2_app_inv_l in H. destruct H as (a' & r' & H1 & H2 & ->).
    pose proof (sq_Forall2_length _ _ _ H1) as E.
    rewrite !sq_chunks_app by (try assumption; lia). constructor; [exact H1 | apply IH, H2].
Qed.

(* ================================================================== *)
(* 2. jls_core_fsr_summary1                                            *)
Lemma sq_finite_map_some (w : list Q) : sq_finite (map Some w) = w.
Proof. induction w as [|x w IH]; [reflexivity|]. cbn [map sq_finite]. rewrite IH. reflexivity. Qed.
Lemma sq_finite_app a b : sq_finite (a ++ b) = sq_finite a ++ sq_finite b.
Proof. induction a as [|[x|] a IH]; cbn [app sq_finite]; [reflexivity | rewrite IH; reflexivity | exact IH]. Qed.

Lemma sq_s1_fold1 xs : forall c acc,
  fold_left sq_s1_step1 xs (c, acc) =
  ((c + N.of_nat (length (sq_finite xs)))%N, fold_left stats_pass1_step (sq_finite xs) acc).
Proof.
  induction xs as [|[x|] xs IH]; intros c acc; cbn [fold_left sq_finite length].
  - rewrite N.add_0_r. reflexivity.
  - unfold sq_s1_step1 at 2. cbn [fst snd]. rewrite IH. f_equal. lia.
  - apply IH.
Qed.
Lemma sq_s1_fold2 m xs : forall a,
  fold_left (sq_s1_step2 m) xs a = fold_left (stats_pass2_step m) (sq_finite xs) a.
Proof.
  induction xs as [|[x|] xs IH]; intros a; cbn [fold_left sq_finite]; [reflexivity | apply IH | apply IH].
Qed.

Lemma sq_qlen_nz (w : list Q) : w <> [] -> ~ qlen w == 0.
Proof. intros H E. pose proof (qlen_pos w H) as P. rewrite E in P. inversion P. Qed.

Lemma sq_ssq_single x : ssq_of [x] == 0.
Proof. unfold ssq_of, mean_of, qlen, qsum. cbn [map fold_right length]. change (inject_Z (Z.of_nat 1)) with 1. field. Qed.

Lemma sq_summary1_nan xs : sq_finite xs = [] -> sq_summary1 xs = sq_nan_ent.
Proof. intros H. unfold sq_summary1. rewrite sq_s1_fold1, H. reflexivity. Qed.

Lemma sq_summary1_exact xs : sq_finite xs <> [] -> stats_in_range dbl_max (sq_finite xs) ->
  sq_exact (sq_summary1 xs) (sq_finite xs).
Proof.
  intros Hne Hr. set (w := sq_finite xs) in *.
  unfold sq_summary1. rewrite sq_s1_fold1, pass1_split. fold w. cbv zeta iota beta.
  rewrite N.add_0_l.
  destruct (N.eqb_spec (N.of_nat (length w)) 0) as [E|_].
  { destruct w; [congruence | cbn in E; lia]. }
  rewrite q_of_N_len, sq_s1_fold2. fold w.
  pose proof (sq_qlen_nz w Hne) as Hnz.
  assert (Hm : qr_div (fold_left qr_add w 0) (qlen w) == mean_of w).
  { rewrite qdiv_eq, fold_qadd. unfold mean_of. field. exact Hnz. }
  eexists _, _, _, _. split; [reflexivity|]. split; [exact Hm|]. split; [|split].
  - destruct (N.eqb_spec (N.of_nat (length w)) 1) as [E1|E1].
    + destruct w as [|x [|y w']]; [congruence | | cbn in E1; lia].
      rewrite sq_ssq_single. unfold Qdiv. ring.
    + rewrite qdiv_eq, fold_pass2. unfold ssq_of. rewrite !ssq_gen, Hm. field. exact Hnz.
  - apply (is_min_unique _ _ w); [apply fold_selmin_sentinel | apply min_of_is_min]; assumption.
  - apply (is_max_unique _ _ w); [apply fold_selmax_sentinel | apply max_of_is_max]; assumption.
Qed.

(* ================================================================== *)
(* 3. SUMMARYN_BODY_TEMPLATE on children that are all finite           *)
Lemma sq_qsum_concat (gs : list (list Q)) : qsum (concat gs) == qsum (map qsum gs).
Proof.
  induction gs as [|g gs IH]; [reflexivity|]. cbn [concat map]. rewrite qsum_app, qsum_cons, IH. reflexivity.
Qed.
Lemma sq_sumsq_concat (gs : list (list Q)) : sumsq (concat gs) == qsum (map sumsq gs).
Proof.
  induction gs as [|g gs IH]; [reflexivity|]. cbn [concat map]. rewrite sumsq_app, qsum_cons, IH. reflexivity.
Qed.
Definition sq_cnt {A : Type} (l : list A) : Q := inject_Z (Z.of_nat (length l)).
Lemma sq_cnt_cons {A : Type} (x : A) l : sq_cnt (x :: l) == 1 + sq_cnt l.
Proof. unfold sq_cnt. cbn [length]. rewrite Nat2Z.inj_succ, <- Z.add_1_l, inject_Z_plus. reflexivity. Qed.
Lemma sq_qlen_concat (gs : list (list Q)) n : Forall (fun g => length g = n) gs ->
  qlen (concat gs) == sq_cnt gs * inject_Z (Z.of_nat n).
Proof.
  induction 1 as [|g gs Hg _ IH].
  - unfold qlen, sq_cnt. cbn. ring.
  - cbn [concat]. rewrite qlen_app, IH, (sq_cnt_cons g gs). unfold qlen. rewrite Hg. ring.
Qed.

(* sentinel handling: the extremum of (sentinel :: l) is the extremum of l *)
Lemma sq_min_drop_sentinel lo s l : is_min lo (s :: l) -> l <> [] -> (forall x, In x l -> x <= s) -> is_min lo l.
Proof.
  intros ((x & Hin & Hx) & Hall) Hne Hs. split.
  - destruct Hin as [<-|Hin]; [|exists x; split; assumption].
    destruct l as [|y l]; [congruence|]. exists y. split; [left; reflexivity|].
    apply Qle_antisym.
    + rewrite <- Hx. apply Hs. left; reflexivity.
    + apply Hall. right; left; reflexivity.
  - intros y Hy. apply Hall. right. exact Hy.
Qed.
Lemma sq_max_drop_sentinel hi s l : is_max hi (s :: l) -> l <> [] -> (forall x, In x l -> s <= x) -> is_max hi l.
Proof.
  intros ((x & Hin & Hx) & Hall) Hne Hs. split.
  - destruct Hin as [<-|Hin]; [|exists x; split; assumption].
    destruct l as [|y l]; [congruence|]. exists y. split; [left; reflexivity|].
    apply Qle_antisym.
    + apply (Hall y). right; left; reflexivity.
    + rewrite <- Hx. apply Hs. left; reflexivity.
  - intros y Hy. apply Hall. right. exact Hy.
Qed.

Lemma sq_selmin_o_spec lo y : sq_selmin_o lo (Some y) = selmin lo y.
Proof. reflexivity. Qed.
Lemma sq_selmax_o_spec hi y : sq_selmax_o hi (Some y) = selmax hi y.
Proof. reflexivity. Qed.

Lemma sq_sN_fold1 cs gs : Forall2 sq_exact cs gs -> Forall (fun g => g <> []) gs ->
  forall c s lo hi plo phi, is_min lo plo -> is_max hi phi ->
  exists s' lo' hi',
    fold_left sq_sN_step1 cs (c, (s, lo, hi)) = ((c + N.of_nat (length cs))%N, (s', lo', hi')) /\
    s' == s + qsum (map mean_of gs) /\ is_min lo' (plo ++ concat gs) /\ is_max hi' (phi ++ concat gs).
Proof.
  induction 1 as [|e g cs gs He _ IH]; intros Hne c s lo hi plo phi Hlo Hhi.
  - exists s, lo, hi. cbn [fold_left length concat map]. rewrite N.add_0_r, !app_nil_r, qsum_nil.
    split; [reflexivity|]. split; [ring|]. split; assumption.
  - inversion Hne as [|? ? Hg Hne']; subst.
    destruct He as (m & v & mn & mx & -> & Em & Ev & Emn & Emx).
    cbn [fold_left]. unfold sq_sN_step1 at 2. cbn [se_mean se_min se_max].
    rewrite sq_selmin_o_spec, sq_selmax_o_spec.
    destruct (IH Hne' (c + 1)%N (qr_add s m) (selmin lo mn) (selmax hi mx) (plo ++ g) (phi ++ g)) as (s' & lo' & hi' & E & Es & El & Eh).
    + eapply (is_ext_app Qle Qle_proper' Qle_trans lo mn); [exact Hlo | | apply selmin_spec].
      apply (is_ext_eq Qle Qle_proper' (min_of g)); [symmetry; exact Emn | apply min_of_is_min, Hg].
    + eapply (is_ext_app Qge' Qge_proper' Qge_trans' hi mx); [exact Hhi | | apply selmax_spec].
      apply (is_ext_eq Qge' Qge_proper' (max_of g)); [symmetry; exact Emx | apply max_of_is_max, Hg].
    + exists s', lo', hi'. split; [|split; [|split]].
      * rewrite E. f_equal. cbn [length]. lia.
      * rewrite Es, qadd_eq, Em. cbn [map]. rewrite qsum_cons. ring.
      * cbn [concat]. rewrite app_assoc. exact El.
      * cbn [concat]. rewrite app_assoc. exact Eh.
Qed.

Lemma sq_sN_fold2 M cs gs : Forall2 sq_exact cs gs ->
  forall acc, exists acc',
    fold_left (sq_sN_step2 M) cs (Some acc) = Some acc' /\
    acc' == acc + qsum (map (fun g => ssq_of g / qlen g + (mean_of g - M) * (mean_of g - M)) gs).
Proof.
  induction 1 as [|e g cs gs He _ IH]; intros acc.
  - exists acc. split; [reflexivity|]. cbn [map]. rewrite qsum_nil. ring.
  - destruct He as (m & v & mn & mx & -> & Em & Ev & Emn & Emx).
    cbn [fold_left]. unfold sq_sN_step2 at 2. cbn [se_mean se_var sq_osub sq_omul sq_oadd].
    destruct (IH (qr_add acc (qr_add v (qr_mul (qr_sub m M) (qr_sub m M))))) as (acc' & E & Ea).
    exists acc'. split; [exact E|]. rewrite Ea. cbn [map]. rewrite qsum_cons. qnorm. rewrite Em, Ev. ring.
Qed.

(* the pooled-variance identity for groups of equal size *)
Lemma sq_pooled (gs : list (list Q)) n M : (0 < n)%nat -> Forall (fun g => length g = n) gs ->
  qsum (map (fun g => ssq_of g / qlen g + (mean_of g - M) * (mean_of g - M)) gs) ==
  sumsq (concat gs) / inject_Z (Z.of_nat n) - 2 * M * qsum (concat gs) / inject_Z (Z.of_nat n) + sq_cnt gs * M * M.
Proof.
  intros Hn. set (N := inject_Z (Z.of_nat n)).
  assert (HN : ~ N == 0).
  { intro E. assert (P : 0 < N) by (apply inject_Z_pos; lia). rewrite E in P. inversion P. }
  induction 1 as [|g gs Hg _ IH].
  - unfold sumsq, sq_cnt. cbn [concat map length]. rewrite !qsum_nil. change (inject_Z (Z.of_nat 0)) with 0. field. exact HN.
  - cbn [map concat]. rewrite qsum_cons, IH, sumsq_app, qsum_app, (sq_cnt_cons g gs).
    assert (Eg : qlen g == N) by (unfold qlen; rewrite Hg; reflexivity).
    rewrite ssq_alt. unfold mean_of. rewrite Eg. field. exact HN.
Qed.

Lemma sq_summaryN_exact cs gs n : (0 < n)%nat -> cs <> [] ->
  Forall2 sq_exact cs gs -> Forall (fun g => length g = n) gs ->
  stats_in_range dbl_max (concat gs) ->
  sq_exact (sq_summaryN cs) (concat gs).
Proof.
  intros Hn Hcs H2 Hlen Hr.
  assert (Hne : Forall (fun g : list Q => g <> []) gs).
  { eapply Forall_impl; [|exact Hlen]. intros g Hg E. subst g. cbn in Hg. lia. }
  assert (Hgs : gs <> []) by (intro E; subst; inversion H2; congruence).
  assert (Hcat : concat gs <> []).
  { destruct gs as [|g gs]; [congruence|]. inversion Hne; subst. cbn [concat]. destruct g; [congruence|discriminate]. }
  destruct (sq_sN_fold1 cs gs H2 Hne 0%N 0 dbl_max (- dbl_max) [dbl_max] [- dbl_max]) as (s' & lo' & hi' & E & Es & El & Eh).
  { apply is_ext_single, Qle_refl. }
  { apply is_ext_single. intro a. apply Qle_refl. }
  unfold sq_summaryN. rewrite E. cbv iota beta zeta. rewrite N.add_0_l.
  pose proof (sq_Forall2_length _ _ _ H2) as Elen.
  destruct (N.eqb_spec (N.of_nat (length cs)) 0) as [E0|_].
  { destruct cs; [congruence | cbn in E0; lia]. }
  destruct (sq_sN_fold2 (qr_div s' (q_of_N (N.of_nat (length cs)))) cs gs H2 0) as (acc' & E2 & Ea).
  rewrite E2. cbn [sq_odiv_n].
  set (N := inject_Z (Z.of_nat n)).
  assert (HN : ~ N == 0).
  { intro X. assert (P : 0 < N) by (apply inject_Z_pos; lia). rewrite X in P. inversion P. }
  assert (Hm : ~ sq_cnt gs == 0).
  { intro X. assert (P : 0 < sq_cnt gs) by (unfold sq_cnt; apply inject_Z_pos; destruct gs; [congruence | cbn; lia]). rewrite X in P. inversion P. }
  assert (Ek : q_of_N (N.of_nat (length cs)) == sq_cnt gs).
  { unfold q_of_N, sq_cnt. rewrite nat_N_Z, Elen. reflexivity. }
  assert (Eqc : qlen (concat gs) == sq_cnt gs * N) by (apply sq_qlen_concat, Hlen).
  assert (Emeans : qsum (map mean_of gs) == qsum (concat gs) / N).
  { clear - Hlen HN. induction Hlen as [|g gs Hg _ IH].
    - cbn. unfold Qdiv. ring.
    - cbn [map concat]. rewrite qsum_cons, qsum_app, IH. unfold mean_of, qlen. rewrite Hg. fold N. field. exact HN. }
  assert (EM : qr_div s' (q_of_N (N.of_nat (length cs))) == mean_of (concat gs)).
  { rewrite qdiv_eq, Es, Ek, Emeans. unfold mean_of. rewrite Eqc. field. split; assumption. }
  eexists _, _, _, _. split; [reflexivity|]. split; [exact EM|]. split; [|split].
  - rewrite qdiv_eq, Ea, (sq_pooled gs n _ Hn Hlen), EM, Ek. fold N.
    rewrite ssq_alt. unfold mean_of. rewrite Eqc. field. split; assumption.
  - apply (is_min_unique _ _ (concat gs)); [|apply min_of_is_min, Hcat].
    apply (sq_min_drop_sentinel lo' dbl_max); [exact El | exact Hcat |].
    intros x Hx. unfold stats_in_range in Hr. rewrite Forall_forall in Hr. apply Hr, Hx.
  - apply (is_max_unique _ _ (concat gs)); [|apply max_of_is_max, Hcat].
    apply (sq_max_drop_sentinel hi' (- dbl_max)); [exact Eh | exact Hcat |].
    intros x Hx. unfold stats_in_range in Hr. rewrite Forall_forall in Hr. apply Hr, Hx.
Qed.

(* ================================================================== *)
(* 4. every level of a gap-free stream                                 *)
Lemma sq_in_range_incl b (l l' : list Q) : incl l l' -> stats_in_range b l' -> stats_in_range b l.
Proof. unfold stats_in_range. rewrite !Forall_forall. intros Hi H x Hx. apply H, Hi, Hx. Qed.

Lemma sq_level1_exact d (xs : list Q) : (0 < d)%nat -> stats_in_range dbl_max xs ->
  Forall2 sq_exact (sq_level1 d (map Some xs)) (sq_chunks d xs).
Proof.
  intros Hd Hr. unfold sq_level1. rewrite sq_chunks_map by exact Hd.
  pose proof (sq_chunks_len_each d xs Hd) as Hlen.
  pose proof (sq_chunks_incl d xs Hd) as Hinc.
  induction (sq_chunks d xs) as [|c cs IH]; cbn [map]; [constructor|].
  inversion Hlen; subst. constructor.
  - rewrite <- (sq_finite_map_some c) at 2. apply sq_summary1_exact; rewrite sq_finite_map_some.
    + intro E. subst c. cbn in *. lia.
    + apply (sq_in_range_incl _ _ xs); [apply Hinc; left; reflexivity | exact Hr].
  - apply IH; [assumption|]. intros c' Hc'. apply Hinc. right. exact Hc'.
Qed.

Lemma sq_level_next_exact sumdf n (es : list sq_ent) (xs : list Q) : (0 < sumdf)%nat -> (0 < n)%nat ->
  stats_in_range dbl_max xs ->
  Forall2 sq_exact es (sq_chunks n xs) ->
  Forall2 sq_exact (sq_level_next sumdf es) (sq_chunks (n * sumdf) xs).
Proof.
  intros Hs Hn Hr H. unfold sq_level_next. rewrite (sq_chunks_chunks n sumdf xs Hn Hs).
  pose proof (sq_chunks_Forall2 sq_exact sumdf _ _ Hs H) as H2.
  pose proof (sq_chunks_len_each sumdf es Hs) as Hlen.
  assert (Hin : forall gg, In gg (sq_chunks sumdf (sq_chunks n xs)) ->
                  Forall (fun g => length g = n) gg /\ incl (concat gg) xs).
  { intros gg Hgg. pose proof (sq_chunks_incl sumdf _ Hs gg Hgg) as Hi. split.
    - apply Forall_forall. intros g Hg. pose proof (sq_chunks_len_each n xs Hn) as HL.
      rewrite Forall_forall in HL. apply HL, Hi, Hg.
    - intros x Hx. apply in_concat in Hx. destruct Hx as (g & Hg & Hx).
      apply (sq_chunks_incl n xs Hn g); [apply Hi, Hg | exact Hx]. }
  induction H2 as [|cs gg css ggs Hc _ IH]; cbn [map]; [constructor|].
  inversion Hlen; subst. constructor.
  - destruct (Hin gg) as [HL Hi]; [left; reflexivity|].
    apply (sq_summaryN_exact cs gg n Hn); [intro E; subst cs; cbn in *; lia | exact Hc | exact HL |].
    apply (sq_in_range_incl _ _ xs Hi Hr).
  - apply IH; [assumption|]. intros gg' Hgg'. apply Hin. right. exact Hgg'.
Qed.

(* number of samples one entry of level L covers *)
Definition sq_span (d sumdf L : nat) : nat := (d * sumdf ^ (L - 1))%nat.
Lemma sq_span_pos d sumdf L : (0 < d)%nat -> (0 < sumdf)%nat -> (0 < sq_span d sumdf L)%nat.
Proof. intros Hd Hs. unfold sq_span. assert (0 < sumdf ^ (L - 1))%nat by (apply Nat.neq_0_lt_0, Nat.pow_nonzero; lia). nia. Qed.
Lemma sq_span_succ d sumdf L : (1 <= L)%nat -> sq_span d sumdf (S L) = (sq_span d sumdf L * sumdf)%nat.
Proof.
  intros HL. unfold sq_span. replace (S L - 1)%nat with (S (L - 1)) by lia. rewrite Nat.pow_succ_r'. lia.
Qed.

Lemma sq_levels_exact d sumdf (xs : list Q) L : (0 < d)%nat -> (0 < sumdf)%nat -> (1 <= L)%nat ->
  stats_in_range dbl_max xs ->
  Forall2 sq_exact (sq_levels d sumdf (map Some xs) L) (sq_chunks (sq_span d sumdf L) xs).
Proof.
  intros Hd Hs HL Hr. destruct L as [|L]; [lia|]. clear HL.
  induction L as [|L IH].
  - cbn [sq_levels]. unfold sq_span. cbn [Nat.sub Nat.pow]. rewrite Nat.mul_1_r. apply sq_level1_exact; assumption.
  - change (sq_levels d sumdf (map Some xs) (S (S L))) with (sq_level_next sumdf (sq_levels d sumdf (map Some xs) (S L))).
    rewrite sq_span_succ by lia. apply sq_level_next_exact; try assumption. apply sq_span_pos; assumption.
Qed.

Lemma sq_Forall2_nth {A B : Type} (R : A -> B -> Prop) l l' : Forall2 R l l' ->
  forall k e, nth_error l k = Some e -> exists w, nth_error l' k = Some w /\ R e w.
Proof.
  induction 1 as [|e' w' es ws Hew _ IH]; intros k e He.
  - destruct k; discriminate.
  - destruct k as [|k]; cbn [nth_error] in *.
    + inversion He; subst. exists w'. split; [reflexivity | exact Hew].
    + apply IH, He.
Qed.

(* summary_exact in index form *)
Lemma sq_summary_exact d sumdf (xs : list Q) L k e : (1 <= d)%nat -> (1 <= sumdf)%nat -> (1 <= L)%nat ->
  stats_in_range dbl_max xs ->
  nth_error (sq_levels d sumdf (map Some xs) L) k = Some e ->
  let n := (d * sumdf ^ (L - 1))%nat in
  ((k + 1) * n <= length xs)%nat /\ sq_exact e (sq_rng xs (k * n) n).
Proof.
  intros Hd Hs HL Hr He n.
  pose proof (sq_levels_exact d sumdf xs L Hd Hs HL Hr) as H2. fold (sq_span d sumdf L) in n.
  assert (Hn : (0 < n)%nat) by (apply sq_span_pos; lia).
  destruct (sq_Forall2_nth _ _ _ H2 k e He) as (w & Hw & Hew). apply sq_chunks_nth_inv in Hw; [|exact Hn]. destruct Hw as [Hle ->].
  split; assumption.
Qed.
Lemma sq_levels_length d sumdf (xs : list Q) L : (1 <= d)%nat -> (1 <= sumdf)%nat -> (1 <= L)%nat ->
  stats_in_range dbl_max xs ->
  length (sq_levels d sumdf (map Some xs) L) = (length xs / (d * sumdf ^ (L - 1)))%nat.
Proof.
  intros Hd Hs HL Hr. rewrite (sq_Forall2_length _ _ _ (sq_levels_exact d sumdf xs L Hd Hs HL Hr)).
  apply sq_chunks_length, sq_span_pos; lia.
Qed.

(* ================================================================== *)
(* 5. gaps (C09 last clause)                                           *)
(* level 1: fill samples are skipped *)
Lemma sq_gap_absent_level1 xs : stats_in_range dbl_max (sq_finite xs) ->
  (sq_finite xs = [] -> sq_summary1 xs = sq_nan_ent) /\
  (sq_finite xs <> [] -> sq_exact (sq_summary1 xs) (sq_finite xs)).
Proof. intros Hr. split; [apply sq_summary1_nan | intro Hne; apply sq_summary1_exact; assumption]. Qed.

Lemma sq_sN_fold1_count cs : forall c acc,
  (fst (fold_left sq_sN_step1 cs (c, acc)) >= c)%N /\
  ((exists e, In e cs /\ se_mean e <> None) -> (fst (fold_left sq_sN_step1 cs (c, acc)) > c)%N).
Proof.
  induction cs as [|e cs IH]; intros c acc; cbn [fold_left].
  - split; [cbn; lia | intros (e & [] & _)].
  - unfold sq_sN_step1 at 2 4. destruct (se_mean e) as [m|] eqn:Em.
    + destruct acc as [[s lo] hi]. destruct (IH (c + 1)%N (qr_add s m, sq_selmin_o lo (se_min e), sq_selmax_o hi (se_max e))) as [H1 _].
      split; [lia | intros _; lia].
    + destruct (IH c acc) as [H1 H2]. split; [exact H1|].
      intros (e' & [<-|Hin] & Hne); [congruence|]. apply H2. exists e'. split; assumption.
Qed.

(* level >= 2: a child whose mean is NaN is skipped by both loops: it is absent *)
Lemma sq_sN_fold1_filter cs : forall acc,
  fold_left sq_sN_step1 cs acc = fold_left sq_sN_step1 (filter sq_mean_finite cs) acc.
Proof.
  induction cs as [|c cs IH]; intros acc; [reflexivity|]. cbn [filter]. unfold sq_mean_finite at 1.
  destruct (se_mean c) eqn:E; cbn [fold_left].
  - apply IH.
  - unfold sq_sN_step1 at 2. rewrite E. apply IH.
Qed.
Lemma sq_sN_fold2_filter M cs : forall acc,
  fold_left (sq_sN_step2 M) cs acc = fold_left (sq_sN_step2 M) (filter sq_mean_finite cs) acc.
Proof.
  induction cs as [|c cs IH]; intros acc; [reflexivity|]. cbn [filter]. unfold sq_mean_finite at 1.
  destruct (se_mean c) eqn:E; cbn [fold_left].
  - apply IH.
  - unfold sq_sN_step2 at 2. rewrite E. apply IH.
Qed.
Lemma sq_summaryN_filter cs : sq_summaryN cs = sq_summaryN (filter sq_mean_finite cs).
Proof.
  unfold sq_summaryN. rewrite <- sq_sN_fold1_filter.
  destruct (fold_left sq_sN_step1 cs (0%N, (0, dbl_max, - dbl_max))) as [count [[s lo] hi]].
  rewrite <- sq_sN_fold2_filter. reflexivity.
Qed.
Lemma sq_summaryN_all_nan cs : Forall (fun c => se_mean c = None) cs -> sq_summaryN cs = sq_nan_ent.
Proof.
  intros H. rewrite sq_summaryN_filter.
  replace (filter sq_mean_finite cs) with (@nil sq_ent); [reflexivity|].
  induction H as [|c cs Hc _ IH]; [reflexivity|]. cbn [filter]. unfold sq_mean_finite at 1. rewrite Hc. exact IH.
Qed.

(* no NaN propagation: one child with a finite mean, and finite-mean children have a finite variance *)
Lemma sq_sN_fold2_some M cs : (forall c, In c cs -> se_mean c <> None -> se_var c <> None) ->
  forall acc, exists acc', fold_left (sq_sN_step2 M) cs (Some acc) = Some acc'.
Proof.
  induction cs as [|c cs IH]; intros H acc; [exists acc; reflexivity|]. cbn [fold_left].
  unfold sq_sN_step2 at 2. destruct (se_mean c) as [m|] eqn:Em.
  - destruct (se_var c) as [v|] eqn:Ev; [|exfalso; apply (H c); [left; reflexivity | congruence | exact Ev]].
    cbn [sq_oadd]. apply IH. intros c' Hc'. apply H. right. exact Hc'.
  - apply IH. intros c' Hc'. apply H. right. exact Hc'.
Qed.
Lemma sq_summaryN_no_nan cs :
  (exists c, In c cs /\ se_mean c <> None) ->
  (forall c, In c cs -> se_mean c <> None -> se_var c <> None) ->
  exists m v lo hi, sq_summaryN cs = mkSqEnt (Some m) (Some v) (Some lo) (Some hi).
Proof.
  intros Hfin Hvar. unfold sq_summaryN.
  destruct (sq_sN_fold1_count cs 0%N (0, dbl_max, - dbl_max)) as [_ Hc]. specialize (Hc Hfin).
  destruct (fold_left sq_sN_step1 cs (0%N, (0, dbl_max, - dbl_max))) as [count [[s lo] hi]]. cbn [fst] in Hc.
  destruct (N.eqb_spec count 0) as [E|_]; [lia|].
  destruct (sq_sN_fold2_some (qr_div s (q_of_N count)) cs Hvar 0) as (a & Ea). rewrite Ea. cbn [sq_odiv_n].
  eexists _, _, _, _. reflexivity.
Qed.

(* guarded positive statement: no child is NaN (each child describes a non-empty list of written
   samples, of ANY length).  All four fields are finite, min/max are the extremes of all written
   samples, the mean is the UNWEIGHTED mean of the children's means, the variance is >= 0. *)
Lemma sq_summaryN_finite cs gs : cs <> [] -> Forall2 sq_exact cs gs -> Forall (fun g => g <> []) gs ->
  stats_in_range dbl_max (concat gs) ->
  exists m v lo hi, sq_summaryN cs = mkSqEnt (Some m) (Some v) (Some lo) (Some hi) /\
    m == qsum (map mean_of gs) / sq_cnt gs /\ 0 <= v /\
    lo == min_of (concat gs) /\ hi == max_of (concat gs).
Proof.
  intros Hcs H2 Hne Hr.
  assert (Hgs : gs <> []) by (intro E; subst; inversion H2; congruence).
  assert (Hcat : concat gs <> []).
  { destruct gs as [|g gs]; [congruence|]. inversion Hne; subst. cbn [concat]. destruct g; [congruence|discriminate]. }
  destruct (sq_sN_fold1 cs gs H2 Hne 0%N 0 dbl_max (- dbl_max) [dbl_max] [- dbl_max]) as (s' & lo' & hi' & E & Es & El & Eh).
  { apply is_ext_single, Qle_refl. }
  { apply is_ext_single. intro a. apply Qle_refl. }
  unfold sq_summaryN. rewrite E. cbv iota beta zeta. rewrite N.add_0_l.
  pose proof (sq_Forall2_length _ _ _ H2) as Elen.
  destruct (N.eqb_spec (N.of_nat (length cs)) 0) as [E0|_].
  { destruct cs; [congruence | cbn in E0; lia]. }
  destruct (sq_sN_fold2 (qr_div s' (q_of_N (N.of_nat (length cs)))) cs gs H2 0) as (acc' & E2 & Ea).
  rewrite E2. cbn [sq_odiv_n].
  assert (Ek : q_of_N (N.of_nat (length cs)) == sq_cnt gs).
  { unfold q_of_N, sq_cnt. rewrite nat_N_Z, Elen. reflexivity. }
  assert (Hp : 0 < sq_cnt gs) by (unfold sq_cnt; apply inject_Z_pos; destruct gs; [congruence | cbn; lia]).
  eexists _, _, _, _. split; [reflexivity|]. split; [|split; [|split]].
  - rewrite qdiv_eq, Es, Ek. field. intro X. rewrite X in Hp. inversion Hp.
  - rewrite qdiv_eq, Ek. apply Qle_shift_div_l; [exact Hp|]. rewrite Qmult_0_l, Ea, Qplus_0_l.
    set (M := qr_div s' (q_of_N (N.of_nat (length cs)))). clearbody M. clear.
    induction gs as [|g gs IH]; cbn [map]; [rewrite qsum_nil; apply Qle_refl|].
    rewrite qsum_cons.
    assert (0 <= ssq_of g / qlen g).
    { destruct g as [|x g]; [unfold Qdiv; cbn; apply Qle_refl|].
      apply Qle_shift_div_l; [apply qlen_pos; discriminate | rewrite Qmult_0_l; apply ssq_nonneg]. }
    pose proof (Qsq_nonneg (mean_of g - M)). lra.
  - apply (is_min_unique _ _ (concat gs)); [|apply min_of_is_min, Hcat].
    apply (sq_min_drop_sentinel lo' dbl_max); [exact El | exact Hcat |].
    intros x Hx. unfold stats_in_range in Hr. rewrite Forall_forall in Hr. apply Hr, Hx.
  - apply (is_max_unique _ _ (concat gs)); [|apply max_of_is_max, Hcat].
    apply (sq_max_drop_sentinel hi' (- dbl_max)); [exact Eh | exact Hcat |].
    intros x Hx. unfold stats_in_range in Hr. rewrite Forall_forall in Hr. apply Hr, Hx.
Qed.

(* children that are each either wholly in a gap (the NaN entry) or exact over n written samples:
   the entry is exactly the statistics of all written samples *)
Lemma sq_summaryN_mixed cs ws n : (0 < n)%nat ->
  Forall2 (fun e w => (w = [] /\ e = sq_nan_ent) \/ (length w = n /\ sq_exact e w)) cs ws ->
  stats_in_range dbl_max (concat ws) ->
  (concat ws = [] -> sq_summaryN cs = sq_nan_ent) /\
  (concat ws <> [] -> sq_exact (sq_summaryN cs) (concat ws)).
Proof.
  intros Hn H Hr.
  assert (K : Forall2 sq_exact (filter sq_mean_finite cs) (filter (fun w => negb (Nat.eqb (length w) 0)) ws) /\
              concat (filter (fun w => negb (Nat.eqb (length w) 0)) ws) = concat ws /\
              Forall (fun w => length w = n) (filter (fun w => negb (Nat.eqb (length w) 0)) ws)).
  { clear Hr. induction H as [|e w cs ws Hew _ IH]; [repeat split; constructor|].
    destruct IH as (I1 & I2 & I3). cbn [filter concat].
    destruct Hew as [[-> ->]|[Hl Hex]].
    - cbn. repeat split; assumption.
    - destruct Hex as (m & v & lo & hi & -> & Hm). unfold sq_mean_finite at 1. cbn [se_mean].
      rewrite Hl. replace (Nat.eqb n 0) with false by (symmetry; apply Nat.eqb_neq; lia). cbn [negb concat].
      split; [constructor; [exists m, v, lo, hi; split; [reflexivity | exact Hm] | exact I1]|].
      split; [rewrite I2; reflexivity | constructor; assumption]. }
  destruct K as (K1 & K2 & K3). rewrite sq_summaryN_filter. rewrite <- K2 in *. split.
  - intros E. destruct (filter (fun w => negb (Nat.eqb (length w) 0)) ws) as [|w ws'] eqn:F.
    + inversion K1. reflexivity.
    + exfalso. inversion K3; subst. cbn [concat] in E. destruct w; [cbn in *; lia | discriminate].
  - intros Hne. apply (sq_summaryN_exact _ _ n Hn); try assumption.
    intro E. rewrite E in K1. inversion K1 as [E' E''|]. apply Hne. rewrite <- E''. reflexivity.
Qed.

(* locality of every level: an entry whose window lies wholly in a gap is the NaN entry, an entry whose
   window has no gap is exact - whatever the rest of the stream looks like *)
Definition sq_loc (e : sq_ent) (g : list (option Q)) : Prop :=
  (Forall (fun o => o = None) g -> e = sq_nan_ent) /\
  (Forall (fun o => o <> None) g -> g <> [] -> length (sq_finite g) = length g /\ sq_exact e (sq_finite g)).

Lemma sq_finite_all_gap g : Forall (fun o => o = None) g -> sq_finite g = [].
Proof. induction 1 as [|o g Ho _ IH]; [reflexivity|]. subst o. exact IH. Qed.
Lemma sq_finite_no_gap g : Forall (fun o : option Q => o <> None) g -> length (sq_finite g) = length g.
Proof. induction 1 as [|o g Ho _ IH]; [reflexivity|]. destruct o; [cbn; rewrite IH; reflexivity | congruence]. Qed.
Lemma sq_finite_concat gg : sq_finite (concat gg) = concat (map sq_finite gg).
Proof. induction gg as [|g gg IH]; [reflexivity|]. cbn [concat map]. rewrite sq_finite_app, IH. reflexivity. Qed.
Lemma sq_Forall_concat {A : Type} (P : A -> Prop) gg : Forall P (concat gg) -> Forall (Forall P) gg.
Proof.
  induction gg as [|g gg IH]; intros H; [constructor|]. cbn [concat] in H. apply Forall_app in H.
  destruct H as [H1 H2]. constructor; [exact H1 | apply IH, H2].
Qed.
Lemma sq_finite_in x l : In x (sq_finite l) -> In (Some x) l.
Proof.
  induction l as [|[y|] l IH]; cbn [sq_finite]; intros H; [destruct H | | right; apply IH, H].
  destruct H as [->|H]; [left; reflexivity | right; apply IH, H].
Qed.
Lemma sq_finite_incl l l' : incl l l' -> incl (sq_finite l) (sq_finite l').
Proof.
  intros Hi x Hx. apply sq_finite_in in Hx. apply Hi in Hx. clear - Hx.
  induction l' as [|[y|] l' IH]; cbn [sq_finite]; [destruct Hx | |].
  - destruct Hx as [E|Hx]; [inversion E; left; reflexivity | right; apply IH, Hx].
  - destruct Hx as [E|Hx]; [discriminate | apply IH, Hx].
Qed.

Lemma sq_loc_level1 d xs : (0 < d)%nat -> stats_in_range dbl_max (sq_finite xs) ->
  Forall2 sq_loc (sq_level1 d xs) (sq_chunks d xs).
Proof.
  intros Hd Hr. unfold sq_level1.
  pose proof (sq_chunks_incl d xs Hd) as Hinc.
  induction (sq_chunks d xs) as [|c cs IH]; cbn [map]; [constructor|]. constructor.
  - split.
    + intros Hg. apply sq_summary1_nan, sq_finite_all_gap, Hg.
    + intros Hg Hne. pose proof (sq_finite_no_gap c Hg) as L. split; [exact L|]. apply sq_summary1_exact.
      * intro E. rewrite E in L. destruct c; [congruence | discriminate].
      * apply (sq_in_range_incl _ _ (sq_finite xs)); [apply sq_finite_incl, Hinc; left; reflexivity | exact Hr].
  - apply IH. intros c' Hc'. apply Hinc. right. exact Hc'.
Qed.

Lemma sq_loc_next sumdf n es xs : (0 < sumdf)%nat -> (0 < n)%nat ->
  stats_in_range dbl_max (sq_finite xs) ->
  Forall2 sq_loc es (sq_chunks n xs) ->
  Forall2 sq_loc (sq_level_next sumdf es) (sq_chunks (n * sumdf) xs).
Proof.
  intros Hs Hn Hr H. unfold sq_level_next. rewrite (sq_chunks_chunks n sumdf xs Hn Hs).
  pose proof (sq_chunks_Forall2 sq_loc sumdf _ _ Hs H) as H2.
  pose proof (sq_chunks_len_each sumdf es Hs) as Hlen.
  assert (Hin : forall gg, In gg (sq_chunks sumdf (sq_chunks n xs)) ->
                  Forall (fun g => length g = n) gg /\ incl (concat gg) xs).
  { intros gg Hgg. pose proof (sq_chunks_incl sumdf _ Hs gg Hgg) as Hi. split.
    - apply Forall_forall. intros g Hg. pose proof (sq_chunks_len_each n xs Hn) as HL.
      rewrite Forall_forall in HL. apply HL, Hi, Hg.
    - intros x Hx. apply in_concat in Hx. destruct Hx as (g & Hg & Hx).
      apply (sq_chunks_incl n xs Hn g); [apply Hi, Hg | exact Hx]. }
  induction H2 as [|cs gg css ggs Hc _ IH]; cbn [map]; [constructor|].
  pose proof (Forall_inv Hlen) as Hcs. pose proof (Forall_inv_tail Hlen) as Hlen'. cbv beta in Hcs.
  constructor; [|apply IH; [assumption | intros gg' Hgg'; apply Hin; right; exact Hgg']].
  destruct (Hin gg) as [HL Hi]; [left; reflexivity|]. split.
  - intros Hg. apply sq_Forall_concat in Hg. apply sq_summaryN_all_nan.
    clear - Hc Hg. induction Hc as [|c g cs gg Hcg _ IH]; [constructor|].
    inversion Hg; subst. constructor; [|apply IH; assumption].
    destruct Hcg as [Hnan _]. rewrite (Hnan H1). reflexivity.
  - intros Hg Hne. rewrite sq_finite_concat.
    pose proof (sq_Forall_concat _ _ Hg) as Hgg.
    assert (HF : Forall2 sq_exact cs (map sq_finite gg) /\ Forall (fun w => length w = n) (map sq_finite gg)).
    { clear - Hc Hgg HL Hn. induction Hc as [|c g cs gg Hcg _ IH]; [split; constructor|].
      inversion Hgg as [|? ? G1 G2]. inversion HL as [|? ? L1 L2]. destruct (IH L2 G2) as [I1 I2].
      destruct Hcg as [_ Hex]. destruct (Hex G1) as [L E]; [intro X; rewrite X in L1; cbn in L1; lia|].
      cbn [map]. split; constructor; try assumption. rewrite L. exact L1. }
    destruct HF as [F1 F2].
    split.
    + rewrite <- sq_finite_concat. apply sq_finite_no_gap, Hg.
    + apply (sq_summaryN_exact cs (map sq_finite gg) n Hn); try assumption.
      * intro E. subst cs. cbn in Hcs. lia.
      * rewrite <- sq_finite_concat. apply (sq_in_range_incl _ _ (sq_finite xs)); [apply sq_finite_incl, Hi | exact Hr].
Qed.

Lemma sq_loc_levels d sumdf xs L : (0 < d)%nat -> (0 < sumdf)%nat -> (1 <= L)%nat ->
  stats_in_range dbl_max (sq_finite xs) ->
  Forall2 sq_loc (sq_levels d sumdf xs L) (sq_chunks (sq_span d sumdf L) xs).
Proof.
  intros Hd Hs HL Hr. destruct L as [|L]; [lia|]. clear HL.
  induction L as [|L IH].
  - cbn [sq_levels]. unfold sq_span. cbn [Nat.sub Nat.pow]. rewrite Nat.mul_1_r. apply sq_loc_level1; assumption.
  - change (sq_levels d sumdf xs (S (S L))) with (sq_level_next sumdf (sq_levels d sumdf xs (S L))).
    rewrite sq_span_succ by lia. apply sq_loc_next; try assumption. apply sq_span_pos; assumption.
Qed.

(* gaps aligned to the windows of level L-1: every entry of level L is exactly the statistics of the
   written samples of its window (the NaN entry when there are none) *)
Lemma sq_gap_absent_aligned d sumdf (xs : list (option Q)) L k e : (1 <= d)%nat -> (1 <= sumdf)%nat -> (2 <= L)%nat ->
  stats_in_range dbl_max (sq_finite xs) ->
  (forall g, In g (sq_chunks (d * sumdf ^ (L - 2)) xs) -> Forall (fun o => o = None) g \/ Forall (fun o => o <> None) g) ->
  nth_error (sq_levels d sumdf xs L) k = Some e ->
  let n := (d * sumdf ^ (L - 1))%nat in
  let w := sq_finite (firstn n (skipn (k * n) xs)) in
  ((k + 1) * n <= length xs)%nat /\ (w = [] -> e = sq_nan_ent) /\ (w <> [] -> sq_exact e w).
Proof.
  intros Hd Hs HL Hr Hal He n w.
  destruct L as [|[|L]]; try lia. clear HL.
  change (sq_levels d sumdf xs (S (S L))) with (sq_level_next sumdf (sq_levels d sumdf xs (S L))) in He.
  replace (S (S L) - 2)%nat with (S L - 1)%nat in Hal by lia. fold (sq_span d sumdf (S L)) in Hal.
  set (m := sq_span d sumdf (S L)) in *.
  assert (Hm : (0 < m)%nat) by (apply sq_span_pos; lia).
  assert (En : n = (m * sumdf)%nat) by (unfold n; fold (sq_span d sumdf (S (S L))); rewrite sq_span_succ by lia; reflexivity).
  pose proof (sq_loc_levels d sumdf xs (S L) Hd Hs ltac:(lia) Hr) as Hloc. fold m in Hloc.
  pose proof (sq_chunks_Forall2 sq_loc sumdf _ _ Hs Hloc) as H2.
  unfold sq_level_next in He. rewrite nth_error_map in He.
  destruct (nth_error (sq_chunks sumdf (sq_levels d sumdf xs (S L))) k) as [cs|] eqn:Ecs; [|discriminate].
  cbn in He. inversion He; subst e. clear He.
  destruct (sq_Forall2_nth _ _ _ H2 k cs Ecs) as (gg & Egg & Hcg).
  assert (Ew : nth_error (sq_chunks n xs) k = Some (concat gg)).
  { rewrite En, (sq_chunks_chunks m sumdf xs Hm Hs), nth_error_map, Egg. reflexivity. }
  assert (Hn : (0 < n)%nat) by (rewrite En; nia).
  apply sq_chunks_nth_inv in Ew; [|exact Hn]. destruct Ew as [Hle Ecat]. split; [exact Hle|].
  assert (Hgin : forall g, In g gg -> In g (sq_chunks m xs)).
  { intros g Hg. apply nth_error_In in Egg. apply (sq_chunks_incl sumdf _ Hs gg Egg g Hg). }
  assert (HM : Forall2 (fun e w => (w = [] /\ e = sq_nan_ent) \/ (length w = m /\ sq_exact e w)) cs (map sq_finite gg)).
  { clear - Hcg Hgin Hal Hm. induction Hcg as [|c g cs gg Hc _ IH]; [constructor|]. cbn [map]. constructor.
    - assert (Hg : In g (sq_chunks m xs)) by (apply Hgin; left; reflexivity).
      pose proof (sq_chunks_len_each m xs Hm) as HL. rewrite Forall_forall in HL. specialize (HL g Hg).
      destruct Hc as [Hnan Hex]. destruct (Hal g Hg) as [Hgap|Hfull].
      + left. split; [apply sq_finite_all_gap, Hgap | apply Hnan, Hgap].
      + right. destruct (Hex Hfull) as [Lg E]; [intro X; subst g; cbn in HL; lia|]. split; [lia | exact E].
    - apply IH. intros g' Hg'. apply Hgin. right. exact Hg'. }
  assert (Ewc : w = concat (map sq_finite gg)).
  { unfold w. change (firstn n (skipn (k * n) xs)) with (sq_rng xs (k * n) n). rewrite <- Ecat. apply sq_finite_concat. }
  rewrite Ewc. apply (sq_summaryN_mixed cs (map sq_finite gg) m Hm HM).
  rewrite <- sq_finite_concat, Ecat. apply (sq_in_range_incl _ _ (sq_finite xs)); [apply sq_finite_incl, sq_rng_incl | exact Hr].
Qed.

(* example: d = 2, sumdf = 2, samples 1 3 NaN NaN: the level-2 entry is the statistics of [1; 3] *)
Lemma sq_gap_levelN_witness :
  let xs := [Some 1; Some 3; None; None] in
  sq_levels 2 2 xs 2 = [mkSqEnt (Some 2) (Some 1) (Some 1) (Some 3)] /\
  sq_summary1 (map Some (sq_finite xs)) = mkSqEnt (Some 2) (Some 1) (Some 1) (Some 3).
Proof. vm_compute. split; reflexivity. Qed.
(* witness 2: samples 0 NaN 6 6: level-2 mean 3, the mean of the written samples is 4 *)
Lemma sq_gap_weight_witness :
  let xs := [Some 0; None; Some 6; Some 6] in
  (exists v lo hi, sq_levels 2 2 xs 2 = [mkSqEnt (Some 3) v lo hi]) /\ mean_of (sq_finite xs) == 4.
Proof. split; [vm_compute; eexists _, _, _; reflexivity | vm_compute; reflexivity]. Qed.

(* ================================================================== *)
(* 6. omission (C15, numeric / relational part)                        *)
Lemma sq_wr_data_shape d omit pos b :
  sq_wr_data d omit pos b = ((if omit then 0%Z else pos), sq_level1 d b).
Proof. reflexivity. Qed.

Lemma sq_wr_blocks_summary d blocks :
  snd (sq_wr_blocks d blocks) = concat (map (fun x : bool * Z * list (option Q) => sq_level1 d (snd x)) blocks).
Proof.
  induction blocks as [|[[o p] b] r IH]; [reflexivity|]. cbn [sq_wr_blocks map concat].
  unfold sq_wr_data. destruct (sq_wr_blocks d r) as [ir sr]. cbn [snd] in *. rewrite IH. reflexivity.
Qed.
Lemma sq_wr_blocks_index d blocks :
  fst (sq_wr_blocks d blocks) =
  map (fun x : bool * Z * list (option Q) => if fst (fst x) then 0%Z else snd (fst x)) blocks.
Proof.
  induction blocks as [|[[o p] b] r IH]; [reflexivity|]. cbn [sq_wr_blocks map].
  unfold sq_wr_data. destruct (sq_wr_blocks d r) as [ir sr]. cbn [fst snd] in *. rewrite IH. reflexivity.
Qed.
(* same samples, any omission decisions, any file positions: same level-1 entries *)
Lemma sq_omit_level1_equal d b1 b2 : map snd b1 = map snd b2 ->
  snd (sq_wr_blocks d b1) = snd (sq_wr_blocks d b2).
Proof.
  intros H. rewrite !sq_wr_blocks_summary.
  rewrite <- (map_map snd (fun b => sq_level1 d b) b1), <- (map_map snd (fun b => sq_level1 d b) b2), H. reflexivity.
Qed.
(* every level is a function of the level-1 entries *)
Lemma sq_levels_iter d sumdf xs L : (1 <= L)%nat ->
  sq_levels d sumdf xs L = Nat.iter (L - 1) (sq_level_next sumdf) (sq_level1 d xs).
Proof.
  intros HL. destruct L as [|L]; [lia|]. clear HL. cbn [Nat.sub]. rewrite Nat.sub_0_r.
  induction L as [|L IH]; [reflexivity|].
  change (sq_levels d sumdf xs (S (S L))) with (sq_level_next sumdf (sq_levels d sumdf xs (S L))).
  rewrite IH. reflexivity.
Qed.
(* blocks that are whole numbers of entries (all but the last): the per-block entries are the stream's *)
Lemma sq_level1_blocks d (blocks : list (list (option Q))) last : (0 < d)%nat ->
  Forall (fun b => exists j, length b = (j * d)%nat) blocks ->
  concat (map (sq_level1 d) (blocks ++ [last])) = sq_level1 d (concat (blocks ++ [last])).
Proof.
  intros Hd H. induction H as [|b r (j & Hb) _ IH].
  - cbn. rewrite !app_nil_r. reflexivity.
  - cbn [app map concat]. rewrite IH. unfold sq_level1. rewrite (sq_chunks_app_mult d j) by assumption.
    rewrite map_app. reflexivity.
Qed.

(* reconstruction of automatically omitted constant blocks *)
Lemma sq_qsum_repeat c n : qsum (repeat c n) == inject_Z (Z.of_nat n) * c.
Proof.
  induction n as [|n IH]; [cbn; ring|]. cbn [repeat]. rewrite qsum_cons, IH, Nat2Z.inj_succ, <- Z.add_1_l, inject_Z_plus. ring.
Qed.
Lemma sq_mean_repeat c n : (0 < n)%nat -> mean_of (repeat c n) == c.
Proof.
  intros Hn. unfold mean_of, qlen. rewrite sq_qsum_repeat, repeat_length. field.
  intro E. assert (P : 0 < inject_Z (Z.of_nat n)) by (apply inject_Z_pos; lia). rewrite E in P. inversion P.
Qed.
Lemma sq_small_in_range (c : Z) n : (-256 <= c <= 256)%Z -> stats_in_range dbl_max (repeat (inject_Z c) n).
Proof.
  intros Hc. apply Forall_forall. intros x Hx. apply repeat_spec in Hx. subst x.
  assert (H1 : inject_Z 256 <= dbl_max) by (apply Qle_bool_imp_le; vm_compute; reflexivity).
  assert (H2 : - dbl_max <= inject_Z (-256)) by (apply Qle_bool_imp_le; vm_compute; reflexivity).
  split.
  - eapply Qle_trans; [exact H2|]. rewrite <- Zle_Qle. lia.
  - eapply Qle_trans; [|exact H1]. rewrite <- Zle_Qle. lia.
Qed.
Lemma sq_summary1_const (c : Z) d : (0 < d)%nat -> (-256 <= c <= 256)%Z ->
  exists m v lo hi, sq_summary1 (repeat (Some (inject_Z c)) d) = mkSqEnt (Some m) (Some v) (Some lo) (Some hi) /\
                    m == inject_Z c.
Proof.
  intros Hd Hc.
  assert (E : repeat (Some (inject_Z c)) d = map Some (repeat (inject_Z c) d)).
  { clear. induction d; [reflexivity|]. cbn [repeat map]. rewrite IHd. reflexivity. }
  rewrite E. pose proof (sq_summary1_exact (map Some (repeat (inject_Z c) d))) as H.
  rewrite sq_finite_map_some in H.
  destruct H as (m & v & lo & hi & Eq & Em & _).
  - destruct d; [lia | discriminate].
  - apply sq_small_in_range, Hc.
  - exists m, v, lo, hi. split; [exact Eq|]. rewrite Em. apply sq_mean_repeat, Hd.
Qed.
Lemma sq_chunks_repeat {A : Type} (x : A) d j : (0 < d)%nat ->
  sq_chunks d (repeat x (j * d)) = repeat (repeat x d) j.
Proof.
  intros Hd. induction j as [|j IH].
  - cbn [Nat.mul repeat]. apply sq_chunks_short. cbn; lia.
  - replace (S j * d)%nat with (d + j * d)%nat by lia. rewrite repeat_app.
    rewrite sq_chunks_app; [|exact Hd | apply repeat_length]. rewrite IH. reflexivity.
Qed.

Lemma sq_map_repeat {A B : Type} (f : A -> B) x n : map f (repeat x n) = repeat (f x) n.
Proof. induction n; [reflexivity|]. cbn [repeat map]. rewrite IHn. reflexivity. Qed.
Lemma sq_roundf_Z (c : Z) q : q == inject_Z c -> sq_roundf q = c.
Proof.
  intros E. unfold sq_roundf.
  assert (F : forall z : Z, Qfloor (inject_Z z + (1 # 2)) = z).
  { intros z. unfold Qfloor, Qplus, inject_Z. cbn [Qnum Qden]. 
    replace (z * Z.pos 2 + 1 * Z.pos 1)%Z with (1 + z * 2)%Z by lia.
    change (Z.pos (1 * 2)) with 2%Z. rewrite Z.div_add by lia. reflexivity. }
  destruct (Qle_bool 0 q) eqn:B.
  - rewrite (Qfloor_comp _ (inject_Z c + (1 # 2))) by (rewrite E; reflexivity). apply F.
  - rewrite (Qfloor_comp _ (inject_Z (- c) + (1 # 2))) by (rewrite E, inject_Z_opp; reflexivity).
    rewrite F. lia.
Qed.
Ltac Zify.zify_post_hook ::= Z.div_mod_to_equations.
Lemma sq_recon_value_exact dt (c : Z) q : sq_dt_range dt c -> q == inject_Z c -> sq_recon_value dt q = c.
Proof.
  intros Hr E. unfold sq_recon_value. rewrite (sq_roundf_Z c q E).
  destruct dt; cbn [sq_dt_range] in Hr; cbv zeta.
  - lia.
  - lia.
  - lia.
  - destruct (Z.ltb_spec ((c mod 256) mod 16) 8) as [H|H]; lia.
  - destruct (Z.ltb_spec (c mod 256) 128) as [H|H]; lia.
Qed.
Ltac Zify.zify_post_hook ::= idtac.

Lemma sq_auto_omit_exact dt d (rnd : Q -> Q) (c : Z) j : (0 < d)%nat -> sq_dt_range dt c ->
  (forall q, q == inject_Z c -> rnd q == inject_Z c) ->
  sq_reconstruct dt d rnd (sq_level1 d (repeat (Some (inject_Z c)) (j * d))) = Some (repeat c (j * d)).
Proof.
  intros Hd Hr Hrnd. unfold sq_level1. rewrite sq_chunks_repeat by exact Hd. rewrite sq_map_repeat.
  destruct (sq_summary1_const c d Hd) as (m & v & lo & hi & -> & Em).
  { destruct dt; cbn in Hr; lia. }
  induction j as [|j IH]; [reflexivity|].
  cbn [repeat sq_reconstruct se_mean]. rewrite IH.
  rewrite (sq_recon_value_exact dt c (rnd m) Hr (Hrnd m Em)).
  replace (S j * d)%nat with (d + j * d)%nat by lia. rewrite repeat_app. reflexivity.
Qed.

(* ================================================================== *)
(* 7. the reader: accumulators that describe a window up to the variance bias *)
(* exact SAMPLE variance of a window (0 for a single sample: x / 0 = 0 in Q) *)
Definition sq_S2 (w : list Q) : Q := ssq_of w / (qlen w - 1).
(* st describes w: count, mean, min, max exact; c * ssq <= s <= ssq *)
Definition sq_approx (c : Q) (w : list Q) (st : stats) : Prop :=
  st_k st = N.of_nat (length w) /\ st_mean st == mean_of w /\
  st_min st == min_of w /\ st_max st == max_of w /\
  c * ssq_of w <= st_s st /\ st_s st <= ssq_of w.
Definition sq_out_ok (c : Q) (w : list Q) (o : sq_out) : Prop :=
  so_mean o == mean_of w /\ so_min o == min_of w /\ so_max o == max_of w /\
  c * sq_S2 w <= so_var o /\ so_var o <= sq_S2 w.

Lemma sq_approx_reset c : sq_approx c [] stats_reset.
Proof.
  unfold sq_approx, stats_reset; cbn [st_k st_mean st_s st_min st_max length min_of max_of].
  assert (E : ssq_of [] == 0) by reflexivity.
  split; [reflexivity|]. split; [reflexivity|]. split; [reflexivity|]. split; [reflexivity|].
  rewrite E. split; [rewrite Qmult_0_r; apply Qle_refl | apply Qle_refl].
Qed.

(* the mean minimises the sum of squared deviations *)
Lemma sq_ssq_min m xs : ssq_of xs <= qsum (map (fun x => (x - m) * (x - m)) xs).
Proof.
  destruct xs as [|x0 r]; [cbn; apply Qle_refl|]. set (xs := x0 :: r).
  assert (Hnz : ~ qlen xs == 0) by (apply sq_qlen_nz; discriminate).
  assert (Hp : 0 < qlen xs) by (apply qlen_pos; discriminate).
  rewrite ssq_gen, ssq_alt.
  assert (E : sumsq xs - 2 * m * qsum xs + qlen xs * m * m - (sumsq xs - qsum xs * qsum xs / qlen xs)
              == (qlen xs * m - qsum xs) * (qlen xs * m - qsum xs) / qlen xs) by (field; exact Hnz).
  assert (P : 0 <= (qlen xs * m - qsum xs) * (qlen xs * m - qsum xs) / qlen xs).
  { apply Qle_shift_div_l; [exact Hp|]. rewrite Qmult_0_l. apply Qsq_nonneg. }
  lra.
Qed.
Lemma sq_ssq_app_ge xs ys : ssq_of xs + ssq_of ys <= ssq_of (xs ++ ys).
Proof.
  unfold ssq_of at 3. rewrite map_app, qsum_app.
  pose proof (sq_ssq_min (mean_of (xs ++ ys)) xs). pose proof (sq_ssq_min (mean_of (xs ++ ys)) ys). lra.
Qed.

Definition sq_set_s (a : stats) (v : Q) : stats := mkStats (st_k a) (st_mean a) v (st_min a) (st_max a).
Lemma sq_combine_shift a b sa sb :
  let r := stats_combine a b in
  let r1 := stats_combine (sq_set_s a sa) (sq_set_s b sb) in
  st_k r = st_k r1 /\ st_mean r = st_mean r1 /\ st_min r = st_min r1 /\ st_max r = st_max r1 /\
  ((st_k a =? 0)%N = false -> (st_k b =? 0)%N = false -> (((st_k a + st_k b) mod stats_two64 =? 0)%N = false) ->
   st_s r == st_s r1 + (st_s a - sa) + (st_s b - sb)).
Proof.
  unfold stats_combine, sq_set_s. cbn [st_k st_mean st_s st_min st_max].
  destruct (((st_k a + st_k b) mod stats_two64 =? 0)%N) eqn:E1.
  { repeat split; try reflexivity. intros; discriminate. }
  destruct ((st_k a =? 0)%N) eqn:E2.
  { unfold stats_copy; cbn [st_k st_mean st_s st_min st_max]. repeat split; try reflexivity. intros; discriminate. }
  destruct ((st_k b =? 0)%N) eqn:E3.
  { unfold stats_copy; cbn [st_k st_mean st_s st_min st_max]. repeat split; try reflexivity. intros; discriminate. }
  cbn [st_k st_mean st_s st_min st_max]. repeat split; try reflexivity.
  intros _ _ _. qnorm. ring.
Qed.

Lemma sq_combine_approx c xs ys a b : 0 <= c -> c <= 1 ->
  (N.of_nat (length (xs ++ ys)) < stats_two64)%N ->
  sq_approx c xs a -> sq_approx c ys b -> sq_approx c (xs ++ ys) (stats_combine a b).
Proof.
  intros Hc0 Hc1 Hlen (Ak & Am & Ami & Ama & Al & Au) (Bk & Bm & Bmi & Bma & Bl & Bu).
  destruct xs as [|x0 xr].
  { (* a->k == 0 *)
    cbn [app]. unfold stats_combine. rewrite Ak. cbn [length N.of_nat]. rewrite N.add_0_l.
    cbn [app] in Hlen. rewrite N.mod_small by (rewrite Bk; exact Hlen).
    destruct (N.eqb_spec (st_k b) 0) as [E|E].
    - assert (ys = []) by (destruct ys; [reflexivity | rewrite Bk in E; cbn in E; lia]). subst ys. apply sq_approx_reset.
    - change ((0 =? 0)%N) with true. cbv iota. rewrite copy_id. repeat split; assumption. }
  destruct ys as [|y0 yr].
  { rewrite app_nil_r in *. unfold stats_combine. rewrite Bk. cbn [length N.of_nat]. rewrite N.add_0_r.
    rewrite N.mod_small by (rewrite Ak; exact Hlen).
    destruct (N.eqb_spec (st_k a) 0) as [E|E]; [rewrite Ak in E; cbn in E; lia|].
    change ((0 =? 0)%N) with true. cbv iota. rewrite copy_id. repeat split; assumption. }
  set (xs := x0 :: xr) in *. set (ys := y0 :: yr) in *.
  destruct (sq_combine_shift a b (ssq_of xs) (ssq_of ys)) as (Rk & Rm & Rmi & Rma & Rs).
  assert (Ea : stats_eq (sq_set_s a (ssq_of xs)) (stats_of xs)).
  { unfold stats_eq, sq_set_s, stats_of; cbn [st_k st_mean st_s st_min st_max]. repeat split; try assumption; reflexivity. }
  assert (Eb : stats_eq (sq_set_s b (ssq_of ys)) (stats_of ys)).
  { unfold stats_eq, sq_set_s, stats_of; cbn [st_k st_mean st_s st_min st_max]. repeat split; try assumption; reflexivity. }
  pose proof (combine_app_eq _ _ xs ys Ea Eb Hlen) as (Ck & Cm & Cs & Cmi & Cma).
  cbn [stats_of st_k st_mean st_s st_min st_max] in Ck, Cm, Cs, Cmi, Cma.
  assert (Rs' : st_s (stats_combine a b) == ssq_of (xs ++ ys) + (st_s a - ssq_of xs) + (st_s b - ssq_of ys)).
  { rewrite <- Cs. apply Rs.
    - apply N.eqb_neq. rewrite Ak. unfold xs. cbn. lia.
    - apply N.eqb_neq. rewrite Bk. unfold ys. cbn. lia.
    - apply N.eqb_neq. rewrite Ak, Bk, <- Nat2N.inj_add, <- app_length, N.mod_small by exact Hlen. unfold xs. cbn. lia. }
  unfold sq_approx. rewrite Rk, Rm, Rmi, Rma.
  split; [exact Ck|]. split; [exact Cm|]. split; [exact Cmi|]. split; [exact Cma|].
  rewrite Rs'. pose proof (sq_ssq_app_ge xs ys) as Hge.
  pose proof (ssq_nonneg xs) as Px. pose proof (ssq_nonneg ys) as Py.
  set (t := ssq_of (xs ++ ys)) in *. set (u := ssq_of xs) in *. set (v := ssq_of ys) in *.
  split; [|lra].
  assert (Hm : (u + v) * (1 - c) <= t * (1 - c)).
  { apply Qmult_le_compat_r; [exact Hge | lra]. }
  lra.
Qed.

Lemma sq_inject_Z_minus a b : inject_Z (a - b) == inject_Z a - inject_Z b.
Proof. unfold Zminus. rewrite inject_Z_plus, inject_Z_opp. reflexivity. Qed.
Lemma sq_qlen_minus1 (w : list Q) : inject_Z (Z.of_nat (length w) - 1) == qlen w - 1.
Proof. unfold qlen, Zminus. rewrite inject_Z_plus. reflexivity. Qed.
Lemma sq_S2_single x : sq_S2 [x] == 0.
Proof. unfold sq_S2. rewrite sq_ssq_single. unfold Qdiv. ring. Qed.
Lemma sq_qlen_ge2 (w : list Q) : (2 <= length w)%nat -> 0 < qlen w - 1.
Proof.
  intros H. rewrite <- sq_qlen_minus1. apply inject_Z_pos. lia.
Qed.
Lemma sq_S2_nonneg w : 0 <= sq_S2 w.
Proof.
  destruct w as [|x [|y w]].
  - unfold sq_S2, Qdiv. cbn. apply Qle_refl.
  - rewrite sq_S2_single. apply Qle_refl.
  - unfold sq_S2. apply Qle_shift_div_l; [apply sq_qlen_ge2; cbn; lia|]. rewrite Qmult_0_l. apply ssq_nonneg.
Qed.
Lemma sq_S2_mul w : (2 <= length w)%nat -> sq_S2 w * (qlen w - 1) == ssq_of w.
Proof.
  intros H. pose proof (sq_qlen_ge2 w H) as P. unfold sq_S2. field. intro E. rewrite E in P. inversion P.
Qed.

Lemma sq_to_stats_approx c w o : w <> [] -> 0 <= c -> sq_out_ok c w o ->
  sq_approx c w (sq_to_stats o (Z.of_nat (length w))).
Proof.
  intros Hne Hc (Em & Emi & Ema & El & Eu). unfold sq_approx, sq_to_stats; cbn [st_k st_mean st_s st_min st_max].
  split; [lia|]. split; [exact Em|]. split; [exact Emi|]. split; [exact Ema|].
  destruct (Z.ltb_spec 1 (Z.of_nat (length w))) as [H|H].
  - assert (H2 : (2 <= length w)%nat) by lia.
    pose proof (sq_qlen_ge2 w H2) as P. rewrite qmul_eq, sq_qlen_minus1, <- (sq_S2_mul w H2).
    split.
    + rewrite Qmult_assoc. apply Qmult_le_compat_r; [exact El | apply Qlt_le_weak, P].
    + apply Qmult_le_compat_r; [exact Eu | apply Qlt_le_weak, P].
  - destruct w as [|x [|y w]]; [congruence | | cbn in H; lia].
    rewrite sq_ssq_single. split; [rewrite Qmult_0_r; apply Qle_refl | apply Qle_refl].
Qed.

Lemma sq_of_stats_ok c w st : w <> [] -> sq_approx c w st -> sq_out_ok c w (sq_of_stats st).
Proof.
  intros Hne (Ek & Em & Emi & Ema & El & Eu). unfold sq_out_ok, sq_of_stats; cbn [so_mean so_var so_min so_max].
  split; [exact Em|]. split; [exact Emi|]. split; [exact Ema|].
  unfold stats_var. rewrite Ek.
  destruct (N.leb_spec (N.of_nat (length w)) 1) as [H|H].
  - destruct w as [|x [|y w]]; [congruence | | cbn in H; lia].
    rewrite sq_S2_single. split; [rewrite Qmult_0_r; apply Qle_refl | apply Qle_refl].
  - assert (H2 : (2 <= length w)%nat) by lia. pose proof (sq_qlen_ge2 w H2) as P.
    assert (Eq : q_of_N (N.of_nat (length w) - 1) == qlen w - 1).
    { unfold q_of_N. rewrite <- sq_qlen_minus1. f_equiv. lia. }
    rewrite qdiv_eq, Eq. unfold sq_S2. split.
    + apply Qle_shift_div_l; [exact P|].
      setoid_replace (c * (ssq_of w / (qlen w - 1)) * (qlen w - 1)) with (c * ssq_of w); [exact El|].
      field. intro E. rewrite E in P. inversion P.
    + apply Qle_shift_div_l; [exact P|].
      setoid_replace (st_s st / (qlen w - 1) * (qlen w - 1)) with (st_s st); [exact Eu|].
      field. intro E. rewrite E in P. inversion P.
Qed.

Lemma sq_mul_le_l z x y : 0 <= z -> x <= y -> z * x <= z * y.
Proof. intros Hz H. rewrite !(Qmult_comm z). apply Qmult_le_compat_r; assumption. Qed.
Lemma sq_bias_mono D T : 0 < D -> D <= T -> (D - 1) / D <= (T - 1) / T.
Proof.
  intros HD HT. assert (HT0 : 0 < T) by lra.
  assert (E : (T - 1) / T - (D - 1) / D == (T - D) / (T * D)).
  { field. split; intro X; [rewrite X in HD; inversion HD | rewrite X in HT0; inversion HT0]. }
  assert (P : 0 <= (T - D) / (T * D)).
  { apply Qle_shift_div_l; [|lra]. rewrite <- (Qmult_0_l D). apply Qmult_lt_compat_r; assumption. }
  lra.
Qed.

(* a stored entry re-read with count = its number of samples *)
Lemma sq_entry_approx d e w eo : (1 <= d)%nat -> (d <= length w)%nat ->
  sq_exact e w -> sq_ent_out e = Some eo ->
  sq_approx ((inject_Z (Z.of_nat d) - 1) / inject_Z (Z.of_nat d)) w (sq_to_stats eo (Z.of_nat (length w))).
Proof.
  intros Hd Hdw (m & v & lo & hi & -> & Em & Ev & Elo & Ehi) Heo.
  cbn in Heo. inversion Heo; subst eo. clear Heo.
  unfold sq_approx, sq_to_stats; cbn [st_k st_mean st_s st_min st_max so_mean so_var so_min so_max].
  split; [lia|]. split; [exact Em|]. split; [exact Elo|]. split; [exact Ehi|].
  assert (Hne : w <> []) by (intro E; subst w; cbn in Hdw; lia).
  pose proof (ssq_nonneg w) as Ps.
  destruct (Z.ltb_spec 1 (Z.of_nat (length w))) as [H|H].
  - assert (H2 : (2 <= length w)%nat) by lia.
    pose proof (qlen_pos w Hne) as Pq. pose proof (sq_qlen_nz w Hne) as Nq.
    rewrite qmul_eq, Ev, sq_qlen_minus1.
    setoid_replace (ssq_of w / qlen w * (qlen w - 1)) with (ssq_of w * ((qlen w - 1) / qlen w)) by (field; exact Nq).
    split.
    + rewrite (Qmult_comm _ (ssq_of w)). apply sq_mul_le_l; [exact Ps|].
      apply sq_bias_mono; [apply inject_Z_pos; lia|]. unfold qlen. rewrite <- Zle_Qle. lia.
    + setoid_replace (ssq_of w) with (ssq_of w * 1) at 2 by ring. apply sq_mul_le_l; [exact Ps|].
      apply Qle_shift_div_r; [exact Pq | lra].
  - destruct w as [|x [|y w]]; [congruence | | cbn in H; lia].
    rewrite sq_ssq_single. split; [rewrite Qmult_0_r; apply Qle_refl | apply Qle_refl].
Qed.

(* level-0 path: one window *)
Lemma sq_l0_window_exact w : w <> [] -> stats_in_range dbl_max w ->
  let o := sq_l0_window (Z.of_nat (length w)) w in
  so_mean o == mean_of w /\ so_min o == min_of w /\ so_max o == max_of w /\ so_var o == sq_S2 w.
Proof.
  intros Hne Hr. unfold sq_l0_window. rewrite pass1_split. cbv zeta iota beta. cbn [so_mean so_var so_min so_max].
  pose proof (sq_qlen_nz w Hne) as Nq.
  assert (Hm : qr_mul (fold_left qr_add w 0) (qr_div 1 (inject_Z (Z.of_nat (length w)))) == mean_of w).
  { qnorm. rewrite fold_qadd. unfold mean_of. fold (qlen w). field. exact Nq. }
  split; [exact Hm|]. split; [|split].
  - apply (is_min_unique _ _ w); [apply fold_selmin_sentinel | apply min_of_is_min]; assumption.
  - apply (is_max_unique _ _ w); [apply fold_selmax_sentinel | apply max_of_is_max]; assumption.
  - rewrite qmul_eq, fold_pass2, Qplus_0_l.
    assert (Es : qsum (map (fun x => (x - qr_mul (fold_left qr_add w 0) (qr_div 1 (inject_Z (Z.of_nat (length w))))) *
                                     (x - qr_mul (fold_left qr_add w 0) (qr_div 1 (inject_Z (Z.of_nat (length w)))))) w) == ssq_of w).
    { unfold ssq_of. rewrite !ssq_gen, Hm. reflexivity. }
    rewrite Es.
    destruct (Z.ltb_spec 1 (Z.of_nat (length w))) as [H|H].
    + assert (H2 : (2 <= length w)%nat) by lia. pose proof (sq_qlen_ge2 w H2) as P.
      qnorm. fold (qlen w). unfold sq_S2. field. intro E. rewrite E in P. inversion P.
    + destruct w as [|x [|y w]]; [congruence | | cbn in H; lia].
      rewrite sq_S2_single, sq_ssq_single. ring.
Qed.
Lemma sq_l0_window_ok c w : w <> [] -> stats_in_range dbl_max w -> c <= 1 ->
  sq_out_ok c w (sq_l0_window (Z.of_nat (length w)) w).
Proof.
  intros Hne Hr Hc. destruct (sq_l0_window_exact w Hne Hr) as (E1 & E2 & E3 & E4).
  unfold sq_out_ok. split; [exact E1|]. split; [exact E2|]. split; [exact E3|]. rewrite E4.
  pose proof (sq_S2_nonneg w) as P. split; [|apply Qle_refl].
  setoid_replace (sq_S2 w) with (1 * sq_S2 w) at 2 by ring. apply Qmult_le_compat_r; assumption.
Qed.

Lemma sq_all_some_map (w : list Q) : sq_all_some (map Some w) = Some w.
Proof. induction w as [|x w IH]; [reflexivity|]. cbn [map sq_all_some]. rewrite IH. reflexivity. Qed.

(* windows addressed with Z *)
Definition sq_zrng {A : Type} (l : list A) (a n : Z) : list A := sq_rng l (Z.to_nat a) (Z.to_nat n).
Lemma sq_zrng_split {A : Type} (l : list A) a n1 n2 : (0 <= a)%Z -> (0 <= n1)%Z -> (0 <= n2)%Z ->
  sq_zrng l a (n1 + n2) = sq_zrng l a n1 ++ sq_zrng l (a + n1) n2.
Proof. intros Ha H1 H2. unfold sq_zrng. rewrite !Z2Nat.inj_add by lia. apply sq_rng_split. Qed.
Lemma sq_zrng_length {A : Type} (l : list A) a n : (0 <= a)%Z -> (0 <= n)%Z -> (a + n <= Z.of_nat (length l))%Z ->
  length (sq_zrng l a n) = Z.to_nat n.
Proof. intros Ha Hn H. unfold sq_zrng. apply sq_rng_length. lia. Qed.
Lemma sq_zrng_nil {A : Type} (l : list A) a : sq_zrng l a 0 = [].
Proof. reflexivity. Qed.
Lemma sq_zrng_map {A B : Type} (f : A -> B) l a n : sq_zrng (map f l) a n = map f (sq_zrng l a n).
Proof. unfold sq_zrng, sq_rng. rewrite skipn_map, firstn_map. reflexivity. Qed.

(* level selection *)
Lemma sq_sel_loop_spec fuel sumdf incr dur : forall smn lvl L,
  sq_sel_loop fuel sumdf incr dur smn lvl = Some L ->
  (lvl <= L)%nat /\ ((lvl < L)%nat -> (smn * sumdf ^ Z.of_nat (L - lvl - 1) <= incr)%Z).
Proof.
  induction fuel as [|f IH]; intros smn lvl L H; [discriminate|]. cbn [sq_sel_loop] in H.
  destruct ((smn <=? incr)%Z && (sq_dpd * smn <=? dur)%Z) eqn:E.
  - apply IH in H. destruct H as [H1 H2]. split; [lia|]. intros _.
    destruct (Nat.eq_dec L (S lvl)) as [->|Hne].
    + replace (S lvl - lvl - 1)%nat with 0%nat by lia. rewrite Z.pow_0_r, Z.mul_1_r.
      apply andb_true_iff in E. lia.
    + specialize (H2 ltac:(lia)). replace (L - lvl - 1)%nat with (S (L - S lvl - 1)) by lia.
      rewrite Nat2Z.inj_succ, Z.pow_succ_r by lia. lia.
  - inversion H; subst. split; [lia | lia].
Qed.

Lemma sq_bind_out_ok {A : Type} r (f : sq_out -> sq_res A) v :
  sq_bind_out r f = SqOk v -> exists o, r = SqOk [o] /\ f o = SqOk v.
Proof.
  unfold sq_bind_out. destruct r as [[|o [|o' l]]| | |]; try discriminate.
  intros H. exists o. split; [reflexivity | exact H].
Qed.

Lemma sq_fsr_loop_1 lower step incr es acc rem start :
  sq_fsr_loop lower step incr es acc rem start 1 =
  match es with
  | [] => if (rem <=? step)%Z
          then sq_bind_out (lower start rem) (fun o => SqOk [sq_of_stats (stats_combine acc (sq_to_stats o rem))])
          else SqErr
  | e :: es' =>
    if (rem <=? step)%Z
    then sq_bind_out (lower start rem) (fun o => SqOk [sq_of_stats (stats_combine acc (sq_to_stats o rem))])
    else match sq_ent_out e with
         | None => SqNaN
         | Some eo => sq_fsr_loop lower step incr es' (stats_combine acc (sq_to_stats eo step)) (rem - step)%Z (start + step)%Z 1
         end
  end.
Proof. destruct es; cbn [sq_fsr_loop Nat.eqb]; destruct (rem <=? step)%Z; reflexivity. Qed.

Lemma sq_step_span dn sn level :
  sq_step (Z.of_nat dn) (Z.of_nat sn) level = Z.of_nat (sq_span dn sn level).
Proof. unfold sq_step, sq_span. rewrite Nat2Z.inj_mul, Nat2Z.inj_pow. reflexivity. Qed.

Section SingleWindow.
  Variables (dn sn : nat) (xq : list Q) (top : nat) (l0_ok : bool).
  Hypothesis Hd : (1 <= dn)%nat.
  Hypothesis Hs : (1 <= sn)%nat.
  Hypothesis Hr : stats_in_range dbl_max xq.
  Hypothesis Hlen : (N.of_nat (length xq) < stats_two64)%N.
  Let xs := map Some xq.
  Let lv := sq_levels dn sn xs.
  Let len := Z.of_nat (length xq).
  Let c : Q := (inject_Z (Z.of_nat dn) - 1) / inject_Z (Z.of_nat dn).

  Lemma sq_c_range : 0 <= c /\ c <= 1.
  Proof.
    assert (P : 0 < inject_Z (Z.of_nat dn)) by (apply inject_Z_pos; lia).
    assert (P1 : 1 <= inject_Z (Z.of_nat dn)) by (change 1 with (inject_Z 1); rewrite <- Zle_Qle; lia).
    unfold c. split.
    - apply Qle_shift_div_l; [exact P | lra].
    - apply Qle_shift_div_r; [exact P | lra].
  Qed.

  Definition sq_lower_ok (lower : Z -> Z -> sq_res (list sq_out)) : Prop :=
    forall s n outs, lower s n = SqOk outs ->
      exists o, outs = [o] /\ (0 <= s)%Z /\ (0 < n)%Z /\ (s + n <= len)%Z /\ sq_out_ok c (sq_zrng xq s n) o.

  Lemma sq_zrng_ne s n : (0 <= s)%Z -> (0 < n)%Z -> (s + n <= len)%Z -> sq_zrng xq s n <> [].
  Proof.
    intros H1 H2 H3 E. pose proof (sq_zrng_length xq s n H1 ltac:(lia) H3) as L. rewrite E in L. cbn in L. lia.
  Qed.
  Lemma sq_zrng_in_range s n : stats_in_range dbl_max (sq_zrng xq s n).
  Proof. apply (sq_in_range_incl _ _ xq); [apply sq_rng_incl | exact Hr]. Qed.
  Lemma sq_zrng_bound s n : (N.of_nat (length (sq_zrng xq s n)) < stats_two64)%N.
  Proof.
    eapply N.le_lt_trans; [|exact Hlen]. unfold sq_zrng, sq_rng. rewrite firstn_length, skipn_length. lia.
  Qed.

  (* appending a piece [cur, cur+n) described by st to the accumulator of [s0, cur) *)
  Lemma sq_piece acc s0 cur n st : (0 <= s0 <= cur)%Z -> (0 <= n)%Z ->
    sq_approx c (sq_zrng xq s0 (cur - s0)) acc -> sq_approx c (sq_zrng xq cur n) st ->
    sq_approx c (sq_zrng xq s0 (cur + n - s0)) (stats_combine acc st).
  Proof.
    intros H0 Hn Ha Hst. destruct sq_c_range as [C0 C1].
    assert (E : sq_zrng xq s0 (cur + n - s0) = sq_zrng xq s0 (cur - s0) ++ sq_zrng xq cur n).
    { replace (cur + n - s0)%Z with ((cur - s0) + n)%Z by lia.
      rewrite sq_zrng_split by lia. replace (s0 + (cur - s0))%Z with cur by lia. reflexivity. }
    rewrite E. apply sq_combine_approx; try assumption.
    rewrite <- E. apply sq_zrng_bound.
  Qed.
  Lemma sq_piece_out acc s0 cur n o : (0 <= s0 <= cur)%Z -> (0 < n)%Z -> (cur + n <= len)%Z ->
    sq_approx c (sq_zrng xq s0 (cur - s0)) acc -> sq_out_ok c (sq_zrng xq cur n) o ->
    sq_approx c (sq_zrng xq s0 (cur + n - s0)) (stats_combine acc (sq_to_stats o n)).
  Proof.
    intros H0 Hn Hle Ha Ho. destruct sq_c_range as [C0 C1]. apply sq_piece; [lia | lia | exact Ha |].
    pose proof (sq_zrng_length xq cur n ltac:(lia) ltac:(lia) Hle) as L.
    replace n with (Z.of_nat (length (sq_zrng xq cur n))) at 2 by lia.
    apply sq_to_stats_approx; [apply sq_zrng_ne; lia | exact C0 | exact Ho].
  Qed.

  Lemma sq_lv_entry level j e : (1 <= level)%nat -> nth_error (lv level) j = Some e ->
    ((j + 1) * sq_span dn sn level <= length xq)%nat /\
    sq_exact e (sq_rng xq (j * sq_span dn sn level) (sq_span dn sn level)).
  Proof. intros HL H. apply (sq_summary_exact dn sn xq level j e Hd Hs HL Hr H). Qed.

  Lemma sq_piece_entry acc s0 level j e eo : (1 <= level)%nat ->
    nth_error (lv level) j = Some e -> sq_ent_out e = Some eo ->
    let span := sq_span dn sn level in
    let cur := Z.of_nat (j * span) in
    (0 <= s0 <= cur)%Z ->
    sq_approx c (sq_zrng xq s0 (cur - s0)) acc ->
    (cur + Z.of_nat span <= len)%Z /\
    sq_approx c (sq_zrng xq s0 (cur + Z.of_nat span - s0)) (stats_combine acc (sq_to_stats eo (Z.of_nat span))).
  Proof.
    intros HL Hn Heo span cur H0 Ha.
    destruct (sq_lv_entry level j e HL Hn) as [Hle Hex]. fold span in Hle, Hex.
    assert (Hsp : (0 < span)%nat) by (apply sq_span_pos; lia).
    split; [unfold cur, len; lia|].
    apply sq_piece; [lia | lia | exact Ha |].
    unfold sq_zrng, cur. rewrite !Nat2Z.id.
    pose proof (sq_rng_length xq (j * span) span ltac:(lia)) as L.
    assert (Hds : (dn <= span)%nat).
    { unfold span, sq_span. assert (0 < sn ^ (level - 1))%nat by (apply Nat.neq_0_lt_0, Nat.pow_nonzero; lia). nia. }
    pose proof (sq_entry_approx dn e (sq_rng xq (j * span) span) eo Hd ltac:(rewrite L; exact Hds) Hex Heo) as X.
    rewrite L in X. exact X.
  Qed.

  (* the while loop of fsr_statistics for data_length = 1 *)
  Lemma sq_loop1 lower level incr : sq_lower_ok lower -> (1 <= level)%nat ->
    let span := sq_span dn sn level in
    forall es acc rem j cur s0 outs,
      es = skipn j (lv level) -> cur = Z.of_nat (j * span) ->
      (0 <= s0 <= cur)%Z -> (0 < rem)%Z -> (cur + rem <= len)%Z ->
      sq_approx c (sq_zrng xq s0 (cur - s0)) acc ->
      sq_fsr_loop lower (Z.of_nat span) incr es acc rem cur 1 = SqOk outs ->
      exists o, outs = [o] /\ sq_out_ok c (sq_zrng xq s0 (cur + rem - s0)) o.
  Proof.
    intros Hlow HL span. induction es as [|e es' IH]; intros acc rem j cur s0 outs Hes Hcur H0 Hrem Hle Ha H;
      rewrite sq_fsr_loop_1 in H.
    - destruct (rem <=? Z.of_nat span)%Z; [|discriminate].
      apply sq_bind_out_ok in H. destruct H as (o & Hl & H). inversion H; subst outs.
      apply Hlow in Hl. destruct Hl as (o' & Eo & _ & _ & _ & Hok). inversion Eo; subst o'.
      eexists. split; [reflexivity|]. apply sq_of_stats_ok; [apply sq_zrng_ne; lia|].
      apply sq_piece_out; assumption.
    - destruct (rem <=? Z.of_nat span)%Z eqn:Ecmp.
      + apply sq_bind_out_ok in H. destruct H as (o & Hl & H). inversion H; subst outs.
        apply Hlow in Hl. destruct Hl as (o' & Eo & _ & _ & _ & Hok). inversion Eo; subst o'.
        eexists. split; [reflexivity|]. apply sq_of_stats_ok; [apply sq_zrng_ne; lia|].
        apply sq_piece_out; assumption.
      + destruct (sq_ent_out e) as [eo|] eqn:Heo; [|discriminate].
        assert (Hn : nth_error (lv level) j = Some e).
        { rewrite <- (firstn_skipn j (lv level)), <- Hes.
          assert (Hj : (j <= length (lv level))%nat).
          { destruct (Nat.le_gt_cases j (length (lv level))) as [X|X]; [exact X|].
            rewrite skipn_all2 in Hes by lia. discriminate. }
          rewrite nth_error_app2 by (rewrite firstn_length; lia).
          rewrite firstn_length. replace (j - Nat.min j (length (lv level)))%nat with 0%nat by lia. reflexivity. }
        assert (Hes' : es' = skipn (S j) (lv level)).
        { replace (S j) with (j + 1)%nat by lia. rewrite <- sq_skipn_add, <- Hes. reflexivity. }
        subst cur.
        destruct (sq_piece_entry acc s0 level j e eo HL Hn Heo H0 Ha) as [Hle' Ha']. fold span in Hle', Ha'.
        apply Z.leb_gt in Ecmp.
        specialize (IH (stats_combine acc (sq_to_stats eo (Z.of_nat span))) (rem - Z.of_nat span)%Z (S j)
                       (Z.of_nat (j * span) + Z.of_nat span)%Z s0 outs Hes' ltac:(lia) ltac:(lia) ltac:(lia) ltac:(lia) Ha' H). destruct IH as (o & Eo & Hok). exists o. split; [exact Eo|].
        replace (Z.of_nat (j * span) + rem - s0)%Z with (Z.of_nat (j * span) + Z.of_nat span + (rem - Z.of_nat span) - s0)%Z by lia.
        exact Hok.
  Qed.

  Lemma sq_fsr_stats1 lower start n level outs : sq_lower_ok lower -> (1 <= level)%nat ->
    (0 <= start)%Z -> (Z.of_nat (sq_span dn sn level) <= n)%Z -> (start + n <= len)%Z ->
    sq_fsr_stats (Z.of_nat dn) (Z.of_nat sn) lv top lower start n level 1 = SqOk outs ->
    exists o, outs = [o] /\ sq_out_ok c (sq_zrng xq start n) o.
  Proof.
    intros Hlow HL Hs0 Hn Hle H. unfold sq_fsr_stats in H.
    destruct (top <? level)%nat; [discriminate|]. rewrite sq_step_span in H.
    set (span := sq_span dn sn level) in *.
    assert (Hsp : (0 < span)%nat) by (apply sq_span_pos; lia).
    set (step := Z.of_nat span) in *. assert (Hst : (0 < step)%Z) by (unfold step; lia).
    destruct (Z.leb_spec step 0) as [X|_]; [lia|].
    set (q := ((start + step - 1) / step)%Z) in *.
    pose proof (Z.div_mod (start + step - 1) step ltac:(lia)) as Hdm. fold q in Hdm.
    pose proof (Z.mod_pos_bound (start + step - 1) step Hst) as Hmb.
    set (r := ((start + step - 1) mod step)%Z) in *.
    assert (Hq0 : (0 <= q)%Z) by (unfold q; apply Z.div_pos; lia).
    assert (Hcur : (q * step)%Z = Z.of_nat (Z.to_nat q * span)).
    { rewrite Nat2Z.inj_mul, Z2Nat.id by lia. reflexivity. }
    assert (Hqs : (start <= q * step < start + step)%Z) by lia.
    destruct sq_c_range as [C0 C1].
    destruct (Z.eqb_spec (q * step) start) as [E|E].
    - destruct (sq_loop1 lower level n Hlow HL (skipn (Z.to_nat q) (lv level)) stats_reset n (Z.to_nat q) start start outs
                  eq_refl ltac:(fold span; lia) ltac:(lia) ltac:(lia) Hle) as (o & Eo & Hok).
      + rewrite Z.sub_diag, sq_zrng_nil. apply sq_approx_reset.
      + exact H.
      + exists o. split; [exact Eo|]. replace (start + n - start)%Z with n in Hok by lia. exact Hok.
    - apply sq_bind_out_ok in H. destruct H as (o & Hl & H).
      apply Hlow in Hl. destruct Hl as (o' & Eo & _ & Hh & Hhl & Hok). inversion Eo; subst o'.
      set (h := (q * step - start)%Z) in *.
      destruct (sq_loop1 lower level n Hlow HL (skipn (Z.to_nat q) (lv level)) (sq_to_stats o h) (n - h)%Z (Z.to_nat q) (start + h)%Z start outs
                  eq_refl ltac:(fold span; unfold h; lia) ltac:(lia) ltac:(unfold h; lia) ltac:(lia)) as (o2 & Eo2 & Hok2).
      + replace (start + h - start)%Z with h by lia.
        pose proof (sq_zrng_length xq start h Hs0 ltac:(lia) Hhl) as L.
        replace h with (Z.of_nat (length (sq_zrng xq start h))) at 2 by lia.
        apply sq_to_stats_approx; [apply sq_zrng_ne; lia | exact C0 | exact Hok].
      + exact H.
      + exists o2. split; [exact Eo2|]. replace (start + h + (n - h) - start)%Z with n in Hok2 by lia. exact Hok2.
  Qed.

  Lemma sq_core_stats_S f start increment count :
    sq_core_stats (Z.of_nat dn) (Z.of_nat sn) xs lv top l0_ok (S f) start increment count =
      if (increment <=? 0)%Z then SqErr
      else if (count <=? 0)%Z then SqOk []
      else if (start <? 0)%Z then SqErr
      else
        let samples := Z.of_nat (length xs) in
        if ((samples <? increment) || (samples / increment <? count)
            || (samples - increment * count <? start))%Z then SqErr
        else
          match sq_sel_loop 64 (Z.of_nat sn) increment (increment * count)%Z (Z.of_nat dn) 0 with
          | None => SqFault SF_Nonterm
          | Some O =>
            if l0_ok
            then sq_l0_loop (Z.to_nat increment) (skipn (Z.to_nat start) xs) (Z.to_nat count)
            else SqErr
          | Some level =>
            sq_fsr_stats (Z.of_nat dn) (Z.of_nat sn) lv top
              (fun s i => sq_core_stats (Z.of_nat dn) (Z.of_nat sn) xs lv top l0_ok f s i 1%Z) start increment level (Z.to_nat count)
          end.
  Proof. reflexivity. Qed.

  Lemma sq_core_lower_ok fuel :
    sq_lower_ok (fun s i => sq_core_stats (Z.of_nat dn) (Z.of_nat sn) xs lv top l0_ok fuel s i 1%Z).
  Proof.
    induction fuel as [|f IH]; intros s n outs H; [discriminate|].
    rewrite sq_core_stats_S in H.
    destruct (Z.leb_spec n 0) as [|Hn]; [discriminate|].
    change ((1 <=? 0)%Z) with false in H. cbv iota in H.
    destruct (Z.ltb_spec s 0) as [|Hs0]; [discriminate|].
    cbv zeta in H.
    assert (Elen : Z.of_nat (length xs) = len) by (unfold xs, len; rewrite map_length; reflexivity).
    rewrite Elen in H.
    destruct ((len <? n)%Z || (len / n <? 1)%Z || (len - n * 1 <? s)%Z) eqn:Ec; [discriminate|].
    apply orb_false_iff in Ec. destruct Ec as [Ec E3]. apply orb_false_iff in Ec. destruct Ec as [E1 E2].
    apply Z.ltb_ge in E1, E3.
    assert (Hle : (s + n <= len)%Z) by lia.
    destruct sq_c_range as [C0 C1].
    destruct (sq_sel_loop 64 (Z.of_nat sn) n (n * 1) (Z.of_nat dn) 0) as [[|l]|] eqn:Esel; [| |discriminate].
    - (* level 0 *)
      destruct l0_ok; [|discriminate].
      change (Z.to_nat 1) with 1%nat in H. cbn [sq_l0_loop] in H.
      rewrite sq_take_firstn in H by (rewrite skipn_length; unfold xs; rewrite map_length; unfold len in Hle; lia).
      change (firstn (Z.to_nat n) (skipn (Z.to_nat s) xs)) with (sq_zrng xs s n) in H.
      unfold xs in H at 1. rewrite sq_zrng_map, sq_all_some_map in H.
      inversion H; subst outs. eexists. split; [reflexivity|]. split; [lia|]. split; [lia|]. split; [exact Hle|].
      pose proof (sq_zrng_length xq s n Hs0 ltac:(lia) Hle) as L.
      replace (Z.of_nat (Z.to_nat n)) with (Z.of_nat (length (sq_zrng xq s n))) by lia.
      apply sq_l0_window_ok; [apply sq_zrng_ne; lia | apply sq_zrng_in_range | exact C1].
    - (* level >= 1 *)
      change (Z.to_nat 1) with 1%nat in H.
      apply sq_sel_loop_spec in Esel. destruct Esel as [_ Hsel]. specialize (Hsel ltac:(lia)).
      replace (S l - 0 - 1)%nat with (S l - 1)%nat in Hsel by lia.
      fold (sq_step (Z.of_nat dn) (Z.of_nat sn) (S l)) in Hsel. rewrite sq_step_span in Hsel.
      destruct (sq_fsr_stats1 _ s n (S l) outs IH ltac:(lia) Hs0 Hsel Hle H) as (o & Eo & Hok).
      exists o. split; [exact Eo|]. split; [lia|]. split; [lia|]. split; [exact Hle | exact Hok].
  Qed.

  (* single_window: the whole reader, any fuel, any level the selection loop picks *)
  Lemma sq_single_window fuel start n outs :
    sq_core_stats (Z.of_nat dn) (Z.of_nat sn) xs lv top l0_ok fuel start n 1 = SqOk outs ->
    exists o, outs = [o] /\ (0 <= start)%Z /\ (0 < n)%Z /\ (start + n <= len)%Z /\
      sq_out_ok c (sq_zrng xq start n) o.
  Proof. intros H. apply (sq_core_lower_ok fuel start n outs H). Qed.

  (* ---------------------------------------------------------------- *)
  (* multi-window requests: the mass (count * mean) of the accumulators *)
  Definition sq_mass (st : stats) : Q := q_of_N (st_k st) * st_mean st.

  Lemma sq_q_of_N_add a b : q_of_N (a + b) == q_of_N a + q_of_N b.
  Proof. unfold q_of_N. rewrite N2Z.inj_add, inject_Z_plus. reflexivity. Qed.

  Lemma sq_combine_k a b : (st_k a + st_k b < stats_two64)%N ->
    st_k (stats_combine a b) = (st_k a + st_k b)%N.
  Proof.
    intros H. unfold stats_combine. rewrite N.mod_small by exact H.
    destruct (N.eqb_spec (st_k a + st_k b) 0) as [E|E]; [cbn; lia|].
    destruct (N.eqb_spec (st_k a) 0) as [Ea|Ea]; [rewrite copy_id; lia|].
    destruct (N.eqb_spec (st_k b) 0) as [Eb|Eb]; [rewrite copy_id; lia|]. reflexivity.
  Qed.
  Lemma sq_combine_mass a b : (st_k a + st_k b < stats_two64)%N ->
    sq_mass (stats_combine a b) == sq_mass a + sq_mass b.
  Proof.
    intros H. unfold sq_mass, stats_combine. rewrite N.mod_small by exact H.
    destruct (N.eqb_spec (st_k a + st_k b) 0) as [E|E].
    { assert (st_k a = 0%N) by lia. assert (st_k b = 0%N) by lia. rewrite H0, H1. cbn [stats_reset st_k st_mean].
      change (q_of_N 0) with 0. ring. }
    destruct (N.eqb_spec (st_k a) 0) as [Ea|Ea].
    { rewrite copy_id, Ea. change (q_of_N 0) with 0. ring. }
    destruct (N.eqb_spec (st_k b) 0) as [Eb|Eb].
    { rewrite copy_id, Eb. change (q_of_N 0) with 0. ring. }
    cbn [st_k st_mean]. qnorm. rewrite sq_q_of_N_add.
    assert (Pa : 0 < q_of_N (st_k a)) by (unfold q_of_N; apply inject_Z_pos; lia).
    assert (Pb : 0 < q_of_N (st_k b)) by (unfold q_of_N; apply inject_Z_pos; lia).
    field. intro X. lra.
  Qed.

  Lemma sq_to_stats_k o n : st_k (sq_to_stats o n) = Z.to_N n.
  Proof. reflexivity. Qed.
  Lemma sq_to_stats_mass o n : (0 <= n)%Z -> sq_mass (sq_to_stats o n) == inject_Z n * so_mean o.
  Proof. intros H. unfold sq_mass, sq_to_stats, q_of_N. cbn [st_k st_mean]. rewrite Z2N.id by exact H. reflexivity. Qed.
  Lemma sq_mean_mass (w : list Q) : w <> [] -> qlen w * mean_of w == qsum w.
  Proof. intros H. unfold mean_of. field. apply sq_qlen_nz, H. Qed.

  Lemma sq_fsr_loop_S lower step incr es acc rem start cn :
    sq_fsr_loop lower step incr es acc rem start (S cn) =
    match es with
    | [] =>
      if ((rem <=? step)%Z && Nat.eqb cn 0)
      then sq_bind_out (lower start rem) (fun o => SqOk [sq_of_stats (stats_combine acc (sq_to_stats o rem))])
      else SqErr
    | e :: es' =>
      if (rem <=? step)%Z then
        if Nat.eqb cn 0
        then sq_bind_out (lower start rem) (fun o => SqOk [sq_of_stats (stats_combine acc (sq_to_stats o rem))])
        else
          match sq_ent_out e with
          | None => SqNaN
          | Some eo =>
            match sq_fsr_loop lower step incr es'
                    (if (step - rem =? 0)%Z then stats_reset else sq_to_stats eo (step - rem))
                    (incr - (step - rem))%Z (start + step)%Z cn with
            | SqOk r => SqOk (sq_of_stats (stats_combine acc (sq_to_stats eo rem)) :: r)
            | x => x
            end
          end
      else
        match sq_ent_out e with
        | None => SqNaN
        | Some eo => sq_fsr_loop lower step incr es' (stats_combine acc (sq_to_stats eo step)) (rem - step)%Z (start + step)%Z (S cn)
        end
    end.
  Proof. destruct es; reflexivity. Qed.

  Lemma sq_skipn_cons {A : Type} (l : list A) j e es' : e :: es' = skipn j l ->
    nth_error l j = Some e /\ es' = skipn (S j) l.
  Proof.
    intros Hes. split.
    - rewrite <- (firstn_skipn j l), <- Hes.
      assert (Hj : (j <= length l)%nat).
      { destruct (Nat.le_gt_cases j (length l)) as [X|X]; [exact X|]. rewrite skipn_all2 in Hes by lia. discriminate. }
      rewrite nth_error_app2 by (rewrite firstn_length; lia).
      rewrite firstn_length. replace (j - Nat.min j (length l))%nat with 0%nat by lia. reflexivity.
    - replace (S j) with (j + 1)%nat by lia. rewrite <- sq_skipn_add, <- Hes. reflexivity.
  Qed.

  Lemma sq_len_lt : (2 * len < Z.of_N stats_two64)%Z -> forall a b : Z, (0 <= a <= len)%Z -> (0 <= b <= len)%Z ->
    (Z.to_N a + Z.to_N b < stats_two64)%N.
  Proof. intros H a b Ha Hb. lia. Qed.

  Lemma sq_entry_mean level j e eo : (1 <= level)%nat -> nth_error (lv level) j = Some e -> sq_ent_out e = Some eo ->
    let span := sq_span dn sn level in
    (Z.of_nat (j * span) + Z.of_nat span <= len)%Z /\
    inject_Z (Z.of_nat span) * so_mean eo == qsum (sq_zrng xq (Z.of_nat (j * span)) (Z.of_nat span)) /\
    so_mean eo == mean_of (sq_zrng xq (Z.of_nat (j * span)) (Z.of_nat span)) /\
    so_min eo == min_of (sq_zrng xq (Z.of_nat (j * span)) (Z.of_nat span)) /\
    so_max eo == max_of (sq_zrng xq (Z.of_nat (j * span)) (Z.of_nat span)) /\
    sq_zrng xq (Z.of_nat (j * span)) (Z.of_nat span) <> [].
  Proof.
    intros HL Hn Heo span. destruct (sq_lv_entry level j e HL Hn) as [Hle Hex]. fold span in Hle, Hex.
    assert (Hsp : (0 < span)%nat) by (apply sq_span_pos; lia).
    unfold sq_zrng. rewrite !Nat2Z.id.
    pose proof (sq_rng_length xq (j * span) span ltac:(lia)) as L.
    assert (Hne : sq_rng xq (j * span) span <> []) by (intro E; rewrite E in L; cbn in L; lia).
    destruct Hex as (m & v & lo & hi & -> & Em & Ev & Elo & Ehi). cbn in Heo. inversion Heo; subst eo. cbn [so_mean so_min so_max].
    split; [unfold len; lia|]. split; [|repeat split; assumption].
    rewrite Em, <- (sq_mean_mass _ Hne). unfold qlen. rewrite L. reflexivity.
  Qed.

  Lemma sq_loop_mass lower level incr : sq_lower_ok lower -> (1 <= level)%nat ->
    (2 * len < Z.of_N stats_two64)%Z ->
    let span := sq_span dn sn level in
    (Z.of_nat span <= incr)%Z ->
    forall es acc rem j cur cnt outs,
      es = skipn j (lv level) -> cur = Z.of_nat (j * span) ->
      (0 < rem <= incr)%Z -> (1 <= cnt)%nat -> (incr <= len)%Z ->
      (cur + rem + (Z.of_nat cnt - 1) * incr <= len)%Z ->
      st_k acc = Z.to_N (incr - rem) ->
      sq_fsr_loop lower (Z.of_nat span) incr es acc rem cur cnt = SqOk outs ->
      length outs = cnt /\
      inject_Z incr * qsum (map so_mean outs) ==
        sq_mass acc + qsum (sq_zrng xq cur (rem + (Z.of_nat cnt - 1) * incr)).
  Proof.
    intros Hlow HL H64 span Hsi.
    assert (Hsp : (0 < span)%nat) by (apply sq_span_pos; lia).
    assert (Tail : forall acc rem cur outs, (0 < rem <= incr)%Z -> (incr <= len)%Z -> (0 <= cur)%Z -> st_k acc = Z.to_N (incr - rem) ->
              sq_bind_out (lower cur rem) (fun o => SqOk [sq_of_stats (stats_combine acc (sq_to_stats o rem))]) = SqOk outs ->
              length outs = 1%nat /\ inject_Z incr * qsum (map so_mean outs) == sq_mass acc + qsum (sq_zrng xq cur rem)).
    { intros acc rem cur outs Hrem Hil Hc0 Hk H.
      apply sq_bind_out_ok in H. destruct H as (o & Hl & H). inversion H; subst outs.
      apply Hlow in Hl. destruct Hl as (o' & Eo & _ & _ & Hle & (Em & _)). inversion Eo; subst o'.
      split; [reflexivity|]. cbn [map sq_of_stats so_mean]. rewrite qsum_cons, qsum_nil, Qplus_0_r.
      assert (Hkk : (st_k acc + st_k (sq_to_stats o rem) < stats_two64)%N).
      { rewrite Hk, sq_to_stats_k. apply sq_len_lt; [exact H64 | lia | lia]. }
      assert (Ek : q_of_N (st_k (stats_combine acc (sq_to_stats o rem))) == inject_Z incr).
      { rewrite sq_combine_k by exact Hkk. rewrite Hk, sq_to_stats_k. unfold q_of_N. f_equiv. lia. }
      rewrite <- Ek. fold (sq_mass (stats_combine acc (sq_to_stats o rem))).
      rewrite sq_combine_mass by exact Hkk. rewrite sq_to_stats_mass by lia. rewrite Em.
      pose proof (sq_zrng_length xq cur rem Hc0 ltac:(lia) Hle) as L.
      rewrite <- (sq_mean_mass (sq_zrng xq cur rem)) by (apply sq_zrng_ne; lia).
      unfold qlen. rewrite L, Z2Nat.id by lia. reflexivity. }
    induction es as [|e es' IH]; intros acc rem j cur cnt outs Hes Hcur Hrem Hcnt Hil Hle Hk H;
      destruct cnt as [|cn]; try lia; rewrite sq_fsr_loop_S in H.
    - destruct ((rem <=? Z.of_nat span)%Z && Nat.eqb cn 0) eqn:Ec; [|discriminate].
      apply andb_true_iff in Ec. destruct Ec as [_ Ec]. apply Nat.eqb_eq in Ec. subst cn.
      replace (rem + (Z.of_nat 1 - 1) * incr)%Z with rem by lia.
      apply Tail; try assumption; lia.
    - destruct (sq_skipn_cons _ _ _ _ Hes) as [Hn Hes'].
      destruct (Z.leb_spec rem (Z.of_nat span)) as [Hrs|Hrs].
      + destruct (Nat.eqb_spec cn 0) as [Ec|Ec].
        * subst cn. replace (rem + (Z.of_nat 1 - 1) * incr)%Z with rem by lia.
          apply Tail; try assumption; lia.
        * destruct (sq_ent_out e) as [eo|] eqn:Heo; [|discriminate].
          destruct (sq_entry_mean level j e eo HL Hn Heo) as (Hle' & Emass & _). fold span in Hle', Emass.
          set (acc2 := if (Z.of_nat span - rem =? 0)%Z then stats_reset else sq_to_stats eo (Z.of_nat span - rem)) in *.
          destruct (sq_fsr_loop lower (Z.of_nat span) incr es' acc2 (incr - (Z.of_nat span - rem))%Z (cur + Z.of_nat span)%Z cn) as [r| | |] eqn:Er;
            try discriminate.
          inversion H; subst outs. clear H.
          assert (Hk2 : st_k acc2 = Z.to_N (incr - (incr - (Z.of_nat span - rem)))).
          { unfold acc2. destruct (Z.eqb_spec (Z.of_nat span - rem) 0) as [E0|E0].
            - cbn [stats_reset st_k]. lia.
            - rewrite sq_to_stats_k. f_equal. lia. }
          assert (Hm2 : sq_mass acc2 == inject_Z (Z.of_nat span - rem) * so_mean eo).
          { unfold acc2. destruct (Z.eqb_spec (Z.of_nat span - rem) 0) as [E0|E0].
            - rewrite E0. unfold sq_mass. cbn [stats_reset st_k st_mean]. change (q_of_N 0) with 0. change (inject_Z 0) with 0. ring.
            - apply sq_to_stats_mass. lia. }
          destruct (IH acc2 (incr - (Z.of_nat span - rem))%Z (S j) (cur + Z.of_nat span)%Z cn r Hes' ltac:(lia) ltac:(lia) ltac:(lia) Hil ltac:(lia) Hk2 Er)
            as (Lr & Mr).
          split; [cbn [length]; lia|].
          cbn [map sq_of_stats so_mean]. rewrite qsum_cons.
          setoid_replace (inject_Z incr * (st_mean (stats_combine acc (sq_to_stats eo rem)) + qsum (map so_mean r)))
            with (inject_Z incr * st_mean (stats_combine acc (sq_to_stats eo rem)) + inject_Z incr * qsum (map so_mean r)) by ring.
          rewrite Mr, Hm2.
          assert (Hkk : (st_k acc + st_k (sq_to_stats eo rem) < stats_two64)%N).
          { rewrite Hk, sq_to_stats_k. apply sq_len_lt; [exact H64 | lia | lia]. }
          assert (Ek : q_of_N (st_k (stats_combine acc (sq_to_stats eo rem))) == inject_Z incr).
          { rewrite sq_combine_k by exact Hkk. rewrite Hk, sq_to_stats_k. unfold q_of_N. f_equiv. lia. }
          rewrite <- Ek at 1. fold (sq_mass (stats_combine acc (sq_to_stats eo rem))).
          rewrite sq_combine_mass by exact Hkk. rewrite sq_to_stats_mass by lia.
          replace (rem + (Z.of_nat (S cn) - 1) * incr)%Z
            with (Z.of_nat span + (incr - (Z.of_nat span - rem) + (Z.of_nat cn - 1) * incr))%Z by lia.
          assert (Hprod : (0 <= (Z.of_nat cn - 1) * incr)%Z) by (apply Z.mul_nonneg_nonneg; lia).
          rewrite (sq_zrng_split xq cur) by lia. rewrite qsum_app. subst cur. rewrite <- Emass.
          rewrite (sq_inject_Z_minus (Z.of_nat span) rem). ring.
      + destruct (sq_ent_out e) as [eo|] eqn:Heo; [|discriminate].
        destruct (sq_entry_mean level j e eo HL Hn Heo) as (Hle' & Emass & _). fold span in Hle', Emass.
        assert (Hkk : (st_k acc + st_k (sq_to_stats eo (Z.of_nat span)) < stats_two64)%N).
        { rewrite Hk, sq_to_stats_k. apply sq_len_lt; [exact H64 | lia | lia]. }
        destruct (IH (stats_combine acc (sq_to_stats eo (Z.of_nat span))) (rem - Z.of_nat span)%Z (S j) (cur + Z.of_nat span)%Z (S cn) outs
                    Hes' ltac:(lia) ltac:(lia) ltac:(lia) Hil ltac:(lia)) as (Lr & Mr).
        { rewrite sq_combine_k by exact Hkk. rewrite Hk, sq_to_stats_k. lia. }
        { exact H. }
        split; [exact Lr|]. rewrite Mr, sq_combine_mass by exact Hkk. rewrite sq_to_stats_mass by lia.
        replace (rem + (Z.of_nat (S cn) - 1) * incr)%Z
          with (Z.of_nat span + (rem - Z.of_nat span + (Z.of_nat (S cn) - 1) * incr))%Z by lia.
        assert (Hprod : (0 <= (Z.of_nat (S cn) - 1) * incr)%Z) by (apply Z.mul_nonneg_nonneg; lia).
        rewrite (sq_zrng_split xq cur) by lia. rewrite qsum_app. subst cur. rewrite <- Emass. ring.
  Qed.

  (* ---------------------------------------------------------------- *)
  (* multi-window requests: every value lies within the extremes of the widened window *)
  Definition sq_within (lo hi : Q) (l : list Q) : Prop := forall x, In x l -> lo <= x /\ x <= hi.
  (* samples [a, b) clipped to the signal *)
  Definition sq_zwin (a b : Z) : list Q := sq_rng xq (Z.to_nat a) (Z.to_nat b - Z.to_nat a).
  Definition sq_bnd (lo hi : Q) (st : stats) : Prop :=
    st_k st = 0%N \/ (lo <= st_min st /\ st_min st <= st_mean st /\ st_mean st <= st_max st /\ st_max st <= hi).

  Lemma sq_zwin_incl a b a' b' : (a' <= a)%Z -> (b <= b')%Z -> incl (sq_zwin a b) (sq_zwin a' b').
  Proof.
    intros Ha Hb. unfold sq_zwin.
    destruct (Nat.le_gt_cases (Z.to_nat b) (Z.to_nat a)) as [H|H].
    - replace (Z.to_nat b - Z.to_nat a)%nat with 0%nat by lia. unfold sq_rng. cbn [firstn]. apply incl_nil_l.
    - apply sq_rng_sub; lia.
  Qed.
  Lemma sq_zrng_zwin a n : (0 <= a)%Z -> (0 <= n)%Z -> sq_zrng xq a n = sq_zwin a (a + n).
  Proof. intros Ha Hn. unfold sq_zrng, sq_zwin. f_equal. lia. Qed.
  Lemma sq_within_incl lo hi l l' : incl l l' -> sq_within lo hi l' -> sq_within lo hi l.
  Proof. intros Hi H x Hx. apply H, Hi, Hx. Qed.
  Lemma sq_within_vals lo hi w : w <> [] -> sq_within lo hi w ->
    lo <= min_of w /\ min_of w <= mean_of w /\ mean_of w <= max_of w /\ max_of w <= hi.
  Proof.
    intros Hne H. destruct (min_of_spec w Hne) as [(x & Hx & Ex) _]. destruct (max_of_spec w Hne) as [(y & Hy & Ey) _].
    destruct (min_le_mean_le_max w Hne) as [M1 M2].
    split; [rewrite <- Ex; apply (H x Hx)|]. split; [exact M1|]. split; [exact M2|]. rewrite <- Ey. apply (H y Hy).
  Qed.

  Lemma sq_bnd_combine lo hi a b : (st_k a + st_k b < stats_two64)%N ->
    sq_bnd lo hi a -> sq_bnd lo hi b -> sq_bnd lo hi (stats_combine a b).
  Proof.
    intros Hk Ha Hb. unfold stats_combine. rewrite N.mod_small by exact Hk.
    destruct (N.eqb_spec (st_k a + st_k b) 0) as [E|E]; [left; reflexivity|].
    destruct (N.eqb_spec (st_k a) 0) as [Ea|Ea]; [rewrite copy_id; exact Hb|].
    destruct (N.eqb_spec (st_k b) 0) as [Eb|Eb]; [rewrite copy_id; exact Ha|].
    destruct Ha as [Ha|(A1 & A2 & A3 & A4)]; [congruence|]. destruct Hb as [Hb|(B1 & B2 & B3 & B4)]; [congruence|].
    right. cbn [st_k st_mean st_s st_min st_max].
    assert (Pa : 0 < q_of_N (st_k a)) by (unfold q_of_N; apply inject_Z_pos; lia).
    assert (Pb : 0 < q_of_N (st_k b)) by (unfold q_of_N; apply inject_Z_pos; lia).
    set (f1 := qr_div (q_of_N (st_k a)) (q_of_N (st_k a + st_k b))).
    assert (F : 0 <= f1 /\ f1 <= 1).
    { unfold f1. rewrite qdiv_eq, sq_q_of_N_add. split.
      - apply Qle_shift_div_l; [lra | lra].
      - apply Qle_shift_div_r; [lra | lra]. }
    destruct F as [F0 F1].
    set (mn := if qr_lt (st_min a) (st_min b) then st_min a else st_min b).
    set (mx := if qr_lt (st_max b) (st_max a) then st_max a else st_max b).
    assert (Hmn : mn <= st_min a /\ mn <= st_min b /\ lo <= mn).
    { unfold mn. destruct (qr_lt (st_min a) (st_min b)) eqn:L.
      - apply qlt_true in L. repeat split; lra.
      - apply qlt_false in L. repeat split; lra. }
    assert (Hmx : st_max a <= mx /\ st_max b <= mx /\ mx <= hi).
    { unfold mx. destruct (qr_lt (st_max b) (st_max a)) eqn:L.
      - apply qlt_true in L. repeat split; lra.
      - apply qlt_false in L. repeat split; lra. }
    destruct Hmn as (N1 & N2 & N3). destruct Hmx as (X1 & X2 & X3).
    qnorm.
    assert (P1 : 0 <= f1 * (st_mean a - mn)) by (apply Qmult_le_0_compat; lra).
    assert (P2 : 0 <= (1 - f1) * (st_mean b - mn)) by (apply Qmult_le_0_compat; lra).
    assert (P3 : 0 <= f1 * (mx - st_mean a)) by (apply Qmult_le_0_compat; lra).
    assert (P4 : 0 <= (1 - f1) * (mx - st_mean b)) by (apply Qmult_le_0_compat; lra).
    split; [exact N3|]. split; [lra|]. split; [lra | exact X3].
  Qed.
  Lemma sq_bnd_to_stats lo hi o n :
    lo <= so_min o -> so_min o <= so_mean o -> so_mean o <= so_max o -> so_max o <= hi -> sq_bnd lo hi (sq_to_stats o n).
  Proof. intros. right. cbn [sq_to_stats st_min st_mean st_max]. repeat split; assumption. Qed.
  Lemma sq_bnd_exact lo hi o n w : w <> [] -> sq_within lo hi w ->
    so_mean o == mean_of w -> so_min o == min_of w -> so_max o == max_of w -> sq_bnd lo hi (sq_to_stats o n).
  Proof.
    intros Hne Hw Em Emi Ema. destruct (sq_within_vals lo hi w Hne Hw) as (V1 & V2 & V3 & V4).
    apply sq_bnd_to_stats; rewrite ?Em, ?Emi, ?Ema; assumption.
  Qed.
  Lemma sq_bnd_out lo hi st : st_k st <> 0%N -> sq_bnd lo hi st ->
    lo <= so_min (sq_of_stats st) /\ so_max (sq_of_stats st) <= hi /\
    lo <= so_mean (sq_of_stats st) /\ so_mean (sq_of_stats st) <= hi.
  Proof. intros Hk [H|(H1 & H2 & H3 & H4)]; [congruence|]. cbn [sq_of_stats so_min so_max so_mean]. repeat split; lra. Qed.

  Lemma sq_loop_bnd lower level incr : sq_lower_ok lower -> (1 <= level)%nat ->
    (2 * len < Z.of_N stats_two64)%Z ->
    let span := sq_span dn sn level in
    (Z.of_nat span <= incr)%Z -> (incr <= len)%Z ->
    forall es acc rem j cur cnt outs,
      es = skipn j (lv level) -> cur = Z.of_nat (j * span) ->
      (0 < rem <= incr)%Z ->
      st_k acc = Z.to_N (incr - rem) ->
      (forall lo hi, sq_within lo hi (sq_zwin (cur + rem - incr - Z.of_nat span) cur) -> sq_bnd lo hi acc) ->
      sq_fsr_loop lower (Z.of_nat span) incr es acc rem cur cnt = SqOk outs ->
      forall p o, nth_error outs p = Some o -> forall lo hi,
        sq_within lo hi (sq_zwin (cur + rem - incr + (Z.of_nat p - 1) * incr) (cur + rem - incr + (Z.of_nat p + 2) * incr)) ->
        lo <= so_min o /\ so_max o <= hi /\ lo <= so_mean o /\ so_mean o <= hi.
  Proof.
    intros Hlow HL H64 span Hsi Hil.
    assert (Hsp : (0 < span)%nat) by (apply sq_span_pos; lia).
    assert (Tail : forall acc rem cur outs, (0 < rem <= incr)%Z -> (0 <= cur)%Z -> st_k acc = Z.to_N (incr - rem) ->
              (forall lo hi, sq_within lo hi (sq_zwin (cur + rem - incr - Z.of_nat span) cur) -> sq_bnd lo hi acc) ->
              sq_bind_out (lower cur rem) (fun o => SqOk [sq_of_stats (stats_combine acc (sq_to_stats o rem))]) = SqOk outs ->
              forall p o, nth_error outs p = Some o -> forall lo hi,
                sq_within lo hi (sq_zwin (cur + rem - incr + (Z.of_nat p - 1) * incr) (cur + rem - incr + (Z.of_nat p + 2) * incr)) ->
                lo <= so_min o /\ so_max o <= hi /\ lo <= so_mean o /\ so_mean o <= hi).
    { intros acc rem cur outs Hrem Hc0 Hk Hacc H p o Hp lo hi Hw.
      apply sq_bind_out_ok in H. destruct H as (o1 & Hl & H). inversion H; subst outs.
      destruct p as [|p]; [|destruct p; discriminate]. cbn [nth_error] in Hp. inversion Hp; subst o. clear Hp H.
      apply Hlow in Hl. destruct Hl as (o' & Eo & _ & _ & Hle & (Em & Emi & Ema & _)). inversion Eo; subst o'.
      change (Z.of_nat 0) with 0%Z in Hw.
      assert (Hkk : (st_k acc + st_k (sq_to_stats o1 rem) < stats_two64)%N).
      { rewrite Hk, sq_to_stats_k. apply sq_len_lt; [exact H64 | lia | lia]. }
      apply sq_bnd_out.
      - rewrite sq_combine_k by exact Hkk. rewrite Hk, sq_to_stats_k. lia.
      - apply sq_bnd_combine; [exact Hkk | |].
        + apply Hacc. eapply sq_within_incl; [|exact Hw]. apply sq_zwin_incl; lia.
        + apply (sq_bnd_exact lo hi o1 rem (sq_zrng xq cur rem)); try assumption; [apply sq_zrng_ne; lia|].
          rewrite sq_zrng_zwin by lia. eapply sq_within_incl; [|exact Hw]. apply sq_zwin_incl; lia. }
    induction es as [|e es' IH]; intros acc rem j cur cnt outs Hes Hcur Hrem Hk Hacc H;
      (destruct cnt as [|cn]; [cbn in H; inversion H; subst outs; intros [|p] o Hp; discriminate|]); rewrite sq_fsr_loop_S in H.
    - destruct ((rem <=? Z.of_nat span)%Z && Nat.eqb cn 0) eqn:Ec; [|discriminate].
      apply (Tail acc rem cur outs); try assumption; lia.
    - destruct (sq_skipn_cons _ _ _ _ Hes) as [Hn Hes'].
      destruct (Z.leb_spec rem (Z.of_nat span)) as [Hrs|Hrs].
      + destruct (Nat.eqb_spec cn 0) as [Ec|Ec]; [apply (Tail acc rem cur outs); try assumption; lia|].
        destruct (sq_ent_out e) as [eo|] eqn:Heo; [|discriminate].
        destruct (sq_entry_mean level j e eo HL Hn Heo) as (Hle' & _ & Em & Emi & Ema & Hne). fold span in Hle', Em, Emi, Ema, Hne.
        rewrite <- Hcur in Hle', Em, Emi, Ema, Hne.
        rewrite (sq_zrng_zwin cur (Z.of_nat span)) in Em, Emi, Ema, Hne by lia.
        set (acc2 := if (Z.of_nat span - rem =? 0)%Z then stats_reset else sq_to_stats eo (Z.of_nat span - rem)) in *.
        destruct (sq_fsr_loop lower (Z.of_nat span) incr es' acc2 (incr - (Z.of_nat span - rem))%Z (cur + Z.of_nat span)%Z cn) as [r| | |] eqn:Er;
          try discriminate.
        inversion H; subst outs. clear H.
        assert (Hk2 : st_k acc2 = Z.to_N (incr - (incr - (Z.of_nat span - rem)))).
        { unfold acc2. destruct (Z.eqb_spec (Z.of_nat span - rem) 0) as [E0|E0].
          - cbn [stats_reset st_k]. lia.
          - rewrite sq_to_stats_k. f_equal. lia. }
        intros [|p] o Hp lo hi Hw; cbn [nth_error] in Hp.
        * inversion Hp; subst o. clear Hp. change (Z.of_nat 0) with 0%Z in Hw.
          assert (Hkk : (st_k acc + st_k (sq_to_stats eo rem) < stats_two64)%N).
          { rewrite Hk, sq_to_stats_k. apply sq_len_lt; [exact H64 | lia | lia]. }
          apply sq_bnd_out.
          -- rewrite sq_combine_k by exact Hkk. rewrite Hk, sq_to_stats_k. lia.
          -- apply sq_bnd_combine; [exact Hkk | |].
             ++ apply Hacc. eapply sq_within_incl; [|exact Hw]. apply sq_zwin_incl; lia.
             ++ apply (sq_bnd_exact lo hi eo rem _ Hne); try assumption.
                eapply sq_within_incl; [|exact Hw]. apply sq_zwin_incl; lia.
        * apply (IH acc2 (incr - (Z.of_nat span - rem))%Z (S j) (cur + Z.of_nat span)%Z cn r Hes' ltac:(lia) ltac:(lia) Hk2) with (p := p) (o := o); try assumption.
          -- intros lo' hi' Hw'. unfold acc2. destruct (Z.eqb_spec (Z.of_nat span - rem) 0) as [E0|E0]; [left; reflexivity|].
             apply (sq_bnd_exact lo' hi' eo _ _ Hne); try assumption.
             eapply sq_within_incl; [|exact Hw']. apply sq_zwin_incl; lia.
          -- eapply sq_within_incl; [|exact Hw]. apply sq_zwin_incl; lia.
      + destruct (sq_ent_out e) as [eo|] eqn:Heo; [|discriminate].
        destruct (sq_entry_mean level j e eo HL Hn Heo) as (Hle' & _ & Em & Emi & Ema & Hne). fold span in Hle', Em, Emi, Ema, Hne.
        rewrite <- Hcur in Hle', Em, Emi, Ema, Hne.
        rewrite (sq_zrng_zwin cur (Z.of_nat span)) in Em, Emi, Ema, Hne by lia.
        assert (Hkk : (st_k acc + st_k (sq_to_stats eo (Z.of_nat span)) < stats_two64)%N).
        { rewrite Hk, sq_to_stats_k. apply sq_len_lt; [exact H64 | lia | lia]. }
        intros p o Hp lo hi Hw.
        apply (IH (stats_combine acc (sq_to_stats eo (Z.of_nat span))) (rem - Z.of_nat span)%Z (S j) (cur + Z.of_nat span)%Z (S cn) outs
                  Hes' ltac:(lia) ltac:(lia)) with (p := p) (o := o); try assumption.
        * rewrite sq_combine_k by exact Hkk. rewrite Hk, sq_to_stats_k. lia.
        * intros lo' hi' Hw'. apply sq_bnd_combine; [exact Hkk | |].
          -- apply Hacc. eapply sq_within_incl; [|exact Hw']. apply sq_zwin_incl; lia.
          -- apply (sq_bnd_exact lo' hi' eo _ _ Hne); try assumption.
             eapply sq_within_incl; [|exact Hw']. apply sq_zwin_incl; lia.
        * eapply sq_within_incl; [|exact Hw]. apply sq_zwin_incl; lia.
  Qed.

  Definition sq_multi_ok (start incr : Z) (cnt : nat) (outs : list sq_out) : Prop :=
    length outs = cnt /\
    inject_Z incr * qsum (map so_mean outs) == qsum (sq_zrng xq start (Z.of_nat cnt * incr)) /\
    forall p o, nth_error outs p = Some o -> forall lo hi,
      sq_within lo hi (sq_zwin (start + (Z.of_nat p - 1) * incr) (start + (Z.of_nat p + 2) * incr)) ->
      lo <= so_min o /\ so_max o <= hi /\ lo <= so_mean o /\ so_mean o <= hi.

  Lemma sq_fsr_statsN lower start incr level cnt outs : sq_lower_ok lower -> (1 <= level)%nat ->
    (2 * len < Z.of_N stats_two64)%Z ->
    (0 <= start)%Z -> (Z.of_nat (sq_span dn sn level) <= incr)%Z -> (incr <= len)%Z -> (1 <= cnt)%nat ->
    (start + Z.of_nat cnt * incr <= len)%Z ->
    sq_fsr_stats (Z.of_nat dn) (Z.of_nat sn) lv top lower start incr level cnt = SqOk outs ->
    sq_multi_ok start incr cnt outs.
  Proof.
    intros Hlow HL H64 Hs0 Hsi Hil Hcnt Hle H. unfold sq_fsr_stats in H.
    destruct (top <? level)%nat; [discriminate|]. rewrite sq_step_span in H.
    set (span := sq_span dn sn level) in *.
    assert (Hsp : (0 < span)%nat) by (apply sq_span_pos; lia).
    set (step := Z.of_nat span) in *. assert (Hst : (0 < step)%Z) by (unfold step; lia).
    destruct (Z.leb_spec step 0) as [X|_]; [lia|].
    set (q := ((start + step - 1) / step)%Z) in *.
    pose proof (Z.div_mod (start + step - 1) step ltac:(lia)) as Hdm. fold q in Hdm.
    pose proof (Z.mod_pos_bound (start + step - 1) step Hst) as Hmb.
    set (r := ((start + step - 1) mod step)%Z) in *.
    assert (Hq0 : (0 <= q)%Z) by (unfold q; apply Z.div_pos; lia).
    assert (Hcur : (q * step)%Z = Z.of_nat (Z.to_nat q * span)).
    { rewrite Nat2Z.inj_mul, Z2Nat.id by lia. reflexivity. }
    assert (Hqs : (start <= q * step < start + step)%Z) by lia.
    assert (Hprod : (0 <= (Z.of_nat cnt - 1) * incr)%Z) by (apply Z.mul_nonneg_nonneg; lia).
    destruct (Z.eqb_spec (q * step) start) as [E|E].
    - destruct (sq_loop_mass lower level incr Hlow HL H64 Hsi (skipn (Z.to_nat q) (lv level)) stats_reset incr (Z.to_nat q) start cnt outs
                  eq_refl ltac:(fold span; lia) ltac:(lia) Hcnt Hil ltac:(lia)) as (Lr & Mr).
      { cbn [stats_reset st_k]. lia. }
      { exact H. }
      split; [exact Lr|]. split.
      + rewrite Mr. unfold sq_mass. cbn [stats_reset st_k st_mean]. change (q_of_N 0) with 0.
        replace (incr + (Z.of_nat cnt - 1) * incr)%Z with (Z.of_nat cnt * incr)%Z by lia. ring.
      + intros p o Hp lo hi Hw.
        apply (sq_loop_bnd lower level incr Hlow HL H64 Hsi Hil (skipn (Z.to_nat q) (lv level)) stats_reset incr (Z.to_nat q) start cnt outs
                 eq_refl ltac:(fold span; lia) ltac:(lia)) with (p := p) (o := o); try assumption.
        * cbn [stats_reset st_k]. lia.
        * intros lo' hi' _. left. reflexivity.
        * replace (start + incr - incr)%Z with start by lia. exact Hw.
    - apply sq_bind_out_ok in H. destruct H as (o1 & Hl & H).
      apply Hlow in Hl. destruct Hl as (o' & Eo & _ & Hh & Hhl & (Em & Emi & Ema & _)). inversion Eo; subst o'.
      set (h := (q * step - start)%Z) in *.
      assert (Hne : sq_zrng xq start h <> []) by (apply sq_zrng_ne; lia).
      destruct (sq_loop_mass lower level incr Hlow HL H64 Hsi (skipn (Z.to_nat q) (lv level)) (sq_to_stats o1 h) (incr - h)%Z (Z.to_nat q) (start + h)%Z cnt outs
                  eq_refl ltac:(fold span; unfold h; lia) ltac:(unfold h; lia) Hcnt Hil ltac:(lia)) as (Lr & Mr).
      { rewrite sq_to_stats_k. f_equal. lia. }
      { exact H. }
      split; [exact Lr|]. split.
      + rewrite Mr, sq_to_stats_mass by lia. rewrite Em.
        pose proof (sq_zrng_length xq start h Hs0 ltac:(lia) Hhl) as L.
        assert (Eh : inject_Z h * mean_of (sq_zrng xq start h) == qsum (sq_zrng xq start h)).
        { rewrite <- (sq_mean_mass _ Hne). unfold qlen. rewrite L, Z2Nat.id by lia. reflexivity. }
        rewrite Eh.
        replace (Z.of_nat cnt * incr)%Z with (h + (incr - h + (Z.of_nat cnt - 1) * incr))%Z by lia.
        rewrite (sq_zrng_split xq start) by lia. rewrite qsum_app. reflexivity.
      + intros p o Hp lo hi Hw.
        apply (sq_loop_bnd lower level incr Hlow HL H64 Hsi Hil (skipn (Z.to_nat q) (lv level)) (sq_to_stats o1 h) (incr - h)%Z (Z.to_nat q) (start + h)%Z cnt outs
                 eq_refl ltac:(fold span; unfold h; lia) ltac:(unfold h; lia)) with (p := p) (o := o); try assumption.
        * rewrite sq_to_stats_k. f_equal. lia.
        * intros lo' hi' Hw'. apply (sq_bnd_exact lo' hi' o1 h _ Hne); try assumption.
          rewrite sq_zrng_zwin by lia. eapply sq_within_incl; [|exact Hw']. apply sq_zwin_incl; lia.
        * replace (start + h + (incr - h) - incr)%Z with start by lia. exact Hw.
  Qed.

  (* level-0 path *)
  Lemma sq_l0_loop_multi incr : (0 < incr)%nat -> forall cnt a outs,
    (a + cnt * incr <= length xq)%nat ->
    sq_l0_loop incr (skipn a xs) cnt = SqOk outs ->
    length outs = cnt /\
    inject_Z (Z.of_nat incr) * qsum (map so_mean outs) == qsum (sq_rng xq a (cnt * incr)) /\
    forall p o, nth_error outs p = Some o ->
      (p < cnt)%nat /\
      so_mean o == mean_of (sq_rng xq (a + p * incr) incr) /\ so_min o == min_of (sq_rng xq (a + p * incr) incr) /\
      so_max o == max_of (sq_rng xq (a + p * incr) incr).
  Proof.
    intros Hi. induction cnt as [|cn IH]; intros a outs Hle H; cbn [sq_l0_loop] in H.
    - inversion H; subst outs. split; [reflexivity|]. split; [cbn; ring|]. intros [|p] o Hp; discriminate.
    - rewrite sq_take_firstn in H by (rewrite skipn_length; unfold xs; rewrite map_length; lia).
      change (firstn incr (skipn a xs)) with (sq_rng xs a incr) in H.
      unfold xs in H at 1. unfold sq_rng in H at 1. rewrite skipn_map, firstn_map in H. fold (sq_rng xq a incr) in H.
      rewrite sq_all_some_map, sq_skipn_add in H.
      destruct (sq_l0_loop incr (skipn (a + incr) xs) cn) as [r| | |] eqn:Er; try discriminate.
      inversion H; subst outs. clear H.
      destruct (IH (a + incr)%nat r ltac:(lia) Er) as (Lr & Mr & Pr).
      pose proof (sq_rng_length xq a incr ltac:(lia)) as L.
      assert (Hne : sq_rng xq a incr <> []) by (intro E; rewrite E in L; cbn in L; lia).
      assert (Hrg : stats_in_range dbl_max (sq_rng xq a incr)) by (apply (sq_in_range_incl _ _ xq); [apply sq_rng_incl | exact Hr]).
      pose proof (sq_l0_window_exact (sq_rng xq a incr) Hne Hrg) as (E1 & E2 & E3 & _). rewrite L in E1, E2, E3.
      split; [cbn [length]; lia|]. split.
      + cbn [map]. rewrite qsum_cons.
        setoid_replace (inject_Z (Z.of_nat incr) * (so_mean (sq_l0_window (Z.of_nat incr) (sq_rng xq a incr)) + qsum (map so_mean r)))
          with (inject_Z (Z.of_nat incr) * so_mean (sq_l0_window (Z.of_nat incr) (sq_rng xq a incr)) + inject_Z (Z.of_nat incr) * qsum (map so_mean r)) by ring.
        rewrite Mr, E1. replace (S cn * incr)%nat with (incr + cn * incr)%nat by lia.
        rewrite sq_rng_split, qsum_app. rewrite <- (sq_mean_mass _ Hne). unfold qlen. rewrite L. reflexivity.
      + intros [|p] o Hp; cbn [nth_error] in Hp.
        * inversion Hp; subst o. rewrite Nat.mul_0_l, Nat.add_0_r. split; [lia|]. repeat split; assumption.
        * destruct (Pr p o Hp) as (Hp' & F1 & F2 & F3). split; [lia|].
          replace (a + S p * incr)%nat with (a + incr + p * incr)%nat by lia. repeat split; assumption.
  Qed.

  Lemma sq_multi_window fuel start incr count outs : (2 * len < Z.of_N stats_two64)%Z -> (1 <= count)%Z ->
    sq_core_stats (Z.of_nat dn) (Z.of_nat sn) xs lv top l0_ok fuel start incr count = SqOk outs ->
    (0 <= start)%Z /\ (0 < incr)%Z /\ (start + count * incr <= len)%Z /\
    sq_multi_ok start incr (Z.to_nat count) outs.
  Proof.
    intros H64 Hc H. destruct fuel as [|f]; [discriminate|].
    rewrite sq_core_stats_S in H.
    destruct (Z.leb_spec incr 0) as [|Hn]; [discriminate|].
    destruct (Z.leb_spec count 0) as [|_]; [lia|].
    destruct (Z.ltb_spec start 0) as [|Hs0]; [discriminate|].
    cbv zeta in H.
    assert (Elen : Z.of_nat (length xs) = len) by (unfold xs, len; rewrite map_length; reflexivity).
    rewrite Elen in H.
    destruct ((len <? incr)%Z || (len / incr <? count)%Z || (len - incr * count <? start)%Z) eqn:Ec; [discriminate|].
    apply orb_false_iff in Ec. destruct Ec as [Ec E3]. apply orb_false_iff in Ec. destruct Ec as [E1 E2].
    apply Z.ltb_ge in E1, E2, E3.
    assert (Hle : (start + count * incr <= len)%Z) by lia.
    split; [exact Hs0|]. split; [exact Hn|]. split; [exact Hle|].
    destruct (sq_sel_loop 64 (Z.of_nat sn) incr (incr * count) (Z.of_nat dn) 0) as [[|l]|] eqn:Esel; [| |discriminate].
    - destruct l0_ok; [|discriminate].
      assert (Hcn : (Z.to_nat start + Z.to_nat count * Z.to_nat incr <= length xq)%nat).
      { unfold len in Hle. rewrite <- Z2Nat.inj_mul by lia. rewrite <- Z2Nat.inj_add by nia. nia. }
      destruct (sq_l0_loop_multi (Z.to_nat incr) ltac:(lia) (Z.to_nat count) (Z.to_nat start) outs Hcn H) as (Lr & Mr & Pr).
      split; [exact Lr|]. split.
      + rewrite Z2Nat.id in Mr by lia. rewrite Mr. unfold sq_zrng. rewrite Z2Nat.id by lia.
        rewrite Z2Nat.inj_mul by lia. reflexivity.
      + intros p o Hp lo hi Hw. destruct (Pr p o Hp) as (Hp' & F1 & F2 & F3).
        assert (Hpw : (Z.to_nat start + p * Z.to_nat incr + Z.to_nat incr <= length xq)%nat) by nia.
        pose proof (sq_rng_length xq _ _ Hpw) as L.
        assert (Hne : sq_rng xq (Z.to_nat start + p * Z.to_nat incr) (Z.to_nat incr) <> []) by (intro E; rewrite E in L; cbn in L; lia).
        assert (Hww : sq_within lo hi (sq_rng xq (Z.to_nat start + p * Z.to_nat incr) (Z.to_nat incr))).
        { eapply sq_within_incl; [|exact Hw]. unfold sq_zwin. apply sq_rng_sub; nia. }
        destruct (sq_within_vals lo hi _ Hne Hww) as (V1 & V2 & V3 & V4).
        rewrite F1, F2, F3. repeat split; lra.
    - apply sq_sel_loop_spec in Esel. destruct Esel as [_ Hsel]. specialize (Hsel ltac:(lia)).
      replace (S l - 0 - 1)%nat with (S l - 1)%nat in Hsel by lia.
      fold (sq_step (Z.of_nat dn) (Z.of_nat sn) (S l)) in Hsel. rewrite sq_step_span in Hsel.
      apply (sq_fsr_statsN _ start incr (S l) (Z.to_nat count) outs (sq_core_lower_ok f)); try assumption; try lia.
  Qed.
End SingleWindow.

(* ================================================================== *)
(* 8. the property statements, written out                             *)
Lemma sq_C02_summary_exact : forall (d sumdf : nat) (xs : list Q) (L k : nat) (e : sq_ent),
  (1 <= d)%nat -> (1 <= sumdf)%nat -> (1 <= L)%nat ->
  stats_in_range dbl_max xs ->
  nth_error (sq_levels d sumdf (map Some xs) L) k = Some e ->
  let n := (d * sumdf ^ (L - 1))%nat in
  let w := firstn n (skipn (k * n) xs) in
  length w = n /\
  exists m v lo hi, e = mkSqEnt (Some m) (Some v) (Some lo) (Some hi) /\
    m == mean_of w /\ v == ssq_of w / qlen w /\ lo == min_of w /\ hi == max_of w.
Proof.
  intros d sumdf xs L k e Hd Hs HL Hr He n w.
  destruct (sq_summary_exact d sumdf xs L k e Hd Hs HL Hr He) as [Hle Hex]. fold n in Hle, Hex.
  split; [apply sq_rng_length; lia | exact Hex].
Qed.

Lemma sq_C02_single_window : forall (d sumdf : nat) (xs : list Q) (top : nat) (l0_ok : bool) (fuel : nat)
    (start n : Z) (outs : list sq_out),
  (1 <= d)%nat -> (1 <= sumdf)%nat -> stats_in_range dbl_max xs -> (N.of_nat (length xs) < stats_two64)%N ->
  sq_core_stats (Z.of_nat d) (Z.of_nat sumdf) (map Some xs) (sq_levels d sumdf (map Some xs)) top l0_ok fuel start n 1 = SqOk outs ->
  (0 <= start)%Z /\ (0 < n)%Z /\ (start + n <= Z.of_nat (length xs))%Z /\
  let w := firstn (Z.to_nat n) (skipn (Z.to_nat start) xs) in
  let S2 := ssq_of w / (qlen w - 1) in
  let D := inject_Z (Z.of_nat d) in
  exists o, outs = [o] /\ so_min o == min_of w /\ so_max o == max_of w /\ so_mean o == mean_of w /\
    (D - 1) / D * S2 <= so_var o /\ so_var o <= S2.
Proof.
  intros d sumdf xs top l0_ok fuel start n outs Hd Hs Hr Hlen H.
  destruct (sq_single_window d sumdf xs top l0_ok Hd Hs Hr Hlen fuel start n outs H) as (o & Eo & H0 & Hn & Hle & (Em & Emi & Ema & El & Eu)).
  split; [exact H0|]. split; [exact Hn|]. split; [exact Hle|]. cbv zeta.
  exists o. repeat split; assumption.
Qed.

Lemma sq_C02_single_window_level : forall (d sumdf : nat) (xs : list Q) (top : nat) (l0_ok : bool) (fuel level : nat)
    (start n : Z) (outs : list sq_out),
  (1 <= d)%nat -> (1 <= sumdf)%nat -> stats_in_range dbl_max xs -> (N.of_nat (length xs) < stats_two64)%N ->
  (1 <= level)%nat -> (0 <= start)%Z -> (Z.of_nat (d * sumdf ^ (level - 1)) <= n)%Z -> (start + n <= Z.of_nat (length xs))%Z ->
  sq_fsr_stats (Z.of_nat d) (Z.of_nat sumdf) (sq_levels d sumdf (map Some xs)) top
    (fun s i => sq_core_stats (Z.of_nat d) (Z.of_nat sumdf) (map Some xs) (sq_levels d sumdf (map Some xs)) top l0_ok fuel s i 1%Z)
    start n level 1 = SqOk outs ->
  let w := firstn (Z.to_nat n) (skipn (Z.to_nat start) xs) in
  let S2 := ssq_of w / (qlen w - 1) in
  let D := inject_Z (Z.of_nat d) in
  exists o, outs = [o] /\ so_min o == min_of w /\ so_max o == max_of w /\ so_mean o == mean_of w /\
    (D - 1) / D * S2 <= so_var o /\ so_var o <= S2.
Proof.
  intros d sumdf xs top l0_ok fuel level start n outs Hd Hs Hr Hlen HL H0 Hsp Hle H.
  destruct (sq_fsr_stats1 d sumdf xs top Hd Hs Hr Hlen _ start n level outs
              (sq_core_lower_ok d sumdf xs top l0_ok Hd Hs Hr Hlen fuel) HL H0 Hsp Hle H) as (o & Eo & (Em & Emi & Ema & El & Eu)).
  cbv zeta. exists o. repeat split; assumption.
Qed.

Lemma sq_C02_multi_window : forall (d sumdf : nat) (xs : list Q) (top : nat) (l0_ok : bool) (fuel : nat)
    (start incr count : Z) (outs : list sq_out),
  (1 <= d)%nat -> (1 <= sumdf)%nat -> stats_in_range dbl_max xs ->
  (2 * Z.of_nat (length xs) < 2 ^ 64)%Z -> (1 <= count)%Z ->
  sq_core_stats (Z.of_nat d) (Z.of_nat sumdf) (map Some xs) (sq_levels d sumdf (map Some xs)) top l0_ok fuel start incr count = SqOk outs ->
  (0 <= start)%Z /\ (0 < incr)%Z /\ (start + count * incr <= Z.of_nat (length xs))%Z /\
  length outs = Z.to_nat count /\
  qsum (map so_mean outs) / inject_Z count == mean_of (firstn (Z.to_nat (count * incr)) (skipn (Z.to_nat start) xs)) /\
  forall p o, nth_error outs p = Some o ->
    let a := (start + (Z.of_nat p - 1) * incr)%Z in
    let b := (start + (Z.of_nat p + 2) * incr)%Z in
    let ww := firstn (Z.to_nat b - Z.to_nat a) (skipn (Z.to_nat a) xs) in
    min_of ww <= so_min o /\ so_max o <= max_of ww /\ min_of ww <= so_mean o /\ so_mean o <= max_of ww.
Proof.
  intros d sumdf xs top l0_ok fuel start incr count outs Hd Hs Hr H64 Hc H.
  assert (Hlen : (N.of_nat (length xs) < stats_two64)%N).
  { unfold stats_two64. change (2 ^ 64)%N with (Z.to_N (2 ^ 64)). lia. }
  assert (H64' : (2 * Z.of_nat (length xs) < Z.of_N stats_two64)%Z) by exact H64.
  destruct (sq_multi_window d sumdf xs top l0_ok Hd Hs Hr Hlen fuel start incr count outs H64' Hc H) as (H0 & Hi & Hle & (Lr & Mr & Pr)).
  split; [exact H0|]. split; [exact Hi|]. split; [exact Hle|]. split; [exact Lr|]. split.
  - rewrite Z2Nat.id in Mr by lia. fold (sq_zrng xs start (count * incr)).
    assert (Hp : (0 <= count * incr)%Z) by (apply Z.mul_nonneg_nonneg; lia).
    pose proof (sq_zrng_length xs start (count * incr) H0 Hp Hle) as L.
    assert (Ql : qlen (sq_zrng xs start (count * incr)) == inject_Z count * inject_Z incr).
    { unfold qlen. rewrite L, Z2Nat.id by lia. rewrite inject_Z_mult. reflexivity. }
    assert (Pc : 0 < inject_Z count) by (apply inject_Z_pos; lia).
    assert (Pi : 0 < inject_Z incr) by (apply inject_Z_pos; lia).
    unfold mean_of. rewrite Ql, <- Mr. field. split; intro X; [rewrite X in Pi; inversion Pi | rewrite X in Pc; inversion Pc].
  - intros p o Hp a b ww.
    assert (Hpc : (p < length outs)%nat) by (apply nth_error_Some; congruence).
    assert (Hww : ww <> []).
    { (* the window itself lies inside the widened window *)
      assert (Hin : incl (sq_zrng xs (start + Z.of_nat p * incr) incr) ww).
      { rewrite (sq_zrng_zwin d sumdf xs top Hd Hs Hlen) by nia. change ww with (sq_zwin xs a b).
        apply (sq_zwin_incl d sumdf xs top Hd Hs Hlen); unfold a, b; lia. }
      assert (Hwl : (start + Z.of_nat p * incr + incr <= Z.of_nat (length xs))%Z) by nia.
      pose proof (sq_zrng_length xs (start + Z.of_nat p * incr) incr ltac:(nia) ltac:(lia) Hwl) as L.
      intro E. rewrite E in Hin. destruct (sq_zrng xs (start + Z.of_nat p * incr) incr) as [|x r] eqn:Ew; [cbn in L; lia|].
      apply (Hin x). left; reflexivity. }
    apply (Pr p o Hp (min_of ww) (max_of ww)).
    intros x Hx. change (sq_zwin xs a b) with ww in Hx.
    destruct (min_of_spec ww Hww) as [_ Hmin]. destruct (max_of_spec ww Hww) as [_ Hmax].
    split; [apply Hmin, Hx | apply Hmax, Hx].
Qed.

(* C09, gap clause *)
Lemma sq_C09_gap_absent_level1 : forall xs : list (option Q),
  stats_in_range dbl_max (sq_finite xs) ->
  (sq_finite xs = [] -> sq_summary1 xs = mkSqEnt None None None None) /\
  (sq_finite xs <> [] ->
   exists m v lo hi, sq_summary1 xs = mkSqEnt (Some m) (Some v) (Some lo) (Some hi) /\
     m == mean_of (sq_finite xs) /\ v == ssq_of (sq_finite xs) / qlen (sq_finite xs) /\
     lo == min_of (sq_finite xs) /\ hi == max_of (sq_finite xs)).
Proof. exact sq_gap_absent_level1. Qed.

Lemma sq_C09_gap_children_absent : forall cs : list sq_ent,
  sq_summaryN cs = sq_summaryN (filter (fun c => match se_mean c with Some _ => true | None => false end) cs).
Proof. exact sq_summaryN_filter. Qed.

Lemma sq_C09_gap_levelN_no_nan : forall cs : list sq_ent,
  (exists c, In c cs /\ se_mean c <> None) ->
  (forall c, In c cs -> se_mean c <> None -> se_var c <> None /\ se_min c <> None /\ se_max c <> None) ->
  exists m v lo hi, sq_summaryN cs = mkSqEnt (Some m) (Some v) (Some lo) (Some hi).
Proof.
  intros cs H1 H2. apply sq_summaryN_no_nan; [exact H1|]. intros c Hc Hm. apply (H2 c Hc Hm).
Qed.

Lemma sq_C09_gap_absent_levelN_children : forall (cs : list sq_ent) (ws : list (list Q)) (n : nat),
  (0 < n)%nat ->
  Forall2 (fun e w =>
             (w = [] /\ e = mkSqEnt None None None None) \/
             (length w = n /\ exists m v lo hi, e = mkSqEnt (Some m) (Some v) (Some lo) (Some hi) /\
                m == mean_of w /\ v == ssq_of w / qlen w /\ lo == min_of w /\ hi == max_of w)) cs ws ->
  stats_in_range dbl_max (concat ws) ->
  (concat ws = [] -> sq_summaryN cs = mkSqEnt None None None None) /\
  (concat ws <> [] ->
   exists m v lo hi, sq_summaryN cs = mkSqEnt (Some m) (Some v) (Some lo) (Some hi) /\
     m == mean_of (concat ws) /\ v == ssq_of (concat ws) / qlen (concat ws) /\
     lo == min_of (concat ws) /\ hi == max_of (concat ws)).
Proof. exact sq_summaryN_mixed. Qed.

Lemma sq_C09_gap_levels_local : forall (d sumdf : nat) (xs : list (option Q)) (L k : nat) (e : sq_ent),
  (1 <= d)%nat -> (1 <= sumdf)%nat -> (1 <= L)%nat ->
  stats_in_range dbl_max (sq_finite xs) ->
  nth_error (sq_levels d sumdf xs L) k = Some e ->
  let n := (d * sumdf ^ (L - 1))%nat in
  let g := firstn n (skipn (k * n) xs) in
  length g = n /\
  (Forall (fun o => o = None) g -> e = mkSqEnt None None None None) /\
  (Forall (fun o => o <> None) g ->
   exists m v lo hi, e = mkSqEnt (Some m) (Some v) (Some lo) (Some hi) /\
     m == mean_of (sq_finite g) /\ v == ssq_of (sq_finite g) / qlen (sq_finite g) /\
     lo == min_of (sq_finite g) /\ hi == max_of (sq_finite g)).
Proof.
  intros d sumdf xs L k e Hd Hs HL Hr He n g.
  pose proof (sq_loc_levels d sumdf xs L Hd Hs HL Hr) as H2. fold (sq_span d sumdf L) in n.
  assert (Hn : (0 < n)%nat) by (apply sq_span_pos; lia).
  destruct (sq_Forall2_nth _ _ _ H2 k e He) as (w & Hw & [Hnan Hex]).
  apply sq_chunks_nth_inv in Hw; [|exact Hn]. destruct Hw as [Hle ->].
  assert (Lg : length (sq_rng xs (k * n) n) = n) by (apply sq_rng_length; lia).
  split; [exact Lg|]. split; [exact Hnan|]. intros Hg.
  destruct (Hex Hg) as [_ E]; [intro E; unfold n in Lg, Hn; rewrite E in Lg; cbn [length] in Lg; lia | exact E].
Qed.

Lemma sq_C09_gap_absent_levelN_aligned : forall (d sumdf : nat) (xs : list (option Q)) (L k : nat) (e : sq_ent),
  (1 <= d)%nat -> (1 <= sumdf)%nat -> (2 <= L)%nat ->
  stats_in_range dbl_max (sq_finite xs) ->
  (forall g, In g (sq_chunks (d * sumdf ^ (L - 2)) xs) -> Forall (fun o => o = None) g \/ Forall (fun o => o <> None) g) ->
  nth_error (sq_levels d sumdf xs L) k = Some e ->
  let n := (d * sumdf ^ (L - 1))%nat in
  let w := sq_finite (firstn n (skipn (k * n) xs)) in
  ((k + 1) * n <= length xs)%nat /\
  (w = [] -> e = mkSqEnt None None None None) /\
  (w <> [] ->
   exists m v lo hi, e = mkSqEnt (Some m) (Some v) (Some lo) (Some hi) /\
     m == mean_of w /\ v == ssq_of w / qlen w /\ lo == min_of w /\ hi == max_of w).
Proof. exact sq_gap_absent_aligned. Qed.

Lemma sq_C09_gap_levelN_guarded : forall (cs : list sq_ent) (gs : list (list Q)),
  cs <> [] ->
  Forall2 (fun e w => exists m v lo hi, e = mkSqEnt (Some m) (Some v) (Some lo) (Some hi) /\
             m == mean_of w /\ v == ssq_of w / qlen w /\ lo == min_of w /\ hi == max_of w) cs gs ->
  Forall (fun g => g <> []) gs ->
  stats_in_range dbl_max (concat gs) ->
  exists m v lo hi, sq_summaryN cs = mkSqEnt (Some m) (Some v) (Some lo) (Some hi) /\
    m == qsum (map mean_of gs) / inject_Z (Z.of_nat (length gs)) /\ 0 <= v /\
    lo == min_of (concat gs) /\ hi == max_of (concat gs).
Proof. exact sq_summaryN_finite. Qed.

Lemma sq_C09_gap_levelN_unweighted_refuted :
  exists (d sumdf : nat) (xs : list (option Q)) (m : Q) v lo hi,
    sq_levels d sumdf xs 2 = [mkSqEnt (Some m) v lo hi] /\ ~ m == mean_of (sq_finite xs).
Proof.
  exists 2%nat, 2%nat, [Some 0; None; Some 6; Some 6], 3.
  destruct sq_gap_weight_witness as [(v & lo & hi & E) Em]. exists v, lo, hi. split; [exact E|].
  rewrite Em. intro X. vm_compute in X. discriminate.
Qed.

(* C15, numeric / relational part *)
Lemma sq_C15_omit_summaries_equal : forall (d sumdf : nat) (b1 b2 : list (bool * Z * list (option Q))) (L : nat),
  map snd b1 = map snd b2 ->
  Nat.iter (L - 1) (sq_level_next sumdf) (snd (sq_wr_blocks d b1)) =
  Nat.iter (L - 1) (sq_level_next sumdf) (snd (sq_wr_blocks d b2)).
Proof. intros d sumdf b1 b2 L H. rewrite (sq_omit_level1_equal d b1 b2 H). reflexivity. Qed.

Lemma sq_C15_omit_stream : forall (d sumdf : nat) (blocks : list (bool * Z * list (option Q))) (last : bool * Z * list (option Q)) (L : nat),
  (1 <= d)%nat -> (1 <= L)%nat ->
  Forall (fun b => exists j, length (snd b) = (j * d)%nat) blocks ->
  Nat.iter (L - 1) (sq_level_next sumdf) (snd (sq_wr_blocks d (blocks ++ [last]))) =
  sq_levels d sumdf (concat (map snd (blocks ++ [last]))) L /\
  fst (sq_wr_blocks d (blocks ++ [last])) =
  map (fun x : bool * Z * list (option Q) => if fst (fst x) then 0%Z else snd (fst x)) (blocks ++ [last]).
Proof.
  intros d sumdf blocks last L Hd HL H. split; [|apply sq_wr_blocks_index].
  rewrite sq_levels_iter by exact HL. f_equal.
  rewrite sq_wr_blocks_summary.
  rewrite <- (map_map snd (fun b => sq_level1 d b)), map_app. cbn [map].
  apply sq_level1_blocks; [lia|].
  apply Forall_forall. intros b Hb. apply in_map_iff in Hb. destruct Hb as (x & <- & Hx).
  rewrite Forall_forall in H. apply H, Hx.
Qed.
