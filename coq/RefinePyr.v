(* Refinement glue, FSR pyramid: a step simulation between wr_data / summary1 / summaryN + flush / close of
   WmFsr over WmCore (byte-exact writer model) and the same functions of PyramidModel, through the chunk view
   of the backend log (RefineLog.v).

   Abstract positions of PyramidModel (pos0, pos0 + 1, ...: one per chunk of the signal) are related to real
   file offsets by the list [offs] of the offsets of the signal's FSR chunks in write order:
     rf_psi offs pos0 p = 0 if p = 0, else the offset of chunk number p - pos0.
   Definitions + proofs (glue file; nothing here changes a model). *)
From Coq Require Import NArith ZArith List Bool Lia Arith.
From Coq Require Import ZifyBool ZifyN ZifyNat.
From JLS Require Import Generated CrcDefs Spec Format FormatProofs WmRaw WmCore WmFsr WmProofs
  PyramidModel PyramidProofs RefineLog RefineFsr.
Import ListNotations.
Local Open Scope N_scope.

Definition rf_pd (d : sigdef) : py_def :=
  {| py_spd := Z.of_N (sg_spd d); py_sdf := Z.of_N (sg_sdf d); py_eps := Z.of_N (sg_eps d); py_sumdf := Z.of_N (sg_sumdf d) |}.

Definition rf_psi (offs : list N) (pos0 : Z) (p : Z) : N :=
  if (p =? 0)%Z then 0 else nth (Z.to_nat (p - pos0)) offs 0.
Definition rf_pvalid (n : nat) (pos0 : Z) (p : Z) : Prop := p = 0%Z \/ (pos0 <= p < pos0 + Z.of_nat n)%Z.

Lemma rf_psi_app : forall offs more pos0 p, rf_pvalid (length offs) pos0 p -> rf_psi (offs ++ more) pos0 p = rf_psi offs pos0 p.
Proof.
  intros offs more pos0 p [->|H]; [reflexivity|]. unfold rf_psi. destruct (p =? 0)%Z; [reflexivity|].
  apply app_nth1. lia.
Qed.
Lemma rf_pvalid_app : forall n m pos0 p, rf_pvalid n pos0 p -> rf_pvalid (n + m) pos0 p.
Proof. intros n m pos0 p [->|H]; [left; reflexivity|right; lia]. Qed.
Lemma rf_psi_map_app : forall offs more pos0 l, Forall (rf_pvalid (length offs) pos0) l ->
  map (rf_psi (offs ++ more) pos0) l = map (rf_psi offs pos0) l.
Proof.
  intros offs more pos0 l H. induction H as [|p l Hp Hl IH]; [reflexivity|]. cbn [map]. rewrite IH, rf_psi_app by exact Hp. reflexivity.
Qed.
Lemma rf_psi_new : forall offs more pos0 k, (0 < pos0)%Z -> (k < length more)%nat ->
  rf_psi (offs ++ more) pos0 (pos0 + Z.of_nat (length offs) + Z.of_nat k) = nth k more 0.
Proof.
  intros offs more pos0 k Hp Hk. unfold rf_psi.
  destruct (Z.eqb_spec (pos0 + Z.of_nat (length offs) + Z.of_nat k) 0); [lia|].
  replace (Z.to_nat (pos0 + Z.of_nat (length offs) + Z.of_nat k - pos0)) with (length offs + k)%nat by lia.
  rewrite app_nth2 by lia. f_equal. lia.
Qed.
Lemma rf_psi_zero : forall offs pos0 p, Forall (fun o => o <> 0) offs -> rf_pvalid (length offs) pos0 p ->
  (rf_psi offs pos0 p = 0 <-> p = 0%Z).
Proof.
  intros offs pos0 p Hnz Hv. unfold rf_psi. destruct (Z.eqb_spec p 0) as [->|Hne]; [tauto|].
  destruct Hv as [->|Hr]; [congruence|]. split; [|congruence]. intro E.
  rewrite Forall_forall in Hnz. exfalso. apply (Hnz 0); [|reflexivity]. rewrite <- E. apply nth_In. lia.
Qed.

(* ------------------------------------------------------------------ payload lengths *)
Lemma rf_payload_header_len : forall ts n b, length (wm_payload_header ts n b) = 16%nat.
Proof.
  intros. unfold wm_payload_header, fm_encode_payload_header. cbn [fm_ph_timestamp fm_ph_entry_count fm_ph_entry_size_bits fm_ph_rsv16].
  rewrite !app_length, fm_enc_i64_length. unfold fm_enc_u32, fm_enc_u16. rewrite !fm_enc_length. reflexivity.
Qed.
Lemma rf_flat_map_len : forall (A : Type) (f : A -> list N) k l, (forall a, length (f a) = k) -> length (flat_map f l) = (k * length l)%nat.
Proof. intros A f k l H. induction l as [|a l IH]; cbn [flat_map length]; [lia|]. rewrite app_length, IH, H. lia. Qed.
Lemma rf_index_payload_len : forall ts n offs, rf_len (wm_fsr_index_payload ts n offs) = 16 + 8 * rf_len offs.
Proof.
  intros. unfold rf_len, wm_fsr_index_payload. rewrite app_length, rf_payload_header_len.
  rewrite (rf_flat_map_len _ fm_enc_u64 8) by (intro; apply fm_enc_length). lia.
Qed.
Lemma rf_sentry_bytes_len : forall b e, length (wm_sentry_bytes b e) = if b then 32%nat else 16%nat.
Proof. intros b [[[m s] mn] mx]. unfold wm_sentry_bytes. rewrite !app_length, !fm_enc_length. destruct b; reflexivity. Qed.
Definition rf_ln {A : Type} (l : list A) : N := N.of_nat (length l).
Lemma rf_summary_payload_len : forall dt ts n entries,
  rf_len (wm_fsr_summary_payload dt ts n entries) = 16 + (rf_ln entries * wm_summary_entry_bits dt) / 8.
Proof.
  intros. unfold rf_len, rf_ln, wm_fsr_summary_payload. rewrite app_length, rf_payload_header_len.
  rewrite (rf_flat_map_len _ _ (if wm_summary_is64 dt then 32 else 16)%nat) by (intro; apply rf_sentry_bytes_len).
  unfold wm_summary_entry_bits, JLS_SUMMARY_FSR_COUNT. destruct (wm_summary_is64 dt).
  - replace (N.of_nat (length entries) * (4 * 64)) with (N.of_nat (length entries) * 32 * 8) by lia. rewrite N.div_mul by discriminate. lia.
  - replace (N.of_nat (length entries) * (4 * 32)) with (N.of_nat (length entries) * 16 * 8) by lia. rewrite N.div_mul by discriminate. lia.
Qed.
Lemma rf_summary_payload_le : forall dt ts n entries, rf_len (wm_fsr_summary_payload dt ts n entries) <= 16 + 32 * rf_ln entries.
Proof.
  intros. rewrite rf_summary_payload_len. unfold wm_summary_entry_bits, JLS_SUMMARY_FSR_COUNT. destruct (wm_summary_is64 dt).
  - replace (rf_ln entries * (4 * 64)) with (rf_ln entries * 32 * 8) by lia. rewrite N.div_mul by discriminate. lia.
  - replace (rf_ln entries * (4 * 32)) with (rf_ln entries * 16 * 8) by lia. rewrite N.div_mul by discriminate. lia.
Qed.

(* ------------------------------------------------------------------ levels of wm_fsr *)
Lemma rf_get_set_level_eq : forall f l v, (N.to_nat l < length (wm_f_levels f))%nat -> wm_f_get_level (wm_f_set_level f l v) l = v.
Proof. intros. unfold wm_f_get_level, wm_f_set_level. cbn [wm_f_levels]. apply rf_nth_upd_eq. assumption. Qed.
Lemma rf_get_set_level_neq : forall f l l' v, l <> l' -> wm_f_get_level (wm_f_set_level f l v) l' = wm_f_get_level f l'.
Proof. intros. unfold wm_f_get_level, wm_f_set_level. cbn [wm_f_levels]. apply rf_nth_upd_neq. lia. Qed.
Lemma rf_set_level_len : forall f l v, length (wm_f_levels (wm_f_set_level f l v)) = length (wm_f_levels f).
Proof. intros. unfold wm_f_set_level. cbn [wm_f_levels]. apply rf_upd_length. Qed.

Lemma rf_groups_len : forall (A : Type) n k (l : list A), length (wm_groups n k l) = n.
Proof. intros A n. induction n as [|n IH]; intros k l; cbn [wm_groups length]; [reflexivity|]. rewrite IH. reflexivity. Qed.

(* ------------------------------------------------------------------ the simulation relation *)
Section RF_PYR.
Variable summ1 : N -> list N -> wm_sentry.
Variable summN : bool -> list wm_sentry -> wm_sentry.
Variable d : sigdef.
Variable pos0 : Z.
Variable t0 : Z.
Variable lo : nat.      (* levels below lo are no longer related (they are closed) *)
Variable xs : wm_fx.     (* a reference state (the start of the current call) and the number of chunks then *)
Variable n0 : nat.
Hypothesis Hpos0 : (0 < pos0)%Z.

Let pd := rf_pd d.
Let w := dt_bits (sg_dtype d).
Let sid := sg_id d.

Definition rf_lvl_rel (offs : list N) (L : nat) (o : option wm_flevel) (pl : py_lvl) : Prop :=
  (Z.of_nat (length (pl_idx pl)) <= py_cap pd L)%Z /\ (pl_sum pl <= py_eps pd)%Z /\
  (pl_idx pl = [] -> pl_sum pl = 0%Z) /\
  match o with
  | None => pl_idx pl = []
  | Some lv =>
    wm_fl_nidx lv = rf_len (wm_fl_idx lv) /\ wm_fl_nsum lv = rf_ln (wm_fl_sum lv) /\
    rev (wm_fl_idx lv) = map (rf_psi offs pos0) (pl_idx pl) /\ Forall (rf_pvalid (length offs) pos0) (pl_idx pl) /\
    pl_sum pl = Z.of_N (wm_fl_nsum lv) /\
    (pl_idx pl <> [] -> pl_its pl = wm_fl_its lv /\ pl_sts pl = wm_fl_sts lv)
  end.

Lemma rf_lvl_rel_app : forall offs more L o pl, rf_lvl_rel offs L o pl -> rf_lvl_rel (offs ++ more) L o pl.
Proof.
  intros offs more L o pl (A & B & C & D). split; [exact A|]. split; [exact B|]. split; [exact C|].
  destruct o as [lv|]; [|exact D]. destruct D as (D1 & D2 & D3 & D4 & D5 & D6).
  split; [exact D1|]. split; [exact D2|]. split; [rewrite rf_psi_map_app by exact D4; exact D3|].
  split; [|split; assumption]. rewrite app_length. eapply Forall_impl; [|exact D4]. intros p Hp. apply rf_pvalid_app. exact Hp.
Qed.

(* chunk of the log vs chunk of PyramidModel's disk; blks = the blocks handed to wr_data so far *)
Definition rf_chunk_rel (offs : list N) (blks : list (list N)) (c : rf_chunk) (pc : py_chunk) : Prop :=
  rc_off c = rf_psi offs pos0 (pc_off pc) /\ rf_pvalid (length offs) pos0 (pc_off pc) /\
  match pc_kind pc with
  | PyData =>
    rc_tag c = JLS_TAG_TRACK_FSR_DATA /\ rc_meta c = wm_meta sid 0 /\
    exists blk, nth_error blks (Z.to_nat ((pc_ts pc - t0) / py_spd pd)) = Some blk /\
                Z.of_nat (length blk) = pc_count pc /\
                rc_pay c = wm_fsr_data_payload (pc_ts pc) (Z.to_N (pc_count pc)) w (wm_pack w blk)
  | PyIndex L =>
    rc_tag c = JLS_TAG_TRACK_FSR_INDEX /\ rc_meta c = wm_meta sid (N.of_nat L) /\
    rc_pay c = wm_fsr_index_payload (pc_ts pc) (Z.to_N (pc_count pc)) (map (rf_psi offs pos0) (pc_entries pc)) /\
    Forall (rf_pvalid (length offs) pos0) (pc_entries pc)
  | PySummary L =>
    rc_tag c = JLS_TAG_TRACK_FSR_SUMMARY /\ rc_meta c = wm_meta sid (N.of_nat L) /\
    exists entries, Z.of_nat (length entries) = pc_count pc /\
                    rc_pay c = wm_fsr_summary_payload (sg_dtype d) (pc_ts pc) (Z.to_N (pc_count pc)) entries
  end.

Record rf_R (offs : list N) (x : wm_fx) (st : py_wr) : Prop := {
  R_bok : rf_bok (wm_fx_base x);
  R_tok : rf_tok (wm_b_raw (wm_fx_base x)) (wm_fx_tk x);
  R_ty : wm_tk_type (wm_fx_tk x) = JLS_TRACK_TYPE_FSR;
  R_lvlen : length (wm_f_levels (wm_fx_fsr x)) = 16%nat;
  R_pos : pw_pos st = (pos0 + Z.of_nat (length offs))%Z;
  R_nz : Forall (fun o => o <> 0) offs;
  R_heads : forall L, (L < 16)%nat ->
      wm_get_off (wm_tk_offsets (wm_fx_tk x)) (N.of_nat L) = rf_psi offs pos0 (py_head_get st L) /\
      rf_pvalid (length offs) pos0 (py_head_get st L);
  R_dhead : wm_ck_offset (wm_tk_data_head (wm_fx_tk x)) = rf_psi offs pos0 (pw_dhead st) /\
            rf_pvalid (length offs) pos0 (pw_dhead st);
  R_lvls : forall L, (Nat.max 1 lo <= L < 16)%nat -> rf_lvl_rel offs L (wm_f_get_level (wm_fx_fsr x) (N.of_nat L)) (py_lvl_get st L);
  R_dts : pw_dts st = wm_f_ts (wm_fx_fsr x)
}.


Lemma rf_chunk_rel_app : forall offs more blks moreb c pc,
  rf_chunk_rel offs blks c pc -> rf_chunk_rel (offs ++ more) (blks ++ moreb) c pc.
Proof.
  intros offs more blks moreb c pc (A & V & B). split; [rewrite rf_psi_app by exact V; exact A|].
  split; [rewrite app_length; apply rf_pvalid_app; exact V|].
  destruct (pc_kind pc) as [|L|L].
  - destruct B as (B1 & B2 & blk & B3 & B4 & B5). split; [exact B1|]. split; [exact B2|]. exists blk.
    split; [|split; assumption]. rewrite nth_error_app1; [exact B3|]. apply nth_error_Some. congruence.
  - destruct B as (B1 & B2 & B3 & B4). split; [exact B1|]. split; [exact B2|].
    split; [rewrite rf_psi_map_app by exact B4; exact B3|].
    rewrite app_length. eapply Forall_impl; [|exact B4]. intros p Hp. apply rf_pvalid_app. exact Hp.
  - exact B.
Qed.

Definition rf_mine (c : rf_chunk) : bool :=
  ((rc_tag c =? JLS_TAG_TRACK_FSR_DATA) || (rc_tag c =? JLS_TAG_TRACK_FSR_INDEX) || (rc_tag c =? JLS_TAG_TRACK_FSR_SUMMARY))
  && (N.land (rc_meta c) 4095 =? sid).

Definition rf_out (x : wm_fx) : list rf_chunk := rp_out (rf_scan (wm_rlog (wm_b_raw (wm_fx_base x)))).

(* since the reference state xs: the raw state only extended and ALL chunks appended are the last (length cs - n0) of cs *)
Definition rf_dl (cs : list rf_chunk) (x : wm_fx) : Prop :=
  rf_ext (wm_b_raw (wm_fx_base xs)) (wm_b_raw (wm_fx_base x)) /\ (n0 <= length cs)%nat /\
  rf_out x = rev (skipn n0 cs) ++ rf_out xs.

Lemma rf_dl_cons : forall cs c x x1, rf_dl cs x -> rf_ext (wm_b_raw (wm_fx_base x)) (wm_b_raw (wm_fx_base x1)) ->
  rf_out x1 = c :: rf_out x -> rf_dl (cs ++ [c]) x1.
Proof.
  intros cs c x x1 (A & B & C) He Ho. split; [eapply rf_ext_trans; eauto|]. split; [rewrite app_length; lia|].
  rewrite Ho, C. rewrite skipn_app. replace (n0 - length cs)%nat with 0%nat by lia. cbn [skipn]. rewrite rev_app_distr. reflexivity.
Qed.
Lemma rf_dl_same : forall cs x x', rf_dl cs x -> wm_fx_base x' = wm_fx_base x -> rf_dl cs x'.
Proof. intros cs x x' (A & B & C) E. unfold rf_dl, rf_out in *. rewrite E. split; [exact A|]. split; assumption. Qed.

(* the whole simulation state: cs = this signal's FSR chunks so far (oldest first), pre = those before the start *)
Definition rf_S (pre cs : list rf_chunk) (blks : list (list N)) (x : wm_fx) (st : py_wr) : Prop :=
  rf_R (map rc_off cs) x st /\
  Forall2 (rf_chunk_rel (map rc_off cs) blks) cs (pw_disk st) /\
  filter rf_mine (rf_out x) = rev cs ++ pre /\
  rf_dl cs x.

Hypothesis Hsid : sid < 256.

Lemma rf_meta_sid : forall level, level < 16 -> N.land (wm_meta sid level) 4095 = sid.
Proof.
  intros level Hl.
  assert (H : forallb (fun s => forallb (fun l => N.land (wm_meta (N.of_nat s) (N.of_nat l)) 4095 =? N.of_nat s) (seq 0 16)) (seq 0 256) = true)
    by (vm_compute; reflexivity).
  rewrite forallb_forall in H. specialize (H (N.to_nat sid) ltac:(apply in_seq; lia)).
  rewrite forallb_forall in H. specialize (H (N.to_nat level) ltac:(apply in_seq; lia)).
  rewrite !N2Nat.id in H. apply N.eqb_eq. exact H.
Qed.

Lemma rf_get_off_upd_eq : forall l L v, (L < length l)%nat -> wm_get_off (wm_upd L v l) (N.of_nat L) = v.
Proof. intros. unfold wm_get_off. rewrite Nat2N.id. apply rf_nth_upd_eq. assumption. Qed.
Lemma rf_get_off_upd_neq : forall l L M v, L <> M -> wm_get_off (wm_upd L v l) (N.of_nat M) = wm_get_off l (N.of_nat M).
Proof. intros. unfold wm_get_off. rewrite Nat2N.id. apply rf_nth_upd_neq. assumption. Qed.

(* head_offsets[] after a chunk of level L (0 = data) was written at the new position *)
Lemma rf_heads_step : forall offs offsets (h : nat -> Z) L off,
  Forall (fun o => o <> 0) offs -> length offsets = 16%nat -> (L < 16)%nat -> off <> 0 ->
  (forall M, (M < 16)%nat -> wm_get_off offsets (N.of_nat M) = rf_psi offs pos0 (h M) /\ rf_pvalid (length offs) pos0 (h M)) ->
  let offsets' := if wm_get_off offsets (N.of_nat L) =? 0 then wm_upd L off offsets else offsets in
  let h' := fun M => if Nat.eqb M L && (h L =? 0)%Z then (pos0 + Z.of_nat (length offs))%Z else h M in
  forall M, (M < 16)%nat ->
    wm_get_off offsets' (N.of_nat M) = rf_psi (offs ++ [off]) pos0 (h' M) /\ rf_pvalid (length (offs ++ [off])) pos0 (h' M).
Proof.
  intros offs offsets h L off Hnz Hlen HL Hoff Hh offsets' h' M HM.
  destruct (Hh L HL) as (EL & VL). destruct (Hh M HM) as (EM & VM).
  assert (Hz : (wm_get_off offsets (N.of_nat L) =? 0) = (h L =? 0)%Z).
  { rewrite EL. destruct (rf_psi_zero offs pos0 (h L) Hnz VL) as [Z1 Z2].
    destruct (Z.eqb_spec (h L) 0) as [E|E]; [rewrite (Z2 E); reflexivity|].
    destruct (N.eqb_spec (rf_psi offs pos0 (h L)) 0) as [E'|]; [exfalso; apply E, Z1, E'|reflexivity]. }
  subst offsets' h'. cbv beta. rewrite Hz. rewrite app_length. cbn [length].
  destruct (Nat.eqb_spec M L) as [->|Hne]; cbn [andb].
  - destruct (Z.eqb_spec (h L) 0) as [E|E].
    + rewrite rf_get_off_upd_eq by lia. split.
      * replace (pos0 + Z.of_nat (length offs))%Z with (pos0 + Z.of_nat (length offs) + Z.of_nat 0)%Z by lia.
        rewrite rf_psi_new by (cbn [length]; lia). reflexivity.
      * right. lia.
    + split; [rewrite rf_psi_app by exact VL; exact EL|apply rf_pvalid_app; exact VL].
  - destruct (h L =? 0)%Z.
    + rewrite rf_get_off_upd_neq by congruence. split; [rewrite rf_psi_app by exact VM; exact EM|apply rf_pvalid_app; exact VM].
    + split; [rewrite rf_psi_app by exact VM; exact EM|apply rf_pvalid_app; exact VM].
Qed.


Lemma rf_lvl_get_eq : forall st st' L, pw_lvls st' = pw_lvls st -> py_lvl_get st' L = py_lvl_get st L.
Proof. intros st st' L H. unfold py_lvl_get. rewrite H. reflexivity. Qed.

Lemma rf_fend_nz : forall b, rf_bok b -> wm_fend (wm_b_raw b) <> 0.
Proof. intros b ((_ & H & _) & _). lia. Qed.

Lemma rf_filter_cons_mine : forall c out cs pre, rf_mine c = true -> filter rf_mine out = rev cs ++ pre ->
  filter rf_mine (c :: out) = rev (cs ++ [c]) ++ pre.
Proof. intros c out cs pre Hm H. cbn [filter]. rewrite Hm, H, rev_app_distr. reflexivity. Qed.

Lemma rf_Forall2_snoc : forall (A B : Type) (P : A -> B -> Prop) l1 l2 a b, Forall2 P l1 l2 -> P a b -> Forall2 P (l1 ++ [a]) (l2 ++ [b]).
Proof. intros. apply Forall2_app; [assumption|constructor; [assumption|constructor]]. Qed.

Lemma rf_Forall2_impl : forall (A B : Type) (P Q : A -> B -> Prop) l1 l2, (forall a b, P a b -> Q a b) -> Forall2 P l1 l2 -> Forall2 Q l1 l2.
Proof. intros A B P Q l1 l2 H F. induction F; constructor; auto. Qed.

Lemma rf_chunks_mono : forall cs blks c disk,
  Forall2 (rf_chunk_rel (map rc_off cs) blks) cs disk ->
  Forall2 (rf_chunk_rel (map rc_off (cs ++ [c])) blks) cs disk.
Proof.
  intros cs blks c disk H. rewrite map_app. eapply rf_Forall2_impl; [|exact H].
  intros a b Hab. rewrite <- (app_nil_r blks). apply rf_chunk_rel_app. exact Hab.
Qed.

(* ---- an INDEX chunk ---- *)
Lemma rf_sim_index : forall pre cs blks x st L lv,
  rf_S pre cs blks x st -> (1 <= L < 16)%nat -> (lo <= L)%nat ->
  wm_f_get_level (wm_fx_fsr x) (N.of_nat L) = Some lv -> pl_idx (py_lvl_get st L) <> [] ->
  (8 * py_cap pd L + 16 < 4294967296)%Z ->
  let payload := wm_fsr_index_payload (wm_fl_its lv) (wm_fl_nidx lv) (wm_rev (wm_fl_idx lv)) in
  let bt := wm_core_wr_index (wm_fx_base x) sid (wm_fx_tk x) (N.of_nat L) payload (SIZEOF_payload_header + 8 * wm_fl_nidx lv) in
  let x1 := {| wm_fx_base := fst bt; wm_fx_tk := snd bt; wm_fx_fsr := wm_fx_fsr x |} in
  let pl := py_lvl_get st L in
  let st1 := py_set_head (py_emit st (PyIndex L) (pl_its pl) (Z.of_nat (length (pl_idx pl))) (pl_idx pl)) L (pw_pos st) in
  exists c, rf_S pre (cs ++ [c]) blks x1 st1 /\ rc_off c = wm_fend (wm_b_raw (wm_fx_base x)).
Proof.
  intros pre cs blks x st L lv (HR & HF & Hout & Hdl) HL Hlo Hlv Hidx Hcap payload bt x1 pl st1.
  destruct HR as [Rbok Rtok Rty Rlvlen Rpos Rnz Rheads Rdhead Rlvls Rdts].
  pose proof (Rlvls L ltac:(lia)) as Hrel. rewrite Hlv in Hrel. fold pl in Hrel.
  destruct Hrel as (Hc1 & Hc2 & Hc3 & D1 & D2 & D3 & D4 & D5 & D6).
  destruct (D6 Hidx) as (Eits & Ests).
  assert (Hlenidx : length (wm_fl_idx lv) = length (pl_idx pl)).
  { rewrite <- (rev_length (wm_fl_idx lv)), D3, map_length. reflexivity. }
  assert (Hpl : rf_len payload = SIZEOF_payload_header + 8 * wm_fl_nidx lv).
  { subst payload. rewrite rf_index_payload_len. unfold rf_len. rewrite wm_rev_eq, rev_length. rewrite D1. unfold rf_len. reflexivity. }
  assert (Hplt : rf_len payload < 4294967296).
  { rewrite Hpl, D1. unfold rf_len, SIZEOF_payload_header. rewrite Hlenidx. lia. }
  pose proof (rf_core_wr_index (wm_fx_base x) sid (wm_fx_tk x) (N.of_nat L) payload Rbok Rtok Hplt) as X.
  cbv zeta in X. rewrite Hpl in X. fold bt in X.
  destruct X as (Hbok' & Htok' & Hext & Htell & Hfe' & Hout' & Hoffs' & Hdh' & Hsh' & Hhd' & Hty' & _).
  set (off := wm_fend (wm_b_raw (wm_fx_base x))) in *.
  assert (Hoffnz : off <> 0) by (subst off; apply rf_fend_nz; exact Rbok).
  set (c := {| rc_off := off; rc_tag := fm_track_tag (wm_tk_type (wm_fx_tk x)) JLS_TRACK_CHUNK_INDEX;
               rc_meta := wm_meta sid (N.of_nat L); rc_pay := payload |}) in *.
  exists c. split; [|reflexivity].
  destruct (set_head_fields (py_emit st (PyIndex L) (pl_its pl) (Z.of_nat (length (pl_idx pl))) (pl_idx pl)) L (pw_pos st))
    as (F1 & F2 & F3 & F4 & F5). fold st1 in F1, F2, F3, F4, F5.
  cbn [py_emit pw_disk pw_pos pw_lvls pw_dts pw_dhead] in F1, F2, F3, F4, F5.
  assert (Hmapoff : map rc_off (cs ++ [c]) = map rc_off cs ++ [off]) by (rewrite map_app; reflexivity).
  assert (Hposeq : pw_pos st = (pos0 + Z.of_nat (length (map rc_off cs)) + Z.of_nat 0)%Z) by lia.
  split; [|split].
  - (* R *)
    rewrite Hmapoff. constructor; cbn [wm_fx_base wm_fx_tk wm_fx_fsr x1].
    + exact Hbok'.
    + exact Htok'.
    + rewrite Hty'. exact Rty.
    + exact Rlvlen.
    + rewrite F2, app_length. cbn [length]. lia.
    + apply Forall_app. split; [exact Rnz|constructor; [exact Hoffnz|constructor]].
    + intros M HM. rewrite Hoffs'.
      destruct Rtok as (_ & _ & _ & Hl16 & _).
      pose proof (rf_heads_step (map rc_off cs) (wm_tk_offsets (wm_fx_tk x)) (py_head_get st) L off Rnz Hl16 ltac:(lia) Hoffnz Rheads M HM) as Y.
      cbv zeta in Y. unfold st1. rewrite head_get_set_head.
      change (py_head_get (py_emit st (PyIndex L) (pl_its pl) (Z.of_nat (length (pl_idx pl))) (pl_idx pl))) with (py_head_get st).
      rewrite Rpos, Nat2N.id. exact Y.
    + rewrite Hdh', F5. destruct Rdhead as (E & V). split; [rewrite rf_psi_app by exact V; exact E|rewrite app_length; apply rf_pvalid_app; exact V].
    + intros M HM. rewrite (rf_lvl_get_eq st st1 M F3). apply rf_lvl_rel_app. apply Rlvls. exact HM.
    + rewrite F4. exact Rdts.
  - (* chunks *)
    rewrite F1. apply rf_Forall2_snoc; [apply rf_chunks_mono; exact HF|].
    rewrite Hmapoff. unfold rf_chunk_rel. cbn [pc_off pc_kind pc_ts pc_count pc_entries rc_off rc_tag rc_meta rc_pay c].
    split; [rewrite Hposeq, rf_psi_new by (cbn [length]; lia); reflexivity|].
    split; [right; rewrite app_length; cbn [length]; lia|].
    split; [rewrite Rty; reflexivity|]. split; [reflexivity|].
    split.
    + subst payload. rewrite Eits. f_equal.
      * rewrite D1. unfold rf_len. rewrite Hlenidx. lia.
      * rewrite wm_rev_eq, D3. symmetry. apply rf_psi_map_app. exact D4.
    + rewrite app_length. eapply Forall_impl; [|exact D4]. intros p Hp. apply rf_pvalid_app. exact Hp.
  - (* log *)
    split; [|apply (rf_dl_cons cs c x x1 Hdl); [exact Hext|exact Hout']].
    unfold rf_out. cbn [wm_fx_base x1]. rewrite Hout'. apply rf_filter_cons_mine; [|exact Hout].
    unfold rf_mine. cbn [rc_tag rc_meta c]. rewrite Rty. rewrite rf_meta_sid by lia. rewrite (N.eqb_refl sid). reflexivity.
Qed.


(* ---- a SUMMARY chunk ---- *)
Lemma rf_sim_summary : forall pre cs blks x st L lv,
  rf_S pre cs blks x st -> (1 <= L < 16)%nat -> (lo <= L)%nat ->
  wm_f_get_level (wm_fx_fsr x) (N.of_nat L) = Some lv -> pl_idx (py_lvl_get st L) <> [] ->
  (32 * py_eps pd + 16 < 4294967296)%Z ->
  let payload := wm_fsr_summary_payload (sg_dtype d) (wm_fl_sts lv) (wm_fl_nsum lv) (wm_rev (wm_fl_sum lv)) in
  let bt := wm_core_wr_summary (wm_fx_base x) sid (wm_fx_tk x) (N.of_nat L) payload
              (SIZEOF_payload_header + (wm_fl_nsum lv * wm_summary_entry_bits (sg_dtype d)) / 8) in
  let x1 := {| wm_fx_base := fst bt; wm_fx_tk := snd bt; wm_fx_fsr := wm_fx_fsr x |} in
  let pl := py_lvl_get st L in
  let st1 := py_emit st (PySummary L) (pl_sts pl) (pl_sum pl) [] in
  exists c, rf_S pre (cs ++ [c]) blks x1 st1 /\ rc_off c = wm_fend (wm_b_raw (wm_fx_base x)).
Proof.
  intros pre cs blks x st L lv (HR & HF & Hout & Hdl) HL Hlo Hlv Hidx Hcap payload bt x1 pl st1.
  destruct HR as [Rbok Rtok Rty Rlvlen Rpos Rnz Rheads Rdhead Rlvls Rdts].
  pose proof (Rlvls L ltac:(lia)) as Hrel. rewrite Hlv in Hrel. fold pl in Hrel.
  destruct Hrel as (Hc1 & Hc2 & Hc3 & D1 & D2 & D3 & D4 & D5 & D6).
  destruct (D6 Hidx) as (Eits & Ests).
  assert (Hlnrev : rf_ln (wm_rev (wm_fl_sum lv)) = wm_fl_nsum lv).
  { rewrite D2. unfold rf_ln. rewrite wm_rev_eq, rev_length. reflexivity. }
  assert (Hpl : rf_len payload = SIZEOF_payload_header + (wm_fl_nsum lv * wm_summary_entry_bits (sg_dtype d)) / 8).
  { subst payload. rewrite rf_summary_payload_len, Hlnrev. reflexivity. }
  assert (Hplt : rf_len payload < 4294967296).
  { pose proof (rf_summary_payload_le (sg_dtype d) (wm_fl_sts lv) (wm_fl_nsum lv) (wm_rev (wm_fl_sum lv))) as Hle.
    fold payload in Hle. rewrite Hlnrev in Hle. lia. }
  pose proof (rf_core_wr_summary (wm_fx_base x) sid (wm_fx_tk x) (N.of_nat L) payload Rbok Rtok Hplt) as X.
  cbv zeta in X. rewrite Hpl in X. fold bt in X.
  destruct X as (Hbok' & Htok' & Hext & Htell & Hfe' & Hout' & Hoffs' & Hdh' & Hih' & Hhd' & Hty' & _).
  set (off := wm_fend (wm_b_raw (wm_fx_base x))) in *.
  assert (Hoffnz : off <> 0) by (subst off; apply rf_fend_nz; exact Rbok).
  set (c := {| rc_off := off; rc_tag := fm_track_tag (wm_tk_type (wm_fx_tk x)) JLS_TRACK_CHUNK_SUMMARY;
               rc_meta := wm_meta sid (N.of_nat L); rc_pay := payload |}) in *.
  exists c. split; [|reflexivity].
  assert (Hmapoff : map rc_off (cs ++ [c]) = map rc_off cs ++ [off]) by (rewrite map_app; reflexivity).
  assert (Hposeq : pw_pos st = (pos0 + Z.of_nat (length (map rc_off cs)) + Z.of_nat 0)%Z) by lia.
  split; [|split].
  - rewrite Hmapoff. constructor; cbn [wm_fx_base wm_fx_tk wm_fx_fsr x1 st1 py_emit pw_disk pw_pos pw_lvls pw_heads pw_dts pw_dhead].
    + exact Hbok'.
    + exact Htok'.
    + rewrite Hty'. exact Rty.
    + exact Rlvlen.
    + rewrite app_length. cbn [length]. lia.
    + apply Forall_app. split; [exact Rnz|constructor; [exact Hoffnz|constructor]].
    + intros M HM. rewrite Hoffs'. destruct (Rheads M HM) as (E & V).
      change (py_head_get (py_emit st (PySummary L) (pl_sts pl) (pl_sum pl) []) M) with (py_head_get st M).
      split; [rewrite rf_psi_app by exact V; exact E|rewrite app_length; apply rf_pvalid_app; exact V].
    + rewrite Hdh'. destruct Rdhead as (E & V). split; [rewrite rf_psi_app by exact V; exact E|rewrite app_length; apply rf_pvalid_app; exact V].
    + intros M HM. change (py_lvl_get (py_emit st (PySummary L) (pl_sts pl) (pl_sum pl) []) M) with (py_lvl_get st M).
      apply rf_lvl_rel_app. apply Rlvls. exact HM.
    + exact Rdts.
  - cbn [st1 py_emit pw_disk]. apply rf_Forall2_snoc; [apply rf_chunks_mono; exact HF|].
    rewrite Hmapoff. unfold rf_chunk_rel. cbn [pc_off pc_kind pc_ts pc_count pc_entries rc_off rc_tag rc_meta rc_pay c].
    split; [rewrite Hposeq, rf_psi_new by (cbn [length]; lia); reflexivity|].
    split; [right; rewrite app_length; cbn [length]; lia|].
    split; [rewrite Rty; reflexivity|]. split; [reflexivity|].
    exists (wm_rev (wm_fl_sum lv)). split.
    + rewrite D5. unfold rf_ln in Hlnrev. lia.
    + subst payload. rewrite Ests, D5, N2Z.id. reflexivity.
  - split; [|apply (rf_dl_cons cs c x x1 Hdl); [exact Hext|exact Hout']].
    unfold rf_out. cbn [wm_fx_base x1]. rewrite Hout'. apply rf_filter_cons_mine; [|exact Hout].
    unfold rf_mine. cbn [rc_tag rc_meta c]. rewrite Rty. rewrite rf_meta_sid by lia. rewrite (N.eqb_refl sid). reflexivity.
Qed.


(* ---- one index entry + some summary entries appended to a level (summary1 / summaryN before the flush test) ---- *)
Lemma rf_level_alloc_get : forall f l, (N.to_nat l < length (wm_f_levels f))%nat ->
  exists dst, wm_f_get_level (wm_fsr_level_alloc f l) l = Some dst /\
    match wm_f_get_level f l with
    | Some lv => dst = lv
    | None => dst = {| wm_fl_its := wm_f_sid0 f; wm_fl_nidx := 0; wm_fl_idx := []; wm_fl_sts := wm_f_sid0 f; wm_fl_nsum := 0; wm_fl_sum := [] |}
    end.
Proof.
  intros f l Hl. unfold wm_fsr_level_alloc. destruct (wm_f_get_level f l) as [lv|] eqn:E.
  - exists lv. split; [exact E|reflexivity].
  - eexists. split; [apply rf_get_set_level_eq; exact Hl|reflexivity].
Qed.
Lemma rf_level_alloc_other : forall f l l', l <> l' -> wm_f_get_level (wm_fsr_level_alloc f l) l' = wm_f_get_level f l'.
Proof. intros f l l' H. unfold wm_fsr_level_alloc. destruct (wm_f_get_level f l); [reflexivity|apply rf_get_set_level_neq; exact H]. Qed.
Lemma rf_level_alloc_len : forall f l, length (wm_f_levels (wm_fsr_level_alloc f l)) = length (wm_f_levels f).
Proof. intros f l. unfold wm_fsr_level_alloc. destruct (wm_f_get_level f l); [reflexivity|apply rf_set_level_len]. Qed.

Lemma rf_sim_append : forall offs x st M pos add its sts st' (new : list wm_sentry),
  rf_R offs x st -> (1 <= M < 16)%nat -> (lo <= M)%nat ->
  py_append pd M pos add its sts st = PyOk st' ->
  rf_pvalid (length offs) pos0 pos -> Z.of_nat (length new) = add ->
  let f1 := wm_fsr_level_alloc (wm_fx_fsr x) (N.of_nat M) in
  exists dst, wm_f_get_level f1 (N.of_nat M) = Some dst /\
    rf_R offs (wm_fx_set_fsr x (wm_f_set_level f1 (N.of_nat M) (Some (wm_fl_feed dst its sts (rf_psi offs pos0 pos) new)))) st'.
Proof.
  intros offs x st M pos add its sts st' new HR HM Hlo Happ Hv Hnew f1.
  destruct HR as [Rbok Rtok Rty Rlvlen Rpos Rnz Rheads Rdhead Rlvls Rdts].
  destruct (append_inv pd M pos add its sts st st' Happ) as (Hcap & Hsum & ->).
  destruct (rf_level_alloc_get (wm_fx_fsr x) (N.of_nat M) ltac:(rewrite Rlvlen; lia)) as (dst & Hget & Hdst).
  exists dst. split; [exact Hget|].
  assert (Hl1 : length (wm_f_levels f1) = 16%nat) by (subst f1; rewrite rf_level_alloc_len; exact Rlvlen).
  constructor; cbn [wm_fx_base wm_fx_tk wm_fx_fsr wm_fx_set_fsr]; try assumption.
  - rewrite rf_set_level_len. exact Hl1.
  - intros L HL.
    destruct (Nat.eq_dec L M) as [->|Hne].
    + rewrite rf_get_set_level_eq by (rewrite Hl1; lia). rewrite lvl_get_set_eq.
      pose proof (Rlvls M ltac:(lia)) as Hrel. set (pl := py_lvl_get st M) in *.
      destruct Hrel as (A & B & C & D).
      (* dst satisfies the Some-relation *)
      assert (HD : wm_fl_nidx dst = rf_len (wm_fl_idx dst) /\ wm_fl_nsum dst = rf_ln (wm_fl_sum dst) /\
                   rev (wm_fl_idx dst) = map (rf_psi offs pos0) (pl_idx pl) /\ Forall (rf_pvalid (length offs) pos0) (pl_idx pl) /\
                   pl_sum pl = Z.of_N (wm_fl_nsum dst) /\
                   (pl_idx pl <> [] -> pl_its pl = wm_fl_its dst /\ pl_sts pl = wm_fl_sts dst)).
      { destruct (wm_f_get_level (wm_fx_fsr x) (N.of_nat M)) as [lv|].
        - subst dst. exact D.
        - subst dst. cbn [wm_fl_nidx wm_fl_idx wm_fl_nsum wm_fl_sum wm_fl_its wm_fl_sts]. rewrite D.
          split; [reflexivity|]. split; [reflexivity|]. split; [reflexivity|]. split; [constructor|].
          split; [apply C; exact D|]. intro X; congruence. }
      destruct HD as (D1 & D2 & D3 & D4 & D5 & D6).
      unfold rf_lvl_rel, appended, wm_fl_feed. cbn [pl_idx pl_sum pl_its pl_sts wm_fl_nidx wm_fl_idx wm_fl_nsum wm_fl_sum wm_fl_its wm_fl_sts].
      split; [rewrite app_length; cbn [length]; lia|]. split; [lia|].
      split; [intro X; destruct (pl_idx pl); discriminate X|].
      split; [rewrite D1; unfold rf_len; cbn [length]; lia|].
      split; [rewrite D2; unfold rf_ln; rewrite rev_append_rev, app_length, rev_length; lia|].
      split; [cbn [rev]; rewrite D3, map_app; reflexivity|].
      split; [apply Forall_app; split; [exact D4|constructor; [exact Hv|constructor]]|].
      split; [rewrite D5; lia|].
      intros _.
      assert (Hnil : (wm_fl_nidx dst =? 0) = py_nilb (pl_idx pl)).
      { rewrite D1. apply (f_equal (@length N)) in D3. rewrite rev_length, map_length in D3.
        unfold rf_len. rewrite D3. destruct (pl_idx pl); reflexivity. }
      rewrite Hnil. destruct (pl_idx pl) as [|e es] eqn:Ei; cbn [py_nilb]; [split; reflexivity|].
      apply D6. discriminate.
    + rewrite rf_get_set_level_neq by lia. subst f1. rewrite rf_level_alloc_other by lia.
      rewrite lvl_get_set_neq by congruence. apply Rlvls. exact HL.
  - cbn [py_lvl_set pw_dts wm_f_set_level wm_f_ts]. rewrite Rdts.
    destruct (rf_blk_eq_level_alloc (wm_fx_fsr x) (N.of_nat M)) as (_ & _ & E & _). symmetry. exact E.
Qed.


Lemma rf_S_change : forall pre cs blks x st x' st',
  rf_S pre cs blks x st -> rf_R (map rc_off cs) x' st' -> wm_fx_base x' = wm_fx_base x -> pw_disk st' = pw_disk st ->
  rf_S pre cs blks x' st'.
Proof.
  intros pre cs blks x st x' st' (_ & HF & Ho & Hdl) HR Hb Hd. split; [exact HR|]. split; [rewrite Hd; exact HF|].
  split; [unfold rf_out in *; rewrite Hb; exact Ho|]. eapply rf_dl_same; eauto.
Qed.

(* the two entry_count = 0 resets at the end of wr_summary *)
Lemma rf_sim_reset : forall offs x st L,
  rf_R offs x st -> (1 <= L < 16)%nat -> (lo <= L)%nat ->
  rf_R offs
    (match wm_f_get_level (wm_fx_fsr x) (N.of_nat L) with
     | Some lv4 => wm_fx_set_fsr x (wm_f_set_level (wm_fx_fsr x) (N.of_nat L) (Some (wm_fl_reset lv4)))
     | None => x end)
    (py_lvl_set st L (py_lvl_reset (py_lvl_get st L))).
Proof.
  intros offs x st L HR HL Hlo.
  destruct HR as [Rbok Rtok Rty Rlvlen Rpos Rnz Rheads Rdhead Rlvls Rdts].
  assert (Hcap : (0 <= py_cap pd L)%Z).
  { pose proof (Rlvls L ltac:(lia)) as (A & _). lia. }
  assert (Heps : (0 <= py_eps pd)%Z) by (change (py_eps pd) with (Z.of_N (sg_eps d)); lia).
  destruct (wm_f_get_level (wm_fx_fsr x) (N.of_nat L)) as [lv4|] eqn:E.
  - constructor; cbn [wm_fx_base wm_fx_tk wm_fx_fsr wm_fx_set_fsr]; try assumption.
    + rewrite rf_set_level_len. exact Rlvlen.
    + intros M HM. destruct (Nat.eq_dec M L) as [->|Hne].
      * rewrite rf_get_set_level_eq by (rewrite Rlvlen; lia). rewrite lvl_get_set_eq.
        unfold rf_lvl_rel, py_lvl_reset, wm_fl_reset. cbn [pl_idx pl_sum pl_its pl_sts wm_fl_nidx wm_fl_idx wm_fl_nsum wm_fl_sum wm_fl_its wm_fl_sts length].
        split; [lia|]. split; [exact Heps|]. split; [reflexivity|].
        split; [reflexivity|]. split; [reflexivity|]. split; [reflexivity|]. split; [constructor|]. split; [reflexivity|]. intro X; congruence.
      * rewrite rf_get_set_level_neq by lia. rewrite lvl_get_set_neq by congruence. apply Rlvls. exact HM.
  - constructor; try assumption.
    intros M HM. destruct (Nat.eq_dec M L) as [->|Hne].
    + rewrite E, lvl_get_set_eq. unfold rf_lvl_rel, py_lvl_reset. cbn [pl_idx pl_sum length].
      split; [lia|]. split; [exact Heps|]. split; reflexivity.
    + rewrite lvl_get_set_neq by congruence. apply Rlvls. exact HM.
Qed.

Hypothesis Hg_idx : forall L, (8 * py_cap pd L + 16 < 4294967296)%Z.
Hypothesis Hg_sum : (32 * py_eps pd + 16 < 4294967296)%Z.

Lemma rf_ofnat_succ : forall L, N.of_nat L + 1 = N.of_nat (S L).
Proof. intros. lia. Qed.

(* ---- wr_summary(level) with its recursion ---- *)
Lemma rf_sim_wr_summary : forall k L wfuel pre cs blks x st st' lv,
  rf_S pre cs blks x st -> (1 <= L)%nat -> (lo <= L)%nat -> k = (16 - L)%nat -> (k <= wfuel)%nat ->
  wm_f_get_level (wm_fx_fsr x) (N.of_nat L) = Some lv ->
  py_wr_summary k pd L st = PyOk st' ->
  exists cs', rf_S pre (cs ++ cs') blks (wm_fsr_wr_summary summN wfuel d (N.of_nat L) x) st'.
Proof.
  induction k as [|f IH]; intros L wfuel pre cs blks x st st' lv HS HL1 Hlo Hk Hwf Hlv Hpy; [cbn in Hpy; discriminate|].
  assert (HL : (1 <= L < 16)%nat) by lia.
  destruct wfuel as [|wf]; [lia|].
  cbn [wm_fsr_wr_summary py_wr_summary] in *. rewrite Hlv.
  pose proof HS as (HR & HF & Hout & Hdl).
  pose proof (R_lvls _ _ _ HR L ltac:(lia)) as Hrel. rewrite Hlv in Hrel.
  set (pl := py_lvl_get st L) in *.
  destruct Hrel as (Hc1 & Hc2 & Hc3 & D1 & D2 & D3 & D4 & D5 & D6).
  assert (Hlenidx : length (wm_fl_idx lv) = length (pl_idx pl)).
  { rewrite <- (rev_length (wm_fl_idx lv)), D3, map_length. reflexivity. }
  destruct (R_heads _ _ _ HR L ltac:(lia)) as (EhL & VhL).
  (* the two early-return tests agree *)
  assert (Hcond : ((wm_fl_nsum lv =? 0) && ((wm_fl_nidx lv =? 0) || ((1 <? N.of_nat L) && (wm_get_off (wm_tk_offsets (wm_fx_tk x)) (N.of_nat L) =? 0))))
                  = ((pl_sum pl =? 0)%Z && (py_nilb (pl_idx pl) || ((1 <? L)%nat && (py_head_get st L =? 0)%Z)))).
  { f_equal; [rewrite D5; destruct (wm_fl_nsum lv); reflexivity|]. f_equal.
    - rewrite D1. unfold rf_len. rewrite Hlenidx. destruct (pl_idx pl); reflexivity.
    - f_equal.
      + destruct (N.ltb_spec 1 (N.of_nat L)); destruct (Nat.ltb_spec 1 L); try reflexivity; lia.
      + rewrite EhL. destruct (rf_psi_zero _ pos0 (py_head_get st L) (R_nz _ _ _ HR) VhL) as [Z1 Z2].
        destruct (Z.eqb_spec (py_head_get st L) 0) as [E|E]; [rewrite (Z2 E); reflexivity|].
        destruct (N.eqb_spec (rf_psi (map rc_off cs) pos0 (py_head_get st L)) 0) as [E'|]; [exfalso; apply E, Z1, E'|reflexivity]. }
  rewrite Hcond.
  destruct ((pl_sum pl =? 0)%Z && (py_nilb (pl_idx pl) || ((1 <? L)%nat && (py_head_get st L =? 0)%Z))) eqn:Econd.
  - (* nothing to write *)
    injection Hpy as <-. exists []. rewrite app_nil_r. exact HS.
  - assert (Hidx : pl_idx pl <> []).
    { intro E. rewrite (Hc3 E), E in Econd. cbn in Econd. discriminate. }
    assert (Hnidx : (wm_fl_nidx lv =? 0) = false).
    { rewrite D1. unfold rf_len. rewrite Hlenidx. destruct (pl_idx pl); [congruence|reflexivity]. }
    rewrite Hnidx.
    (* INDEX chunk *)
    destruct (rf_sim_index pre cs blks x st L lv HS HL Hlo Hlv Hidx (Hg_idx L)) as (c1 & HS1 & Hoff1).
    cbv zeta in HS1. fold pl in HS1. change (sg_id d) with sid.
    set (bt1 := wm_core_wr_index (wm_fx_base x) sid (wm_fx_tk x) (N.of_nat L) _ _) in *.
    destruct bt1 as [b1 t1] eqn:Ebt1. cbn [fst snd] in HS1.
    set (x1 := {| wm_fx_base := b1; wm_fx_tk := t1; wm_fx_fsr := wm_fx_fsr x |}) in *.
    set (st1 := py_set_head (py_emit st (PyIndex L) (pl_its pl) (Z.of_nat (length (pl_idx pl))) (pl_idx pl)) L (pw_pos st)) in *.
    assert (Hl1 : py_lvl_get st1 L = pl).
    { apply rf_lvl_get_eq. destruct (set_head_fields (py_emit st (PyIndex L) (pl_its pl) (Z.of_nat (length (pl_idx pl))) (pl_idx pl)) L (pw_pos st)) as (_ & _ & F3 & _). exact F3. }
    (* SUMMARY chunk *)
    destruct (rf_sim_summary pre (cs ++ [c1]) blks x1 st1 L lv HS1 HL Hlo Hlv ltac:(rewrite Hl1; exact Hidx) Hg_sum) as (c2 & HS2 & Hoff2).
    cbv zeta in HS2. rewrite Hl1 in HS2. cbn [wm_fx_base wm_fx_tk wm_fx_fsr x1] in HS2.
    set (bt2 := wm_core_wr_summary b1 sid t1 (N.of_nat L) _ _) in *.
    destruct bt2 as [b2 t2] eqn:Ebt2. cbn [fst snd] in HS2.
    set (x2 := {| wm_fx_base := b2; wm_fx_tk := t2; wm_fx_fsr := wm_fx_fsr x |}) in *.
    set (st2 := py_emit st1 (PySummary L) (pl_sts pl) (pl_sum pl) []) in *.
    (* py side: the same two chunks *)
    assert (Hpyc : py_wr_chunks L st = (st2, pw_pos st)).
    { unfold py_wr_chunks. fold pl. destruct (pl_idx pl) as [|e es] eqn:Ei; [congruence|]. reflexivity. }
    rewrite Hpyc in Hpy.
    destruct f as [|f']; [discriminate|].
    assert (HL14 : (L <= 14)%nat) by lia.
    destruct (N.leb_spec JLS_SUMMARY_LEVEL_COUNT (N.of_nat L + 1)) as [Hbad|_]; [unfold JLS_SUMMARY_LEVEL_COUNT in Hbad; lia|].
    (* feed level L + 1 *)
    unfold py_bind in Hpy at 1.
    destruct (py_feed pd (S L) (pw_pos st) st2) as [st3|e] eqn:Efeed; [|discriminate].
    unfold py_feed in Efeed. cbn [pred] in Efeed.
    assert (Hl2 : py_lvl_get st2 L = pl) by (subst st2; cbn; exact Hl1).
    rewrite Hl2 in Efeed.
    pose proof HS2 as (HR2 & HF2 & Hout2 & Hdl2).
    set (entries := wm_rev (wm_fl_sum lv)) in *.
    set (nN := wm_fl_nsum lv / sg_sumdf d).
    set (new := map (summN (wm_summary_is64 (sg_dtype d))) (wm_groups (N.to_nat nN) (N.to_nat (sg_sumdf d)) entries)).
    assert (Hnewlen : Z.of_nat (length new) = (pl_sum pl / py_sumdf pd)%Z).
    { subst new. rewrite map_length, rf_groups_len. subst nN. change (py_sumdf pd) with (Z.of_N (sg_sumdf d)). rewrite D5.
      rewrite N_nat_Z. apply N2Z.inj_div. }
    assert (Hposv : rf_pvalid (length (map rc_off ((cs ++ [c1]) ++ [c2]))) pos0 (pw_pos st)).
    { right. rewrite (R_pos _ _ _ HR). rewrite !map_length, !app_length. cbn [length]. lia. }
    destruct (rf_sim_append _ x2 st2 (S L) (pw_pos st) _ (pl_its pl) (pl_sts pl) st3 new HR2 ltac:(lia) ltac:(lia) Efeed Hposv Hnewlen)
      as (dst & Hget & HR3).
    cbv zeta in Hget, HR3. cbn [wm_fx_fsr x2] in Hget, HR3.
    assert (Hpsi : rf_psi (map rc_off ((cs ++ [c1]) ++ [c2])) pos0 (pw_pos st) = wm_raw_chunk_tell (wm_b_raw (wm_fx_base x))).
    { rewrite (R_pos _ _ _ HR). rewrite !map_app. cbn [map]. rewrite <- app_assoc. cbn [app].
      replace (pos0 + Z.of_nat (length (map rc_off cs)))%Z with (pos0 + Z.of_nat (length (map rc_off cs)) + Z.of_nat 0)%Z by lia.
      rewrite rf_psi_new by (cbn [length]; lia). cbn [nth]. rewrite Hoff1.
      unfold wm_raw_chunk_tell. destruct (R_bok _ _ _ HR) as (((A & B & _) & _) & _). congruence. }
    destruct (D6 Hidx) as (Eits & Ests).
    (* wm side: summaryN_add is that append *)
    assert (Ef3 : wm_fsr_summaryN_add summN d (N.of_nat L + 1) (wm_raw_chunk_tell (wm_b_raw (wm_fx_base x))) lv entries (wm_fx_fsr x)
                  = wm_f_set_level (wm_fsr_level_alloc (wm_fx_fsr x) (N.of_nat (S L))) (N.of_nat (S L))
                      (Some (wm_fl_feed dst (pl_its pl) (pl_sts pl) (rf_psi (map rc_off ((cs ++ [c1]) ++ [c2])) pos0 (pw_pos st)) new))).
    { unfold wm_fsr_summaryN_add. rewrite rf_ofnat_succ, Hget, Hpsi, Eits, Ests. reflexivity. }
    rewrite Ef3.
    set (f3 := wm_f_set_level _ _ _) in *.
    set (x3 := {| wm_fx_base := b2; wm_fx_tk := t2; wm_fx_fsr := f3 |}).
    change (wm_fx_set_fsr x2 f3) with x3 in HR3.
    assert (HS3 : rf_S pre ((cs ++ [c1]) ++ [c2]) blks x3 st3).
    { apply (rf_S_change _ _ _ x2 st2); [exact HS2|exact HR3|reflexivity|].
      destruct (append_inv _ _ _ _ _ _ _ _ Efeed) as (_ & _ & ->). reflexivity. }
    (* the flush test of summaryN *)
    assert (Hget3 : wm_f_get_level f3 (N.of_nat L + 1) = Some (wm_fl_feed dst (pl_its pl) (pl_sts pl) (rf_psi (map rc_off ((cs ++ [c1]) ++ [c2])) pos0 (pw_pos st)) new)).
    { rewrite rf_ofnat_succ. subst f3. apply rf_get_set_level_eq. rewrite rf_level_alloc_len, (R_lvlen _ _ _ HR). lia. }
    rewrite Hget3.
    set (up := wm_fl_feed dst _ _ _ new) in *.
    pose proof (R_lvls _ _ _ HR3 (S L) ltac:(lia)) as Hrel3. cbn [wm_fx_fsr x3] in Hrel3.
    rewrite <- rf_ofnat_succ, Hget3 in Hrel3. destruct Hrel3 as (_ & _ & _ & _ & _ & _ & _ & U5 & _).
    assert (Htest : (sg_eps d <=? wm_fl_nsum up) = (py_eps pd <=? pl_sum (py_lvl_get st3 (S L)))%Z).
    { rewrite U5. change (py_eps pd) with (Z.of_N (sg_eps d)). destruct (N.leb_spec (sg_eps d) (wm_fl_nsum up)); destruct (Z.leb_spec (Z.of_N (sg_eps d)) (Z.of_N (wm_fl_nsum up))); try reflexivity; lia. }
    rewrite Htest.
    unfold py_bind in Hpy.
    assert (Hrec : exists cs4 st4,
              (if (py_eps pd <=? pl_sum (py_lvl_get st3 (S L)))%Z then py_wr_summary (S f') pd (S L) st3 else PyOk st3) = PyOk st4 /\
              rf_S pre (((cs ++ [c1]) ++ [c2]) ++ cs4) blks
                   (if (py_eps pd <=? pl_sum (py_lvl_get st3 (S L)))%Z then wm_fsr_wr_summary summN wf d (N.of_nat L + 1) x3 else x3) st4).
    { destruct (py_eps pd <=? pl_sum (py_lvl_get st3 (S L)))%Z.
      - destruct (py_wr_summary (S f') pd (S L) st3) as [st4|e] eqn:Erec; [|discriminate].
        destruct (IH (S L) wf pre ((cs ++ [c1]) ++ [c2]) blks x3 st3 st4 up HS3 ltac:(lia) ltac:(lia) ltac:(lia) ltac:(lia)) as (cs4 & HS4).
        { cbn [wm_fx_fsr x3]. rewrite <- rf_ofnat_succ. exact Hget3. }
        { exact Erec. }
        exists cs4, st4. split; [reflexivity|]. rewrite rf_ofnat_succ. exact HS4.
      - exists [], st3. split; [reflexivity|]. rewrite app_nil_r. exact HS3. }
    destruct Hrec as (cs4 & st4 & Erec & HS4). rewrite Erec in Hpy. injection Hpy as <-.
    set (x4 := if (py_eps pd <=? pl_sum (py_lvl_get st3 (S L)))%Z then wm_fsr_wr_summary summN wf d (N.of_nat L + 1) x3 else x3) in *.
    exists ([c1] ++ [c2] ++ cs4).
    replace (cs ++ [c1] ++ [c2] ++ cs4) with (((cs ++ [c1]) ++ [c2]) ++ cs4) by (rewrite <- !app_assoc; reflexivity).
    destruct HS4 as (HR4 & HF4 & Hout4 & Hdl4).
    pose proof (rf_sim_reset _ x4 st4 L HR4 HL Hlo) as HR5.
    split; [exact HR5|]. split; [exact HF4|].
    split; [unfold rf_out in *; destruct (wm_f_get_level (wm_fx_fsr x4) (N.of_nat L)); exact Hout4|].
    eapply rf_dl_same; [exact Hdl4|]. destruct (wm_f_get_level (wm_fx_fsr x4) (N.of_nat L)); reflexivity.
Qed.


(* ---- wr_data ---- *)
Definition rf_req (omit_reg : N) (blk : list N) : bool :=
  let data := wm_pack w blk in
  if w <=? 8 then wm_is_mem_const data (wm_data_const w (hd 0 data)) && (rf_len blk mod sg_sdf d =? 0)
  else 1 <? omit_reg.

Lemma rf_R_fsr_change : forall offs x st f' dts',
  rf_R offs x st -> wm_f_levels f' = wm_f_levels (wm_fx_fsr x) -> wm_f_ts f' = dts' ->
  rf_R offs (wm_fx_set_fsr x f')
       {| pw_disk := pw_disk st; pw_pos := pw_pos st; pw_lvls := pw_lvls st; pw_heads := pw_heads st; pw_dts := dts'; pw_dhead := pw_dhead st |}.
Proof.
  intros offs x st f' dts' [Rbok Rtok Rty Rlvlen Rpos Rnz Rheads Rdhead Rlvls Rdts] Hl Ht.
  constructor; cbn [wm_fx_base wm_fx_tk wm_fx_fsr wm_fx_set_fsr pw_disk pw_pos pw_lvls pw_heads pw_dts pw_dhead]; try assumption.
  - rewrite Hl. exact Rlvlen.
  - intros L HL. unfold wm_f_get_level. rewrite Hl. exact (Rlvls L HL).
  - symmetry. exact Ht.
Qed.

Lemma rf_py_eta : forall st, st = {| pw_disk := pw_disk st; pw_pos := pw_pos st; pw_lvls := pw_lvls st; pw_heads := pw_heads st; pw_dts := pw_dts st; pw_dhead := pw_dhead st |}.
Proof. destruct st; reflexivity. Qed.

Hypothesis Hspd : 0 < sg_spd d.
Hypothesis Hw : w < 8 \/ w mod 8 = 0.
Hypothesis Hg_data : 16 + (sg_spd d * w + 7) / 8 < 4294967296.
Hypothesis Hlo1 : (lo <= 1)%nat.

Lemma rf_sim_flush : forall pre cs blks x st blk st',
  rf_S pre cs blks x st -> blk <> [] -> rf_len blk <= sg_spd d ->
  pw_dts st = (t0 + py_spd pd * Z.of_nat (length blks))%Z ->
  py_wr_data pd (Z.of_nat (length blk)) (rf_req (wm_f_omit (wm_fx_fsr x)) blk) st = PyOk st' ->
  exists cs', rf_S pre (cs ++ cs') (blks ++ [blk]) (rf_flush summ1 summN d x blk) st' /\
              pw_dts st' = (t0 + py_spd pd * Z.of_nat (length (blks ++ [blk])))%Z.
Proof.
  intros pre cs blks x st blk st' HS Hne Hle Hdts Hpy.
  pose proof HS as (HR & HF & Hout & Hdl).
  assert (Hn0 : rf_len blk <> 0) by (unfold rf_len; destruct blk; [congruence|cbn [length]; lia]).
  unfold rf_flush, wm_fsr_wr_data.
  set (x' := rf_set_buf x blk).
  set (f := wm_fx_fsr x').
  assert (Hfc : wm_f_count f = rf_len blk) by reflexivity.
  assert (Hfb : wm_rev (wm_f_buf f) = blk) by (subst f x'; unfold rf_set_buf; cbn [wm_fx_fsr wm_fx_set_fsr wm_f_set_block wm_f_buf]; rewrite wm_rev_eq, rev_involutive; reflexivity).
  assert (Hfo : wm_f_omit f = wm_f_omit (wm_fx_fsr x)) by reflexivity.
  assert (Hft : wm_f_ts f = wm_f_ts (wm_fx_fsr x)) by reflexivity.
  rewrite Hfc, Hfb, Hfo.
  destruct (N.eqb_spec (rf_len blk) 0) as [E|_]; [contradiction|].
  (* R for x' *)
  assert (HR' : rf_R (map rc_off cs) x' st).
  { rewrite (rf_py_eta st). apply (rf_R_fsr_change _ x st f (pw_dts st) HR); [reflexivity|]. rewrite Hft. symmetry. exact (R_dts _ _ _ HR). }
  assert (HS' : rf_S pre cs blks x' st) by (apply (rf_S_change _ _ _ x st); [exact HS|exact HR'|reflexivity|reflexivity]).
  (* py side *)
  unfold py_wr_data in Hpy.
  destruct (Z.eqb_spec (Z.of_nat (length blk)) 0) as [E|_]; [unfold rf_len in Hn0; lia|].
  (* the omit decision *)
  set (data := wm_pack w blk) in *.
  fold w. fold data.
  assert (Hom : (if w <=? 8 then wm_is_mem_const data (wm_data_const w (hd 0 data)) && (rf_len blk mod sg_sdf d =? 0)
                 else 1 <? wm_f_omit (wm_fx_fsr x)) = rf_req (wm_f_omit (wm_fx_fsr x)) blk) by reflexivity.
  rewrite Hom. set (req := rf_req (wm_f_omit (wm_fx_fsr x)) blk) in *.
  destruct (R_dhead _ _ _ HR) as (Edh & Vdh).
  assert (Hdz : (wm_ck_offset (wm_tk_data_head (wm_fx_tk x')) =? 0) = (pw_dhead st =? 0)%Z).
  { change (wm_fx_tk x') with (wm_fx_tk x). rewrite Edh. destruct (rf_psi_zero _ pos0 (pw_dhead st) (R_nz _ _ _ HR) Vdh) as [Z1 Z2].
    destruct (Z.eqb_spec (pw_dhead st) 0) as [E|E]; [rewrite (Z2 E); reflexivity|].
    destruct (N.eqb_spec (rf_psi (map rc_off cs) pos0 (pw_dhead st)) 0) as [E'|]; [exfalso; apply E, Z1, E'|reflexivity]. }
  rewrite Hdz.
  set (omit := req && negb (pw_dhead st =? 0)%Z) in *.
  assert (Hplen : rf_len (wm_fsr_data_payload (wm_f_ts f) (rf_len blk) w data) = SIZEOF_payload_header + (rf_len blk * w + 7) / 8).
  { unfold wm_fsr_data_payload, rf_len at 1. rewrite app_length, rf_payload_header_len, Nat2N.inj_add.
    fold (rf_len data). subst data. rewrite rf_pack_len by exact Hw. reflexivity. }
  assert (Hplt : rf_len (wm_fsr_data_payload (wm_f_ts f) (rf_len blk) w data) < 4294967296).
  { rewrite Hplen. unfold SIZEOF_payload_header. assert (rf_len blk * w <= sg_spd d * w) by (apply N.mul_le_mono_r; exact Hle). lia. }
  (* state after the (possible) DATA chunk: x1 / st1 / cs1, and the position handed to summary1 *)
  assert (Hstep1 : exists cs1 x1 pos1 st1 ppos,
     (if omit then (x', 0)
      else let '(b1, t1) := wm_core_wr_data (wm_fx_base x') (sg_id d) (wm_fx_tk x')
                              (wm_fsr_data_payload (wm_f_ts f) (rf_len blk) w data) (SIZEOF_payload_header + (rf_len blk * w + 7) / 8) in
           ({| wm_fx_base := b1; wm_fx_tk := t1; wm_fx_fsr := f |}, wm_raw_chunk_tell (wm_b_raw (wm_fx_base x')))) = (x1, pos1) /\
     py_bind (py_summary1 pd (Z.of_nat (length blk)) ppos st1)
       (fun st2 => PyOk {| pw_disk := pw_disk st2; pw_pos := pw_pos st2; pw_lvls := pw_lvls st2; pw_heads := pw_heads st2;
                           pw_dts := (pw_dts st2 + py_spd pd)%Z; pw_dhead := pw_dhead st2 |}) = PyOk st' /\
     rf_S pre (cs ++ cs1) (blks ++ [blk]) x1 st1 /\ wm_fx_fsr x1 = f /\ pw_dts st1 = pw_dts st /\
     rf_pvalid (length (map rc_off (cs ++ cs1))) pos0 ppos /\ rf_psi (map rc_off (cs ++ cs1)) pos0 ppos = pos1).
  { destruct omit eqn:Eom.
    - exists [], x', 0, st, 0%Z. rewrite app_nil_r. split; [reflexivity|]. split; [exact Hpy|].
      split. { destruct HS' as (A & B & C & D). split; [exact A|]. split; [|split; [exact C|exact D]].
               eapply rf_Forall2_impl; [|exact B]. intros a b Hab. rewrite <- (app_nil_r (map rc_off cs)). apply rf_chunk_rel_app. exact Hab. }
      split; [reflexivity|]. split; [reflexivity|]. split; [left; reflexivity|reflexivity].
    - destruct HR' as [Rbok Rtok Rty Rlvlen Rpos Rnz Rheads Rdhead Rlvls Rdts].
      pose proof (rf_core_wr_data (wm_fx_base x') (sg_id d) (wm_fx_tk x') (wm_fsr_data_payload (wm_f_ts f) (rf_len blk) w data) Rbok Rtok Hplt) as X.
      cbv zeta in X. rewrite Hplen in X.
      destruct (wm_core_wr_data (wm_fx_base x') (sg_id d) (wm_fx_tk x') _ _) as [b1 t1]. cbn [fst snd] in X.
      destruct X as (Hbok' & Htok' & Hext & Htell & Hfe' & Hout' & Hdh' & Hoffs' & Hih' & Hsh' & Hhd' & Hty' & _).
      set (off := wm_fend (wm_b_raw (wm_fx_base x'))) in *.
      assert (Hoffnz : off <> 0) by (subst off; apply rf_fend_nz; exact Rbok).
      set (c := {| rc_off := off; rc_tag := fm_track_tag (wm_tk_type (wm_fx_tk x')) JLS_TRACK_CHUNK_DATA;
                   rc_meta := wm_meta (sg_id d) 0; rc_pay := wm_fsr_data_payload (wm_f_ts f) (rf_len blk) w data |}) in *.
      set (e := py_set_head (py_emit st PyData (pw_dts st) (Z.of_nat (length blk)) []) 0 (pw_pos st)) in *.
      set (st1 := {| pw_disk := pw_disk e; pw_pos := pw_pos e; pw_lvls := pw_lvls e; pw_heads := pw_heads e; pw_dts := pw_dts e; pw_dhead := pw_pos st |}) in *.
      destruct (set_head_fields (py_emit st PyData (pw_dts st) (Z.of_nat (length blk)) []) 0 (pw_pos st)) as (F1 & F2 & F3 & F4 & F5).
      fold e in F1, F2, F3, F4, F5. cbn [py_emit pw_disk pw_pos pw_lvls pw_dts pw_dhead] in F1, F2, F3, F4, F5.
      exists [c], {| wm_fx_base := b1; wm_fx_tk := t1; wm_fx_fsr := f |}, (wm_raw_chunk_tell (wm_b_raw (wm_fx_base x'))), st1, (pw_pos st).
      assert (Hmapoff : map rc_off (cs ++ [c]) = map rc_off cs ++ [off]) by (rewrite map_app; reflexivity).
      assert (Hposeq : pw_pos st = (pos0 + Z.of_nat (length (map rc_off cs)) + Z.of_nat 0)%Z) by lia.
      split; [reflexivity|]. split; [exact Hpy|].
      split; [|split; [reflexivity|split; [exact F4|split]]].
      + split; [|split].
        * rewrite Hmapoff. constructor; cbn [wm_fx_base wm_fx_tk wm_fx_fsr st1 pw_disk pw_pos pw_lvls pw_heads pw_dts pw_dhead].
          -- exact Hbok'.
          -- exact Htok'.
          -- rewrite Hty'. exact Rty.
          -- exact Rlvlen.
          -- rewrite F2, app_length. cbn [length]. lia.
          -- apply Forall_app. split; [exact Rnz|constructor; [exact Hoffnz|constructor]].
          -- intros M HM. rewrite Hoffs'.
             destruct Rtok as (_ & _ & _ & Hl16 & _).
             pose proof (rf_heads_step (map rc_off cs) (wm_tk_offsets (wm_fx_tk x')) (py_head_get st) 0 off Rnz Hl16 ltac:(lia) Hoffnz Rheads M HM) as Y.
             cbv zeta in Y. change (py_head_get st1 M) with (py_head_get e M). unfold e. rewrite head_get_set_head.
             change (py_head_get (py_emit st PyData (pw_dts st) (Z.of_nat (length blk)) [])) with (py_head_get st).
             rewrite Rpos. exact Y.
          -- rewrite Hdh'. split; [rewrite Hposeq, rf_psi_new by (cbn [length]; lia); reflexivity|right; rewrite app_length; cbn [length]; lia].
          -- intros M HM. change (py_lvl_get st1 M) with (py_lvl_get e M). rewrite (rf_lvl_get_eq st e M F3). apply rf_lvl_rel_app. apply Rlvls. exact HM.
          -- rewrite F4. exact Rdts.
        * cbn [st1 pw_disk]. rewrite F1. apply rf_Forall2_snoc.
          -- rewrite Hmapoff. eapply rf_Forall2_impl; [|exact HF]. intros a b Hab. apply rf_chunk_rel_app. exact Hab.
          -- rewrite Hmapoff. unfold rf_chunk_rel. cbn [pc_off pc_kind pc_ts pc_count pc_entries rc_off rc_tag rc_meta rc_pay c].
             split; [rewrite Hposeq, rf_psi_new by (cbn [length]; lia); reflexivity|].
             split; [right; rewrite app_length; cbn [length]; lia|].
             split; [rewrite Rty; reflexivity|]. split; [reflexivity|].
             exists blk. split; [|split; [reflexivity|]].
             ++ rewrite Hdts. replace (t0 + py_spd pd * Z.of_nat (length blks) - t0)%Z with (Z.of_nat (length blks) * py_spd pd)%Z by lia.
                rewrite Z.div_mul by (change (py_spd pd) with (Z.of_N (sg_spd d)); lia).
                rewrite Nat2Z.id, nth_error_app2, Nat.sub_diag by lia. reflexivity.
             ++ rewrite <- nat_N_Z, N2Z.id. fold (rf_len blk). rewrite Hft, (R_dts _ _ _ HR). reflexivity.
        * split; [|apply (rf_dl_cons cs c x' _); [eapply rf_dl_same; [exact Hdl|reflexivity]|exact Hext|exact Hout']].
          unfold rf_out. cbn [wm_fx_base]. rewrite Hout'. apply rf_filter_cons_mine; [|exact Hout].
          unfold rf_mine. cbn [rc_tag rc_meta c]. rewrite Rty. fold sid. rewrite rf_meta_sid by lia. rewrite (N.eqb_refl sid). reflexivity.
      + right. rewrite Hmapoff, app_length. cbn [length]. lia.
      + rewrite Hmapoff, Hposeq, rf_psi_new by (cbn [length]; lia). cbn [nth]. symmetry. exact Htell. }
  destruct Hstep1 as (cs1 & x1 & pos1 & st1 & ppos & Ewm & Epy & HS1 & Hf1 & Hdts1 & Hpv & Hpp).
  fold sid in Ewm. change (sg_id d) with sid. rewrite Ewm.
  (* summary1 *)
  unfold py_bind in Epy at 1.
  destruct (py_summary1 pd (Z.of_nat (length blk)) ppos st1) as [st2|e] eqn:Es1; [|discriminate].
  injection Epy as <-.
  unfold py_summary1 in Es1. unfold py_bind in Es1.
  destruct (py_append pd 1 ppos (Z.of_nat (length blk) / py_sdf pd) (pw_dts st1) (pw_dts st1) st1) as [st1a|e] eqn:Eapp; [|discriminate].
  unfold wm_fsr_summary1. rewrite Hf1, Hfc.
  set (new := map (summ1 (sg_dtype d)) (wm_groups (N.to_nat (rf_len blk / sg_sdf d)) (N.to_nat (sg_sdf d)) blk)).
  assert (Hnewlen : Z.of_nat (length new) = (Z.of_nat (length blk) / py_sdf pd)%Z).
  { subst new. rewrite map_length, rf_groups_len, N_nat_Z, N2Z.inj_div. unfold rf_len. rewrite nat_N_Z. reflexivity. }
  pose proof HS1 as (HR1 & HF1 & Hout1 & Hdl1).
  destruct (rf_sim_append _ x1 st1 1 ppos _ (pw_dts st1) (pw_dts st1) st1a new HR1 ltac:(lia) Hlo1 Eapp Hpv Hnewlen) as (dst & Hget & HR1a).
  cbv zeta in Hget, HR1a. rewrite Hf1 in Hget, HR1a. change (N.of_nat 1) with 1 in Hget, HR1a.
  rewrite Hget.
  assert (Ets : pw_dts st1 = wm_f_ts f) by (rewrite Hdts1, Hft; exact (R_dts _ _ _ HR)).
  rewrite Ets, Hpp in HR1a.
  set (dst1 := wm_fl_feed dst (wm_f_ts f) (wm_f_ts f) pos1 new) in *.
  set (x1a := wm_fx_set_fsr x1 (wm_f_set_level (wm_fsr_level_alloc f 1) 1 (Some dst1))) in *.
  assert (HS1a : rf_S pre (cs ++ cs1) (blks ++ [blk]) x1a st1a).
  { apply (rf_S_change _ _ _ x1 st1); [exact HS1|exact HR1a|reflexivity|].
    destruct (append_inv _ _ _ _ _ _ _ _ Eapp) as (_ & _ & ->). reflexivity. }
  assert (Hget1a : wm_f_get_level (wm_fx_fsr x1a) (N.of_nat 1) = Some dst1).
  { subst x1a. cbn [wm_fx_fsr wm_fx_set_fsr]. change (N.of_nat 1) with 1. apply rf_get_set_level_eq.
    rewrite rf_level_alloc_len. rewrite <- Hf1, (R_lvlen _ _ _ HR1). cbv. lia. }
  pose proof (R_lvls _ _ _ HR1a 1%nat ltac:(lia)) as Hrel1. rewrite Hget1a in Hrel1.
  destruct Hrel1 as (_ & _ & _ & _ & _ & _ & _ & U5 & _).
  assert (Htest : (sg_eps d <=? wm_fl_nsum dst1) = (py_eps pd <=? pl_sum (py_lvl_get st1a 1))%Z).
  { rewrite U5. change (py_eps pd) with (Z.of_N (sg_eps d)).
    destruct (N.leb_spec (sg_eps d) (wm_fl_nsum dst1)); destruct (Z.leb_spec (Z.of_N (sg_eps d)) (Z.of_N (wm_fl_nsum dst1))); try reflexivity; lia. }
  rewrite Htest.
  assert (Hfin : exists cs2 x2,
            (if (py_eps pd <=? pl_sum (py_lvl_get st1a 1))%Z then wm_fsr_wr_summary summN wm_level_count d 1 x1a else x1a) = x2 /\
            rf_S pre ((cs ++ cs1) ++ cs2) (blks ++ [blk]) x2 st2).
  { destruct (py_eps pd <=? pl_sum (py_lvl_get st1a 1))%Z.
    - destruct (rf_sim_wr_summary 15 1 wm_level_count pre (cs ++ cs1) (blks ++ [blk]) x1a st1a st2 dst1 HS1a ltac:(lia) Hlo1 ltac:(reflexivity) ltac:(cbv; lia) Hget1a Es1) as (cs2 & HS2).
      exists cs2, (wm_fsr_wr_summary summN wm_level_count d (N.of_nat 1) x1a). split; [reflexivity|exact HS2].
    - injection Es1 as <-. exists [], x1a. rewrite app_nil_r. split; [reflexivity|exact HS1a]. }
  destruct Hfin as (cs2 & x2 & Ex2 & HS2). rewrite Ex2.
  exists (cs1 ++ cs2). rewrite app_assoc.
  destruct HS2 as (HR2 & HF2 & Hout2 & Hdl2).
  split.
  - split; [|split; [exact HF2|split; [exact Hout2|eapply rf_dl_same; [exact Hdl2|reflexivity]]]].
    cbn [wm_fx_set_fsr wm_fx_base].
    apply (rf_R_fsr_change _ x2 st2 _ (pw_dts st2 + py_spd pd)%Z HR2); [reflexivity|].
    cbn [wm_f_set_omit wm_f_set_block wm_f_ts]. rewrite (R_dts _ _ _ HR2). change (py_spd pd) with (Z.of_N (sg_spd d)). reflexivity.
  - cbn [pw_dts]. rewrite (R_dts _ _ _ HR2).
    assert (Hts2 : wm_f_ts (wm_fx_fsr x2) = wm_f_ts f).
    { rewrite <- (R_dts _ _ _ HR2). 
      assert (Hd2 : pw_dts st2 = pw_dts st1a).
      { destruct (py_eps pd <=? pl_sum (py_lvl_get st1a 1))%Z eqn:Et.
        - subst x2. destruct (rf_wr_summary_blk summN wm_level_count d 1 x1a) as (_ & _ & E3 & _).
          rewrite (R_dts _ _ _ HR2), E3. symmetry. exact (R_dts _ _ _ (proj1 HS1a)).
        - injection Es1 as <-. reflexivity. }
      rewrite Hd2. destruct (append_inv _ _ _ _ _ _ _ _ Eapp) as (_ & _ & ->). cbn [py_lvl_set pw_dts]. exact Ets. }
    rewrite Hts2, Hft, <- (R_dts _ _ _ HR), Hdts, app_length. cbn [length]. rewrite Nat2Z.inj_add, Z.mul_add_distr_l. change (py_spd pd) with (Z.of_N (sg_spd d)). lia.
Qed.

End RF_PYR.
