(* Proofs about the threaded writer's message format (TwrMsg.v): round trip, length, in-bounds, injectivity modulo
   normalisation, consistency with the protocol model's FLUSH / CLOSE messages, origin of every accepted message. *)
From Coq Require Import NArith ZArith List Bool Lia.
From Coq Require Import ZifyBool ZifyN ZifyNat.
From JLS Require Import Generated Spec MrbModel TwrModel TwrProofs TwrMsg.
From JLS Require ComposeGuards.
Import ListNotations.
Local Open Scope N_scope.
Ltac Zify.zify_post_hook ::= Z.div_mod_to_equations.

(* ------------------------------------------------------------------ scalars *)
Lemma tm_i64_u64 : forall z, tm_i64_ok z -> tm_i64 (tm_u64 z) = z.
Proof.
  unfold tm_i64_ok, tm_i64, tm_u64. intros z H.
  destruct (Z.ltb_spec z 0) as [Hn|Hp].
  - replace (z mod 18446744073709551616)%Z with (z + 18446744073709551616)%Z.
    2:{ symmetry. rewrite <- (Z.mod_add z 1) by lia. rewrite Z.mod_small by lia. lia. }
    destruct (N.ltb_spec (Z.to_N (z + 18446744073709551616)) 9223372036854775808); lia.
  - rewrite Z.mod_small by lia. destruct (N.ltb_spec (Z.to_N z) 9223372036854775808); lia.
Qed.
Lemma tm_u64_lt : forall z, tm_u64 z < 18446744073709551616.
Proof. intros z. unfold tm_u64. pose proof (Z.mod_pos_bound z 18446744073709551616). lia. Qed.

Lemma tm_len_app : forall a b, len (a ++ b) = len a + len b.
Proof. intros. unfold len. rewrite app_length. lia. Qed.

(* ------------------------------------------------------------------ C strings *)
Lemma tm_cstr_firstn : forall b s, tm_cstr b = Some s ->
  firstn (S (length s)) b = s ++ [0] /\ (length s < length b)%nat.
Proof.
  induction b as [|x r IH]; intros s H; cbn [tm_cstr] in H; [discriminate|].
  destruct (x =? 0) eqn:E.
  - injection H as <-. apply N.eqb_eq in E. subst x. cbn. split; [reflexivity|lia].
  - destruct (tm_cstr r) as [s'|] eqn:Er; [|discriminate]. injection H as <-.
    destruct (IH s' eq_refl) as (A & B). cbn [length]. split; [|cbn [length]; lia].
    change (firstn (S (S (length s'))) (x :: r)) with (x :: firstn (S (length s')) r). rewrite A. reflexivity.
Qed.
Lemma tm_cstr_norm : forall b s, tm_cstr b = Some s -> tm_cstr (s ++ [0]) = Some s.
Proof.
  induction b as [|x r IH]; intros s H; cbn [tm_cstr] in H; [discriminate|].
  destruct (x =? 0) eqn:E.
  - injection H as <-. reflexivity.
  - destruct (tm_cstr r) as [s'|] eqn:Er; [|discriminate]. injection H as <-.
    cbn [app tm_cstr]. rewrite E, (IH s' eq_refl). reflexivity.
Qed.

(* ------------------------------------------------------------------ the decoder on header ++ payload *)
Definition tm_dh (h payload : list N) (psz : N) : tm_wcall :=
  let ty := tm_rd h 0 1 in
  if ty =? 0 then TmWQuit
  else if ty =? 1 then TmWFlush (tm_rd h 32 8)
  else if ty =? 2 then TmWUser (tm_rd h 8 2) (tm_rd h 10 1) payload psz
  else if ty =? 3 then TmWFsr (tm_rd h 8 2) (tm_i64 (tm_rd h 16 8)) payload (tm_rd h 24 4)
  else if ty =? 4 then TmWOmit (tm_rd h 8 2) (tm_rd h 12 4)
  else if ty =? 5 then TmWAnn (tm_rd h 8 2) (tm_i64 (tm_rd h 16 8)) (tm_rd h 28 4) (tm_rd h 24 1) (tm_rd h 26 1)
                              (tm_rd h 25 1) payload psz
  else if ty =? 6 then TmWUtc (tm_rd h 8 2) (tm_i64 (tm_rd h 16 8)) (tm_i64 (tm_rd h 24 8))
  else TmWNone ty.

Lemma tm_rd_app : forall h p off n, (off + n <= length h)%nat -> tm_rd (h ++ p) off n = tm_rd h off n.
Proof.
  intros h p off n H. unfold tm_rd. rewrite skipn_app.
  replace (off - length h)%nat with 0%nat by lia. cbn [skipn].
  rewrite firstn_app. rewrite skipn_length.
  replace (n - (length h - off))%nat with 0%nat by lia. cbn [firstn]. rewrite app_nil_r. reflexivity.
Qed.

Lemma tm_decode_app : forall h p, length h = 40%nat -> tm_decode (h ++ p) = Some (tm_dh h p (len p)).
Proof.
  intros h p Hl. unfold tm_decode.
  assert (Hlen : len (h ++ p) = 40 + len p) by (rewrite tm_len_app; unfold len; rewrite Hl; reflexivity).
  rewrite Hlen. change TM_HDR with 40.
  destruct (N.ltb_spec (40 + len p) 40) as [Hc|_]; [lia|].
  replace (40 + len p - 40) with (len p) by lia.
  assert (Hsk : skipn 40 (h ++ p) = p).
  { rewrite skipn_app, Hl. change (40 - 40)%nat with 0%nat. rewrite (skipn_all2 (n := 40) h) by lia. reflexivity. }
  rewrite Hsk.
  unfold tm_dh. rewrite !tm_rd_app by lia. reflexivity.
Qed.

(* ------------------------------------------------------------------ headers: length, fields *)
Lemma tm_hdr_user_len : forall a b, length (tm_hdr_user a b) = 40%nat. Proof. reflexivity. Qed.
Lemma tm_hdr_fsr_len : forall a b c, length (tm_hdr_fsr a b c) = 40%nat. Proof. reflexivity. Qed.
Lemma tm_hdr_omit_len : forall a b, length (tm_hdr_omit a b) = 40%nat. Proof. reflexivity. Qed.
Lemma tm_hdr_ann_len : forall a b c d e f, length (tm_hdr_ann a b c d e f) = 40%nat. Proof. reflexivity. Qed.
Lemma tm_hdr_utc_len : forall a b c, length (tm_hdr_utc a b c) = 40%nat. Proof. reflexivity. Qed.
Lemma tm_hdr_flush_len : forall a, length (tm_hdr_flush a) = 40%nat. Proof. reflexivity. Qed.
Lemma tm_hdr_close_len : length tm_hdr_close = 40%nat. Proof. reflexivity. Qed.

Lemma tm_le1 : forall x, tw_of_le (tw_le 1 x) = x mod 256. Proof. intros x. exact (tw_of_le_le 1 x). Qed.
Lemma tm_le2 : forall x, tw_of_le (tw_le 2 x) = x mod 65536. Proof. intros x. exact (tw_of_le_le 2 x). Qed.
Lemma tm_le4 : forall x, tw_of_le (tw_le 4 x) = x mod 4294967296. Proof. intros x. exact (tw_of_le_le 4 x). Qed.
Lemma tm_le8 : forall x, tw_of_le (tw_le 8 x) = x mod 18446744073709551616. Proof. intros x. exact (tw_of_le_le 8 x). Qed.

Ltac tm_ty k := match goal with |- context [tm_rd ?h 0 1] => change (tm_rd h 0 1) with k end;
                lazy beta iota zeta delta [N.eqb Pos.eqb].

Lemma tm_dh_user : forall meta stype p psz,
  tm_dh (tm_hdr_user meta stype) p psz = TmWUser (meta mod 65536) (stype mod 256) p psz.
Proof.
  intros. unfold tm_dh. tm_ty 2.
  change (tm_rd (tm_hdr_user meta stype) 8 2) with (tw_of_le (tw_le 2 meta)).
  change (tm_rd (tm_hdr_user meta stype) 10 1) with (tw_of_le (tw_le 1 stype)).
  rewrite tm_le2, tm_le1. reflexivity.
Qed.
Lemma tm_dh_fsr : forall sig sid count p psz,
  tm_dh (tm_hdr_fsr sig sid count) p psz =
  TmWFsr (sig mod 65536) (tm_i64 (tm_u64 sid mod 18446744073709551616)) p (count mod 4294967296).
Proof.
  intros. unfold tm_dh. tm_ty 3.
  change (tm_rd (tm_hdr_fsr sig sid count) 8 2) with (tw_of_le (tw_le 2 sig)).
  change (tm_rd (tm_hdr_fsr sig sid count) 16 8) with (tw_of_le (tw_le 8 (tm_u64 sid))).
  change (tm_rd (tm_hdr_fsr sig sid count) 24 4) with (tw_of_le (tw_le 4 count)).
  rewrite tm_le2, tm_le8, tm_le4. reflexivity.
Qed.
Lemma tm_dh_omit : forall sig en p psz,
  tm_dh (tm_hdr_omit sig en) p psz = TmWOmit (sig mod 65536) (en mod 4294967296).
Proof.
  intros. unfold tm_dh. tm_ty 4.
  change (tm_rd (tm_hdr_omit sig en) 8 2) with (tw_of_le (tw_le 2 sig)).
  change (tm_rd (tm_hdr_omit sig en) 12 4) with (tw_of_le (tw_le 4 en)).
  rewrite tm_le2, tm_le4. reflexivity.
Qed.
Lemma tm_dh_ann : forall sig ts y atype group stype p psz,
  tm_dh (tm_hdr_ann sig ts y atype group stype) p psz =
  TmWAnn (sig mod 65536) (tm_i64 (tm_u64 ts mod 18446744073709551616)) (y mod 4294967296) (atype mod 256) (group mod 256)
         (stype mod 256) p psz.
Proof.
  intros. unfold tm_dh. tm_ty 5.
  change (tm_rd (tm_hdr_ann sig ts y atype group stype) 8 2) with (tw_of_le (tw_le 2 sig)).
  change (tm_rd (tm_hdr_ann sig ts y atype group stype) 16 8) with (tw_of_le (tw_le 8 (tm_u64 ts))).
  change (tm_rd (tm_hdr_ann sig ts y atype group stype) 28 4) with (tw_of_le (tw_le 4 y)).
  change (tm_rd (tm_hdr_ann sig ts y atype group stype) 24 1) with (tw_of_le (tw_le 1 atype)).
  change (tm_rd (tm_hdr_ann sig ts y atype group stype) 26 1) with (tw_of_le (tw_le 1 group)).
  change (tm_rd (tm_hdr_ann sig ts y atype group stype) 25 1) with (tw_of_le (tw_le 1 stype)).
  rewrite tm_le2, tm_le8, tm_le4, !tm_le1. reflexivity.
Qed.
Lemma tm_dh_utc : forall sig sid utc p psz,
  tm_dh (tm_hdr_utc sig sid utc) p psz =
  TmWUtc (sig mod 65536) (tm_i64 (tm_u64 sid mod 18446744073709551616)) (tm_i64 (tm_u64 utc mod 18446744073709551616)).
Proof.
  intros. unfold tm_dh. tm_ty 6.
  change (tm_rd (tm_hdr_utc sig sid utc) 8 2) with (tw_of_le (tw_le 2 sig)).
  change (tm_rd (tm_hdr_utc sig sid utc) 16 8) with (tw_of_le (tw_le 8 (tm_u64 sid))).
  change (tm_rd (tm_hdr_utc sig sid utc) 24 8) with (tw_of_le (tw_le 8 (tm_u64 utc))).
  rewrite tm_le2, !tm_le8. reflexivity.
Qed.
Lemma tm_dh_flush : forall id p psz, tm_dh (tm_hdr_flush id) p psz = TmWFlush (id mod 18446744073709551616).
Proof.
  intros. unfold tm_dh. tm_ty 1.
  change (tm_rd (tm_hdr_flush id) 32 8) with (tw_of_le (tw_le 8 id)). rewrite tm_le8. reflexivity.
Qed.
Lemma tm_dh_close : forall p psz, tm_dh tm_hdr_close p psz = TmWQuit.
Proof. intros. unfold tm_dh. tm_ty 0. reflexivity. Qed.

Lemma tm_i64_rt : forall z, tm_i64_ok z -> tm_i64 (tm_u64 z mod 18446744073709551616) = z.
Proof. intros z H. rewrite N.mod_small by apply tm_u64_lt. apply tm_i64_u64. exact H. Qed.

(* ------------------------------------------------------------------ what an accepted call queued *)
Lemma tm_send_inv : forall h p m, tm_send h p = TmMsg m -> m = h ++ p /\ TM_HDR + len p < 4294967296.
Proof.
  intros h p m H. unfold tm_send in H.
  destruct (N.leb_spec 4294967296 (TM_HDR + len p)) as [|Hlt]; [discriminate|]. injection H as <-. split; [reflexivity|exact Hlt].
Qed.

Lemma tm_data_payload_norm : forall stype data size p, len (tm_bytes data) < 4294967296 ->
  tm_data_payload stype data size = TmPlOk p ->
  p = tm_norm_data stype data size /\ tm_data_inb stype p (len p) = true.
Proof.
  intros stype data size p Hb H. unfold tm_data_payload in H. unfold tm_norm_data, tm_data_inb.
  destruct (tm_is_str stype) eqn:Es.
  - destruct data as [|b]; [discriminate|]. cbn [tm_bytes] in *.
    destruct (tm_cstr b) as [s|] eqn:Ec; [|discriminate]. injection H as <-.
    destruct (tm_cstr_firstn _ _ Ec) as (A & B).
    assert (E : N.to_nat ((len s + 1) mod 4294967296) = S (length s)).
    { rewrite N.mod_small by (unfold len in *; lia). unfold len. lia. }
    rewrite E, A. split; [reflexivity|]. rewrite (tm_cstr_norm _ _ Ec). reflexivity.
  - destruct data as [|b]; cbn [tm_bytes] in *.
    + destruct (size =? 0); [|discriminate]. injection H as <-. rewrite firstn_nil. split; reflexivity.
    + destruct (size <=? len b); [|discriminate]. injection H as <-. split; [reflexivity|]. apply N.leb_refl.
Qed.

(* the shape of the message of an accepted call: header ++ normalised payload *)
Definition tm_hdr_of (c : tm_call) : list N :=
  match c with
  | TmUser meta stype _ _ => tm_hdr_user meta stype
  | TmFsr sig sid _ count => tm_hdr_fsr sig sid count
  | TmOmit sig en => tm_hdr_omit sig en
  | TmAnn sig ts y atype group stype _ _ => tm_hdr_ann sig ts y atype group stype
  | TmUtc sig sid utc => tm_hdr_utc sig sid utc
  | TmFlush id => tm_hdr_flush id
  | TmClose => tm_hdr_close
  end.
Definition tm_payload_of (tbl : N -> N) (c : tm_call) : list N :=
  match c with
  | TmUser _ stype data size | TmAnn _ _ _ _ _ stype data size => tm_norm_data stype data size
  | TmFsr sig _ data count => firstn (N.to_nat ((count * tbl sig + 7) / 8)) (tm_bytes data)
  | _ => []
  end.
Lemma tm_hdr_of_len : forall c, length (tm_hdr_of c) = 40%nat.
Proof. intros []; reflexivity. Qed.

(* what acceptance itself guarantees (the range tests of the repaired producers) *)
Definition tm_accepted_facts (tbl : N -> N) (c : tm_call) : Prop :=
  match c with
  | TmUser _ stype _ _ => stype < 256
  | TmAnn _ _ _ atype _ stype _ _ => stype < 256 /\ atype < 256
  | TmFsr sig _ _ count => (count * tbl sig + 7) / 8 <= 4294967255
  | _ => True
  end.
Lemma tm_accept_facts : forall tbl c m, tm_encode tbl c = TmMsg m -> tm_accepted_facts tbl c.
Proof.
  intros tbl c m H. destruct c as [meta stype data size|sig sid data count|sig en|sig ts y atype group stype data size|sig sid utc|id|];
    cbn [tm_encode tm_accepted_facts] in *; auto.
  - destruct (N.ltb_spec 255 stype); [discriminate|lia].
  - destruct (JLS_SIGNAL_COUNT <=? sig); [discriminate|]. destruct (tbl sig =? 0); [discriminate|].
    change (4294967295 - TM_HDR) with 4294967255 in H.
    destruct (N.ltb_spec 4294967255 ((count * tbl sig + 7) / 8)); [discriminate|assumption].
  - destruct (N.ltb_spec 255 stype); [discriminate|]. destruct (N.ltb_spec 255 atype); [discriminate|]. lia.
Qed.

Lemma tm_encode_shape : forall tbl c m, tm_call_ok tbl c -> tm_encode tbl c = TmMsg m ->
  m = tm_hdr_of c ++ tm_payload_of tbl c /\ TM_HDR + len (tm_payload_of tbl c) < 4294967296 /\
  len (tm_payload_of tbl c) = tm_psize tbl c /\ tm_wcall_inb tbl (tm_norm tbl c) = true.
Proof.
  intros tbl c m Hok H. destruct c as [meta stype data size|sig sid data count|sig en|sig ts y atype group stype data size|sig sid utc|id|];
    cbn [tm_encode tm_hdr_of tm_payload_of tm_psize tm_norm tm_wcall_inb tm_call_ok] in *.
  - destruct Hok as (_ & _ & Hb). destruct (255 <? stype); [discriminate|].
    destruct (tm_data_payload stype data size) as [rc| |p] eqn:Ep; try discriminate.
    destruct (tm_data_payload_norm _ _ _ _ Hb Ep) as (-> & Hin). apply tm_send_inv in H. destruct H as (-> & Hs). auto.
  - pose proof (tm_accept_facts tbl (TmFsr sig sid data count) m H) as Hn. cbn [tm_accepted_facts] in Hn.
    destruct (JLS_SIGNAL_COUNT <=? sig); [discriminate|]. destruct (tbl sig =? 0); [discriminate|].
    destruct (4294967295 - TM_HDR <? (count * tbl sig + 7) / 8); [discriminate|].
    unfold tm_fsr_len in H. rewrite N.mod_small in H by lia.
    set (n := (count * tbl sig + 7) / 8) in *.
    destruct data as [|b]; cbn [tm_bytes].
    + destruct (N.eqb_spec n 0) as [E|]; [|discriminate]. apply tm_send_inv in H. destruct H as (-> & Hs).
      rewrite firstn_nil. rewrite E. split; [reflexivity|]. split; [exact Hs|]. split; reflexivity.
    + destruct (N.leb_spec n (len b)) as [Hle|]; [|discriminate]. apply tm_send_inv in H. destruct H as (-> & Hs).
      assert (E : len (firstn (N.to_nat n) b) = n) by (unfold len in *; rewrite firstn_length; lia).
      split; [reflexivity|]. split; [exact Hs|]. split; [exact E|]. rewrite E. apply N.leb_refl.
  - apply tm_send_inv in H. destruct H as (-> & Hs). auto.
  - destruct Hok as (_ & _ & _ & _ & _ & Hb). destruct ((255 <? stype) || (255 <? atype)); [discriminate|].
    destruct (tm_data_payload stype data size) as [rc| |p] eqn:Ep; try discriminate.
    destruct (tm_data_payload_norm _ _ _ _ Hb Ep) as (-> & Hin). apply tm_send_inv in H. destruct H as (-> & Hs). auto.
  - apply tm_send_inv in H. destruct H as (-> & Hs). auto.
  - apply tm_send_inv in H. destruct H as (-> & Hs). auto.
  - apply tm_send_inv in H. destruct H as (-> & Hs). auto.
Qed.

(* ------------------------------------------------------------------ round trip *)
Lemma tm_dh_norm : forall tbl c, tm_call_ok tbl c -> tm_accepted_facts tbl c ->
  tm_dh (tm_hdr_of c) (tm_payload_of tbl c) (len (tm_payload_of tbl c)) = tm_norm tbl c.
Proof.
  intros tbl c Hok Hacc. destruct c as [meta stype data size|sig sid data count|sig en|sig ts y atype group stype data size|sig sid utc|id|];
    cbn [tm_hdr_of tm_payload_of tm_norm tm_call_ok tm_accepted_facts] in *.
  - destruct Hok as (H1 & _). rewrite tm_dh_user, !N.mod_small by assumption. reflexivity.
  - destruct Hok as (H1 & H2 & H3). rewrite tm_dh_fsr, tm_i64_rt, !N.mod_small by assumption. reflexivity.
  - destruct Hok as (H1 & H2). rewrite tm_dh_omit, !N.mod_small by assumption. reflexivity.
  - destruct Hok as (H1 & H2 & H3 & H5 & _). destruct Hacc as (H6 & H4). rewrite tm_dh_ann, tm_i64_rt, !N.mod_small by assumption. reflexivity.
  - destruct Hok as (H1 & H2 & H3). rewrite tm_dh_utc, !tm_i64_rt, !N.mod_small by assumption. reflexivity.
  - rewrite tm_dh_flush, N.mod_small by assumption. reflexivity.
  - apply tm_dh_close.
Qed.

Lemma tm_roundtrip : forall tbl c m, tm_call_ok tbl c -> tm_encode tbl c = TmMsg m ->
  tm_decode m = Some (tm_norm tbl c).
Proof.
  intros tbl c m Hok H. destruct (tm_encode_shape _ _ _ Hok H) as (-> & _).
  rewrite tm_decode_app by apply tm_hdr_of_len. rewrite (tm_dh_norm _ _ Hok (tm_accept_facts _ _ _ H)). reflexivity.
Qed.

Lemma tm_length : forall tbl c m, tm_call_ok tbl c -> tm_encode tbl c = TmMsg m ->
  len m = SIZEOF_msg_header + tm_psize tbl c /\ len m < 4294967296.
Proof.
  intros tbl c m Hok H. destruct (tm_encode_shape _ _ _ Hok H) as (-> & Hs & Hp & _).
  assert (Hh : len (tm_hdr_of c) = 40) by (unfold len; rewrite tm_hdr_of_len; reflexivity).
  rewrite tm_len_app, Hh, <- Hp. change TM_HDR with 40 in Hs. change SIZEOF_msg_header with 40.
  split; [reflexivity|exact Hs].
Qed.

(* in bounds: the decoder finds a whole header, the payload it hands on is exactly the rest of the message, and the
   bytes the synchronous call reads through it lie inside *)
Lemma tm_in_bounds : forall tbl c m, tm_call_ok tbl c -> tm_encode tbl c = TmMsg m ->
  SIZEOF_msg_header <= len m /\
  exists w, tm_decode m = Some w /\ tm_wcall_inb tbl w = true /\
    match w with
    | TmWUser _ _ data size | TmWAnn _ _ _ _ _ _ data size => data = skipn 40 m /\ size = len data
    | TmWFsr _ _ data _ => data = skipn 40 m
    | _ => True
    end.
Proof.
  intros tbl c m Hok H. pose proof (tm_length _ _ _ Hok H) as (Hl & _). split; [lia|].
  exists (tm_norm tbl c). split; [exact (tm_roundtrip _ _ _ Hok H)|].
  destruct (tm_encode_shape _ _ _ Hok H) as (-> & _ & _ & Hin). split; [exact Hin|].
  assert (Hsk : forall p, skipn 40 (tm_hdr_of c ++ p) = p).
  { intros p. rewrite skipn_app, tm_hdr_of_len. change (40 - 40)%nat with 0%nat. rewrite skipn_all2 by (rewrite tm_hdr_of_len; lia). reflexivity. }
  rewrite Hsk. destruct c; cbn [tm_norm tm_payload_of]; auto.
Qed.

(* injectivity modulo normalisation *)
Lemma tm_injective : forall tbl1 tbl2 c1 c2 m, tm_call_ok tbl1 c1 -> tm_call_ok tbl2 c2 ->
  tm_encode tbl1 c1 = TmMsg m -> tm_encode tbl2 c2 = TmMsg m -> tm_norm tbl1 c1 = tm_norm tbl2 c2.
Proof.
  intros tbl1 tbl2 c1 c2 m O1 O2 E1 E2.
  pose proof (tm_roundtrip _ _ _ O1 E1) as R1. pose proof (tm_roundtrip _ _ _ O2 E2) as R2. congruence.
Qed.
(* and conversely the message carries nothing but the normal form (same table): *)
Lemma tm_norm_determines_msg : forall tbl c1 c2 m1 m2, tm_call_ok tbl c1 -> tm_call_ok tbl c2 ->
  tm_encode tbl c1 = TmMsg m1 -> tm_encode tbl c2 = TmMsg m2 -> tm_norm tbl c1 = tm_norm tbl c2 -> m1 = m2.
Proof.
  intros tbl c1 c2 m1 m2 O1 O2 E1 E2 Hn.
  destruct (tm_encode_shape _ _ _ O1 E1) as (-> & _). destruct (tm_encode_shape _ _ _ O2 E2) as (-> & _).
  destruct c1, c2; cbn [tm_norm] in Hn; try discriminate; cbn [tm_hdr_of tm_payload_of]; try reflexivity;
    injection Hn; intros; congruence.
Qed.

(* ------------------------------------------------------------------ the two former defects of the format: now rejected *)
(* the witnesses of K-C06-fsr-len-trunc / K-C06-enum-trunc *)
Lemma tm_trunc_rejected : tm_call_ok tm_trunc_tbl tm_trunc_call /\
  tm_encode tm_trunc_tbl tm_trunc_call = TmRej JLS_ERROR_PARAMETER_INVALID.
Proof. split; [cbn; unfold tm_i64_ok; repeat split; lia|vm_compute; reflexivity]. Qed.
Lemma tm_enum_rejected : tm_call_ok tm_ex_tbl tm_enum_call /\
  tm_encode tm_ex_tbl tm_enum_call = TmRej JLS_ERROR_PARAMETER_INVALID.
Proof. split; [cbn; unfold tm_i64_ok; repeat split; lia|vm_compute; reflexivity]. Qed.

(* the classes: every call with an enum argument above 255, and every FSR call on a defined signal whose payload and
   header do not fit a uint32 message size, returns JLS_ERROR_PARAMETER_INVALID without queueing anything *)
Lemma tm_out_of_range_rejected : forall tbl,
  (forall meta stype data size, 255 < stype -> tm_encode tbl (TmUser meta stype data size) = TmRej JLS_ERROR_PARAMETER_INVALID) /\
  (forall sig ts y atype group stype data size, 255 < stype \/ 255 < atype ->
     tm_encode tbl (TmAnn sig ts y atype group stype data size) = TmRej JLS_ERROR_PARAMETER_INVALID) /\
  (forall sig sid data count, sig < JLS_SIGNAL_COUNT -> tbl sig <> 0 ->
     4294967295 - SIZEOF_msg_header < (count * tbl sig + 7) / 8 ->
     tm_encode tbl (TmFsr sig sid data count) = TmRej JLS_ERROR_PARAMETER_INVALID).
Proof.
  intros tbl. split; [|split].
  - intros meta stype data size H. cbn [tm_encode]. destruct (N.ltb_spec 255 stype); [reflexivity|lia].
  - intros sig ts y atype group stype data size H. cbn [tm_encode].
    destruct (N.ltb_spec 255 stype); [reflexivity|]. destruct (N.ltb_spec 255 atype); [reflexivity|]. lia.
  - intros sig sid data count Hs Ht Hn. cbn [tm_encode].
    destruct (N.leb_spec JLS_SIGNAL_COUNT sig); [lia|]. destruct (N.eqb_spec (tbl sig) 0); [contradiction|].
    change TM_HDR with SIZEOF_msg_header.
    destruct (N.ltb_spec (4294967295 - SIZEOF_msg_header) ((count * tbl sig + 7) / 8)); [reflexivity|lia].
Qed.

(* ------------------------------------------------------------------ examples *)
Lemma tm_ex_ok : Forall (tm_call_ok tm_ex_tbl) tm_ex_calls /\
  forallb (fun c => match tm_encode tm_ex_tbl c with TmMsg _ => true | _ => false end) tm_ex_calls = true /\
  map (fun c => match tm_encode tm_ex_tbl c with TmMsg m => len m | _ => 0 end) tm_ex_calls = [43; 43; 48; 42; 40; 42; 40; 40; 40].
Proof.
  split; [|split; vm_compute; reflexivity].
  unfold tm_ex_calls. repeat constructor; cbn; unfold tm_i64_ok; try lia.
Qed.

(* ------------------------------------------------------------------ consistency with the protocol model *)
Lemma tm_flush_is_tw : forall tbl id, tm_encode tbl (TmFlush id) = TmMsg (tw_flush_msg id).
Proof. intros. reflexivity. Qed.
Lemma tm_close_is_tw : forall tbl, tm_encode tbl TmClose = TmMsg tw_close_msg.
Proof. intros. reflexivity. Qed.
Lemma tm_decode_flush : forall id, tm_decode (tw_flush_msg id) = Some (TmWFlush (id mod 18446744073709551616)).
Proof.
  intros id. change (tw_flush_msg id) with (tm_hdr_flush id ++ []).
  rewrite tm_decode_app by apply tm_hdr_flush_len. rewrite tm_dh_flush. reflexivity.
Qed.
Lemma tm_decode_close : tm_decode tw_close_msg = Some TmWQuit.
Proof. reflexivity. Qed.

Lemma tm_send_head : forall t h p x body, tm_send ([t] ++ h) p = TmMsg (x :: body) -> x = t.
Proof.
  intros t h p x body H. apply tm_send_inv in H. destruct H as (H & _). cbn [app] in H. injection H as -> _. reflexivity.
Qed.
Lemma tm_kind_byte : forall tbl c k x body, tm_kind c = Some k -> tm_encode tbl c = TmMsg (x :: body) -> x = tw_mcode k.
Proof.
  intros tbl c k x body Hk H. destruct c; cbn [tm_kind] in Hk; try discriminate; injection Hk as <-; cbn [tm_encode tw_mcode] in *.
  - destruct (255 <? stype); [discriminate|].
    destruct (tm_data_payload stype data data_size); try discriminate. exact (tm_send_head _ _ _ _ _ H).
  - destruct (JLS_SIGNAL_COUNT <=? sig); [discriminate|]. destruct (tbl sig =? 0); [discriminate|].
    destruct (_ <? _); [discriminate|].
    destruct data; [destruct (_ =? 0)|destruct (_ <=? _)]; try discriminate; exact (tm_send_head _ _ _ _ _ H).
  - exact (tm_send_head _ _ _ _ _ H).
  - destruct (_ || _); [discriminate|].
    destruct (tm_data_payload stype data data_size); try discriminate. exact (tm_send_head _ _ _ _ _ H).
  - exact (tm_send_head _ _ _ _ _ H).
Qed.

Lemma tm_compile1_send : forall pc k body, In (TwCSend k body) (tm_compile1 pc) ->
  exists tbl c, pc = TmPCall tbl c /\ tm_kind c = Some k /\ tm_encode tbl c = TmMsg (tw_user_msg k body).
Proof.
  intros pc k body H. destruct pc as [d|tbl c| |b|]; cbn [tm_compile1] in H.
  - destruct H as [H|[]]; discriminate.
  - destruct (tm_kind c) as [k'|] eqn:Ek; [|destruct H].
    destruct (tm_encode tbl c) as [rc| |[|x b]] eqn:Ee; try solve [destruct H].
    destruct H as [H|[]]. injection H as -> ->. exists tbl, c. split; [reflexivity|]. split; [exact Ek|].
    rewrite (tm_kind_byte _ _ _ _ _ Ek Ee) in Ee. exact Ee.
  - destruct H as [H|[]]; discriminate.
  - destruct H as [H|[]]; discriminate.
  - destruct H as [H|[]]; discriminate.
Qed.
Lemma tm_compile1_flush : forall pc, In TwCFlush (tm_compile1 pc) -> pc = TmPFlush.
Proof.
  intros pc H. destruct pc as [d|tbl c| |b|]; cbn [tm_compile1] in H; try reflexivity; try (destruct H as [H|[]]; discriminate).
  destruct (tm_kind c); [|destruct H]. destruct (tm_encode tbl c) as [rc| |[|x b]]; try solve [destruct H].
  destruct H as [H|[]]. discriminate.
Qed.
Lemma tm_compile1_close : forall pc, In TwCClose (tm_compile1 pc) -> pc = TmPClose.
Proof.
  intros pc H. destruct pc as [d|tbl c| |b|]; cbn [tm_compile1] in H; try reflexivity; try (destruct H as [H|[]]; discriminate).
  destruct (tm_kind c); [|destruct H]. destruct (tm_encode tbl c) as [rc| |[|x b]]; try solve [destruct H].
  destruct H as [H|[]]. discriminate.
Qed.

(* ------------------------------------------------------------------ where accepted messages come from (any schedule) *)
Definition tm_from (cs : list tw_call) (m : msg) : Prop :=
  (exists k body, In (TwCSend k body) cs /\ m = tw_user_msg k body) \/
  (In TwCFlush cs /\ exists id, m = tw_flush_msg id) \/
  (In TwCClose cs /\ m = tw_close_msg).

Definition tm_src_inv (progs : list (list tw_call)) (s : tw_state) : Prop :=
  (forall i p, nth_error (tw_prods s) i = Some p -> exists cs pre, nth_error progs i = Some cs /\ cs = pre ++ tw_pt_calls p) /\
  (forall i idx m, In (i, idx, m) (tw_accepted s) -> exists cs, nth_error progs i = Some cs /\ tm_from cs m).

Lemma tm_src_reach : forall fx cap progs s, tw_reach fx cap progs s -> tm_src_inv progs s.
Proof.
  induction 1 as [|s t s' HR IH HS|s d HR IH].
  - split.
    + intros i p E. unfold tw_init in E. cbn [tw_prods] in E. rewrite nth_error_map in E.
      destruct (nth_error progs i) as [cs|] eqn:En; [|discriminate]. cbn in E. injection E as <-.
      exists cs, []. split; reflexivity.
    + intros i idx m [].
  - pose proof (tw_head_reach _ _ _ _ HR) as HH. destruct IH as (I1 & I2).
    unfold tw_step in HS. destruct (tw_fault s); [discriminate|]. destruct t as [i|].
    + destruct (nth_error (tw_prods s) i) as [p|] eqn:En; [|discriminate].
      destruct (tw_pstep_sum _ _ _ _ _ (HH _ _ En) HS) as [PS|(f & ->)].
      * destruct PS as (s1 & p1 & -> & Hpr & _ & _ & _ & _ & _ & Hacc & _ & _ & (pre1 & Hpre) & _).
        split.
        -- intros j q Ej. unfold tw_setp in Ej. cbn [tw_prods tw_set_prods] in Ej. rewrite Hpr in Ej.
           destruct (Nat.eq_dec i j) as [<-|Hne].
           ++ rewrite (tw_nth_upd_eq _ _ _ _ _ En) in Ej. injection Ej as <-.
              destruct (I1 _ _ En) as (cs & pre & Hc & ->). exists (pre ++ tw_pt_calls p), (pre ++ pre1).
              split; [exact Hc|]. rewrite Hpre, app_assoc. reflexivity.
           ++ rewrite tw_nth_upd_neq in Ej by exact Hne. exact (I1 _ _ Ej).
        -- intros j idx m Hin. unfold tw_setp in Hin. cbn [tw_accepted tw_set_prods] in Hin.
           destruct Hacc as [(_ & Ea)|(c & q1 & a & Epc & _ & _ & _ & Ea & _)]; rewrite Ea in Hin.
           ++ exact (I2 _ _ _ Hin).
           ++ apply in_app_or in Hin. destruct Hin as [Hin|[Hin|[]]]; [exact (I2 _ _ _ Hin)|].
              injection Hin as <- <- <-. destruct (I1 _ _ En) as (cs & pre & Hc & ->).
              exists (pre ++ tw_pt_calls p). split; [exact Hc|].
              pose proof (HH _ _ En) as Hh. unfold tw_head_ok in Hh. rewrite Epc in Hh. cbn [tw_pc_head] in Hh.
              unfold tw_send_head in Hh. destruct (tw_sd_k c) as [|id mk|].
              ** destruct Hh as (mk & body & r & Ecs & Em). left. exists mk, body. split; [|exact Em].
                 apply in_or_app. right. rewrite Ecs. left. reflexivity.
              ** destruct Hh as ((r & Ecs) & Em). right. left. split; [|exists id; exact Em].
                 apply in_or_app. right. rewrite Ecs. left. reflexivity.
              ** destruct Hh as ((r & Ecs) & Em). right. right. split; [|exact Em].
                 apply in_or_app. right. rewrite Ecs. left. reflexivity.
      * split; [exact I1|exact I2].
    + destruct (tw_cstep_facts _ _ HS) as (_ & Ea & _). pose proof (tw_cstep_prods _ _ HS) as Ep.
      split.
      * intros j q Ej. rewrite Ep in Ej. exact (I1 _ _ Ej).
      * intros j idx m Hin. rewrite Ea in Hin. exact (I2 _ _ _ Hin).
  - exact IH.
Qed.

Lemma tm_forall2_of_pointwise : forall (A B : Type) (P : A -> B -> Prop) (l : list A),
  (forall a, In a l -> exists b, P a b) -> exists bs, Forall2 P l bs.
Proof.
  intros A B P l. induction l as [|a r IH]; intros H.
  - exists []. constructor.
  - destruct (H a (or_introl eq_refl)) as (b & Hb). destruct (IH (fun x Hx => H x (or_intror Hx))) as (bs & Hbs).
    exists (b :: bs). constructor; assumption.
Qed.

(* the message of every accepted entry is the encoding of a call of the producer that queued it *)
Lemma tm_accepted_origin : forall fx cap (cprogs : list (list tm_pcall)) s i idx m,
  (forall cs tbl c, In cs cprogs -> In (TmPCall tbl c) cs -> tm_call_ok tbl c) ->
  tw_reach fx cap (map tm_compile cprogs) s -> In (i, idx, m) (tw_accepted s) ->
  exists w, tm_decode m = Some w /\ exists cs, nth_error cprogs i = Some cs /\ tm_origin cs m w.
Proof.
  intros fx cap cprogs s i idx m Hok HR Hin.
  destruct (tm_src_reach _ _ _ _ HR) as (_ & I2). destruct (I2 _ _ _ Hin) as (cs' & Hn & Hf).
  rewrite nth_error_map in Hn. destruct (nth_error cprogs i) as [cs|] eqn:En; [|discriminate]. cbn in Hn. injection Hn as <-.
  pose proof (nth_error_In _ _ En) as Hcs.
  destruct Hf as [(k & body & Hs & ->)|[(Hs & id & ->)|(Hs & ->)]]; unfold tm_compile in Hs; apply in_flat_map in Hs; destruct Hs as (pc & Hpc & Hs).
  - destruct (tm_compile1_send _ _ _ Hs) as (tbl & c & -> & Ek & Ee).
    pose proof (Hok _ _ _ Hcs Hpc) as Oc.
    exists (tm_norm tbl c). split; [exact (tm_roundtrip _ _ _ Oc Ee)|]. exists cs. split; [reflexivity|].
    left. exists tbl, c. split; [exact Hpc|]. split; [rewrite Ek; discriminate|]. split; [exact Ee|reflexivity].
  - apply tm_compile1_flush in Hs. subst pc.
    exists (TmWFlush (id mod 18446744073709551616)). split; [apply tm_decode_flush|]. exists cs. split; [reflexivity|].
    right. left. exists id. split; [exact Hpc|]. split; [apply tm_flush_is_tw|reflexivity].
  - apply tm_compile1_close in Hs. subst pc.
    exists TmWQuit. split; [apply tm_decode_close|]. exists cs. split; [reflexivity|].
    right. right. split; [exact Hpc|]. split; [apply tm_close_is_tw|reflexivity].
Qed.

Lemma tm_applied_calls : forall (fx : bool) (cap : N) (cprogs : list (list tm_pcall)) (s : tw_state),
  (forall cs tbl c, In cs cprogs -> In (TmPCall tbl c) cs -> tm_call_ok tbl c) ->
  tw_wf cap (map tm_compile cprogs) -> tw_wf_close (map tm_compile cprogs) ->
  tw_reach fx cap (map tm_compile cprogs) s -> In TwAEnd (tw_applied s) ->
  exists l, tw_applied s = l ++ [TwAEnd] /\ ~ In TwAEnd l /\
    tw_msgs_of l = map snd (tw_accepted s) /\
    exists ws, Forall2 (fun e w => tm_decode (snd e) = Some w /\
                                   exists cs, nth_error cprogs (fst (fst e)) = Some cs /\ tm_origin cs (snd e) w)
                       (tw_accepted s) ws.
Proof.
  intros fx cap cprogs s Hok Hwf Hcl HR Hend.
  destruct (tw_close_post fx cap _ s Hwf Hcl HR Hend) as (_ & _ & _ & _ & Hmsgs & l & Hl & Hnin).
  exists l. split; [exact Hl|]. split; [exact Hnin|]. split.
  - change (map snd (tw_accepted s)) with (tw_acc_msgs s). rewrite <- Hmsgs, Hl. rewrite tw_msgs_of_app. cbn [tw_msgs_of]. rewrite app_nil_r. reflexivity.
  - apply tm_forall2_of_pointwise. intros [[i idx] m] Hin. cbn [fst snd].
    exact (tm_accepted_origin _ _ _ _ _ _ _ Hok HR Hin).
Qed.

(* the reading tm_dec plugged into ComposeGuards.cmp_twr_calls: the writer calls are the decoded messages *)
Lemma tm_dec_msgs : forall tbl l, (forall i d, ~ In (TwADef i d) l) ->
  ComposeGuards.cmp_twr_calls (tm_dec tbl (fun _ => None)) l =
  flat_map (fun m => match tm_decode m with Some w => match tm_wop tbl w with Some o => [o] | None => [] end | None => [] end) (tw_msgs_of l).
Proof.
  intros tbl l H. unfold ComposeGuards.cmp_twr_calls. induction l as [|a r IH]; [reflexivity|].
  assert (Hr : forall i d, ~ In (TwADef i d) r) by (intros i d Hi; apply (H i d); right; exact Hi).
  cbn [flat_map tw_msgs_of]. destruct a as [i d|m|]; cbn [tm_dec].
  - exfalso. apply (H i d). left. reflexivity.
  - cbn [flat_map]. rewrite (IH Hr). destruct (tm_decode m) as [w|]; [destruct (tm_wop tbl w)|]; reflexivity.
  - rewrite (IH Hr). reflexivity.
Qed.

(* ------------------------------------------------------------------ example: a complete run of an encoded program *)
(* the two-producer run of Properties_C06 (flush, user data, flush, close | omit) with messages that ARE encodings:
   the same message sizes (40, 60, 40, 40 | 40), hence the same schedule tw_ex_sched *)
Definition tm_run_prog : list (list tm_pcall) :=
  [[TmPFlush; TmPCall tm_ex_tbl (TmUser 7 1 (TmBuf (repeat 7 20)) 20); TmPFlush; TmPClose];
   [TmPCall tm_ex_tbl (TmOmit 1 1)]].
Definition tm_run_check : bool :=
  match tw_run false (tw_init 128 (map tm_compile tm_run_prog)) tw_ex_sched with
  | Some s =>
    existsb (fun a => match a with TwAEnd => true | _ => false end) (tw_applied s) && tw_final s &&
    Nat.eqb (length (tw_accepted s)) 5
  | None => false
  end.
Lemma tm_run_check_true : tm_run_check = true.
Proof. vm_compute. reflexivity. Qed.

Lemma tm_run_wf : tw_wf 128 (map tm_compile tm_run_prog) /\ tw_wf_close (map tm_compile tm_run_prog) /\
  (forall cs tbl c, In cs tm_run_prog -> In (TmPCall tbl c) cs -> tm_call_ok tbl c).
Proof.
  split; [split; lia|]. split.
  - intros [|[|[|i]]] cs H; cbn in H; try discriminate; injection H as <-; cbn.
    + intros pre post Hx. destruct pre as [|a [|b [|c [|d pre]]]]; cbn in Hx; try discriminate.
      * injection Hx as _ _ _ Hx. subst. reflexivity.
      * injection Hx as _ _ _ _ Hx. destruct pre; discriminate.
    + intros [H|[]]. discriminate.
  - intros cs tbl c [<-|[<-|[]]] Hin; cbn [In] in Hin.
    + destruct Hin as [H|[H|[H|[H|[]]]]]; try discriminate. injection H as <- <-.
      cbn [tm_call_ok tm_bytes]. repeat split; try lia.
    + destruct Hin as [H|[]]. injection H as <- <-. cbn [tm_call_ok]. lia.
Qed.

Lemma tm_ex_run : exists s,
  (forall cs tbl c, In cs tm_run_prog -> In (TmPCall tbl c) cs -> tm_call_ok tbl c) /\
  tw_wf 128 (map tm_compile tm_run_prog) /\ tw_wf_close (map tm_compile tm_run_prog) /\
  tw_reach false 128 (map tm_compile tm_run_prog) s /\ In TwAEnd (tw_applied s) /\
  length (tw_accepted s) = 5%nat.
Proof.
  pose proof tm_run_check_true as H. unfold tm_run_check in H.
  destruct (tw_run false (tw_init 128 (map tm_compile tm_run_prog)) tw_ex_sched) as [s|] eqn:E; [|discriminate H].
  destruct tm_run_wf as (Hwf & Hwc & Hok).
  apply andb_prop in H. destruct H as (H & C3). apply andb_prop in H. destruct H as (C1 & C2).
  exists s. split; [exact Hok|]. split; [exact Hwf|]. split; [exact Hwc|].
  split; [eapply tw_run_reach; [apply tw_reach_init|exact E]|]. clear E. split.
  - apply existsb_exists in C1. destruct C1 as (a & Hin & Ha). destruct a; try discriminate Ha. exact Hin.
  - apply Nat.eqb_eq. exact C3.
Qed.

(* ------------------------------------------------------------------ padding bytes do not matter to the consumer *)
(* gcc leaves the padding of the fsr / utc / annotation headers UNINITIALISED (stale stack bytes; observed with a probe:
   see the report); tm_encode fixes it to zero.  The decoder gives the same call whatever the padding bytes are. *)
Definition tm_hdr_fsr_pad (pa pb pc : list N) (sig : N) (sid : Z) (count : N) : list N :=
  [3] ++ pa ++ tw_le 2 sig ++ pb ++ tw_le 8 (tm_u64 sid) ++ tw_le 4 count ++ pc ++ tw_le 8 0.
Definition tm_hdr_utc_pad (pa pb : list N) (sig : N) (sid utc : Z) : list N :=
  [6] ++ pa ++ tw_le 2 sig ++ pb ++ tw_le 8 (tm_u64 sid) ++ tw_le 8 (tm_u64 utc) ++ tw_le 8 0.
Definition tm_hdr_ann_pad (pa pb pc : list N) (sig : N) (ts : Z) (y atype group stype : N) : list N :=
  [5] ++ pa ++ tw_le 2 sig ++ pb ++ tw_le 8 (tm_u64 ts) ++ tw_le 1 atype ++ tw_le 1 stype ++ tw_le 1 group
      ++ pc ++ tw_le 4 y ++ tw_le 8 0.

Ltac tm_explode pa Ha :=
  repeat (destruct pa as [|? pa]; cbn [length] in Ha; try discriminate Ha).
Ltac tm_fld off n v :=
  match goal with |- context [tm_rd ?h off n] => change (tm_rd h off n) with (tw_of_le (tw_le n v)) end.

Lemma tm_padding_irrelevant : forall pa pb pc pd p sig sid utc ts count y atype group stype,
  length pa = 7%nat -> length pb = 6%nat -> length pc = 4%nat -> length pd = 1%nat ->
  tm_decode (tm_hdr_fsr_pad pa pb pc sig sid count ++ p) = tm_decode (tm_hdr_fsr sig sid count ++ p) /\
  tm_decode (tm_hdr_utc_pad pa pb sig sid utc ++ p) = tm_decode (tm_hdr_utc sig sid utc ++ p) /\
  tm_decode (tm_hdr_ann_pad pa pb pd sig ts y atype group stype ++ p) = tm_decode (tm_hdr_ann sig ts y atype group stype ++ p).
Proof.
  intros pa pb pc pd p sig sid utc ts count y atype group stype Ha Hb Hc Hd.
  tm_explode pa Ha. tm_explode pb Hb. tm_explode pc Hc. tm_explode pd Hd.
  split; [|split].
  - rewrite !tm_decode_app by reflexivity. rewrite tm_dh_fsr. unfold tm_dh. tm_ty 3.
    tm_fld 8%nat 2%nat sig. tm_fld 16%nat 8%nat (tm_u64 sid). tm_fld 24%nat 4%nat count.
    rewrite tm_le2, tm_le8, tm_le4. reflexivity.
  - rewrite !tm_decode_app by reflexivity. rewrite tm_dh_utc. unfold tm_dh. tm_ty 6.
    tm_fld 8%nat 2%nat sig. tm_fld 16%nat 8%nat (tm_u64 sid). tm_fld 24%nat 8%nat (tm_u64 utc).
    rewrite tm_le2, !tm_le8. reflexivity.
  - rewrite !tm_decode_app by reflexivity. rewrite tm_dh_ann. unfold tm_dh. tm_ty 5.
    tm_fld 8%nat 2%nat sig. tm_fld 16%nat 8%nat (tm_u64 ts). tm_fld 28%nat 4%nat y.
    tm_fld 24%nat 1%nat atype. tm_fld 26%nat 1%nat group. tm_fld 25%nat 1%nat stype.
    rewrite tm_le2, tm_le8, tm_le4, !tm_le1. reflexivity.
Qed.

(* ------------------------------------------------------------------ the Spec reading of FSR payloads: tm_unpack inverts Spec.pack *)
From JLS Require BitCopyModel BitCopyProofs FsrPackProofs WriterModel.

Lemma tm_firstn_skipn_len_app : forall (A : Type) (a b : list A) n, length a = n ->
  firstn n (a ++ b) = a /\ skipn n (a ++ b) = b.
Proof.
  intros A a b n <-. split.
  - rewrite firstn_app, Nat.sub_diag, firstn_all. cbn [firstn]. apply app_nil_r.
  - rewrite skipn_app, Nat.sub_diag, skipn_all. reflexivity.
Qed.

Lemma tm_val_bits_of : forall k v, tm_val_of_bits (bits_of k v) = v mod 2 ^ N.of_nat k.
Proof.
  induction k as [|k IH]; intros v.
  - cbn. rewrite N.mod_1_r. reflexivity.
  - cbn [bits_of tm_val_of_bits]. rewrite IH. rewrite Nat2N.inj_succ, N.pow_succ_r'.
    rewrite N.mod_mul_r by (try discriminate; apply N.pow_nonzero; discriminate).
    pose proof (N.div2_odd v) as H. set (d := N.div2 v) in *.
    assert (H0 : v / 2 = d /\ v mod 2 = N.b2n (N.odd v)) by (destruct (N.odd v); cbn [N.b2n] in *; lia).
    destruct H0 as (-> & ->). destruct (N.odd v); reflexivity.
Qed.

Lemma tm_unpack_sbits : forall w l rest,
  tm_unpack_bits w (length l) (FsrPackProofs.sbits (N.of_nat w) l ++ rest) = map (fun s => s mod 2 ^ N.of_nat w) l.
Proof.
  intros w l. induction l as [|a l IH]; intros rest; [reflexivity|].
  rewrite FsrPackProofs.sbits_cons, Nat2N.id. cbn [length tm_unpack_bits map]. rewrite <- app_assoc.
  destruct (tm_firstn_skipn_len_app _ (bits_of w a) (FsrPackProofs.sbits (N.of_nat w) l ++ rest) w (BitCopyProofs.bits_of_length w a)) as (F & S).
  rewrite F, S, IH, tm_val_bits_of. reflexivity.
Qed.

Lemma tm_unpack_pack : forall w l, tm_unpack w (N.of_nat (length l)) (pack w l) = map (fun s => s mod 2 ^ w) l.
Proof.
  intros w l. unfold tm_unpack, pack.
  destruct (FsrPackProofs.bytes_of_bits_spec (S (length (flat_map (bits_of (N.to_nat w)) l))) (flat_map (bits_of (N.to_nat w)) l)) as (pad & _ & Hb & _); [lia|].
  change (tm_bits_of_bytes ?x) with (BitCopyModel.bc_bits x). rewrite Hb. rewrite Nat2N.id.
  pose proof (tm_unpack_sbits (N.to_nat w) l (repeat false pad)) as H. rewrite N2Nat.id in H. exact H.
Qed.

(* the samples depend only on the first ceil(count * w / 8) payload bytes *)
Lemma tm_unpack_bits_prefix : forall w n k bits, (n * w <= k)%nat ->
  tm_unpack_bits w n (firstn k bits) = tm_unpack_bits w n bits.
Proof.
  intros w n. induction n as [|n IH]; intros k bits H; [reflexivity|]. cbn [tm_unpack_bits].
  rewrite firstn_firstn. replace (Nat.min w k) with w by lia. f_equal.
  replace k with (w + (k - w))%nat at 1 by lia. rewrite <- firstn_skipn_comm. apply IH. lia.
Qed.
Lemma tm_bits_firstn : forall k l, tm_bits_of_bytes (firstn k l) = firstn (8 * k) (tm_bits_of_bytes l).
Proof.
  induction k as [|k IH]; intros l; [reflexivity|]. destruct l as [|a l]; [rewrite firstn_nil; reflexivity|].
  cbn [firstn]. unfold tm_bits_of_bytes in *. cbn [flat_map]. rewrite IH.
  replace (8 * S k)%nat with (length (bits_of 8 a) + 8 * k)%nat by (rewrite BitCopyProofs.bits_of_length; lia).
  rewrite firstn_app_2. reflexivity.
Qed.
Lemma tm_unpack_prefix : forall w count data,
  tm_unpack w count (firstn (N.to_nat ((count * w + 7) / 8)) data) = tm_unpack w count data.
Proof.
  intros w count data. unfold tm_unpack. rewrite tm_bits_firstn. apply tm_unpack_bits_prefix.
  assert (count * w <= 8 * ((count * w + 7) / 8)) by lia. lia.
Qed.

(* ------------------------------------------------------------------ same effect on the synchronous writer model *)
Lemma tm_cstr_wm : forall b s, tm_cstr b = Some s -> WriterModel.wm_cstr b = s /\ WriterModel.wm_cstr (s ++ [0]) = s.
Proof.
  induction b as [|x r IH]; intros s H; cbn [tm_cstr] in H; [discriminate|].
  destruct (x =? 0) eqn:E.
  - injection H as <-. cbn [WriterModel.wm_cstr app]. rewrite E. split; reflexivity.
  - destruct (tm_cstr r) as [s'|] eqn:Er; [|discriminate]. injection H as <-.
    destruct (IH s' eq_refl) as (A & B). cbn [WriterModel.wm_cstr app]. rewrite E, A, B. split; reflexivity.
Qed.

Lemma tm_is_str_cases : forall stype, tm_is_str stype = true -> stype = 2 \/ stype = 3.
Proof.
  intros stype H. unfold tm_is_str in H. apply orb_prop in H. destruct H as [H|H]; apply N.eqb_eq in H; [left|right]; exact H.
Qed.

(* accepted string call: the caller's buffer has a NUL *)
Lemma tm_payload_str : forall stype data size p, tm_is_str stype = true -> tm_data_payload stype data size = TmPlOk p ->
  exists s, tm_cstr (tm_bytes data) = Some s.
Proof.
  intros stype data size p Hs H. unfold tm_data_payload in H. rewrite Hs in H. destruct data as [|b]; [discriminate|].
  cbn [tm_bytes]. destruct (tm_cstr b) as [s|]; [exists s; reflexivity|discriminate].
Qed.

Lemma tm_same_effect : forall tbl c m o1 o2 summ1 summN st,
  tm_encode tbl c = TmMsg m -> tm_wop tbl (tm_norm tbl c) = Some o1 -> tm_wop_direct tbl c = Some o2 ->
  WriterModel.wm_step_rc summ1 summN st o1 = WriterModel.wm_step_rc summ1 summN st o2.
Proof.
  intros tbl c m o1 o2 summ1 summN st He H1 H2.
  destruct c as [meta stype data size|sig sid data count|sig en|sig ts y atype group stype data size|sig sid utc|id|];
    cbn [tm_norm tm_wop tm_wop_direct] in H1, H2; try discriminate; injection H1 as <-; injection H2 as <-; try reflexivity.
  - (* user data *)
    cbn [WriterModel.wm_step_rc]. unfold tm_norm_data. destruct (tm_is_str stype) eqn:Es; [|reflexivity].
    cbn [tm_encode] in He. destruct (255 <? stype); [discriminate|]. destruct (tm_data_payload stype data size) as [rc| |p] eqn:Ep; try discriminate.
    destruct (tm_payload_str _ _ _ _ Es Ep) as (s & Hc). rewrite Hc. destruct (tm_cstr_wm _ _ Hc) as (A & B).
    unfold WriterModel.wm_api_user_data. cbn [ud_stype ud_meta ud_data].
    destruct (tm_is_str_cases _ Es) as [-> | ->]; cbn [N.eqb Pos.eqb]; rewrite A, B; reflexivity.
  - (* fsr *)
    rewrite tm_unpack_prefix. reflexivity.
  - (* annotation *)
    cbn [WriterModel.wm_step_rc]. unfold tm_norm_data. destruct (tm_is_str stype) eqn:Es; [|reflexivity].
    cbn [tm_encode] in He. destruct (_ || _); [discriminate|]. destruct (tm_data_payload stype data size) as [rc| |p] eqn:Ep; try discriminate.
    destruct (tm_payload_str _ _ _ _ Es Ep) as (s & Hc). rewrite Hc. destruct (tm_cstr_wm _ _ Hc) as (A & B).
    unfold WriterModel.wm_api_annotation. cbn [an_type an_stype an_ts an_group an_y].
    assert (Hp : forall a1 a2 a3 a4,
      WriterModel.wm_anno_payload {| an_ts := a1; an_y := a2; an_type := a3; an_group := a4; an_stype := stype; an_data := s ++ [0] |} =
      WriterModel.wm_anno_payload {| an_ts := a1; an_y := a2; an_type := a3; an_group := a4; an_stype := stype; an_data := tm_bytes data |}).
    { intros. unfold WriterModel.wm_anno_payload. cbn [an_type an_stype an_ts an_group an_y an_data].
      destruct (tm_is_str_cases _ Es) as [-> | ->]; cbn [N.eqb Pos.eqb]; rewrite A, B; reflexivity. }
    rewrite Hp. reflexivity.
Qed.

(* ------------------------------------------------------------------ compose_C14_threaded_writer with the reading tm_dec *)
From JLS Require WmWriteOnce WriteOnce.
Lemma tm_write_once : forall (fx : bool) (cap : N) (cprogs : list (list tm_pcall)) (s : tw_state) (tbl : N -> N) (defs : N -> option wop),
  tw_wf cap (map tm_compile cprogs) -> tw_wf_close (map tm_compile cprogs) ->
  tw_reach fx cap (map tm_compile cprogs) s -> In TwAEnd (tw_applied s) ->
  exists l, tw_applied s = l ++ [TwAEnd] /\ ~ In TwAEnd l /\ tw_msgs_of l = tw_acc_msgs s /\
    forall summ1 summN (lo : Z),
      let p := ComposeGuards.cmp_twr_calls (tm_dec tbl defs) l in
      let st := fst (WriterModel.wm_run_full summ1 summN p) in
      N.of_nat (length p) < 1000000000000000 ->
      (forall sig sid samples, In (WFsr sig sid samples) p ->
         (lo <= sid /\ sid + Z.of_nat (length samples) < lo + 1000000000000000)%Z) ->
      WmWriteOnce.wmw_bounded (WriterModel.wm_st_log st) ->
      WriterModel.wm_st_fault st = false /\
      WriteOnce.wo_check_log (WmWriteOnce.wmw_evs (WriterModel.wm_st_log st)) = true /\
      forall k, WriteOnce.wo_check_log (firstn k (WmWriteOnce.wmw_evs (WriterModel.wm_st_log st))) = true.
Proof.
  intros fx cap cprogs s tbl defs Hwf Hcl HR Hend.
  destruct (ComposeGuards.cmp_twr_write_once fx cap _ s Hwf Hcl HR Hend) as (l & H1 & H2 & H3 & H4).
  exists l. split; [exact H1|]. split; [exact H2|]. split; [exact H3|].
  intros summ1 summN lo. exact (H4 (tm_dec tbl defs) summ1 summN lo).
Qed.

(* ------------------------------------------------------------------ Spec operations through the queue *)
Lemma tm_wm_cstr_app0 : forall l, WriterModel.wm_cstr (l ++ [0]) = WriterModel.wm_cstr l.
Proof.
  induction l as [|x r IH]; [reflexivity|]. cbn [app WriterModel.wm_cstr]. destruct (x =? 0); [reflexivity|]. rewrite IH. reflexivity.
Qed.
Lemma tm_firstn_len : forall l : list N, firstn (N.to_nat (len l)) l = l.
Proof. intros l. unfold len. rewrite Nat2N.id. apply firstn_all. Qed.

(* the direct synchronous call with the arguments of tm_call_of_wop has the effect of the operation itself *)
Lemma tm_direct_of_wop : forall tbl id o c o2 summ1 summN st,
  tm_call_of_wop tbl id o = Some c -> tm_wop_direct tbl c = Some o2 ->
  (forall sig sid samples, o = WFsr sig sid samples -> Forall (fun x => x < 2 ^ tbl sig) samples) ->
  WriterModel.wm_step_rc summ1 summN st o2 = WriterModel.wm_step_rc summ1 summN st o.
Proof.
  intros tbl id o c o2 summ1 summN st Hc H2 Hg.
  destruct o as [d|d|sig sid samples|sig en|sig a|sig sid utc|u|]; cbn [tm_call_of_wop] in Hc; try discriminate;
    injection Hc as <-; cbn [tm_wop_direct tm_bytes] in H2; injection H2 as <-; try reflexivity.
  - (* fsr *)
    unfold len. rewrite tm_unpack_pack. f_equal. f_equal.
    pose proof (Hg _ _ _ eq_refl) as HF. clear Hg. induction samples as [|x r IH]; [reflexivity|].
    inversion HF as [|? ? Hx Hr]; subst. cbn [map]. rewrite N.mod_small by exact Hx. rewrite IH by exact Hr. reflexivity.
  - (* annotation *)
    destruct a as [ts y atype group stype data]. cbn [an_ts an_y an_type an_group an_stype an_data].
    destruct (tm_is_str stype) eqn:Es.
    + cbn [WriterModel.wm_step_rc]. unfold WriterModel.wm_api_annotation. cbn [an_type an_stype an_ts an_group an_y].
      assert (Hp : WriterModel.wm_anno_payload {| an_ts := ts; an_y := y; an_type := atype; an_group := group; an_stype := stype; an_data := data ++ [0] |} =
                   WriterModel.wm_anno_payload {| an_ts := ts; an_y := y; an_type := atype; an_group := group; an_stype := stype; an_data := data |}).
      { unfold WriterModel.wm_anno_payload. cbn [an_type an_stype an_ts an_group an_y an_data].
        destruct (tm_is_str_cases _ Es) as [-> | ->]; cbn [N.eqb Pos.eqb]; rewrite tm_wm_cstr_app0; reflexivity. }
      rewrite Hp. reflexivity.
    + rewrite tm_firstn_len. reflexivity.
  - (* user data *)
    destruct u as [meta stype data]. cbn [ud_meta ud_stype ud_data].
    destruct (tm_is_str stype) eqn:Es.
    + cbn [WriterModel.wm_step_rc]. unfold WriterModel.wm_api_user_data. cbn [ud_stype ud_meta ud_data].
      destruct (tm_is_str_cases _ Es) as [-> | ->]; cbn [N.eqb Pos.eqb]; rewrite tm_wm_cstr_app0; reflexivity.
    + rewrite tm_firstn_len. reflexivity.
Qed.

Lemma tm_wop_roundtrip : forall tbl id o c m,
  tm_call_of_wop tbl id o = Some c -> tm_call_ok tbl c -> tm_encode tbl c = TmMsg m ->
  (forall sig sid samples, o = WFsr sig sid samples -> Forall (fun x => x < 2 ^ tbl sig) samples) ->
  exists w o', tm_decode m = Some w /\ w = tm_norm tbl c /\ tm_wop tbl w = Some o' /\
    forall summ1 summN st, WriterModel.wm_step_rc summ1 summN st o' = WriterModel.wm_step_rc summ1 summN st o.
Proof.
  intros tbl id o c m Hc Hok He Hg.
  exists (tm_norm tbl c).
  assert (H1 : exists o', tm_wop tbl (tm_norm tbl c) = Some o').
  { destruct o; cbn [tm_call_of_wop] in Hc; try discriminate; injection Hc as <-; cbn [tm_norm tm_wop]; eexists; reflexivity. }
  assert (H2 : exists o2, tm_wop_direct tbl c = Some o2).
  { destruct o; cbn [tm_call_of_wop] in Hc; try discriminate; injection Hc as <-; cbn [tm_wop_direct]; eexists; reflexivity. }
  destruct H1 as (o' & H1). destruct H2 as (o2 & H2). exists o'.
  split; [exact (tm_roundtrip _ _ _ Hok He)|]. split; [reflexivity|]. split; [exact H1|].
  intros summ1 summN st. rewrite (tm_same_effect _ _ _ _ _ summ1 summN st He H1 H2).
  exact (tm_direct_of_wop _ _ _ _ _ summ1 summN st Hc H2 Hg).
Qed.

Definition tm_ex_wops : list wop :=
  [ WFsr 1 (-5) [1; 2; 4294967295];
    WFsr 2 0 [1; 0; 1; 1; 0; 0; 0; 1; 1];
    WUd {| ud_meta := 7; ud_stype := 2; ud_data := [104; 105] |};
    WUd {| ud_meta := 7; ud_stype := 1; ud_data := [0; 1; 2] |};
    WAnno 1 {| an_ts := 3; an_y := 1065353216; an_type := 1; an_group := 0; an_stype := 3; an_data := [123; 125] |};
    WUtc 1 100 (-100); WOmit 1 1; WFlush ].
Definition tm_ex_wop_check (o : wop) : bool :=
  match tm_call_of_wop tm_ex_tbl 1 o with
  | Some c => match tm_encode tm_ex_tbl c with
              | TmMsg m => match tm_decode m with Some w => match tm_wop tm_ex_tbl w with Some _ => true | None => false end | None => false end
              | _ => false end
  | None => false
  end.
Lemma tm_ex_wops_ok :
  forallb tm_ex_wop_check tm_ex_wops = true /\
  Forall (fun o => exists c, tm_call_of_wop tm_ex_tbl 1 o = Some c /\ tm_call_ok tm_ex_tbl c /\
                   (forall sig sid samples, o = WFsr sig sid samples -> Forall (fun x => x < 2 ^ tm_ex_tbl sig) samples)) tm_ex_wops.
Proof.
  split; [vm_compute; reflexivity|].
  unfold tm_ex_wops. repeat constructor; eexists; (split; [reflexivity|]); (split; [cbn; unfold tm_i64_ok; repeat split; try lia; try (vm_compute; reflexivity)|]);
    intros sig sid samples E; try discriminate E; injection E as <- <- <-; repeat constructor; vm_compute; reflexivity.
Qed.

(* ------------------------------------------------------------------ one returned call: queued exactly once with its encoding, or not at all *)
Lemma tm_returned_call : forall fx cap progs s i idx k body rc tbl c,
  tw_wf cap progs -> tw_wf_close progs -> tw_reach fx cap progs s ->
  In (TwEvRet (TwTProd i) idx (TwCSend k body) rc) (tw_trace s) ->
  tm_call_ok tbl c -> tm_encode tbl c = TmMsg (tw_user_msg k body) ->
  (rc = Some 0 /\ exists m, tw_msgs_with_id i idx (tw_accepted s) = [m] /\ tm_encode tbl c = TmMsg m /\
                            tm_decode m = Some (tm_norm tbl c)) \/
  (rc = Some tw_EBUSY /\ tw_msgs_with_id i idx (tw_accepted s) = []).
Proof.
  intros fx cap progs s i idx k body rc tbl c Hwf Hwc HR Hin Hok He.
  destruct (tw_rejected_leaves_no_trace _ _ _ _ _ _ _ _ _ Hwf Hwc HR Hin) as [(-> & Hm)|(-> & Hm)].
  - left. split; [reflexivity|]. exists (tw_user_msg k body). split; [exact Hm|]. split; [exact He|].
    exact (tm_roundtrip _ _ _ Hok He).
  - right. split; [reflexivity|exact Hm].
Qed.
