(* COMPOSITION, part 5 (C11 / C12 / C05, annotation and UTC tracks, COMPONENT level): the chunks the byte-exact writer
   model appends for a timestamp-indexed track (RefineTs.rt_ts_refines: one for one TsModel's disk, ordinals replaced by
   real offsets) chained with the structure theorem of TsModel (TsProofs.ts_inv_all = Properties_C11.C11_ts_inv) and the
   seek theorem (TsProofs.ts_anno_seek_all = C11_ts_seek_generic):
     cmp_ts_data_payloads    the DATA chunks of the track in the log carry, in order, the encoded records
     cmp_ts_index_targets    every entry (timestamp, offset) of every INDEX chunk of the track in the log: the offset is that
                             of a chunk of the log: level 1 -> the DATA chunk of a record with that timestamp;
                             level L >= 2 -> the INDEX chunk of level L - 1 whose first entry has that timestamp
     cmp_ts_heads            head_offsets[L] = the first chunk of level L (0 = DATA)
     cmp_ts_seek_tail        what jls_core_annotations delivers from timestamp t (TsModel's reader on TsModel's disk) is,
                             encoded, a tail of the DATA payloads of the log
   The lifting to whole programs (wm_run_full with annotation / UTC calls) is NOT proved in the development
   (Properties_refine.v, level of the statements), so these stay at component level: any state satisfying the writer's
   invariant rt_fresh, the records written through jls_wr_annotation / jls_wr_utc, the close. *)
From Coq Require Import NArith ZArith List Bool Lia Arith Sorted.
From Coq Require Import ZifyBool ZifyN ZifyNat.
From JLS Require Import Generated CrcDefs Spec Format WmRaw WmCore WmTs WmFsr WriterModel WmProofs
  TsModel TsProofs RefineLog RefineTs ComposeFsr.
Import ListNotations.
Local Open Scope N_scope.

Lemma cmp_track_tags_ne : forall ty, ty < 4 ->
  fm_track_tag ty JLS_TRACK_CHUNK_DATA <> fm_track_tag ty JLS_TRACK_CHUNK_INDEX /\
  fm_track_tag ty JLS_TRACK_CHUNK_DATA <> fm_track_tag ty JLS_TRACK_CHUNK_SUMMARY /\
  fm_track_tag ty JLS_TRACK_CHUNK_INDEX <> fm_track_tag ty JLS_TRACK_CHUNK_SUMMARY.
Proof.
  intros ty H. assert (E : ty = 0 \/ ty = 1 \/ ty = 2 \/ ty = 3) by lia.
  destruct E as [-> | [-> | [-> | ->]]]; repeat split; discriminate.
Qed.

Section CMP_TS.
Variables A SE : Type.
Variable key : A -> Z.
Variable summ : A -> SE.
Variable encA : A -> list N.
Variable encS : SE -> list N.
Variables sid ty : N.
Variable d : nat.
Variable recs : list A.
Variable cs : list rf_chunk.

Let w := ts_file A SE key summ d recs.
Let D := tw_disk w.
Let offs := map rc_off cs.
Let tagD := fm_track_tag ty JLS_TRACK_CHUNK_DATA.
Let tagI := fm_track_tag ty JLS_TRACK_CHUNK_INDEX.

Hypothesis Hty : ty < 4.
Hypothesis Hsid4096 : sid < 4096.
Hypothesis Hd : (2 <= d)%nat.
Hypothesis Hn : (length recs < d ^ 15)%nat.
Hypothesis HF2 : Forall2 (rt_chunk_rel A SE encA encS sid ty offs) cs D.

(* ---- views ---- *)
Lemma cmp_ts_view_in : forall (B : Type) (f : ts_chunk A SE -> option B) Dk b k c x,
  nth_error Dk k = Some c -> f c = Some x -> In ((S k + b)%nat, x) (ts_view A SE f b Dk).
Proof.
  intros B f Dk. induction Dk as [|c0 Dk IH]; intros b k c x Hk Hf; [destruct k; discriminate Hk|].
  destruct k as [|k]; cbn [nth_error] in Hk.
  - injection Hk as ->. cbn [ts_view]. rewrite Hf. left. reflexivity.
  - cbn [ts_view]. specialize (IH (S b) k c x Hk Hf). replace (S (S k) + b)%nat with (S k + S b)%nat by lia.
    destruct (f c0); [right; exact IH|exact IH].
Qed.

Lemma cmp_ts_view_snd : forall (B : Type) (f : ts_chunk A SE -> option B) Dk b b',
  map snd (ts_view A SE f b Dk) = map snd (ts_view A SE f b' Dk).
Proof.
  intros B f Dk. induction Dk as [|c Dk IH]; intros b b'; [reflexivity|]. cbn [ts_view].
  destruct (f c); cbn [map snd]; [f_equal|]; apply IH.
Qed.

(* ---- the DATA chunks carry the records, in order ---- *)
Lemma cmp_ts_data_payloads :
  map rc_pay (filter (fun c => rc_tag c =? tagD) cs) = map encA recs.
Proof.
  destruct (ts_inv_all A SE key summ d recs Hd Hn) as (_ & Hdat & _). cbv zeta in Hdat. fold w D in Hdat.
  rewrite <- Hdat. unfold ts_datas. clear Hdat.
  destruct (cmp_track_tags_ne ty Hty) as (T1 & T2 & T3).
  generalize 0%nat as b. revert HF2. generalize offs as offs0. generalize D as D0.
  intros D0 offs0 H. induction H as [|c tc cs0 D1 Hc Hr IH]; intros b; [reflexivity|].
  cbn [filter ts_view]. destruct tc as [r|L es|L ss]; cbn [rt_chunk_rel ts_f_data] in *.
  - destruct Hc as (Ht & _ & Hp). unfold rt_tag in Ht. fold tagD in Ht. rewrite Ht, N.eqb_refl. cbn [map snd]. rewrite Hp. f_equal. apply IH.
  - destruct Hc as (Ht & _). unfold rt_tag in Ht. destruct (N.eqb_spec (rc_tag c) tagD) as [E|_]; [unfold tagD in E; congruence|]. apply IH.
  - destruct Hc as (Ht & _). unfold rt_tag in Ht. destruct (N.eqb_spec (rc_tag c) tagD) as [E|_]; [unfold tagD in E; congruence|]. apply IH.
Qed.

(* ---- a chunk of TsModel's disk read at an ordinal: its chunk in the log, at the real offset ---- *)
Lemma cmp_ts_rd_chunk : forall o tc, ts_rd A SE D o = Some tc ->
  exists c, In c cs /\ rc_off c = rt_psi offs o /\ rt_chunk_rel A SE encA encS sid ty offs c tc.
Proof.
  intros o tc H. destruct o as [|k]; [discriminate H|]. cbn [ts_rd] in H.
  destruct (cmp_Forall2_nth _ _ _ _ _ k tc HF2 H) as (c & Hc & Hrel).
  exists c. split; [eapply nth_error_In; exact Hc|]. split; [|exact Hrel].
  cbn [rt_psi]. unfold offs. erewrite nth_error_nth; [reflexivity|]. rewrite nth_error_map, Hc. reflexivity.
Qed.

(* ---- INDEX chunks of the log ---- *)
Lemma cmp_ts_index_targets : forall c, In c cs -> rc_tag c = tagI ->
  exists L es, (1 <= L)%nat /\ rc_meta c = wm_meta sid (N.of_nat L) /\ es <> [] /\ (length es <= d)%nat /\
    rc_pay c = wm_ts_index_payload (fst (hd (0%Z, 0) es)) (N.of_nat (length es)) es /\
    forall e, In e es ->
      exists c', In c' cs /\ rc_off c' = snd e /\
        ((L = 1%nat /\ rc_tag c' = tagD /\ rc_meta c' = sid /\ exists r, In r recs /\ rc_pay c' = encA r /\ key r = fst e) \/
         ((2 <= L)%nat /\ rc_tag c' = tagI /\ rc_meta c' = wm_meta sid (N.of_nat (L - 1)) /\
          exists es', es' <> [] /\ fst (hd (0%Z, 0) es') = fst e /\
            rc_pay c' = wm_ts_index_payload (fst e) (N.of_nat (length es')) es')).
Proof.
  intros c Hc Htag.
  destruct (cmp_track_tags_ne ty Hty) as (T1 & T2 & T3).
  destruct (In_nth_error _ _ Hc) as (k & Hk).
  assert (Hlen : length cs = length D) by (eapply cmp_Forall2_length; exact HF2).
  destruct (nth_error D k) as [tc|] eqn:Etc.
  2:{ apply nth_error_None in Etc. assert (k < length cs)%nat by (apply nth_error_Some; congruence). lia. }
  destruct (cmp_Forall2_nth _ _ _ _ _ k tc HF2 Etc) as (c0 & Hc0 & Hrel). rewrite Hk in Hc0. injection Hc0 as <-.
  destruct tc as [r|L es|L ss]; cbn [rt_chunk_rel] in Hrel;
    [destruct Hrel as (Ht & _); unfold rt_tag in Ht; unfold tagI in Htag; congruence| |destruct Hrel as (Ht & _); unfold rt_tag in Ht; unfold tagI in Htag; congruence].
  destruct Hrel as (_ & Hmeta & Hpay & _).
  destruct (ts_inv_all A SE key summ d recs Hd Hn) as (_ & Hdat & _ & _ & _ & _ & _ & Hidx & Hent & _). cbv zeta in Hdat, Hidx, Hent. fold w D in Hdat, Hidx, Hent.
  destruct (Hidx k L es Etc) as (HL & Hne & Hle & _).
  exists L, (map (rt_ent offs) es).
  split; [exact HL|]. split; [exact Hmeta|]. split; [destruct es; [congruence|discriminate]|]. split; [rewrite map_length; exact Hle|].
  split. { rewrite Hpay, map_length. destruct es as [|e0 er]; [congruence|]. reflexivity. }
  intros e' He'. apply in_map_iff in He'. destruct He' as (e & <- & He). cbn [rt_ent fst snd].
  assert (Hview : In ((S k + 0)%nat, es) (ts_idxs A SE L D)).
  { unfold ts_idxs. eapply cmp_ts_view_in; [exact Etc|]. cbn [ts_f_idx]. rewrite Nat.eqb_refl. reflexivity. }
  destruct (Hent L _ es e Hview He) as [(-> & r & Hrd & Hkey)|(HL2 & es' & Hrd & Hne' & Hfst)].
  - destruct (cmp_ts_rd_chunk _ _ Hrd) as (c' & Hc' & Hoff & Hrel'). cbn [rt_chunk_rel] in Hrel'. destruct Hrel' as (Ht' & Hm' & Hp').
    exists c'. split; [exact Hc'|]. split; [exact Hoff|]. left. split; [reflexivity|]. split; [exact Ht'|]. split; [exact Hm'|].
    exists r. split; [|split; [exact Hp'|symmetry; exact Hkey]].
    rewrite <- Hdat. destruct (snd e) as [|k'] eqn:Ese; [discriminate Hrd|]. cbn [ts_rd] in Hrd.
    pose proof (cmp_ts_view_in _ (ts_f_data A SE) D 0%nat k' _ r Hrd eq_refl) as Hin. apply (in_map snd) in Hin. exact Hin.
  - destruct (cmp_ts_rd_chunk _ _ Hrd) as (c' & Hc' & Hoff & Hrel'). cbn [rt_chunk_rel] in Hrel'. destruct Hrel' as (Ht' & Hm' & Hp' & _).
    exists c'. split; [exact Hc'|]. split; [exact Hoff|]. right. split; [exact HL2|]. split; [exact Ht'|]. split; [exact Hm'|].
    exists (map (rt_ent offs) es'). split; [destruct es'; [congruence|discriminate]|].
    split. { destruct es' as [|e0 er]; [congruence|]. cbn [map hd rt_ent fst]. cbn [hd] in Hfst. symmetry. exact Hfst. }
    rewrite Hp', map_length, Hfst. reflexivity.
Qed.

(* ---- head offsets of TsModel under rt_psi: the first chunk of each level ---- *)
Lemma cmp_ts_heads :
  (recs <> [] ->
   exists c r, In c cs /\ rc_off c = rt_psi offs (tw_head w 0) /\ rc_tag c = tagD /\ hd_error recs = Some r /\ rc_pay c = encA r) /\
  (forall L, (1 <= L)%nat ->
     (tw_head w L = 0%nat /\ forall c, In c cs -> rc_tag c = tagI -> rc_meta c <> wm_meta sid (N.of_nat L) \/ (16 <= L)%nat) \/
     exists c, In c cs /\ rc_off c = rt_psi offs (tw_head w L) /\ rc_tag c = tagI /\ rc_meta c = wm_meta sid (N.of_nat L)).
Proof.
  destruct (ts_inv_all A SE key summ d recs Hd Hn) as (_ & Hdat & HT & HT0 & _ & _ & Habove & Hidx & _ & Hh0 & HhL).
  cbv zeta in Hdat, HT, HT0, Habove, Hidx, Hh0, HhL. fold w D in Hdat, HT, HT0, Habove, Hidx, Hh0, HhL.
  split.
  - intros Hne. destruct (ts_datas A SE D) as [|[o r] rest] eqn:Ed; [cbn in Hdat; congruence|].
    cbn [ts_first_off fst] in Hh0.
    assert (Hin : In (o, r) (ts_datas A SE D)) by (rewrite Ed; left; reflexivity).
    destruct (ts_view0_rd A SE (ts_f_data A SE) D o r Hin) as (tc & Hrd & Hf). destruct tc as [r'| |]; try discriminate Hf. injection Hf as ->.
    destruct (cmp_ts_rd_chunk _ _ Hrd) as (c & Hc & Hoff & Hrel). cbn [rt_chunk_rel] in Hrel. destruct Hrel as (Ht & _ & Hp).
    exists c, r. split; [exact Hc|]. split; [rewrite Hh0; exact Hoff|]. split; [exact Ht|]. split; [|exact Hp].
    rewrite <- Hdat. reflexivity.
  - intros L HL. specialize (HhL L HL).
    destruct (ts_idxs A SE L D) as [|[o es] rest] eqn:Ei.
    + left. cbn [ts_first_off] in HhL. split; [exact HhL|]. intros c Hc Htag.
      destruct (Nat.lt_ge_cases L 16) as [HL16|HL16]; [left|right; exact HL16].
      intro Hmeta. destruct (cmp_ts_index_targets c Hc Htag) as (L' & es' & HL' & Hm' & _).
      destruct (In_nth_error _ _ Hc) as (k & Hk).
      assert (Hlen : length cs = length D) by (eapply cmp_Forall2_length; exact HF2).
      destruct (nth_error D k) as [tc|] eqn:Etc.
      2:{ apply nth_error_None in Etc. assert (k < length cs)%nat by (apply nth_error_Some; congruence). lia. }
      destruct (cmp_Forall2_nth _ _ _ _ _ k tc HF2 Etc) as (c0 & Hc0 & Hrel). rewrite Hk in Hc0. injection Hc0 as <-.
      destruct (cmp_track_tags_ne ty Hty) as (T1 & T2 & T3).
      destruct tc as [r|L2 es2|L2 ss]; cbn [rt_chunk_rel] in Hrel;
        [destruct Hrel as (Ht & _); unfold rt_tag in Ht; unfold tagI in Htag; congruence| |destruct Hrel as (Ht & _); unfold rt_tag in Ht; unfold tagI in Htag; congruence].
      destruct Hrel as (_ & Hm2 & _).
      assert (HL2 : (L2 < 16)%nat).
      { destruct (Nat.lt_ge_cases (length (tw_lv w)) L2) as [Hgt|Hle]; [|lia].
        pose proof (Habove L2 Hgt) as E. pose proof (cmp_ts_view_in _ (ts_f_idx A SE L2) D 0%nat k _ es2 Etc ltac:(cbn [ts_f_idx]; rewrite Nat.eqb_refl; reflexivity)) as Hin.
        unfold ts_idxs in E. rewrite E in Hin. destruct Hin. }
      rewrite Hm2 in Hmeta. apply (f_equal (fun m => N.shiftr m 12)) in Hmeta.
      rewrite !cmp_meta_level in Hmeta by (try exact Hsid4096; lia).
      assert (L2 = L) by lia. subst L2.
      pose proof (cmp_ts_view_in _ (ts_f_idx A SE L) D 0%nat k _ es2 Etc ltac:(cbn [ts_f_idx]; rewrite Nat.eqb_refl; reflexivity)) as Hin.
      unfold ts_idxs in Ei. rewrite Ei in Hin. destruct Hin.
    + right. cbn [ts_first_off fst] in HhL.
      assert (Hin : In (o, es) (ts_idxs A SE L D)) by (rewrite Ei; left; reflexivity).
      destruct (ts_view0_rd A SE (ts_f_idx A SE L) D o es Hin) as (tc & Hrd & Hf).
      destruct tc as [|L' es'|]; try discriminate Hf. cbn [ts_f_idx] in Hf. destruct (Nat.eqb_spec L' L) as [->|]; [|discriminate Hf]. injection Hf as ->.
      destruct (cmp_ts_rd_chunk _ _ Hrd) as (c & Hc & Hoff & Hrel). cbn [rt_chunk_rel] in Hrel. destruct Hrel as (Ht & Hm & _).
      exists c. split; [exact Hc|]. split; [rewrite HhL; exact Hoff|]. split; [exact Ht|exact Hm].
Qed.

End CMP_TS.

(* ================================================================ the theorems (component level) *)
Theorem cmp_ts_track_lemma : forall (A SE : Type) (key : A -> Z) (summ : A -> SE) (encA : A -> list N) (encS : SE -> list N) (sid ty : N) (d : nat),
  sid < 256 -> ty < 4 -> (forall s, length (encS s) = 16%nat) -> (2 <= d)%nat -> 16 + 16 * N.of_nat d < 4294967296 ->
  (forall r, rf_len (encA r) < 4294967296) ->
  forall (recs : list A) (x0 : wm_tx),
  rt_fresh ty d x0 -> (length recs < d ^ 15)%nat ->
  let w := ts_file A SE key summ d recs in
  let x := wm_ts_close sid (fold_left (rt_rec A SE key summ encA encS sid ty) recs x0) in
  let tagD := fm_track_tag ty JLS_TRACK_CHUNK_DATA in
  let tagI := fm_track_tag ty JLS_TRACK_CHUNK_INDEX in
  let head := fun L => wm_get_off (wm_tk_offsets (wm_tx_tk x)) (N.of_nat L) in
  exists cs,
    rt_out x = rev cs ++ rt_out x0 /\
    wm_fault (wm_b_raw (wm_tx_base x)) = false /\
    (* the DATA chunks carry the records, in order *)
    map rc_pay (filter (fun c => rc_tag c =? tagD) cs) = map encA recs /\
    (* index targets *)
    (forall c, In c cs -> rc_tag c = tagI ->
       exists L es, (1 <= L)%nat /\ rc_meta c = wm_meta sid (N.of_nat L) /\ es <> [] /\ (length es <= d)%nat /\
         rc_pay c = wm_ts_index_payload (fst (hd (0%Z, 0) es)) (N.of_nat (length es)) es /\
         forall e, In e es ->
           exists c', In c' cs /\ rc_off c' = snd e /\
             ((L = 1%nat /\ rc_tag c' = tagD /\ rc_meta c' = sid /\ exists r, In r recs /\ rc_pay c' = encA r /\ key r = fst e) \/
              ((2 <= L)%nat /\ rc_tag c' = tagI /\ rc_meta c' = wm_meta sid (N.of_nat (L - 1)) /\
               exists es', es' <> [] /\ fst (hd (0%Z, 0) es') = fst e /\
                 rc_pay c' = wm_ts_index_payload (fst e) (N.of_nat (length es')) es'))) /\
    (* head_offsets[] *)
    (recs <> [] -> exists c r, In c cs /\ head 0%nat = rc_off c /\ rc_tag c = tagD /\ hd_error recs = Some r /\ rc_pay c = encA r) /\
    (forall L, (1 <= L < 16)%nat ->
       (head L = 0 /\ forall c, In c cs -> rc_tag c = tagI -> rc_meta c <> wm_meta sid (N.of_nat L)) \/
       exists c, In c cs /\ head L = rc_off c /\ rc_tag c = tagI /\ rc_meta c = wm_meta sid (N.of_nat L)) /\
    (* jls_core_annotations from any timestamp (TsModel's reader on TsModel's disk): a tail of the DATA payloads *)
    (StronglySorted Z.le (map key recs) -> forall t, exists j,
       ts_annotations_from A SE (tw_disk w) (tw_head w) t (fun _ _ => false) = (skipn j recs, true) /\
       map encA (skipn j recs) = skipn j (map rc_pay (filter (fun c => rc_tag c =? tagD) cs)) /\
       (Nat.pred (ts_fge t (map key recs)) <= j <= ts_fge t (map key recs))%nat /\
       (forall r, In r recs -> (t <= key r)%Z -> In r (skipn j recs))).
Proof.
  intros A SE key summ encA encS sid ty d Hsid Hty HencS Hd Hg HencA recs x0 Hfresh Hn w. subst w.
  destruct (ts_inv_all A SE key summ d recs Hd Hn) as (Hst & _). cbv zeta in Hst.
  pose proof (rt_ts_refines A SE key summ encA encS sid ty d Hsid Hty HencS Hd Hg HencA recs x0 Hfresh Hst) as Href.
  intros x tagD tagI head. cbv zeta in Href. fold x in Href. clearbody x.
  destruct Href as (cs & Hout & _ & HF2 & Hflt & _ & Hheads).
  assert (H4096 : sid < 4096) by lia.
  exists cs. split; [exact Hout|]. split; [exact Hflt|].
  pose proof (cmp_ts_data_payloads A SE key summ encA encS sid ty d recs cs Hty Hd Hn HF2) as Hdata.
  split; [exact Hdata|].
  split; [exact (cmp_ts_index_targets A SE key summ encA encS sid ty d recs cs Hty H4096 Hd Hn HF2)|].
  destruct (cmp_ts_heads A SE key summ encA encS sid ty d recs cs Hty H4096 Hd Hn HF2) as (Hh0 & HhL).
  split.
  { intro Hne. destruct (Hh0 Hne) as (c & r & Hc & Hoff & Rest). exists c, r. split; [exact Hc|].
    split; [unfold head; rewrite (Hheads 0%nat ltac:(lia)); symmetry; exact Hoff|exact Rest]. }
  split.
  { intros L (HL1 & HL16). destruct (HhL L HL1) as [(Hz & Hno)|(c & Hc & Hoff & Rest)].
    - left. split; [unfold head; rewrite (Hheads L HL16), Hz; reflexivity|].
      intros c Hc Htag. destruct (Hno c Hc Htag) as [X|X]; [exact X|lia].
    - right. exists c. split; [exact Hc|]. split; [unfold head; rewrite (Hheads L HL16); symmetry; exact Hoff|exact Rest]. }
  intros Hsorted t.
  destruct (ts_anno_seek_all A SE key summ d recs t Hd Hn Hsorted) as (j & Hrd & Hj & Hall & _). cbv zeta in Hrd.
  exists j. split.
  { rewrite Hrd. f_equal. clear. generalize 0%nat. induction (skipn j recs) as [|r l IH]; intros i; [reflexivity|]. cbn [ts_take_stop]. rewrite IH. reflexivity. }
  split; [fold tagD in Hdata; rewrite Hdata, skipn_map; reflexivity|]. split; [exact Hj|exact Hall].
Qed.
