(* C17, part 4: the calls jls_copy re-issues are all accepted, and the copy reads back like the original. *)
From Coq Require Import NArith ZArith List Bool Lia ZifyBool ZifyN ZifyNat.
From JLS Require Import Generated Spec SpecProofs CopyModel CopyProofs CopyProofs2 CopyProofs3.
Import ListNotations.
Local Open Scope N_scope.

(* ------------------------------------------------------------------ *)
(* strings as read                                                      *)

Lemma cp_src_ok_norm : forall d, cp_src_ok (cp_norm_src d) = cp_src_ok d.
Proof. reflexivity. Qed.
Lemma cp_sig_ok_norm : forall d, cp_sig_ok (cp_norm_sig d) = cp_sig_ok d.
Proof. reflexivity. Qed.
Lemma cp_norm_sig_idem : forall d, cp_norm_sig (cp_norm_sig d) = cp_norm_sig d.
Proof. reflexivity. Qed.
Lemma cp_norm_align : forall d, cp_norm_sig (sp_align d) = sp_align (cp_norm_sig d).
Proof. reflexivity. Qed.

Lemma cp_sig_ok_align : forall d, cp_sig_ok (sp_align d) = cp_sig_ok d.
Proof.
  intros d. unfold cp_sig_ok, sp_align. cbn [sg_id sg_src sg_type sg_dtype sg_rate sg_name sg_units].
  destruct (sg_type d =? JLS_SIGNAL_TYPE_VSR); reflexivity.
Qed.

Lemma cp_dt_bits_k : forall dt, dt_bits dt = N.shiftr (N.land dt 65535) 8.
Proof. intros dt. unfold dt_bits. rewrite N.shiftr_land. change (N.shiftr 65535 8) with 255. reflexivity. Qed.

Lemma cp_valid_bits : forall dt, dt_valid dt = true -> dt_bits dt <> 0.
Proof.
  unfold dt_valid. intros dt H. apply andb_prop in H. destruct H as [H _].
  apply existsb_exists in H. destruct H as (x & Hin & Hx). apply N.eqb_eq in Hx.
  rewrite cp_dt_bits_k, Hx. clear Hx. cbn [In] in Hin.
  repeat (destruct Hin as [Hin|Hin]; [subst x; vm_compute; discriminate|]).
  contradiction.
Qed.

Lemma cp_sig_ok_bits : forall d, cp_sig_ok d = true -> dt_bits (sg_dtype d) <> 0.
Proof.
  intros d H. unfold cp_sig_ok in H. rewrite !andb_true_iff in H. apply cp_valid_bits. tauto.
Qed.

(* ------------------------------------------------------------------ *)
(* generic                                                              *)

Lemma cp_map_in : forall (A B C : Type) (f : A -> C) (g : B -> C) l1 l2 x,
  map f l1 = map g l2 -> In x l1 -> exists y, In y l2 /\ f x = g y.
Proof.
  intros A B C f g l1 l2 x E Hin. apply (in_map f) in Hin. rewrite E in Hin.
  apply in_map_iff in Hin. destruct Hin as (y & Hy & Hin). exists y. split; [exact Hin|symmetry; exact Hy].
Qed.

Lemma cp_insert_map : forall (A B : Type) (f : A -> B) (ka : A -> N) (kb : B -> N),
  (forall x, kb (f x) = ka x) -> forall x l, map f (insert_by ka x l) = insert_by kb (f x) (map f l).
Proof.
  intros A B f ka kb H x l. induction l as [|y r IH]; cbn [insert_by map]; [reflexivity|].
  rewrite !H. destruct (ka x <=? ka y); cbn [map]; [reflexivity|rewrite IH; reflexivity].
Qed.

Lemma cp_sort_map : forall (A B : Type) (f : A -> B) (ka : A -> N) (kb : B -> N),
  (forall x, kb (f x) = ka x) -> forall l, map f (sort_by ka l) = sort_by kb (map f l).
Proof.
  intros A B f ka kb H l. unfold sort_by. induction l as [|x r IH]; cbn [fold_right map]; [reflexivity|].
  rewrite (cp_insert_map A B f ka kb H). rewrite IH. reflexivity.
Qed.

(* ------------------------------------------------------------------ *)
(* FSR streams                                                          *)

Lemma cp_apply_eq : forall s sid smp, cp_fsr_apply s (sid, smp) = fsr_write s sid smp.
Proof. reflexivity. Qed.

Lemma cp_fold_contig : forall g bl rest, cp_contig g bl rest ->
  forall s f, ss_first s = Some f -> g = (f + Z.of_nat (length (ss_samples s)))%Z ->
  ss_first (fold_left cp_fsr_apply bl s) = Some f /\
  ss_samples (fold_left cp_fsr_apply bl s) = ss_samples s ++ rest.
Proof.
  intros g bl rest C. induction C as [g|g smp r rest Hne C IH]; intros s f Hf Hg; cbn [fold_left].
  - rewrite app_nil_r. split; [exact Hf|reflexivity].
  - rewrite cp_apply_eq.
    assert (Hge : (sp_next s f <= g)%Z) by (unfold sp_next; lia).
    pose proof (sp_fsr_write_gap s f g smp Hf Hne Hge) as Hs.
    replace (Z.to_nat (g - sp_next s f)) with O in Hs by (unfold sp_next; lia). cbn [repeat app] in Hs.
    pose proof (sp_fsr_write_first_kept s f g smp Hf) as Hf'.
    destruct (IH (fsr_write s g smp) f Hf') as [I1 I2].
    + rewrite Hs, app_length. lia.
    + split; [exact I1|]. rewrite I2, Hs, <- app_assoc. reflexivity.
Qed.

Lemma cp_fold_contig0 : forall f bl strm d, cp_contig f bl strm -> bl <> [] ->
  ss_first (fold_left cp_fsr_apply bl (new_sig d)) = Some f /\
  ss_samples (fold_left cp_fsr_apply bl (new_sig d)) = strm.
Proof.
  intros f bl strm d C Hbl. destruct C as [f|f smp r rest Hne C]; [congruence|].
  cbn [fold_left]. rewrite cp_apply_eq.
  destruct (sp_fsr_write_first_set (new_sig d) f smp eq_refl Hne) as [H1 H2].
  destruct (cp_fold_contig _ _ _ C (fsr_write (new_sig d) f smp) f H1) as [I1 I2].
  - rewrite H2. reflexivity.
  - split; [exact I1|]. rewrite I2, H2. reflexivity.
Qed.

Definition cp_sound (s : sigstate) : Prop :=
  match ss_first s with None => ss_samples s = [] | Some _ => ss_samples s <> [] end.

Lemma cp_fsr_write_sound : forall s sid smp, cp_sound s -> cp_sound (fsr_write s sid smp).
Proof.
  intros s sid smp H. unfold cp_sound, fsr_write in *. destruct smp as [|x r]; [exact H|].
  destruct (ss_first s) as [f|]; cbn [ss_first ss_samples]; [|discriminate].
  destruct (sid >=? f + Z.of_nat (length (ss_samples s)))%Z; intros E; apply app_eq_nil in E; destruct E as [E _]; contradiction.
Qed.

Lemma cp_fold_sound : forall bl s, cp_sound s -> cp_sound (fold_left cp_fsr_apply bl s).
Proof.
  induction bl as [|[sid smp] bl IH]; intros s H; cbn [fold_left]; [exact H|].
  apply IH. rewrite cp_apply_eq. apply cp_fsr_write_sound. exact H.
Qed.

(* the stream fields depend on the definition through the data type only *)
Lemma cp_fsr_write_indep : forall s1 s2 sid smp,
  ss_first s1 = ss_first s2 -> ss_samples s1 = ss_samples s2 -> sg_dtype (ss_def s1) = sg_dtype (ss_def s2) ->
  ss_first (fsr_write s1 sid smp) = ss_first (fsr_write s2 sid smp) /\
  ss_samples (fsr_write s1 sid smp) = ss_samples (fsr_write s2 sid smp).
Proof.
  intros s1 s2 sid smp H1 H2 H3. unfold fsr_write. destruct smp as [|x r]; [split; assumption|].
  rewrite H1, H2, H3. destruct (ss_first s2); split; reflexivity.
Qed.

Lemma cp_fold_indep : forall bl s1 s2,
  ss_first s1 = ss_first s2 -> ss_samples s1 = ss_samples s2 -> sg_dtype (ss_def s1) = sg_dtype (ss_def s2) ->
  ss_first (fold_left cp_fsr_apply bl s1) = ss_first (fold_left cp_fsr_apply bl s2) /\
  ss_samples (fold_left cp_fsr_apply bl s1) = ss_samples (fold_left cp_fsr_apply bl s2).
Proof.
  induction bl as [|[sid smp] bl IH]; intros s1 s2 H1 H2 H3; cbn [fold_left]; [split; assumption|].
  rewrite !cp_apply_eq. destruct (cp_fsr_write_indep s1 s2 sid smp H1 H2 H3) as [E1 E2].
  apply IH; try assumption. rewrite !cp_fsr_write_def. exact H3.
Qed.

(* ------------------------------------------------------------------ *)
(* the observation of a denoted content                                 *)

Definition cp_tr_obs (q : list wop) (d : sigdef) : cp_sigobs := cp_sig_obs (cp_track_state q d).

Lemma cp_tr_obs_norm : forall q d, cp_tr_obs q (cp_norm_sig d) = cp_tr_obs q d.
Proof.
  intros q d. unfold cp_tr_obs, cp_sig_obs, cp_track_state, rd_offset, rd_length.
  cbn [ss_def ss_first ss_samples ss_annos ss_utcs].
  change (sg_id (cp_norm_sig d)) with (sg_id d). rewrite cp_norm_sig_idem.
  destruct (cp_fold_indep (cp_fsr (sg_id d) q) (new_sig (cp_norm_sig d)) (new_sig d) eq_refl eq_refl eq_refl) as [E1 E2].
  rewrite E1, E2. reflexivity.
Qed.

Lemma cp_obs_denote : forall q,
  cp_obs (cp_denote q)
  = (sort_by so_id (map cp_norm_src (source0 :: cp_srcs q)),
     sort_by (fun o => sg_id (cp_o_def o)) (map (cp_tr_obs q) (map cp_norm_sig (cp_defs q))),
     flat_map cp_ud_store (cp_uds q)).
Proof.
  intros q. unfold cp_obs, rd_sources, rd_signals. cbn [cp_denote c_sources c_signals c_udata].
  f_equal. f_equal.
  - apply cp_sort_map. reflexivity.
  - rewrite (cp_sort_map sigstate cp_sigobs cp_sig_obs (fun s => sg_id (ss_def s)) (fun o => sg_id (cp_o_def o)))
      by reflexivity.
    f_equal. rewrite !map_map. apply map_ext. intros d. rewrite cp_tr_obs_norm. reflexivity.
Qed.

Lemma cp_ud_store_idem : forall l, flat_map cp_ud_store (flat_map cp_ud_store l) = flat_map cp_ud_store l.
Proof.
  induction l as [|u r IH]; [reflexivity|]. cbn [flat_map]. rewrite flat_map_app, IH. f_equal.
  unfold cp_ud_store at 2 3. destruct (ud_stype u =? 0) eqn:E; [reflexivity|].
  cbn [flat_map]. unfold cp_ud_store. cbn [ud_stype ud_meta ud_data]. rewrite E. cbn [app].
  rewrite <- N.land_assoc. rewrite N.land_diag. reflexivity.
Qed.

(* ------------------------------------------------------------------ *)
(* from the original's accepted calls to the copy's calls               *)

Section Reissue.
Variables p q : list wop.
Hypothesis R : cp_reissue p q.
Let a := cp_accepted p.

Lemma cp_ri_wf_a : cp_wf a = true.
Proof. apply cp_accepted_wf. Qed.
Lemma cp_ri_static_a : cp_static a.
Proof. apply cp_static_of_wf, cp_ri_wf_a. Qed.
Lemma cp_ri_inv_a : cp_inv a.
Proof. apply cp_accepted_inv. Qed.

Lemma cp_ri_noop : forallb cp_copy_op q = true.
Proof. destruct R as (H & _). exact H. Qed.
Lemma cp_ri_srcs : map cp_norm_src (cp_srcs q) = map cp_norm_src (cp_srcs a).
Proof. destruct R as (_ & H & _). exact H. Qed.
Lemma cp_ri_sigs : map cp_norm_sig (cp_sigs q) = map cp_norm_sig (map sp_align (cp_sigs a)).
Proof. destruct R as (_ & _ & H & _). exact H. Qed.
Lemma cp_ri_annos : forall i, cp_annos i q = cp_annos i a.
Proof. destruct R as (_ & _ & _ & H & _). exact H. Qed.
Lemma cp_ri_utcs : forall i, cp_utcs i q = cp_utcs i a.
Proof. destruct R as (_ & _ & _ & _ & H & _). exact H. Qed.
Lemma cp_ri_uds : cp_uds q = flat_map cp_ud_store (cp_uds a).
Proof. destruct R as (_ & _ & _ & _ & _ & H & _). exact H. Qed.
Lemma cp_ri_dbu : cp_dbu q = true.
Proof. destruct R as (_ & _ & _ & _ & _ & _ & _ & H). exact H. Qed.

(* clause (ii) in terms of the original's tracks *)
Lemma cp_ri_fsr_def : forall d, In d (cp_defs a) ->
  let sa := fold_left cp_fsr_apply (cp_fsr (sg_id d) a) (new_sig d) in
  match ss_first sa with
  | Some f => cp_contig f (cp_fsr (sg_id d) q) (ss_samples sa)
  | None => cp_fsr (sg_id d) q = []
  end.
Proof.
  intros d Hd. destruct R as (_ & _ & _ & _ & _ & _ & H & _). specialize (H (sg_id d)).
  fold a in H. rewrite (cp_spec_accepted p) in H. fold a in H. rewrite cp_find_sig_denote in H.
  unfold cp_find_def in H. rewrite (cp_find_unique sigdef sg_id (cp_defs a) d) in H; [|apply cp_ri_inv_a|exact Hd].
  cbn [option_map] in H. exact H.
Qed.

Lemma cp_ri_fsr_undef : forall i, ~ In i (map sg_id (cp_defs a)) -> cp_fsr i q = [].
Proof.
  intros i Hi. destruct R as (_ & _ & _ & _ & _ & _ & H & _). specialize (H i).
  fold a in H. rewrite (cp_spec_accepted p) in H. fold a in H. rewrite cp_find_sig_denote in H.
  destruct (cp_find_def a i) as [d|] eqn:F; [|exact H].
  exfalso. apply Hi. apply cp_find_def_ids. exists d. exact F.
Qed.

Lemma cp_ri_used : forall i, cp_fsr_used i q -> cp_fsr_used i a.
Proof.
  intros i [H|[H|H]].
  - left. intros E.
    destruct (in_dec N.eq_dec i (map sg_id (cp_defs a))) as [Hi|Hi]; [|apply H; apply cp_ri_fsr_undef; exact Hi].
    apply in_map_iff in Hi. destruct Hi as (d & Hid & Hd). subst i.
    pose proof (cp_ri_fsr_def d Hd) as C. cbv zeta in C. rewrite E in C. cbn [fold_left new_sig ss_first] in C.
    contradiction.
  - right. left. rewrite <- cp_ri_utcs. exact H.
  - exfalso. apply cp_nonempty_in in H. destruct H as [en Hen]. apply cp_in_omits in Hen.
    pose proof cp_ri_noop as F. rewrite forallb_forall in F. specialize (F _ Hen). discriminate.
Qed.

Lemma cp_ri_sig_corr : forall dq, In dq (cp_sigs q) ->
  exists da, In da (cp_sigs a) /\ cp_norm_sig dq = cp_norm_sig (sp_align da).
Proof.
  intros dq Hq. destruct (cp_map_in _ _ _ cp_norm_sig cp_norm_sig _ _ dq cp_ri_sigs Hq) as (y & Hy & E).
  apply in_map_iff in Hy. destruct Hy as (da & <- & Hda). exists da. split; assumption.
Qed.

Theorem cp_ri_static : cp_static q.
Proof.
  pose proof cp_ri_static_a as Sa.
  constructor.
  - intros d Hd. destruct (cp_map_in _ _ _ cp_norm_src cp_norm_src _ _ d cp_ri_srcs Hd) as (y & Hy & E).
    rewrite <- cp_src_ok_norm, E, cp_src_ok_norm. apply (cs_src a Sa). exact Hy.
  - replace (map so_id (cp_srcs q)) with (map so_id (cp_srcs a)); [apply (cs_src_nd a Sa)|].
    transitivity (map so_id (map cp_norm_src (cp_srcs a))); [rewrite map_map; reflexivity|].
    rewrite <- cp_ri_srcs, map_map. reflexivity.
  - intros d Hd. destruct (cp_ri_sig_corr d Hd) as (da & Hda & E).
    rewrite <- cp_sig_ok_norm, E, cp_sig_ok_norm, cp_sig_ok_align. apply (cs_sig a Sa). exact Hda.
  - replace (map sg_id (cp_sigs q)) with (map sg_id (cp_sigs a)); [apply (cs_sig_nd a Sa)|].
    transitivity (map sg_id (map cp_norm_sig (map sp_align (cp_sigs a)))); [rewrite !map_map; reflexivity|].
    rewrite <- cp_ri_sigs, map_map. reflexivity.
  - intros i Hu d Hd Hid. apply cp_ri_used in Hu.
    unfold cp_defs in Hd. destruct Hd as [<-|Hd].
    + apply (cs_fsr a Sa i Hu); [left; reflexivity|exact Hid].
    + apply in_map_iff in Hd. destruct Hd as (dq & <- & Hdq).
      destruct (cp_ri_sig_corr dq Hdq) as (da & Hda & E).
      change (sg_type (sp_align dq)) with (sg_type (cp_norm_sig dq)). rewrite E.
      change (sg_type (cp_norm_sig (sp_align da))) with (sg_type (sp_align da)).
      apply (cs_fsr a Sa i Hu).
      * unfold cp_defs. right. apply in_map. exact Hda.
      * rewrite <- Hid. change (sg_id (sp_align dq)) with (sg_id (cp_norm_sig dq)). rewrite E. reflexivity.
  - intros i an Hin. rewrite cp_ri_annos in Hin. apply (cs_anno a Sa i an Hin).
  - intros u Hin. rewrite cp_ri_uds in Hin. apply in_flat_map in Hin. destruct Hin as (u' & Hu' & Hin).
    unfold cp_ud_store in Hin. destruct (ud_stype u' =? 0); [destruct Hin|].
    destruct Hin as [<-|[]]. cbn [ud_stype]. apply (cs_ud a Sa). exact Hu'.
Qed.

Theorem cp_ri_wf : cp_wf q = true.
Proof. apply cp_wf_of_static; [apply cp_ri_static|apply cp_ri_dbu]. Qed.

Lemma cp_ri_defs : map cp_norm_sig (cp_defs q) = map cp_norm_sig (cp_defs a).
Proof.
  unfold cp_defs. cbn [map]. f_equal.
  rewrite map_map. rewrite (map_ext _ _ cp_norm_align). rewrite <- map_map. rewrite cp_ri_sigs.
  rewrite !map_map. apply map_ext_in. intros d Hd.
  rewrite <- cp_norm_align. f_equal. apply cp_align_idem.
  apply cp_sig_ok_bits. apply (cs_sig a cp_ri_static_a). exact Hd.
Qed.

Lemma cp_ri_track : forall d, In d (cp_defs a) -> cp_tr_obs q d = cp_tr_obs a d.
Proof.
  intros d Hd. unfold cp_tr_obs, cp_sig_obs, cp_track_state, rd_offset, rd_length.
  cbn [ss_def ss_first ss_samples ss_annos ss_utcs].
  rewrite cp_ri_annos, cp_ri_utcs.
  pose proof (cp_ri_fsr_def d Hd) as C. cbv zeta in C.
  set (sa := fold_left cp_fsr_apply (cp_fsr (sg_id d) a) (new_sig d)) in *.
  assert (Hs : cp_sound sa) by (apply cp_fold_sound; reflexivity).
  unfold cp_sound in Hs.
  destruct (ss_first sa) as [f|] eqn:Fa.
  - assert (Hne : cp_fsr (sg_id d) q <> []).
    { intros E. rewrite E in C. inversion C as [f' E1 E2 E3|]. symmetry in E3. contradiction. }
    destruct (cp_fold_contig0 f _ _ d C Hne) as [I1 I2]. rewrite I1, I2. reflexivity.
  - rewrite C. cbn [fold_left new_sig ss_first ss_samples]. rewrite Hs. reflexivity.
Qed.

Theorem cp_ri_obs : cp_obs (spec_of q) = cp_obs (spec_of p).
Proof.
  destruct (cp_wf_ok q cp_ri_wf) as (_ & Eq & _).
  rewrite Eq, (cp_spec_accepted p). fold a. rewrite !cp_obs_denote.
  f_equal; [f_equal|].
  - cbn [map]. rewrite cp_ri_srcs. reflexivity.
  - f_equal. rewrite cp_ri_defs. rewrite !map_map. apply map_ext_in. intros d Hd.
    rewrite !cp_tr_obs_norm. apply cp_ri_track. exact Hd.
  - rewrite cp_ri_uds. apply cp_ud_store_idem.
Qed.

End Reissue.

Theorem cp_reissue_preserves : forall p q, cp_reissue p q -> cp_obs (spec_of q) = cp_obs (spec_of p).
Proof. intros p q R. apply cp_ri_obs. exact R. Qed.

Theorem cp_reissue_ok : forall p q, cp_reissue p q -> cp_ok q.
Proof. intros p q R. apply cp_ok_iff_wf. apply (cp_ri_wf p q R). Qed.
