(* END TO END, layer 3, the byte codecs jls_rd_open relies on: what the reader model decodes from the payloads the writer
   model builds (no disagreement about a byte):
     handle_track_head    rp_dec_u64s 16 of the TRACK HEAD payload (wm_head_payload offsets) = offsets;
     handle_signal_def    the ten fixed fields (rp_field at the offsets of the jls_buf_rd calls) of wm_signal_payload d = those of d,
                          and the payload is long enough for the fixed part;
     scan_fsr_sample_id   the first 8 bytes of a DATA payload, as int64 = the payload header's sample id.
   (That jls_rd_open REACHES these chunks by following item_next is the part of layer 3 that is not proved.) *)
From Coq Require Import NArith ZArith List Bool Lia Arith.
From Coq Require Import ZifyBool ZifyN ZifyNat.
From JLS Require Import Generated CrcDefs Spec Format FormatProofs WmRaw WmCore WmFsr WriterModel RefineLog RepairRaw RawReadProofs
  E2eLog E2eFsr.
Import ListNotations.
Local Open Scope N_scope.
Ltac Zify.zify_post_hook ::= Z.div_mod_to_equations.

(* ---- handle_track_head ---- *)
Lemma e2c_dec_u64s : forall l, Forall (fun x => x < fm_two64) l -> rp_dec_u64s (length l) (flat_map fm_enc_u64 l) = l.
Proof.
  induction l as [|x l IH]; intros H; [reflexivity|]. inversion H as [|? ? Hx Hl]; subst.
  cbn [length rp_dec_u64s flat_map]. f_equal.
  - unfold fm_dec_u64. rewrite firstn_app_exact by (unfold fm_enc_u64; apply fm_enc_length).
    unfold fm_enc_u64. apply fm_dec_enc. exact Hx.
  - rewrite rr_skip_eq. change (N.to_nat 8) with 8%nat. rewrite skipn_app_exact by (unfold fm_enc_u64; apply fm_enc_length).
    apply IH. exact Hl.
Qed.

Theorem e2c_head_table : forall offs, length offs = 16%nat -> Forall (fun x => x < fm_two64) offs ->
  rp_dec_u64s wm_level_count (wm_head_payload offs) = offs /\ rf_len (wm_head_payload offs) = SIZEOF_track_head.
Proof.
  intros offs Hl Hall. split.
  - change wm_level_count with 16%nat. rewrite <- Hl. apply e2c_dec_u64s. exact Hall.
  - unfold rf_len, wm_head_payload. rewrite e2_u64s_length, Hl. reflexivity.
Qed.

(* ---- scan_fsr_sample_id ---- *)
Theorem e2c_first_sample_id : forall ts n w data, e2_i64 ts -> n < 4294967296 -> w < 65536 ->
  fm_dec_i64 (rp_take 8 (wm_fsr_data_payload ts n w data)) = ts.
Proof.
  intros ts n w data Hts Hn Hw. destruct (e2_ph_fields ts n w data Hts Hn Hw) as (F1 & _). cbv zeta in F1.
  unfold wm_fsr_data_payload, fm_dec_i64, fm_dec_u64, rp_take. change (N.to_nat 8) with 8%nat. rewrite firstn_firstn. cbn [Nat.min].
  unfold fm_sub in F1. change (N.to_nat 0) with 0%nat in F1. cbn [skipn] in F1. change (N.to_nat 8) with 8%nat in F1. exact F1.
Qed.

(* ---- handle_signal_def: the fixed fields ---- *)
Lemma e2c_field : forall pre n x post len old off sz, off = rp_len pre -> sz = N.of_nat n -> x < 256 ^ N.of_nat n ->
  rp_len pre + N.of_nat n <= len ->
  rp_field (pre ++ fm_enc n x ++ post) len off sz old = x.
Proof.
  intros pre n x post len old off sz -> -> Hx Hlen. unfold rp_field.
  destruct (N.leb_spec (rp_len pre + N.of_nat n) len) as [_|Hc]; [|lia].
  rewrite rr_skip_eq. unfold rp_len. rewrite Nat2N.id, skipn_app_exact by reflexivity.
  unfold rp_take. rewrite Nat2N.id. rewrite firstn_app_exact by apply fm_enc_length. apply fm_dec_enc. exact Hx.
Qed.

Theorem e2c_signal_fields : forall d old,
  sg_src d < 65536 -> sg_type d < 256 -> sg_dtype d < 4294967296 -> sg_rate d < 4294967296 ->
  sg_spd d < 4294967296 -> sg_sdf d < 4294967296 -> sg_eps d < 4294967296 -> sg_sumdf d < 4294967296 ->
  sg_adf d < 4294967296 -> sg_udf d < 4294967296 ->
  let p := wm_signal_payload d in
  let len := rp_len p in
  fm_signal_fixed + fm_signal_reserved <= len /\
  rp_field p len 0 2 old = sg_src d /\ rp_field p len 2 1 old = sg_type d /\ rp_field p len 4 4 old = sg_dtype d /\
  rp_field p len 8 4 old = sg_rate d /\ rp_field p len 12 4 old = sg_spd d /\ rp_field p len 16 4 old = sg_sdf d /\
  rp_field p len 20 4 old = sg_eps d /\ rp_field p len 24 4 old = sg_sumdf d /\ rp_field p len 28 4 old = sg_adf d /\
  rp_field p len 32 4 old = sg_udf d.
Proof.
  intros d old H1 H2 H3 H4 H5 H6 H7 H8 H9 H10 p len.
  assert (Hlen : fm_signal_fixed + fm_signal_reserved <= len).
  { subst len p. unfold wm_signal_payload, rp_len, fm_enc_u16, fm_enc_u8, fm_enc_u32. rewrite !app_length, !fm_enc_length, repeat_length.
    unfold fm_signal_fixed, fm_signal_reserved. lia. }
  split; [exact Hlen|]. unfold fm_signal_fixed, fm_signal_reserved in Hlen.
  subst p. unfold wm_signal_payload, fm_enc_u16, fm_enc_u8, fm_enc_u32 in *.
  set (tl := repeat 0 (N.to_nat fm_signal_reserved) ++ fm_encode_str (wm_strv (sg_name d)) ++ fm_encode_str (wm_strv (sg_units d))) in *.
  repeat split.
  - apply (e2c_field [] 2 (sg_src d) _ len old); [reflexivity|reflexivity|exact H1|cbn; lia].
  - apply (e2c_field (fm_enc 2 (sg_src d)) 1 (sg_type d) _ len old); [unfold rp_len; rewrite fm_enc_length; reflexivity|reflexivity|exact H2|unfold rp_len; rewrite fm_enc_length; lia].
  - match goal with |- rp_field ?P _ _ _ _ = _ =>
      replace P with ((fm_enc 2 (sg_src d) ++ fm_enc 1 (sg_type d) ++ fm_enc 1 0) ++ fm_enc 4 (sg_dtype d) ++
                      (fm_enc 4 (sg_rate d) ++ fm_enc 4 (sg_spd d) ++ fm_enc 4 (sg_sdf d) ++ fm_enc 4 (sg_eps d) ++ fm_enc 4 (sg_sumdf d) ++
                       fm_enc 4 (sg_adf d) ++ fm_enc 4 (sg_udf d) ++ tl)) by (rewrite <- !app_assoc; reflexivity) end.
    apply (e2c_field _ 4 (sg_dtype d) _ len old); [unfold rp_len; rewrite !app_length, !fm_enc_length; reflexivity|reflexivity|exact H3|unfold rp_len; rewrite !app_length, !fm_enc_length; lia].
  - match goal with |- rp_field ?P _ _ _ _ = _ =>
      replace P with ((fm_enc 2 (sg_src d) ++ fm_enc 1 (sg_type d) ++ fm_enc 1 0 ++ fm_enc 4 (sg_dtype d)) ++ fm_enc 4 (sg_rate d) ++
                      (fm_enc 4 (sg_spd d) ++ fm_enc 4 (sg_sdf d) ++ fm_enc 4 (sg_eps d) ++ fm_enc 4 (sg_sumdf d) ++
                       fm_enc 4 (sg_adf d) ++ fm_enc 4 (sg_udf d) ++ tl)) by (rewrite <- !app_assoc; reflexivity) end.
    apply (e2c_field _ 4 (sg_rate d) _ len old); [unfold rp_len; rewrite !app_length, !fm_enc_length; reflexivity|reflexivity|exact H4|unfold rp_len; rewrite !app_length, !fm_enc_length; lia].
  - match goal with |- rp_field ?P _ _ _ _ = _ =>
      replace P with ((fm_enc 2 (sg_src d) ++ fm_enc 1 (sg_type d) ++ fm_enc 1 0 ++ fm_enc 4 (sg_dtype d) ++ fm_enc 4 (sg_rate d)) ++
                      fm_enc 4 (sg_spd d) ++
                      (fm_enc 4 (sg_sdf d) ++ fm_enc 4 (sg_eps d) ++ fm_enc 4 (sg_sumdf d) ++
                       fm_enc 4 (sg_adf d) ++ fm_enc 4 (sg_udf d) ++ tl)) by (rewrite <- !app_assoc; reflexivity) end.
    apply (e2c_field _ 4 (sg_spd d) _ len old); [unfold rp_len; rewrite !app_length, !fm_enc_length; reflexivity|reflexivity|exact H5|unfold rp_len; rewrite !app_length, !fm_enc_length; lia].
  - match goal with |- rp_field ?P _ _ _ _ = _ =>
      replace P with ((fm_enc 2 (sg_src d) ++ fm_enc 1 (sg_type d) ++ fm_enc 1 0 ++ fm_enc 4 (sg_dtype d) ++ fm_enc 4 (sg_rate d) ++
                       fm_enc 4 (sg_spd d)) ++ fm_enc 4 (sg_sdf d) ++
                      (fm_enc 4 (sg_eps d) ++ fm_enc 4 (sg_sumdf d) ++ fm_enc 4 (sg_adf d) ++ fm_enc 4 (sg_udf d) ++ tl))
        by (rewrite <- !app_assoc; reflexivity) end.
    apply (e2c_field _ 4 (sg_sdf d) _ len old); [unfold rp_len; rewrite !app_length, !fm_enc_length; reflexivity|reflexivity|exact H6|unfold rp_len; rewrite !app_length, !fm_enc_length; lia].
  - match goal with |- rp_field ?P _ _ _ _ = _ =>
      replace P with ((fm_enc 2 (sg_src d) ++ fm_enc 1 (sg_type d) ++ fm_enc 1 0 ++ fm_enc 4 (sg_dtype d) ++ fm_enc 4 (sg_rate d) ++
                       fm_enc 4 (sg_spd d) ++ fm_enc 4 (sg_sdf d)) ++ fm_enc 4 (sg_eps d) ++
                      (fm_enc 4 (sg_sumdf d) ++ fm_enc 4 (sg_adf d) ++ fm_enc 4 (sg_udf d) ++ tl))
        by (rewrite <- !app_assoc; reflexivity) end.
    apply (e2c_field _ 4 (sg_eps d) _ len old); [unfold rp_len; rewrite !app_length, !fm_enc_length; reflexivity|reflexivity|exact H7|unfold rp_len; rewrite !app_length, !fm_enc_length; lia].
  - match goal with |- rp_field ?P _ _ _ _ = _ =>
      replace P with ((fm_enc 2 (sg_src d) ++ fm_enc 1 (sg_type d) ++ fm_enc 1 0 ++ fm_enc 4 (sg_dtype d) ++ fm_enc 4 (sg_rate d) ++
                       fm_enc 4 (sg_spd d) ++ fm_enc 4 (sg_sdf d) ++ fm_enc 4 (sg_eps d)) ++ fm_enc 4 (sg_sumdf d) ++
                      (fm_enc 4 (sg_adf d) ++ fm_enc 4 (sg_udf d) ++ tl))
        by (rewrite <- !app_assoc; reflexivity) end.
    apply (e2c_field _ 4 (sg_sumdf d) _ len old); [unfold rp_len; rewrite !app_length, !fm_enc_length; reflexivity|reflexivity|exact H8|unfold rp_len; rewrite !app_length, !fm_enc_length; lia].
  - match goal with |- rp_field ?P _ _ _ _ = _ =>
      replace P with ((fm_enc 2 (sg_src d) ++ fm_enc 1 (sg_type d) ++ fm_enc 1 0 ++ fm_enc 4 (sg_dtype d) ++ fm_enc 4 (sg_rate d) ++
                       fm_enc 4 (sg_spd d) ++ fm_enc 4 (sg_sdf d) ++ fm_enc 4 (sg_eps d) ++ fm_enc 4 (sg_sumdf d)) ++ fm_enc 4 (sg_adf d) ++
                      (fm_enc 4 (sg_udf d) ++ tl))
        by (rewrite <- !app_assoc; reflexivity) end.
    apply (e2c_field _ 4 (sg_adf d) _ len old); [unfold rp_len; rewrite !app_length, !fm_enc_length; reflexivity|reflexivity|exact H9|unfold rp_len; rewrite !app_length, !fm_enc_length; lia].
  - match goal with |- rp_field ?P _ _ _ _ = _ =>
      replace P with ((fm_enc 2 (sg_src d) ++ fm_enc 1 (sg_type d) ++ fm_enc 1 0 ++ fm_enc 4 (sg_dtype d) ++ fm_enc 4 (sg_rate d) ++
                       fm_enc 4 (sg_spd d) ++ fm_enc 4 (sg_sdf d) ++ fm_enc 4 (sg_eps d) ++ fm_enc 4 (sg_sumdf d) ++ fm_enc 4 (sg_adf d)) ++
                      fm_enc 4 (sg_udf d) ++ tl)
        by (rewrite <- !app_assoc; reflexivity) end.
    apply (e2c_field _ 4 (sg_udf d) _ len old); [unfold rp_len; rewrite !app_length, !fm_enc_length; reflexivity|reflexivity|exact H10|unfold rp_len; rewrite !app_length, !fm_enc_length; lia].
Qed.
