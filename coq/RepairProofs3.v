(* Proofs about the model of REPAIR-ON-OPEN, part 3: concrete files (satisfiability of the hypotheses of the
   C19 theorems; a file on which the open does not terminate) and termination of the position-driven loops.
   Lemma names start with rpp_. *)
From Coq Require Import NArith ZArith List Bool Lia.
From Coq Require Import ZifyBool ZifyN ZifyNat.
From JLS Require Import Generated CrcDefs Spec Format FormatProofs WmRaw WmCore WmFsr WriterModel WmProofs
  RepairRaw RepairModel RepairProofs RepairProofs2 RepairProofsData.
Import ListNotations.
Local Open Scope N_scope.
Ltac Zify.zify_post_hook ::= Z.div_mod_to_equations.

(* ---------------- a properly closed file satisfies the hypothesis of C19 part 1 ---------------- *)
Lemma rpp_closed_file_ends_with_end : rp_ends_with_end rpp_closed_file = true.
Proof. vm_compute. reflexivity. Qed.
Lemma rpp_closed_file_opens : let r := rp_open wm_zero_summ1 wm_zero_summN rpp_closed_file in
  rp_rc r = 0 /\ rp_fault r = 0 /\ rp_did r = false /\ rp_events r = [].
Proof. vm_compute. repeat split. Qed.

(* ---------------- an unclosed file satisfies the hypotheses of C19 part 2 ---------------- *)
Lemma rpp_crash_image_repaired : let r := rp_open wm_zero_summ1 wm_zero_summN rpp_crash_image in
  rp_rc r = 0 /\ rp_fault r = 0 /\ rp_did r = true /\ rp_end_off r = 952 /\
  32 <= rp_end_off r /\ rp_end_off r mod 8 = 0 /\ rp_end_off r + 32 < rp_two63 /\
  length (rp_events r) = 10%nat /\ rp_len (rp_after r) = 984.
Proof. vm_compute. repeat split; intros H; discriminate H. Qed.

(* ---------------- non-termination: a cyclic item_next chain ---------------- *)
Lemma rpp_cyclic_file_fuel : rp_fault (rp_open wm_zero_summ1 wm_zero_summN rpp_cyclic_file) = RpF_fuel.
Proof. vm_compute. reflexivity. Qed.
(* it differs from the closed file in 12 bytes: item_next and the header CRC of the chunk at offset 64 *)
Lemma rpp_cyclic_file_is_closed : rp_ends_with_end rpp_cyclic_file = true.
Proof. vm_compute. reflexivity. Qed.
Theorem rpp_open_fuel_refuted : exists f, rp_fault (rp_open wm_zero_summ1 wm_zero_summN f) = RpF_fuel /\ rp_ends_with_end f = true.
Proof. exists rpp_cyclic_file. split; [exact rpp_cyclic_file_fuel | exact rpp_cyclic_file_is_closed]. Qed.

(* ---------------- positions after a successful chunk read ---------------- *)
Lemma rpp_fread_len : forall s n, rp_flen s = rp_len (rp_file s) ->
  rp_len (snd (rp_bk_fread s n)) = N.min n (rp_flen s - rp_fpos (rp_r s)).
Proof.
  intros s n H. unfold rp_bk_fread. cbn [snd]. unfold rp_file_read.
  destruct (rp_flen s <=? rp_fpos (rp_r s)) eqn:E.
  - apply N.leb_le in E. cbn. lia.
  - apply N.leb_gt in E. rewrite rpp_len_take, rpp_len_skip, <- H. reflexivity.
Qed.

(* jls_raw_rd_header without a cached header, rc = 0: 32 bytes were read at the chunk offset *)
Lemma rpp_rd_header_pos : forall s s', rp_flen s = rp_len (rp_file s) -> rp_r_valid (rp_r s) = false ->
  rp_raw_rd_header s = (s', 0) ->
  rp_offset (rp_r s') = rp_offset (rp_r s) /\ rp_fpos (rp_r s') = rp_offset (rp_r s) + 32 /\
  rp_offset (rp_r s) + 32 <= rp_flen s /\ rp_flen s' = rp_flen s /\ rp_file s' = rp_file s /\ rp_flt s' = rp_flt s /\
  rp_fend (rp_r s') = rp_fend (rp_r s) /\
  fm_ch_crc_ok (rp_file_read (rp_file s) (rp_flen s) (rp_offset (rp_r s)) 32) = true /\
  rp_hdr (rp_r s') = fm_ch_fields (rp_file_read (rp_file s) (rp_flen s) (rp_offset (rp_r s)) 32).
Proof.
  intros s s' Hc Hv H. unfold rp_raw_rd_header in H. rewrite Hv in H.
  destruct (rp_fend (rp_r s) <=? rp_fpos (rp_r s)); [inversion H |].
  set (s1 := if rp_offset (rp_r s) =? rp_fpos (rp_r s) then s else rp_io_set_r s (rp_r_set_fpos (rp_r s) (rp_offset (rp_r s)))) in H.
  assert (A1 : rp_fpos (rp_r s1) = rp_offset (rp_r s) /\ rp_offset (rp_r s1) = rp_offset (rp_r s) /\ rp_file s1 = rp_file s /\
               rp_flen s1 = rp_flen s /\ rp_flt s1 = rp_flt s /\ rp_fend (rp_r s1) = rp_fend (rp_r s)).
  { unfold s1. destruct (rp_offset (rp_r s) =? rp_fpos (rp_r s)) eqn:E; [apply N.eqb_eq in E; rewrite E; repeat split | repeat split]. }
  destruct A1 as (P1 & O1 & F1 & L1 & T1 & E1).
  set (s2 := rp_io_set_r s1 (rp_r_set_offset (rp_r s1) (rp_fpos (rp_r s1)))) in H.
  pose proof (rpp_fread_len s2 SIZEOF_chunk_header) as FL.
  unfold rp_bk_fread in H, FL. cbn [snd] in FL.
  change (rp_file s2) with (rp_file s1) in *. change (rp_flen s2) with (rp_flen s1) in *.
  change (rp_fpos (rp_r s2)) with (rp_fpos (rp_r s1)) in *.
  rewrite F1, L1, P1 in H, FL. specialize (FL Hc).
  set (b := rp_file_read (rp_file s) (rp_flen s) (rp_offset (rp_r s)) SIZEOF_chunk_header) in *.
  destruct (fm_ch_complete b) eqn:Cb; cbn [negb] in H; [| inversion H].
  destruct (fm_ch_crc_ok b) eqn:Kb; cbn [negb] in H; [| inversion H].
  apply rpp_has_true in Cb. unfold SIZEOF_chunk_header in FL.
  inversion H; subst s'. cbn.
  rewrite P1, L1, F1, T1, E1. repeat split; try reflexivity; try lia; try exact Kb.
Qed.

Lemma rpp_rd_header_cur : forall s, rp_cur (fst (rp_raw_rd_header s)) = rp_cur s.
Proof.
  intros s. unfold rp_raw_rd_header.
  destruct (rp_r_valid (rp_r s)); [reflexivity |].
  destruct (rp_fend (rp_r s) <=? rp_fpos (rp_r s)); [reflexivity |].
  unfold rp_bk_fread. cbv zeta.
  match goal with |- context [negb (fm_ch_complete ?b)] => destruct (negb (fm_ch_complete b)); [| destruct (negb (fm_ch_crc_ok b))] end;
    cbn [fst rp_cur rp_io_set_r]; destruct (rp_offset (rp_r s) =? rp_fpos (rp_r s)); reflexivity.
Qed.

(* jls_core_rd_chunk without a cached header, rc = 0: the raw stands behind the chunk, nothing cached *)
Lemma rpp_rd_chunk_pos : forall s s', rp_flen s = rp_len (rp_file s) -> rp_r_valid (rp_r s) = false ->
  rp_rd_chunk s = (s', 0) ->
  rp_r_valid (rp_r s') = false /\ rp_offset (rp_r s) + 32 <= rp_offset (rp_r s') /\ rp_offset (rp_r s') <= rp_flen s /\
  rp_fpos (rp_r s') = rp_offset (rp_r s') /\
  fm_ch_crc_ok (rp_file_read (rp_file s) (rp_flen s) (rp_offset (rp_r s)) 32) = true /\
  wm_ck_hdr (rp_cur s') = fm_ch_fields (rp_file_read (rp_file s) (rp_flen s) (rp_offset (rp_r s)) 32).
Proof.
  intros s s' Hc Hv H. unfold rp_rd_chunk in H.
  set (s0 := rp_io_set_cur s _) in H.
  destruct (rp_raw_rd_header s0) as [s1 rc1] eqn:E1.
  destruct (rc1 =? 0) eqn:R1; cbn [negb] in H; [apply N.eqb_eq in R1; subst rc1 | inversion H; subst; discriminate].
  destruct (rpp_rd_header_pos s0 s1 Hc Hv E1) as (O1 & P1 & B1 & L1 & F1 & T1 & _ & K1 & H1).
  change (rp_offset (rp_r s0)) with (rp_offset (rp_r s)) in *. change (rp_flen s0) with (rp_flen s) in *.
  change (rp_file s0) with (rp_file s) in *.
  set (s2 := rp_io_set_cur s1 _) in H.
  assert (Hc2 : rp_flen s2 = rp_len (rp_file s2)) by (change (rp_flen s2) with (rp_flen s1); change (rp_file s2) with (rp_file s1); congruence).
  unfold rp_raw_rd_payload in H.
  (* the header again when its tag is JLS_TAG_INVALID *)
  set (p := if rp_r_valid (rp_r s2) then (s2, 0) else rp_raw_rd_header s2) in H.
  assert (Q : forall s3 rc3, p = (s3, rc3) -> rc3 = 0 ->
              rp_offset (rp_r s3) = rp_offset (rp_r s) /\ rp_fpos (rp_r s3) = rp_offset (rp_r s) + 32 /\
              rp_flen s3 = rp_flen s /\ rp_file s3 = rp_file s /\ rp_cur s3 = rp_cur s2 /\
              rp_hdr (rp_r s3) = rp_hdr (rp_r s1)).
  { intros s3 rc3 Hp Hz. unfold p in Hp. destruct (rp_r_valid (rp_r s2)) eqn:V2.
    - inversion Hp; subst s3. change (rp_r s2) with (rp_r s1). change (rp_flen s2) with (rp_flen s1). change (rp_file s2) with (rp_file s1).
      repeat split; congruence.
    - subst rc3. destruct (rpp_rd_header_pos s2 s3 Hc2 V2 Hp) as (O3 & P3 & _ & L3 & F3 & _ & _ & _ & H3).
      change (rp_offset (rp_r s2)) with (rp_offset (rp_r s1)) in *. change (rp_flen s2) with (rp_flen s1) in *.
      change (rp_file s2) with (rp_file s1) in *.
      split; [congruence |]. split; [congruence |]. split; [congruence |]. split; [congruence |].
      split.
      + pose proof (rpp_rd_header_cur s2) as CC. rewrite Hp in CC. exact CC.
      + rewrite H3, H1, O1, L1, F1. reflexivity. }
  destruct p as [s3 rc3].
  destruct (rc3 =? 0) eqn:R3; cbn [negb] in H.
  2:{ destruct (rc3 =? JLS_ERROR_TOO_BIG); [destruct (rp_fend (rp_r s3) <? _); inversion H |].
      rewrite R3 in H. inversion H; subst. rewrite N.eqb_refl in R3. discriminate. }
  apply N.eqb_eq in R3. subst rc3. destruct (Q s3 0 eq_refl eq_refl) as (O3 & P3 & L3 & F3 & C3 & H3).
  assert (CUR : wm_ck_hdr (rp_cur s2) = fm_ch_fields (rp_file_read (rp_file s) (rp_flen s) (rp_offset (rp_r s)) 32)) by exact H1.
  assert (Z1 : (0 =? JLS_ERROR_TOO_BIG) = false) by reflexivity.
  assert (Z2 : (JLS_ERROR_IO =? JLS_ERROR_TOO_BIG) = false) by reflexivity.
  assert (Z3 : (JLS_ERROR_IO =? 0) = false) by reflexivity.
  assert (Z4 : (JLS_ERROR_MESSAGE_INTEGRITY =? JLS_ERROR_TOO_BIG) = false) by reflexivity.
  assert (Z5 : (JLS_ERROR_MESSAGE_INTEGRITY =? 0) = false) by reflexivity.
  assert (Z6 : (JLS_ERROR_TOO_BIG =? JLS_ERROR_TOO_BIG) = true) by reflexivity.
  destruct (fm_payload_length (rp_hdr (rp_r s3)) =? 0) eqn:PL.
  { cbv beta iota zeta in H. rewrite Z1, N.eqb_refl in H. inversion H; subst s'.
    cbn. rewrite P3, C3. repeat split; try lia; try assumption. }
  destruct (JLS_BUF_DEFAULT_SIZE <? fm_disk_len (fm_payload_length (rp_hdr (rp_r s3)))).
  { cbv beta iota zeta in H. rewrite Z6 in H. destruct (rp_fend (rp_r s3) <? _); inversion H. }
  set (rd := fm_disk_len (fm_payload_length (rp_hdr (rp_r s3)))) in *.
  set (s4 := if rp_offset (rp_r s3) + SIZEOF_chunk_header =? rp_fpos (rp_r s3) then s3
             else rp_io_set_r s3 (rp_r_set_fpos (rp_r s3) (rp_offset (rp_r s3) + SIZEOF_chunk_header))) in H.
  assert (A4 : rp_fpos (rp_r s4) = rp_offset (rp_r s) + 32 /\ rp_flen s4 = rp_flen s /\ rp_file s4 = rp_file s /\ rp_cur s4 = rp_cur s2).
  { unfold s4. destruct (rp_offset (rp_r s3) + SIZEOF_chunk_header =? rp_fpos (rp_r s3)); cbn; repeat split; try assumption.
    rewrite O3. reflexivity. }
  destruct A4 as (P4 & L4 & F4 & C4).
  pose proof (rpp_fread_len s4 rd) as FL. rewrite L4, F4, P4 in FL. specialize (FL Hc).
  destruct (rp_bk_fread s4 rd) as [s5 b] eqn:E5. cbn [snd] in FL.
  assert (A5 : rp_fpos (rp_r s5) = rp_offset (rp_r s) + 32 + rp_len b /\ rp_cur s5 = rp_cur s2).
  { unfold rp_bk_fread in E5. inversion E5; subst s5. cbn. rewrite P4, C4. split; reflexivity. }
  destruct A5 as (P5 & C5).
  assert (RDPOS : 0 < rd).
  { unfold rd, fm_disk_len. rewrite PL. apply N.eqb_neq in PL. lia. }
  destruct (rp_len b <? rd) eqn:SH.
  { cbv beta iota zeta in H. rewrite Z2, Z3 in H. inversion H. }
  apply N.ltb_ge in SH.
  match type of H with context [negb ?c] => destruct (negb c) end.
  { cbv beta iota zeta in H. rewrite Z4, Z5 in H. inversion H. }
  cbv beta iota zeta in H. rewrite Z1, N.eqb_refl in H. inversion H; subst s'.
  cbn. rewrite P5, C5. repeat split; try lia; try assumption.
Qed.

(* ---------------- the fault code: reads raise RpF_big at most ---------------- *)
Lemma rpp_rd_header_flt : forall s, rp_flt (fst (rp_raw_rd_header s)) = rp_flt s.
Proof.
  intros s. unfold rp_raw_rd_header.
  destruct (rp_r_valid (rp_r s)); [reflexivity |].
  destruct (rp_fend (rp_r s) <=? rp_fpos (rp_r s)); [reflexivity |].
  unfold rp_bk_fread. cbv zeta.
  match goal with |- context [negb (fm_ch_complete ?b)] => destruct (negb (fm_ch_complete b)); [| destruct (negb (fm_ch_crc_ok b))] end;
    cbn [fst rp_flt rp_io_set_r]; destruct (rp_offset (rp_r s) =? rp_fpos (rp_r s)); reflexivity.
Qed.
Lemma rpp_rd_payload_flt : forall s max, rp_flt (fst (rp_raw_rd_payload s max)) = rp_flt s.
Proof.
  intros s max. unfold rp_raw_rd_payload.
  set (p := if rp_r_valid (rp_r s) then (s, 0) else rp_raw_rd_header s).
  assert (P : rp_flt (fst p) = rp_flt s) by (unfold p; destruct (rp_r_valid (rp_r s)); [reflexivity | apply rpp_rd_header_flt]).
  destruct p as [s1 rc1]. cbn [fst] in P.
  destruct (negb (rc1 =? 0)); [exact P |].
  destruct (fm_payload_length (rp_hdr (rp_r s1)) =? 0); [exact P |].
  destruct (max <? fm_disk_len (fm_payload_length (rp_hdr (rp_r s1)))); [exact P |].
  unfold rp_bk_fread. cbv zeta.
  match goal with |- context [if ?a <? ?b then _ else _] => destruct (a <? b) end;
    [| match goal with |- context [negb ?c] => destruct (negb c) end];
    cbn [fst rp_flt rp_io_set_r rp_io_set_buf];
    destruct (rp_offset (rp_r s1) + SIZEOF_chunk_header =? rp_fpos (rp_r s1)); exact P.
Qed.
Lemma rpp_rd_chunk_flt : forall s, rp_flt (fst (rp_rd_chunk s)) = rp_flt s \/ rp_flt (fst (rp_rd_chunk s)) = RpF_big.
Proof.
  intros s. unfold rp_rd_chunk.
  match goal with |- context [rp_raw_rd_header ?x] => pose proof (rpp_rd_header_flt x) as F1; destruct (rp_raw_rd_header x) as [s1 rc1] end.
  cbn [fst] in F1. change (rp_flt (rp_io_set_cur s _)) with (rp_flt s) in F1.
  destruct (negb (rc1 =? 0)); [left; exact F1 |].
  match goal with |- context [rp_raw_rd_payload ?x ?m] => pose proof (rpp_rd_payload_flt x m) as F2; destruct (rp_raw_rd_payload x m) as [s3 rc2] end.
  cbn [fst] in F2. change (rp_flt (rp_io_set_cur s1 _)) with (rp_flt s1) in F2.
  destruct (rc2 =? JLS_ERROR_TOO_BIG).
  - destruct (rp_fend (rp_r s3) <? _); cbn [fst]; [left; congruence |].
    unfold rp_io_fault. cbn [rp_flt]. destruct (rp_flt s3 =? 0); [right; reflexivity | left; congruence].
  - destruct (rc2 =? 0); cbn [fst]; left; cbn [rp_flt rp_io_set_buf]; congruence.
Qed.
Lemma rpp_rd_chunk_nofuel : forall s, rp_flt s <> RpF_fuel -> rp_flt (fst (rp_rd_chunk s)) <> RpF_fuel.
Proof. intros s H. destruct (rpp_rd_chunk_flt s) as [E | E]; rewrite E; [exact H | discriminate]. Qed.

(* ---------------- termination of jls_core_scan_initial: the sequential walk ---------------- *)
Lemma rpp_scan_initial_loop_nofuel : forall fuel c found,
  rp_flen (rp_io_ c) = rp_len (rp_file (rp_io_ c)) -> rp_r_valid (rp_r (rp_io_ c)) = false ->
  (rp_flen (rp_io_ c) - rp_offset (rp_r (rp_io_ c))) / 32 + 2 <= N.of_nat fuel ->
  rp_flt (rp_io_ c) <> RpF_fuel ->
  rp_flt (rp_io_ (fst (rp_scan_initial_loop fuel c found))) <> RpF_fuel.
Proof.
  induction fuel as [| fu IH]; intros c found Hc Hv Hm Hf; [lia |].
  cbn [rp_scan_initial_loop].
  destruct (found =? 7); [exact Hf |].
  pose proof (rpp_rd_chunk_nofuel (rp_io_ c) Hf) as NF.
  pose proof (rpp_rd_chunk_frame (rp_io_ c)) as (FR1 & FR2 & _).
  destruct (rp_rd_chunk (rp_io_ c)) as [s1 rc] eqn:E. cbn [fst] in NF, FR1, FR2.
  destruct (rc =? JLS_ERROR_EMPTY); [exact NF |].
  destruct (rc =? 0) eqn:R; cbn [negb]; [| exact NF].
  apply N.eqb_eq in R. subst rc.
  destruct (rpp_rd_chunk_pos (rp_io_ c) s1 Hc Hv E) as (V1 & O1 & O2 & _).
  assert (G : forall c1, rp_io_ c1 = s1 -> forall fd, rp_flt (rp_io_ (fst (rp_scan_initial_loop fu c1 fd))) <> RpF_fuel).
  { intros c1 H1 fd. apply IH; rewrite H1; try assumption; try congruence.
    rewrite FR2. lia. }
  destruct (fm_tag (wm_ck_hdr (rp_cur s1)) =? JLS_TAG_USER_DATA).
  { apply G. destruct (wm_ck_offset (rp_ud_head (rp_rd_set_io c s1)) =? 0); reflexivity. }
  destruct (fm_tag (wm_ck_hdr (rp_cur s1)) =? JLS_TAG_SOURCE_DEF).
  { apply G. destruct (wm_ck_offset (rp_src_head (rp_rd_set_io c s1)) =? 0); reflexivity. }
  destruct (fm_tag (wm_ck_hdr (rp_cur s1)) =? JLS_TAG_SIGNAL_DEF).
  { apply G. destruct (wm_ck_offset (rp_sig_head (rp_rd_set_io c s1)) =? 0); reflexivity. }
  apply G. reflexivity.
Qed.

Lemma rpp_chunk_seek_flt : forall s o, rp_flt (fst (rp_chunk_seek s o)) = rp_flt s.
Proof.
  intros s o. unfold rp_chunk_seek, rp_bk_fseek. destruct (o =? 0); [reflexivity |].
  destruct (rp_two63 <=? o); reflexivity.
Qed.
Lemma rpp_try_cands_nofuel : forall cs s pos, rp_flt s <> RpF_fuel -> rp_flt (fst (rp_try_cands s pos cs)) <> RpF_fuel.
Proof.
  induction cs as [| c r IH]; intros s pos H; cbn [rp_try_cands]; [exact H |].
  pose proof (rpp_chunk_seek_flt s (pos + c)) as F1. destruct (rp_chunk_seek s (pos + c)) as [s1 rc1]. cbn [fst] in F1.
  destruct (negb (rc1 =? 0)); [cbn [fst]; congruence |].
  assert (H1 : rp_flt s1 <> RpF_fuel) by congruence.
  pose proof (rpp_rd_chunk_nofuel s1 H1) as F2. destruct (rp_rd_chunk s1) as [s2 rc2]. cbn [fst] in F2.
  destruct (rc2 =? 0); [cbn [fst]; rewrite rpp_chunk_seek_flt; exact F2 | apply IH; exact F2].
Qed.

(* ---------------- termination of jls_core_rd_chunk_end: the backward scan ---------------- *)
Lemma rpp_end_loop_nofuel : forall fuel s e l,
  e / 992 + 2 <= N.of_nat fuel -> rp_flt s <> RpF_fuel ->
  rp_flt (fst (rp_end_loop fuel s e l)) <> RpF_fuel.
Proof.
  induction fuel as [| fu IH]; intros s e l Hm Hf; [lia |].
  cbn [rp_end_loop].
  destruct ((0 <? e) && (SIZEOF_chunk_header <? l)); [| exact Hf].
  assert (F1 : rp_flt (fst (rp_bk_fseek s (e - RpEnd_window))) = rp_flt s)
    by (unfold rp_bk_fseek; destruct (rp_two63 <=? e - RpEnd_window); reflexivity).
  destruct (rp_bk_fseek s (e - RpEnd_window)) as [s1 ok]. cbn [fst] in F1.
  assert (F2 : rp_flt (fst (rp_bk_fread s1 (e - (e - RpEnd_window)))) = rp_flt s1) by reflexivity.
  destruct (rp_bk_fread s1 (e - (e - RpEnd_window))) as [s2 d]. cbn [fst] in F2.
  assert (H2 : rp_flt s2 <> RpF_fuel) by congruence.
  destruct (rp_len d <? e - (e - RpEnd_window)); [exact H2 |].
  destruct (e - (e - RpEnd_window) <? SIZEOF_chunk_header).
  { cbn [fst]. unfold rp_io_fault. cbn [rp_flt]. destruct (rp_flt s2 =? 0); [discriminate | exact H2]. }
  match goal with |- context [rp_try_cands ?a ?b ?c] => pose proof (rpp_try_cands_nofuel c a b H2) as F3; destruct (rp_try_cands a b c) as [s3 found] end.
  cbn [fst] in F3. destruct found; [exact F3 |].
  destruct (e - RpEnd_window =? 0) eqn:P0; [exact F3 | apply N.eqb_neq in P0].
  apply IH; [| exact F3]. unfold RpEnd_window, SIZEOF_chunk_header in *. lia.
Qed.
Theorem rpp_rd_chunk_end_nofuel : forall s, rp_flt s <> RpF_fuel -> rp_flt (fst (rp_rd_chunk_end s)) <> RpF_fuel.
Proof. intros s H. unfold rp_rd_chunk_end. apply rpp_end_loop_nofuel; [lia | exact H]. Qed.

Lemma rpp_raw_open_state : forall s a, rp_flt s <> RpF_fuel ->
  rp_r_valid (rp_r (fst (rp_raw_open s a))) = false /\ rp_flt (fst (rp_raw_open s a)) <> RpF_fuel.
Proof.
  intros s a H. unfold rp_raw_open, rp_read_verify, rp_bk_fread. cbv zeta.
  match goal with |- context [rp_fh_ok ?b] => destruct (rp_fh_ok b) end;
  match goal with |- context [rp_len ?b <? ?k] => destruct (rp_len b <? k) end;
  match goal with |- context [if ?c then (_, JLS_ERROR_UNSUPPORTED_FILE) else _] => destruct c end;
  cbn [fst]; (split; [reflexivity |]); cbn; try exact H; destruct (rp_flt s =? 0); try exact H; discriminate.
Qed.

(* jls_core_scan_initial terminates on every file *)
Theorem rpp_scan_initial_nofuel : forall f,
  rp_flt (rp_io_ (fst (rp_scan_initial (rp_rd0 (fst (rp_raw_open (rp_io0 f) false)))))) <> RpF_fuel.
Proof.
  intros f. unfold rp_scan_initial.
  assert (H0 : rp_flt (rp_io0 f) <> RpF_fuel) by discriminate.
  destruct (rpp_raw_open_state (rp_io0 f) false H0) as (V & NF).
  pose proof (rpp_raw_open_file (rp_io0 f) false) as O. cbv zeta in O. destruct O as (O1 & O2 & _).
  set (s1 := fst (rp_raw_open (rp_io0 f) false)) in *.
  apply rpp_scan_initial_loop_nofuel.
  - change (rp_io_ (rp_rd0 s1)) with s1. rewrite O1, O2. reflexivity.
  - exact V.
  - change (rp_io_ (rp_rd0 s1)) with s1. unfold rp_chunk_fuel. change (rp_io_ (rp_rd0 s1)) with s1. unfold SIZEOF_chunk_header. lia.
  - exact NF.
Qed.

(* ---------------- the list walks under the forward-links guard ---------------- *)
Lemma rpp_links_fwd_go_at : forall l o k, rp_links_fwd_go o l = true -> k < rp_len l ->
  let b := rp_take 32 (rp_skip k l) in
  fm_ch_complete b = true -> fm_ch_crc_ok b = true ->
  fm_item_next (fm_ch_fields b) = 0 \/ o + k < fm_item_next (fm_ch_fields b).
Proof.
  induction l as [| x t IH]; intros o k H Hk; [unfold rp_len in Hk; cbn in Hk; lia |].
  cbn [rp_links_fwd_go] in H. apply andb_true_iff in H. destruct H as [H1 H2].
  destruct (N.eq_dec k 0) as [K0 | K0].
  - subst k. cbv zeta. cbn [rp_skip]. intros Cb Kb. unfold SIZEOF_chunk_header in H1. rewrite Cb, Kb in H1. cbn [andb] in H1.
    apply orb_true_iff in H1. destruct H1 as [A | A]; [left; now apply N.eqb_eq | right; apply N.ltb_lt in A; lia].
  - cbv zeta. replace (rp_skip k (x :: t)) with (rp_skip (k - 1) t).
    + intros Cb Kb. destruct (IH (o + 1) (k - 1) H2) as [A | A]; try assumption.
      * unfold rp_len in *. cbn [length] in Hk. lia.
      * left; exact A.
      * right; lia.
    + rewrite !rpp_skip_eq. replace (N.to_nat k) with (S (N.to_nat (k - 1))) by lia. reflexivity.
Qed.
Lemma rpp_links_forward_at : forall f k, rp_links_forward f = true -> k + 32 <= rp_len f ->
  fm_ch_crc_ok (rp_file_read f (rp_len f) k 32) = true ->
  fm_item_next (fm_ch_fields (rp_file_read f (rp_len f) k 32)) = 0 \/ k < fm_item_next (fm_ch_fields (rp_file_read f (rp_len f) k 32)).
Proof.
  intros f k H Hk Kb. rewrite rpp_file_read_eq in * by (auto; lia).
  assert (Cb : fm_ch_complete (rp_take 32 (rp_skip k f)) = true) by (apply rpp_has_true; rewrite rpp_len_take, rpp_len_skip; lia).
  assert (Hk' : k < rp_len f) by lia.
  pose proof (rpp_links_fwd_go_at f 0 k H Hk' Cb Kb) as [A | A]; [left; exact A | right; lia].
Qed.

Lemma rpp_chunk_seek_ok : forall s o s', rp_chunk_seek s o = (s', 0) ->
  rp_offset (rp_r s') = o /\ rp_r_valid (rp_r s') = false /\ rp_file s' = rp_file s /\ rp_flen s' = rp_flen s /\ rp_flt s' = rp_flt s.
Proof.
  intros s o s' H. unfold rp_chunk_seek, rp_bk_fseek in H.
  destruct (o =? 0); [inversion H |]. destruct (rp_two63 <=? o); inversion H; subst s'.
  cbn. repeat split.
Qed.

(* one step of a list walk: a chunk read at the raw's offset, then a seek to its item_next *)
Lemma rpp_walk_step : forall s s1 s2 rc3,
  rp_flen s = rp_len (rp_file s) -> rp_r_valid (rp_r s) = false -> rp_links_forward (rp_file s) = true ->
  rp_rd_chunk s = (s1, 0) -> fm_item_next (wm_ck_hdr (rp_cur s1)) <> 0 ->
  rp_chunk_seek s1 (fm_item_next (wm_ck_hdr (rp_cur s1))) = (s2, rc3) ->
  rp_file s2 = rp_file s /\ rp_flen s2 = rp_flen s /\
  (rc3 = 0 -> rp_r_valid (rp_r s2) = false /\ rp_flen s - rp_offset (rp_r s2) < rp_flen s - rp_offset (rp_r s)).
Proof.
  intros s s1 s2 rc3 Hc Hv Hg E1 Hn E2.
  destruct (rpp_rd_chunk_pos s s1 Hc Hv E1) as (_ & O1 & O2 & _ & K & CUR).
  pose proof (rpp_rd_chunk_frame s) as (F1 & F2 & _). rewrite E1 in F1, F2. cbn [fst] in F1, F2.
  pose proof (rpp_chunk_seek_frame s1 (fm_item_next (wm_ck_hdr (rp_cur s1)))) as (G1 & G2 & _). rewrite E2 in G1, G2. cbn [fst] in G1, G2.
  split; [congruence |]. split; [congruence |].
  intros Z. subst rc3. destruct (rpp_chunk_seek_ok _ _ _ E2) as (A1 & A2 & _).
  split; [exact A2 |]. rewrite A1, CUR.
  rewrite Hc in K, CUR, O2 |- *.
  destruct (rpp_links_forward_at (rp_file s) (rp_offset (rp_r s)) Hg) as [B | B]; try assumption; try lia.
  exfalso. apply Hn. rewrite CUR. exact B.
Qed.

Lemma rpp_scan_sources_loop_nofuel : forall fuel s,
  rp_flen s = rp_len (rp_file s) -> rp_r_valid (rp_r s) = false -> rp_links_forward (rp_file s) = true ->
  rp_flen s - rp_offset (rp_r s) + 2 <= N.of_nat fuel -> rp_flt s <> RpF_fuel ->
  rp_flt (fst (rp_scan_sources_loop fuel s)) <> RpF_fuel.
Proof.
  induction fuel as [| fu IH]; intros s Hc Hv Hg Hm Hf; [lia |].
  cbn [rp_scan_sources_loop].
  pose proof (rpp_rd_chunk_nofuel s Hf) as NF.
  destruct (rp_rd_chunk s) as [s1 rc] eqn:E1. cbn [fst] in NF.
  destruct (rc =? 0) eqn:R; cbn [negb]; [apply N.eqb_eq in R; subst rc | exact NF].
  match goal with |- context [negb (?x =? 0)] => destruct (negb (x =? 0)); [exact NF |] end.
  destruct (fm_item_next (wm_ck_hdr (rp_cur s1)) =? 0) eqn:NX; [exact NF | apply N.eqb_neq in NX].
  destruct (rp_chunk_seek s1 (fm_item_next (wm_ck_hdr (rp_cur s1)))) as [s2 rc3] eqn:E2.
  pose proof (rpp_chunk_seek_flt s1 (fm_item_next (wm_ck_hdr (rp_cur s1)))) as FL. rewrite E2 in FL. cbn [fst] in FL.
  destruct (rpp_walk_step s s1 s2 rc3 Hc Hv Hg E1 NX E2) as (W1 & W2 & W3).
  destruct (rc3 =? 0) eqn:R3; cbn [negb]; [| cbn [fst]; congruence].
  apply N.eqb_eq in R3. destruct (W3 R3) as (V2 & M2).
  apply IH; try congruence. rewrite W2. lia.
Qed.

Lemma rpp_scan_signals_loop_nofuel : forall fuel c,
  rp_flen (rp_io_ c) = rp_len (rp_file (rp_io_ c)) -> rp_r_valid (rp_r (rp_io_ c)) = false ->
  rp_links_forward (rp_file (rp_io_ c)) = true ->
  rp_flen (rp_io_ c) - rp_offset (rp_r (rp_io_ c)) + 2 <= N.of_nat fuel -> rp_flt (rp_io_ c) <> RpF_fuel ->
  rp_flt (rp_io_ (fst (rp_scan_signals_loop fuel c))) <> RpF_fuel.
Proof.
  induction fuel as [| fu IH]; intros c Hc Hv Hg Hm Hf; [lia |].
  cbn [rp_scan_signals_loop].
  pose proof (rpp_rd_chunk_nofuel (rp_io_ c) Hf) as NF.
  destruct (rp_rd_chunk (rp_io_ c)) as [s1 rc] eqn:E1. cbn [fst] in NF.
  destruct (rc =? 0) eqn:R; cbn [negb]; [apply N.eqb_eq in R; subst rc | exact NF].
  set (c2 := if fm_tag (wm_ck_hdr (rp_cur s1)) =? JLS_TAG_SIGNAL_DEF then rp_handle_signal_def (rp_rd_set_io c s1)
             else if N.land (fm_tag (wm_ck_hdr (rp_cur s1))) 7 =? JLS_TRACK_CHUNK_DEF then rp_rd_set_io c s1
             else if N.land (fm_tag (wm_ck_hdr (rp_cur s1))) 7 =? JLS_TRACK_CHUNK_HEAD then rp_handle_track_head (rp_rd_set_io c s1)
             else rp_rd_set_io c s1).
  assert (H2 : rp_io_ c2 = s1).
  { unfold c2. destruct (fm_tag (wm_ck_hdr (rp_cur s1)) =? JLS_TAG_SIGNAL_DEF); [now rewrite rpp_handle_signal_def_io |].
    destruct (N.land (fm_tag (wm_ck_hdr (rp_cur s1))) 7 =? JLS_TRACK_CHUNK_DEF); [reflexivity |].
    destruct (N.land (fm_tag (wm_ck_hdr (rp_cur s1))) 7 =? JLS_TRACK_CHUNK_HEAD); [now rewrite rpp_handle_track_head_io | reflexivity]. }
  destruct (fm_item_next (wm_ck_hdr (rp_cur s1)) =? 0) eqn:NX; [cbn [fst]; rewrite H2; exact NF | apply N.eqb_neq in NX].
  rewrite H2.
  destruct (rp_chunk_seek s1 (fm_item_next (wm_ck_hdr (rp_cur s1)))) as [s2 rc3] eqn:E2.
  pose proof (rpp_chunk_seek_flt s1 (fm_item_next (wm_ck_hdr (rp_cur s1)))) as FL. rewrite E2 in FL. cbn [fst] in FL.
  destruct (rpp_walk_step (rp_io_ c) s1 s2 rc3 Hc Hv Hg E1 NX E2) as (W1 & W2 & W3).
  destruct (rc3 =? 0) eqn:R3; cbn [negb]; [| cbn [fst rp_io_ rp_rd_set_io]; congruence].
  apply N.eqb_eq in R3. destruct (W3 R3) as (V2 & M2).
  apply IH; cbn [rp_io_ rp_rd_set_io]; try congruence. rewrite W2. lia.
Qed.

Lemma rpp_scan_sources_nofuel : forall c,
  rp_flen (rp_io_ c) = rp_len (rp_file (rp_io_ c)) -> rp_links_forward (rp_file (rp_io_ c)) = true ->
  rp_flt (rp_io_ c) <> RpF_fuel -> rp_flt (rp_io_ (fst (rp_scan_sources c))) <> RpF_fuel.
Proof.
  intros c Hc Hg Hf. unfold rp_scan_sources.
  pose proof (rpp_chunk_seek_flt (rp_io_ c) (wm_ck_offset (rp_src_head c))) as FL.
  destruct (rp_chunk_seek (rp_io_ c) (wm_ck_offset (rp_src_head c))) as [s1 rc] eqn:E. cbn [fst] in FL.
  destruct (rc =? 0) eqn:R; cbn [negb]; [apply N.eqb_eq in R; subst rc | cbn [fst rp_io_ rp_rd_set_io]; congruence].
  destruct (rpp_chunk_seek_ok _ _ _ E) as (_ & V & F1 & F2 & _).
  pose proof (rpp_scan_sources_loop_nofuel (rp_chain_fuel s1) s1) as L.
  destruct (rp_scan_sources_loop (rp_chain_fuel s1) s1) as [s2 rc2]. cbn [fst] in L |- *. cbn [rp_io_ rp_rd_set_io].
  apply L; try congruence. unfold rp_chain_fuel. rewrite F2, Hc, F1. unfold rp_len. lia.
Qed.
Lemma rpp_scan_signals_nofuel : forall c,
  rp_flen (rp_io_ c) = rp_len (rp_file (rp_io_ c)) -> rp_links_forward (rp_file (rp_io_ c)) = true ->
  rp_flt (rp_io_ c) <> RpF_fuel -> rp_flt (rp_io_ (fst (rp_scan_signals c))) <> RpF_fuel.
Proof.
  intros c Hc Hg Hf. unfold rp_scan_signals.
  pose proof (rpp_chunk_seek_flt (rp_io_ c) (wm_ck_offset (rp_sig_head c))) as FL.
  destruct (rp_chunk_seek (rp_io_ c) (wm_ck_offset (rp_sig_head c))) as [s1 rc] eqn:E. cbn [fst] in FL.
  destruct (rc =? 0) eqn:R; cbn [negb]; [apply N.eqb_eq in R; subst rc | cbn [fst rp_io_ rp_rd_set_io]; congruence].
  destruct (rpp_chunk_seek_ok _ _ _ E) as (_ & V & F1 & F2 & _).
  apply rpp_scan_signals_loop_nofuel; cbn [rp_io_ rp_rd_set_io]; try congruence.
  unfold rp_chain_fuel. rewrite F2, Hc, F1. unfold rp_len. lia.
Qed.
Lemma rpp_scan_sid_loop_nofuel : forall ids c, rp_flt (rp_io_ c) <> RpF_fuel -> rp_flt (rp_io_ (fst (rp_scan_sid_loop ids c))) <> RpF_fuel.
Proof.
  induction ids as [| id rest IH]; intros c H; cbn [rp_scan_sid_loop]; [exact H |].
  match goal with |- context [if ?b then rp_scan_sid_loop rest c else _] => destruct b; [apply IH; exact H |] end.
  match goal with |- context [if ?b then rp_scan_sid_loop rest c else _] => destruct b; [apply IH; exact H |] end.
  match goal with |- context [rp_chunk_seek ?a ?b] => pose proof (rpp_chunk_seek_flt a b) as F1; destruct (rp_chunk_seek a b) as [s1 rc1] end.
  cbn [fst] in F1.
  destruct (negb (rc1 =? 0)); [cbn [fst rp_io_ rp_rd_set_io]; congruence |].
  assert (H1 : rp_flt s1 <> RpF_fuel) by congruence.
  pose proof (rpp_rd_chunk_nofuel s1 H1) as F2. destruct (rp_rd_chunk s1) as [s2 rc2]. cbn [fst] in F2.
  destruct (negb (rc2 =? 0)); [exact F2 |].
  match goal with |- context [if ?b then rp_scan_sid_loop rest _ else _] => destruct b end; [apply IH; exact F2 |].
  assert (F3 : rp_flt (fst (rp_buf_sub s2 0 8)) <> RpF_fuel).
  { unfold rp_buf_sub. destruct (JLS_BUF_DEFAULT_SIZE <? 0 + 8); cbn [fst]; [| exact F2].
    unfold rp_io_fault. cbn [rp_flt]. destruct (rp_flt s2 =? 0); [discriminate | exact F2]. }
  destruct (rp_buf_sub s2 0 8) as [s3 b]. cbn [fst] in F3. apply IH. rewrite rpp_put_sig_io. exact F3.
Qed.

(* the scan phase of jls_rd_open terminates on every file whose links go forward *)
Theorem rpp_scan_nofuel : forall f, rp_links_forward f = true ->
  match rp_scan f with
  | inl (c, _) => rp_flt (rp_io_ c) <> RpF_fuel
  | inr c => rp_flt (rp_io_ c) <> RpF_fuel
  end.
Proof.
  intros f Hg. unfold rp_scan.
  pose proof (rpp_scan_initial_nofuel f) as N1.
  pose proof (rpp_raw_open_file (rp_io0 f) false) as O. cbv zeta in O.
  assert (H0 : rp_flt (rp_io0 f) <> RpF_fuel) by discriminate.
  destruct (rpp_raw_open_state (rp_io0 f) false H0) as (_ & N0).
  destruct (rp_raw_open (rp_io0 f) false) as [s1 rc]. cbn [fst] in O, N1, N0. simpl in O.
  assert (I0 : rpp_scan_inv f (rp_rd0 s1)) by exact O.
  destruct (negb (rc =? 0) && negb (rc =? JLS_ERROR_TRUNCATED)); [exact N0 |].
  pose proof (rpp_scan_initial_frame (rp_rd0 s1)) as F1.
  destruct (rp_scan_initial (rp_rd0 s1)) as [c1 rc1]. cbn [fst] in F1, N1.
  pose proof (rpp_scan_inv_frame _ _ _ I0 F1) as (A1 & B1 & _).
  destruct (negb (rc1 =? 0)); [exact N1 |].
  assert (Hc1 : rp_flen (rp_io_ c1) = rp_len (rp_file (rp_io_ c1))) by congruence.
  assert (Hg1 : rp_links_forward (rp_file (rp_io_ c1)) = true) by congruence.
  pose proof (rpp_scan_sources_nofuel c1 Hc1 Hg1 N1) as N2.
  pose proof (rpp_scan_sources_frame c1) as F2.
  destruct (rp_scan_sources c1) as [c2 rc2]. cbn [fst] in F2, N2.
  destruct F2 as (A2 & B2 & _).
  destruct (negb (rc2 =? 0)); [exact N2 |].
  assert (Hc2 : rp_flen (rp_io_ c2) = rp_len (rp_file (rp_io_ c2))) by congruence.
  assert (Hg2 : rp_links_forward (rp_file (rp_io_ c2)) = true) by congruence.
  pose proof (rpp_scan_signals_nofuel c2 Hc2 Hg2 N2) as N3.
  destruct (rp_scan_signals c2) as [c3 rc3]. cbn [fst] in N3.
  destruct (negb (rc3 =? 0)); [exact N3 |].
  pose proof (rpp_rd_chunk_end_nofuel (rp_io_ c3) N3) as N4.
  destruct (rp_rd_chunk_end (rp_io_ c3)) as [s4 rc4]. cbn [fst] in N4.
  destruct (negb (rc4 =? 0)); exact N4.
Qed.

Section TERM.
Variable summ1 : N -> list N -> wm_sentry.
Variable summN : bool -> list wm_sentry -> wm_sentry.
(* an open that does not enter the repair branch terminates (the model does not run out of fuel) on every
   file whose links go forward *)
Theorem rpp_open_readonly_terminates : forall f, rp_links_forward f = true ->
  rp_did (rp_open summ1 summN f) = false -> rp_fault (rp_open summ1 summN f) <> RpF_fuel.
Proof.
  intros f Hg. unfold rp_open. pose proof (rpp_scan_nofuel f Hg) as S.
  destruct (rp_scan f) as [[c rc] | c]; [intros _; exact S |].
  destruct (fm_tag (wm_ck_hdr (rp_cur (rp_io_ c))) =? JLS_TAG_END).
  - intros _. unfold rp_finish.
    pose proof (rpp_scan_sid_loop_nofuel (tl rp_signal_ids) (rp_c (rp_w0 c)) S) as F.
    unfold rp_scan_fsr_sample_id. destruct (rp_scan_sid_loop (tl rp_signal_ids) (rp_c (rp_w0 c))) as [c1 rc1]. exact F.
  - rewrite rpp_repair_did. discriminate.
Qed.
End TERM.

(* the guard is satisfiable (the closed file) and it is what the cyclic file violates *)
Lemma rpp_closed_file_links_forward : rp_links_forward rpp_closed_file = true.
Proof. vm_compute. reflexivity. Qed.
Lemma rpp_crash_image_links_forward : rp_links_forward rpp_crash_image = true.
Proof. vm_compute. reflexivity. Qed.
Lemma rpp_cyclic_file_links_not_forward : rp_links_forward rpp_cyclic_file = false.
Proof. vm_compute. reflexivity. Qed.
