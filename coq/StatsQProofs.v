(* Proofs about the rational model of /repo/src/statistics.c (StatsQ.v). *)
From Coq Require Import NArith ZArith QArith Qreduction Qminmax Qfield Lqa Lia List Bool Setoid Morphisms.
From JLS Require Import StatsQ.
Import ListNotations.
Local Open Scope Q_scope.

(* ------------------------------------------------------------------ *)
(* normalising operations are the plain rational operations            *)
Lemma qadd_eq a b : qr_add a b == a + b. Proof. apply Qred_correct. Qed.
Lemma qsub_eq a b : qr_sub a b == a - b. Proof. apply Qred_correct. Qed.
Lemma qmul_eq a b : qr_mul a b == a * b. Proof. apply Qred_correct. Qed.
Lemma qdiv_eq a b : qr_div a b == a / b. Proof. apply Qred_correct. Qed.

Global Instance qadd_proper : Proper (Qeq ==> Qeq ==> Qeq) qr_add.
Proof. intros a a' Ha b b' Hb. rewrite !qadd_eq, Ha, Hb. reflexivity. Qed.
Global Instance qsub_proper : Proper (Qeq ==> Qeq ==> Qeq) qr_sub.
Proof. intros a a' Ha b b' Hb. rewrite !qsub_eq, Ha, Hb. reflexivity. Qed.
Global Instance qmul_proper : Proper (Qeq ==> Qeq ==> Qeq) qr_mul.
Proof. intros a a' Ha b b' Hb. rewrite !qmul_eq, Ha, Hb. reflexivity. Qed.
Global Instance qdiv_proper : Proper (Qeq ==> Qeq ==> Qeq) qr_div.
Proof. intros a a' Ha b b' Hb. rewrite !qdiv_eq, Ha, Hb. reflexivity. Qed.
Global Instance qlt_proper : Proper (Qeq ==> Qeq ==> eq) qr_lt.
Proof. intros a a' Ha b b' Hb. unfold qr_lt. rewrite Ha, Hb. reflexivity. Qed.

Lemma qlt_true a b : qr_lt a b = true <-> a < b.
Proof.
  unfold qr_lt. rewrite Qlt_alt. destruct (a ?= b); split; intro H; congruence.
Qed.
Lemma qlt_false a b : qr_lt a b = false <-> b <= a.
Proof.
  split; intro H.
  - apply Qnot_lt_le. intro L. apply qlt_true in L. congruence.
  - destruct (qr_lt a b) eqn:E; [|reflexivity]. apply qlt_true in E.
    exfalso. apply (Qlt_not_le _ _ E H).
Qed.

Ltac qnorm := rewrite ?qadd_eq, ?qsub_eq, ?qmul_eq, ?qdiv_eq.

(* ------------------------------------------------------------------ *)
(* stats_eq is an equivalence                                          *)
Global Instance stats_eq_equiv : Equivalence stats_eq.
Proof.
  split.
  - intros a. repeat split; reflexivity.
  - intros a b (H1 & H2 & H3 & H4 & H5). repeat split; symmetry; assumption.
  - intros a b c (H1 & H2 & H3 & H4 & H5) (G1 & G2 & G3 & G4 & G5).
    repeat split; etransitivity; eassumption.
Qed.

(* ------------------------------------------------------------------ *)
(* counts                                                              *)
Lemma q_of_N_len (xs : list Q) : q_of_N (N.of_nat (length xs)) = qlen xs.
Proof. unfold q_of_N, qlen. rewrite nat_N_Z. reflexivity. Qed.

Lemma qlen_cons x (xs : list Q) : qlen (x :: xs) == 1 + qlen xs.
Proof.
  unfold qlen. cbn [length]. rewrite Nat2Z.inj_succ, <- Z.add_1_l, inject_Z_plus. reflexivity.
Qed.
Lemma qlen_app (xs ys : list Q) : qlen (xs ++ ys) == qlen xs + qlen ys.
Proof.
  unfold qlen. rewrite app_length, Nat2Z.inj_add, inject_Z_plus. reflexivity.
Qed.
Lemma qlen_nonneg (xs : list Q) : 0 <= qlen xs.
Proof. unfold qlen, Qle; cbn. lia. Qed.
Lemma qlen_pos (xs : list Q) : xs <> [] -> 0 < qlen xs.
Proof. destruct xs; [congruence|]. intros _. unfold qlen, Qlt; cbn [length]. cbn. lia. Qed.
Lemma inject_Z_pos z : (0 < z)%Z -> 0 < inject_Z z.
Proof. intros H. unfold Qlt; cbn. lia. Qed.

Lemma len_lt_app_l (xs ys : list Q) :
  (N.of_nat (length (xs ++ ys)) < stats_two64)%N -> (N.of_nat (length xs) < stats_two64)%N.
Proof. rewrite app_length. lia. Qed.
Lemma len_lt_app_r (xs ys : list Q) :
  (N.of_nat (length (xs ++ ys)) < stats_two64)%N -> (N.of_nat (length ys) < stats_two64)%N.
Proof. rewrite app_length. lia. Qed.

(* ------------------------------------------------------------------ *)
(* sums                                                                *)
Definition sumsq (xs : list Q) : Q := qsum (map (fun x => x * x) xs).

Lemma qsum_nil : qsum [] = 0. Proof. reflexivity. Qed.
Lemma qsum_cons x xs : qsum (x :: xs) = x + qsum xs. Proof. reflexivity. Qed.
Lemma qsum_app xs ys : qsum (xs ++ ys) == qsum xs + qsum ys.
Proof.
  induction xs as [|x xs IH]; cbn [app].
  - rewrite qsum_nil. ring.
  - rewrite !qsum_cons, IH. ring.
Qed.
Lemma sumsq_app xs ys : sumsq (xs ++ ys) == sumsq xs + sumsq ys.
Proof. unfold sumsq. rewrite map_app. apply qsum_app. Qed.

(* sum of squared deviations from ANY centre m *)
Lemma ssq_gen m xs :
  qsum (map (fun x => (x - m) * (x - m)) xs) == sumsq xs - 2 * m * qsum xs + qlen xs * m * m.
Proof.
  induction xs as [|x xs IH].
  - unfold sumsq, qlen. cbn [map length]. rewrite !qsum_nil.
    change (inject_Z (Z.of_nat 0)) with 0. ring.
  - rewrite qlen_cons. unfold sumsq in *. cbn [map]. rewrite !qsum_cons, IH. ring.
Qed.

Lemma ssq_alt xs : ssq_of xs == sumsq xs - qsum xs * qsum xs / qlen xs.
Proof.
  destruct xs as [|x0 r].
  - reflexivity.
  - set (xs := x0 :: r). assert (Hp : 0 < qlen xs) by (apply qlen_pos; discriminate).
    unfold ssq_of. rewrite ssq_gen. unfold mean_of. field. intro E. rewrite E in Hp. inversion Hp.
Qed.

Lemma Qsq_nonneg (a : Q) : 0 <= a * a.
Proof. destruct a as [n d]. unfold Qle; cbn. rewrite Z.mul_1_r. apply Z.square_nonneg. Qed.

Lemma ssq_center_nonneg m xs : 0 <= qsum (map (fun x => (x - m) * (x - m)) xs).
Proof.
  induction xs as [|x xs IH]; cbn [map].
  - apply Qle_refl.
  - rewrite qsum_cons.
    pose proof (Qsq_nonneg (x - m)). lra.
Qed.
Lemma ssq_nonneg xs : 0 <= ssq_of xs.
Proof. apply ssq_center_nonneg. Qed.

(* ------------------------------------------------------------------ *)
(* extrema, generically in the order R (Qle for min, its converse for max) *)
Section Extremum.
  Variable R : Q -> Q -> Prop.
  Hypothesis R_proper : Proper (Qeq ==> Qeq ==> iff) R.
  Hypothesis R_refl : forall a, R a a.
  Hypothesis R_trans : forall a b c, R a b -> R b c -> R a c.
  Hypothesis R_antisym : forall a b, R a b -> R b a -> a == b.

  Definition is_ext (m : Q) (xs : list Q) : Prop :=
    (exists x, In x xs /\ x == m) /\ forall x, In x xs -> R m x.

  Lemma is_ext_single x : is_ext x [x].
  Proof.
    split.
    - exists x. split; [left; reflexivity | reflexivity].
    - intros y [<-|[]]. apply R_refl.
  Qed.
  Lemma is_ext_eq m m' xs : m == m' -> is_ext m xs -> is_ext m' xs.
  Proof.
    intros E ((x & Hin & Hx) & Hall). split.
    - exists x. split; [assumption|]. rewrite Hx. exact E.
    - intros y Hy. rewrite <- E. apply Hall, Hy.
  Qed.
  Lemma is_ext_unique m m' xs : is_ext m xs -> is_ext m' xs -> m == m'.
  Proof.
    intros ((x & Hin & Hx) & Hall) ((x' & Hin' & Hx') & Hall').
    apply R_antisym.
    - rewrite <- Hx'. apply Hall, Hin'.
    - rewrite <- Hx. apply Hall', Hin.
  Qed.
  Lemma is_ext_app m1 m2 m xs ys :
    is_ext m1 xs -> is_ext m2 ys ->
    (m == m1 /\ R m1 m2) \/ (m == m2 /\ R m2 m1) ->
    is_ext m (xs ++ ys).
  Proof.
    intros ((x & Hin & Hx) & Hall) ((y & Hiny & Hy) & Hally) [[E L]|[E L]].
    - split.
      + exists x. split; [apply in_or_app; left; assumption|]. rewrite Hx, E. reflexivity.
      + intros z Hz. rewrite E. apply in_app_or in Hz. destruct Hz as [Hz|Hz].
        * apply Hall, Hz.
        * eapply R_trans; [exact L | apply Hally, Hz].
    - split.
      + exists y. split; [apply in_or_app; right; assumption|]. rewrite Hy, E. reflexivity.
      + intros z Hz. rewrite E. apply in_app_or in Hz. destruct Hz as [Hz|Hz].
        * eapply R_trans; [exact L | apply Hall, Hz].
        * apply Hally, Hz.
  Qed.
  Lemma is_ext_snoc m1 m x xs :
    is_ext m1 xs -> (m == m1 /\ R m1 x) \/ (m == x /\ R x m1) -> is_ext m (xs ++ [x]).
  Proof. intros H1 H. eapply is_ext_app; [exact H1 | apply is_ext_single | exact H]. Qed.

  (* a left fold with a selection function that picks the R-smaller one *)
  Variable sel : Q -> Q -> Q.   (* sel acc v *)
  Hypothesis sel_spec : forall acc v, (sel acc v == acc /\ R acc v) \/ (sel acc v == v /\ R v acc).

  Lemma fold_sel_is_ext r : forall a l, is_ext a l -> is_ext (fold_left sel r a) (l ++ r).
  Proof.
    induction r as [|u r IH]; intros a l Ha; cbn [fold_left].
    - rewrite app_nil_r. exact Ha.
    - replace (l ++ u :: r) with ((l ++ [u]) ++ r) by (rewrite <- app_assoc; reflexivity).
      apply IH. eapply is_ext_snoc; [exact Ha | apply sel_spec].
  Qed.
End Extremum.

Definition Qge' (a b : Q) : Prop := b <= a.
Definition is_min := is_ext Qle.
Definition is_max := is_ext Qge'.

Lemma Qle_proper' : Proper (Qeq ==> Qeq ==> iff) Qle.
Proof. intros a a' Ha b b' Hb. rewrite Ha, Hb. reflexivity. Qed.
Global Instance Qge_proper' : Proper (Qeq ==> Qeq ==> iff) Qge'.
Proof. intros a a' Ha b b' Hb. unfold Qge'. rewrite Ha, Hb. reflexivity. Qed.
Lemma Qge_trans' a b c : Qge' a b -> Qge' b c -> Qge' a c.
Proof. unfold Qge'. intros. eapply Qle_trans; eassumption. Qed.
Lemma Qge_antisym' a b : Qge' a b -> Qge' b a -> a == b.
Proof. unfold Qge'. intros. apply Qle_antisym; assumption. Qed.

(* the C's selections *)
Definition selmin (lo v : Q) : Q := if qr_lt v lo then v else lo.
Definition selmax (hi v : Q) : Q := if qr_lt hi v then v else hi.
Lemma selmin_spec lo v : (selmin lo v == lo /\ lo <= v) \/ (selmin lo v == v /\ v <= lo).
Proof.
  unfold selmin. destruct (qr_lt v lo) eqn:E.
  - right. apply qlt_true in E. split; [reflexivity | apply Qlt_le_weak, E].
  - left. apply qlt_false in E. split; [reflexivity | exact E].
Qed.
Lemma selmax_spec hi v : (selmax hi v == hi /\ Qge' hi v) \/ (selmax hi v == v /\ Qge' v hi).
Proof.
  unfold selmax, Qge'. destruct (qr_lt hi v) eqn:E.
  - right. apply qlt_true in E. split; [reflexivity | apply Qlt_le_weak, E].
  - left. apply qlt_false in E. split; [reflexivity | exact E].
Qed.
Lemma Qmin_sel_spec a v : (Qmin a v == a /\ a <= v) \/ (Qmin a v == v /\ v <= a).
Proof.
  destruct (Q.min_spec a v) as [[L E]|[L E]].
  - left. split; [exact E | apply Qlt_le_weak, L].
  - right. split; [exact E | exact L].
Qed.
Lemma Qmax_sel_spec a v : (Qmax a v == a /\ Qge' a v) \/ (Qmax a v == v /\ Qge' v a).
Proof.
  unfold Qge'. destruct (Q.max_spec a v) as [[L E]|[L E]].
  - right. split; [exact E | apply Qlt_le_weak, L].
  - left. split; [exact E | exact L].
Qed.

Lemma min_of_is_min xs : xs <> [] -> is_min (min_of xs) xs.
Proof.
  destruct xs as [|x r]; [congruence|]. intros _. cbn [min_of].
  change (x :: r) with ([x] ++ r).
  apply (fold_sel_is_ext Qle Qle_proper' Qle_refl Qle_trans Qmin Qmin_sel_spec).
  apply is_ext_single. apply Qle_refl.
Qed.
Lemma max_of_is_max xs : xs <> [] -> is_max (max_of xs) xs.
Proof.
  destruct xs as [|x r]; [congruence|]. intros _. cbn [max_of].
  change (x :: r) with ([x] ++ r).
  apply (fold_sel_is_ext Qge' Qge_proper' (fun a => Qle_refl a) Qge_trans' Qmax Qmax_sel_spec).
  apply is_ext_single. intro a; apply Qle_refl.
Qed.

(* the specification's min/max really are the minimum / maximum *)
Lemma min_of_spec xs : xs <> [] ->
  (exists x, In x xs /\ x == min_of xs) /\ forall x, In x xs -> min_of xs <= x.
Proof. exact (min_of_is_min xs). Qed.
Lemma max_of_spec xs : xs <> [] ->
  (exists x, In x xs /\ x == max_of xs) /\ forall x, In x xs -> x <= max_of xs.
Proof. exact (max_of_is_max xs). Qed.

Lemma is_min_unique m m' xs : is_min m xs -> is_min m' xs -> m == m'.
Proof. apply (is_ext_unique Qle Qle_proper' Qle_antisym). Qed.
Lemma is_max_unique m m' xs : is_max m xs -> is_max m' xs -> m == m'.
Proof. apply (is_ext_unique Qge' Qge_proper' Qge_antisym'). Qed.

(* starting from a sentinel that bounds the first element *)
Lemma fold_selmin_sentinel sentinel xs :
  xs <> [] -> stats_in_range sentinel xs -> is_min (fold_left selmin xs sentinel) xs.
Proof.
  destruct xs as [|x r]; [congruence|]. intros _ Hr. cbn [fold_left].
  change (x :: r) with ([x] ++ r).
  apply (fold_sel_is_ext Qle Qle_proper' Qle_refl Qle_trans selmin selmin_spec).
  inversion Hr as [|? ? [_ Hx] _]; subst.
  apply (is_ext_eq Qle Qle_proper' x); [|apply is_ext_single, Qle_refl].
  destruct (selmin_spec sentinel x) as [[E L]|[E L]].
  - rewrite E. apply Qle_antisym; assumption.
  - symmetry; exact E.
Qed.
Lemma fold_selmax_sentinel sentinel xs :
  xs <> [] -> stats_in_range sentinel xs -> is_max (fold_left selmax xs (- sentinel)) xs.
Proof.
  destruct xs as [|x r]; [congruence|]. intros _ Hr. cbn [fold_left].
  change (x :: r) with ([x] ++ r).
  apply (fold_sel_is_ext Qge' Qge_proper' (fun a => Qle_refl a) Qge_trans' selmax selmax_spec).
  inversion Hr as [|? ? [Hx _] _]; subst.
  apply (is_ext_eq Qge' Qge_proper' x); [|apply is_ext_single; intro a; apply Qle_refl].
  destruct (selmax_spec (- sentinel) x) as [[E L]|[E L]]; unfold Qge' in L.
  - rewrite E. apply Qle_antisym; assumption.
  - symmetry; exact E.
Qed.

(* ------------------------------------------------------------------ *)
(* jls_statistics_compute_f32/_f64                                     *)
Lemma pass1_split xs : forall a b c,
  fold_left stats_pass1_step xs (a, b, c) =
  (fold_left qr_add xs a, fold_left selmin xs b, fold_left selmax xs c).
Proof.
  induction xs as [|x xs IH]; intros a b c; cbn [fold_left].
  - reflexivity.
  - unfold stats_pass1_step at 2. rewrite IH. reflexivity.
Qed.

Lemma fold_qadd xs : forall a, fold_left qr_add xs a == a + qsum xs.
Proof.
  induction xs as [|x xs IH]; intros a; cbn [fold_left].
  - rewrite qsum_nil. ring.
  - rewrite IH, qsum_cons, qadd_eq. ring.
Qed.

Lemma fold_pass2 m xs : forall a,
  fold_left (stats_pass2_step m) xs a == a + qsum (map (fun x => (x - m) * (x - m)) xs).
Proof.
  induction xs as [|x xs IH]; intros a; cbn [fold_left map].
  - rewrite qsum_nil. ring.
  - rewrite IH, qsum_cons. unfold stats_pass2_step. qnorm. ring.
Qed.

Lemma stats_of_nil : stats_of [] = stats_reset.
Proof. reflexivity. Qed.

Lemma compute_gen_spec sentinel xs :
  stats_in_range sentinel xs -> stats_eq (stats_compute_gen sentinel xs) (stats_of xs).
Proof.
  intros Hr. destruct xs as [|x0 r].
  - rewrite stats_of_nil. reflexivity.
  - set (xs := x0 :: r) in *. assert (Hne : xs <> []) by discriminate.
    assert (Hp : 0 < qlen xs) by (apply qlen_pos; exact Hne).
    unfold stats_compute_gen. change (match xs with [] => stats_reset | _ :: _ => ?e end) with e.
    rewrite pass1_split. cbv zeta. rewrite q_of_N_len.
    assert (Hm : qr_div (fold_left qr_add xs 0) (qlen xs) == mean_of xs).
    { rewrite qdiv_eq, fold_qadd. unfold mean_of. field. intro E. rewrite E in Hp. inversion Hp. }
    unfold stats_of, stats_eq; cbn [st_k st_mean st_s st_min st_max].
    split; [reflexivity|]. split; [exact Hm|]. split; [|split].
    + rewrite fold_pass2. unfold ssq_of. rewrite !ssq_gen, Hm. ring.
    + apply (is_min_unique _ _ xs); [apply fold_selmin_sentinel | apply min_of_is_min]; assumption.
    + apply (is_max_unique _ _ xs); [apply fold_selmax_sentinel | apply max_of_is_max]; assumption.
Qed.

Lemma compute_spec xs : stats_in_range dbl_max xs -> stats_eq (stats_compute_f64 xs) (stats_of xs).
Proof. apply compute_gen_spec. Qed.
Lemma compute_f32_spec xs : stats_in_range flt_max xs -> stats_eq (stats_compute_f32 xs) (stats_of xs).
Proof. apply compute_gen_spec. Qed.

(* ------------------------------------------------------------------ *)
(* jls_statistics_add (Welford)                                        *)
Lemma add_step st xs x :
  stats_eq st (stats_of xs) ->
  (N.of_nat (length (xs ++ [x])) < stats_two64)%N ->
  - dbl_max <= x /\ x <= dbl_max ->
  exists st', stats_add st x = Some st' /\ stats_eq st' (stats_of (xs ++ [x])).
Proof.
  intros (Hk & Hmean & Hs & Hmin & Hmax) Hlen [Hlo Hhi].
  cbn [stats_of st_k st_mean st_s st_min st_max] in Hk, Hmean, Hs, Hmin, Hmax.
  assert (Hk' : ((st_k st + 1) mod stats_two64)%N = N.of_nat (length (xs ++ [x]))).
  { rewrite Hk, app_length. cbn [length]. rewrite N.mod_small; [lia|].
    rewrite app_length in Hlen. cbn [length] in Hlen. lia. }
  unfold stats_add. rewrite Hk'.
  destruct (N.eqb_spec (N.of_nat (length (xs ++ [x]))) 0) as [E|_].
  { rewrite app_length in E. cbn [length] in E. lia. }
  eexists. split; [reflexivity|].
  unfold stats_eq, stats_of; cbn [st_k st_mean st_s st_min st_max].
  rewrite q_of_N_len.
  assert (Hn1 : qlen (xs ++ [x]) == qlen xs + 1).
  { rewrite qlen_app. unfold qlen at 2. cbn. reflexivity. }
  assert (Hnn : 0 <= qlen xs) by apply qlen_nonneg.
  assert (Hn1nz : ~ qlen xs + 1 == 0) by (intro E; lra).
  assert (HS : qsum (xs ++ [x]) == qsum xs + x).
  { rewrite qsum_app, qsum_cons, qsum_nil. ring. }
  assert (HQ : sumsq (xs ++ [x]) == sumsq xs + x * x).
  { rewrite sumsq_app. unfold sumsq at 2. cbn [map]. rewrite qsum_cons, qsum_nil. ring. }
  assert (Hmean' : qr_add (st_mean st) (qr_div (qr_sub x (st_mean st)) (qlen (xs ++ [x]))) == mean_of (xs ++ [x])).
  { qnorm. unfold mean_of at 1. rewrite Hmean, HS, Hn1.
    destruct xs as [|x0 r].
    - change (mean_of []) with 0. rewrite qsum_nil. change (qlen []) with 0. field; try (intro; lra).
    - assert (Hp : 0 < qlen (x0 :: r)) by (apply qlen_pos; discriminate).
      unfold mean_of. field. split; [exact Hn1nz | intro E; lra]. }
  split; [reflexivity|]. split; [exact Hmean'|]. split; [|split].
  - rewrite Hmean'. qnorm. rewrite Hs, Hmean. rewrite !ssq_alt, HQ. unfold mean_of. rewrite HS, Hn1.
    destruct xs as [|x0 r].
    + unfold sumsq. cbn [map]. rewrite !qsum_nil. change (qlen []) with 0.
      change (0 * 0 / 0) with 0. change (0 / 0) with 0. field; try (intro; lra).
    + assert (Hp : 0 < qlen (x0 :: r)) by (apply qlen_pos; discriminate).
      field. split; [exact Hn1nz | intro E; lra].
  - (* min *)
    destruct xs as [|x0 r].
    + cbn [app min_of fold_left]. change (min_of []) with dbl_max in Hmin.
      fold (selmin (st_min st) x). destruct (selmin_spec (st_min st) x) as [[E L]|[E L]].
      * rewrite E. rewrite Hmin in *. apply Qle_antisym; assumption.
      * exact E.
    + apply (is_min_unique _ _ ((x0 :: r) ++ [x])); [|apply min_of_is_min; destruct r; discriminate].
      fold (selmin (st_min st) x).
      apply (is_ext_snoc Qle Qle_proper' Qle_refl Qle_trans (min_of (x0 :: r))).
      * apply min_of_is_min. discriminate.
      * rewrite <- Hmin. apply selmin_spec.
  - (* max *)
    destruct xs as [|x0 r].
    + cbn [app max_of fold_left]. change (max_of []) with (- dbl_max) in Hmax.
      fold (selmax (st_max st) x). destruct (selmax_spec (st_max st) x) as [[E L]|[E L]]; unfold Qge' in L.
      * rewrite E. rewrite Hmax in *. apply Qle_antisym; assumption.
      * exact E.
    + apply (is_max_unique _ _ ((x0 :: r) ++ [x])); [|apply max_of_is_max; destruct r; discriminate].
      fold (selmax (st_max st) x).
      apply (is_ext_snoc Qge' Qge_proper' (fun a => Qle_refl a) Qge_trans' (max_of (x0 :: r))).
      * apply max_of_is_max. discriminate.
      * rewrite <- Hmax. apply selmax_spec.
Qed.

Lemma add_list_from st ys : forall xs,
  stats_eq st (stats_of xs) ->
  (N.of_nat (length (xs ++ ys)) < stats_two64)%N ->
  stats_in_range dbl_max ys ->
  exists st', stats_add_list st ys = Some st' /\ stats_eq st' (stats_of (xs ++ ys)).
Proof.
  revert st. induction ys as [|y ys IH]; intros st xs Heq Hlen Hr; cbn [stats_add_list].
  - exists st. rewrite app_nil_r. split; [reflexivity | exact Heq].
  - inversion Hr as [|? ? Hy Hr']; subst.
    replace (xs ++ y :: ys) with ((xs ++ [y]) ++ ys) in * by (rewrite <- app_assoc; reflexivity).
    destruct (add_step st xs y Heq (len_lt_app_l _ _ Hlen) Hy) as (st1 & E1 & H1).
    rewrite E1. apply IH; assumption.
Qed.

Lemma add_fold xs :
  (N.of_nat (length xs) < stats_two64)%N -> stats_in_range dbl_max xs ->
  exists st, stats_add_list stats_reset xs = Some st /\ stats_eq st (stats_of xs).
Proof.
  intros Hlen Hr. apply (add_list_from stats_reset xs []); [rewrite stats_of_nil; reflexivity | exact Hlen | exact Hr].
Qed.

(* ------------------------------------------------------------------ *)
(* jls_statistics_combine                                              *)
Lemma copy_id st : stats_copy st = st.
Proof. destruct st; reflexivity. Qed.

Global Instance combine_proper : Proper (stats_eq ==> stats_eq ==> stats_eq) stats_combine.
Proof.
  intros a a' (Ak & Am & As & Ami & Ama) b b' (Bk & Bm & Bs & Bmi & Bma).
  unfold stats_combine. rewrite <- Ak, <- Bk.
  destruct (((st_k a + st_k b) mod stats_two64 =? 0)%N); [reflexivity|].
  destruct ((st_k a =? 0)%N).
  { rewrite !copy_id. repeat split; assumption. }
  destruct ((st_k b =? 0)%N).
  { rewrite !copy_id. repeat split; assumption. }
  unfold stats_eq; cbn [st_k st_mean st_s st_min st_max].
  split; [reflexivity|].
  split; [rewrite Am, Bm; reflexivity|].
  split; [rewrite Am, Bm, As, Bs; reflexivity|].
  split.
  - rewrite Ami, Bmi. destruct (qr_lt (st_min a') (st_min b')); assumption.
  - rewrite Ama, Bma. destruct (qr_lt (st_max b') (st_max a')); assumption.
Qed.

Lemma combine_app xs ys :
  (N.of_nat (length (xs ++ ys)) < stats_two64)%N ->
  stats_eq (stats_combine (stats_of xs) (stats_of ys)) (stats_of (xs ++ ys)).
Proof.
  intros Hlen.
  assert (Hkt : ((N.of_nat (length xs) + N.of_nat (length ys)) mod stats_two64)%N = N.of_nat (length (xs ++ ys))).
  { rewrite app_length, Nat2N.inj_add. apply N.mod_small. rewrite app_length, Nat2N.inj_add in Hlen. exact Hlen. }
  unfold stats_combine. cbn [stats_of st_k]. rewrite Hkt.
  destruct xs as [|x0 xr].
  { (* a->k == 0 *)
    cbn [app length]. destruct ys as [|y0 yr]; [reflexivity|].
    change ((N.of_nat (length (y0 :: yr)) =? 0)%N) with false.
    change ((N.of_nat 0 =? 0)%N) with true. cbv iota. rewrite copy_id. reflexivity. }
  destruct ys as [|y0 yr].
  { (* b->k == 0 *)
    rewrite app_nil_r.
    change ((N.of_nat (length (x0 :: xr)) =? 0)%N) with false.
    change ((N.of_nat (length (@nil Q)) =? 0)%N) with true. cbv iota. rewrite copy_id. reflexivity. }
  set (xs := x0 :: xr) in *. set (ys := y0 :: yr) in *.
  assert (Hx : xs <> []) by discriminate. assert (Hy : ys <> []) by discriminate.
  assert (Hxy : xs ++ ys <> []) by discriminate.
  replace ((N.of_nat (length (xs ++ ys)) =? 0)%N) with false by (symmetry; apply N.eqb_neq; cbn; lia).
  replace ((N.of_nat (length xs) =? 0)%N) with false by (symmetry; apply N.eqb_neq; cbn; lia).
  replace ((N.of_nat (length ys) =? 0)%N) with false by (symmetry; apply N.eqb_neq; cbn; lia).
  cbv iota.
  unfold stats_eq; cbn [stats_of st_k st_mean st_s st_min st_max].
  rewrite !q_of_N_len.
  pose proof (qlen_pos xs Hx) as Hp1. pose proof (qlen_pos ys Hy) as Hp2.
  assert (Hn : qlen (xs ++ ys) == qlen xs + qlen ys) by apply qlen_app.
  assert (Hnz1 : ~ qlen xs == 0) by (intro E; lra).
  assert (Hnz2 : ~ qlen ys == 0) by (intro E; lra).
  assert (Hnz : ~ qlen xs + qlen ys == 0) by (intro E; lra).
  assert (Hmean :
    qr_add (qr_mul (qr_div (qlen xs) (qlen (xs ++ ys))) (mean_of xs))
         (qr_mul (qr_sub 1 (qr_div (qlen xs) (qlen (xs ++ ys)))) (mean_of ys)) == mean_of (xs ++ ys)).
  { qnorm. unfold mean_of. rewrite qsum_app, Hn. field. repeat split; assumption. }
  split; [reflexivity|]. split; [exact Hmean|]. split; [|split].
  - rewrite Hmean. qnorm. rewrite !ssq_alt, sumsq_app. unfold mean_of. rewrite qsum_app, Hn.
    field. repeat split; assumption.
  - apply (is_min_unique _ _ (xs ++ ys)); [|apply min_of_is_min; exact Hxy].
    apply (is_ext_app Qle Qle_proper' Qle_trans (min_of xs) (min_of ys));
      [apply min_of_is_min; exact Hx | apply min_of_is_min; exact Hy |].
    destruct (qr_lt (min_of xs) (min_of ys)) eqn:E.
    + left. apply qlt_true in E. split; [reflexivity | apply Qlt_le_weak, E].
    + right. apply qlt_false in E. split; [reflexivity | exact E].
  - apply (is_max_unique _ _ (xs ++ ys)); [|apply max_of_is_max; exact Hxy].
    apply (is_ext_app Qge' Qge_proper' Qge_trans' (max_of xs) (max_of ys));
      [apply max_of_is_max; exact Hx | apply max_of_is_max; exact Hy |].
    unfold Qge'. destruct (qr_lt (max_of ys) (max_of xs)) eqn:E.
    + left. apply qlt_true in E. split; [reflexivity | apply Qlt_le_weak, E].
    + right. apply qlt_false in E. split; [reflexivity | exact E].
Qed.

(* operands given up to stats_eq (e.g. produced by add or compute) *)
Lemma combine_app_eq a b xs ys :
  stats_eq a (stats_of xs) -> stats_eq b (stats_of ys) ->
  (N.of_nat (length (xs ++ ys)) < stats_two64)%N ->
  stats_eq (stats_combine a b) (stats_of (xs ++ ys)).
Proof. intros Ha Hb Hlen. rewrite Ha, Hb. apply combine_app, Hlen. Qed.

Lemma combine_assoc xs ys zs :
  (N.of_nat (length (xs ++ ys ++ zs)) < stats_two64)%N ->
  stats_eq (stats_combine (stats_combine (stats_of xs) (stats_of ys)) (stats_of zs))
           (stats_combine (stats_of xs) (stats_combine (stats_of ys) (stats_of zs))).
Proof.
  intros Hlen.
  assert (H1 : (N.of_nat (length (xs ++ ys)) < stats_two64)%N).
  { rewrite app_assoc in Hlen. apply (len_lt_app_l _ _ Hlen). }
  assert (H2 : (N.of_nat (length (ys ++ zs)) < stats_two64)%N) by apply (len_lt_app_r _ _ Hlen).
  rewrite (combine_app xs ys H1), (combine_app ys zs H2).
  rewrite combine_app by (rewrite <- app_assoc; exact Hlen).
  rewrite combine_app by exact Hlen.
  rewrite app_assoc. reflexivity.
Qed.

Lemma in_range_app_l b (xs ys : list Q) : stats_in_range b (xs ++ ys) -> stats_in_range b xs.
Proof. unfold stats_in_range. rewrite Forall_app. tauto. Qed.
Lemma in_range_app_r b (xs ys : list Q) : stats_in_range b (xs ++ ys) -> stats_in_range b ys.
Proof. unfold stats_in_range. rewrite Forall_app. tauto. Qed.

Lemma grouping_spec g :
  (N.of_nat (length (grouping_flatten g)) < stats_two64)%N -> stats_in_range dbl_max (grouping_flatten g) ->
  stats_eq (eval_grouping g) (stats_of (grouping_flatten g)).
Proof.
  induction g as [xs|l IHl r IHr]; cbn [grouping_flatten eval_grouping]; intros Hlen Hr.
  - apply compute_spec, Hr.
  - apply combine_app_eq; [apply IHl | apply IHr | exact Hlen].
    + apply (len_lt_app_l _ _ Hlen). + apply (in_range_app_l _ _ _ Hr).
    + apply (len_lt_app_r _ _ Hlen). + apply (in_range_app_r _ _ _ Hr).
Qed.

Lemma grouping_agree g1 g2 :
  grouping_flatten g1 = grouping_flatten g2 ->
  (N.of_nat (length (grouping_flatten g1)) < stats_two64)%N -> stats_in_range dbl_max (grouping_flatten g1) ->
  stats_eq (eval_grouping g1) (eval_grouping g2).
Proof.
  intros E Hlen Hr. rewrite (grouping_spec g1 Hlen Hr).
  rewrite E in *. symmetry. apply grouping_spec; assumption.
Qed.

(* the three routes agree *)
Lemma three_routes xs ys :
  (N.of_nat (length (xs ++ ys)) < stats_two64)%N -> stats_in_range dbl_max (xs ++ ys) ->
  exists st_add,
    stats_add_list stats_reset (xs ++ ys) = Some st_add /\
    stats_eq st_add (stats_compute_f64 (xs ++ ys)) /\
    stats_eq (stats_combine (stats_compute_f64 xs) (stats_compute_f64 ys)) (stats_compute_f64 (xs ++ ys)).
Proof.
  intros Hlen Hr. destruct (add_fold _ Hlen Hr) as (st & E & H).
  exists st. split; [exact E|]. split.
  - rewrite H. symmetry. apply compute_spec, Hr.
  - rewrite (compute_spec (xs ++ ys) Hr).
    apply combine_app_eq; [apply compute_spec, (in_range_app_l _ _ _ Hr) | apply compute_spec, (in_range_app_r _ _ _ Hr) | exact Hlen].
Qed.

(* ------------------------------------------------------------------ *)
(* variance, ordering of min / mean / max                              *)
Lemma var_nonneg_gen st : 0 <= st_s st -> 0 <= stats_var st.
Proof.
  intros Hs. unfold stats_var. destruct (N.leb_spec (st_k st) 1) as [_|Hk]; [apply Qle_refl|].
  rewrite qdiv_eq. apply Qle_shift_div_l.
  - apply inject_Z_pos. lia.
  - rewrite Qmult_0_l. exact Hs.
Qed.
Lemma var_nonneg xs : 0 <= stats_var (stats_of xs).
Proof. apply var_nonneg_gen. apply ssq_nonneg. Qed.

(* the value jls_statistics_var returns is the sample variance *)
Lemma var_spec xs : (2 <= length xs)%nat ->
  stats_var (stats_of xs) == ssq_of xs / (qlen xs - 1).
Proof.
  intros H2. unfold stats_var. cbn [stats_of st_k st_s].
  destruct (N.leb_spec (N.of_nat (length xs)) 1) as [H|_]; [lia|].
  rewrite qdiv_eq. unfold q_of_N, qlen.
  replace (Z.of_N (N.of_nat (length xs) - 1)) with (Z.of_nat (length xs) - 1)%Z by lia.
  unfold Zminus. rewrite inject_Z_plus. reflexivity.
Qed.

Lemma qsum_lower c xs : (forall x, In x xs -> c <= x) -> qlen xs * c <= qsum xs.
Proof.
  induction xs as [|x xs IH]; intros H.
  - change (qlen []) with 0. rewrite qsum_nil. lra.
  - rewrite qlen_cons, qsum_cons.
    assert (c <= x) by (apply H; left; reflexivity).
    assert (qlen xs * c <= qsum xs) by (apply IH; intros y Hy; apply H; right; exact Hy).
    setoid_replace ((1 + qlen xs) * c) with (c + qlen xs * c) by ring. lra.
Qed.
Lemma qsum_upper c xs : (forall x, In x xs -> x <= c) -> qsum xs <= qlen xs * c.
Proof.
  induction xs as [|x xs IH]; intros H.
  - change (qlen []) with 0. rewrite qsum_nil. lra.
  - rewrite qlen_cons, qsum_cons.
    assert (x <= c) by (apply H; left; reflexivity).
    assert (qsum xs <= qlen xs * c) by (apply IH; intros y Hy; apply H; right; exact Hy).
    setoid_replace ((1 + qlen xs) * c) with (c + qlen xs * c) by ring. lra.
Qed.

Lemma min_le_mean_le_max xs : xs <> [] ->
  min_of xs <= mean_of xs /\ mean_of xs <= max_of xs.
Proof.
  intros Hne. pose proof (qlen_pos xs Hne) as Hp.
  destruct (min_of_spec xs Hne) as [_ Hmin]. destruct (max_of_spec xs Hne) as [_ Hmax].
  unfold mean_of. split.
  - apply Qle_shift_div_l; [exact Hp|]. rewrite Qmult_comm. apply qsum_lower, Hmin.
  - apply Qle_shift_div_r; [exact Hp|]. rewrite Qmult_comm. apply qsum_upper, Hmax.
Qed.

(* ------------------------------------------------------------------ *)
(* combining with an empty accumulator                                 *)
Lemma combine_reset_l st :
  (st_k st < stats_two64)%N -> (st_k st = 0%N -> st = stats_reset) -> stats_combine stats_reset st = st.
Proof.
  intros Hk H0. unfold stats_combine. cbn [stats_reset st_k]. rewrite N.add_0_l, N.mod_small by exact Hk.
  destruct (N.eqb_spec (st_k st) 0) as [E|E].
  - symmetry. apply H0, E.
  - change ((0 =? 0)%N) with true. cbv iota. apply copy_id.
Qed.
Lemma combine_reset_r st :
  (st_k st < stats_two64)%N -> (st_k st = 0%N -> st = stats_reset) -> stats_combine st stats_reset = st.
Proof.
  intros Hk H0. unfold stats_combine. cbn [stats_reset st_k]. rewrite N.add_0_r, N.mod_small by exact Hk.
  destruct (N.eqb_spec (st_k st) 0) as [E|E].
  - symmetry. apply H0, E.
  - change ((0 =? 0)%N) with true. cbv iota. apply copy_id.
Qed.
Lemma stats_of_wf xs : st_k (stats_of xs) = 0%N -> stats_of xs = stats_reset.
Proof. destruct xs; [reflexivity|]. cbn [stats_of st_k length]. lia. Qed.
Lemma combine_reset_l_stats xs :
  (N.of_nat (length xs) < stats_two64)%N -> stats_combine stats_reset (stats_of xs) = stats_of xs.
Proof. intros H. apply combine_reset_l; [exact H | apply stats_of_wf]. Qed.
Lemma combine_reset_r_stats xs :
  (N.of_nat (length xs) < stats_two64)%N -> stats_combine (stats_of xs) stats_reset = stats_of xs.
Proof. intros H. apply combine_reset_r; [exact H | apply stats_of_wf]. Qed.

(* ------------------------------------------------------------------ *)
(* the pointer version: tgt may alias a and/or b                       *)
Lemma upd_same st p v : sstore_upd st p v p = v.
Proof. unfold sstore_upd. rewrite N.eqb_refl. reflexivity. Qed.
Lemma upd_other st p v q : q <> p -> sstore_upd st p v q = st q.
Proof. intros H. unfold sstore_upd. apply N.eqb_neq in H. rewrite H. reflexivity. Qed.

Ltac store_simpl :=
  unfold stats_reset_store, stats_copy_store, sstore_set_k, sstore_set_mean, sstore_set_s, sstore_set_min, sstore_set_max;
  repeat (rewrite ?upd_same; cbn [st_k st_mean st_s st_min st_max]).

(* what ends up in *tgt, for EVERY aliasing of tgt, a, b *)
Lemma combine_store_tgt st tgt a b :
  stats_combine_store st tgt a b tgt = stats_combine (st a) (st b).
Proof.
  unfold stats_combine_store, stats_combine.
  destruct (((st_k (st a) + st_k (st b)) mod stats_two64 =? 0)%N).
  { store_simpl. reflexivity. }
  destruct ((st_k (st a) =? 0)%N).
  { store_simpl. unfold stats_copy.
    destruct (N.eq_dec b tgt) as [->|Hb].
    - store_simpl. reflexivity.
    - store_simpl. rewrite !(upd_other _ _ _ b Hb). reflexivity. }
  destruct ((st_k (st b) =? 0)%N).
  { store_simpl. unfold stats_copy.
    destruct (N.eq_dec a tgt) as [->|Ha].
    - store_simpl. reflexivity.
    - store_simpl. rewrite !(upd_other _ _ _ a Ha). reflexivity. }
  cbv zeta. store_simpl.
  destruct (N.eq_dec a tgt) as [->|Ha]; destruct (N.eq_dec b tgt) as [->|Hb]; store_simpl;
    rewrite ?(upd_other _ _ _ a Ha), ?(upd_other _ _ _ b Hb); store_simpl; reflexivity.
Qed.

(* nothing else is written *)
Lemma combine_store_frame st tgt a b q :
  q <> tgt -> stats_combine_store st tgt a b q = st q.
Proof.
  intros Hq. unfold stats_combine_store.
  destruct (((st_k (st a) + st_k (st b)) mod stats_two64 =? 0)%N);
    [|destruct ((st_k (st a) =? 0)%N); [|destruct ((st_k (st b) =? 0)%N)]];
    cbv zeta; unfold stats_reset_store, stats_copy_store, sstore_set_k, sstore_set_mean, sstore_set_s, sstore_set_min, sstore_set_max;
    rewrite !(upd_other _ _ _ q Hq); reflexivity.
Qed.

Lemma combine_store_any_alias st tgt a b :
  stats_combine_store st tgt a b tgt = stats_combine (st a) (st b) /\
  forall q, q <> tgt -> stats_combine_store st tgt a b q = st q.
Proof. split; [apply combine_store_tgt | intros q; apply combine_store_frame]. Qed.

Lemma combine_inplace_tgt_a st a b t :
  t <> a -> t <> b ->
  stats_combine_store st a a b a = stats_combine_store st t a b t /\
  (b <> a -> stats_combine_store st a a b b = st b).
Proof.
  intros _ _. rewrite !combine_store_tgt. split; [reflexivity|].
  intros Hb. apply combine_store_frame, Hb.
Qed.
Lemma combine_inplace_tgt_b st a b t :
  t <> a -> t <> b ->
  stats_combine_store st b a b b = stats_combine_store st t a b t /\
  (a <> b -> stats_combine_store st b a b a = st a).
Proof.
  intros _ _. rewrite !combine_store_tgt. split; [reflexivity|].
  intros Ha. apply combine_store_frame, Ha.
Qed.

(* ------------------------------------------------------------------ *)
(* the hypotheses are needed                                           *)
(* a "sample" above DBL_MAX (no finite double is) is not seen by the min test
   that starts from the DBL_MAX sentinel *)
Lemma add_out_of_range_refuted :
  exists xs st, stats_add_list stats_reset xs = Some st /\ ~ stats_eq st (stats_of xs).
Proof.
  exists [dbl_max + dbl_max]. eexists. split; [reflexivity|].
  intros (_ & _ & _ & Hmin & _). revert Hmin. cbn [st_min stats_of min_of fold_left].
  unfold qr_lt. vm_compute. discriminate.
Qed.
(* 2^63 + 2^63 samples: the uint64 count wraps to 0 and combine takes the kt == 0 branch *)
Lemma combine_count_wrap_refuted :
  exists a b, st_k a <> 0%N /\ st_k b <> 0%N /\ stats_combine a b = stats_reset.
Proof.
  exists (mkStats (2 ^ 63) 1 0 1 1), (mkStats (2 ^ 63) 1 0 1 1).
  split; [discriminate|]. split; [discriminate|]. reflexivity.
Qed.
(* ++k wrapping to 0: division by (double) 0 *)
Lemma add_count_wrap :
  forall st x, st_k st = (stats_two64 - 1)%N -> stats_add st x = None.
Proof. intros st x H. unfold stats_add. rewrite H. reflexivity. Qed.
