(* Private extraction file of the `bits` slice (copy of Extract.v naming only the bits
   entry points).  At integration add to coq/Extract.v:
     BitCopyModel.bc_bit_copy BitCopyModel.bc_bit_copy_slow BitCopyModel.bc_bits
     FsrPackModel.fp_run FsrPackModel.fp_close FsrPackModel.fp_rd_blocks FsrPackModel.fp_fill_buf
     FsrPackModel.FP_FILL_BYTES
   and `BitCopyModel FsrPackModel` to the Require line. *)
From Coq Require Import Extraction ExtrOcamlBasic NArith ZArith List.
From JLS Require Import Generated Spec BitCopyModel FsrPackModel.
Extraction Language OCaml.
Extraction "jlsmodel_ext"
  BinInt.Z.add BinInt.Z.opp BinInt.Z.of_N BinInt.Z.to_N BinNat.N.add BinNat.N.mul BinNat.N.of_nat BinNat.N.to_nat
  BitCopyModel.bc_bit_copy BitCopyModel.bc_bit_copy_slow BitCopyModel.bc_bits
  FsrPackModel.fp_run FsrPackModel.fp_close FsrPackModel.fp_rd_blocks FsrPackModel.fp_fill_buf
  FsrPackModel.FP_FILL_BYTES Spec.pack Spec.fill_value.
