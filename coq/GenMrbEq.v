(* Equivalence of the GENERATED model of /repo/src/msg_ring_buffer.c (GenMrb.v, written by
   tools/c2gallina.py from the current source) and the hand-written model MrbModel.v.

   Representation.  The generated functions work on the C struct (record jls_mrb_s, field buf a
   pointer) and on the byte array mem'.  A hand state s : mrb is the struct `g_of s` (buf = pointer to
   offset 0 of the array, buf_size = size s) and the array `buf s`.  `Conc s` says that s is a state a
   C program can be in: the array has size s bytes, every field fits uint32_t, every byte is < 256.

   Results.  Ok (s', None) of the hand model is a NULL return, Ok (s', Some p) the pointer buf + p;
   faults map constructor by constructor (`flt`).

   The function of the CURRENT source is MrbModel.alloc_fixed (first test
   `(buf_size < 8) || (size > buf_size - 8)`), not MrbModel.alloc (the function before the fix
   b529ee7): gen_alloc_ne_alloc_old below is a concrete input where they differ. *)
From Coq Require Import NArith ZArith List Bool Lia.
From Coq Require Import ZifyBool ZifyN ZifyNat.
From JLS Require Import GenLib GenMrb MrbModel MrbProofs.
Import ListNotations.
Local Open Scope N_scope.
Ltac Zify.zify_post_hook ::= Z.div_mod_to_equations.

(* ---- representation ---- *)
Definition g_of (s : mrb) : jls_mrb_s := mk_jls_mrb_s (head s) (tail s) (count s) (Ptr 0) (size s).
Definition s_of (g : jls_mrb_s) (m : list N) : mrb :=
  mk_mrb g.(jls_mrb_s_head) g.(jls_mrb_s_tail) g.(jls_mrb_s_count) m g.(jls_mrb_s_buf_size).

Definition bytes (m : list N) : Prop := Forall (fun b => b < 256) m.
Definition Conc (s : mrb) : Prop :=
  MrbModel.len (buf s) = size s /\ size s < 4294967296 /\
  head s < 4294967296 /\ tail s < 4294967296 /\ count s < 4294967296 /\ bytes (buf s).

Definition flt (f : MrbModel.fault) : cfault :=
  match f with MrbModel.OOB_write i => GenLib.OOB_write i | MrbModel.OOB_read i => GenLib.OOB_read i end.
Definition optr (o : option N) : ptr := match o with Some p => Ptr p | None => Null end.

(* result of jls_mrb_alloc *)
Definition r_alloc (r : MrbModel.res (mrb * option N)) : GenLib.res (ptr * jls_mrb_s * list N) :=
  match r with
  | MrbModel.Ok (s', o) => GenLib.Ok (optr o, g_of s', buf s')
  | MrbModel.Fault f => GenLib.Fault (flt f)
  end.
(* result of jls_mrb_peek / jls_mrb_pop: pointer, struct, *size, array.  *size is 0 with NULL *)
Definition r_msg (r : MrbModel.res (mrb * option (N * N))) : GenLib.res (ptr * jls_mrb_s * N * list N) :=
  match r with
  | MrbModel.Ok (s', Some (p, z)) => GenLib.Ok (Ptr p, g_of s', z, buf s')
  | MrbModel.Ok (s', None) => GenLib.Ok (Null, g_of s', 0, buf s')
  | MrbModel.Fault f => GenLib.Fault (flt f)
  end.

Lemma g_of_s_of : forall g m, g.(jls_mrb_s_buf) = Ptr 0 -> g_of (s_of g m) = g.
Proof. intros [h t c b z] m Hb. cbn in *. subst b. reflexivity. Qed.
Lemma s_of_g_of : forall s, s_of (g_of s) (buf s) = s.
Proof. intros [h t c b z]. reflexivity. Qed.

(* ---- the two libraries agree on the primitives ---- *)
Lemma len_eq : forall m, GenLib.len m = MrbModel.len m.
Proof. reflexivity. Qed.
Lemma upd_eq : forall m i v, GenLib.upd m i v = MrbModel.upd m i v.
Proof. induction m as [|x r IH]; intros [|i] v; cbn; try reflexivity; now rewrite IH. Qed.

Lemma store8_set : forall m B o i v, MrbModel.len m = B ->
  store8 m (Ptr o) i v =
  match MrbModel.set m B (o + i) v with MrbModel.Ok m' => GenLib.Ok m' | MrbModel.Fault f => GenLib.Fault (flt f) end.
Proof.
  intros m B o i v HB. unfold store8, MrbModel.set. rewrite len_eq, HB.
  destruct (o + i <? B); [now rewrite upd_eq | reflexivity].
Qed.
Lemma load8_get : forall m B o i, MrbModel.len m = B ->
  load8 m (Ptr o) i =
  match MrbModel.get m B (o + i) with MrbModel.Ok x => GenLib.Ok x | MrbModel.Fault f => GenLib.Fault (flt f) end.
Proof.
  intros m B o i HB. unfold load8, MrbModel.get, byte_at. rewrite len_eq, HB.
  destruct (o + i <? B); reflexivity.
Qed.

Lemma u8_land255 : forall x, u8 (N.land x 255) = N.land x 255.
Proof. intros x. unfold u8. rewrite land255. now rewrite N.mod_mod. Qed.

Lemma set_len : forall m B i v m', MrbModel.set m B i v = MrbModel.Ok m' -> MrbModel.len m' = MrbModel.len m.
Proof. intros m B i v m' H. unfold MrbModel.set in H. destruct (i <? B); inversion H. apply len_upd. Qed.

(* add_sz *)
Lemma add_sz_eq : forall m B o v, MrbModel.len m = B ->
  GenMrb.add_sz m (Ptr o) v =
  match MrbModel.add_sz m B o v with
  | MrbModel.Ok m' => GenLib.Ok (Ptr (o + 4), m')
  | MrbModel.Fault f => GenLib.Fault (flt f)
  end.
Proof.
  intros m B o v HB. unfold GenMrb.add_sz, MrbModel.add_sz.
  rewrite !u8_land255.
  rewrite (store8_set m B o 0 _ HB). rewrite N.add_0_r.
  destruct (MrbModel.set m B o (N.land v 255)) as [m1|f] eqn:E1; [|reflexivity].
  cbn [GenLib.bind MrbModel.bind].
  pose proof (set_len _ _ _ _ _ E1) as L1. rewrite HB in L1.
  rewrite (store8_set m1 B o 1 _ L1).
  destruct (MrbModel.set m1 B (o + 1) _) as [m2|f] eqn:E2; [|reflexivity].
  cbn [GenLib.bind MrbModel.bind].
  pose proof (set_len _ _ _ _ _ E2) as L2. rewrite L1 in L2.
  rewrite (store8_set m2 B o 2 _ L2).
  destruct (MrbModel.set m2 B (o + 2) _) as [m3|f] eqn:E3; [|reflexivity].
  cbn [GenLib.bind MrbModel.bind].
  pose proof (set_len _ _ _ _ _ E3) as L3. rewrite L2 in L3.
  rewrite (store8_set m3 B o 3 _ L3).
  destruct (MrbModel.set m3 B (o + 3) _) as [m4|f] eqn:E4; reflexivity.
Qed.

Lemma add_sz_len : forall m B o v m', MrbModel.add_sz m B o v = MrbModel.Ok m' -> MrbModel.len m' = MrbModel.len m.
Proof.
  intros m B o v m' H. unfold MrbModel.add_sz in H.
  destruct (MrbModel.set m B o _) as [m1|] eqn:E1; [|discriminate]. cbn [MrbModel.bind] in H.
  destruct (MrbModel.set m1 B (o + 1) _) as [m2|] eqn:E2; [|discriminate]. cbn [MrbModel.bind] in H.
  destruct (MrbModel.set m2 B (o + 2) _) as [m3|] eqn:E3; [|discriminate]. cbn [MrbModel.bind] in H.
  rewrite (set_len _ _ _ _ _ H), (set_len _ _ _ _ _ E3), (set_len _ _ _ _ _ E2). exact (set_len _ _ _ _ _ E1).
Qed.

(* get_sz: the C shifts in uint32_t; on bytes (< 256) nothing is cut off *)
Lemma byte_at_lt : forall m i, bytes m -> byte_at m i < 256.
Proof.
  intros m i Hb. unfold byte_at.
  destruct (Nat.lt_ge_cases (N.to_nat i) (length m)) as [Hl|Hl].
  - unfold bytes in Hb. rewrite Forall_forall in Hb. apply Hb. now apply nth_In.
  - rewrite nth_overflow by exact Hl. reflexivity.
Qed.
Lemma shl_small : forall b k, b < 256 -> k <= 24 -> GenLib.u32 (N.shiftl b k) = N.shiftl b k.
Proof.
  intros b k Hb Hk. unfold GenLib.u32. apply N.mod_small. rewrite N.shiftl_mul_pow2.
  assert (2 ^ k <= 2 ^ 24) by (apply N.pow_le_mono_r; lia).
  change (2 ^ 24) with 16777216 in H. nia.
Qed.
Lemma get_sz_eq : forall m B o, MrbModel.len m = B -> bytes m ->
  GenMrb.get_sz m (Ptr o) =
  match MrbModel.get_sz m B o with MrbModel.Ok z => GenLib.Ok z | MrbModel.Fault f => GenLib.Fault (flt f) end.
Proof.
  intros m B o HB Hb. unfold GenMrb.get_sz, MrbModel.get_sz.
  rewrite (load8_get m B o 0 HB), N.add_0_r.
  destruct (MrbModel.get m B o) as [b0|f] eqn:E0; [|reflexivity]. cbn [GenLib.bind MrbModel.bind].
  rewrite (load8_get m B o 1 HB).
  destruct (MrbModel.get m B (o + 1)) as [b1|f] eqn:E1; [|reflexivity]. cbn [GenLib.bind MrbModel.bind].
  rewrite (load8_get m B o 2 HB).
  destruct (MrbModel.get m B (o + 2)) as [b2|f] eqn:E2; [|reflexivity]. cbn [GenLib.bind MrbModel.bind].
  rewrite (load8_get m B o 3 HB).
  destruct (MrbModel.get m B (o + 3)) as [b3|f] eqn:E3; [|reflexivity]. cbn [GenLib.bind MrbModel.bind].
  assert (G : forall i x, MrbModel.get m B i = MrbModel.Ok x -> x < 256).
  { intros i x H. unfold MrbModel.get in H. destruct (i <? B); inversion H. now apply byte_at_lt. }
  rewrite (shl_small b1 8), (shl_small b2 16), (shl_small b3 24); eauto; lia.
Qed.

(* ---- jls_mrb_alloc ---- *)
Lemma cast_u32_diff0 : forall a, cast_u 32 (Z.of_N a - Z.of_N 0) = GenLib.u32 a.
Proof.
  intros a. unfold cast_u, GenLib.u32. rewrite Z.sub_0_r.
  change (2 ^ 32)%Z with (Z.of_N 4294967296). now rewrite <- N2Z.inj_mod, N2Z.id.
Qed.

Lemma u32_eq : forall x, GenLib.u32 x = MrbModel.u32 x.
Proof. reflexivity. Qed.

Lemma first_test : forall B sz, B < 4294967296 ->
  (B <? 8) || (GenLib.u32 (B + 4294967296 - 8) <? sz) = (B <? 8) || (B - 8 <? sz).
Proof.
  intros B sz HB. destruct (B <? 8) eqn:E; [reflexivity|]. cbn [orb].
  assert (GenLib.u32 (B + 4294967296 - 8) = B - 8) as ->; [unfold GenLib.u32; lia | reflexivity].
Qed.

Lemma end_idx_eq : forall h sz t,
  GenLib.u32 (GenLib.u32 (GenLib.u32 (GenLib.u32 (h + 4) + sz) + 4) + cast_u 32 (if negb (t =? 0) then 0%Z else 1%Z))
  = MrbModel.u32 (h + 4 + sz + 4 + (if t =? 0 then 1 else 0)).
Proof.
  intros h sz t. destruct (t =? 0); cbn [negb].
  - change (cast_u 32 1%Z) with 1. unfold GenLib.u32, MrbModel.u32. lia.
  - change (cast_u 32 0%Z) with 0. unfold GenLib.u32, MrbModel.u32. lia.
Qed.
Lemma hs5_eq : forall h sz, GenLib.u32 (GenLib.u32 (h + sz) + 5) = MrbModel.u32 (h + sz + 5).
Proof. intros. unfold GenLib.u32, MrbModel.u32. lia. Qed.

(* a leaf of jls_mrb_alloc: the common tail (k'1 of the generated function) is MrbModel.place *)
Ltac place_leaf HL :=
  unfold place; rewrite (add_sz_eq _ _ _ _ HL);
  match goal with |- context [MrbModel.add_sz ?a ?b ?c ?d] =>
    destruct (MrbModel.add_sz a b c d) as [?m|?f]; [|reflexivity] end;
  cbn [GenLib.bind MrbModel.bind g_of jls_mrb_s_buf jls_mrb_s_buf_size ptr_diff
       set_jls_mrb_s_head set_jls_mrb_s_tail set_jls_mrb_s_count];
  rewrite cast_u32_diff0; reflexivity.

Theorem gen_alloc_eq : forall s sz,
  MrbModel.len (buf s) = size s -> size s < 4294967296 ->
  jls_mrb_alloc (buf s) (g_of s) sz = r_alloc (alloc_fixed s sz).
Proof.
  intros s sz HL HB. unfold jls_mrb_alloc, alloc_fixed.
  cbn [g_of jls_mrb_s_head jls_mrb_s_tail jls_mrb_s_count jls_mrb_s_buf jls_mrb_s_buf_size ptr_add GenLib.bind].
  rewrite N.add_0_l. cbv zeta.
  rewrite (first_test (size s) sz HB).
  destruct ((size s <? 8) || (size s - 8 <? sz)) eqn:E1; [reflexivity|].
  unfold alloc_body. cbv zeta.
  rewrite end_idx_eq, hs5_eq.
  destruct (tail s <=? head s) eqn:E2.
  - destruct (MrbModel.u32 (head s + 4 + sz + 4 + (if tail s =? 0 then 1 else 0)) <? size s) eqn:E3.
    + place_leaf HL.
    + change (GenLib.u32 (sz + 5)) with (MrbModel.u32 (sz + 5)).
      destruct (MrbModel.u32 (sz + 5) <? tail s) eqn:E4.
      * rewrite (add_sz_eq _ _ _ _ HL).
        destruct (MrbModel.add_sz (buf s) (size s) (head s) 4294967295) as [m1|f] eqn:E5; [|reflexivity].
        cbn [GenLib.bind MrbModel.bind].
        pose proof (add_sz_len _ _ _ _ _ E5) as L1. rewrite HL in L1.
        clear E5. place_leaf L1.
      * destruct (head s =? tail s) eqn:E6; [|reflexivity].
        cbn [g_of jls_mrb_s_buf jls_mrb_s_buf_size set_jls_mrb_s_head set_jls_mrb_s_tail].
        assert (HL' : MrbModel.len (buf s) = size (mk_mrb 0 0 (count s) (buf s) (size s))) by exact HL.
        place_leaf HL'.
  - destruct (MrbModel.u32 (head s + sz + 5) <? tail s) eqn:E3; [|reflexivity].
    place_leaf HL.
Qed.

(* the function before the fix b529ee7 (MrbModel.alloc) is NOT the generated one: capacity 100,
   98 bytes on the empty queue (the input of C08_refuted_oob) *)
Theorem gen_alloc_ne_alloc_old :
  jls_mrb_alloc (buf (init 100)) (g_of (init 100)) 98 <> r_alloc (alloc (init 100) 98) /\
  jls_mrb_alloc (buf (init 100)) (g_of (init 100)) 98 = GenLib.Ok (Null, g_of (init 100), buf (init 100)).
Proof. split; [vm_compute; discriminate | vm_compute; reflexivity]. Qed.

(* ---- jls_mrb_clear / jls_mrb_init ---- *)
Lemma memset_all : forall m B, MrbModel.len m = B ->
  memset8 m (Ptr 0) 0 B = GenLib.Ok (repeat 0 (N.to_nat B)).
Proof.
  intros m B HB. unfold memset8. rewrite N.add_0_l, len_eq, HB, N.leb_refl.
  change (cast_u 8 0) with 0. cbn [N.to_nat firstn app].
  rewrite skipn_all2; [now rewrite app_nil_r|]. unfold MrbModel.len in HB. lia.
Qed.

Theorem gen_clear_eq : forall s, MrbModel.len (buf s) = size s ->
  jls_mrb_clear (buf s) (g_of s) = GenLib.Ok (g_of (clear s), buf (clear s)).
Proof.
  intros s HL. unfold jls_mrb_clear. cbv zeta.
  cbn [g_of jls_mrb_s_buf jls_mrb_s_buf_size set_jls_mrb_s_head set_jls_mrb_s_tail set_jls_mrb_s_count].
  rewrite (memset_all _ _ HL). reflexivity.
Qed.

Theorem gen_init_eq : forall (m : list N) (g0 : jls_mrb_s) (B : N), MrbModel.len m = B ->
  jls_mrb_init m g0 (Ptr 0) B = GenLib.Ok (g_of (init B), buf (init B)).
Proof.
  intros m g0 B HB. unfold jls_mrb_init, jls_mrb_clear. cbv zeta.
  cbn [jls_mrb_s_buf jls_mrb_s_buf_size set_jls_mrb_s_head set_jls_mrb_s_tail set_jls_mrb_s_count
       set_jls_mrb_s_buf set_jls_mrb_s_buf_size].
  rewrite (memset_all _ _ HB). reflexivity.
Qed.

(* ---- jls_mrb_peek ---- *)
Theorem gen_peek_eq : forall s z0,
  MrbModel.len (buf s) = size s -> bytes (buf s) ->
  jls_mrb_peek (buf s) (g_of s) z0 = r_msg (peek s).
Proof.
  intros s z0 HL Hb. unfold jls_mrb_peek, peek. cbv zeta.
  cbn [g_of jls_mrb_s_head jls_mrb_s_tail jls_mrb_s_buf ptr_add GenLib.bind]. rewrite N.add_0_l.
  destruct (tail s =? head s) eqn:E1; [reflexivity|].
  rewrite (get_sz_eq _ _ _ HL Hb).
  destruct (MrbModel.get_sz (buf s) (size s) (tail s)) as [z|f]; [|reflexivity].
  cbn [GenLib.bind MrbModel.bind].
  destruct (2147483648 <=? z) eqn:E2; [|reflexivity].
  destruct (tail s <? head s) eqn:E3.
  - rewrite (gen_clear_eq s HL). reflexivity.
  - cbn [g_of jls_mrb_s_head jls_mrb_s_tail jls_mrb_s_count jls_mrb_s_buf jls_mrb_s_buf_size set_jls_mrb_s_tail].
    destruct (0 =? head s) eqn:E4; [reflexivity|].
    rewrite (get_sz_eq _ _ _ HL Hb).
    destruct (MrbModel.get_sz (buf s) (size s) 0) as [z'|f]; reflexivity.
Qed.

(* ---- jls_mrb_pop ---- *)
Lemma bytes_repeat0 : forall n, bytes (repeat 0 n).
Proof. intros n. unfold bytes. apply Forall_forall. intros x Hx. apply repeat_spec in Hx. subst x. reflexivity. Qed.

Lemma pop_tail_eq : forall t B, B < 4294967296 -> t < 4294967296 -> B <= t ->
  GenLib.u32 (t + 4294967296 - B) = MrbModel.u32 (t - B).
Proof. intros. unfold GenLib.u32, MrbModel.u32. lia. Qed.
Lemma pop_count_eq : forall c, c < 4294967296 -> c <> 0 -> GenLib.u32 (c + 4294967296 - 1) = c - 1.
Proof. intros. unfold GenLib.u32. lia. Qed.

Theorem gen_pop_eq : forall s z0, Conc s ->
  jls_mrb_pop (buf s) (g_of s) z0 = r_msg (pop s).
Proof.
  intros s z0 (HL & HB & _ & _ & HC & Hb). unfold jls_mrb_pop, pop.
  rewrite (gen_peek_eq s z0 HL Hb).
  assert (P : match peek s with
              | MrbModel.Ok (s1, _) => size s1 = size s /\ count s1 < 4294967296
              | MrbModel.Fault _ => True end).
  { unfold peek. destruct (tail s =? head s); [now split|].
    destruct (MrbModel.get_sz (buf s) (size s) (tail s)) as [z|f]; [|exact I]. cbn [MrbModel.bind].
    destruct (2147483648 <=? z); [|now split].
    destruct (tail s <? head s); [split; [reflexivity | cbn; lia]|].
    destruct (0 =? head s); [now split|].
    destruct (MrbModel.get_sz (buf s) (size s) 0); [now split | exact I]. }
  destruct (peek s) as [[s1 [[p z]|]]|f]; cbn [r_msg GenLib.bind MrbModel.bind]; [| reflexivity | reflexivity].
  destruct P as [P1 P2]. cbv zeta.
  cbn [ptr_is_null negb g_of jls_mrb_s_tail jls_mrb_s_count jls_mrb_s_buf_size set_jls_mrb_s_count set_jls_mrb_s_tail].
  change (GenLib.u32 (tail s1 + GenLib.u32 (4 + z))) with (MrbModel.u32 (tail s1 + MrbModel.u32 (4 + z))).
  set (t1 := MrbModel.u32 (tail s1 + MrbModel.u32 (4 + z))).
  assert (Ht1 : t1 < 4294967296) by (unfold t1, MrbModel.u32; lia).
  destruct (size s1 <=? t1) eqn:E1.
  - rewrite (pop_tail_eq t1 (size s1)) by lia.
    destruct (count s1 =? 0) eqn:E2; cbn [negb].
    + apply N.eqb_eq in E2. unfold g_of, set_jls_mrb_s_tail.
      cbn [jls_mrb_s_head jls_mrb_s_tail jls_mrb_s_count jls_mrb_s_buf jls_mrb_s_buf_size
           MrbModel.head MrbModel.tail MrbModel.count MrbModel.buf MrbModel.size].
      rewrite E2. reflexivity.
    + rewrite (pop_count_eq (count s1)) by lia. reflexivity.
  - destruct (count s1 =? 0) eqn:E2; cbn [negb].
    + apply N.eqb_eq in E2. unfold g_of, set_jls_mrb_s_tail.
      cbn [jls_mrb_s_head jls_mrb_s_tail jls_mrb_s_count jls_mrb_s_buf jls_mrb_s_buf_size
           MrbModel.head MrbModel.tail MrbModel.count MrbModel.buf MrbModel.size].
      rewrite E2. reflexivity.
    + rewrite (pop_count_eq (count s1)) by lia. reflexivity.
Qed.

(* ================= the C08 theorems on the generated functions ================= *)
Lemma MInv_conc : forall s, MInv s ->
  MrbModel.len (buf s) = size s /\ size s < 4294967296 /\ count s < 4294967296.
Proof.
  intros s (es & HR & HC). pose proof (Rep_count_bound s es HR) as HN.
  destruct HR as (HL & HB & _). repeat split; [exact HL | lia | lia].
Qed.

Lemma gen_alloc_refines : forall (self : jls_mrb_s) (mem : list N) (sz p : N) (self' : jls_mrb_s) (mem' d : list N),
  self.(jls_mrb_s_buf) = Ptr 0 -> MInv (s_of self mem) ->
  jls_mrb_alloc mem self sz = GenLib.Ok (Ptr p, self', mem') -> MrbModel.len d = sz ->
  self'.(jls_mrb_s_buf) = Ptr 0 /\ self'.(jls_mrb_s_buf_size) = self.(jls_mrb_s_buf_size) /\
  MInv (s_of self' mem') /\
  (exists s'', fill (s_of self' mem') p d = MrbModel.Ok s'' /\ MInv s'' /\ size s'' = self.(jls_mrb_s_buf_size) /\
               mrb_abs s'' = mrb_abs (s_of self mem) ++ [d]) /\
  4 <= p /\ p + sz <= self.(jls_mrb_s_buf_size) /\ disjoint_from_live (s_of self mem) p sz.
Proof.
  intros self mem sz p self' mem' d Hbuf HI EA Hd.
  destruct (MInv_conc _ HI) as (HL & HB & _).
  pose proof (gen_alloc_eq (s_of self mem) sz HL HB) as EQ.
  rewrite (g_of_s_of self mem Hbuf) in EQ. change (buf (s_of self mem)) with mem in EQ. rewrite EA in EQ.
  destruct (alloc_fixed (s_of self mem) sz) as [[s' [q|]]|f] eqn:EF; cbn [r_alloc optr] in EQ; try discriminate.
  inversion EQ; subst q self' mem'. clear EQ.
  rewrite (s_of_g_of s').
  destruct (alloc_fixed_refines _ _ _ _ _ HI EF Hd) as (I1 & S1 & F & P4 & PE & DJ).
  split; [reflexivity|]. split; [exact S1|]. split; [exact I1|]. split; [exact F|]. auto.
Qed.

(* a NULL return leaves the struct and the array as they were and means "does not fit" *)
Lemma gen_alloc_null_sound : forall (self : jls_mrb_s) (mem : list N) (sz : N) (self' : jls_mrb_s) (mem' : list N),
  self.(jls_mrb_s_buf) = Ptr 0 -> MInv (s_of self mem) ->
  jls_mrb_alloc mem self sz = GenLib.Ok (Null, self', mem') ->
  self' = self /\ mem' = mem /\ ~ fits (s_of self mem) sz.
Proof.
  intros self mem sz self' mem' Hbuf HI EA.
  destruct (MInv_conc _ HI) as (HL & HB & _).
  pose proof (gen_alloc_eq (s_of self mem) sz HL HB) as EQ.
  rewrite (g_of_s_of self mem Hbuf) in EQ. change (buf (s_of self mem)) with mem in EQ. rewrite EA in EQ.
  destruct (alloc_fixed (s_of self mem) sz) as [[s' [q|]]|f] eqn:EF; cbn [r_alloc optr] in EQ; try discriminate.
  inversion EQ; subst self' mem'. clear EQ.
  destruct (alloc_fixed_fail_sound _ _ _ HI EF) as (-> & NF).
  split; [now apply g_of_s_of|]. split; [reflexivity | exact NF].
Qed.

Lemma alloc_fixed_ok : forall s sz, MInv s -> exists r, alloc_fixed s sz = MrbModel.Ok r.
Proof.
  intros s sz HI. destruct (al_ok_fixed (size s) sz s eq_refl) as [(HU & E)|E]; rewrite E; [|eexists; reflexivity].
  destruct HI as (es & HR & HC).
  destruct (alloc_body_spec s es sz HR HU) as [(E' & _) | (s1 & p1 & E' & _)]; rewrite E'; eexists; reflexivity.
Qed.

(* jls_mrb_alloc never faults (never touches a byte outside the array) in a state of the invariant *)
Lemma gen_alloc_no_fault : forall (self : jls_mrb_s) (mem : list N) (sz : N),
  self.(jls_mrb_s_buf) = Ptr 0 -> MInv (s_of self mem) ->
  exists r, jls_mrb_alloc mem self sz = GenLib.Ok r.
Proof.
  intros self mem sz Hbuf HI.
  destruct (MInv_conc _ HI) as (HL & HB & _).
  pose proof (gen_alloc_eq (s_of self mem) sz HL HB) as EQ.
  rewrite (g_of_s_of self mem Hbuf) in EQ. change (buf (s_of self mem)) with mem in EQ.
  destruct (alloc_fixed_ok (s_of self mem) sz HI) as (r & ER).
  rewrite ER in EQ. destruct r as [s' o]. rewrite EQ. eexists. reflexivity.
Qed.

Lemma gen_peek_refines : forall (self : jls_mrb_s) (mem : list N) (z0 : N),
  self.(jls_mrb_s_buf) = Ptr 0 -> MInv (s_of self mem) -> bytes mem ->
  match mrb_abs (s_of self mem) with
  | [] => jls_mrb_peek mem self z0 = GenLib.Ok (Null, self, 0, mem)
  | m :: _ => exists self' mem' p,
      jls_mrb_peek mem self z0 = GenLib.Ok (Ptr p, self', MrbModel.len m, mem') /\
      self'.(jls_mrb_s_buf) = Ptr 0 /\ self'.(jls_mrb_s_buf_size) = self.(jls_mrb_s_buf_size) /\
      read_msg (s_of self' mem') p (MrbModel.len m) = MrbModel.Ok m /\
      MInv (s_of self' mem') /\ mrb_abs (s_of self' mem') = mrb_abs (s_of self mem)
  end.
Proof.
  intros self mem z0 Hbuf HI Hb.
  destruct (MInv_conc _ HI) as (HL & HB & HC).
  pose proof (gen_peek_eq (s_of self mem) z0 HL Hb) as EQ.
  rewrite (g_of_s_of self mem Hbuf) in EQ. change (buf (s_of self mem)) with mem in EQ.
  pose proof (peek_refines _ HI) as HP.
  destruct (mrb_abs (s_of self mem)) as [|m q].
  - rewrite HP in EQ. cbn [r_msg] in EQ. rewrite (g_of_s_of self mem Hbuf) in EQ. exact EQ.
  - destruct HP as (s' & p & EP & ER & I1 & S1 & A1). rewrite EP in EQ. cbn [r_msg] in EQ.
    exists (g_of s'), (buf s'), p. rewrite (s_of_g_of s'). repeat split; auto.
Qed.

Lemma gen_pop_refines : forall (self : jls_mrb_s) (mem : list N) (z0 : N),
  self.(jls_mrb_s_buf) = Ptr 0 -> MInv (s_of self mem) -> bytes mem ->
  match mrb_abs (s_of self mem) with
  | [] => jls_mrb_pop mem self z0 = GenLib.Ok (Null, self, 0, mem)
  | m :: q => exists self' mem' p,
      jls_mrb_pop mem self z0 = GenLib.Ok (Ptr p, self', MrbModel.len m, mem') /\
      self'.(jls_mrb_s_buf) = Ptr 0 /\ self'.(jls_mrb_s_buf_size) = self.(jls_mrb_s_buf_size) /\
      read_msg (s_of self' mem') p (MrbModel.len m) = MrbModel.Ok m /\
      MInv (s_of self' mem') /\ mrb_abs (s_of self' mem') = q
  end.
Proof.
  intros self mem z0 Hbuf HI Hb.
  destruct (MInv_conc _ HI) as (HL & HB & HC).
  assert (CC : Conc (s_of self mem)).
  { destruct HI as (es & HR & HN). pose proof HR as HR'. destruct HR' as (_ & HB2 & HS).
    unfold Conc. repeat split; auto.
    - destruct HS as [(H1 & H2 & _) | (m & es1 & es2 & H1 & H2 & H3 & _)]; lia.
    - destruct HS as [(H1 & H2 & _) | (m & es1 & es2 & H1 & H2 & H3 & _)]; lia. }
  pose proof (gen_pop_eq (s_of self mem) z0 CC) as EQ.
  rewrite (g_of_s_of self mem Hbuf) in EQ. change (buf (s_of self mem)) with mem in EQ.
  pose proof (pop_refines _ HI) as HP.
  destruct (mrb_abs (s_of self mem)) as [|m q].
  - rewrite HP in EQ. cbn [r_msg] in EQ. rewrite (g_of_s_of self mem Hbuf) in EQ. exact EQ.
  - destruct HP as (s' & p & EP & ER & I1 & S1 & A1). rewrite EP in EQ. cbn [r_msg] in EQ.
    exists (g_of s'), (buf s'), p. rewrite (s_of_g_of s'). repeat split; auto.
Qed.

(* ================= whole programs on the generated functions ================= *)
(* The driver of MrbModel.run, with the three C functions replaced by the generated ones.  The
   message copy in and out of the region handed out (memcpy by the caller) stays MrbModel.fill /
   MrbModel.read_msg: checked byte accesses on the same array. *)
Definition lift {A : Type} (r : MrbModel.res A) : GenLib.res A :=
  match r with MrbModel.Ok a => GenLib.Ok a | MrbModel.Fault f => GenLib.Fault (flt f) end.

Definition gen_deliver (r : GenLib.res (ptr * jls_mrb_s * N * list N)) : GenLib.res (jls_mrb_s * list N * out) :=
  GenLib.bind r (fun '(p, g1, z, m1) =>
    match p with
    | Null => GenLib.Ok (g1, m1, RMsg None)
    | Ptr q => GenLib.bind (lift (read_msg (s_of g1 m1) q z)) (fun d => GenLib.Ok (g1, m1, RMsg (Some (q, d))))
    end).

Definition gen_step (g : jls_mrb_s) (m : list N) (o : op) : GenLib.res (jls_mrb_s * list N * out) :=
  match o with
  | OAlloc d =>
    GenLib.bind (jls_mrb_alloc m g (MrbModel.len d)) (fun '(p, g1, m1) =>
      match p with
      | Null => GenLib.Ok (g1, m1, RAlloc None)
      | Ptr q => GenLib.bind (lift (fill (s_of g1 m1) q d)) (fun s2 => GenLib.Ok (g1, buf s2, RAlloc (Some q)))
      end)
  | OPeek => gen_deliver (jls_mrb_peek m g 0)
  | OPop => gen_deliver (jls_mrb_pop m g 0)
  end.

Fixpoint gen_run (g : jls_mrb_s) (m : list N) (ops : list op) : GenLib.res (jls_mrb_s * list N * list out) :=
  match ops with
  | [] => GenLib.Ok (g, m, [])
  | o :: r => GenLib.bind (gen_step g m o) (fun '(g1, m1, x) =>
              GenLib.bind (gen_run g1 m1 r) (fun '(g2, m2, xs) => GenLib.Ok (g2, m2, x :: xs)))
  end.

Definition op_bytes (o : op) : Prop := match o with OAlloc d => bytes d | _ => True end.

(* bytes stay bytes *)
Lemma upd_bytes : forall m i v, v < 256 -> bytes m -> bytes (MrbModel.upd m i v).
Proof.
  induction m as [|x r IH]; intros i v Hv Hb; [exact Hb|]. inversion Hb; subst.
  destruct i; cbn [MrbModel.upd]; constructor; auto. apply IH; auto.
Qed.
Lemma set_bytes : forall m B i v m', MrbModel.set m B i v = MrbModel.Ok m' -> v < 256 -> bytes m -> bytes m'.
Proof. intros m B i v m' H Hv Hb. unfold MrbModel.set in H. destruct (i <? B); inversion H. now apply upd_bytes. Qed.
Lemma land255_lt : forall x, N.land x 255 < 256.
Proof. intros x. rewrite land255. apply N.mod_lt. discriminate. Qed.
Lemma add_sz_bytes : forall m B o v m', MrbModel.add_sz m B o v = MrbModel.Ok m' -> bytes m -> bytes m'.
Proof.
  intros m B o v m' H Hb. unfold MrbModel.add_sz in H.
  destruct (MrbModel.set m B o _) as [m1|] eqn:E1; [|discriminate]. cbn [MrbModel.bind] in H.
  destruct (MrbModel.set m1 B (o + 1) _) as [m2|] eqn:E2; [|discriminate]. cbn [MrbModel.bind] in H.
  destruct (MrbModel.set m2 B (o + 2) _) as [m3|] eqn:E3; [|discriminate]. cbn [MrbModel.bind] in H.
  pose proof land255_lt.
  eapply set_bytes; [exact H | auto |]. eapply set_bytes; [exact E3 | auto |].
  eapply set_bytes; [exact E2 | auto |]. eapply set_bytes; [exact E1 | auto | exact Hb].
Qed.
Lemma place_bytes : forall s0 b p sz s' o, place s0 b p sz = MrbModel.Ok (s', o) -> bytes b -> bytes (buf s').
Proof.
  intros s0 b p sz s' o H Hb. unfold place in H.
  destruct (MrbModel.add_sz b (size s0) p sz) as [b'|] eqn:E; [|discriminate]. cbn [MrbModel.bind] in H.
  inversion H; subst. cbn [buf]. eapply add_sz_bytes; eauto.
Qed.
Lemma alloc_fixed_bytes : forall s sz s' o, alloc_fixed s sz = MrbModel.Ok (s', o) -> bytes (buf s) -> bytes (buf s').
Proof.
  intros s sz s' o H Hb. unfold alloc_fixed in H.
  destruct ((size s <? 8) || (size s - 8 <? sz)); [inversion H; subst; exact Hb|].
  unfold alloc_body in H. cbv zeta in H.
  destruct (tail s <=? head s).
  - destruct (_ <? size s); [eapply place_bytes; eauto|].
    destruct (_ <? tail s).
    + destruct (MrbModel.add_sz (buf s) (size s) (head s) 4294967295) as [b'|] eqn:E; [|discriminate].
      cbn [MrbModel.bind] in H. eapply place_bytes; [exact H|]. eapply add_sz_bytes; eauto.
    + destruct (head s =? tail s); [eapply place_bytes; eauto | inversion H; subst; exact Hb].
  - destruct (_ <? tail s); [eapply place_bytes; eauto | inversion H; subst; exact Hb].
Qed.
Lemma fill_bytes_bytes : forall d b B p b', fill_bytes b B p d = MrbModel.Ok b' -> bytes d -> bytes b -> bytes b'.
Proof.
  induction d as [|x r IH]; intros b B p b' H Hd Hb; cbn [fill_bytes] in H; [inversion H; subst; exact Hb|].
  inversion Hd; subst.
  destruct (MrbModel.set b B p x) as [b1|] eqn:E; [|discriminate]. cbn [MrbModel.bind] in H.
  eapply IH; [exact H | assumption |]. eapply set_bytes; eauto.
Qed.
Lemma peek_bytes : forall s s' o, peek s = MrbModel.Ok (s', o) -> bytes (buf s) -> bytes (buf s').
Proof.
  intros s s' o H Hb. unfold peek in H. cbv zeta in H.
  destruct (tail s =? head s); [inversion H; subst; exact Hb|].
  destruct (MrbModel.get_sz (buf s) (size s) (tail s)) as [z|]; [|discriminate]. cbn [MrbModel.bind] in H.
  destruct (2147483648 <=? z); [|inversion H; subst; exact Hb].
  destruct (tail s <? head s); [inversion H; subst; apply bytes_repeat0|].
  destruct (0 =? head s); [inversion H; subst; exact Hb|].
  destruct (MrbModel.get_sz (buf s) (size s) 0); [|discriminate]. inversion H; subst. exact Hb.
Qed.
Lemma pop_bytes : forall s s' o, pop s = MrbModel.Ok (s', o) -> bytes (buf s) -> bytes (buf s').
Proof.
  intros s s' o H Hb. unfold pop in H.
  destruct (peek s) as [[s1 [[p z]|]]|] eqn:E; cbn [MrbModel.bind] in H; [| |discriminate];
    inversion H; subst; cbn [buf]; eapply peek_bytes; eauto.
Qed.

Definition r_step (r : MrbModel.res (mrb * out)) : GenLib.res (jls_mrb_s * list N * out) :=
  match r with
  | MrbModel.Ok (s', x) => GenLib.Ok (g_of s', buf s', x)
  | MrbModel.Fault f => GenLib.Fault (flt f)
  end.
Definition r_run (r : MrbModel.res (mrb * list out)) : GenLib.res (jls_mrb_s * list N * list out) :=
  match r with
  | MrbModel.Ok (s', xs) => GenLib.Ok (g_of s', buf s', xs)
  | MrbModel.Fault f => GenLib.Fault (flt f)
  end.

Lemma gen_deliver_eq : forall (r : MrbModel.res (mrb * option (N * N))),
  gen_deliver (r_msg r) = r_step (deliver r).
Proof.
  intros [[s1 [[p z]|]]|f]; cbn [r_msg gen_deliver deliver GenLib.bind MrbModel.bind r_step]; try reflexivity.
  rewrite s_of_g_of. destruct (read_msg s1 p z); reflexivity.
Qed.

Theorem gen_step_eq : forall s o, Conc s ->
  gen_step (g_of s) (buf s) o = r_step (step alloc_fixed s o).
Proof.
  intros s o HC. pose proof HC as (HL & HB & _ & _ & HN & Hb).
  destruct o as [d| |]; cbn [gen_step step].
  - rewrite (gen_alloc_eq s _ HL HB).
    destruct (alloc_fixed s (MrbModel.len d)) as [[s1 [q|]]|f]; cbn [r_alloc optr GenLib.bind MrbModel.bind r_step]; try reflexivity.
    rewrite s_of_g_of. unfold fill.
    destruct (fill_bytes (buf s1) (size s1) q d); reflexivity.
  - rewrite (gen_peek_eq s 0 HL Hb). apply gen_deliver_eq.
  - rewrite (gen_pop_eq s 0 HC). apply gen_deliver_eq.
Qed.

Lemma MInv_Conc : forall s, MInv s -> bytes (buf s) -> Conc s.
Proof.
  intros s HI Hb. destruct (MInv_conc _ HI) as (HL & HB & HC).
  destruct HI as (es & HR & HN). destruct HR as (_ & HB2 & HS).
  unfold Conc. repeat split; auto.
  - destruct HS as [(H1 & H2 & _) | (m & es1 & es2 & H1 & H2 & H3 & _)]; lia.
  - destruct HS as [(H1 & H2 & _) | (m & es1 & es2 & H1 & H2 & H3 & _)]; lia.
Qed.

Lemma step_bytes : forall s o s' x, step alloc_fixed s o = MrbModel.Ok (s', x) ->
  bytes (buf s) -> op_bytes o -> bytes (buf s').
Proof.
  intros s o s' x H Hb Ho. destruct o as [d| |]; cbn [step op_bytes] in *.
  - destruct (alloc_fixed s (MrbModel.len d)) as [[s1 [q|]]|f] eqn:EA; cbn [MrbModel.bind] in H; [| |discriminate].
    + pose proof (alloc_fixed_bytes _ _ _ _ EA Hb) as Hb1. unfold fill in H.
      destruct (fill_bytes (buf s1) (size s1) q d) as [b2|] eqn:EF; cbn [MrbModel.bind] in H; [|discriminate].
      inversion H; subst. cbn [buf]. eapply fill_bytes_bytes; eauto.
    + inversion H; subst. eapply alloc_fixed_bytes; eauto.
  - unfold deliver in H. destruct (peek s) as [[s1 [[p z]|]]|f] eqn:EP; cbn [MrbModel.bind] in H; [| |discriminate].
    + destruct (read_msg s1 p z); cbn [MrbModel.bind] in H; [|discriminate]. inversion H; subst. eapply peek_bytes; eauto.
    + inversion H; subst. eapply peek_bytes; eauto.
  - unfold deliver in H. destruct (pop s) as [[s1 [[p z]|]]|f] eqn:EP; cbn [MrbModel.bind] in H; [| |discriminate].
    + destruct (read_msg s1 p z); cbn [MrbModel.bind] in H; [|discriminate]. inversion H; subst. eapply pop_bytes; eauto.
    + inversion H; subst. eapply pop_bytes; eauto.
Qed.

Theorem gen_run_eq : forall ops s, MInv s -> bytes (buf s) -> Forall op_bytes ops ->
  gen_run (g_of s) (buf s) ops = r_run (run alloc_fixed s ops).
Proof.
  induction ops as [|o r IH]; intros s HI Hb HO; cbn [gen_run run]; [reflexivity|].
  inversion HO as [|? ? Ho Hr]; subst.
  rewrite (gen_step_eq s o (MInv_Conc s HI Hb)).
  assert (HA : op_al_ok alloc_fixed (size s) o) by (destruct o; cbn [op_al_ok]; auto; apply al_ok_fixed).
  destruct (step_ok alloc_fixed s o HI HA) as (s1 & x & ES & I1 & _ & _).
  rewrite ES. cbn [r_step GenLib.bind MrbModel.bind fst snd].
  rewrite (IH s1 I1 (step_bytes _ _ _ _ ES Hb Ho) Hr).
  destruct (run alloc_fixed s1 r) as [[s2 xs]|f]; reflexivity.
Qed.

(* every operation sequence from jls_mrb_init, on the generated functions: no fault, the
   invariant holds, the outputs are those of a FIFO *)
Theorem gen_reachable_inv : forall (B : N) (ops : list op) (mem0 : list N) (g0 : jls_mrb_s),
  B <= 2147483648 -> MrbModel.len mem0 = B -> Forall op_bytes ops ->
  exists g m outs,
    GenLib.bind (jls_mrb_init mem0 g0 (Ptr 0) B) (fun '(g1, m1) => gen_run g1 m1 ops) = GenLib.Ok (g, m, outs) /\
    g.(jls_mrb_s_buf) = Ptr 0 /\ g.(jls_mrb_s_buf_size) = B /\ MInv (s_of g m) /\
    fifo [] ops outs = Some (mrb_abs (s_of g m)).
Proof.
  intros B ops mem0 g0 HB HL HO.
  rewrite (gen_init_eq mem0 g0 B HL). cbn [GenLib.bind].
  rewrite (gen_run_eq ops (init B) (init_MInv B HB) (bytes_repeat0 _) HO).
  destruct (reachable_inv_fixed B ops HB) as (s & outs & ER & I & S & F).
  rewrite ER. cbn [r_run]. exists (g_of s), (buf s), outs. rewrite s_of_g_of. repeat split; auto.
Qed.

(* hypotheses of the theorems above are satisfiable: the wrapped queue of MrbProofs.ex_state *)
Lemma gen_ex_state : exists (self : jls_mrb_s) (mem : list N),
  self.(jls_mrb_s_buf) = Ptr 0 /\ MInv (s_of self mem) /\ bytes mem /\ self.(jls_mrb_s_buf_size) = 48 /\
  self.(jls_mrb_s_head) = 6 /\ self.(jls_mrb_s_tail) = 14 /\
  mrb_abs (s_of self mem) = [repeat 2 10; repeat 3 10; repeat 4 2] /\
  (exists self' mem', jls_mrb_alloc mem self 1 = GenLib.Ok (Ptr 10, self', mem')) /\
  jls_mrb_alloc mem self 3 = GenLib.Ok (Null, self, mem).
Proof.
  destruct (reachable_inv_fixed 48 ex_ops) as (s & outs & ER & I & S & F); [lia|].
  vm_compute in ER. injection ER as <- <-.
  eexists (g_of _), _. rewrite s_of_g_of.
  split; [reflexivity|]. split; [exact I|].
  split; [cbn [buf]; unfold bytes; repeat (constructor; [reflexivity|]); constructor|].
  split; [reflexivity|]. split; [reflexivity|]. split; [reflexivity|].
  split; [vm_compute; reflexivity|].
  split; [eexists _, _; vm_compute; reflexivity | vm_compute; reflexivity].
Qed.
