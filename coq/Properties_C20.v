(* C20 - Statistics accumulators are consistent under add, compute and combine.
   Model: StatsQ.v (jls_statistics_* of /repo/src/statistics.c over Q, C control flow,
   uint64 count arithmetic, DBL_MAX/FLT_MAX sentinels, pointer/store version of combine).
   Everything below holds for ALL finite lists of rationals (any length below the 2^64
   count limit of the uint64 field, any magnitude within the double range, any split).
   Binary64 rounding is not part of these statements; tools/props/C20.py measures it. *)
From Coq Require Import NArith ZArith QArith List.
From JLS Require Import StatsQ StatsQProofs.
Import ListNotations.
Local Open Scope Q_scope.

(* the specification's min / max are the minimum / maximum of the list *)
Theorem C20_min_of_spec : forall xs : list Q, xs <> [] ->
  (exists x, In x xs /\ x == min_of xs) /\ forall x, In x xs -> min_of xs <= x.
Proof. exact min_of_spec. Qed.
Print Assumptions C20_min_of_spec.
Theorem C20_max_of_spec : forall xs : list Q, xs <> [] ->
  (exists x, In x xs /\ x == max_of xs) /\ forall x, In x xs -> x <= max_of xs.
Proof. exact max_of_spec. Qed.
Print Assumptions C20_max_of_spec.

(* adding the samples one at a time from reset *)
Theorem C20_add_fold : forall xs : list Q,
  (N.of_nat (length xs) < stats_two64)%N -> stats_in_range dbl_max xs ->
  exists st, stats_add_list stats_reset xs = Some st /\ stats_eq st (stats_of xs).
Proof. exact add_fold. Qed.
Print Assumptions C20_add_fold.

(* two-pass computation over the whole array (f64 and f32 entry points) *)
Theorem C20_compute_spec : forall xs : list Q,
  stats_in_range dbl_max xs -> stats_eq (stats_compute_f64 xs) (stats_of xs).
Proof. exact compute_spec. Qed.
Print Assumptions C20_compute_spec.
Theorem C20_compute_f32_spec : forall xs : list Q,
  stats_in_range flt_max xs -> stats_eq (stats_compute_f32 xs) (stats_of xs).
Proof. exact compute_f32_spec. Qed.
Print Assumptions C20_compute_f32_spec.

(* combining the parts of any split *)
Theorem C20_combine_app : forall xs ys : list Q,
  (N.of_nat (length (xs ++ ys)) < stats_two64)%N ->
  stats_eq (stats_combine (stats_of xs) (stats_of ys)) (stats_of (xs ++ ys)).
Proof. exact combine_app. Qed.
Print Assumptions C20_combine_app.

Theorem C20_combine_assoc : forall xs ys zs : list Q,
  (N.of_nat (length (xs ++ ys ++ zs)) < stats_two64)%N ->
  stats_eq (stats_combine (stats_combine (stats_of xs) (stats_of ys)) (stats_of zs))
           (stats_combine (stats_of xs) (stats_combine (stats_of ys) (stats_of zs))).
Proof. exact combine_assoc. Qed.
Print Assumptions C20_combine_assoc.

(* any grouping (binary tree of combines over computed runs) equals the exact
   statistics of the concatenation, hence any two groupings of the same samples agree *)
Theorem C20_grouping_spec : forall g : grouping,
  (N.of_nat (length (grouping_flatten g)) < stats_two64)%N -> stats_in_range dbl_max (grouping_flatten g) ->
  stats_eq (eval_grouping g) (stats_of (grouping_flatten g)).
Proof. exact grouping_spec. Qed.
Print Assumptions C20_grouping_spec.
Theorem C20_grouping_agree : forall g1 g2 : grouping,
  grouping_flatten g1 = grouping_flatten g2 ->
  (N.of_nat (length (grouping_flatten g1)) < stats_two64)%N -> stats_in_range dbl_max (grouping_flatten g1) ->
  stats_eq (eval_grouping g1) (eval_grouping g2).
Proof. exact grouping_agree. Qed.
Print Assumptions C20_grouping_agree.

(* whole / one at a time / combine of parts *)
Theorem C20_three_routes : forall xs ys : list Q,
  (N.of_nat (length (xs ++ ys)) < stats_two64)%N -> stats_in_range dbl_max (xs ++ ys) ->
  exists st_add,
    stats_add_list stats_reset (xs ++ ys) = Some st_add /\
    stats_eq st_add (stats_compute_f64 (xs ++ ys)) /\
    stats_eq (stats_combine (stats_compute_f64 xs) (stats_compute_f64 ys)) (stats_compute_f64 (xs ++ ys)).
Proof. exact three_routes. Qed.
Print Assumptions C20_three_routes.

Theorem C20_var_nonneg : forall xs : list Q, 0 <= stats_var (stats_of xs).
Proof. exact var_nonneg. Qed.
Print Assumptions C20_var_nonneg.
Theorem C20_var_spec : forall xs : list Q, (2 <= length xs)%nat ->
  stats_var (stats_of xs) == ssq_of xs / (qlen xs - 1).
Proof. exact var_spec. Qed.
Print Assumptions C20_var_spec.

Theorem C20_min_le_mean_le_max : forall xs : list Q, xs <> [] ->
  min_of xs <= mean_of xs /\ mean_of xs <= max_of xs.
Proof. exact min_le_mean_le_max. Qed.
Print Assumptions C20_min_le_mean_le_max.

(* combining with an empty accumulator is the identity (Leibniz equality: the copy
   branches move the fields unchanged) *)
Theorem C20_combine_reset_l : forall st : stats,
  (st_k st < stats_two64)%N -> (st_k st = 0%N -> st = stats_reset) -> stats_combine stats_reset st = st.
Proof. exact combine_reset_l. Qed.
Print Assumptions C20_combine_reset_l.
Theorem C20_combine_reset_r : forall st : stats,
  (st_k st < stats_two64)%N -> (st_k st = 0%N -> st = stats_reset) -> stats_combine st stats_reset = st.
Proof. exact combine_reset_r. Qed.
Print Assumptions C20_combine_reset_r.

(* the result may overwrite either operand: the C statement order run on a store of
   structs; tgt = a (resp. b) gives in *tgt exactly what a fresh target t gets, and the
   other operand is untouched *)
Theorem C20_combine_inplace_tgt_a : forall (st : sstore) (a b t : N),
  t <> a -> t <> b ->
  stats_combine_store st a a b a = stats_combine_store st t a b t /\
  (b <> a -> stats_combine_store st a a b b = st b).
Proof. exact combine_inplace_tgt_a. Qed.
Print Assumptions C20_combine_inplace_tgt_a.
Theorem C20_combine_inplace_tgt_b : forall (st : sstore) (a b t : N),
  t <> a -> t <> b ->
  stats_combine_store st b a b b = stats_combine_store st t a b t /\
  (a <> b -> stats_combine_store st b a b a = st a).
Proof. exact combine_inplace_tgt_b. Qed.
Print Assumptions C20_combine_inplace_tgt_b.
(* every aliasing of tgt, a, b (including a = b = tgt) yields the value-level combine *)
Theorem C20_combine_store_any_alias : forall (st : sstore) (tgt a b : N),
  stats_combine_store st tgt a b tgt = stats_combine (st a) (st b) /\
  forall q, q <> tgt -> stats_combine_store st tgt a b q = st q.
Proof. exact combine_store_any_alias. Qed.
Print Assumptions C20_combine_store_any_alias.

(* the stated hypotheses are necessary (not reachable with real arrays of doubles:
   no finite double exceeds DBL_MAX, no array has 2^64 elements) *)
Theorem C20_add_out_of_range_refuted :
  exists xs st, stats_add_list stats_reset xs = Some st /\ ~ stats_eq st (stats_of xs).
Proof. exact add_out_of_range_refuted. Qed.
Print Assumptions C20_add_out_of_range_refuted.
Theorem C20_combine_count_wrap_refuted :
  exists a b, st_k a <> 0%N /\ st_k b <> 0%N /\ stats_combine a b = stats_reset.
Proof. exact combine_count_wrap_refuted. Qed.
Print Assumptions C20_combine_count_wrap_refuted.

(* the hypotheses are satisfiable by non-trivial values, and the model computes *)
Example C20_example_hyps :
  let xs := [3 # 2; -(5 # 4); 7; 7; 1 # 1024] in
  (N.of_nat (length xs) < stats_two64)%N /\ stats_in_range dbl_max xs /\ stats_in_range flt_max xs /\ xs <> [] /\
  stats_add_list stats_reset xs = Some (mkStats 5 (14593 # 5120) (80208769 # 1310720) (-5 # 4) 7) /\
  stats_compute_f64 xs = mkStats 5 (14593 # 5120) (80208769 # 1310720) (-5 # 4) 7 /\
  stats_combine (stats_compute_f64 [3 # 2; -(5 # 4)]) (stats_compute_f64 [7; 7; 1 # 1024]) = stats_compute_f64 xs.
Proof.
  cbv zeta. split; [reflexivity|]. split; [|split; [|split; [discriminate|]]].
  - repeat constructor; vm_compute; discriminate.
  - repeat constructor; vm_compute; discriminate.
  - vm_compute. repeat split; reflexivity.
Qed.
Print Assumptions C20_example_hyps.
Example C20_example_store :
  let st := fun p : N => if (p =? 0)%N then stats_compute_f64 [1; 2] else stats_compute_f64 [4; 6; 8] in
  st_mean (stats_combine_store st 0 0 1 0%N) = 21 # 5 /\ st_k (stats_combine_store st 1 0 1 1%N) = 5%N.
Proof. vm_compute. split; reflexivity. Qed.
Print Assumptions C20_example_store.
