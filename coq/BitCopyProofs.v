(* Proofs about BitCopyModel.v: bc_bit_copy (the model of jls_bit_copy) splices exactly
   the requested bit range, for buffers of any length, any offsets, any count. *)
From Coq Require Import NArith ZArith List Bool Lia Arith.
From Coq Require Import ZifyBool ZifyN ZifyNat.
From JLS Require Import Spec BitCopyModel.
Import ListNotations.
Ltac Zify.zify_post_hook ::= Z.div_mod_to_equations.

(* ------------------------------------------------------------------ *)
(* generic list facts                                                  *)
(* ------------------------------------------------------------------ *)
Lemma list_eq_nth {A} (d : A) : forall a b : list A,
  length a = length b -> (forall i, (i < length a)%nat -> nth i a d = nth i b d) -> a = b.
Proof.
  induction a as [|x a IH]; intros [|y b] Hl Hn; simpl in Hl; try discriminate; auto.
  f_equal.
  - apply (Hn 0%nat). simpl. lia.
  - apply IH; [lia|]. intros i Hi. apply (Hn (S i)). simpl. lia.
Qed.

Lemma nth_firstn_if {A} (d : A) : forall (l : list A) n i,
  nth i (firstn n l) d = if (i <? n)%nat then nth i l d else d.
Proof.
  induction l as [|x l IH]; intros n i.
  - rewrite firstn_nil. destruct i; destruct (_ <? _)%nat; reflexivity.
  - destruct n as [|n]; simpl.
    + destruct i; reflexivity.
    + destruct i as [|i]; [reflexivity|]. rewrite IH.
      change (S i <? S n)%nat with (i <? n)%nat. reflexivity.
Qed.

Lemma nth_skipn_add {A} (d : A) : forall (l : list A) n i,
  nth i (skipn n l) d = nth (n + i) l d.
Proof.
  induction l as [|x l IH]; intros n i.
  - rewrite skipn_nil. destruct i; destruct (n + _)%nat; reflexivity.
  - destruct n as [|n]; simpl; [reflexivity|]. apply IH.
Qed.

(* the splice of X into l at position p, pointwise *)
Lemma nth_splice {A} (d : A) : forall (l x : list A) p i,
  (p + length x <= length l)%nat ->
  nth i (firstn p l ++ x ++ skipn (p + length x) l) d =
  if (p <=? i)%nat && (i <? p + length x)%nat then nth (i - p) x d else nth i l d.
Proof.
  intros l x p i Hb.
  assert (Hfl : length (firstn p l) = p) by (rewrite firstn_length; lia).
  destruct (Nat.ltb_spec i p) as [Hip|Hip].
  - rewrite app_nth1 by lia. rewrite nth_firstn_if.
    destruct (Nat.ltb_spec i p); [|lia].
    destruct (Nat.leb_spec p i); [lia|]. reflexivity.
  - rewrite app_nth2 by lia. rewrite Hfl.
    destruct (Nat.leb_spec p i); [|lia]. simpl.
    destruct (Nat.ltb_spec i (p + length x)) as [Hix|Hix].
    + rewrite app_nth1 by lia. reflexivity.
    + rewrite app_nth2 by lia. rewrite nth_skipn_add. f_equal. lia.
Qed.

Lemma app_inj_len {A} : forall (a c b d : list A),
  length a = length c -> a ++ b = c ++ d -> a = c /\ b = d.
Proof.
  induction a as [|x a IH]; intros [|y c] b d Hl E; simpl in *; try discriminate; auto.
  inversion E; subst. destruct (IH c b d) as [-> ->]; auto.
Qed.

Lemma skipn_app_len {A} : forall (a b : list A) n, skipn (length a + n) (a ++ b) = skipn n b.
Proof. induction a; intros; simpl; auto. Qed.

Lemma splice_length {A} : forall (l x : list A) p,
  (p + length x <= length l)%nat ->
  length (firstn p l ++ x ++ skipn (p + length x) l) = length l.
Proof.
  intros. rewrite !app_length, firstn_length, skipn_length. lia.
Qed.

(* ------------------------------------------------------------------ *)
(* bits of numbers and of byte lists                                   *)
(* ------------------------------------------------------------------ *)
Lemma bits_of_length : forall w v, length (bits_of w v) = w.
Proof. induction w; intros; simpl; auto. Qed.

Lemma bits_of_nth : forall w v k, (k < w)%nat ->
  nth k (bits_of w v) false = N.testbit v (N.of_nat k).
Proof.
  induction w as [|w IH]; intros v k Hk; [lia|].
  cbn [bits_of]. destruct k as [|k]; cbn [nth].
  - symmetry. apply N.bit0_odd.
  - rewrite IH by lia. rewrite N.div2_spec, N.shiftr_spec', Nat2N.inj_succ. f_equal. lia.
Qed.

Lemma bc_bits_length : forall l, length (bc_bits l) = (8 * length l)%nat.
Proof.
  induction l as [|a l IH]; [reflexivity|].
  unfold bc_bits in *. cbn [flat_map]. rewrite app_length, IH, bits_of_length. simpl. lia.
Qed.

Lemma bc_bits_app : forall a b, bc_bits (a ++ b) = bc_bits a ++ bc_bits b.
Proof. intros. unfold bc_bits. apply flat_map_app. Qed.

Lemma bc_bits_cons : forall a l, bc_bits (a :: l) = bits_of 8 a ++ bc_bits l.
Proof. reflexivity. Qed.

(* bit 8j+k of the buffer is bit k of byte j (also outside the buffer: both false) *)
Lemma bc_bits_nth : forall l j k, (k < 8)%nat ->
  nth (8 * j + k) (bc_bits l) false = N.testbit (nth j l 0%N) (N.of_nat k).
Proof.
  induction l as [|a l IH]; intros j k Hk.
  - destruct j; destruct (8 * _ + k)%nat; reflexivity.
  - rewrite bc_bits_cons. destruct j as [|j].
    + rewrite app_nth1 by (rewrite bits_of_length; lia).
      replace (8 * 0 + k)%nat with k by lia. apply bits_of_nth; lia.
    + rewrite app_nth2 by (rewrite bits_of_length; lia).
      rewrite bits_of_length.
      replace (8 * S j + k - 8)%nat with (8 * j + k)%nat by lia.
      cbn [nth]. apply IH; lia.
Qed.

Lemma bc_bits_firstn : forall l n, bc_bits (firstn n l) = firstn (8 * n) (bc_bits l).
Proof.
  induction l as [|a l IH]; intros n.
  - rewrite !firstn_nil. reflexivity.
  - destruct n as [|n]; [reflexivity|].
    rewrite firstn_cons, !bc_bits_cons, IH.
    replace (8 * S n)%nat with (length (bits_of 8 a) + 8 * n)%nat by (rewrite bits_of_length; lia).
    rewrite firstn_app_2. reflexivity.
Qed.

Lemma bc_bits_skipn : forall l n, bc_bits (skipn n l) = skipn (8 * n) (bc_bits l).
Proof.
  induction l as [|a l IH]; intros n.
  - rewrite !skipn_nil. reflexivity.
  - destruct n as [|n]; [reflexivity|].
    rewrite skipn_cons, bc_bits_cons, IH.
    replace (8 * S n)%nat with (length (bits_of 8 a) + 8 * n)%nat by (rewrite bits_of_length; lia).
    rewrite skipn_app_len. reflexivity.
Qed.

(* bytes below 256 are determined by their 8 bits *)
Lemma byte_bits_inj : forall a b, (a < 256)%N -> (b < 256)%N -> bits_of 8 a = bits_of 8 b -> a = b.
Proof.
  intros a b Ha Hb E. apply N.bits_inj. intro n.
  destruct (N.lt_ge_cases n 8) as [Hn|Hn].
  - rewrite <- (N2Nat.id n).
    rewrite <- (bits_of_nth 8 a (N.to_nat n)) by lia.
    rewrite <- (bits_of_nth 8 b (N.to_nat n)) by lia.
    rewrite E. reflexivity.
  - assert (H8 : forall x, (x < 256)%N -> N.testbit x n = false).
    { intros x Hx. destruct (N.eq_dec x 0) as [->|Hx0]; [apply N.bits_0|].
      apply N.bits_above_log2.
      assert (N.log2 x < 8)%N by (apply N.log2_lt_pow2; [lia|exact Hx]). lia. }
    rewrite (H8 a Ha), (H8 b Hb). reflexivity.
Qed.

Definition bc_bytes_ok (l : list N) : Prop := Forall (fun b => (b < 256)%N) l.

Lemma bc_bits_inj : forall a b, bc_bytes_ok a -> bc_bytes_ok b -> bc_bits a = bc_bits b -> a = b.
Proof.
  induction a as [|x a IH]; intros [|y b] Ha Hb E.
  - reflexivity.
  - apply (f_equal (@length bool)) in E. rewrite !bc_bits_length in E. simpl in E. lia.
  - apply (f_equal (@length bool)) in E. rewrite !bc_bits_length in E. simpl in E. lia.
  - rewrite !bc_bits_cons in E.
    apply app_inj_len in E; [|rewrite !bits_of_length; reflexivity].
    destruct E as [E1 E2]. inversion Ha; inversion Hb; subst.
    f_equal; [apply byte_bits_inj; assumption | apply IH; assumption].
Qed.

(* ------------------------------------------------------------------ *)
(* bc_set                                                              *)
(* ------------------------------------------------------------------ *)
Lemma bc_set_nat_some : forall l i v, (i < length l)%nat ->
  bc_set_nat l i v = Some (firstn i l ++ v :: skipn (S i) l).
Proof.
  induction l as [|x l IH]; intros i v Hi; simpl in Hi; [lia|].
  destruct i as [|i]; [reflexivity|].
  cbn [bc_set_nat]. rewrite IH by lia. reflexivity.
Qed.

Lemma bc_set_nat_none : forall l i v, (length l <= i)%nat -> bc_set_nat l i v = None.
Proof.
  induction l as [|x l IH]; intros i v Hi; [reflexivity|].
  simpl in Hi. destruct i as [|i]; [lia|]. cbn [bc_set_nat]. rewrite IH by lia. reflexivity.
Qed.

Lemma set_length : forall (l : list N) i v, (i < length l)%nat ->
  length (firstn i l ++ v :: skipn (S i) l) = length l.
Proof. intros. rewrite app_length, firstn_length. cbn [length]. rewrite skipn_length. lia. Qed.

Lemma set_nth : forall (l : list N) i v j, (i < length l)%nat ->
  nth j (firstn i l ++ v :: skipn (S i) l) 0%N = if (j =? i)%nat then v else nth j l 0%N.
Proof.
  intros l i v j Hi.
  change (v :: skipn (S i) l) with ([v] ++ skipn (S i) l).
  replace (S i) with (i + length [v])%nat by (simpl; lia).
  rewrite nth_splice by (simpl; lia). simpl length.
  destruct (Nat.eqb_spec j i) as [->|Hne].
  - destruct (Nat.leb_spec i i); [|lia]. destruct (Nat.ltb_spec i (i + 1)); [|lia].
    replace (i - i)%nat with 0%nat by lia. reflexivity.
  - destruct (Nat.leb_spec i j); destruct (Nat.ltb_spec j (i + 1)); simpl; try reflexivity. lia.
Qed.

Lemma Forall_firstn' {A} (P : A -> Prop) : forall (l : list A) n, Forall P l -> Forall P (firstn n l).
Proof.
  induction l as [|x l IH]; intros n H; [rewrite firstn_nil; constructor|].
  destruct n; [constructor|]. inversion H; subst. simpl. constructor; auto.
Qed.
Lemma Forall_skipn' {A} (P : A -> Prop) : forall (l : list A) n, Forall P l -> Forall P (skipn n l).
Proof.
  induction l as [|x l IH]; intros n H; [rewrite skipn_nil; constructor|].
  destruct n; [exact H|]. inversion H; subst. simpl. auto.
Qed.

Lemma set_bytes_ok : forall (l : list N) i v, bc_bytes_ok l -> (v < 256)%N ->
  bc_bytes_ok (firstn i l ++ v :: skipn (S i) l).
Proof.
  intros l i v Hl Hv. unfold bc_bytes_ok in *. apply Forall_app. split.
  - apply Forall_firstn'; assumption.
  - constructor; [exact Hv|]. apply Forall_skipn'; assumption.
Qed.

(* ------------------------------------------------------------------ *)
(* one byte of the loop                                                *)
(* ------------------------------------------------------------------ *)
Local Open Scope N_scope.
Lemma testbit_255 : forall k, N.testbit 255 k = (k <? 8).
Proof.
  intros k. change 255 with (N.ones 8).
  destruct (N.ltb_spec k 8); [apply N.ones_spec_low | apply N.ones_spec_high]; lia.
Qed.

Lemma testbit_mask : forall n k, N.testbit (N.shiftl 1 n - 1) k = (k <? n).
Proof.
  intros n k. rewrite N.sub_1_r. fold (N.ones n).
  destruct (N.ltb_spec k n); [apply N.ones_spec_low | apply N.ones_spec_high]; lia.
Qed.

Lemma land_255_lt : forall x, N.land x 255 < 256.
Proof.
  intros x. change 255 with (N.ones 8). rewrite N.land_ones. apply N.mod_lt. discriminate.
Qed.

Lemma step_byte_bit : forall d s db sb n k,
  db + n <= 8 -> sb + n <= 8 -> k < 8 ->
  N.testbit (bc_step_byte d s db sb n) k =
  if (db <=? k) && (k <? db + n) then N.testbit s (k - db + sb) else N.testbit d k.
Proof.
  intros d s db sb n k Hd Hs Hk. unfold bc_step_byte.
  rewrite N.land_spec, N.lor_spec, N.ldiff_spec, testbit_255.
  destruct (N.ltb_spec k 8) as [_|]; [|lia]. rewrite andb_true_r.
  destruct (N.leb_spec db k) as [Hdk|Hdk]; cbn [andb].
  - rewrite !N.shiftl_spec_high' by lia.
    rewrite !N.land_spec, testbit_mask, !testbit_255, N.shiftr_spec'.
    destruct (N.ltb_spec (k - db) 8) as [_|]; [|lia].
    destruct (N.ltb_spec k (db + n)); destruct (N.ltb_spec (k - db) n); try lia.
    + rewrite !andb_true_r. cbn [negb]. rewrite andb_false_r. reflexivity.
    + rewrite !andb_false_r. cbn [negb]. rewrite andb_true_r, orb_false_r. reflexivity.
  - rewrite !N.shiftl_spec_low by lia. cbn [negb]. rewrite andb_true_r, orb_false_r. reflexivity.
Qed.

Lemma step_byte_lt : forall d s db sb n, bc_step_byte d s db sb n < 256.
Proof. intros. unfold bc_step_byte. apply land_255_lt. Qed.

(* ------------------------------------------------------------------ *)
(* one iteration, on the bit view                                      *)
(* ------------------------------------------------------------------ *)
Local Open Scope nat_scope.
Lemma split8 : forall i, exists j k, i = 8 * j + k /\ k < 8.
Proof.
  intros i. exists (i / 8), (i mod 8). split.
  - apply Nat.div_mod. lia.
  - apply Nat.mod_upper_bound. lia.
Qed.

Lemma bits_after_step : forall dst src (di db si sb n : N) i,
  N.to_nat di < length dst -> (db + n <= 8)%N -> (sb + n <= 8)%N ->
  let P := 8 * N.to_nat di + N.to_nat db in
  let Q := 8 * N.to_nat si + N.to_nat sb in
  nth i (bc_bits (firstn (N.to_nat di) dst ++
                  bc_step_byte (nth (N.to_nat di) dst 0%N) (nth (N.to_nat si) src 0%N) db sb n
                  :: skipn (S (N.to_nat di)) dst)) false =
  if (P <=? i) && (i <? P + N.to_nat n) then nth (i - P + Q) (bc_bits src) false
  else nth i (bc_bits dst) false.
Proof.
  intros dst src di db si sb n i Hdi Hd Hs P Q.
  destruct (split8 i) as (j & k & -> & Hk).
  rewrite bc_bits_nth by exact Hk. rewrite set_nth by exact Hdi.
  destruct (Nat.eqb_spec j (N.to_nat di)) as [->|Hj].
  - rewrite step_byte_bit by lia.
    destruct (N.leb_spec db (N.of_nat k)); destruct (N.ltb_spec (N.of_nat k) (db + n));
      destruct (Nat.leb_spec P (8 * N.to_nat di + k)); destruct (Nat.ltb_spec (8 * N.to_nat di + k) (P + N.to_nat n));
      cbn [andb]; try (exfalso; lia); try (rewrite bc_bits_nth by exact Hk; reflexivity).
    replace (8 * N.to_nat di + k - P + Q) with (8 * N.to_nat si + (k - N.to_nat db + N.to_nat sb)) by lia.
    rewrite bc_bits_nth by lia. f_equal. lia.
  - rewrite <- bc_bits_nth by exact Hk.
    destruct (Nat.leb_spec P (8 * j + k)); destruct (Nat.ltb_spec (8 * j + k) (P + N.to_nat n));
      cbn [andb]; try reflexivity. exfalso. lia.
Qed.

(* ------------------------------------------------------------------ *)
(* the loop                                                            *)
(* ------------------------------------------------------------------ *)
Definition copied (dst src : list N) (P Q c : nat) (dst' : list N) : Prop :=
  length dst' = length dst /\
  (bc_bytes_ok dst -> bc_bytes_ok src -> bc_bytes_ok dst') /\
  forall i, nth i (bc_bits dst') false =
            if (P <=? i) && (i <? P + c) then nth (i - P + Q) (bc_bits src) false
            else nth i (bc_bits dst) false.

Lemma bc_loop_spec : forall fuel dst di db src si sb cnt,
  (db < 8)%N -> (sb < 8)%N -> N.to_nat cnt <= fuel ->
  (8 * di + db + cnt <= 8 * N.of_nat (length dst))%N ->
  (8 * si + sb + cnt <= 8 * N.of_nat (length src))%N ->
  exists dst', bc_loop fuel dst di db src si sb cnt = BC_ok dst' /\
    copied dst src (N.to_nat (8 * di + db)) (N.to_nat (8 * si + sb)) (N.to_nat cnt) dst'.
Proof.
  induction fuel as [|fuel IH]; intros dst di db src si sb cnt Hdb Hsb Hfuel Hd Hs.
  - assert (cnt = 0%N) by lia. subst cnt. exists dst. split; [reflexivity|].
    split; [reflexivity|]. split; [auto|]. intros i.
    destruct (Nat.leb_spec (N.to_nat (8 * di + db)) i); destruct (Nat.ltb_spec i (N.to_nat (8 * di + db) + N.to_nat 0));
      cbn [andb]; try reflexivity. exfalso; lia.
  - cbn [bc_loop]. destruct (N.eqb_spec cnt 0) as [->|Hc].
    + exists dst. split; [reflexivity|].
      split; [reflexivity|]. split; [auto|]. intros i.
      destruct (Nat.leb_spec (N.to_nat (8 * di + db)) i); destruct (Nat.ltb_spec i (N.to_nat (8 * di + db) + N.to_nat 0));
        cbn [andb]; try reflexivity. exfalso; lia.
    + set (n0 := (8 - (if (sb <? db)%N then db else sb))%N).
      set (n := if (cnt <? n0)%N then cnt else n0).
      assert (Hn : (1 <= n /\ n <= cnt /\ db + n <= 8 /\ sb + n <= 8)%N).
      { subst n n0. destruct (N.ltb_spec sb db); destruct (N.ltb_spec cnt (8 - db)); destruct (N.ltb_spec cnt (8 - sb)); lia. }
      destruct Hn as (Hn1 & Hn2 & Hn3 & Hn4).
      assert (Hsi : N.to_nat si < length src) by lia.
      assert (Hdi : N.to_nat di < length dst) by lia.
      unfold bc_get, bc_set.
      rewrite (nth_error_nth' src 0%N Hsi), (nth_error_nth' dst 0%N Hdi).
      rewrite bc_set_nat_some by exact Hdi.
      set (d' := bc_step_byte (nth (N.to_nat di) dst 0%N) (nth (N.to_nat si) src 0%N) db sb n).
      set (dst1 := firstn (N.to_nat di) dst ++ d' :: skipn (S (N.to_nat di)) dst).
      assert (Hl1 : length dst1 = length dst) by (apply set_length; exact Hdi).
      set (di2 := if (8 <=? db + n)%N then (di + 1)%N else di).
      set (db2 := if (8 <=? db + n)%N then 0%N else (db + n)%N).
      set (si2 := if (8 <=? sb + n)%N then (si + 1)%N else si).
      set (sb2 := if (8 <=? sb + n)%N then 0%N else (sb + n)%N).
      assert (HP : (8 * di2 + db2 = 8 * di + db + n /\ db2 < 8)%N).
      { subst di2 db2. destruct (N.leb_spec 8 (db + n)); lia. }
      assert (HQ : (8 * si2 + sb2 = 8 * si + sb + n /\ sb2 < 8)%N).
      { subst si2 sb2. destruct (N.leb_spec 8 (sb + n)); lia. }
      destruct HP as [HP HP8]. destruct HQ as [HQ HQ8].
      destruct (IH dst1 di2 db2 src si2 sb2 (cnt - n)%N HP8 HQ8) as (dst' & Hrun & Hlen & Hok & Hbits);
        [lia | rewrite Hl1; lia | lia |].
      exists dst'. split; [exact Hrun|]. split; [lia|]. split.
      { intros Hb Hbs. apply Hok; [|exact Hbs]. apply set_bytes_ok; [exact Hb | apply step_byte_lt]. }
      intros i. rewrite Hbits. rewrite HP, HQ.
      pose proof (bits_after_step dst src di db si sb n i Hdi Hn3 Hn4) as Hstep. cbv zeta in Hstep.
      fold d' in Hstep. fold dst1 in Hstep. rewrite Hstep. clear Hstep Hbits.
      replace (N.to_nat (8 * di + db)) with (8 * N.to_nat di + N.to_nat db) by lia.
      replace (N.to_nat (8 * si + sb)) with (8 * N.to_nat si + N.to_nat sb) by lia.
      replace (N.to_nat (8 * di + db + n)) with (8 * N.to_nat di + N.to_nat db + N.to_nat n) by lia.
      replace (N.to_nat (8 * si + sb + n)) with (8 * N.to_nat si + N.to_nat sb + N.to_nat n) by lia.
      replace (N.to_nat (cnt - n)) with (N.to_nat cnt - N.to_nat n) by lia.
      set (P := 8 * N.to_nat di + N.to_nat db). set (Q := 8 * N.to_nat si + N.to_nat sb).
      assert (Hnn : 1 <= N.to_nat n <= N.to_nat cnt) by lia.
      destruct (Nat.leb_spec (P + N.to_nat n) i); destruct (Nat.ltb_spec i (P + N.to_nat n + (N.to_nat cnt - N.to_nat n)));
        destruct (Nat.leb_spec P i); destruct (Nat.ltb_spec i (P + N.to_nat n)); destruct (Nat.ltb_spec i (P + N.to_nat cnt));
        cbn [andb]; try (exfalso; lia); try reflexivity.
      f_equal. lia.
Qed.

Lemma copied_trans : forall dst src P Q c1 c2 dst1 dst2,
  copied dst src P Q c1 dst1 -> copied dst1 src (P + c1) (Q + c1) c2 dst2 ->
  copied dst src P Q (c1 + c2) dst2.
Proof.
  intros dst src P Q c1 c2 dst1 dst2 (L1 & O1 & B1) (L2 & O2 & B2).
  split; [lia|]. split; [auto|]. intros i. rewrite B2, B1.
  destruct (Nat.leb_spec (P + c1) i); destruct (Nat.ltb_spec i (P + c1 + c2));
    destruct (Nat.leb_spec P i); destruct (Nat.ltb_spec i (P + c1)); destruct (Nat.ltb_spec i (P + (c1 + c2)));
    cbn [andb]; try (exfalso; lia); try reflexivity.
  f_equal. lia.
Qed.

Lemma copied_list : forall dst src P Q c dst',
  copied dst src P Q c dst' -> P + c <= 8 * length dst -> Q + c <= 8 * length src ->
  bc_bits dst' = firstn P (bc_bits dst) ++ firstn c (skipn Q (bc_bits src)) ++ skipn (P + c) (bc_bits dst).
Proof.
  intros dst src P Q c dst' (L & _ & B) HP HQ.
  assert (Hx : length (firstn c (skipn Q (bc_bits src))) = c).
  { rewrite firstn_length, skipn_length, bc_bits_length. lia. }
  apply (list_eq_nth false).
  - rewrite <- Hx at 2. rewrite splice_length by (rewrite Hx, bc_bits_length; lia).
    rewrite !bc_bits_length. lia.
  - intros i _. rewrite B. rewrite <- Hx at 3.
    rewrite nth_splice by (rewrite Hx, bc_bits_length; lia). rewrite Hx.
    destruct ((P <=? i) && (i <? P + c)) eqn:E; [|reflexivity].
    rewrite nth_firstn_if, nth_skipn_add.
    destruct (Nat.ltb_spec (i - P) c); [f_equal; lia|].
    exfalso. destruct (Nat.leb_spec P i); destruct (Nat.ltb_spec i (P + c)); cbn [andb] in E; try discriminate. lia.
Qed.

Lemma memcpy_copied : forall dst di src si sz,
  di + sz <= length dst -> si + sz <= length src ->
  copied dst src (8 * di) (8 * si) (8 * sz)
         (firstn di dst ++ firstn sz (skipn si src) ++ skipn (di + sz) dst).
Proof.
  intros dst di src si sz Hd Hs.
  assert (Hx : length (firstn sz (skipn si src)) = sz) by (rewrite firstn_length, skipn_length; lia).
  split; [|split].
  - rewrite <- Hx at 2. apply splice_length. lia.
  - intros Hbd Hbs. unfold bc_bytes_ok in *. apply Forall_app. split; [apply Forall_firstn'; exact Hbd|].
    apply Forall_app. split; [apply Forall_firstn', Forall_skipn'; exact Hbs | apply Forall_skipn'; exact Hbd].
  - intros i. rewrite !bc_bits_app, bc_bits_firstn, bc_bits_firstn, !bc_bits_skipn.
    assert (Hy : length (firstn (8 * sz) (skipn (8 * si) (bc_bits src))) = 8 * sz).
    { rewrite firstn_length, skipn_length, bc_bits_length. lia. }
    replace (8 * (di + sz)) with (8 * di + length (firstn (8 * sz) (skipn (8 * si) (bc_bits src)))) by lia.
    rewrite nth_splice by (rewrite Hy, bc_bits_length; lia). rewrite Hy.
    destruct ((8 * di <=? i) && (i <? 8 * di + 8 * sz)) eqn:E; [|reflexivity].
    rewrite nth_firstn_if, nth_skipn_add.
    destruct (Nat.ltb_spec (i - 8 * di) (8 * sz)); [f_equal; lia|].
    exfalso. destruct (Nat.leb_spec (8 * di) i); destruct (Nat.ltb_spec i (8 * di + 8 * sz)); cbn [andb] in E; try discriminate. lia.
Qed.

Lemma land7 : forall x, N.land x 7 = (x mod 8)%N.
Proof. intros. change 7%N with (N.ones 3). rewrite N.land_ones. reflexivity. Qed.

Lemma bc_slow_copied : forall dst dst_bit src src_bit cnt,
  (dst_bit + cnt <= 8 * N.of_nat (length dst))%N -> (src_bit + cnt <= 8 * N.of_nat (length src))%N ->
  exists dst', bc_bit_copy_slow dst dst_bit src src_bit cnt = BC_ok dst' /\
    copied dst src (N.to_nat dst_bit) (N.to_nat src_bit) (N.to_nat cnt) dst'.
Proof.
  intros dst dst_bit src src_bit cnt Hd Hs. unfold bc_bit_copy_slow. rewrite !land7.
  destruct (bc_loop_spec (N.to_nat cnt) dst (dst_bit / 8) (dst_bit mod 8) src (src_bit / 8) (src_bit mod 8) cnt)
    as (dst' & Hrun & Hc); try lia.
  exists dst'. split; [exact Hrun|].
  replace (8 * (dst_bit / 8) + dst_bit mod 8)%N with dst_bit in Hc by lia.
  replace (8 * (src_bit / 8) + src_bit mod 8)%N with src_bit in Hc by lia.
  exact Hc.
Qed.

Lemma bc_fast_copied : forall dst dst_bit src src_bit cnt,
  (dst_bit + cnt <= 8 * N.of_nat (length dst))%N -> (src_bit + cnt <= 8 * N.of_nat (length src))%N ->
  exists dst', bc_bit_copy dst dst_bit src src_bit cnt = BC_ok dst' /\
    copied dst src (N.to_nat dst_bit) (N.to_nat src_bit) (N.to_nat cnt) dst'.
Proof.
  intros dst dst_bit src src_bit cnt Hd Hs.
  pose proof (bc_slow_copied dst dst_bit src src_bit cnt Hd Hs) as Hslow.
  unfold bc_bit_copy. unfold bc_bit_copy_slow in Hslow.
  destruct ((N.land dst_bit 7 =? 0)%N && (N.land src_bit 7 =? 0)%N) eqn:Eal; [|exact Hslow].
  destruct (N.eqb_spec (cnt / 8) 0) as [Hz|Hz]; [exact Hslow|]. clear Hslow.
  rewrite !land7 in *.
  assert (Hd0 : (dst_bit mod 8 = 0)%N) by lia. assert (Hs0 : (src_bit mod 8 = 0)%N) by lia.
  rewrite Hd0, Hs0.
  set (di := (dst_bit / 8)%N). set (si := (src_bit / 8)%N). set (sz := (cnt / 8)%N).
  assert (Hdi : dst_bit = (8 * di)%N) by (subst di; lia).
  assert (Hsi : src_bit = (8 * si)%N) by (subst si; lia).
  unfold bc_memcpy.
  destruct (N.leb_spec (di + sz) (N.of_nat (length dst))); [|subst sz; lia].
  destruct (N.leb_spec (si + sz) (N.of_nat (length src))); [|subst sz; lia].
  cbn [andb].
  set (dst1 := firstn (N.to_nat di) dst ++ firstn (N.to_nat sz) (skipn (N.to_nat si) src) ++ skipn (N.to_nat (di + sz)) dst).
  assert (H1 : copied dst src (8 * N.to_nat di) (8 * N.to_nat si) (8 * N.to_nat sz) dst1).
  { subst dst1. replace (N.to_nat (di + sz)) with (N.to_nat di + N.to_nat sz) by lia.
    apply memcpy_copied; lia. }
  assert (Hl1 : length dst1 = length dst) by (apply H1).
  assert (Hb1 : (8 * (di + sz) + 0 + (cnt - sz * 8) <= 8 * N.of_nat (length dst1))%N) by (rewrite Hl1; subst sz; lia).
  assert (Hb2 : (8 * (si + sz) + 0 + (cnt - sz * 8) <= 8 * N.of_nat (length src))%N) by (subst sz; lia).
  destruct (bc_loop_spec (N.to_nat (cnt - sz * 8)) dst1 (di + sz) 0 src (si + sz) 0 (cnt - sz * 8)%N
              ltac:(lia) ltac:(lia) ltac:(lia) Hb1 Hb2) as (dst' & Hrun & H2).
  exists dst'. split; [exact Hrun|].
  replace (N.to_nat dst_bit) with (8 * N.to_nat di) by lia.
  replace (N.to_nat src_bit) with (8 * N.to_nat si) by lia.
  replace (N.to_nat cnt) with (8 * N.to_nat sz + N.to_nat (cnt - sz * 8)) by (subst sz; lia).
  eapply copied_trans; [exact H1|].
  replace (8 * N.to_nat di + 8 * N.to_nat sz) with (N.to_nat (8 * (di + sz) + 0)) by lia.
  replace (8 * N.to_nat si + 8 * N.to_nat sz) with (N.to_nat (8 * (si + sz) + 0)) by lia.
  exact H2.
Qed.

(* ------------------------------------------------------------------ *)
(* the specification of jls_bit_copy                                   *)
(* ------------------------------------------------------------------ *)
Theorem bit_copy_spec : forall dst dst_bit src src_bit n,
  (dst_bit + n <= 8 * N.of_nat (length dst))%N ->
  (src_bit + n <= 8 * N.of_nat (length src))%N ->
  exists dst',
    bc_bit_copy dst dst_bit src src_bit n = BC_ok dst' /\
    bc_bits dst' = firstn (N.to_nat dst_bit) (bc_bits dst)
                   ++ firstn (N.to_nat n) (skipn (N.to_nat src_bit) (bc_bits src))
                   ++ skipn (N.to_nat (dst_bit + n)) (bc_bits dst) /\
    length dst' = length dst /\
    (bc_bytes_ok dst -> bc_bytes_ok src -> bc_bytes_ok dst') /\
    (bc_bytes_ok dst -> bc_bytes_ok src -> bc_bit_copy_slow dst dst_bit src src_bit n = BC_ok dst').
Proof.
  intros dst dst_bit src src_bit n Hd Hs.
  destruct (bc_fast_copied dst dst_bit src src_bit n Hd Hs) as (dst' & Hrun & Hc).
  destruct (bc_slow_copied dst dst_bit src src_bit n Hd Hs) as (dst2 & Hrun2 & Hc2).
  exists dst'. split; [exact Hrun|].
  assert (HL : forall x, copied dst src (N.to_nat dst_bit) (N.to_nat src_bit) (N.to_nat n) x ->
     bc_bits x = firstn (N.to_nat dst_bit) (bc_bits dst)
                   ++ firstn (N.to_nat n) (skipn (N.to_nat src_bit) (bc_bits src))
                   ++ skipn (N.to_nat (dst_bit + n)) (bc_bits dst)).
  { intros x Hx. replace (N.to_nat (dst_bit + n)) with (N.to_nat dst_bit + N.to_nat n) by lia.
    apply copied_list; [exact Hx | lia | lia]. }
  split; [apply HL; exact Hc|]. split; [apply Hc|]. split; [apply Hc|].
  intros Hbd Hbs. rewrite Hrun2. f_equal. apply bc_bits_inj.
  - apply Hc2; assumption.
  - apply Hc; assumption.
  - rewrite (HL _ Hc), (HL _ Hc2). reflexivity.
Qed.

(* the hypotheses are satisfiable, on a non-trivial case (unaligned both sides, crosses bytes);
   the same line is part of the correspondence smoke test: c ff00ff 3 a5c3 1 9 -> 970eff *)
Example bit_copy_spec_example :
  (3 + 9 <= 8 * N.of_nat (length [255; 0; 255]))%N /\ (1 + 9 <= 8 * N.of_nat (length [165; 195]))%N /\
  bc_bit_copy [255; 0; 255]%N 3 [165; 195]%N 1 9 = BC_ok [151; 14; 255]%N /\
  bc_bit_copy_slow [0; 0]%N 0 [255; 255]%N 0 16 = bc_bit_copy [0; 0]%N 0 [255; 255]%N 0 16.
Proof. vm_compute. repeat split; discriminate. Qed.

(* outside the buffers the model reports the fault instead of a value *)
Example bit_copy_oob_example :
  bc_bit_copy [0]%N 0 [255]%N 0 9 = BC_oob /\ bc_bit_copy [0; 0]%N 0 [255]%N 0 16 = BC_oob.
Proof. vm_compute. split; reflexivity. Qed.
