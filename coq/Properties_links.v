(* THE ITEM_NEXT LINK INVARIANT of the byte-exact writer model, and jls_rd_open on the writer model's file
   (goals K1, K2, K3 of the "links" slice; proofs in LinksCore / LinksCore2 / LinksFsr / LinksApi / LinksTop (K1),
   LinksRead / LinksOpen / LinksFold / LinksMain (K2, K3), LinksExample / LinksExample2).  No new model: K1 is a strengthening
   of the invariants of the write-once simulation (WmWriteOnce*.v), whose frame forgets item_next; K2 / K3 are theorems about
   RepairRaw / RepairModel / ReaderModel (jls_rd_open) run on E2eModel.e2_file.

   K1, COMPLETE, EVERY program p (guards as in Properties_e2e / Properties_C14_writer: no model fault, bounded log):
     in the file f = e2_file p of jls_wr_open; p; jls_wr_close, for each of the three DEFINITION LISTS
        k = 1  source list      (tag SOURCE_DEF)
        k = 2  signal list      (tags SIGNAL_DEF, TRACK_*_DEF, TRACK_*_HEAD)
        k = 3  user-data list   (tag USER_DATA)
     let l be the chunks of the chunk view of the complete log (RefineLog.rf_chunks) whose tag is on list k, in append order:
     the 32 header bytes in f at the offset of the i-th chunk of l decode (valid CRC; payload and payload CRC complete:
     E2eLog.e2_chunk_at) to a header with the chunk's tag and chunk_meta whose item_next is the offset of the (i+1)-th chunk
     of l, and 0 for the last one (links_K1_definition_lists_in_file).
     The same in the write-once checker's final state, together with: the newest chunk of each list is the one the writer's
     source_head / signal_head / user_data_head points to (links_K1_checker_state).
     The per-track DATA / INDEX / SUMMARY lists are NOT covered (not needed for jls_rd_open); the track invariant only records
     that their cached heads carry tags of none of the three lists.

   K2, first half, EVERY program (links_K2_scan_phase_partial): the scan phase of jls_rd_open (jls_raw_open, scan_initial,
     scan_sources, scan_signals following item_next, rd_chunk_end = RepairModel.rp_scan) SUCCEEDS on f, the reader stands on the
     END chunk (so rdm_open does not ask for repair), and the signal table it has built is the fold of the reader's handlers
     (handle_signal_def / handle_track_head, LinksRead.lk_sigs_step) over EXACTLY the chunks of the signal list, in append
     order, each as (offset, header, payload) read off f.  Guards, decidable on a run:
        G_bigdef   every chunk of the three definition lists fits the reader's 1 MiB buffer (ReaderModel has no realloc);
        G_parse    the payload of every SOURCE_DEF chunk with chunk_meta < 256 parses (64 reserved bytes, five strings) - the
                   writer model builds such payloads, but no theorem says what the PAYLOAD of each chunk of the view is;
        rf_len f < 2^63.
   K2, second half, class P of Properties_e2e (links_K2_opened_state_partial): rdm_open f = RdmOpened st with e2_R0 (the stored
     definition of sid, FSR head offsets = psi(heads) = the writer's head table at close - by e2e_prog_head_offsets_partial and
     e2e_L1_L2_model_file_partial, the TRACK_FSR_HEAD chunk the reader finds IS the writer's -, sample_id_offset = timestamp of
     the first DATA chunk, through jls_core_scan_fsr_sample_id).  Further guards, decidable on a run:
        G_once     the signal list read off f is A ++ tdef :: B ++ thead :: C where tdef is a SIGNAL_DEF chunk with chunk_meta
                   sid, thead a TRACK_FSR_HEAD chunk naming sid, no chunk of A, B names sid (lk_hit) and no chunk of C is a
                   SIGNAL_DEF of sid or a HEAD-kind chunk of track type 0 naming sid (lk_touch): i.e. "the signal id is
                   defined once in the file".  (That tdef carries wm_signal_payload d and thead the writer's head table is
                   PROVED: LinksDef.lk_sigdef_chunk, LinksMain.lk_head_chunk.)
        G_others   every HEAD-kind chunk of track type 0 that names ANOTHER signal has first table entry 0 (no other FSR
                   signal carries data: true in class P, but needs the contents of those chunks);
        the ten fixed fields of d below 2^32 (the model's sigdef fields are unbounded N; the file stores uint32).
     What is proved and NOT guarded: the item_next chains, that the scans visit exactly the list, the codecs, that the SIGNAL_DEF
     payload and the head table the reader decodes are the writer's, sample_id_offset.  What the guards G_parse / G_once /
     G_others would need to be discharged: that (tag, chunk_meta) is unique on the signal list and that every chunk of it
     belongs to a signal of the writer's state (then G_once, G_others follow from the track invariants), and the payload of
     every SOURCE_DEF chunk (G_parse).
   K3 (links_C01_byte_level_end_to_end_partial): e2e_C01_fsr_read_partial with "exists st0, rdm_open f = RdmOpened st0 /\ P st0"
     in the place of the two hypotheses about jls_rd_open; same guards as K2 second half + those of e2e_C01_fsr_read_partial.
   Example: the guards hold for E2eExample's program (computed). *)
From Coq Require Import NArith ZArith List Bool.
From JLS Require Import Generated CrcDefs Spec Format WriteOnce WriteOnceProofs WmRaw WmCore WmTs WmFsr WriterModel WmProofs
  WmWriteOnce WmWriteOnce2 WmWriteOnce3 WmWriteOnce4
  BitCopyModel FsrPackModel PyramidModel PyramidProofs RefineLog RefineFsr RefinePyr RefinePyr2 RefineBits2 RefineProg
  RepairRaw RepairModel ReaderModel ComposeFsr ComposeExamples
  E2eLog E2eNoTrunc E2eRead E2eModel E2eFsr E2eFsr2 E2eProg E2eDisk E2eTop E2eOpen E2eMain E2eExample E2eCodec
  LinksCore LinksCore2 LinksFsr LinksApi LinksTop LinksExample LinksRead LinksOpen LinksFold LinksMain LinksDef LinksMain2 LinksExample2.
Import ListNotations.
Local Open Scope N_scope.

(* ================================================================ vocabulary *)
Theorem links_vocabulary :
  (forall tag, lk_key tag =
     if tag =? JLS_TAG_SOURCE_DEF then 1
     else if tag =? JLS_TAG_USER_DATA then 3
     else if (tag =? JLS_TAG_SIGNAL_DEF) || (fm_is_track_tag tag && (fm_tag_chunk_kind tag <=? JLS_TRACK_CHUNK_HEAD)) then 2
     else 0) /\
  (forall k p, lk_on k p = (lk_key (fm_tag (snd p)) =? k)) /\
  (forall nxt, lk_linked nxt [] <-> True) /\
  (forall nxt p r, lk_linked nxt (p :: r) <-> (fm_item_next (snd p) = nxt /\ lk_linked (fst p) r)) /\
  (forall o, lk_pfind o [] = None) /\
  (forall o p r, lk_pfind o (p :: r) = if fst p =? o then Some (snd p) else lk_pfind o r) /\
  (forall k P c, lk_list k P c <->
     (lk_linked 0 (filter (lk_on k) P) /\
      match filter (lk_on k) P with
      | [] => wm_ck_offset c = 0
      | p :: _ => wm_ck_offset c = fst p /\ fst p <> 0 /\ lk_pfind (fst p) P = Some (snd p)
      end)) /\
  (forall b P, lk_dl b P <->
     (lk_list 1 P (wm_b_source_head b) /\ lk_list 2 P (wm_b_signal_head b) /\ lk_list 3 P (wm_b_ud_head b))) /\
  (forall E, wo_pairs E = map (fun x => (wo_e_off x, wo_e_hdr x)) E).
Proof. exact lk_vocabulary. Qed.
Print Assumptions links_vocabulary.

(* ================================================================ K1 *)
(* in the final state of the write-once checker (extents newest first, each with its CURRENT header) *)
Theorem links_K1_checker_state : forall (summ1 : N -> list N -> wm_sentry) (summN : bool -> list wm_sentry -> wm_sentry) (p : list wop),
  let st := fst (wm_run_full summ1 summN p) in
  wm_st_fault st = false -> wmw_bounded (wm_st_log st) ->
  exists s, wo_run false wo_st0 0 (wmw_evs (wm_st_log st)) = inl s /\ wo_pending s = WoIdle /\
            lk_dl (wm_st_base st) (wo_pairs (wo_exts s)).
Proof. exact lk_run_final. Qed.
Print Assumptions links_K1_checker_state.

(* on the file bytes *)
Theorem links_K1_definition_lists_in_file : forall (summ1 : N -> list N -> wm_sentry) (summN : bool -> list wm_sentry -> wm_sentry) (p : list wop),
  let st := fst (wm_run_full summ1 summN p) in
  wm_st_fault st = false -> wmw_bounded (wm_st_log st) ->
  let f := e2_file summ1 summN p in
  forall k, k = 1 \/ k = 2 \/ k = 3 ->
  let l := filter (fun c => lk_key (rc_tag c) =? k) (rf_chunks (wm_st_log st)) in
  forall i c, nth_error l i = Some c ->
    exists h pl, e2_chunk_at f (rc_off c) h pl /\ fm_tag h = rc_tag c /\ fm_chunk_meta h = rc_meta c /\
      fm_item_next h = match nth_error l (S i) with Some c' => rc_off c' | None => 0 end.
Proof. exact lk_file_links. Qed.
Print Assumptions links_K1_definition_lists_in_file.

(* ================================================================ example: E2eExample's program *)
Theorem links_example_hypotheses :
  wm_st_fault (fst (wm_run_full wm_zero_summ1 wm_zero_summN (cx_p1 ++ WSig cx_sig :: cx_p2))) = false /\
  wmw_bounded (wm_st_log (fst (wm_run_full wm_zero_summ1 wm_zero_summN (cx_p1 ++ WSig cx_sig :: cx_p2)))).
Proof. exact lk_ex_hyps. Qed.
Print Assumptions links_example_hypotheses.

(* lk_ex_next k = (item_next decoded from the file bytes at each chunk of list k, Some (offset of its successor) / Some 0,
   number of chunks): computed, the links are there (2 sources, 14 signal-list chunks = 2 signals x 7, 1 user-data chunk) *)
Theorem links_example_vocabulary : forall k, lk_ex_next k =
  let p := cx_p1 ++ WSig cx_sig :: cx_p2 in
  let f := e2_file wm_zero_summ1 wm_zero_summN p in
  let l := filter (fun c => lk_key (rc_tag c) =? k) (rf_chunks (wm_st_log (fst (wm_run_full wm_zero_summ1 wm_zero_summN p)))) in
  (map (fun c => option_map fm_item_next (fm_decode_chunk_header (skipn (N.to_nat (rc_off c)) f))) l,
   map Some (tl (map rc_off l) ++ [0]), length l).
Proof. exact lk_ex_next_eq. Qed.
Print Assumptions links_example_vocabulary.

Theorem links_example_links :
  fst (fst (lk_ex_next 1)) = snd (fst (lk_ex_next 1)) /\ (2 <= snd (lk_ex_next 1))%nat /\
  fst (fst (lk_ex_next 2)) = snd (fst (lk_ex_next 2)) /\ (14 <= snd (lk_ex_next 2))%nat /\
  fst (fst (lk_ex_next 3)) = snd (fst (lk_ex_next 3)) /\ (1 <= snd (lk_ex_next 3))%nat.
Proof. exact lk_ex_links. Qed.
Print Assumptions links_example_links.

(* ================================================================ vocabulary of the reader-side statements *)
Theorem links_vocabulary_reader :
  (forall t : lk_ck, lk_ck_off t = fst (fst t) /\ lk_ck_hdr t = snd (fst t) /\ lk_ck_pay t = snd t) /\
  (forall f t, lk_ck_ok f t <->
     (e2_chunk_at f (lk_ck_off t) (lk_ck_hdr t) (lk_ck_pay t) /\ fm_tag (lk_ck_hdr t) <> JLS_TAG_INVALID /\
      fm_disk_len (rf_len (lk_ck_pay t)) <= JLS_BUF_DEFAULT_SIZE /\ lk_ck_off t < rp_two63)) /\
  (forall f t c, lk_ck_of f t c <->
     (lk_ck_off t = rc_off c /\ e2_chunk_at f (rc_off c) (lk_ck_hdr t) (lk_ck_pay t) /\
      fm_tag (lk_ck_hdr t) = rc_tag c /\ fm_chunk_meta (lk_ck_hdr t) = rc_meta c)) /\
  (forall f c, lk_rl1 f c =
     (rc_off c, fm_ch_fields (fm_sub (rc_off c) 32 f),
      fm_sub (rc_off c + 32) (fm_payload_length (fm_ch_fields (fm_sub (rc_off c) 32 f))) f)) /\
  (forall c1, lk_sig_handle c1 =
     if fm_tag (wm_ck_hdr (rp_cur (rp_io_ c1))) =? JLS_TAG_SIGNAL_DEF then rp_handle_signal_def c1
     else if N.land (fm_tag (wm_ck_hdr (rp_cur (rp_io_ c1)))) 7 =? JLS_TRACK_CHUNK_DEF then c1
     else if N.land (fm_tag (wm_ck_hdr (rp_cur (rp_io_ c1)))) 7 =? JLS_TRACK_CHUNK_HEAD then rp_handle_track_head c1
     else c1) /\
  (forall sigs t, lk_sigs_step sigs t =
     rp_sigs (lk_sig_handle
       {| rp_io_ := {| rp_file := []; rp_flen := 0; rp_r := rp_raw0; rp_buf := lk_ck_pay t; rp_buf_len := rf_len (lk_ck_pay t);
                       rp_cur := {| wm_ck_offset := lk_ck_off t; wm_ck_hdr := lk_ck_hdr t |}; rp_flt := 0 |};
          rp_src_head := wm_chunk0; rp_sig_head := wm_chunk0; rp_ud_head := wm_chunk0; rp_sigs := sigs |})) /\
  (forall sid t, lk_hit sid t =
     if fm_tag (lk_ck_hdr t) =? JLS_TAG_SIGNAL_DEF then fm_chunk_meta (lk_ck_hdr t) =? sid
     else (N.land (fm_tag (lk_ck_hdr t)) 7 =? JLS_TRACK_CHUNK_HEAD) && (N.land (fm_chunk_meta (lk_ck_hdr t)) CORE_SIGNAL_MASK =? sid)) /\
  (forall sid t, lk_touch sid t =
     if fm_tag (lk_ck_hdr t) =? JLS_TAG_SIGNAL_DEF then fm_chunk_meta (lk_ck_hdr t) =? sid
     else (N.land (fm_tag (lk_ck_hdr t)) 7 =? JLS_TRACK_CHUNK_HEAD) && (N.land (fm_chunk_meta (lk_ck_hdr t)) CORE_SIGNAL_MASK =? sid) &&
          (fm_tag_track_type (fm_tag (lk_ck_hdr t)) =? JLS_TRACK_TYPE_FSR)) /\
  (forall sid t, lk_fsrhead_other sid t =
     negb (fm_tag (lk_ck_hdr t) =? JLS_TAG_SIGNAL_DEF) && (N.land (fm_tag (lk_ck_hdr t)) 7 =? JLS_TRACK_CHUNK_HEAD) &&
     (fm_tag_track_type (fm_tag (lk_ck_hdr t)) =? JLS_TRACK_TYPE_FSR) && negb (N.land (fm_chunk_meta (lk_ck_hdr t)) CORE_SIGNAL_MASK =? sid)).
Proof. exact lk_vocabulary_reader. Qed.
Print Assumptions links_vocabulary_reader.

(* ================================================================ K2, first half: the scan phase of jls_rd_open, EVERY program *)
Theorem links_K2_scan_phase_partial : forall summ1 summN p,
  let st := fst (wm_run_full summ1 summN p) in
  wm_st_fault st = false -> wmw_bounded (wm_st_log st) ->
  let f := e2_file summ1 summN p in
  let cs := rf_chunks (wm_st_log st) in
  rf_len f < rp_two63 ->
  e2t_bigb (filter (fun c => negb (lk_key (rc_tag c) =? 0)) cs) = true ->
  forallb (fun c => (JLS_SOURCE_COUNT <=? rc_meta c) || (rp_source_parse (rc_pay c) =? 0))
          (filter (fun c => lk_key (rc_tag c) =? 1) cs) = true ->
  let R2 := map (lk_rl1 f) (filter (fun c => lk_key (rc_tag c) =? 2) cs) in
  exists c, rp_scan f = inr c /\ e2_rdr (rp_io_ c) f /\ fm_tag (wm_ck_hdr (rp_cur (rp_io_ c))) = JLS_TAG_END /\
     Forall2 (lk_ck_of f) R2 (filter (fun c => lk_key (rc_tag c) =? 2) cs) /\ Forall (lk_ck_ok f) R2 /\
     rp_sigs c = fold_left lk_sigs_step R2 (map rp_sig0 rp_signal_ids).
Proof. exact lk_scan_file_det. Qed.
Print Assumptions links_K2_scan_phase_partial.

(* reader side, ANY signal table and list: the entry of sid after the fold over a list of the shape A ++ def :: B ++ head :: C *)
Theorem links_K2_fold_at_signal : forall sid d A tdef B thead C,
  sid < 256 ->
  Forall (fun t => lk_hit sid t = false) A -> Forall (fun t => lk_hit sid t = false) B -> Forall (fun t => lk_touch sid t = false) C ->
  fm_tag (lk_ck_hdr tdef) = JLS_TAG_SIGNAL_DEF -> fm_chunk_meta (lk_ck_hdr tdef) = sid -> lk_ck_pay tdef = wm_signal_payload d ->
  lk_ck_off tdef <> 0 ->
  fm_tag (lk_ck_hdr thead) = JLS_TAG_TRACK_FSR_HEAD -> N.land (fm_chunk_meta (lk_ck_hdr thead)) CORE_SIGNAL_MASK = sid ->
  rf_len (lk_ck_pay thead) = SIZEOF_track_head ->
  sg_src d < 256 -> sg_type d = JLS_SIGNAL_TYPE_FSR -> wm_dt_valid (sg_dtype d) = true ->
  sg_dtype d < 4294967296 -> sg_rate d < 4294967296 -> sg_spd d < 4294967296 -> sg_sdf d < 4294967296 -> sg_eps d < 4294967296 ->
  sg_sumdf d < 4294967296 -> sg_adf d < 4294967296 -> sg_udf d < 4294967296 ->
  wm_str_fits (sg_name d) = true -> wm_str_fits (sg_units d) = true ->
  lk_Q (lk_ent (fold_left lk_sigs_step (A ++ tdef :: B ++ thead :: C) (map rp_sig0 rp_signal_ids)) sid)
       sid (lk_ck_off tdef) (lk_rd_def sid d) 0%Z (lk_head_entry thead (wm_track0 0)).
Proof. exact lk_fold_pattern. Qed.
Print Assumptions links_K2_fold_at_signal.

(* ================================================================ K2, second half: the opened state, class P *)
Theorem links_K2_opened_state_partial : forall (summ1 : N -> list N -> wm_sentry) (summN : bool -> list wm_sentry -> wm_sentry)
    (d0 d : sigdef) (pos0 : Z) (p1 p2 : list wop) (stf : py_wr),
  (0 < pos0)%Z -> sg_id d <> 0 -> sg_type d = JLS_SIGNAL_TYPE_FSR -> sg_eps d * sg_sdf d < 4294967296 ->
  let sid := sg_id d in
  let w := dt_bits (sg_dtype d) in
  let pd := rf_pd d in
  let p := p1 ++ WSig d0 :: p2 in
  Forall (rp_ok sid) p ->
  Forall (fun o => match o with WSig d' => sg_id d' <> sid | _ => True end) p1 ->
  snd (wm_api_signal_def (fst (wm_steps summ1 summN wm_api_open p1 [])) d0) = 0 -> wm_sig_align d0 = Some d ->
  let ops := rp_proj sid p2 in
  py_srun pd (w <=? 8) (rf_t0 ops) pos0 (rf_script d rf_bs0 ops) = PyOk stf ->
  wm_fill_sample (sg_dtype d) = fill_value (sg_dtype d) ->
  let g := fold_left (fun g c => fsr_write g (fst c) (snd c)) (rf_calls ops) (new_sig d) in
  rd_length g <> 0 ->
  let stF := fst (wm_run_full summ1 summN p) in
  wmw_bounded (wm_st_log stF) ->
  let f := e2_file summ1 summN p in
  let cs := filter (rf_mine d) (rf_chunks (wm_st_log stF)) in
  e2t_adjb cs = true -> e2t_bigb cs = true ->
  rf_len f < rp_two63 -> sg_spd d < 4294967296 ->
  (- e2_tsb <= rf_t0 ops)%Z /\ (rf_t0 ops + Z.of_N (rd_length g) + Z.of_N (sg_spd d) <= e2_tsb)%Z ->
  (forall k, (1 <= k)%nat -> nth k (pw_heads stf) 0%Z <> 0%Z -> (py_step pd k < rdm_two63)%Z) ->
  let psi := rf_psi (map rc_off cs) pos0 in
  (* the guards of the definition lists *)
  let csA := rf_chunks (wm_st_log stF) in
  e2t_bigb (filter (fun c => negb (lk_key (rc_tag c) =? 0)) csA) = true ->
  forallb (fun c => (JLS_SOURCE_COUNT <=? rc_meta c) || (rp_source_parse (rc_pay c) =? 0))
          (filter (fun c => lk_key (rc_tag c) =? 1) csA) = true ->
  sg_dtype d < 4294967296 -> sg_rate d < 4294967296 -> sg_sdf d < 4294967296 -> sg_eps d < 4294967296 ->
  sg_sumdf d < 4294967296 -> sg_adf d < 4294967296 -> sg_udf d < 4294967296 ->
  let R2 := map (lk_rl1 f) (filter (fun c => lk_key (rc_tag c) =? 2) csA) in
  (exists A tdef B thead C, R2 = A ++ tdef :: B ++ thead :: C /\
     Forall (fun t => lk_hit sid t = false) A /\ Forall (fun t => lk_hit sid t = false) B /\ Forall (fun t => lk_touch sid t = false) C /\
     fm_tag (lk_ck_hdr tdef) = JLS_TAG_SIGNAL_DEF /\ fm_chunk_meta (lk_ck_hdr tdef) = sid /\
     fm_tag (lk_ck_hdr thead) = JLS_TAG_TRACK_FSR_HEAD /\ N.land (fm_chunk_meta (lk_ck_hdr thead)) CORE_SIGNAL_MASK = sid) ->
  Forall (fun t => lk_fsrhead_other sid t = true -> fm_dec_u64 (lk_ck_pay t) = 0) R2 ->
  exists st, rdm_open f = RdmOpened st /\ e2_R0 f d (pw_heads stf) psi (rf_t0 ops) st.
Proof. exact lk_open_R0_v2. Qed.
Print Assumptions links_K2_opened_state_partial.

(* ================================================================ K3 *)
Theorem links_C01_byte_level_end_to_end_partial : forall (summ1 : N -> list N -> wm_sentry) (summN : bool -> list wm_sentry -> wm_sentry)
    (d0 d : sigdef) (pos0 : Z) (p1 p2 : list wop) (stf : py_wr),
  (0 < pos0)%Z -> sg_id d <> 0 -> sg_type d = JLS_SIGNAL_TYPE_FSR -> sg_eps d * sg_sdf d < 4294967296 ->
  let sid := sg_id d in
  let w := dt_bits (sg_dtype d) in
  let pd := rf_pd d in
  let p := p1 ++ WSig d0 :: p2 in
  Forall (rp_ok sid) p ->
  Forall (fun o => match o with WSig d' => sg_id d' <> sid | _ => True end) p1 ->
  snd (wm_api_signal_def (fst (wm_steps summ1 summN wm_api_open p1 [])) d0) = 0 -> wm_sig_align d0 = Some d ->
  let ops := rp_proj sid p2 in
  py_srun pd (w <=? 8) (rf_t0 ops) pos0 (rf_script d rf_bs0 ops) = PyOk stf ->
  wm_fill_sample (sg_dtype d) = fill_value (sg_dtype d) ->
  8 < w -> cmp_no_omit ops ->
  let g := fold_left (fun g c => fsr_write g (fst c) (snd c)) (rf_calls ops) (new_sig d) in
  rd_length g <> 0 ->
  let stF := fst (wm_run_full summ1 summN p) in
  wmw_bounded (wm_st_log stF) ->
  let f := e2_file summ1 summN p in
  let cs := filter (rf_mine d) (rf_chunks (wm_st_log stF)) in
  e2t_adjb cs = true -> e2t_bigb cs = true ->
  rf_len f < rp_two63 -> sg_spd d < 4294967296 ->
  (- e2_tsb <= rf_t0 ops)%Z /\ (rf_t0 ops + Z.of_N (rd_length g) + Z.of_N (sg_spd d) <= e2_tsb)%Z ->
  (forall k, (1 <= k)%nat -> nth k (pw_heads stf) 0%Z <> 0%Z -> (py_step pd k < rdm_two63)%Z) ->
  let psi := rf_psi (map rc_off cs) pos0 in
  let csA := rf_chunks (wm_st_log stF) in
  e2t_bigb (filter (fun c => negb (lk_key (rc_tag c) =? 0)) csA) = true ->
  forallb (fun c => (JLS_SOURCE_COUNT <=? rc_meta c) || (rp_source_parse (rc_pay c) =? 0))
          (filter (fun c => lk_key (rc_tag c) =? 1) csA) = true ->
  sg_dtype d < 4294967296 -> sg_rate d < 4294967296 -> sg_sdf d < 4294967296 -> sg_eps d < 4294967296 ->
  sg_sumdf d < 4294967296 -> sg_adf d < 4294967296 -> sg_udf d < 4294967296 ->
  let R2 := map (lk_rl1 f) (filter (fun c => lk_key (rc_tag c) =? 2) csA) in
  (exists A tdef B thead C, R2 = A ++ tdef :: B ++ thead :: C /\
     Forall (fun t => lk_hit sid t = false) A /\ Forall (fun t => lk_hit sid t = false) B /\ Forall (fun t => lk_touch sid t = false) C /\
     fm_tag (lk_ck_hdr tdef) = JLS_TAG_SIGNAL_DEF /\ fm_chunk_meta (lk_ck_hdr tdef) = sid /\
     fm_tag (lk_ck_hdr thead) = JLS_TAG_TRACK_FSR_HEAD /\ N.land (fm_chunk_meta (lk_ck_hdr thead)) CORE_SIGNAL_MASK = sid) ->
  Forall (fun t => lk_fsrhead_other sid t = true -> fm_dec_u64 (lk_ck_pay t) = 0) R2 ->
  let P := e2_P f d (pw_disk stf) (pw_heads stf) psi (rf_t0 ops) (Z.of_N (rd_length g)) in
  wm_st_fault stF = false /\
  exists st0, rdm_open f = RdmOpened st0 /\ P st0 /\
  forall st, P st ->
    (exists st', rdm_fsr_length st sid = (st', 0, Z.of_N (rd_length g)) /\ P st' /\
                 rdm_stale st' = rdm_stale st /\ rdm_flt st' = rdm_flt st) /\
    forall recon f32_of_f64 start len dst,
      (0 <= start)%Z -> (0 < len)%Z -> (start + len <= Z.of_N (rd_length g))%Z -> Z.to_N len * w <= 8 * N.of_nat (length dst) ->
      exists st' pcs out,
        rdm_fsr recon f32_of_f64 st sid start len dst = (st', 0, out, pcs) /\ P st' /\
        rdm_stale st' = rdm_stale st /\ rdm_flt st' = rdm_flt st /\ length out = length dst /\
        firstn (N.to_nat (Z.to_N len * w)) (bc_bits out) =
          flat_map (bits_of (N.to_nat w)) (firstn (Z.to_nat len) (skipn (Z.to_nat start) (ss_samples g))) /\
        skipn (N.to_nat (Z.to_N len * w)) (bc_bits out) = skipn (N.to_nat (Z.to_N len * w)) (bc_bits dst) /\
        (dst = repeat 0 (N.to_nat ((Z.to_N len * w + 7) / 8)) -> rd_window g (Z.to_N start) (Z.to_N len) = Some out).
Proof. exact lk_C01_byte_level_v2. Qed.
Print Assumptions links_C01_byte_level_end_to_end_partial.

(* ================================================================ example: the new guards hold for E2eExample's program (the others: e2e_example_hypotheses) *)
Theorem links_example_K3_guards :
  let p := cx_p1 ++ WSig cx_sig :: cx_p2 in
  let csA := rf_chunks (wm_st_log (fst (wm_run_full wm_zero_summ1 wm_zero_summN p))) in
  let sid := sg_id cx_d in
  e2t_bigb (filter (fun c => negb (lk_key (rc_tag c) =? 0)) csA) = true /\
  forallb (fun c => (JLS_SOURCE_COUNT <=? rc_meta c) || (rp_source_parse (rc_pay c) =? 0))
          (filter (fun c => lk_key (rc_tag c) =? 1) csA) = true /\
  sg_dtype cx_d < 4294967296 /\ sg_rate cx_d < 4294967296 /\ sg_sdf cx_d < 4294967296 /\ sg_eps cx_d < 4294967296 /\
  sg_sumdf cx_d < 4294967296 /\ sg_adf cx_d < 4294967296 /\ sg_udf cx_d < 4294967296 /\
  (exists A tdef B thead C, lk_ex_R2 = A ++ tdef :: B ++ thead :: C /\
     Forall (fun t => lk_hit sid t = false) A /\ Forall (fun t => lk_hit sid t = false) B /\ Forall (fun t => lk_touch sid t = false) C /\
     fm_tag (lk_ck_hdr tdef) = JLS_TAG_SIGNAL_DEF /\ fm_chunk_meta (lk_ck_hdr tdef) = sid /\
     fm_tag (lk_ck_hdr thead) = JLS_TAG_TRACK_FSR_HEAD /\ N.land (fm_chunk_meta (lk_ck_hdr thead)) CORE_SIGNAL_MASK = sid) /\
  Forall (fun t => lk_fsrhead_other sid t = true -> fm_dec_u64 (lk_ck_pay t) = 0) lk_ex_R2.
Proof. exact lk_ex_guards_v2. Qed.
Print Assumptions links_example_K3_guards.

Theorem links_example_vocabulary_R2 : lk_ex_R2 =
  let p := cx_p1 ++ WSig cx_sig :: cx_p2 in
  let f := e2_file wm_zero_summ1 wm_zero_summN p in
  map (lk_rl1 f) (filter (fun c => lk_key (rc_tag c) =? 2) (rf_chunks (wm_st_log (fst (wm_run_full wm_zero_summ1 wm_zero_summN p))))).
Proof. exact lk_ex_R2_eq. Qed.
Print Assumptions links_example_vocabulary_R2.
