(* THE ITEM_NEXT LINK INVARIANT of the byte-exact writer model (goal K1 of the "links" slice; proofs in LinksCore /
   LinksCore2 / LinksFsr / LinksApi / LinksTop / LinksExample).  No new model: a strengthening of the invariants of the
   write-once simulation (WmWriteOnce*.v), whose frame forgets item_next.

   K1, COMPLETE, EVERY program p (guards as in Properties_e2e / Properties_C14_writer: no model fault, bounded log):
     in the file f = e2_file p of jls_wr_open; p; jls_wr_close, for each of the three DEFINITION LISTS
        k = 1  source list      (tag SOURCE_DEF)
        k = 2  signal list      (tags SIGNAL_DEF, TRACK_*_DEF, TRACK_*_HEAD)
        k = 3  user-data list   (tag USER_DATA)
     let l be the chunks of the chunk view of the complete log (RefineLog.rf_chunks) whose tag is on list k, in append order:
     the 32 header bytes in f at the offset of the i-th chunk of l decode (valid CRC; payload and payload CRC complete:
     E2eLog.e2_chunk_at) to a header with the chunk's tag and chunk_meta whose item_next is the offset of the (i+1)-th chunk
     of l, and 0 for the last one (links_K1_definition_lists_in_file).
     The same in the write-once checker's final state, together with: the newest chunk of each list is the one the writer's
     source_head / signal_head / user_data_head points to (links_K1_checker_state).
   The per-track DATA / INDEX / SUMMARY lists are NOT covered (not needed for jls_rd_open); the track invariant only records
   that their cached heads carry tags of none of the three lists.

   NOT DONE (goals K2, K3): that jls_rd_open's scans (RepairRaw.rp_scan_initial / _sources / _signals, rp_rd_chunk_end,
   rp_scan_fsr_sample_id; ReaderModel.rdm_open) run on f produce the reader state e2_R0 of Properties_e2e, and the restatement of
   e2e_C01_fsr_read_partial without the hypotheses rdm_open f = RdmOpened st / e2_R0.  What K2 still needs beyond this file:
   the scans' loop lemmas over a linked list of complete chunks (each step = e2e_L1_reader_reads_complete_chunk + the link
   given here), that every SOURCE_DEF / SIGNAL_DEF payload of the writer model parses (strings), that the chunks of the
   signal list with chunk_meta = sid are exactly those of the accepted WSig call, the END-chunk search, and a guard that the
   first DATA chunk of every FSR signal fits the reader's 1 MiB buffer. *)
From Coq Require Import NArith ZArith List Bool.
From JLS Require Import Generated CrcDefs Spec Format WriteOnce WriteOnceProofs WmRaw WmCore WmTs WmFsr WriterModel WmProofs
  WmWriteOnce WmWriteOnce2 WmWriteOnce3 WmWriteOnce4 RefineLog ComposeExamples E2eLog E2eNoTrunc E2eModel E2eExample
  LinksCore LinksCore2 LinksFsr LinksApi LinksTop LinksExample.
Import ListNotations.
Local Open Scope N_scope.

(* ================================================================ vocabulary *)
Theorem links_vocabulary :
  (forall tag, lk_key tag =
     if tag =? JLS_TAG_SOURCE_DEF then 1
     else if tag =? JLS_TAG_USER_DATA then 3
     else if (tag =? JLS_TAG_SIGNAL_DEF) || (fm_is_track_tag tag && (fm_tag_chunk_kind tag <=? JLS_TRACK_CHUNK_HEAD)) then 2
     else 0) /\
  (forall k p, lk_on k p = (lk_key (fm_tag (snd p)) =? k)) /\
  (forall nxt, lk_linked nxt [] <-> True) /\
  (forall nxt p r, lk_linked nxt (p :: r) <-> (fm_item_next (snd p) = nxt /\ lk_linked (fst p) r)) /\
  (forall o, lk_pfind o [] = None) /\
  (forall o p r, lk_pfind o (p :: r) = if fst p =? o then Some (snd p) else lk_pfind o r) /\
  (forall k P c, lk_list k P c <->
     (lk_linked 0 (filter (lk_on k) P) /\
      match filter (lk_on k) P with
      | [] => wm_ck_offset c = 0
      | p :: _ => wm_ck_offset c = fst p /\ fst p <> 0 /\ lk_pfind (fst p) P = Some (snd p)
      end)) /\
  (forall b P, lk_dl b P <->
     (lk_list 1 P (wm_b_source_head b) /\ lk_list 2 P (wm_b_signal_head b) /\ lk_list 3 P (wm_b_ud_head b))) /\
  (forall E, wo_pairs E = map (fun x => (wo_e_off x, wo_e_hdr x)) E).
Proof. exact lk_vocabulary. Qed.
Print Assumptions links_vocabulary.

(* ================================================================ K1 *)
(* in the final state of the write-once checker (extents newest first, each with its CURRENT header) *)
Theorem links_K1_checker_state : forall (summ1 : N -> list N -> wm_sentry) (summN : bool -> list wm_sentry -> wm_sentry) (p : list wop),
  let st := fst (wm_run_full summ1 summN p) in
  wm_st_fault st = false -> wmw_bounded (wm_st_log st) ->
  exists s, wo_run false wo_st0 0 (wmw_evs (wm_st_log st)) = inl s /\ wo_pending s = WoIdle /\
            lk_dl (wm_st_base st) (wo_pairs (wo_exts s)).
Proof. exact lk_run_final. Qed.
Print Assumptions links_K1_checker_state.

(* on the file bytes *)
Theorem links_K1_definition_lists_in_file : forall (summ1 : N -> list N -> wm_sentry) (summN : bool -> list wm_sentry -> wm_sentry) (p : list wop),
  let st := fst (wm_run_full summ1 summN p) in
  wm_st_fault st = false -> wmw_bounded (wm_st_log st) ->
  let f := e2_file summ1 summN p in
  forall k, k = 1 \/ k = 2 \/ k = 3 ->
  let l := filter (fun c => lk_key (rc_tag c) =? k) (rf_chunks (wm_st_log st)) in
  forall i c, nth_error l i = Some c ->
    exists h pl, e2_chunk_at f (rc_off c) h pl /\ fm_tag h = rc_tag c /\ fm_chunk_meta h = rc_meta c /\
      fm_item_next h = match nth_error l (S i) with Some c' => rc_off c' | None => 0 end.
Proof. exact lk_file_links. Qed.
Print Assumptions links_K1_definition_lists_in_file.

(* ================================================================ example: E2eExample's program *)
Theorem links_example_hypotheses :
  wm_st_fault (fst (wm_run_full wm_zero_summ1 wm_zero_summN (cx_p1 ++ WSig cx_sig :: cx_p2))) = false /\
  wmw_bounded (wm_st_log (fst (wm_run_full wm_zero_summ1 wm_zero_summN (cx_p1 ++ WSig cx_sig :: cx_p2)))).
Proof. exact lk_ex_hyps. Qed.
Print Assumptions links_example_hypotheses.

(* lk_ex_next k = (item_next decoded from the file bytes at each chunk of list k, Some (offset of its successor) / Some 0,
   number of chunks): computed, the links are there (2 sources, 14 signal-list chunks = 2 signals x 7, 1 user-data chunk) *)
Theorem links_example_vocabulary : forall k, lk_ex_next k =
  let p := cx_p1 ++ WSig cx_sig :: cx_p2 in
  let f := e2_file wm_zero_summ1 wm_zero_summN p in
  let l := filter (fun c => lk_key (rc_tag c) =? k) (rf_chunks (wm_st_log (fst (wm_run_full wm_zero_summ1 wm_zero_summN p)))) in
  (map (fun c => option_map fm_item_next (fm_decode_chunk_header (skipn (N.to_nat (rc_off c)) f))) l,
   map Some (tl (map rc_off l) ++ [0]), length l).
Proof. exact lk_ex_next_eq. Qed.
Print Assumptions links_example_vocabulary.

Theorem links_example_links :
  fst (fst (lk_ex_next 1)) = snd (fst (lk_ex_next 1)) /\ (2 <= snd (lk_ex_next 1))%nat /\
  fst (fst (lk_ex_next 2)) = snd (fst (lk_ex_next 2)) /\ (14 <= snd (lk_ex_next 2))%nat /\
  fst (fst (lk_ex_next 3)) = snd (fst (lk_ex_next 3)) /\ (1 <= snd (lk_ex_next 3))%nat.
Proof. exact lk_ex_links. Qed.
Print Assumptions links_example_links.
