(* WHAT THE REPAIR-ON-OPEN WRITES, part 4: the reader's state.  The invariant [ry_acc] between the state of the
   repairing open (RepairModel.rp_w) and the classifier state after the events so far; reads keep it (ry_rd), every
   write goes through rp_commit (ry_commit); then jls_core_update_chunk_header, jls_track_wr_head and
   jls_track_repair_pointers (track.c).  Every top-level name starts with ry_. *)
From Coq Require Import NArith ZArith List Bool Lia Arith.
From Coq Require Import ZifyBool ZifyN ZifyNat.
From JLS Require Import Generated CrcDefs Spec Format FormatProofs WriteOnce WriteOnceProofs WmRaw WmCore WmFsr WriterModel WmProofs
  WmWriteOnce WmWriteOnce2 RepairRaw RawReadProofs RepairModel RepairProofs RepairProofs2 RepairProofs3 RepairWo RepairWo2 RepairWo3.
Import ListNotations.
Local Open Scope N_scope.
Ltac Zify.zify_post_hook ::= Z.div_mod_to_equations.

Local Opaque crc32c.

(* ================================================================ reads *)
Definition ry_rd (s s' : rp_io) : Prop :=
  rpp_frame s s' /\ (rr_inv s -> rr_inv s') /\ (rp_flt s' = 0 -> rp_flt s = 0).
Lemma ry_rd_refl : forall s, ry_rd s s.
Proof. intros. split; [apply rpp_frame_refl | split; auto]. Qed.
Lemma ry_rd_trans : forall a b c, ry_rd a b -> ry_rd b c -> ry_rd a c.
Proof. intros a b c (F1 & I1 & L1) (F2 & I2 & L2). split; [eapply rpp_frame_trans; eauto | split; auto]. Qed.
Lemma ry_rd_chunk_seek : forall s o, ry_rd s (fst (rp_chunk_seek s o)).
Proof.
  intros s o. split; [apply rpp_chunk_seek_frame |]. split; [apply rr_inv_chunk_seek |]. rewrite rpp_chunk_seek_flt. auto.
Qed.
Lemma ry_rd_rd_chunk : forall s, ry_rd s (fst (rp_rd_chunk s)).
Proof.
  intros s. split; [apply rpp_rd_chunk_frame |]. split; [apply rr_inv_rd_chunk |].
  destruct (rpp_rd_chunk_flt s) as [E | E]; rewrite E; [auto | intros X; discriminate X].
Qed.
Lemma ry_rd_seek_end : forall s, ry_rd s (rp_seek_end s).
Proof. intros s. split; [apply rpp_seek_end_frame |]. split; [apply rr_inv_seek_end | auto]. Qed.
Lemma ry_rd_io_fault : forall s c, ry_rd s (rp_io_fault s c).
Proof.
  intros s c. split; [apply rpp_io_fault_frame |]. split; [intros H; exact H |].
  unfold rp_io_fault. cbn [rp_flt]. destruct (rp_flt s =? 0) eqn:E; [intros _; now apply N.eqb_eq in E | auto].
Qed.
Lemma ry_rd_buf_sub : forall s off n, ry_rd s (fst (rp_buf_sub s off n)).
Proof. intros s off n. unfold rp_buf_sub. destruct (JLS_BUF_DEFAULT_SIZE <? off + n); cbn [fst]; [apply ry_rd_io_fault | apply ry_rd_refl]. Qed.
Lemma ry_rd_buf_u32 : forall s off, ry_rd s (fst (rp_buf_u32 s off)).
Proof. intros s off. unfold rp_buf_u32. pose proof (ry_rd_buf_sub s off 4) as H. destruct (rp_buf_sub s off 4). exact H. Qed.
Lemma ry_rd_buf_u64 : forall s off, ry_rd s (fst (rp_buf_u64 s off)).
Proof. intros s off. unfold rp_buf_u64. pose proof (ry_rd_buf_sub s off 8) as H. destruct (rp_buf_sub s off 8). exact H. Qed.
Lemma ry_rd_seek_rd : forall s o,
  ry_rd s (fst (let '(s1, rc1) := rp_chunk_seek s o in if rc1 =? 0 then rp_rd_chunk s1 else (s1, rc1))).
Proof.
  intros s o. pose proof (ry_rd_chunk_seek s o) as H. destruct (rp_chunk_seek s o) as [s1 rc1]. cbn [fst] in H.
  destruct (rc1 =? 0); [| exact H]. eapply ry_rd_trans; [exact H | apply ry_rd_rd_chunk].
Qed.
Lemma ry_rd_first_level : forall k s t ch, ry_rd s (fst (fst (rp_first_level k s t ch))).
Proof.
  induction k as [| k IH]; intros s t ch; cbn [rp_first_level]; [apply ry_rd_refl |].
  destruct (wm_get_off (wm_tk_offsets t) (N.of_nat (S k)) =? 0); [apply IH |].
  pose proof (ry_rd_chunk_seek s (wm_get_off (wm_tk_offsets t) (N.of_nat (S k)))) as H.
  destruct (rp_chunk_seek s (wm_get_off (wm_tk_offsets t) (N.of_nat (S k)))) as [s1 rc]. cbn [fst] in H.
  destruct (rc =? 0); [exact H |]. eapply ry_rd_trans; [exact H | apply IH].
Qed.

(* a successful chunk read: the chunk handed out stands in the file *)
Lemma ry_rd_chunk_ok : forall s s', rr_inv s -> rp_rd_chunk s = (s', 0) ->
  wm_ck_offset (rp_cur s') = rp_offset (rp_r s) /\ rw_hdr_at (rp_file s) (rp_offset (rp_r s)) = Some (wm_ck_hdr (rp_cur s')) /\
  rp_payload s' = fm_sub (rp_offset (rp_r s) + 32) (fm_payload_length (wm_ck_hdr (rp_cur s'))) (rp_file s) /\
  N.of_nat (length (rp_payload s')) = fm_payload_length (wm_ck_hdr (rp_cur s')) /\
  rp_offset (rp_r s) + 32 + fm_disk_len (fm_payload_length (wm_ck_hdr (rp_cur s'))) <= rp_len (rp_file s).
Proof.
  intros s s' Hi H. pose proof (rr_rd_chunk_ok s s' Hi H) as K. cbv zeta in K.
  destruct K as (_ & _ & K3 & K4 & K5 & K6 & K7).
  split; [exact K3 |]. split; [apply rw_hdr_at_rr; exact K4 |]. split; [exact K5 |]. split; [rewrite K6; lia |].
  destruct (N.eq_dec (fm_payload_length (wm_ck_hdr (rp_cur s'))) 0) as [E | E].
  - rewrite E. change (fm_disk_len 0) with 0. destruct K4 as (L & _). unfold fm_sub in L. rewrite firstn_length, skipn_length in L.
    unfold rp_len. lia.
  - destruct (K7 E) as (_ & B & _). unfold rp_len. exact B.
Qed.

(* ================================================================ steps, fresh tracks (independent of the file) *)
Lemma ry_raw_set : forall b r, wm_b_raw (wm_b_set_raw b r) = r.
Proof. reflexivity. Qed.

Definition ry_wstep (w w' : rp_w) : Prop :=
  rp_sigs (rp_c w') = rp_sigs (rp_c w) /\ (rp_flt (rp_w_io w') = 0 -> rp_flt (rp_w_io w) = 0).
Lemma ry_wstep_refl : forall w, ry_wstep w w.
Proof. intros. split; auto. Qed.
Lemma ry_wstep_trans : forall a b c, ry_wstep a b -> ry_wstep b c -> ry_wstep a c.
Proof. intros a b c [A1 A2] [B1 B2]. split; [congruence | auto]. Qed.
Lemma ry_wstep_io : forall w s', ry_rd (rp_w_io w) s' -> ry_wstep w (rp_w_set_io w s').
Proof. intros w s' (_ & _ & H). split; [reflexivity | exact H]. Qed.
Lemma ry_wstep_fault : forall w c, ry_wstep w (rp_w_fault w c).
Proof. intros w c. unfold rp_w_fault. apply ry_wstep_io. apply ry_rd_io_fault. Qed.
Lemma ry_fault_flt : forall w c, c <> 0 -> rp_flt (rp_w_io (rp_w_fault w c)) <> 0.
Proof.
  intros w c Hc. unfold rp_w_fault, rp_w_set_io, rp_w_io, rp_io_fault. cbn [rp_c rp_io_ rp_rd_set_io rp_flt].
  destruct (rp_flt (rp_io_ (rp_c w)) =? 0) eqn:E; [exact Hc | now apply N.eqb_neq in E].
Qed.

(* the index_head / summary_head cells of a track nobody but jls_track_repair_pointers has touched: header all zero *)
Definition ry_cell (n : N) (c : wm_chunk) : Prop := wm_ck_hdr c = wm_hdr0 /\ (wm_ck_offset c = 0 \/ wm_ck_offset c + 32 <= n).
Definition ry_fresh (n : N) (t : wm_track) : Prop :=
  Forall (ry_cell n) (wm_tk_index_head t) /\ Forall (ry_cell n) (wm_tk_summary_head t).
Lemma ry_cell_ck : forall hist n c, ry_cell n c -> rw_ck hist n c.
Proof. intros hist n c (H1 & [H2 | H2]); [left; exact H2 | right]. split; [exact H2 |]. left. rewrite H1. reflexivity. Qed.
Lemma ry_cell_mono : forall n n' c, n <= n' -> ry_cell n c -> ry_cell n' c.
Proof. intros n n' c Hn (H1 & [H2 | H2]); split; auto. right. lia. Qed.
Lemma ry_fresh_mono : forall n n' t, n <= n' -> ry_fresh n t -> ry_fresh n' t.
Proof. intros n n' t Hn [A B]. split; (eapply Forall_impl; [| eassumption]); intros c Hc; eapply ry_cell_mono; eauto. Qed.
Lemma ry_cell_get : forall n l level, Forall (ry_cell n) l -> ry_cell n (wm_get_chunk l level).
Proof.
  intros n l level H. unfold wm_get_chunk. destruct (nth_in_or_default (N.to_nat level) l wm_chunk0) as [Hin | Hd].
  - rewrite Forall_forall in H. apply H. exact Hin.
  - rewrite Hd. split; [reflexivity | left; reflexivity].
Qed.
Definition ry_tsame (t t' : wm_track) : Prop :=
  wm_tk_head t' = wm_tk_head t /\ length (wm_tk_offsets t') = length (wm_tk_offsets t) /\ wm_tk_type t' = wm_tk_type t.
Lemma ry_tsame_refl : forall t, ry_tsame t t.
Proof. intros. repeat split. Qed.
Lemma ry_tsame_trans : forall a b c, ry_tsame a b -> ry_tsame b c -> ry_tsame a c.
Proof. intros a b c (A1 & A2 & A3) (B1 & B2 & B3). repeat split; congruence. Qed.

Lemma ry_fresh_set_idx_off : forall n t level o, ry_fresh n t -> (o = 0 \/ o + 32 <= n) -> ry_fresh n (rp_tk_set_idx_off t level o).
Proof.
  intros n t level o [A B] Ho. split; [| exact B]. cbn. apply wmw_Forall_upd; [exact A |].
  split; [exact (proj1 (ry_cell_get n _ level A)) | exact Ho].
Qed.
Lemma ry_fresh_set_sum_off : forall n t level o, ry_fresh n t -> (o = 0 \/ o + 32 <= n) -> ry_fresh n (rp_tk_set_sum_off t level o).
Proof.
  intros n t level o [A B] Ho. split; [exact A |]. cbn. apply wmw_Forall_upd; [exact B |].
  split; [exact (proj1 (ry_cell_get n _ level B)) | exact Ho].
Qed.
Lemma ry_fresh_set_off : forall n t level v, ry_fresh n t -> ry_fresh n (rp_tk_set_off t level v).
Proof. intros n t level v H. exact H. Qed.
Lemma ry_fresh_clear_level : forall n t level, ry_fresh n t -> ry_fresh n (rp_tk_clear_level t level).
Proof.
  intros n t level H. unfold rp_tk_clear_level. apply ry_fresh_set_off. apply ry_fresh_set_sum_off; [| left; reflexivity].
  apply ry_fresh_set_idx_off; [exact H | left; reflexivity].
Qed.
Lemma ry_tsame_set_off : forall t level v, ry_tsame t (rp_tk_set_off t level v).
Proof. intros. split; [reflexivity |]. split; [cbn; apply wmw_upd_length | reflexivity]. Qed.
Lemma ry_tsame_set_idx_off : forall t level o, ry_tsame t (rp_tk_set_idx_off t level o).
Proof. intros. repeat split. Qed.
Lemma ry_tsame_set_sum_off : forall t level o, ry_tsame t (rp_tk_set_sum_off t level o).
Proof. intros. repeat split. Qed.
Lemma ry_tsame_clear_level : forall t level, ry_tsame t (rp_tk_clear_level t level).
Proof.
  intros. unfold rp_tk_clear_level. eapply ry_tsame_trans; [| apply ry_tsame_set_off].
  eapply ry_tsame_trans; [apply ry_tsame_set_idx_off | apply ry_tsame_set_sum_off].
Qed.

Lemma ry_ck_off0 : forall hist n c, rw_ck hist n (rp_ck_set_offset c 0).
Proof. intros. left. reflexivity. Qed.

Lemma ry_first_level_t : forall k s t ch n, ry_fresh n t ->
  ry_fresh n (snd (fst (rp_first_level k s t ch))) /\ ry_tsame t (snd (fst (rp_first_level k s t ch))).
Proof.
  induction k as [| k IH]; intros s t ch n H; cbn [rp_first_level]; [split; [exact H | apply ry_tsame_refl] |].
  destruct (wm_get_off (wm_tk_offsets t) (N.of_nat (S k)) =? 0); [apply IH; exact H |].
  destruct (rp_chunk_seek s (wm_get_off (wm_tk_offsets t) (N.of_nat (S k)))) as [s1 rc].
  destruct (rc =? 0); [cbn [fst snd]; split; [exact H | apply ry_tsame_refl] |].
  destruct ch.
  - destruct (IH s1 (rp_tk_clear_level t (N.of_nat (S k))) true n (ry_fresh_clear_level _ _ _ H)) as (A & B).
    split; [exact A | eapply ry_tsame_trans; [apply ry_tsame_clear_level | exact B]].
  - destruct (IH s1 (rp_tk_set_off t (N.of_nat (S k)) 0) false n (ry_fresh_set_off _ _ _ _ H)) as (A & B).
    split; [exact A | eapply ry_tsame_trans; [apply ry_tsame_set_off | exact B]].
Qed.


Section RY.
Variable f : list N.
Variable pos : N.
Let T := rw_T f pos.

(* ================================================================ the invariant *)
Definition ry_acc (w : rp_w) (st : rw_st) : Prop :=
  In st (rw_runs false f pos (rw_st0 f) (rev (rp_log w))) /\ rw_stg st = RwIdle /\
  rw_g st = rp_file (rp_w_io w) /\ rw_n st = rp_flen (rp_w_io w) /\ rw_n st = rp_len (rw_g st) /\
  rp_fend (rp_r (rp_w_io w)) = rw_n st /\ T <= rw_n st /\ 32 <= rw_n st /\ rr_inv (rp_w_io w).

Lemma ry_hist : forall l st, In st (rw_runs false f pos (rw_st0 f) l) -> In (rw_g st) (rw_hist st) /\ In f (rw_hist st).
Proof.
  intros l st H. destruct (rw_runs_file _ _ _ _ _ _ H) as (_ & B & C). cbn [rw_st0 rw_g rw_hist] in B, C.
  assert (Hf : In f (rw_hist st)) by (apply B; now left). split; [| exact Hf].
  destruct C as [C | C]; [rewrite <- C; exact Hf | exact C].
Qed.

Lemma ry_acc_rd : forall w st s', ry_acc w st -> ry_rd (rp_w_io w) s' -> ry_acc (rp_w_set_io w s') st.
Proof.
  intros w st s' (A1 & A2 & A3 & A4 & A5 & A6 & A7 & A8 & A9) ((F1 & F2 & F3) & I & _).
  unfold ry_acc. change (rp_log (rp_w_set_io w s')) with (rp_log w). change (rp_w_io (rp_w_set_io w s')) with s'.
  rewrite F1, F2, F3. repeat (split; [assumption |]). apply I. exact A9.
Qed.
Lemma ry_acc_set_c : forall w st c, ry_acc w st -> rp_io_ c = rp_w_io w -> ry_acc (rp_w_set_c w c) st.
Proof.
  intros w st c H E. unfold ry_acc in *. change (rp_log (rp_w_set_c w c)) with (rp_log w).
  change (rp_w_io (rp_w_set_c w c)) with (rp_io_ c). rewrite E. exact H.
Qed.
Lemma ry_acc_uninit : forall w st, ry_acc w st -> ry_acc (rp_w_set_uninit w) st.
Proof. intros w st H. exact H. Qed.

(* every write goes through rp_commit *)
Lemma ry_commit : forall w b st st',
  ry_acc w st -> In st' (rw_runs false f pos st (rev (wm_rlog (wm_b_raw b)))) -> rw_stg st' = RwIdle ->
  wm_fend (wm_b_raw b) = rw_n st' -> fm_tag (wm_hdr (wm_b_raw b)) = JLS_TAG_INVALID -> T <= rw_n st' -> 32 <= rw_n st' ->
  ry_acc (rp_commit w b) st'.
Proof.
  intros w b st st' (A1 & A2 & A3 & A4 & A5 & A6 & A7 & A8 & A9) Hin Hs He Ht HT H32.
  pose proof (rw_runs_file _ _ _ _ _ _ Hin) as (Hfile & _ & _).
  pose proof (rw_runs_len _ _ _ _ _ _ Hin A5) as Hlen.
  unfold rp_commit. rewrite rw_apply_log_fold. rewrite <- A3, <- A4, <- Hfile.
  unfold ry_acc. cbn [rp_log rp_w_io rp_c rp_io_ rp_file rp_flen rp_r rp_fend].
  split; [rewrite rev_app_distr; eapply rw_runs_app; eauto |].
  split; [exact Hs |]. split; [reflexivity |]. split; [reflexivity |]. split; [exact Hlen |]. split; [exact He |].
  split; [exact HT |]. split; [exact H32 |].
  split; [cbn [rp_flen rp_file]; exact Hlen |].
  intros V. exfalso. unfold rp_r_valid in V. cbn [rp_r rp_hdr] in V. rewrite Ht in V. discriminate V.
Qed.
Lemma ry_commit_flt : forall w b, rp_flt (rp_w_io (rp_commit w b)) = 0 -> rp_flt (rp_w_io w) = 0 /\ wm_fault (wm_b_raw b) = false.
Proof.
  intros w b. unfold rp_commit. destruct (rp_apply_log _ _) as [f1 n1]. cbn [rp_w_io rp_c rp_io_ rp_flt].
  destruct (rp_flt (rp_w_io w) =? 0) eqn:E; cbn [andb].
  - apply N.eqb_eq in E. destruct (wm_fault (wm_b_raw b)); [intros X; discriminate X | auto].
  - intros X. rewrite X in E. discriminate E.
Qed.
Lemma ry_commit_sigs : forall w b, rp_sigs (rp_c (rp_commit w b)) = rp_sigs (rp_c w).
Proof. intros w b. unfold rp_commit. destruct (rp_apply_log _ _). reflexivity. Qed.


(* the part of the invariant that does not depend on the stage: used while the last chunk is being re-written *)
Definition ry_pre (w : rp_w) (st : rw_st) : Prop :=
  In st (rw_runs false f pos (rw_st0 f) (rev (rp_log w))) /\
  rw_g st = rp_file (rp_w_io w) /\ rw_n st = rp_flen (rp_w_io w) /\ rw_n st = rp_len (rw_g st).
Lemma ry_pre_commit : forall w b st st',
  ry_pre w st -> In st' (rw_runs false f pos st (rev (wm_rlog (wm_b_raw b)))) -> ry_pre (rp_commit w b) st'.
Proof.
  intros w b st st' (A1 & A3 & A4 & A5) Hin.
  pose proof (rw_runs_file _ _ _ _ _ _ Hin) as (Hfile & _ & _).
  pose proof (rw_runs_len _ _ _ _ _ _ Hin A5) as Hlen.
  unfold rp_commit. rewrite rw_apply_log_fold. rewrite <- A3, <- A4, <- Hfile.
  unfold ry_pre. cbn [rp_log rp_w_io rp_c rp_io_ rp_file rp_flen].
  split; [rewrite rev_app_distr; eapply rw_runs_app; eauto |]. split; [reflexivity |]. split; [reflexivity | exact Hlen].
Qed.

(* the raw of the writer model built from the reader's *)
Lemma ry_wm_raw_mk : forall w ho, wm_b_raw (rp_wm_base w ho) =
  wm_mk_raw (rp_fpos (rp_r (rp_w_io w))) (rp_fend (rp_r (rp_w_io w))) (rp_offset (rp_r (rp_w_io w))) (rp_hdr (rp_r (rp_w_io w)))
            (rp_last_pl (rp_r (rp_w_io w))) (rp_ghost (rp_w_io w) ho) [] false.
Proof. reflexivity. Qed.
Lemma ry_ghost_disk : forall w st ho, ry_acc w st -> rx_disk (rw_hist st) (rp_ghost (rp_w_io w) ho).
Proof.
  intros w st ho (A1 & A2 & A3 & A4 & A5 & _) o h Hg Hl. unfold rp_ghost in Hg.
  rewrite <- A4, A5, <- A3, rr_file_read_sub in Hg.
  destruct (fm_ch_complete (fm_sub ho SIZEOF_chunk_header (rw_g st)) && fm_ch_crc_ok (fm_sub ho SIZEOF_chunk_header (rw_g st))) eqn:E;
    [| discriminate Hg].
  cbn [wm_disk_get] in Hg. destruct (ho =? o) eqn:Eo; [| discriminate Hg]. apply N.eqb_eq in Eo. subst o. inversion Hg; subst h.
  eapply rx_seen_pl_intro; [exact (proj1 (ry_hist _ _ A1)) |].
  unfold rw_hdr_at. rewrite <- fm_decode_chunk_header_firstn. unfold fm_decode_chunk_header. unfold fm_sub in E.
  change (N.to_nat SIZEOF_chunk_header) with 32%nat in E. rewrite E. reflexivity.
Qed.
(* at the end of the file: the writer-model functions start in the simulation *)
Lemma ry_bridge : forall w st ho, ry_acc w st ->
  rp_fpos (rp_r (rp_w_io w)) = rp_flen (rp_w_io w) -> rp_offset (rp_r (rp_w_io w)) = rp_flen (rp_w_io w) ->
  fm_tag (rp_hdr (rp_r (rp_w_io w))) = JLS_TAG_INVALID ->
  rx_raw f pos st st (wm_b_raw (rp_wm_base w ho)).
Proof.
  intros w st ho H Hp Ho Ht. pose proof H as (A1 & A2 & A3 & A4 & A5 & A6 & A7 & A8 & A9).
  unfold rx_raw. rewrite ry_wm_raw_mk. unfold wm_mk_raw. cbv [wm_rlog wm_fpos wm_fend wm_offset wm_fault wm_disk wm_hdr].
  split; [now left |]. rewrite Hp, Ho, A6, <- A4.
  repeat (split; [assumption || reflexivity |]). split; [apply ry_ghost_disk; exact H | exact Ht].
Qed.
Lemma ry_commit_rx : forall w b st st', ry_acc w st -> rx_raw f pos st st' (wm_b_raw b) -> ry_acc (rp_commit w b) st'.
Proof.
  intros w b st st' H (B1 & B2 & B3 & B4 & B5 & B6 & B7 & B8 & B9 & B10 & B11).
  apply (ry_commit w b st st' H B1 B2 B5 B11 B7 B8).
Qed.

(* ================================================================ jls_core_update_chunk_header *)
Lemma ry_update_chunk_header : forall w ch,
  rp_sigs (rp_c (rp_update_chunk_header w ch)) = rp_sigs (rp_c w) /\
  (rp_flt (rp_w_io (rp_update_chunk_header w ch)) = 0 -> rp_flt (rp_w_io w) = 0) /\
  forall st, ry_acc w st -> rw_ck (rw_hist st) (rw_n st) ch -> rp_flt (rp_w_io (rp_update_chunk_header w ch)) = 0 ->
    exists st', ry_acc (rp_update_chunk_header w ch) st' /\ rx_mono st st' /\ rw_n st' = rw_n st.
Proof.
  intros w ch. unfold rp_update_chunk_header.
  destruct (wm_ck_offset ch =? 0) eqn:E0.
  { split; [reflexivity |]. split; [auto |]. intros st H _ _. exists st. split; [exact H |]. split; [apply rx_mono_refl | reflexivity]. }
  apply N.eqb_neq in E0. unfold rp_with_raw.
  split; [apply ry_commit_sigs |]. split; [intros X; exact (proj1 (ry_commit_flt _ _ X)) |].
  intros st H Hck Hflt. destruct (ry_commit_flt _ _ Hflt) as (_ & Hwf). cbn [wm_b_raw wm_b_set_raw] in Hwf.
  pose proof H as (A1 & A2 & A3 & A4 & A5 & A6 & A7 & A8 & A9).
  destruct Hck as [Hz | (Hle & Hk)]; [contradiction |].
  set (b0 := rp_wm_base w 0) in *.
  destruct (wm_raw_wr_header (wm_raw_chunk_seek (wm_b_raw b0) (wm_ck_offset ch)) (wm_ck_hdr ch)) as [r2 hx] eqn:E2.
  assert (E2' : r2 = fst (wm_raw_wr_header (wm_raw_chunk_seek (wm_b_raw b0) (wm_ck_offset ch)) (wm_ck_hdr ch))) by (rewrite E2; reflexivity).
  set (back := wm_raw_chunk_tell (wm_b_raw b0)) in *.
  destruct (N.eq_dec back 0) as [B0 | B0].
  { exfalso. rewrite B0 in Hwf. cbn in Hwf. discriminate Hwf. }
  assert (Hraw : wm_raw_chunk_seek r2 back =
                 wm_mk_raw back (rw_n st) back (wm_hdr_set_tag (wm_ck_hdr ch) JLS_TAG_INVALID) (rp_last_pl (rp_r (rp_w_io w)))
                   ((wm_ck_offset ch, wm_ck_hdr ch) :: rp_ghost (rp_w_io w) 0)
                   [WmWrite (wm_ck_offset ch) (fm_encode_chunk_header (wm_ck_hdr ch))] false).
  { rewrite E2'. unfold b0. rewrite ry_wm_raw_mk, A6. apply rw_link_eq; [exact E0 | exact Hle | exact B0]. }
  rewrite Hraw in *.
  set (e1 := WmWrite (wm_ck_offset ch) (fm_encode_chunk_header (wm_ck_hdr ch))).
  assert (N1 : In RwIdle (rw_next false f pos st e1)) by (apply rw_link_next; assumption).
  set (st1 := rw_after st e1 RwIdle).
  assert (Hb32 : rp_len (fm_encode_chunk_header (wm_ck_hdr ch)) = 32) by (unfold rp_len; rewrite fm_encode_chunk_header_length; reflexivity).
  assert (Hn1 : rw_n st1 = rw_n st).
  { unfold st1, e1. rewrite rx_after_inplace; [reflexivity | exact A5 | rewrite Hb32; exact Hle]. }
  exists st1. split; [| split; [| exact Hn1]].
  - apply (ry_commit w _ st st1 H).
    + cbn [wm_b_raw wm_b_set_raw wm_mk_raw wm_rlog rev app]. apply rw_runs_one. exact N1.
    + reflexivity.
    + cbn [wm_b_raw wm_b_set_raw wm_mk_raw wm_fend]. symmetry. exact Hn1.
    + reflexivity.
    + rewrite Hn1. exact A7.
    + rewrite Hn1. exact A8.
  - split; [intros x Hx; unfold st1, rw_after; cbn [rw_hist]; now right | rewrite Hn1; lia].
Qed.

(* ================================================================ jls_track_wr_head (the head chunk exists) *)
Lemma ry_tbl_events : forall st ho hl body,
  rw_stg st = RwIdle -> rw_n st = rp_len (rw_g st) -> ho <> 0 -> ho + 168 <= rw_n st -> hl <= SIZEOF_track_head ->
  rw_seen_pl (rw_hist st) ho hl = true -> rw_seen_head (rw_hist st) ho = true -> rp_len body = hl ->
  exists st2, In st2 (rw_runs false f pos st [WmWrite (ho + 32) body; WmWrite (ho + 32 + hl) (wm_footer hl (crc32c body))]) /\
    rw_stg st2 = RwIdle /\ rw_n st2 = rw_n st /\ rx_mono st st2.
Proof.
  intros st ho hl body Hs Hn Hho Hle Hhl Hpl Hhead Hrl.
  pose proof (rw_pad_le_136 hl Hhl) as Hp136.
  set (e1 := WmWrite (ho + 32) body). set (e2 := WmWrite (ho + 32 + hl) (wm_footer hl (crc32c body))).
  assert (N1 : In (RwTbl ho body) (rw_next false f pos st e1)).
  { replace ho with (ho + 32 - 32) at 1 by lia.
    apply (rw_in_idle f pos st (ho + 32) body _ 3%nat Hs). cbn [nth_error]. f_equal.
    unfold rw_opt. replace (rw_is_tbl false (rw_hist st) (rw_n st) (ho + 32) body) with true; [reflexivity |].
    symmetry. unfold rw_is_tbl. rewrite Hrl. replace (ho + 32 - 32) with ho by lia.
    replace (32 <? ho + 32) with true by (symmetry; apply N.ltb_lt; lia).
    replace (ho + 32 + 136 <=? rw_n st) with true by (symmetry; apply N.leb_le; lia).
    replace (hl <=? SIZEOF_track_head) with true by (symmetry; apply N.leb_le; exact Hhl).
    rewrite Hpl, Hhead. reflexivity. }
  set (st1 := rw_after st e1 (RwTbl ho body)).
  assert (I1 : ho + 32 + rp_len body <= rw_n st) by (rewrite Hrl; unfold SIZEOF_track_head in Hhl; lia).
  set (g1 := firstn (N.to_nat (ho + 32)) (rw_g st) ++ body ++ skipn (N.to_nat (ho + 32) + length body) (rw_g st)).
  assert (A1 : st1 = {| rw_g := g1; rw_n := rw_n st; rw_hist := g1 :: rw_hist st; rw_stg := RwTbl ho body |}).
  { unfold st1, e1. rewrite rx_after_inplace; [reflexivity | exact Hn | exact I1]. }
  assert (L1 : rw_n st1 = rp_len (rw_g st1)).
  { rewrite A1. cbn [rw_n rw_g]. unfold g1. rewrite rx_len_inplace; [exact Hn | rewrite <- Hn; exact I1]. }
  assert (N2 : In RwIdle (rw_next false f pos st1 e2)).
  { rewrite A1. cbn [rw_next rw_stg e2]. rewrite Hrl, N.eqb_refl.
    replace (fm_list_eqb (wm_footer hl (crc32c body)) (wm_footer hl (crc32c body))) with true by (symmetry; apply fm_list_eqb_eq; reflexivity).
    now left. }
  set (st2 := rw_after st1 e2 RwIdle).
  assert (Hfl : rp_len (wm_footer hl (crc32c body)) = fm_pad_len hl + 4) by (unfold rp_len; apply wm_footer_length).
  assert (I2 : ho + 32 + hl + rp_len (wm_footer hl (crc32c body)) <= rw_n st1).
  { rewrite Hfl, A1. cbn [rw_n]. lia. }
  assert (A2 : rw_n st2 = rw_n st /\ rw_stg st2 = RwIdle /\ rw_hist st2 = rw_g st2 :: rw_hist st1).
  { unfold st2, e2. rewrite rx_after_inplace; [| exact L1 | exact I2]. cbn [rw_n rw_stg rw_hist rw_g].
    split; [rewrite A1; reflexivity |]. split; reflexivity. }
  destruct A2 as (B1 & B2 & B3).
  exists st2. split.
  { change [e1; e2] with ([e1] ++ [e2]). eapply rw_runs_app; [apply rw_runs_one; exact N1 | apply rw_runs_one; exact N2]. }
  split; [exact B2 |]. split; [exact B1 |].
  split; [rewrite B3, A1; cbn [rw_hist]; intros x Hx; right; right; exact Hx | rewrite B1; lia].
Qed.

Definition ry_hd (st : rw_st) (t : wm_track) : Prop :=
  wm_ck_offset (wm_tk_head t) <> 0 /\ wm_ck_offset (wm_tk_head t) + 168 <= T /\
  rw_seen_head (rw_hist st) (wm_ck_offset (wm_tk_head t)) = true /\ length (wm_tk_offsets t) = 16%nat.
Lemma ry_hd_mono : forall st st' t, rx_mono st st' -> ry_hd st t -> ry_hd st' t.
Proof.
  intros st st' t [Hi _] (A & B & C & D). split; [exact A |]. split; [exact B |]. split; [eapply rw_seen_head_incl; eauto | exact D].
Qed.

Lemma ry_track_wr_head : forall w id t,
  rp_sigs (rp_c (fst (rp_track_wr_head w id t))) = rp_sigs (rp_c w) /\
  (rp_flt (rp_w_io (fst (rp_track_wr_head w id t))) = 0 -> rp_flt (rp_w_io w) = 0) /\
  forall st, ry_acc w st -> ry_hd st t -> rp_flt (rp_w_io (fst (rp_track_wr_head w id t))) = 0 ->
    snd (rp_track_wr_head w id t) = t /\
    exists st', ry_acc (fst (rp_track_wr_head w id t)) st' /\ rx_mono st st' /\ rw_n st' = rw_n st.
Proof.
  intros w id t. unfold rp_track_wr_head.
  destruct (wm_track_wr_head (rp_wm_base w (wm_ck_offset (wm_tk_head t))) id t) as [b1 t1] eqn:E. cbn [fst snd].
  split; [apply ry_commit_sigs |]. split; [intros X; exact (proj1 (ry_commit_flt _ _ X)) |].
  intros st H (T1 & T2 & T3 & T4) Hflt. destruct (ry_commit_flt _ _ Hflt) as (_ & Hwf).
  pose proof H as (A1 & A2 & A3 & A4 & A5 & A6 & A7 & A8 & A9).
  unfold wm_track_wr_head in E. cbv zeta in E.
  replace (wm_ck_offset (wm_tk_head t) =? 0) with false in E by (symmetry; apply N.eqb_neq; exact T1).
  apply pair_equal_spec in E. destruct E as [Eb Et]. subst b1 t1. split; [reflexivity |].
  rewrite ry_raw_set in Hwf.
  set (ho := wm_ck_offset (wm_tk_head t)) in *.
  set (b0 := rp_wm_base w ho) in *.
  set (back := wm_raw_chunk_tell (wm_b_raw b0)) in *.
  destruct (N.eq_dec back 0) as [B0 | B0].
  { exfalso. rewrite B0 in Hwf. cbn in Hwf. discriminate Hwf. }
  set (payload := wm_head_payload (wm_tk_offsets t)) in *.
  assert (Hpl : N.of_nat (length payload) = SIZEOF_track_head) by (apply wmw_head_payload_length; exact T4).
  assert (Eraw : wm_b_raw b0 = wm_mk_raw (rp_fpos (rp_r (rp_w_io w))) (rw_n st) (rp_offset (rp_r (rp_w_io w))) (rp_hdr (rp_r (rp_w_io w)))
                                (rp_last_pl (rp_r (rp_w_io w))) (rp_ghost (rp_w_io w) ho) [] false)
    by (unfold b0; rewrite ry_wm_raw_mk, A6; reflexivity).
  rewrite Eraw in Hwf.
  assert (Hho : ho + 168 <= rw_n st) by (fold T in T2; lia).
  destruct (rw_tbl_eq (rp_fpos (rp_r (rp_w_io w))) (rw_n st) (rp_offset (rp_r (rp_w_io w))) (rp_hdr (rp_r (rp_w_io w)))
              (rp_last_pl (rp_r (rp_w_io w))) (rp_ghost (rp_w_io w) ho) [] ho payload back _ T1 Hho B0 Hpl eq_refl Hwf)
    as (hd & Hdg & Hle & Hlb & Hr').
  cbv zeta in Hlb, Hr'. rewrite <- Eraw in Hr'.
  set (hl := fm_payload_length hd) in *. set (body := firstn (N.to_nat hl) payload) in *.
  assert (Hspl : rw_seen_pl (rw_hist st) ho hl = true) by (apply (ry_ghost_disk w st ho H ho hd Hdg Hle)).
  destruct (ry_tbl_events st ho hl body A2 A5 T1 Hho Hle Hspl T3 Hlb) as (st2 & R2 & S2 & N2 & M2).
  exists st2. split; [| split; [exact M2 | exact N2]].
  apply (ry_commit w _ st st2 H).
  - rewrite ry_raw_set, Hr'. cbn [wm_mk_raw wm_rlog rev app]. exact R2.
  - exact S2.
  - rewrite ry_raw_set, Hr'. cbn [wm_mk_raw wm_fend]. symmetry. exact N2.
  - rewrite ry_raw_set, Hr'. reflexivity.
  - rewrite N2. exact A7.
  - rewrite N2. exact A8.
Qed.

(* ================================================================ track.c: jls_track_repair_pointers *)
(* the chunk a successful read hands out is a tracked chunk *)
Lemma ry_rd_chunk_ck : forall w st s s', ry_acc w st -> ry_rd (rp_w_io w) s -> rp_rd_chunk s = (s', 0) ->
  rw_ck (rw_hist st) (rw_n st) (rp_cur s') /\ (wm_ck_offset (rp_cur s') = 0 \/ wm_ck_offset (rp_cur s') + 32 <= rw_n st).
Proof.
  intros w st s s' (A1 & A2 & A3 & A4 & A5 & A6 & A7 & A8 & A9) ((F1 & F2 & F3) & I & _) E.
  destruct (ry_rd_chunk_ok s s' (I A9) E) as (K1 & K2 & _). rewrite F1, <- A3 in K2.
  pose proof (rw_hdr_at_bound _ _ _ K2) as Hb. rewrite <- A5 in Hb.
  assert (Hle : wm_ck_offset (rp_cur s') + 32 <= rw_n st) by (rewrite K1; exact Hb).
  split; [| right; exact Hle]. right. split; [exact Hle |]. right. rewrite K1.
  eapply rw_seen_intro; [exact (proj1 (ry_hist _ _ A1)) | exact K2].
Qed.

Lemma ry_ptr_descend : forall w t level offset idx sum desc,
  let res := rp_ptr_descend w t level offset idx sum desc in
  ry_wstep w (fst (fst res)) /\
  forall st, ry_acc w st -> ry_fresh (rw_n st) t -> rw_ck (rw_hist st) (rw_n st) idx -> rw_ck (rw_hist st) (rw_n st) sum ->
    rp_flt (rp_w_io (fst (fst res))) = 0 ->
    exists st', ry_acc (fst (fst res)) st' /\ rx_mono st st' /\ rw_n st' = rw_n st /\
      ry_fresh (rw_n st') (snd (fst res)) /\ ry_tsame t (snd (fst res)).
Proof.
  intros w t level offset idx sum desc. cbv zeta. unfold rp_ptr_descend.
  match goal with |- context [if ?b then _ else _] => destruct b end; cbn [fst snd].
  - set (idx1 := {| wm_ck_offset := wm_ck_offset idx; wm_ck_hdr := wm_hdr_set_next (wm_ck_hdr idx) 0 |}).
    set (sum1 := {| wm_ck_offset := wm_ck_offset sum; wm_ck_hdr := wm_hdr_set_next (wm_ck_hdr sum) 0 |}).
    destruct (ry_update_chunk_header w idx1) as (S1 & F1 & U1).
    destruct (ry_update_chunk_header (rp_update_chunk_header w idx1) sum1) as (S2 & F2 & U2).
    split; [split; [congruence | auto] |].
    intros st H Hfr Hi Hs Hflt.
    destruct (U1 st H (rw_ck_set_next _ _ _ 0 Hi) (F2 Hflt)) as (st1 & H1 & M1 & N1).
    assert (Hs1 : rw_ck (rw_hist st1) (rw_n st1) sum1).
    { destruct M1 as [I1 _]. eapply rw_ck_mono; [exact I1 | | apply (rw_ck_set_next _ _ _ 0 Hs)]. lia. }
    destruct (U2 st1 H1 Hs1 Hflt) as (st2 & H2 & M2 & N2).
    exists st2. split; [exact H2 |]. split; [eapply rx_mono_trans; eauto |]. split; [congruence |].
    split; [rewrite N2, N1; exact Hfr | apply ry_tsame_refl].
  - split; [apply ry_wstep_refl |]. intros st H Hfr _ _ _. exists st. split; [exact H |]. split; [apply rx_mono_refl |].
    split; [reflexivity |]. split; [apply ry_fresh_clear_level; exact Hfr | apply ry_tsame_clear_level].
Qed.

Lemma ry_ptr_levels : forall fuel w t level offset idx sum desc,
  let res := rp_ptr_levels fuel w t level offset idx sum desc in
  ry_wstep w (fst (fst (fst res))) /\
  forall st, ry_acc w st -> ry_fresh (rw_n st) t -> rw_ck (rw_hist st) (rw_n st) idx -> rw_ck (rw_hist st) (rw_n st) sum ->
    rp_flt (rp_w_io (fst (fst (fst res)))) = 0 ->
    exists st', ry_acc (fst (fst (fst res))) st' /\ rx_mono st st' /\ rw_n st' = rw_n st /\
      ry_fresh (rw_n st') (snd (fst (fst res))) /\ rw_ck (rw_hist st') (rw_n st') (snd res) /\ ry_tsame t (snd (fst (fst res))).
Proof.
  induction fuel as [| fu IH]; intros w t level offset idx sum desc; cbv zeta; cbn [rp_ptr_levels].
  { cbn [fst snd]. split; [apply ry_wstep_fault |]. intros st _ _ _ _ Hflt. exfalso. revert Hflt. apply ry_fault_flt. discriminate. }
  destruct (level =? 0).
  { cbn [fst snd]. split; [apply ry_wstep_refl |]. intros st H Hfr Hi Hs _. exists st.
    split; [exact H |]. split; [apply rx_mono_refl |]. split; [reflexivity |]. split; [exact Hfr |]. split; [exact Hs | apply ry_tsame_refl]. }
  (* a descend followed by the rest of the walk *)
  assert (TAIL : forall s' t0 offset0 idx0 sum0 desc0, ry_rd (rp_w_io w) s' ->
    let res := (let '(w1, t1, offset1) := rp_ptr_descend (rp_w_set_io w s') t0 level offset0 idx0 sum0 desc0 in
                rp_ptr_levels fu w1 t1 (level - 1) offset1 (rp_ck_set_offset idx0 0) (rp_ck_set_offset sum0 0) 0) in
    ry_wstep w (fst (fst (fst res))) /\
    forall st, ry_acc w st -> ry_fresh (rw_n st) t0 -> rw_ck (rw_hist st) (rw_n st) idx0 -> rw_ck (rw_hist st) (rw_n st) sum0 ->
      rp_flt (rp_w_io (fst (fst (fst res)))) = 0 ->
      exists st', ry_acc (fst (fst (fst res))) st' /\ rx_mono st st' /\ rw_n st' = rw_n st /\
        ry_fresh (rw_n st') (snd (fst (fst res))) /\ rw_ck (rw_hist st') (rw_n st') (snd res) /\ ry_tsame t0 (snd (fst (fst res)))).
  { intros s' t0 offset0 idx0 sum0 desc0 Rd. cbv zeta.
    pose proof (ry_ptr_descend (rp_w_set_io w s') t0 level offset0 idx0 sum0 desc0) as D. cbv zeta in D.
    destruct (rp_ptr_descend (rp_w_set_io w s') t0 level offset0 idx0 sum0 desc0) as [[w1 t1] offset1]. cbn [fst snd] in D.
    destruct D as (DW & DS).
    pose proof (IH w1 t1 (level - 1) offset1 (rp_ck_set_offset idx0 0) (rp_ck_set_offset sum0 0) 0) as R. cbv zeta in R.
    destruct R as (RW & RS).
    split; [eapply ry_wstep_trans; [apply ry_wstep_io; exact Rd |]; eapply ry_wstep_trans; eauto |].
    intros st H Hfr Hi Hs Hflt.
    destruct (DS st (ry_acc_rd _ _ _ H Rd) Hfr Hi Hs (proj2 RW Hflt)) as (st1 & H1 & M1 & N1 & Fr1 & Ts1).
    destruct (RS st1 H1 Fr1 (ry_ck_off0 _ _ _) (ry_ck_off0 _ _ _) Hflt) as (st2 & H2 & M2 & N2 & Fr2 & Ck2 & Ts2).
    exists st2. split; [exact H2 |]. split; [eapply rx_mono_trans; eauto |]. split; [congruence |].
    split; [exact Fr2 |]. split; [exact Ck2 | eapply ry_tsame_trans; eauto]. }
  pose proof (ry_rd_chunk_seek (rp_w_io w) offset) as R1.
  destruct (rp_chunk_seek (rp_w_io w) offset) as [s1 rc1]. cbn [fst] in R1.
  assert (E2 : exists s2 rc2, (if rc1 =? 0 then rp_rd_chunk s1 else (s1, rc1)) = (s2, rc2) /\ ry_rd (rp_w_io w) s2 /\
                              (rc2 = 0 -> rp_rd_chunk s1 = (s2, 0))).
  { destruct (rc1 =? 0) eqn:Erc.
    - pose proof (ry_rd_rd_chunk s1) as R2. destruct (rp_rd_chunk s1) as [s2 rc2]. cbn [fst] in R2.
      exists s2, rc2. split; [reflexivity |]. split; [eapply ry_rd_trans; eauto | intros ->; reflexivity].
    - exists s1, rc1. split; [reflexivity |]. split; [exact R1 |]. intros ->. discriminate Erc. }
  destruct E2 as (s2 & rc2 & E2 & R2 & K2). rewrite E2.
  destruct (rc2 =? 0) eqn:Erc2; cbn [negb].
  2:{ apply TAIL. exact R2. }
  apply N.eqb_eq in Erc2. specialize (K2 Erc2).
  pose proof (ry_rd_buf_u32 s2 OFFSETOF_payload_entry_count) as R3.
  destruct (rp_buf_u32 s2 OFFSETOF_payload_entry_count) as [s3 ec]. cbn [fst] in R3.
  set (p4 := if ec =? 0 then (s3, 0)
             else if wm_tk_type t =? JLS_TRACK_TYPE_FSR then rp_buf_u64 s3 (SIZEOF_payload_header + 8 * (ec - 1))
             else rp_buf_u64 s3 (SIZEOF_payload_header + SIZEOF_index_entry * (ec - 1) + 8)).
  assert (R4 : ry_rd s3 (fst p4)).
  { unfold p4. destruct (ec =? 0); [apply ry_rd_refl |]. destruct (wm_tk_type t =? JLS_TRACK_TYPE_FSR); apply ry_rd_buf_u64. }
  destruct p4 as [s4 dnext]. cbn [fst] in R4.
  pose proof (ry_rd_rd_chunk s4) as R5. destruct (rp_rd_chunk s4) as [s5 rc3] eqn:E5. cbn [fst] in R5.
  assert (G4 : ry_rd (rp_w_io w) s4) by (eapply ry_rd_trans; [exact R2 |]; eapply ry_rd_trans; eauto).
  assert (G5 : ry_rd (rp_w_io w) s5) by (eapply ry_rd_trans; eauto).
  destruct (rc3 =? 0) eqn:Erc3; cbn [negb].
  2:{ apply TAIL. exact G5. }
  apply N.eqb_eq in Erc3. subst rc3.
  set (idxn := rp_cur s2). set (sum1 := rp_cur s5).
  set (t1 := rp_tk_set_sum_off (rp_tk_set_idx_off t level (wm_ck_offset idxn)) level (wm_ck_offset sum1)).
  assert (FACTS : forall st, ry_acc w st -> ry_fresh (rw_n st) t ->
            rw_ck (rw_hist st) (rw_n st) idxn /\ rw_ck (rw_hist st) (rw_n st) sum1 /\ ry_fresh (rw_n st) t1).
  { intros st H Hfr.
    destruct (ry_rd_chunk_ck w st s1 s2 H R1 K2) as (C1 & O1).
    destruct (ry_rd_chunk_ck w st s4 s5 H G4 E5) as (C2 & O2).
    split; [exact C1 |]. split; [exact C2 |]. unfold t1. apply ry_fresh_set_sum_off; [| exact O2]. apply ry_fresh_set_idx_off; assumption. }
  assert (TS1 : ry_tsame t t1) by (unfold t1; eapply ry_tsame_trans; [apply ry_tsame_set_idx_off | apply ry_tsame_set_sum_off]).
  destruct (fm_item_next (wm_ck_hdr idxn) =? 0).
  - destruct (TAIL s5 t1 (fm_item_next (wm_ck_hdr idxn)) idxn sum1 dnext G5) as (TW & TS). cbv zeta in TW, TS.
    split; [exact TW |]. intros st H Hfr _ _ Hflt. destruct (FACTS st H Hfr) as (C1 & C2 & Fr1).
    destruct (TS st H Fr1 C1 C2 Hflt) as (st' & A & B & C & D & E & F0).
    exists st'. repeat (split; [assumption |]). exact (ry_tsame_trans _ _ _ TS1 F0).
  - pose proof (IH (rp_w_set_io w s5) t1 level (fm_item_next (wm_ck_hdr idxn)) idxn sum1 dnext) as R. cbv zeta in R.
    destruct R as (RW & RS).
    split; [eapply ry_wstep_trans; [apply ry_wstep_io; exact G5 | exact RW] |].
    intros st H Hfr _ _ Hflt. destruct (FACTS st H Hfr) as (C1 & C2 & Fr1).
    destruct (RS st (ry_acc_rd _ _ _ H G5) Fr1 C1 C2 Hflt) as (st' & A & B & C & D & E & F0).
    exists st'. repeat (split; [assumption |]). exact (ry_tsame_trans _ _ _ TS1 F0).
Qed.

Lemma ry_ptr_data : forall fuel w offset data sum,
  ry_wstep w (rp_ptr_data fuel w offset data sum) /\
  forall st, ry_acc w st -> rw_ck (rw_hist st) (rw_n st) sum -> rp_flt (rp_w_io (rp_ptr_data fuel w offset data sum)) = 0 ->
    exists st', ry_acc (rp_ptr_data fuel w offset data sum) st' /\ rx_mono st st' /\ rw_n st' = rw_n st.
Proof.
  induction fuel as [| fu IH]; intros w offset data sum; cbn [rp_ptr_data].
  { split; [apply ry_wstep_fault |]. intros st _ _ Hflt. exfalso. revert Hflt. apply ry_fault_flt. discriminate. }
  destruct (offset =? 0).
  { split; [apply ry_wstep_refl |]. intros st H _ _. exists st. split; [exact H |]. split; [apply rx_mono_refl | reflexivity]. }
  pose proof (ry_rd_seek_rd (rp_w_io w) offset) as R2.
  destruct (rp_chunk_seek (rp_w_io w) offset) as [s1 rc1].
  destruct (if rc1 =? 0 then rp_rd_chunk s1 else (s1, rc1)) as [s2 rc2]. cbn [fst] in R2.
  destruct (negb (rc2 =? 0)).
  - destruct (wm_ck_offset data =? 0).
    + split; [apply ry_wstep_io; exact R2 |]. intros st H _ _. exists st.
      split; [apply (ry_acc_rd _ _ _ H R2) |]. split; [apply rx_mono_refl | reflexivity].
    + destruct (ry_update_chunk_header (rp_w_set_io w s2) sum) as (S1 & F1 & U1).
      split; [eapply ry_wstep_trans; [apply ry_wstep_io; exact R2 | split; assumption] |].
      intros st H Hs Hflt. apply (U1 st (ry_acc_rd _ _ _ H R2) Hs Hflt).
  - destruct (IH (rp_w_set_io w s2) (fm_item_next (wm_ck_hdr (rp_cur s2))) (rp_cur s2) sum) as (RW & RS).
    split; [eapply ry_wstep_trans; [apply ry_wstep_io; exact R2 | exact RW] |].
    intros st H Hs Hflt. apply (RS st (ry_acc_rd _ _ _ H R2) Hs Hflt).
Qed.

Lemma ry_repair_pointers : forall w id t,
  ry_wstep w (fst (rp_repair_pointers w id t)) /\
  forall st, ry_acc w st -> ry_hd st t -> ry_fresh (rw_n st) t -> rp_flt (rp_w_io (fst (rp_repair_pointers w id t))) = 0 ->
    exists st', ry_acc (fst (rp_repair_pointers w id t)) st' /\ rx_mono st st' /\ rw_n st' = rw_n st /\
      ry_hd st' (snd (rp_repair_pointers w id t)) /\ ry_fresh (rw_n st') (snd (rp_repair_pointers w id t)) /\
      wm_tk_type (snd (rp_repair_pointers w id t)) = wm_tk_type t.
Proof.
  intros w id t. unfold rp_repair_pointers.
  pose proof (ry_rd_first_level rp_top_level (rp_w_io w) t true) as R1.
  pose proof (fun n => ry_first_level_t rp_top_level (rp_w_io w) t true n) as FT.
  destruct (rp_first_level rp_top_level (rp_w_io w) t true) as [[s1 t1] level]. cbn [fst snd] in R1, FT.
  match goal with |- context [rp_ptr_levels ?a ?b ?c ?d ?e ?g ?h ?i] =>
    pose proof (ry_ptr_levels a b c d e g h i) as P2; destruct (rp_ptr_levels a b c d e g h i) as [[[w2 t2] offset2] sum2] end.
  cbv zeta in P2. cbn [fst snd] in P2. destruct P2 as (W2 & S2).
  pose proof (ry_ptr_data (rp_chain_fuel s1) w2 offset2 wm_chunk0 sum2) as (W3 & S3).
  set (w3 := rp_ptr_data (rp_chain_fuel s1) w2 offset2 wm_chunk0 sum2) in *.
  pose proof (ry_track_wr_head w3 id t2) as (G4 & F4 & S4).
  destruct (rp_track_wr_head w3 id t2) as [w4 t4] eqn:E4. cbn [fst snd] in *.
  split.
  { eapply ry_wstep_trans; [apply ry_wstep_io; exact R1 |]. eapply ry_wstep_trans; [exact W2 |].
    eapply ry_wstep_trans; [exact W3 |]. split; assumption. }
  intros st H Hhd Hfr Hflt.
  destruct (FT (rw_n st) Hfr) as (Fr1 & Ts1).
  assert (Hf3 : rp_flt (rp_w_io w3) = 0) by (apply F4; exact Hflt).
  assert (Hf2 : rp_flt (rp_w_io w2) = 0) by (apply (proj2 W3); exact Hf3).
  destruct (S2 st (ry_acc_rd _ _ _ H R1) Fr1 (rw_ck0 _ _) (rw_ck0 _ _) Hf2) as (st2 & H2 & M2 & N2 & Fr2 & Ck2 & Ts2).
  destruct (S3 st2 H2 Ck2 Hf3) as (st3 & H3 & M3 & N3).
  assert (M13 : rx_mono st st3) by (eapply rx_mono_trans; eauto).
  assert (Ts : ry_tsame t t2) by (eapply ry_tsame_trans; eauto).
  assert (Hhd3 : ry_hd st3 t2).
  { destruct Ts as (X1 & X2 & X3). destruct (ry_hd_mono _ _ _ M13 Hhd) as (Y1 & Y2 & Y3 & Y4).
    unfold ry_hd. rewrite X1, X2. repeat split; assumption. }
  destruct (S4 st3 H3 Hhd3 Hflt) as (Et & st4 & H4 & M4 & N4). subst t4.
  exists st4. split; [exact H4 |]. split; [eapply rx_mono_trans; eauto |]. split; [congruence |].
  split; [eapply ry_hd_mono; eauto |]. split; [rewrite N4, N3; exact Fr2 | apply Ts].
Qed.

End RY.
