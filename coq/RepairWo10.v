(* WHAT THE REPAIR-ON-OPEN WRITES, part 10: the beginning of the repair branch of jls_rd_open (jls_raw_open "a",
   "find last full chunk and truncate remainder", "rewrite last full chunk") and the classification theorem.
   Every top-level name starts with ro_. *)
From Coq Require Import NArith ZArith List Bool Lia Arith.
From Coq Require Import ZifyBool ZifyN ZifyNat.
From JLS Require Import Generated CrcDefs Spec Format FormatProofs WriteOnce WriteOnceProofs WmRaw WmCore WmFsr WriterModel WmProofs
  WmWriteOnce WmWriteOnce2 RepairRaw RawReadProofs RepairModel RepairProofs RepairProofs2 RepairProofs3
  RepairWo RepairWo2 RepairWo3 RepairWo4 RepairWo5 RepairWo6 RepairWo7 RepairWo8 RepairWo9.
Import ListNotations.
Local Open Scope N_scope.
Ltac Zify.zify_post_hook ::= Z.div_mod_to_equations.

Lemma ro_commit_fields : forall w b,
  rp_r (rp_w_io (rp_commit w b)) =
    {| rp_fpos := wm_fpos (wm_b_raw b); rp_fend := wm_fend (wm_b_raw b); rp_offset := wm_offset (wm_b_raw b);
       rp_hdr := wm_hdr (wm_b_raw b); rp_last_pl := wm_last_pl (wm_b_raw b) |} /\
  rp_cur (rp_w_io (rp_commit w b)) = rp_cur (rp_w_io w) /\ rp_buf (rp_w_io (rp_commit w b)) = rp_buf (rp_w_io w) /\
  rp_buf_len (rp_w_io (rp_commit w b)) = rp_buf_len (rp_w_io w).
Proof. intros w b. unfold rp_commit. destruct (rp_apply_log _ _). repeat split. Qed.

Lemma ro_truncate : forall w, exists b, rp_bk_truncate w = rp_commit w b /\
  wm_rlog (wm_b_raw b) = [WmTrunc (rp_fpos (rp_r (rp_w_io w)))] /\
  wm_fpos (wm_b_raw b) = rp_fpos (rp_r (rp_w_io w)) /\
  wm_fend (wm_b_raw b) = N.min (rp_fend (rp_r (rp_w_io w))) (rp_fpos (rp_r (rp_w_io w))) /\
  wm_offset (wm_b_raw b) = rp_offset (rp_r (rp_w_io w)) /\ wm_hdr (wm_b_raw b) = rp_hdr (rp_r (rp_w_io w)).
Proof. intros w. unfold rp_bk_truncate, rp_with_raw. eexists. split; [reflexivity |]. repeat split. Qed.

Lemma ro_apply_trunc_n : forall g n len, snd (rp_apply (g, n) (WmTrunc len)) = len.
Proof. intros g n len. cbn [rp_apply fst snd]. destruct (len <? n); reflexivity. Qed.

(* the tables of the scan phase satisfy the invariant of the repair phase *)
Lemma ro_sigs_of_scan : forall f pos st l, sc_sigs f l -> rw_heads_ok (rw_T f pos) l = true -> In f (rw_hist st) ->
  Forall (ry_sig f pos st) l.
Proof.
  intros f pos st l Hs Hg Hin. unfold rw_heads_ok in Hg. rewrite forallb_forall in Hg.
  apply Forall_forall. intros g Hgin. unfold sc_sigs in Hs. rewrite Forall_forall in Hs.
  destruct (Hs g Hgin) as (A & B & C). specialize (Hg g Hgin). rewrite forallb_forall in Hg.
  split; [| split; [exact B | exact C]].
  apply Forall_forall. intros x Hx. rewrite Forall_forall in A. destruct (A x Hx) as (X1 & X2 & (X3 & X4)). specialize (Hg x Hx).
  split; [| split; [exact X2 |]].
  - intros Ht. destruct (X1 Ht) as (Y1 & (h0 & Y2 & Y3 & Y4) & Y5). rewrite Ht in Hg. cbn [negb orb] in Hg. apply N.leb_le in Hg.
    split; [exact Y1 |]. split; [exact Hg |]. split; [| exact Y5].
    apply existsb_exists. exists f. split; [exact Hin |]. rewrite Y2, Y3, Y4. reflexivity.
  - split; [rewrite X3 | rewrite X4]; apply Forall_forall; intros c Hc; apply repeat_spec in Hc; subst c;
      (split; [reflexivity | left; reflexivity]).
Qed.

Section ROH.
Variable summ1 : N -> list N -> wm_sentry.
Variable summN : bool -> list wm_sentry -> wm_sentry.

(* how rp_repair ends *)
Lemma ro_repair_cases : forall c,
  let pos := rp_offset (rp_r (rp_io_ c)) in
  exists s1 rc1 s2 rc2 s3 rc3 s5 rc5 r6 h6,
    rp_raw_open (rp_io_ c) true = (s1, rc1) /\ rp_chunk_seek s1 pos = (s2, rc2) /\ rp_rd_chunk s2 = (s3, rc3) /\
    let w1 := rp_w_set_io (rp_w0 c) s1 in
    let w4 := rp_bk_truncate (rp_w_set_io w1 s3) in
    rp_chunk_seek (rp_w_io w4) pos = (s5, rc5) /\
    let w5 := rp_w_set_io w4 s5 in
    wm_raw_wr (wm_b_raw (rp_wm_base w5 0)) (wm_ck_hdr (rp_cur s5)) (rp_payload s5) = (r6, h6) /\
    let w6 := rp_commit w5 (wm_b_set_raw (rp_wm_base w5 0) r6) in
    let w6a := rp_w_set_io w6 (rp_io_set_cur (rp_w_io w6) {| wm_ck_offset := wm_ck_offset (rp_cur s5); wm_ck_hdr := h6 |}) in
    (rp_repair summ1 summN c = rp_res rc1 w1 true \/
     (rc2 <> 0 /\ rp_repair summ1 summN c = rp_exit summ1 summN (rp_w_set_io w1 s2) rc2) \/
     (rc2 = 0 /\ rc3 <> 0 /\ rp_repair summ1 summN c = rp_exit summ1 summN (rp_w_set_io w1 s3) rc3) \/
     (rc2 = 0 /\ rc3 = 0 /\ rc5 <> 0 /\ rp_repair summ1 summN c = rp_exit summ1 summN w5 rc5) \/
     (rc2 = 0 /\ rc3 = 0 /\ rc5 = 0 /\ rp_repair summ1 summN c = ro_tail summ1 summN w6a)).
Proof.
  intros c. cbv zeta. unfold rp_repair, ro_tail.
  destruct (rp_raw_open (rp_io_ c) true) as [s1 rc1] eqn:E1.
  destruct (rp_chunk_seek s1 (rp_offset (rp_r (rp_io_ c)))) as [s2 rc2] eqn:E2.
  destruct (rp_rd_chunk s2) as [s3 rc3] eqn:E3.
  destruct (rp_chunk_seek (rp_w_io (rp_bk_truncate (rp_w_set_io (rp_w_set_io (rp_w0 c) s1) s3))) (rp_offset (rp_r (rp_io_ c)))) as [s5 rc5] eqn:E5.
  destruct (wm_raw_wr (wm_b_raw (rp_wm_base (rp_w_set_io (rp_bk_truncate (rp_w_set_io (rp_w_set_io (rp_w0 c) s1) s3)) s5) 0))
              (wm_ck_hdr (rp_cur s5)) (rp_payload s5)) as [r6 h6] eqn:E6.
  exists s1, rc1, s2, rc2, s3, rc3, s5, rc5, r6, h6.
  split; [reflexivity |]. split; [exact E2 |]. split; [exact E3 |]. split; [exact E5 |]. split; [exact E6 |].
  clear E1 E2 E3 E5 E6.
  destruct (negb (rc1 =? 0) && negb (rc1 =? JLS_ERROR_TRUNCATED)); [left; reflexivity | right].
  destruct (rc2 =? 0) eqn:E2; cbn [negb]; [| left; split; [now apply N.eqb_neq in E2 | reflexivity]].
  right. apply N.eqb_eq in E2.
  destruct (rc3 =? 0) eqn:E3; cbn [negb]; [| left; split; [exact E2 |]; split; [now apply N.eqb_neq in E3 | reflexivity]].
  right. apply N.eqb_eq in E3.
  destruct (rc5 =? 0) eqn:E5; cbn [negb]; [| left; split; [exact E2 |]; split; [exact E3 |]; split; [now apply N.eqb_neq in E5 | reflexivity]].
  right. apply N.eqb_eq in E5. split; [exact E2 |]. split; [exact E3 |]. split; [exact E5 |]. reflexivity.
Qed.

Variable f : list N.

Lemma ro_pre0 : forall pos w, rp_log w = [] -> rp_file (rp_w_io w) = f -> rp_flen (rp_w_io w) = rp_len f -> ry_pre f pos w (rw_st0 f).
Proof.
  intros pos w Hl Hf Hn. unfold ry_pre. rewrite Hl, Hf, Hn. cbn [rev rw_runs rw_st0 rw_g rw_n]. repeat split. now left.
Qed.
Lemma ro_pre_io : forall pos w st s', ry_pre f pos w st -> rp_file s' = rp_file (rp_w_io w) -> rp_flen s' = rp_flen (rp_w_io w) ->
  ry_pre f pos (rp_w_set_io w s') st.
Proof.
  intros pos w st s' (A1 & A3 & A4 & A5) Hf Hn. unfold ry_pre.
  change (rp_log (rp_w_set_io w s')) with (rp_log w). change (rp_w_io (rp_w_set_io w s')) with s'. rewrite Hf, Hn. repeat split; assumption.
Qed.

(* the state of jls_rd_open when the loops over tracks and signals begin (truncated, last chunk re-written) *)
Lemma ro_start_inv : forall c s1 rc1 s2 s3 s5 r6 h6,
  rp_file (rp_io_ c) = f -> rp_flen (rp_io_ c) = rp_len f -> sc_sigs f (rp_sigs c) ->
  rw_heads_ok (rw_T f (rp_offset (rp_r (rp_io_ c)))) (rp_sigs c) = true ->
  let pos := rp_offset (rp_r (rp_io_ c)) in
  rp_raw_open (rp_io_ c) true = (s1, rc1) -> rp_chunk_seek s1 pos = (s2, 0) -> rp_rd_chunk s2 = (s3, 0) ->
  let w1 := rp_w_set_io (rp_w0 c) s1 in
  let w4 := rp_bk_truncate (rp_w_set_io w1 s3) in
  rp_chunk_seek (rp_w_io w4) pos = (s5, 0) ->
  let w5 := rp_w_set_io w4 s5 in
  wm_raw_wr (wm_b_raw (rp_wm_base w5 0)) (wm_ck_hdr (rp_cur s5)) (rp_payload s5) = (r6, h6) ->
  let w6 := rp_commit w5 (wm_b_set_raw (rp_wm_base w5 0) r6) in
  let w6a := rp_w_set_io w6 (rp_io_set_cur (rp_w_io w6) {| wm_ck_offset := wm_ck_offset (rp_cur s5); wm_ck_hdr := h6 |}) in
  exists st6, rp_flt (rp_w_io w6a) = 0 -> ry_acc f pos w6a st6 /\ ry_sigs f pos st6 (rp_c w6a).
Proof.
  intros c s1 rc1 s2 s3 s5 r6 h6 Hf Hn Ssc Hg pos E1 E2 E3. cbv zeta. intros E5 E6.
  assert (Hc0 : rp_flen (rp_io_ c) = rp_len (rp_file (rp_io_ c))) by (rewrite Hn, Hf; reflexivity).
  pose proof (ro_raw_open (rp_io_ c) true Hc0) as O. cbv zeta in O. rewrite E1 in O. cbn [fst] in O.
  destruct O as (O1 & O2 & O3 & O4 & O5 & O6 & O7 & O8).
  set (w1 := rp_w_set_io (rp_w0 c) s1) in *.
    destruct (rpp_chunk_seek_ok _ _ _ E2) as (P1 & P2 & P3 & P4 & _).
    destruct (ro_chunk_seek_pos _ _ _ E2) as (Pn0 & _).
    destruct (ro_chunk_seek_keep s1 pos) as (_ & _ & _ & P5 & _). rewrite E2 in P5. cbn [fst] in P5.
    assert (Hc2 : rp_flen s2 = rp_len (rp_file s2)) by congruence.
    assert (Hi2 : rr_inv s2) by (split; [exact Hc2 | intros X; rewrite P2 in X; discriminate X]).
    destruct (ry_rd_chunk_ok s2 s3 Hi2 E3) as (K1 & K2 & K3 & K4 & K5).
    destruct (ro_rd_chunk_fpos s2 s3 Hc2 P2 E3) as (K6 & K7 & K8).
    pose proof (rpp_rd_chunk_frame s2) as (G1 & G2 & G3). rewrite E3 in G1, G2, G3. cbn [fst] in G1, G2, G3.
    rewrite P1 in K1, K2, K3, K5, K6. rewrite P3, O1, Hf in K2, K3, K5.
    set (h := wm_ck_hdr (rp_cur s3)) in *. set (pl := fm_payload_length h) in *.
    set (T := pos + 32 + fm_disk_len pl) in *.
    assert (HT : rw_T f pos = T) by (unfold rw_T; rewrite K2; reflexivity).
    assert (Hfe3 : rp_fend (rp_r s3) = rp_len f).
    { rewrite G3, P5. destruct O3 as [X | X]; [congruence | rewrite P5 in K7; contradiction]. }
    (* the truncation *)
    set (w3 := rp_w_set_io w1 s3) in *.
    assert (Pre3 : ry_pre f pos w3 (rw_st0 f)) by (apply ro_pre0; [reflexivity | cbn; congruence | cbn; congruence]).
    destruct (ro_truncate w3) as (b4 & Eb4 & L4 & Q1 & Q2 & Q3 & Q4).
    change (rp_w_io w3) with s3 in L4, Q1, Q2, Q3, Q4. rewrite K6 in L4, Q1, Q2. rewrite Hfe3 in Q2.
    rewrite Eb4 in *. set (w4 := rp_commit w3 b4) in *.
    set (e0 := WmTrunc T).
    assert (N0 : In RwLastH (rw_next false f pos (rw_st0 f) e0)).
    { cbn [rw_next rw_st0 rw_stg rw_n e0]. rewrite K2. fold h pl T. rewrite N.eqb_refl.
      replace (T <=? rp_len f) with true by (symmetry; apply N.leb_le; exact K5). now left. }
    set (st4 := rw_after (rw_st0 f) e0 RwLastH).
    assert (Pre4 : ry_pre f pos w4 st4).
    { apply (ry_pre_commit f pos w3 b4 (rw_st0 f) st4 Pre3). rewrite L4. cbn [rev app]. apply rw_runs_one. exact N0. }
    assert (Hn4 : rw_n st4 = T) by (unfold st4, rw_after; cbn [rw_n]; apply ro_apply_trunc_n).
    assert (Hs4 : rw_stg st4 = RwLastH) by reflexivity.
    destruct (ro_commit_fields w3 b4) as (C1 & C2 & C3 & C4). fold w4 in C1, C2, C3, C4. change (rp_w_io w3) with s3 in C2, C3, C4.
    (* the seek back to the chunk *)
    destruct (ro_chunk_seek_pos _ _ _ E5) as (_ & S1 & S2 & S3).
    destruct (ro_chunk_seek_keep (rp_w_io w4) pos) as (S4 & S5 & S6 & S7 & S8). rewrite E5 in S4, S5, S6, S7, S8. cbn [fst] in S4, S5, S6, S7, S8.
    destruct (rpp_chunk_seek_ok _ _ _ E5) as (_ & _ & S9 & S10 & S11).
    rewrite C1 in S7, S8. cbn [rp_fend rp_last_pl] in S7, S8. rewrite Q2 in S7.
    assert (HminT : N.min (rp_len f) T = T) by lia. rewrite HminT in S7.
    set (w5 := rp_w_set_io w4 s5) in *.
    assert (Pre5 : ry_pre f pos w5 st4) by (apply ro_pre_io; assumption).
    assert (Hcur : rp_cur s5 = rp_cur s3) by congruence.
    assert (Hpay : rp_payload s5 = fm_sub (pos + 32) pl f) by (unfold rp_payload; rewrite S4, S5, C3, C4; exact K3).
    rewrite Hcur, Hpay in E6. fold h in E6.
    assert (Eraw5 : wm_b_raw (rp_wm_base w5 0) =
              wm_mk_raw pos T pos (rp_hdr (rp_r s5)) (rp_last_pl (rp_r s5)) (rp_ghost s5 0) [] false).
    { rewrite ry_wm_raw_mk. change (rp_w_io w5) with s5. rewrite S1, S2, S7. reflexivity. }
    rewrite Eraw5 in E6.
    set (w6 := rp_commit w5 (wm_b_set_raw (rp_wm_base w5 0) r6)) in *.
    set (w6a := rp_w_set_io w6 (rp_io_set_cur (rp_w_io w6) {| wm_ck_offset := wm_ck_offset (rp_cur s5); wm_ck_hdr := h6 |})) in *.
    set (pay := fm_sub (pos + 32) pl f) in *.
    assert (Hlp : N.of_nat (length pay) = pl) by (rewrite <- K3; exact K4).
    set (e1 := WmWrite pos (fm_encode_chunk_header h)).
    set (e2 := WmWrite (pos + 32) pay).
    set (e3 := WmWrite (pos + 32 + pl) (wm_footer pl (crc32c pay))).
    destruct Pre4 as (R4 & G4 & Nf4 & Nl4).
    assert (Hb32 : rp_len (fm_encode_chunk_header h) = 32) by (unfold rp_len; rewrite fm_encode_chunk_header_length; reflexivity).
    assert (Hd : pl <> 0 -> fm_disk_len pl = pl + (fm_pad_len pl + 4)) by (apply rw_disk_len_nz).
    assert (H32T : 32 <= T) by (unfold T; lia).
    (* the state of the classifier after the re-write, in both cases *)
    assert (ST : exists st6, rw_stg st6 = RwIdle /\ rw_n st6 = T /\
              In st6 (rw_runs false f pos st4 (if pl =? 0 then [e1] else [e1; e2; e3]))).
    { destruct (pl =? 0) eqn:Epl.
      - set (st5 := rw_after st4 e1 RwIdle).
        assert (N1 : In RwIdle (rw_next false f pos st4 e1)).
        { cbn [rw_next e1]. rewrite Hs4, K2. fold h pl. rewrite Epl, N.eqb_refl.
          replace (fm_list_eqb (fm_encode_chunk_header h) (fm_encode_chunk_header h)) with true by (symmetry; apply fm_list_eqb_eq; reflexivity). now left. }
        exists st5. split; [reflexivity |]. split; [| apply rw_runs_one; exact N1].
        unfold st5, e1. rewrite rx_after_inplace; [cbn [rw_n]; exact Hn4 | exact Nl4 | rewrite Hb32, Hn4; unfold T; lia].
      - apply N.eqb_neq in Epl. specialize (Hd Epl).
        assert (N1 : In RwLastP (rw_next false f pos st4 e1)).
        { cbn [rw_next e1]. rewrite Hs4, K2. fold h pl. replace (pl =? 0) with false by (symmetry; apply N.eqb_neq; exact Epl). rewrite N.eqb_refl.
          replace (fm_list_eqb (fm_encode_chunk_header h) (fm_encode_chunk_header h)) with true by (symmetry; apply fm_list_eqb_eq; reflexivity). now left. }
        set (st5 := rw_after st4 e1 RwLastP).
        assert (A5 : rw_n st5 = T /\ rw_stg st5 = RwLastP /\ rw_n st5 = rp_len (rw_g st5)).
        { unfold st5, e1. rewrite rx_after_inplace; [| exact Nl4 | rewrite Hb32, Hn4; unfold T; lia]. cbn [rw_n rw_stg rw_g].
          split; [exact Hn4 |]. split; [reflexivity |]. rewrite rx_len_inplace; [exact Nl4 | rewrite <- Nl4, Hb32, Hn4; unfold T; lia]. }
        destruct A5 as (A5n & A5s & A5l).
        assert (N2 : In (RwLastF pay) (rw_next false f pos st5 e2)).
        { cbn [rw_next e2]. rewrite A5s, K2. fold h pl pay. rewrite N.eqb_refl.
          replace (fm_list_eqb pay pay) with true by (symmetry; apply fm_list_eqb_eq; reflexivity). now left. }
        set (st5b := rw_after st5 e2 (RwLastF pay)).
        assert (B5 : rw_n st5b = T /\ rw_stg st5b = RwLastF pay /\ rw_n st5b = rp_len (rw_g st5b)).
        { unfold st5b, e2. rewrite rx_after_inplace; [| exact A5l | unfold rp_len; rewrite Hlp, A5n; unfold T; lia]. cbn [rw_n rw_stg rw_g].
          split; [exact A5n |]. split; [reflexivity |]. rewrite rx_len_inplace; [exact A5l | rewrite <- A5l; unfold rp_len; rewrite Hlp, A5n; unfold T; lia]. }
        destruct B5 as (B5n & B5s & B5l).
        assert (N3 : In RwIdle (rw_next false f pos st5b e3)).
        { cbn [rw_next e3]. rewrite B5s, K2. fold h pl. rewrite N.eqb_refl.
          replace (fm_list_eqb (wm_footer pl (crc32c pay)) (wm_footer pl (crc32c pay))) with true by (symmetry; apply fm_list_eqb_eq; reflexivity). now left. }
        set (st6 := rw_after st5b e3 RwIdle).
        exists st6. split; [reflexivity |]. split.
        + unfold st6, e3. rewrite rx_after_inplace; [cbn [rw_n]; exact B5n | exact B5l |].
          unfold rp_len. rewrite wm_footer_length, B5n. unfold T. lia.
        + change [e1; e2; e3] with ([e1] ++ [e2] ++ [e3]).
          eapply rw_runs_app; [apply rw_runs_one; exact N1 |]. eapply rw_runs_app; [apply rw_runs_one; exact N2 | apply rw_runs_one; exact N3]. }
    destruct ST as (st6 & St6 & Sn6 & Sr6).
    exists st6.
    intros X.
    assert (X6 : rp_flt (rp_w_io w6) = 0) by exact X.
    destruct (ry_commit_flt _ _ X6) as (_ & Hwf). rewrite ry_raw_set in Hwf.
    destruct (rw_rewrite_eq T (rp_hdr (rp_r s5)) (rp_last_pl (rp_r s5)) (rp_ghost s5 0) pos h pay (r6, h6) Pn0
                (N.le_refl T) Hlp (eq_sym E6) Hwf) as (H6h & L6 & Fe6 & Fp6 & Fo6 & Hv6).
    cbn [fst snd] in H6h, L6, Fe6, Fp6, Fo6, Hv6. fold pl in L6.
    assert (Pre6 : ry_pre f pos w6 st6).
    { apply (ry_pre_commit f pos w5 _ st4 st6 Pre5). rewrite ry_raw_set, L6.
      destruct (pl =? 0); cbn [rev app]; exact Sr6. }
    destruct Pre6 as (R6 & G6 & Nf6 & Nl6).
    destruct (ro_commit_fields w5 (wm_b_set_raw (rp_wm_base w5 0) r6)) as (D1 & _). fold w6 in D1. rewrite ry_raw_set in D1.
    split.
    + unfold ry_acc. change (rp_log w6a) with (rp_log w6). change (rp_file (rp_w_io w6a)) with (rp_file (rp_w_io w6)).
      change (rp_flen (rp_w_io w6a)) with (rp_flen (rp_w_io w6)). change (rp_r (rp_w_io w6a)) with (rp_r (rp_w_io w6)).
      split; [exact R6 |]. split; [exact St6 |]. split; [exact G6 |]. split; [exact Nf6 |]. split; [exact Nl6 |].
      split; [rewrite D1; cbn [rp_fend]; rewrite Fe6, Sn6; reflexivity |].
      split; [rewrite HT, Sn6; lia |]. split; [rewrite Sn6; exact H32T |].
      split; [change (rp_flen (rp_w_io w6a)) with (rp_flen (rp_w_io w6)); change (rp_file (rp_w_io w6a)) with (rp_file (rp_w_io w6)); congruence |].
      intros V. exfalso. change (rp_r (rp_w_io w6a)) with (rp_r (rp_w_io w6)) in V. rewrite D1 in V.
      unfold rp_r_valid in V. cbn [rp_hdr] in V. unfold wm_hdr_valid in Hv6. rewrite Hv6 in V. discriminate V.
    + unfold ry_sigs. change (rp_sigs (rp_c w6a)) with (rp_sigs (rp_c w6)). unfold w6. rewrite ry_commit_sigs.
      change (rp_sigs (rp_c w5)) with (rp_sigs (rp_c w4)). unfold w4. rewrite ry_commit_sigs.
      change (rp_sigs (rp_c w3)) with (rp_sigs c).
      apply ro_sigs_of_scan; [exact Ssc | exact Hg |].
      assert (R6' : In st6 (rw_runs false f pos (rw_st0 f) (rev (rp_log w6)))) by exact R6.
      exact (proj2 (ry_hist f pos _ _ R6')).
Qed.

(* the repair branch *)
Lemma ro_repair_classified : forall c,
  rp_file (rp_io_ c) = f -> rp_flen (rp_io_ c) = rp_len f -> sc_sigs f (rp_sigs c) ->
  rw_heads_ok (rw_T f (rp_offset (rp_r (rp_io_ c)))) (rp_sigs c) = true ->
  rp_fault (rp_repair summ1 summN c) = 0 ->
  rp_rc (rp_repair summ1 summN c) <> JLS_ERROR_PARAMETER_INVALID -> rp_rc (rp_repair summ1 summN c) <> JLS_ERROR_NOT_SUPPORTED ->
  rw_check false f (rp_offset (rp_r (rp_io_ c))) (rp_events (rp_repair summ1 summN c)) = true.
Proof.
  intros c Hf Hn Ssc Hg Hflt Hr1 Hr2.
  destruct (ro_repair_cases c) as (s1 & rc1 & s2 & rc2 & s3 & rc3 & s5 & rc5 & r6 & h6 & E1 & E2 & E3 & E5 & E6 & D).
  cbv zeta in E5, E6, D.
  set (pos := rp_offset (rp_r (rp_io_ c))) in *.
  assert (Hc0 : rp_flen (rp_io_ c) = rp_len (rp_file (rp_io_ c))) by (rewrite Hn, Hf; reflexivity).
  pose proof (ro_raw_open (rp_io_ c) true Hc0) as O. cbv zeta in O. rewrite E1 in O. cbn [fst] in O.
  destruct O as (O1 & O2 & O3 & O4 & O5 & O6 & O7 & O8).
  assert (FN : ro_fsr_none c) by (apply (ro_fsr_none_of (sc_sig f)); [intros g (_ & X & _); exact X | exact Ssc]).
  set (w1 := rp_w_set_io (rp_w0 c) s1) in *.
  destruct D as [D | [(N2 & D) | [(Z2 & N3 & D) | [(Z2 & Z3 & N5 & D) | (Z2 & Z3 & Z5 & D)]]]]; rewrite D in *; clear D.
  - (* jls_raw_open "a" failed: nothing was written *) reflexivity.
  - (* the seek to the last chunk failed *)
    pose proof (rpp_chunk_seek_frame s1 pos) as (F1 & F2 & _). rewrite E2 in F1, F2. cbn [fst] in F1, F2.
    apply (ro_exit f summ1 summN pos _ rc2 (rw_st0 f)); [| left; reflexivity | exact FN].
    apply ro_pre0; [reflexivity | cbn; congruence | cbn; congruence].
  - (* the last chunk could not be read again *)
    pose proof (rpp_chunk_seek_frame s1 pos) as (F1 & F2 & _). rewrite E2 in F1, F2. cbn [fst] in F1, F2.
    pose proof (rpp_rd_chunk_frame s2) as (G1 & G2 & _). rewrite E3 in G1, G2. cbn [fst] in G1, G2.
    apply (ro_exit f summ1 summN pos _ rc3 (rw_st0 f)); [| left; reflexivity | exact FN].
    apply ro_pre0; [reflexivity | cbn; congruence | cbn; congruence].
  - (* the second seek to the same offset cannot fail *)
    exfalso. subst rc2. pose proof (ro_chunk_seek_rc _ _ _ E2 (rp_w_io (rp_bk_truncate (rp_w_set_io w1 s3)))) as X.
    rewrite E5 in X. cbn [snd] in X. contradiction.
  - (* truncation, re-write of the last chunk, then the rest *)
    subst rc2 rc3 rc5.
    destruct (ro_start_inv c s1 rc1 s2 s3 s5 r6 h6 Hf Hn Ssc Hg E1 E2 E3 E5 E6) as (st6 & M).
    exact (ro_tail_classified f (rp_offset (rp_r (rp_io_ c))) summ1 summN _ st6 M Hflt Hr1 Hr2).
Qed.

End ROH.

(* ================================================================ the classification theorem *)
Theorem ro_open_classified : forall (summ1 : N -> list N -> wm_sentry) (summN : bool -> list wm_sentry -> wm_sentry) (f : list N),
  rp_fault (rp_open summ1 summN f) = 0 -> rw_heads_below f = true ->
  rp_rc (rp_open summ1 summN f) <> JLS_ERROR_PARAMETER_INVALID -> rp_rc (rp_open summ1 summN f) <> JLS_ERROR_NOT_SUPPORTED ->
  rw_check false f (rw_pos f) (rp_events (rp_open summ1 summN f)) = true.
Proof.
  intros summ1 summN f. unfold rp_open, rw_pos, rw_heads_below.
  pose proof (rpp_scan_cases f) as S. pose proof (sc_scan f) as SC.
  destruct (rp_scan f) as [[c rc] | c].
  - intros _ _ _ _. reflexivity.
  - destruct S as (c3 & _ & (I1 & I2 & _) & E & Hf).
    assert (Hn : rp_flen (rp_io_ c) = rp_len f).
    { pose proof (rpp_rd_chunk_end_frame (rp_io_ c3)) as F. rewrite E in F. cbn [fst] in F. destruct F as (_ & F2 & _). congruence. }
    destruct (fm_tag (wm_ck_hdr (rp_cur (rp_io_ c))) =? JLS_TAG_END).
    + intros _ _ _ _. destruct (rpp_finish_quiet c) as (A & _). rewrite A. reflexivity.
    + intros Hflt Hg Hr1 Hr2. apply ro_repair_classified; try assumption. apply SC. reflexivity.
Qed.
