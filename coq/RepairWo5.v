(* WHAT THE REPAIR-ON-OPEN WRITES, part 5: the reader's signal tables.  The loops of jls_rd_open over signals and
   tracks (jls_track_repair_pointers for every track, jls_core_repair_fsr for every FSR signal), with the invariant
   about the tracks stored in the tables (ry_sigs / ry_fsigs).  Every top-level name starts with ry_. *)
From Coq Require Import NArith ZArith List Bool Lia Arith.
From Coq Require Import ZifyBool ZifyN ZifyNat.
From JLS Require Import Generated CrcDefs Spec Format FormatProofs WriteOnce WriteOnceProofs WmRaw WmCore WmFsr WriterModel WmProofs
  WmWriteOnce WmWriteOnce2 RepairRaw RawReadProofs RepairModel RepairProofs RepairProofs2 RepairProofs3
  RepairWo RepairWo2 RepairWo3 RepairWo4.
Import ListNotations.
Local Open Scope N_scope.
Ltac Zify.zify_post_hook ::= Z.div_mod_to_equations.

Local Opaque crc32c.

(* ================================================================ tables *)
Lemma ry_nth_upd_same : forall (A : Type) n (x d : A) l, (n < length l)%nat -> nth n (wm_upd n x l) d = x.
Proof.
  intros A n x d l. revert n. induction l as [| y l IH]; intros n H; [cbn in H; lia |].
  destruct n as [| n]; cbn [wm_upd nth]; [reflexivity | apply IH; cbn in H; lia].
Qed.
Lemma ry_nth_upd_other : forall (A : Type) n m (x d : A) l, n <> m -> nth m (wm_upd n x l) d = nth m l d.
Proof.
  intros A n m x d l. revert n m. induction l as [| y l IH]; intros n m H; [destruct n; reflexivity |].
  destruct n as [| n], m as [| m]; cbn [wm_upd nth]; try reflexivity; [lia | apply IH; lia].
Qed.
Lemma ry_nth_upd_beyond : forall (A : Type) n (x : A) l, (length l <= n)%nat -> wm_upd n x l = l.
Proof.
  intros A n x l. revert n. induction l as [| y l IH]; intros n H; [destruct n; reflexivity |].
  destruct n as [| n]; cbn [wm_upd]; [cbn in H; lia | f_equal; apply IH; cbn in H; lia].
Qed.
Lemma ry_nth_upd_cases : forall (A : Type) n m (x d : A) l,
  nth m (wm_upd n x l) d = x /\ n = m \/ nth m (wm_upd n x l) d = nth m l d.
Proof.
  intros A n m x d l. destruct (Nat.eq_dec n m) as [E | E]; [| right; apply ry_nth_upd_other; exact E].
  subst m. destruct (Nat.lt_ge_cases n (length l)) as [H | H]; [left; split; [apply ry_nth_upd_same; exact H | reflexivity] |].
  right. rewrite ry_nth_upd_beyond by exact H. reflexivity.
Qed.

Section RYS.
Variable f : list N.
Variable pos : N.
Let T := rw_T f pos.

(* ---------------------------------------------------------------- the phase of jls_track_repair_pointers *)
Definition ry_trk (st : rw_st) (x : bool * wm_track) : Prop :=
  (fst x = true -> ry_hd f pos st (snd x)) /\ (fst x = false -> snd x = wm_track0 0) /\ ry_fresh (rw_n st) (snd x).
Definition ry_sig (st : rw_st) (g : rp_sig) : Prop :=
  Forall (ry_trk st) (rp_sg_tk g) /\ rp_sg_fsr g = None /\
  wm_tk_type (snd (rp_sg_track g JLS_TRACK_TYPE_FSR)) = JLS_TRACK_TYPE_FSR.
Definition ry_sigs (st : rw_st) (c : rp_rd) : Prop := Forall (ry_sig st) (rp_sigs c).

Lemma ry_fresh_track0 : forall n, ry_fresh n (wm_track0 0).
Proof.
  intros n. split; cbn [wm_track0 wm_tk_index_head wm_tk_summary_head]; apply Forall_forall; intros c Hc; apply repeat_spec in Hc; subst c;
    (split; [reflexivity | left; reflexivity]).
Qed.
Lemma ry_trk_default : forall st, ry_trk st (false, wm_track0 0).
Proof. intros st. split; [intros X; discriminate X |]. split; [reflexivity | apply ry_fresh_track0]. Qed.
Lemma ry_trk_mono : forall st st' x, rx_mono st st' -> ry_trk st x -> ry_trk st' x.
Proof.
  intros st st' x M (A & B & C). split; [intros H; eapply ry_hd_mono; eauto |]. split; [exact B |].
  exact (ry_fresh_mono (rw_n st) (rw_n st') _ (proj2 M) C).
Qed.
Lemma ry_sig_mono : forall st st' g, rx_mono st st' -> ry_sig st g -> ry_sig st' g.
Proof.
  intros st st' g M (A & B & C). split; [| split; assumption]. eapply Forall_impl; [| exact A]. intros x Hx. eapply ry_trk_mono; eauto.
Qed.
Lemma ry_sigs_mono : forall st st' c, rx_mono st st' -> ry_sigs st c -> ry_sigs st' c.
Proof. intros st st' c M H. eapply Forall_impl; [| exact H]. intros g Hg. eapply ry_sig_mono; eauto. Qed.
Lemma ry_sig_default : forall st id, ry_sig st (rp_sig0 id).
Proof.
  intros st id. split; [| split; reflexivity]. cbn [rp_sig0 rp_sg_tk]. unfold rp_tracks0.
  repeat (apply Forall_cons; [apply ry_trk_default |]). apply Forall_nil.
Qed.
Lemma ry_sigs_get : forall st c id, ry_sigs st c -> ry_sig st (rp_get_sig c id).
Proof.
  intros st c id H. unfold rp_get_sig. destruct (nth_in_or_default (N.to_nat id) (rp_sigs c) (rp_sig0 id)) as [Hin | Hd].
  - unfold ry_sigs in H. rewrite Forall_forall in H. apply H. exact Hin.
  - rewrite Hd. apply ry_sig_default.
Qed.
Lemma ry_sig_track : forall st g ty, ry_sig st g -> ry_trk st (rp_sg_track g ty).
Proof.
  intros st g ty (A & _). unfold rp_sg_track. destruct (nth_in_or_default (N.to_nat ty) (rp_sg_tk g) (false, wm_track0 0)) as [Hin | Hd].
  - rewrite Forall_forall in A. apply A. exact Hin.
  - rewrite Hd. apply ry_trk_default.
Qed.
Lemma ry_sigs_put : forall st c id g, ry_sigs st c -> ry_sig st g -> ry_sigs st (rp_put_sig c id g).
Proof. intros st c id g H Hg. unfold ry_sigs, rp_put_sig. cbn [rp_sigs rp_rd_set_sigs]. apply wmw_Forall_upd; assumption. Qed.
Lemma ry_sigs_set_io : forall st c s, ry_sigs st c -> ry_sigs st (rp_rd_set_io c s).
Proof. intros st c s H. exact H. Qed.

(* the loops: a state together with its tables *)
Definition ry_full (w w' : rp_w) : Prop :=
  (rp_flt (rp_w_io w') = 0 -> rp_flt (rp_w_io w) = 0) /\
  forall st, ry_acc f pos w st -> ry_sigs st (rp_c w) -> rp_flt (rp_w_io w') = 0 ->
    exists st', ry_acc f pos w' st' /\ ry_sigs st' (rp_c w') /\ rx_mono st st'.
Lemma ry_full_refl : forall w, ry_full w w.
Proof. intros w. split; [auto |]. intros st H S _. exists st. split; [exact H |]. split; [exact S | apply rx_mono_refl]. Qed.
Lemma ry_full_trans : forall a b c, ry_full a b -> ry_full b c -> ry_full a c.
Proof.
  intros a b c [F1 S1] [F2 S2]. split; [auto |]. intros st H S Hf.
  destruct (S1 st H S (F2 Hf)) as (st1 & H1 & G1 & M1). destruct (S2 st1 H1 G1 Hf) as (st2 & H2 & G2 & M2).
  exists st2. split; [exact H2 |]. split; [exact G2 | eapply rx_mono_trans; eauto].
Qed.
Lemma ry_full_fold : forall (A : Type) (g : rp_w -> A -> rp_w) (l : list A) (w : rp_w),
  (forall w0 a, ry_full w0 (g w0 a)) -> ry_full w (fold_left g l w).
Proof.
  intros A g l. induction l as [| a l IH]; intros w H; cbn [fold_left]; [apply ry_full_refl |].
  eapply ry_full_trans; [apply H | apply IH; exact H].
Qed.

Lemma ry_sigs_eq : forall st c c', rp_sigs c' = rp_sigs c -> ry_sigs st c -> ry_sigs st c'.
Proof. intros st c c' E H. unfold ry_sigs. rewrite E. exact H. Qed.

Lemma ry_repair_tracks_step : forall w id ty,
  ry_full w (let g := rp_get_sig (rp_c w) id in
             let '(has, t) := rp_sg_track g ty in
             if has then
               let '(w1, t1) := rp_repair_pointers w id t in
               let g1 := rp_get_sig (rp_c w1) id in
               rp_w_set_c w1 (rp_put_sig (rp_c w1) id (rp_sg_set_tk g1 (wm_upd (N.to_nat ty) (true, t1) (rp_sg_tk g1))))
             else w).
Proof.
  intros w id ty. cbv zeta.
  destruct (rp_sg_track (rp_get_sig (rp_c w) id) ty) as [has t] eqn:Et.
  destruct has; [| apply ry_full_refl].
  pose proof (ry_repair_pointers f pos w id t) as ((Sg & Fl) & Sp).
  destruct (rp_repair_pointers w id t) as [w1 t1]. cbn [fst snd] in Sg, Fl, Sp.
  split; [exact Fl |]. intros st H S Hflt.
  change (rp_w_io (rp_w_set_c w1 _)) with (rp_io_ (rp_put_sig (rp_c w1) id
            (rp_sg_set_tk (rp_get_sig (rp_c w1) id) (wm_upd (N.to_nat ty) (true, t1) (rp_sg_tk (rp_get_sig (rp_c w1) id)))))) in Hflt.
  rewrite rpp_put_sig_io in Hflt.
  pose proof (ry_sigs_get st _ id S) as Gs.
  pose proof (ry_sig_track st _ ty Gs) as Tk. rewrite Et in Tk. destruct Tk as (Tk1 & _ & Tk3). cbn [fst snd] in Tk1, Tk3.
  destruct (Sp st H (Tk1 eq_refl) Tk3 Hflt) as (st' & H' & M & Nn & Hd' & Fr' & Ty').
  exists st'. split; [apply ry_acc_set_c; [exact H' | apply rpp_put_sig_io] |]. split; [| exact M].
  assert (S1 : ry_sigs st' (rp_c w1)) by (eapply ry_sigs_eq; [exact Sg | eapply ry_sigs_mono; eauto]).
  cbn [rp_c rp_w_set_c]. apply ry_sigs_put; [exact S1 |].
  pose proof (ry_sigs_get st' _ id S1) as (G1 & G2 & G3).
  assert (Eg : rp_get_sig (rp_c w1) id = rp_get_sig (rp_c w) id) by (unfold rp_get_sig; rewrite Sg; reflexivity).
  split; [| split].
  - cbn [rp_sg_set_tk rp_sg_tk]. apply wmw_Forall_upd; [exact G1 |].
    split; [intros _; exact Hd' |]. split; [intros X; discriminate X | exact Fr'].
  - exact G2.
  - unfold rp_sg_track in *. cbn [rp_sg_set_tk rp_sg_tk].
    destruct (ry_nth_upd_cases _ (N.to_nat ty) (N.to_nat JLS_TRACK_TYPE_FSR) (true, t1) (false, wm_track0 0) (rp_sg_tk (rp_get_sig (rp_c w1) id)))
      as [[E1 E2] | E1]; rewrite E1; [| exact G3].
    cbn [snd]. rewrite Ty'. rewrite Eg in G3. rewrite E2 in Et. rewrite Et in G3. exact G3.
Qed.

Lemma ry_repair_tracks : forall w id, ry_full w (rp_repair_tracks w id).
Proof. intros w id. unfold rp_repair_tracks. apply ry_full_fold. intros w0 ty. apply ry_repair_tracks_step. Qed.
Lemma ry_repair_all_pointers : forall w, ry_full w (rp_repair_all_pointers w).
Proof.
  intros w. unfold rp_repair_all_pointers. apply ry_full_fold. intros w0 id.
  destruct (rp_sg_sigid (rp_get_sig (rp_c w0) id) =? id); [apply ry_repair_tracks | apply ry_full_refl].
Qed.

End RYS.
