(* Private extraction file of the defs slice (C13) - copy of Extract.v naming only this
   slice's entry points.  At integration add to coq/Extract.v:
     From JLS Require Import DefsModel.   and in the Extraction list
     DefsModel.df_enc_str DefsModel.df_dec_str DefsModel.df_rd_str DefsModel.df_rd_skip DefsModel.df_rd_u8
     DefsModel.df_rd_u16 DefsModel.df_rd_u32 DefsModel.df_enc_source_def DefsModel.df_dec_source_def
     DefsModel.df_enc_signal_def DefsModel.df_dec_signal_def DefsModel.df_str_fitsb DefsModel.df_open
     DefsModel.df_step DefsModel.df_run DefsModel.df_scan DefsModel.df_rd_sources DefsModel.df_rd_signals
     DefsModel.df_rd_signal DefsModel.df_rd_user_data DefsModel.df_op_of
   (Spec.source0 Spec.signal0 Spec.sp_align Spec.str_read are needed too; Spec is already imported there). *)
From Coq Require Import Extraction ExtrOcamlBasic NArith ZArith List.
From JLS Require Import Generated Spec DefsModel.
Extraction Language OCaml.
Extraction "jlsmodel_ext"
  BinInt.Z.add BinInt.Z.opp BinInt.Z.of_N BinInt.Z.to_N BinNat.N.add BinNat.N.mul BinNat.N.of_nat BinNat.N.to_nat
  Spec.str_read Spec.source0 Spec.signal0 Spec.sp_align
  DefsModel.df_enc_str DefsModel.df_dec_str DefsModel.df_rd_str DefsModel.df_rd_skip DefsModel.df_rd_u8
  DefsModel.df_rd_u16 DefsModel.df_rd_u32 DefsModel.df_enc_source_def DefsModel.df_dec_source_def
  DefsModel.df_enc_signal_def DefsModel.df_dec_signal_def DefsModel.df_str_fitsb DefsModel.df_open
  DefsModel.df_step DefsModel.df_run DefsModel.df_scan DefsModel.df_rd_sources DefsModel.df_rd_signals
  DefsModel.df_rd_signal DefsModel.df_rd_user_data DefsModel.df_op_of.
