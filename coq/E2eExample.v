(* END TO END, example: every hypothesis of the end-to-end theorems (E2eTop, E2eOpen) holds for the program of
   compose_C01_example (a u16 signal, samples_per_data 64, first sample id 1000; user data, a source, a VSR signal,
   overlapping writes, a gap, rejected calls: 1100 samples in 18 blocks, 28 FSR chunks among 51, two index levels) with
   the zero summary oracles - including the part that is NOT proved in general: jls_rd_open (ReaderModel.rdm_open) on the
   bytes of the writer model's file returns a state whose tables are the writer's (e2_R0), checked by computation.
   Hence, for this program, with no hypothesis left: opening the file the byte-exact writer model produces and reading
   any window through the byte-level reader model returns Spec.rd_window, and the length is Spec.rd_length. *)
From Coq Require Import NArith ZArith List Bool Lia Arith.
From Coq Require Import ZifyBool ZifyN ZifyNat.
From JLS Require Import Generated CrcDefs Spec Format WriteOnce WmRaw WmCore WmTs WmFsr WriterModel WmProofs WmWriteOnce WmWriteOnce4
  PyramidModel PyramidProofs RefineLog RefineFsr RefinePyr RefinePyr2 RefineBits2 RefineProg RepairRaw RepairModel ReaderModel
  ComposeGuards ComposeFsr ComposeC01 ComposeExamples
  E2eLog E2eRead E2eModel E2eFsr E2eFsr2 E2eTop E2eOpen.
Import ListNotations.
Local Open Scope N_scope.

Definition ex_stf : py_wr :=
  match py_srun (rf_pd cx_d) (dt_bits (sg_dtype cx_d) <=? 8) (rf_t0 cx_ops) 1 (rf_script cx_d rf_bs0 cx_ops) with
  | PyOk s => s | PyErr _ => py_init 0 1 end.
(* abbreviations (notations: the terms are literally those of the theorems of E2eTop) *)
Notation ex_p := (cx_p1 ++ WSig cx_sig :: cx_p2) (only parsing).
Notation ex_ops := (rp_proj (sg_id cx_d) cx_p2) (only parsing).
Notation ex_g := (fold_left (fun g c => fsr_write g (fst c) (snd c)) (rf_calls ex_ops) (new_sig cx_d)) (only parsing).
Notation ex_log := (wm_st_log (fst (wm_run_full wm_zero_summ1 wm_zero_summN ex_p))) (only parsing).
Notation ex_f := (e2_file wm_zero_summ1 wm_zero_summN ex_p) (only parsing).
Notation ex_cs := (filter (rf_mine cx_d) (rf_chunks ex_log)) (only parsing).
Notation ex_psi := (rf_psi (map rc_off ex_cs) 1) (only parsing).
Notation ex_total := (Z.of_N (rd_length ex_g)) (only parsing).
Definition ex_st : rdm_st := Eval vm_compute in
  match rdm_open ex_f with RdmOpened st => st | _ => rdm_st0 (rp_rd0 (rp_io0 [])) end.

Lemma ex_py : py_srun (rf_pd cx_d) (dt_bits (sg_dtype cx_d) <=? 8) (rf_t0 (rp_proj (sg_id cx_d) cx_p2)) 1
                (rf_script cx_d rf_bs0 (rp_proj (sg_id cx_d) cx_p2)) = PyOk ex_stf.
Proof. vm_compute. reflexivity. Qed.

Lemma ex_open : rdm_open ex_f = RdmOpened ex_st.
Proof. vm_compute. reflexivity. Qed.

Lemma ex_R0 : e2_R0 ex_f cx_d (pw_heads ex_stf) ex_psi (rf_t0 ex_ops) ex_st.
Proof.
  constructor.
  - split; [vm_compute; reflexivity|]. split; vm_compute; reflexivity.
  - vm_compute; reflexivity.
  - vm_compute; reflexivity.
  - vm_compute; reflexivity.
  - vm_compute; reflexivity.
  - vm_compute; reflexivity.
  - vm_compute; reflexivity.
  - vm_compute; reflexivity.
  - vm_compute; reflexivity.
  - apply Nat.ltb_lt. vm_compute. reflexivity.
  - intros L HL.
    assert (H : forallb (fun L => wm_get_off (rdm_offsets ex_st (sg_id cx_d) JLS_TRACK_TYPE_FSR) (N.of_nat L) =? ex_psi (nth L (pw_heads ex_stf) 0%Z))
                  (seq 0 16) = true) by (vm_compute; reflexivity).
    rewrite forallb_forall in H. apply N.eqb_eq. apply H. apply in_seq. lia.
Qed.

Lemma ex_P : e2_P ex_f cx_d (pw_disk ex_stf) (pw_heads ex_stf) ex_psi (rf_t0 ex_ops) ex_total ex_st.
Proof.
  apply (e2o_opened_P ex_f cx_d (pw_disk ex_stf) (pw_heads ex_stf) ex_psi (rf_t0 ex_ops) ex_total ex_st ex_open ex_R0).
  - reflexivity.
  - vm_compute. reflexivity.
Qed.

(* the hypotheses of E2eTop.e2t_fsr_length / e2t_fsr_window for this program *)
Lemma ex_hyps :
  (0 < 1)%Z /\ sg_id cx_d <> 0 /\ sg_type cx_d = JLS_SIGNAL_TYPE_FSR /\ sg_eps cx_d * sg_sdf cx_d < 4294967296 /\
  Forall (rp_ok (sg_id cx_d)) (cx_p1 ++ WSig cx_sig :: cx_p2) /\
  Forall (fun o => match o with WSig d' => sg_id d' <> sg_id cx_d | _ => True end) cx_p1 /\
  snd (wm_api_signal_def (fst (wm_steps wm_zero_summ1 wm_zero_summN wm_api_open cx_p1 [])) cx_sig) = 0 /\
  wm_sig_align cx_sig = Some cx_d /\
  wm_fill_sample (sg_dtype cx_d) = fill_value (sg_dtype cx_d) /\
  8 < dt_bits (sg_dtype cx_d) /\ cmp_no_omit ex_ops /\ rd_length ex_g <> 0 /\
  wmw_bounded ex_log /\
  e2t_adjb ex_cs = true /\ e2t_bigb ex_cs = true /\
  rf_len ex_f < rp_two63 /\ sg_spd cx_d < 4294967296 /\
  ((- e2_tsb <= rf_t0 ex_ops)%Z /\ (rf_t0 ex_ops + Z.of_N (rd_length ex_g) + Z.of_N (sg_spd cx_d) <= e2_tsb)%Z) /\
  (forall k, (1 <= k)%nat -> nth k (pw_heads ex_stf) 0%Z <> 0%Z -> (py_step (rf_pd cx_d) k < rdm_two63)%Z).
Proof.
  destruct cmp_c01_example as (A1 & _ & A3 & A4 & _ & _ & _ & _ & A9 & _ & _ & _ & _ & A14 & A15 & A16 & A17 & _ & A19 & _).
  split; [exact A1|]. split; [exact A3|]. split; [exact A4|]. split; [vm_compute; reflexivity|].
  split; [exact A14|]. split; [exact A15|]. split; [exact A16|]. split; [exact A17|]. split; [exact A9|].
  split; [vm_compute; reflexivity|]. split; [exact A19|]. split; [vm_compute; discriminate|].
  split; [intros off b Hin; apply (wmw_bounded_b_sound ex_log); [vm_compute; reflexivity|exact Hin]|].
  split; [vm_compute; reflexivity|]. split; [vm_compute; reflexivity|]. split; [vm_compute; reflexivity|]. split; [vm_compute; reflexivity|].
  split. { split; vm_compute; discriminate. }
  intros k Hk Hn. assert (E : pw_heads ex_stf = [1; 6; 27]%Z) by (vm_compute; reflexivity). rewrite E in Hn.
  destruct k as [|[|[|k]]]; [lia|vm_compute; reflexivity|vm_compute; reflexivity|]. exfalso. apply Hn. destruct k; reflexivity.
Qed.

(* the whole chain on this program, nothing assumed: open, length, every window, from every state reached by reads *)
Theorem ex_end_to_end :
  rdm_open ex_f = RdmOpened ex_st /\
  e2_P ex_f cx_d (pw_disk ex_stf) (pw_heads ex_stf) ex_psi (rf_t0 ex_ops) ex_total ex_st /\
  rd_length ex_g = 1100 /\
  forall st, e2_P ex_f cx_d (pw_disk ex_stf) (pw_heads ex_stf) ex_psi (rf_t0 ex_ops) ex_total st ->
    (exists st', rdm_fsr_length st (sg_id cx_d) = (st', 0, 1100%Z) /\
                 e2_P ex_f cx_d (pw_disk ex_stf) (pw_heads ex_stf) ex_psi (rf_t0 ex_ops) ex_total st' /\
                 rdm_stale st' = rdm_stale st /\ rdm_flt st' = rdm_flt st) /\
    forall recon f32_of_f64 start len, (0 <= start)%Z -> (0 < len)%Z -> (start + len <= 1100)%Z ->
      exists st' pcs out,
        rdm_fsr recon f32_of_f64 st (sg_id cx_d) start len (repeat 0 (N.to_nat ((Z.to_N len * 16 + 7) / 8))) = (st', 0, out, pcs) /\
        rd_window ex_g (Z.to_N start) (Z.to_N len) = Some out /\
        e2_P ex_f cx_d (pw_disk ex_stf) (pw_heads ex_stf) ex_psi (rf_t0 ex_ops) ex_total st' /\
        rdm_stale st' = rdm_stale st /\ rdm_flt st' = rdm_flt st.
Proof.
  destruct ex_hyps as (H1 & H2 & H3 & H4 & H5 & H6 & H7 & H8 & H9 & H10 & H11 & H12 & H13 & H14 & H15 & H16 & H17 & H18 & H19).
  assert (Hlen : rd_length ex_g = 1100) by (vm_compute; reflexivity).
  split; [exact ex_open|]. split; [exact ex_P|]. split; [exact Hlen|].
  intros st HP. split.
  - pose proof (e2t_fsr_length wm_zero_summ1 wm_zero_summN cx_sig cx_d 1 cx_p1 cx_p2 ex_stf H1 H2 H3 H4 H5 H6 H7 H8 ex_py H9 H12 H13
                  (e2t_adjb_sound _ H14) (e2t_bigb_sound _ H15) H16 H17 H18 H19 H11 st HP) as (st' & E & HP' & S1 & S2).
    exists st'. split; [|split; [exact HP'|split; [exact S1|exact S2]]].
    rewrite E, Hlen. reflexivity.
  - intros recon f32_of_f64 start len Hs Hl He.
    assert (Hw : dt_bits (sg_dtype cx_d) = 16) by (vm_compute; reflexivity).
    destruct (e2t_fsr_window wm_zero_summ1 wm_zero_summN cx_sig cx_d 1 cx_p1 cx_p2 ex_stf H1 H2 H3 H4 H5 H6 H7 H8 ex_py H9 H12 H13
                (e2t_adjb_sound _ H14) (e2t_bigb_sound _ H15) H16 H17 H18 H19 H10 H11 recon f32_of_f64 st start len
                (repeat 0 (N.to_nat ((Z.to_N len * 16 + 7) / 8))) HP Hs Hl)
      as (st' & pcs & out & E & HP' & S1 & S2 & _ & _ & _ & Hz).
    + rewrite Hlen. exact He.
    + rewrite Hw, repeat_length. lia.
    + exists st', pcs, out. split; [exact E|]. split; [apply Hz; rewrite Hw; reflexivity|]. split; [exact HP'|]. split; [exact S1|exact S2].
Qed.
