(* Private extraction file of the sd_sigdef slice (C16) - copy of Extract.v naming only
   this slice's entry points.  At integration add to coq/Extract.v:
     From JLS Require Import SigDef.   and in the Extraction list
     SigDef.sd_define SigDef.sd_align_fast SigDef.sd_validate SigDef.sd_defaults SigDef.sample_size
     SigDef.consistent_clauses SigDef.consistentb SigDef.entry256b SigDef.sd_loop_args *)
From Coq Require Import Extraction ExtrOcamlBasic NArith ZArith List.
From JLS Require Import Generated SigDef.
Extraction Language OCaml.
Extraction "jlsmodel_ext"
  BinInt.Z.add BinInt.Z.opp BinInt.Z.of_N BinInt.Z.to_N BinNat.N.add BinNat.N.mul BinNat.N.of_nat BinNat.N.to_nat
  SigDef.sd_define SigDef.sd_align_fast SigDef.sd_validate SigDef.sd_defaults SigDef.sample_size
  SigDef.consistent_clauses SigDef.consistentb SigDef.entry256b SigDef.sd_loop_args.
