(* Proofs about the timestamp-indexed tracks (TsModel.v): writer invariant (commit pyramid),
   seek, annotation iteration, UTC iteration.  Used by Properties_C11.v / Properties_C12_ts.v. *)
From Coq Require Import ZArith List Bool Arith Lia Sorted.
From JLS Require Import TsModel.
Import ListNotations.

(* ------------------------------------------------------------------ generic list facts *)
Lemma ts_nth_error_concat : forall {X} (Gs : list (list X)) q G i x,
  nth_error Gs q = Some G -> nth_error G i = Some x ->
  nth_error (concat Gs) (length (concat (firstn q Gs)) + i) = Some x.
Proof.
  intros X Gs. induction Gs as [|G0 Gs IH]; intros q G i x Hq Hi.
  - destruct q; discriminate.
  - destruct q as [|q]; cbn in *.
    + inversion Hq; subst. rewrite nth_error_app1; [assumption|]. apply nth_error_Some. congruence.
    + rewrite app_length, <- Nat.add_assoc. rewrite nth_error_app2 by lia.
      replace (length G0 + (length (concat (firstn q Gs)) + i) - length G0) with (length (concat (firstn q Gs)) + i) by lia.
      eapply IH; eauto.
Qed.

Lemma ts_map_eq_app_cons : forall {X Y} (f : X -> Y) l A y B,
  map f l = A ++ y :: B ->
  exists lA x lB, l = lA ++ x :: lB /\ map f lA = A /\ f x = y /\ map f lB = B.
Proof.
  intros X Y f l. induction l as [|a l IH]; intros A y B H.
  - destruct A; discriminate.
  - destruct A as [|a' A]; cbn in H; inversion H; subst.
    + exists [], a, l. auto.
    + destruct (IH _ _ _ H2) as (lA & x & lB & -> & <- & <- & <-).
      exists (a :: lA), x, lB. auto.
Qed.

Lemma ts_firstn_app_len : forall {X} (a b : list X), firstn (length a) (a ++ b) = a.
Proof. intros. rewrite firstn_app, Nat.sub_diag, firstn_all. cbn. apply app_nil_r. Qed.

Lemma ts_skipn_app_len : forall {X} (a b : list X), skipn (length a) (a ++ b) = b.
Proof. intros. rewrite skipn_app, Nat.sub_diag, skipn_all. reflexivity. Qed.

Lemma ts_nth_error_split : forall {X} (l : list X) n x, nth_error l n = Some x ->
  exists a b, l = a ++ x :: b /\ length a = n.
Proof. intros. apply nth_error_split; assumption. Qed.

Lemma ts_nth_error_mid : forall {X} (a : list X) x b, nth_error (a ++ x :: b) (length a) = Some x.
Proof. intros. rewrite nth_error_app2 by lia. rewrite Nat.sub_diag. reflexivity. Qed.

(* strongly sorted key lists *)
Definition zsorted (l : list Z) : Prop := StronglySorted Z.le l.

Lemma zsorted_app_l : forall a b, zsorted (a ++ b) -> zsorted a.
Proof.
  induction a as [|x a IH]; intros b H; [constructor|].
  inversion H; subst. constructor; [eapply IH; eauto|].
  apply Forall_app in H3. tauto.
Qed.
Lemma zsorted_app_r : forall a b, zsorted (a ++ b) -> zsorted b.
Proof. induction a as [|x a IH]; intros b H; [assumption|]. inversion H; subst. eauto. Qed.
Lemma zsorted_app_le : forall a b x y, zsorted (a ++ b) -> In x a -> In y b -> (x <= y)%Z.
Proof.
  induction a as [|z a IH]; intros b x y H Hx Hy; [contradiction|].
  inversion H; subst. destruct Hx as [->|Hx].
  - rewrite Forall_forall in H3. apply H3. apply in_or_app. auto.
  - eapply IH; eauto.
Qed.
Lemma zsorted_cons_all : forall x l, zsorted (x :: l) -> Forall (fun y => (x <= y)%Z) l.
Proof. intros x l H. inversion H; assumption. Qed.

(* index of the first key >= t *)
Fixpoint ts_fge (t : Z) (ks : list Z) : nat :=
  match ks with [] => 0 | k :: r => if (k >=? t)%Z then 0 else S (ts_fge t r) end.

Lemma ts_fge_app_lt : forall t a r, Forall (fun y => (y < t)%Z) a -> ts_fge t (a ++ r) = length a + ts_fge t r.
Proof.
  induction a as [|x a IH]; intros r H; [reflexivity|]. inversion H; subst. cbn.
  destruct (x >=? t)%Z eqn:E; [lia|]. rewrite IH by assumption. reflexivity.
Qed.
Lemma ts_fge_firstn_lt : forall t ks, Forall (fun y => (y < t)%Z) (firstn (ts_fge t ks) ks).
Proof.
  induction ks as [|k r IH]; cbn; [constructor|].
  destruct (k >=? t)%Z eqn:E; cbn; [constructor|]. constructor; [lia|assumption].
Qed.
Lemma ts_fge_le : forall t ks, ts_fge t ks <= length ks.
Proof. induction ks as [|k r IH]; cbn; [lia|]. destruct (k >=? t)%Z; cbn; lia. Qed.

(* the positions a seek may end at (key lists) *)
Definition ts_PU (t : Z) (ks : list Z) (p : nat) : Prop :=
  exists A x B, ks = A ++ x :: B /\ length A = p /\ (A = [] \/ (x < t)%Z) /\ Forall (fun y => (t <= y)%Z) B.
Definition ts_PF (t : Z) (ks : list Z) (p : nat) : Prop :=
  exists A x B, ks = A ++ x :: B /\ length A = p /\
    (A = [] \/ (x < t)%Z \/ (x = t /\ Forall (fun y => (y < t)%Z) A)) /\ Forall (fun y => (t <= y)%Z) B.

Lemma ts_PU_PF : forall t ks p, ts_PU t ks p -> ts_PF t ks p.
Proof. intros t ks p (A & x & B & H1 & H2 & H3 & H4). exists A, x, B. intuition. Qed.

Lemma ts_PF_range : forall t ks p, zsorted ks -> ts_PF t ks p ->
  Nat.pred (ts_fge t ks) <= p <= ts_fge t ks /\ p < length ks.
Proof.
  intros t ks p Hs (A & x & B & -> & <- & Hc & HB).
  split; [|rewrite app_length; cbn; lia].
  assert (HfB : forall x' R, (t <= x')%Z -> ts_fge t (x' :: R) = 0).
  { intros x' R Hx'. cbn. destruct (x' >=? t)%Z eqn:E; [reflexivity|lia]. }
  assert (HB0 : ts_fge t B = 0).
  { destruct B as [|b B]; [reflexivity|]. inversion HB; subst. apply HfB. assumption. }
  destruct (Z_lt_ge_dec x t) as [Hlt|Hge].
  - (* x < t: every element of A is < t *)
    assert (HA : Forall (fun y => (y < t)%Z) (A ++ [x])).
    { apply Forall_app. split; [|repeat constructor; assumption].
      rewrite Forall_forall. intros y Hy.
      assert (y <= x)%Z by (eapply zsorted_app_le; eauto; left; reflexivity). lia. }
    replace (A ++ x :: B) with ((A ++ [x]) ++ B) by (rewrite <- app_assoc; reflexivity).
    rewrite ts_fge_app_lt by assumption. rewrite app_length, HB0. cbn. lia.
  - destruct Hc as [->|[Hc|[Hx HA]]].
    + cbn. destruct (x >=? t)%Z eqn:E; [lia|lia].
    + lia.
    + rewrite ts_fge_app_lt by assumption. rewrite HfB by lia. lia.
Qed.

(* the scan loop on keys *)
Fixpoint ts_zscan (upper : bool) (t : Z) (ks : list Z) (idx : nat) : nat :=
  match ks with
  | [] => Nat.pred idx
  | k :: r =>
    if (k >? t)%Z then Nat.pred idx
    else if (k =? t)%Z then (if upper && (0 <? idx) then Nat.pred idx else idx)
    else ts_zscan upper t r (S idx)
  end.

Lemma ts_scan_zscan : forall upper t es idx, ts_scan upper t es idx = ts_zscan upper t (map fst es) idx.
Proof.
  induction es as [|e r IH]; intros idx; cbn; [reflexivity|].
  destruct (fst e >? t)%Z; [reflexivity|]. destruct (fst e =? t)%Z; [reflexivity|]. apply IH.
Qed.

Lemma ts_zscan_spec_gen : forall upper t es pre,
  zsorted (pre ++ es) -> Forall (fun y => (y < t)%Z) pre -> pre ++ es <> [] ->
  exists G1 g G2, pre ++ es = G1 ++ g :: G2 /\ length G1 = ts_zscan upper t es (length pre) /\
    Forall (fun y => (t <= y)%Z) G2 /\
    ((g < t)%Z \/ (G1 = [] /\ (t <= g)%Z) \/ (upper = false /\ g = t /\ Forall (fun y => (y < t)%Z) G1)).
Proof.
  intros upper t es. induction es as [|e r IH]; intros pre Hs Hpre Hne.
  - rewrite app_nil_r in *. destruct (exists_last Hne) as (G1 & g & ->).
    exists G1, g, []. cbn. rewrite app_length. cbn.
    split; [reflexivity|]. split; [lia|]. split; [constructor|].
    apply Forall_app in Hpre. destruct Hpre as [_ Hg]. inversion Hg; subst. left; assumption.
  - assert (Hr : Forall (fun y => (e <= y)%Z) r) by (apply zsorted_cons_all; eapply zsorted_app_r; eauto).
    assert (Hlast : pre <> [] -> (t <= e)%Z ->
       exists G1 g G2, pre ++ e :: r = G1 ++ g :: G2 /\ length G1 = Nat.pred (length pre) /\
         Forall (fun y => (t <= y)%Z) G2 /\ (g < t)%Z).
    { intros Hp He. destruct (exists_last Hp) as (G1 & g & ->).
      exists G1, g, (e :: r). rewrite <- app_assoc. cbn. rewrite app_length. cbn.
      split; [reflexivity|]. split; [lia|]. split.
      - constructor; [assumption|]. eapply Forall_impl; [|exact Hr]. cbn; intros; lia.
      - apply Forall_app in Hpre. destruct Hpre as [_ Hg]. inversion Hg; assumption. }
    assert (Hhere : (t <= e)%Z -> Forall (fun y => (t <= y)%Z) r).
    { intros He. eapply Forall_impl; [|exact Hr]. cbn; intros; lia. }
    cbn [ts_zscan]. destruct (e >? t)%Z eqn:E1.
    + destruct pre as [|p0 pre'].
      * exists [], e, r. cbn. split; [reflexivity|]. split; [reflexivity|]. split; [apply Hhere; lia|].
        right; left. split; [reflexivity|lia].
      * destruct Hlast as (G1 & g & G2 & H1 & H2 & H3 & H4); [discriminate|lia|].
        exists G1, g, G2. split; [assumption|]. split; [assumption|]. split; [assumption|]. left; assumption.
    + destruct (e =? t)%Z eqn:E2.
      * assert (e = t) by lia. subst e.
        destruct (upper && (0 <? length pre)) eqn:E3.
        -- apply andb_true_iff in E3. destruct E3 as [_ E3]. apply Nat.ltb_lt in E3.
           destruct Hlast as (G1 & g & G2 & H1 & H2 & H3 & H4); [destruct pre; [cbn in E3; lia|discriminate]|lia|].
           exists G1, g, G2. split; [assumption|]. split; [assumption|]. split; [assumption|]. left; assumption.
        -- exists pre, t, r. split; [reflexivity|]. split; [reflexivity|]. split; [apply Hhere; lia|].
           apply andb_false_iff in E3. destruct E3 as [E3|E3].
           ++ right; right. split; [assumption|]. split; [reflexivity|assumption].
           ++ apply Nat.ltb_ge in E3. destruct pre; [|cbn in E3; lia].
              right; left. split; [reflexivity|lia].
      * specialize (IH (pre ++ [e])). rewrite <- app_assoc in IH. cbn in IH.
        destruct IH as (G1 & g & G2 & H1 & H2 & H3 & H4).
        -- assumption.
        -- apply Forall_app. split; [assumption|]. repeat constructor. lia.
        -- destruct pre; discriminate.
        -- exists G1, g, G2. split; [assumption|]. rewrite app_length in H2. cbn in H2.
           replace (S (length pre)) with (length pre + 1) by lia. auto.
Qed.

Lemma ts_zscan_spec : forall upper t G, zsorted G -> G <> [] ->
  exists G1 g G2, G = G1 ++ g :: G2 /\ length G1 = ts_zscan upper t G 0 /\
    Forall (fun y => (t <= y)%Z) G2 /\
    ((g < t)%Z \/ (G1 = [] /\ (t <= g)%Z) \/ (upper = false /\ g = t /\ Forall (fun y => (y < t)%Z) G1)).
Proof. intros. apply (ts_zscan_spec_gen upper t G []); auto. Qed.

Lemma ts_heads_ge_all : forall t (Gs : list (list Z)),
  zsorted (concat Gs) -> Forall (fun G => G <> []) Gs ->
  Forall (fun y => (t <= y)%Z) (map (hd 0%Z) Gs) -> Forall (fun y => (t <= y)%Z) (concat Gs).
Proof.
  induction Gs as [|G Gs IH]; intros Hs Hne Hh; cbn; [constructor|].
  inversion Hne; subst. inversion Hh; subst. cbn in Hs.
  apply Forall_app. split.
  - destruct G as [|g G']; [congruence|]. cbn in *. constructor; [assumption|].
    apply zsorted_cons_all in Hs. apply Forall_app in Hs. destruct Hs as [Hs _].
    eapply Forall_impl; [|exact Hs]. cbn; intros; lia.
  - apply IH; auto. eapply zsorted_app_r; eauto.
Qed.

(* one level of the descent: from a good position among the chunks of a level to a good
   position among the entries of the level below *)
Lemma ts_seek_step : forall upper t (Gs : list (list Z)) q G,
  Forall (fun G => G <> []) Gs -> zsorted (concat Gs) ->
  ts_PU t (map (hd 0%Z) Gs) q -> nth_error Gs q = Some G ->
  let i := ts_zscan upper t G 0 in
  let p := length (concat (firstn q Gs)) + i in
  i < length G /\ (if upper then ts_PU t (concat Gs) p else ts_PF t (concat Gs) p).
Proof.
  intros upper t Gs q G Hne Hs (A & y & B & HY & HA & Hc & HB) Hq i p.
  destruct (ts_map_eq_app_cons _ _ _ _ _ HY) as (GA & G' & GB & -> & <- & <- & <-).
  rewrite map_length in HA. subst q. rewrite ts_nth_error_mid in Hq. injection Hq as HGG. subst G'.
  subst p. rewrite ts_firstn_app_len.
  rewrite concat_app in Hs. cbn in Hs.
  apply Forall_app in Hne. destruct Hne as [HneA HneG]. inversion HneG as [|? ? HGne HneB]; subst.
  assert (HsG : zsorted G) by (eapply zsorted_app_l; eapply zsorted_app_r; eauto).
  assert (HsB : zsorted (concat GB)) by (eapply zsorted_app_r; eapply zsorted_app_r; eauto).
  assert (HPost : Forall (fun y => (t <= y)%Z) (concat GB)) by (apply ts_heads_ge_all; auto).
  destruct (ts_zscan_spec upper t G HsG HGne) as (G1 & g & G2 & HG & Hi & HG2 & Hcase).
  fold i in Hi. split; [rewrite HG, app_length; cbn; lia|].
  assert (Hcat : concat (GA ++ G :: GB) = (concat GA ++ G1) ++ g :: (G2 ++ concat GB)).
  { rewrite concat_app. cbn. rewrite HG. repeat rewrite <- app_assoc. reflexivity. }
  assert (Hlen : length (concat GA ++ G1) = length (concat GA) + i) by (rewrite app_length; lia).
  assert (HB' : Forall (fun y => (t <= y)%Z) (G2 ++ concat GB)) by (apply Forall_app; auto).
  assert (HGA : GA = [] -> concat GA ++ G1 = G1) by (intros ->; reflexivity).
  assert (Hhd : G1 = [] -> hd 0%Z G = g) by (intros ->; rewrite HG; reflexivity).
  assert (HAnil : (t <= hd 0%Z G)%Z -> GA = []).
  { intros Hge. destruct Hc as [Hc|Hc]; [|lia]. destruct GA; [reflexivity|discriminate]. }
  destruct Hcase as [Hlt|[[HG1 Hge]|[Hup [Hgt HG1]]]].
  - destruct upper; exists (concat GA ++ G1), g, (G2 ++ concat GB); intuition.
  - rewrite <- (Hhd HG1) in Hge. specialize (HAnil Hge). subst GA G1. cbn in *.
    destruct upper; exists [], g, (G2 ++ concat GB); intuition.
  - subst upper. exists (concat GA ++ G1), g, (G2 ++ concat GB).
    split; [assumption|]. split; [assumption|]. split; [|assumption].
    destruct G1 as [|g1 G1'].
    + left. rewrite HGA; [reflexivity|]. apply HAnil. rewrite (Hhd eq_refl). lia.
    + right; right. split; [assumption|]. apply Forall_app. split; [|assumption].
      pose proof (Forall_inv HG1) as Hg1. cbn in Hg1. rewrite Forall_forall. intros x Hx.
      assert (x <= g1)%Z.
      { eapply (zsorted_app_le (concat GA) (G ++ concat GB)); eauto. rewrite HG. left; reflexivity. }
      lia.
Qed.

(* ------------------------------------------------------------------ views of the disk *)
Section TSP.
Variables A SE : Type.
Variable key : A -> Z.
Variable summ : A -> SE.
Variable keyS : SE -> Z.
Notation chunk := (ts_chunk A SE).
Notation level := (@ts_level SE).

Fixpoint ts_view {B} (f : chunk -> option B) (b : nat) (D : list chunk) : list (nat * B) :=
  match D with
  | [] => []
  | c :: r => match f c with Some x => (S b, x) :: ts_view f (S b) r | None => ts_view f (S b) r end
  end.
Definition ts_f_idx (L : nat) (c : chunk) : option (list ts_entry) :=
  match c with TsIndex L' es => if Nat.eqb L' L then Some es else None | _ => None end.
Definition ts_f_data (c : chunk) : option A := match c with TsData r => Some r | _ => None end.
Definition ts_idxs_at (L b : nat) (D : list chunk) := ts_view (ts_f_idx L) b D.
Definition ts_idxs (L : nat) (D : list chunk) := ts_view (ts_f_idx L) 0 D.
Definition ts_datas (D : list chunk) := ts_view ts_f_data 0 D.

Lemma ts_view_app : forall {B} (f : chunk -> option B) D1 D2 b,
  ts_view f b (D1 ++ D2) = ts_view f b D1 ++ ts_view f (b + length D1) D2.
Proof.
  intros B f D1. induction D1 as [|c D1 IH]; intros D2 b; cbn.
  - rewrite Nat.add_0_r. reflexivity.
  - rewrite IH. replace (S b + length D1) with (b + S (length D1)) by lia. destruct (f c); reflexivity.
Qed.

Lemma ts_view_bounds : forall {B} (f : chunk -> option B) D b o x,
  In (o, x) (ts_view f b D) -> b < o <= b + length D.
Proof.
  intros B f D. induction D as [|c D IH]; intros b o x H; cbn in *; [contradiction|].
  destruct (f c).
  - destruct H as [H|H]; [inversion H; subst; lia|]. apply IH in H. lia.
  - apply IH in H. lia.
Qed.

Lemma ts_view_nth : forall {B} (f : chunk -> option B) D b o x,
  In (o, x) (ts_view f b D) -> exists c, nth_error D (o - S b) = Some c /\ f c = Some x.
Proof.
  intros B f D. induction D as [|c D IH]; intros b o x H; cbn in *; [contradiction|].
  destruct (f c) eqn:E.
  - destruct H as [H|H].
    + inversion H; subst. rewrite Nat.sub_diag. exists c. auto.
    + pose proof (ts_view_bounds _ _ _ _ _ H). destruct (IH _ _ _ H) as (c' & H1 & H2).
      exists c'. replace (o - S b) with (S (o - S (S b))) by lia. auto.
  - pose proof (ts_view_bounds _ _ _ _ _ H). destruct (IH _ _ _ H) as (c' & H1 & H2).
    exists c'. replace (o - S b) with (S (o - S (S b))) by lia. auto.
Qed.

Lemma ts_view0_rd : forall {B} (f : chunk -> option B) D o x,
  In (o, x) (ts_view f 0 D) -> exists c, ts_rd A SE D o = Some c /\ f c = Some x.
Proof.
  intros B f D o x H. pose proof (ts_view_bounds _ _ _ _ _ H).
  destruct (ts_view_nth _ _ _ _ _ H) as (c & H1 & H2). exists c. split; [|assumption].
  destruct o; [lia|]. cbn. replace (S o - 1) with o in H1 by lia. assumption.
Qed.

(* the chunk after position o: the view of the rest of the disk is the rest of the view *)
Lemma ts_view_skip : forall {B} (f : chunk -> option B) D b pre o x post,
  ts_view f b D = pre ++ (o, x) :: post -> ts_view f o (skipn (o - b) D) = post.
Proof.
  intros B f D. induction D as [|c D IH]; intros b pre o x post H; cbn in H.
  - destruct pre; discriminate.
  - assert (Hin : In (o, x) (ts_view f b (c :: D))) by (cbn; rewrite H; apply in_or_app; right; left; reflexivity).
    pose proof (ts_view_bounds _ _ _ _ _ Hin) as Hb.
    assert (Hrest : forall pre', ts_view f (S b) D = pre' ++ (o, x) :: post -> S b < o).
    { intros pre' H'. assert (In (o, x) (ts_view f (S b) D)) by (rewrite H'; apply in_or_app; right; left; reflexivity).
      pose proof (ts_view_bounds _ _ _ _ _ H0). lia. }
    destruct (f c) eqn:E.
    + destruct pre as [|p0 pre'].
      * inversion H; subst. replace (S b - b) with 1 by lia. cbn. reflexivity.
      * inversion H; subst. pose proof (Hrest _ H2).
        replace (o - b) with (S (o - S b)) by lia. cbn. eapply IH; eauto.
    + pose proof (Hrest _ H). replace (o - b) with (S (o - S b)) by lia. cbn. eapply IH; eauto.
Qed.

Lemma ts_find_view : forall {B} (f : chunk -> option B) (sel : chunk -> bool),
  (forall c, sel c = true <-> f c <> None) ->
  forall D b, ts_find A SE sel b D = match ts_view f b D with [] => 0 | p :: _ => fst p end.
Proof.
  intros B f sel Hsel D. induction D as [|c D IH]; intros b; cbn; [reflexivity|].
  destruct (sel c) eqn:E.
  - apply Hsel in E. destruct (f c); [reflexivity|congruence].
  - destruct (f c) eqn:E2.
    + assert (sel c = true) by (apply Hsel; congruence). congruence.
    + apply IH.
Qed.

Definition ts_first_off {B} (v : list (nat * B)) : nat := match v with [] => 0 | p :: _ => fst p end.

Lemma ts_next_view : forall {B} (f : chunk -> option B) (sel : chunk -> bool),
  (forall c, sel c = true <-> f c <> None) ->
  forall D pre o x post, ts_view f 0 D = pre ++ (o, x) :: post ->
  ts_next A SE sel D o = ts_first_off post.
Proof.
  intros B f sel Hsel D pre o x post H. unfold ts_next.
  rewrite (ts_find_view f sel Hsel). pose proof (ts_view_skip f D 0 pre o x post H) as Hs.
  rewrite Nat.sub_0_r in Hs. rewrite Hs. reflexivity.
Qed.

Lemma ts_sel_data : forall c : chunk, ts_is_data A SE c = true <-> ts_f_data c <> None.
Proof. intros [r|L es|L ss]; cbn; split; congruence. Qed.
Lemma ts_sel_index : forall L (c : chunk), ts_is_index A SE L c = true <-> ts_f_idx L c <> None.
Proof. intros L [r|L' es|L' ss]; cbn; try (split; congruence). destruct (Nat.eqb L' L); split; congruence. Qed.

Lemma ts_idx_rd : forall L D o es, In (o, es) (ts_idxs L D) -> ts_rd A SE D o = Some (TsIndex L es).
Proof.
  intros L D o es H. destruct (ts_view0_rd _ _ _ _ H) as (c & H1 & H2).
  destruct c as [r|L' es'|L' ss]; cbn in H2; try discriminate.
  destruct (Nat.eqb L' L) eqn:E; [|discriminate]. apply Nat.eqb_eq in E. inversion H2; subst. assumption.
Qed.
Lemma ts_data_rd : forall D o r, In (o, r) (ts_datas D) -> ts_rd A SE D o = Some (TsData r).
Proof.
  intros D o r H. destruct (ts_view0_rd _ _ _ _ H) as (c & H1 & H2).
  destruct c as [r'|L' es'|L' ss]; cbn in H2; try discriminate. inversion H2; subst. assumption.
Qed.

(* entries that describe the chunks of a level: (first key, offset) *)
Definition ts_ent_of_idx (p : nat * list ts_entry) : ts_entry := (fst (hd (0%Z, 0) (snd p)), fst p).
Definition ts_ent_of_data (p : nat * A) : ts_entry := (key (snd p), fst p).
Definition ts_csL (L : nat) (D : list chunk) : list ts_entry := map ts_ent_of_idx (ts_idxs L D).
Definition ts_cs0 (D : list chunk) : list ts_entry := map ts_ent_of_data (ts_datas D).
Definition ts_cs (L : nat) (D : list chunk) : list ts_entry := match L with O => ts_cs0 D | _ => ts_csL L D end.

(* ------------------------------------------------------------------ commit: case analysis *)
Variable d : nat.

Definition ts_ups1 (close : bool) (ups : list level) : list level :=
  if close then ups else match ups with [] => [ts_level0] | _ => ups end.
Definition ts_usum (close : bool) (l u : level) : option (list SE) :=
  if close then Some (tl_sum u)
  else match tl_sum l with
       | [] => None
       | s0 :: _ => if d <=? length (tl_sum u) then None else Some (tl_sum u ++ [s0])
       end.

Inductive ts_commit_case (f : nat) (close : bool) (L : nat) (l : level) (ups : list level) (b : nat) (h : nat -> nat)
  : ts_cres A SE -> Prop :=
| ts_cc_err : forall e0 tl, tl_idx l = e0 :: tl -> close = false -> ts_LEVEL_COUNT <= S L ->
    ts_commit_case f close L l ups b h (TsCRes A SE false l ups [] h)
| ts_cc_top : forall e0 tl, tl_idx l = e0 :: tl -> close = true -> ups = [] ->
    ts_commit_case f close L l ups b h
      (TsCRes A SE true ts_level0 [] [TsIndex L (tl_idx l); TsSummary L (tl_sum l)] (ts_head_upd h L (S b)))
| ts_cc_add : forall e0 tl u ups2 us, tl_idx l = e0 :: tl -> (close = false -> S L < ts_LEVEL_COUNT) ->
    ts_ups1 close ups = u :: ups2 -> length (tl_idx u) < d -> ts_usum close l u = Some us ->
    length (tl_idx u ++ [(fst e0, S b)]) < d ->
    ts_commit_case f close L l ups b h
      (TsCRes A SE true ts_level0 ({| tl_idx := tl_idx u ++ [(fst e0, S b)]; tl_sum := us |} :: ups2)
         [TsIndex L (tl_idx l); TsSummary L (tl_sum l)] (ts_head_upd h L (S b)))
| ts_cc_rec : forall e0 tl u ups2 us ok2 u2 ups3 ch2 h2, tl_idx l = e0 :: tl -> (close = false -> S L < ts_LEVEL_COUNT) ->
    ts_ups1 close ups = u :: ups2 -> length (tl_idx u) < d -> ts_usum close l u = Some us ->
    d <= length (tl_idx u ++ [(fst e0, S b)]) ->
    ts_commit A SE f d close (S L) {| tl_idx := tl_idx u ++ [(fst e0, S b)]; tl_sum := us |} ups2 (b + 2) (ts_head_upd h L (S b))
      = TsCRes A SE ok2 u2 ups3 ch2 h2 ->
    ts_commit_case f close L l ups b h
      (TsCRes A SE ok2 (if ok2 then ts_level0 else l) (u2 :: ups3)
         (TsIndex L (tl_idx l) :: TsSummary L (tl_sum l) :: ch2) h2).

Lemma ts_commit_cases : forall f close L l ups b h ok l' ups' ch h',
  ts_commit A SE (S f) d close L l ups b h = TsCRes A SE ok l' ups' ch h' -> tl_idx l <> [] ->
  ts_commit_case f close L l ups b h (TsCRes A SE ok l' ups' ch h').
Proof.
  intros f close L l ups b h ok l' ups' ch h' H Hne.
  cbn [ts_commit] in H. destruct (tl_idx l) as [|e0 tl] eqn:El; [congruence|].
  destruct (negb close && (ts_LEVEL_COUNT <=? S L)) eqn:Eerr.
  - apply andb_true_iff in Eerr. destruct Eerr as [E1 E2]. apply negb_true_iff in E1. apply Nat.leb_le in E2.
    inversion H; subst. eapply ts_cc_err; eauto.
  - assert (Hlvl : close = false -> S L < ts_LEVEL_COUNT).
    { intros ->. apply andb_false_iff in Eerr. destruct Eerr as [E|E]; [discriminate E|]. apply Nat.leb_gt in E. assumption. }
    fold (ts_ups1 close ups) in H.
    destruct (ts_ups1 close ups) as [|u ups2] eqn:Eu.
    + inversion H; subst. rewrite <- El. eapply ts_cc_top; eauto.
      * destruct close; [reflexivity|]. unfold ts_ups1 in Eu. destruct ups; discriminate.
      * destruct close; [assumption|]. unfold ts_ups1 in Eu. destruct ups; discriminate.
    + destruct (d <=? length (tl_idx u)) eqn:Eov; [discriminate|]. apply Nat.leb_gt in Eov.
      fold (ts_usum close l u) in H.
      destruct (ts_usum close l u) as [us|] eqn:Eus; [|discriminate].
      destruct (d <=? length (tl_idx u ++ [(fst e0, S b)])) eqn:Efull.
      * apply Nat.leb_le in Efull.
        destruct (ts_commit A SE f d close (S L) _ ups2 (b + 2) (ts_head_upd h L (S b))) as [|ok2 u2 ups3 ch2 h2] eqn:Erec; [discriminate|].
        destruct ok2; inversion H; subst; rewrite <- El.
        -- eapply (ts_cc_rec f close L l ups b h e0 tl u ups2 us true); eauto.
        -- eapply (ts_cc_rec f close L l' ups b h e0 tl u ups2 us false); eauto.
      * apply Nat.leb_gt in Efull. inversion H; subst. rewrite <- El. eapply ts_cc_add; eauto.
Qed.

Lemma ts_commit_empty : forall f close L l ups b h, tl_idx l = [] ->
  ts_commit A SE (S f) d close L l ups b h = TsCRes A SE true l ups [] h.
Proof. intros. cbn. rewrite H. reflexivity. Qed.

(* ------------------------------------------------------------------ shape of what commit appends *)
Inductive ts_blk (P : nat -> list ts_entry -> list SE -> Prop) : list chunk -> Prop :=
| ts_blk_nil : ts_blk P []
| ts_blk_pair : forall K es ss r, P K es ss -> ts_blk P r -> ts_blk P (TsIndex K es :: TsSummary K ss :: r).

Lemma ts_blk_impl : forall (P Q : nat -> list ts_entry -> list SE -> Prop) ch,
  (forall K es ss, P K es ss -> Q K es ss) -> ts_blk P ch -> ts_blk Q ch.
Proof. intros P Q ch HPQ H. induction H; constructor; auto. Qed.

Lemma ts_blk_data : forall P ch b, ts_blk P ch -> ts_view ts_f_data b ch = [].
Proof. intros P ch b H. revert b. induction H; intros b; cbn; auto. Qed.

Lemma ts_blk_nth : forall P ch j K es, ts_blk P ch -> nth_error ch j = Some (TsIndex K es) ->
  exists ss, nth_error ch (S j) = Some (TsSummary K ss) /\ P K es ss.
Proof.
  intros P ch j K es H. revert j. induction H as [|K0 es0 ss0 r HP Hr IH]; intros j Hj.
  - destruct j; discriminate.
  - destruct j as [|[|j]]; cbn in Hj.
    + inversion Hj; subst. exists ss0. auto.
    + discriminate.
    + apply IH in Hj. destruct Hj as (ss & H1 & H2). exists ss. auto.
Qed.

Lemma ts_rd_app : forall (D x : list chunk) o c, ts_rd A SE D o = Some c -> ts_rd A SE (D ++ x) o = Some c.
Proof.
  intros D x o c H. destruct o; [discriminate|]. cbn in *. rewrite nth_error_app1; [assumption|].
  apply nth_error_Some. congruence.
Qed.

Definition ts_R (D : list chunk) (e : ts_entry) (s : SE) : Prop :=
  exists r, ts_rd A SE D (snd e) = Some (TsData r) /\ s = summ r /\ fst e = key r.
Lemma ts_R_mono : forall D x e s, ts_R D e s -> ts_R (D ++ x) e s.
Proof. intros D x e s (r & H1 & H2 & H3). exists r. split; [apply ts_rd_app; assumption|auto]. Qed.

Definition ts_PB (D : list chunk) (L K : nat) (es : list ts_entry) (ss : list SE) : Prop :=
  L <= K /\ es <> [] /\ length es <= d /\ (K = 1 -> Forall2 (ts_R D) es ss).

Lemma ts_PB_mono : forall D x L K es ss, ts_PB D L K es ss -> ts_PB (D ++ x) L K es ss.
Proof.
  intros D x L K es ss (H1 & H2 & H3 & H4). repeat split; auto.
  intros HK. specialize (H4 HK). clear - H4. induction H4; constructor; auto. apply ts_R_mono; assumption.
Qed.

Lemma ts_commit_shape : forall f close L l ups b h ok l' ups' ch h' D,
  ts_commit A SE f d close L l ups b h = TsCRes A SE ok l' ups' ch h' ->
  1 <= L -> length (tl_idx l) <= d -> (L = 1 -> Forall2 (ts_R D) (tl_idx l) (tl_sum l)) ->
  ts_blk (ts_PB D L) ch.
Proof.
  induction f as [|f IH]; intros close L l ups b h ok l' ups' ch h' D H HL Hlen HR; [discriminate|].
  destruct (tl_idx l) as [|e0 tl] eqn:El.
  - rewrite ts_commit_empty in H by assumption. inversion H; subst. constructor.
  - assert (Hne : tl_idx l <> []) by congruence.
    assert (HP : ts_PB D L L (tl_idx l) (tl_sum l)).
    { unfold ts_PB. rewrite El. split; [lia|]. split; [congruence|]. split; assumption. }
    apply ts_commit_cases in H; [|assumption].
    inversion H; subst.
    + constructor.
    + constructor; [assumption|constructor].
    + constructor; [assumption|constructor].
    + constructor; [assumption|].
      eapply ts_blk_impl; [|eapply IH with (D := D); [eassumption| | |]].
      * intros K es ss (H1 & H2). split; [lia|assumption].
      * lia.
      * cbn. rewrite app_length. cbn. lia.
      * intros; lia.
Qed.

(* effect of one INDEX + SUMMARY pair on the views *)
Lemma ts_idxs_app : forall K (D ch : list chunk), ts_idxs K (D ++ ch) = ts_idxs K D ++ ts_idxs_at K (length D) ch.
Proof. intros. unfold ts_idxs, ts_idxs_at. rewrite ts_view_app. reflexivity. Qed.
Lemma ts_datas_app : forall (D ch : list chunk), ts_datas (D ++ ch) = ts_datas D ++ ts_view ts_f_data (length D) ch.
Proof. intros. unfold ts_datas. rewrite ts_view_app. reflexivity. Qed.

Lemma ts_pair_idxs_same : forall L D es ss,
  ts_idxs L (D ++ [TsIndex L es; TsSummary L ss]) = ts_idxs L D ++ [(S (length D), es)].
Proof. intros. rewrite ts_idxs_app. cbn. rewrite Nat.eqb_refl. reflexivity. Qed.
Lemma ts_pair_idxs_other : forall K L D es ss, K <> L ->
  ts_idxs K (D ++ [TsIndex L es; TsSummary L ss]) = ts_idxs K D.
Proof.
  intros. rewrite ts_idxs_app. cbn. destruct (Nat.eqb L K) eqn:E; [apply Nat.eqb_eq in E; congruence|].
  apply app_nil_r.
Qed.
Lemma ts_pair_datas : forall L D es ss, ts_datas (D ++ [TsIndex L es; TsSummary L ss]) = ts_datas D.
Proof. intros. rewrite ts_datas_app. cbn. apply app_nil_r. Qed.
Lemma ts_pair_csL_same : forall L D es ss,
  ts_csL L (D ++ [TsIndex L es; TsSummary L ss]) = ts_csL L D ++ [(fst (hd (0%Z, 0) es), S (length D))].
Proof. intros. unfold ts_csL. rewrite ts_pair_idxs_same, map_app. reflexivity. Qed.
Lemma ts_pair_csL_other : forall K L D es ss, K <> L ->
  ts_csL K (D ++ [TsIndex L es; TsSummary L ss]) = ts_csL K D.
Proof. intros. unfold ts_csL. rewrite ts_pair_idxs_other by assumption. reflexivity. Qed.

(* ------------------------------------------------------------------ the pyramid relation *)
(* open (while writing): levels L.. with pending entries [lvs]; X = the entries that level L
   must hold in total (one per chunk of level L-1); the top level has no chunk yet *)
Fixpoint ts_repO (L : nat) (X : list ts_entry) (lvs : list level) (D : list chunk) : Prop :=
  match lvs with
  | [] => X = [] /\ forall K, L <= K -> ts_idxs K D = []
  | l :: ups => X <> [] /\ concat (map snd (ts_idxs L D)) ++ tl_idx l = X /\ ts_repO (S L) (ts_csL L D) ups D
  end.
(* closed: nothing pending, the top level is a single chunk *)
Fixpoint ts_repC (L : nat) (X : list ts_entry) (lvs : list level) (D : list chunk) : Prop :=
  match lvs with
  | [] => length X = 1 /\ forall K, L <= K -> ts_idxs K D = []
  | l :: ups => tl_idx l = [] /\ concat (map snd (ts_idxs L D)) = X /\ ts_repC (S L) (ts_csL L D) ups D
  end.

Lemma ts_repO_ext : forall lvs L X D D',
  (forall K, L <= K -> ts_idxs K D' = ts_idxs K D) -> ts_repO L X lvs D -> ts_repO L X lvs D'.
Proof.
  induction lvs as [|l ups IH]; intros L X D D' He H; cbn in *.
  - destruct H as [H1 H2]. split; [assumption|]. intros K HK. rewrite He by assumption. auto.
  - destruct H as (H1 & H2 & H3). split; [assumption|]. rewrite He by lia. split; [assumption|].
    unfold ts_csL. rewrite He by lia. eapply IH; [|exact H3]. intros; apply He; lia.
Qed.
Lemma ts_repC_ext : forall lvs L X D D',
  (forall K, L <= K -> ts_idxs K D' = ts_idxs K D) -> ts_repC L X lvs D -> ts_repC L X lvs D'.
Proof.
  induction lvs as [|l ups IH]; intros L X D D' He H; cbn in *.
  - destruct H as [H1 H2]. split; [assumption|]. intros K HK. rewrite He by assumption. auto.
  - destruct H as (H1 & H2 & H3). split; [assumption|]. rewrite He by lia. split; [assumption|].
    unfold ts_csL. rewrite He by lia. eapply IH; [|exact H3]. intros; apply He; lia.
Qed.

Lemma ts_ups1_cases : forall close ups u ups2, ts_ups1 close ups = u :: ups2 ->
  ups = u :: ups2 \/ (close = false /\ ups = [] /\ u = ts_level0 /\ ups2 = []).
Proof.
  intros close ups u ups2 H. unfold ts_ups1 in H. destruct close; [left; assumption|].
  destruct ups; [right; inversion H; auto|left; assumption].
Qed.

Lemma ts_concat_snd_app1 : forall (v : list (nat * list ts_entry)) o es,
  concat (map snd (v ++ [(o, es)])) = concat (map snd v) ++ es.
Proof. intros. rewrite map_app, concat_app. cbn. rewrite app_nil_r. reflexivity. Qed.

(* what commit(L) does to the pyramid relation *)
Lemma ts_commit_spec : forall f close L l ups h l' ups' ch h' D,
  ts_commit A SE f d close L l ups (length D) h = TsCRes A SE true l' ups' ch h' ->
  2 <= d -> tl_idx l <> [] ->
  Forall (fun u : level => length (tl_idx u) < d) ups ->
  ts_repO (S L) (ts_csL L D) ups D ->
  l' = ts_level0 /\
  ts_idxs L (D ++ ch) = ts_idxs L D ++ [(S (length D), tl_idx l)] /\
  (forall K, K < L -> ts_idxs K (D ++ ch) = ts_idxs K D) /\
  ts_datas (D ++ ch) = ts_datas D /\
  (ts_repO (S L) (ts_csL L (D ++ ch)) ups' (D ++ ch) \/
   (close = true /\ ts_repC (S L) (ts_csL L (D ++ ch)) ups' (D ++ ch))) /\
  Forall (fun u : level => length (tl_idx u) < d) ups'.
Proof.
  induction f as [|f IH]; intros close L l ups h l' ups' ch h' D H Hd Hne Hcnt Hrep; [discriminate|].
  apply ts_commit_cases in H; [|assumption].
  set (ci := TsIndex L (tl_idx l) : chunk) in *. set (cs := TsSummary L (tl_sum l) : chunk) in *.
  set (D1 := D ++ [ci; cs]).
  assert (HD1same : ts_idxs L D1 = ts_idxs L D ++ [(S (length D), tl_idx l)]) by apply ts_pair_idxs_same.
  assert (HD1other : forall K, K <> L -> ts_idxs K D1 = ts_idxs K D) by (intros; apply ts_pair_idxs_other; assumption).
  assert (HD1data : ts_datas D1 = ts_datas D) by apply ts_pair_datas.
  assert (HD1len : length D1 = length D + 2) by (unfold D1; rewrite app_length; reflexivity).
  assert (HD1cs : forall e0 tl, tl_idx l = e0 :: tl -> ts_csL L D1 = ts_csL L D ++ [(fst e0, S (length D))]).
  { intros e0 tl El. unfold D1, ci, cs. rewrite ts_pair_csL_same, El. reflexivity. }
  assert (HD1cs' : ts_csL (S L) D1 = ts_csL (S L) D) by (apply ts_pair_csL_other; lia).
  assert (Hext : forall ups2, ts_repO (S (S L)) (ts_csL (S L) D) ups2 D -> ts_repO (S (S L)) (ts_csL (S L) D1) ups2 D1).
  { intros ups2 Hr. rewrite HD1cs'. eapply ts_repO_ext; [|exact Hr]. intros K HK. apply HD1other. lia. }
  inversion H as [e0 tl El Hc Hl | e0 tl El Hc Hu | e0 tl u ups2 us El Hl Hu1 Hov Hus Hnf
                 | e0 tl u ups2 us ok2 u2 ups3 ch2 h2 El Hl Hu1 Hov Hus Hfull Hrec]; subst; clear H.
  - (* top level closed *)
    fold ci cs D1. split; [reflexivity|]. split; [assumption|]. split; [intros; apply HD1other; lia|].
    split; [assumption|]. cbn in Hrep. destruct Hrep as [HX Hno]. split; [|constructor].
    right. split; [reflexivity|]. cbn. split.
    + rewrite (HD1cs _ _ El), HX. reflexivity.
    + intros K HK. rewrite HD1other by lia. apply Hno; assumption.
  - (* entry added above, not full *)
    fold ci cs D1. split; [reflexivity|]. split; [assumption|]. split; [intros; apply HD1other; lia|].
    split; [assumption|].
    destruct (ts_ups1_cases _ _ _ _ Hu1) as [->|(-> & -> & -> & ->)].
    + cbn in Hrep. destruct Hrep as (HX & Hcat & Hup). inversion Hcnt; subst. split.
      * left. cbn. split; [rewrite (HD1cs _ _ El); destruct (ts_csL L D); discriminate|].
        split; [|apply Hext; assumption].
        rewrite HD1other by lia. rewrite (HD1cs _ _ El), <- Hcat, app_assoc. reflexivity.
      * constructor; [assumption|assumption].
    + cbn in Hrep. destruct Hrep as [HX Hno]. split.
      * left. cbn. split; [rewrite (HD1cs _ _ El); destruct (ts_csL L D); discriminate|].
        split.
        -- rewrite HD1other by lia. rewrite Hno by lia. rewrite (HD1cs _ _ El), HX. reflexivity.
        -- split; [rewrite HD1cs'; unfold ts_csL; rewrite Hno by lia; reflexivity|].
           intros K HK. rewrite HD1other by lia. apply Hno; lia.
      * constructor; [assumption|constructor].
  - (* entry added above, full: commit(L+1) *)
    destruct (ts_ups1_cases _ _ _ _ Hu1) as [->|(-> & -> & -> & ->)]; [|cbn in Hfull; lia].
    cbn in Hrep. destruct Hrep as (HX & Hcat & Hup). inversion Hcnt; subst.
    assert (HD2 : D ++ TsIndex L (tl_idx l) :: TsSummary L (tl_sum l) :: ch2 = D1 ++ ch2)
      by (unfold D1, ci, cs; rewrite <- app_assoc; reflexivity).
    rewrite HD2.
    rewrite <- HD1len in Hrec.
    apply IH in Hrec; [|assumption|cbn; destruct (tl_idx u); discriminate|assumption|apply Hext; assumption].
    destruct Hrec as (-> & I1 & I2 & I3 & I4 & I5). cbn [tl_idx] in I1.
    assert (HcsL : ts_csL L (D1 ++ ch2) = ts_csL L D1) by (unfold ts_csL; rewrite I2 by lia; reflexivity).
    split; [reflexivity|]. split; [rewrite I2 by lia; assumption|].
    split; [intros K HK; rewrite I2 by lia; apply HD1other; lia|].
    split; [rewrite I3; assumption|].
    assert (Hcat2 : concat (map snd (ts_idxs (S L) (D1 ++ ch2))) = ts_csL L D1).
    { rewrite I1, ts_concat_snd_app1, HD1other by lia. rewrite (HD1cs _ _ El), <- Hcat, app_assoc. reflexivity. }
    assert (HX1 : ts_csL L D1 <> []) by (rewrite (HD1cs _ _ El); destruct (ts_csL L D); discriminate).
    split; [|constructor; [cbn; lia|assumption]].
    rewrite HcsL. destruct I4 as [I4|[I4 I4']].
    + left. cbn. split; [assumption|]. split; [rewrite Hcat2; apply app_nil_r|assumption].
    + right. split; [assumption|]. cbn. split; [reflexivity|]. split; assumption.
Qed.

(* ------------------------------------------------------------------ commit: other invariants *)
Lemma ts_commit_close_ok : forall f L l ups b h ok l' ups' ch h',
  ts_commit A SE f d true L l ups b h = TsCRes A SE ok l' ups' ch h' -> ok = true /\ length ups' = length ups.
Proof.
  induction f as [|f IH]; intros L l ups b h ok l' ups' ch h' H; [discriminate|].
  destruct (tl_idx l) as [|e0 tl] eqn:El.
  - rewrite ts_commit_empty in H by assumption. inversion H; subst. auto.
  - apply ts_commit_cases in H; [|congruence].
    inversion H as [e1 tl1 El1 Hc Hl | e1 tl1 El1 Hc Hu | e1 tl1 u ups2 us El1 Hl Hu1 Hov Hus Hnf
                   | e1 tl1 u ups2 us ok2 u2 ups3 ch2 h2 El1 Hl Hu1 Hov Hus Hfull Hrec]; subst; clear H.
    + discriminate.
    + auto.
    + cbn in Hu1. subst ups. auto.
    + cbn in Hu1. subst ups. apply IH in Hrec. destruct Hrec as [-> Hlen]. cbn. auto.
Qed.

Lemma ts_commit_len : forall f close L l ups b h ok l' ups' ch h',
  ts_commit A SE f d close L l ups b h = TsCRes A SE ok l' ups' ch h' ->
  L + length ups < ts_LEVEL_COUNT -> L + length ups' < ts_LEVEL_COUNT.
Proof.
  induction f as [|f IH]; intros close L l ups b h ok l' ups' ch h' H Hlen; [discriminate|].
  destruct (tl_idx l) as [|e0 tl] eqn:El.
  - rewrite ts_commit_empty in H by assumption. inversion H; subst. assumption.
  - apply ts_commit_cases in H; [|congruence].
    inversion H as [e1 tl1 El1 Hc Hl | e1 tl1 El1 Hc Hu | e1 tl1 u ups2 us El1 Hl Hu1 Hov Hus Hnf
                   | e1 tl1 u ups2 us ok2 u2 ups3 ch2 h2 El1 Hl Hu1 Hov Hus Hfull Hrec]; subst; clear H.
    + assumption.
    + cbn in *. lia.
    + destruct (ts_ups1_cases _ _ _ _ Hu1) as [->|(Hc & -> & -> & ->)]; cbn in *; [lia|].
      specialize (Hl Hc). lia.
    + apply IH in Hrec.
      * cbn. lia.
      * destruct (ts_ups1_cases _ _ _ _ Hu1) as [->|(Hc & -> & -> & ->)]; cbn in *; [lia|].
        specialize (Hl Hc). lia.
Qed.

Definition ts_headI (h : nat -> nat) (D : list chunk) : Prop :=
  forall K, 1 <= K -> h K = ts_first_off (ts_idxs K D).

Lemma ts_head_upd_ok : forall h D L es ss, 1 <= L -> ts_headI h D ->
  ts_headI (ts_head_upd h L (S (length D))) (D ++ [TsIndex L es; TsSummary L ss]) /\
  ts_head_upd h L (S (length D)) 0 = h 0.
Proof.
  intros h D L es ss HL Hh. split.
  - intros K HK. unfold ts_head_upd. destruct (Nat.eqb K L) eqn:E.
    + apply Nat.eqb_eq in E. subst K. rewrite ts_pair_idxs_same. rewrite (Hh L HL).
      destruct (ts_idxs L D) as [|[o x] v] eqn:Ev; cbn; [reflexivity|].
      assert (Hin : In (o, x) (ts_idxs L D)) by (rewrite Ev; left; reflexivity).
      pose proof (ts_view_bounds _ _ _ _ _ Hin) as Hb.
      destruct (Nat.eqb o 0) eqn:E0; [apply Nat.eqb_eq in E0; lia|reflexivity].
    + apply Nat.eqb_neq in E. rewrite ts_pair_idxs_other by assumption. apply Hh; assumption.
  - unfold ts_head_upd. destruct (Nat.eqb 0 L) eqn:E; [apply Nat.eqb_eq in E; lia|reflexivity].
Qed.

Lemma ts_commit_head : forall f close L l ups h ok l' ups' ch h' D,
  ts_commit A SE f d close L l ups (length D) h = TsCRes A SE ok l' ups' ch h' ->
  1 <= L -> ts_headI h D -> ts_headI h' (D ++ ch) /\ h' 0 = h 0.
Proof.
  induction f as [|f IH]; intros close L l ups h ok l' ups' ch h' D H HL Hh; [discriminate|].
  destruct (tl_idx l) as [|e0 tl] eqn:El.
  - rewrite ts_commit_empty in H by assumption. inversion H; subst. rewrite app_nil_r. auto.
  - apply ts_commit_cases in H; [|congruence].
    pose proof (ts_head_upd_ok h D L (tl_idx l) (tl_sum l) HL Hh) as [Hu1' Hu0].
    inversion H as [e1 tl1 El1 Hc Hl | e1 tl1 El1 Hc Hu | e1 tl1 u ups2 us El1 Hl Hu1 Hov Hus Hnf
                   | e1 tl1 u ups2 us ok2 u2 ups3 ch2 h2 El1 Hl Hu1 Hov Hus Hfull Hrec]; subst; clear H.
    + rewrite app_nil_r. auto.
    + auto.
    + auto.
    + assert (HD2 : D ++ TsIndex L (tl_idx l) :: TsSummary L (tl_sum l) :: ch2
                    = (D ++ [TsIndex L (tl_idx l); TsSummary L (tl_sum l)]) ++ ch2)
        by (rewrite <- app_assoc; reflexivity).
      rewrite HD2.
      replace (length D + 2) with (length (D ++ [TsIndex L (tl_idx l); TsSummary L (tl_sum l)])) in Hrec
        by (rewrite app_length; reflexivity).
      apply IH in Hrec; [|lia|assumption]. destruct Hrec as [I1 I2]. split; [assumption|congruence].
Qed.

(* ------------------------------------------------------------------ jls_wr_ts_close *)
Lemma ts_close_loop_nil : forall n L b h, ts_close_loop A SE n d L [] b h = Some ([], [], h).
Proof. destruct n; reflexivity. Qed.

Lemma ts_blk_app : forall P a b, ts_blk P a -> ts_blk P b -> ts_blk P (a ++ b).
Proof. intros P a b Ha Hb. induction Ha; cbn; [assumption|constructor; assumption]. Qed.

Lemma ts_blk_PB_high : forall D D' L L' ch, ts_blk (ts_PB D L) ch -> 2 <= L -> L' <= L -> ts_blk (ts_PB D' L') ch.
Proof.
  intros D D' L L' ch H HL HL'. eapply ts_blk_impl; [|exact H].
  intros K es ss (H1 & H2 & H3 & H4). unfold ts_PB. split; [lia|]. split; [assumption|]. split; [assumption|].
  intros ->. lia.
Qed.

Definition ts_l1ok (D : list chunk) (lvs : list level) : Prop :=
  match lvs with [] => True | l :: _ => Forall2 (ts_R D) (tl_idx l) (tl_sum l) end.

Lemma ts_close_loop_spec : forall n L lvs h lvs' ch h' D X,
  ts_close_loop A SE n d L lvs (length D) h = Some (lvs', ch, h') ->
  2 <= d -> length lvs <= n -> lvs <> [] ->
  Forall (fun u : level => length (tl_idx u) < d) lvs ->
  ts_repO L X lvs D \/ ts_repC L X lvs D ->
  1 <= L -> ts_headI h D -> (L = 1 -> ts_l1ok D lvs) ->
  ts_repC L X lvs' (D ++ ch) /\ length lvs' = length lvs /\
  (forall K, K < L -> ts_idxs K (D ++ ch) = ts_idxs K D) /\ ts_datas (D ++ ch) = ts_datas D /\
  ts_blk (ts_PB D L) ch /\ ts_headI h' (D ++ ch) /\ h' 0 = h 0.
Proof.
  induction n as [|n IH]; intros L lvs h lvs' ch h' D X H Hd Hn Hne Hcnt Hrep HL Hh Hl1.
  - destruct lvs; [congruence|cbn in Hn; lia].
  - destruct lvs as [|l ups]; [congruence|]. cbn [ts_close_loop] in H.
    destruct (ts_commit A SE ts_LEVEL_COUNT d true L l ups (length D) h) as [|ok l1 ups1 ch1 h1] eqn:Ec; [discriminate|].
    destruct (ts_commit_close_ok _ _ _ _ _ _ _ _ _ _ _ Ec) as [-> Hlen1].
    destruct (ts_close_loop A SE n d (S L) ups1 (length D + length ch1) h1) as [[[ups2 ch2] h2]|] eqn:El; [|discriminate].
    inversion H; subst; clear H. inversion Hcnt as [|? ? Hcl Hcu]; subst.
    rewrite <- app_length in El. rewrite app_assoc.
    assert (Hshape : ts_blk (ts_PB D L) ch1).
    { eapply ts_commit_shape; [exact Ec|assumption|lia|]. intros ->. apply (Hl1 eq_refl). }
    destruct (ts_commit_head _ _ _ _ _ _ _ _ _ _ _ _ Ec HL Hh) as [Hh1 Hh10].
    (* what the commit at level L did *)
    assert (Hstep : tl_idx l1 = [] /\ concat (map snd (ts_idxs L (D ++ ch1))) = X /\
                    (ts_repO (S L) (ts_csL L (D ++ ch1)) ups1 (D ++ ch1) \/ ts_repC (S L) (ts_csL L (D ++ ch1)) ups1 (D ++ ch1)) /\
                    (ups1 = [] -> ts_repC (S L) (ts_csL L (D ++ ch1)) ups1 (D ++ ch1)) /\
                    (forall K, K < L -> ts_idxs K (D ++ ch1) = ts_idxs K D) /\ ts_datas (D ++ ch1) = ts_datas D /\
                    Forall (fun u : level => length (tl_idx u) < d) ups1).
    { destruct (tl_idx l) as [|e0 tl] eqn:Eidx.
      - unfold ts_LEVEL_COUNT in Ec. rewrite ts_commit_empty in Ec by assumption. inversion Ec; subst.
        rewrite app_nil_r. split; [assumption|].
        destruct Hrep as [Hrep|Hrep]; cbn in Hrep; destruct Hrep as (R1 & R2 & R3).
        + rewrite Eidx, app_nil_r in R2. split; [assumption|]. split; [left; assumption|].
          split; [|auto]. intros ->. cbn in R3. destruct R3 as [R3 _]. unfold ts_csL in R3.
          destruct (ts_idxs L D); [cbn in R2; congruence|discriminate].
        + auto 10.
      - destruct Hrep as [Hrep|Hrep]; cbn in Hrep; destruct Hrep as (R1 & R2 & R3); [|congruence].
        apply ts_commit_spec in Ec; [|assumption|congruence|assumption|assumption].
        destruct Ec as (-> & I1 & I2 & I3 & I4 & I5).
        split; [reflexivity|]. split; [rewrite I1, ts_concat_snd_app1; assumption|].
        split; [destruct I4 as [I4|[_ I4]]; auto|]. split; [|auto].
        intros ->. destruct I4 as [I4|[_ I4]]; [|assumption]. cbn in I4. destruct I4 as [I4 _].
        unfold ts_csL in I4. rewrite I1 in I4. destruct (ts_idxs L D); discriminate. }
    destruct Hstep as (S1 & S2 & S3 & S3' & S4 & S5 & S6).
    destruct ups1 as [|u1 ups1'].
    + (* level L was the top *)
      rewrite ts_close_loop_nil in El. inversion El; subst. rewrite app_nil_r.
      split; [|split; [cbn; rewrite <- Hlen1; reflexivity|rewrite app_nil_r; auto 10]].
      cbn. split; [assumption|]. split; [first [assumption|reflexivity]|]. apply (S3' eq_refl).
    + apply IH with (X := ts_csL L (D ++ ch1)) in El;
        [|assumption|cbn in *; lia|discriminate|assumption|assumption|lia|assumption|intros; lia].
      destruct El as (E1 & E2 & E3 & E4 & E5 & E6 & E7).
      split; [|split; [cbn; rewrite E2, Hlen1; reflexivity|split; [|split; [|split; [|split]]]]].
      * cbn. split; [assumption|]. split; [rewrite E3 by lia; assumption|].
        unfold ts_csL. rewrite E3 by lia. exact E1.
      * intros K HK. rewrite E3 by lia. apply S4; assumption.
      * rewrite E4. assumption.
      * apply ts_blk_app; [assumption|]. eapply ts_blk_PB_high; [exact E5|lia|lia].
      * assumption.
      * congruence.
Qed.

(* ------------------------------------------------------------------ adjacency: INDEX then SUMMARY *)
Definition ts_adj (D : list chunk) : Prop :=
  forall k L es, nth_error D k = Some (TsIndex L es) ->
    exists ss, nth_error D (S k) = Some (TsSummary L ss) /\ ts_PB D 1 L es ss.

Lemma ts_adj_app_blk : forall D ch, ts_adj D -> ts_blk (ts_PB D 1) ch -> ts_adj (D ++ ch).
Proof.
  intros D ch HD Hch k L es Hk. destruct (lt_dec k (length D)) as [Hlt|Hge].
  - rewrite nth_error_app1 in Hk by assumption. destruct (HD _ _ _ Hk) as (ss & H1 & H2).
    exists ss. split; [|apply ts_PB_mono; assumption].
    rewrite nth_error_app1; [assumption|]. apply nth_error_Some. congruence.
  - rewrite nth_error_app2 in Hk by lia.
    destruct (ts_blk_nth _ _ _ _ _ Hch Hk) as (ss & H1 & H2).
    exists ss. split; [|apply ts_PB_mono; assumption].
    rewrite nth_error_app2 by lia. replace (S k - length D) with (S (k - length D)) by lia. assumption.
Qed.

Lemma ts_adj_app_data : forall D r, ts_adj D -> ts_adj (D ++ [TsData r]).
Proof.
  intros D r HD k L es Hk. destruct (lt_dec k (length D)) as [Hlt|Hge].
  - rewrite nth_error_app1 in Hk by assumption. destruct (HD _ _ _ Hk) as (ss & H1 & H2).
    exists ss. split; [|apply ts_PB_mono; assumption].
    rewrite nth_error_app1; [assumption|]. apply nth_error_Some. congruence.
  - rewrite nth_error_app2 in Hk by lia. destruct (k - length D) as [|[|j]]; cbn in Hk; discriminate.
Qed.

(* ------------------------------------------------------------------ the writer invariant *)
Record ts_winv (recs : list A) (w : ts_wr A SE) : Prop := {
  wi_rep : ts_repO 1 (ts_cs0 (tw_disk w)) (tw_lv w) (tw_disk w);
  wi_cnt : Forall (fun u : level => length (tl_idx u) < d) (tw_lv w);
  wi_datas : map snd (ts_datas (tw_disk w)) = recs;
  wi_adj : ts_adj (tw_disk w);
  wi_l1 : ts_l1ok (tw_disk w) (tw_lv w);
  wi_head0 : tw_head w 0 = ts_first_off (ts_datas (tw_disk w));
  wi_head : ts_headI (tw_head w) (tw_disk w);
  wi_len : length (tw_lv w) < ts_LEVEL_COUNT }.

Lemma ts_winv0 : ts_winv [] ts_wr0.
Proof.
  constructor; cbn; auto.
  - intros k L es Hk. destruct k; discriminate.
  - intros K HK. reflexivity.
  - unfold ts_LEVEL_COUNT. lia.
Qed.

Lemma ts_data_idxs : forall K D r, ts_idxs K (D ++ [TsData r]) = ts_idxs K D.
Proof. intros. rewrite ts_idxs_app. cbn. apply app_nil_r. Qed.
Lemma ts_data_datas : forall D r, ts_datas (D ++ [TsData r]) = ts_datas D ++ [(S (length D), r)].
Proof. intros. rewrite ts_datas_app. reflexivity. Qed.
Lemma ts_data_cs0 : forall D r, ts_cs0 (D ++ [TsData r]) = ts_cs0 D ++ [(key r, S (length D))].
Proof. intros. unfold ts_cs0. rewrite ts_data_datas, map_app. reflexivity. Qed.
Lemma ts_data_R : forall D r, ts_R (D ++ [TsData r]) (key r, S (length D)) (summ r).
Proof.
  intros. exists r. cbn. rewrite nth_error_app2 by lia. rewrite Nat.sub_diag. auto.
Qed.
Lemma ts_Forall2_R_mono : forall D x es ss, Forall2 (ts_R D) es ss -> Forall2 (ts_R (D ++ x)) es ss.
Proof. intros D x es ss H. induction H; constructor; auto. apply ts_R_mono; assumption. Qed.

Lemma ts_head0_upd : forall h D r, h 0 = ts_first_off (ts_datas D) ->
  ts_head_upd h 0 (S (length D)) 0 = ts_first_off (ts_datas (D ++ [TsData r])).
Proof.
  intros h D r Hh. rewrite ts_data_datas. unfold ts_head_upd. cbn [Nat.eqb]. rewrite Hh.
  destruct (ts_datas D) as [|[o x] v] eqn:Ev; cbn; [reflexivity|].
  assert (Hin : In (o, x) (ts_datas D)) by (rewrite Ev; left; reflexivity).
  pose proof (ts_view_bounds _ _ _ _ _ Hin) as Hb.
  destruct (Nat.eqb o 0) eqn:E0; [apply Nat.eqb_eq in E0; lia|reflexivity].
Qed.
Lemma ts_headI_data : forall h D r, ts_headI h D -> ts_headI (ts_head_upd h 0 (S (length D))) (D ++ [TsData r]).
Proof.
  intros h D r Hh K HK. rewrite ts_data_idxs. unfold ts_head_upd.
  destruct (Nat.eqb K 0) eqn:E; [apply Nat.eqb_eq in E; lia|]. apply Hh; assumption.
Qed.

Lemma ts_write_inv : forall recs w r, 2 <= d ->
  ts_winv recs w -> tw_st w = TsOk -> tw_st (ts_write A SE key summ d w r) = TsOk ->
  ts_winv (recs ++ [r]) (ts_write A SE key summ d w r).
Proof.
  intros recs w r Hd [Hrep Hcnt Hdat Hadj Hl1 Hh0 Hh Hlen] Hst Hres.
  unfold ts_write in *. rewrite Hst in *.
  set (D := tw_disk w) in *. set (D1 := D ++ [TsData r]) in *.
  assert (HlenD1 : length D1 = S (length D)) by (unfold D1; rewrite app_length; cbn; lia).
  assert (HD1dat : map snd (ts_datas D1) = recs ++ [r]).
  { unfold D1. rewrite ts_data_datas, map_app, Hdat. reflexivity. }
  assert (HD1adj : ts_adj D1) by (apply ts_adj_app_data; assumption).
  assert (HD1h0 : ts_head_upd (tw_head w) 0 (S (length D)) 0 = ts_first_off (ts_datas D1)) by (apply ts_head0_upd; assumption).
  assert (HD1h : ts_headI (ts_head_upd (tw_head w) 0 (S (length D))) D1) by (apply ts_headI_data; assumption).
  assert (HD1i : forall K, ts_idxs K D1 = ts_idxs K D) by (intros; apply ts_data_idxs).
  assert (HD1cs : ts_cs0 D1 = ts_cs0 D ++ [(key r, S (length D))]) by apply ts_data_cs0.
  assert (HD1ne : ts_cs0 D1 <> []) by (rewrite HD1cs; destruct (ts_cs0 D); discriminate).
  assert (Hext : forall ups, ts_repO 2 (ts_csL 1 D) ups D -> ts_repO 2 (ts_csL 1 D1) ups D1).
  { intros ups Hr. unfold ts_csL. rewrite HD1i. eapply ts_repO_ext; [|exact Hr]. intros; apply HD1i. }
  destruct (tw_lv w) as [|l ups] eqn:Elv.
  - (* first record: alloc(1) *)
    cbn [ts_level0 tl_idx tl_sum length app] in *.
    destruct (d <=? 0) eqn:E0; [apply Nat.leb_le in E0; lia|]. cbn [orb] in *.
    destruct (d <=? 1) eqn:E1; [apply Nat.leb_le in E1; lia|].
    cbn in Hrep. destruct Hrep as [HX Hno].
    constructor; cbn [tw_disk tw_lv tw_head]; auto.
    + cbn. split; [assumption|]. split; [rewrite HD1i, Hno, HD1cs, HX by lia; reflexivity|].
      split; [unfold ts_csL; rewrite HD1i, Hno by lia; reflexivity|]. intros K HK. rewrite HD1i. apply Hno. lia.
    + cbn. constructor; [apply ts_data_R|constructor].
    + cbn. unfold ts_LEVEL_COUNT. lia.
  - cbn in Hrep. destruct Hrep as (HX & Hcat & Hup). inversion Hcnt as [|? ? Hcl Hcu]; subst.
    destruct ((d <=? length (tl_idx l)) || (d <=? length (tl_sum l))) eqn:Eov; [discriminate|].
    set (l1 := {| tl_idx := tl_idx l ++ [(key r, S (length D))]; tl_sum := tl_sum l ++ [summ r] |}) in *.
    assert (Hl1' : Forall2 (ts_R D1) (tl_idx l1) (tl_sum l1)).
    { cbn. apply Forall2_app; [apply ts_Forall2_R_mono; exact Hl1|]. constructor; [apply ts_data_R|constructor]. }
    assert (Hcat1 : concat (map snd (ts_idxs 1 D1)) ++ tl_idx l1 = ts_cs0 D1).
    { cbn. rewrite HD1i, HD1cs, <- Hcat, app_assoc. reflexivity. }
    destruct (d <=? length (tl_idx l1)) eqn:Efull.
    + (* commit(1, NORMAL) *)
      rewrite <- HlenD1 in *.
      destruct (ts_commit A SE ts_LEVEL_COUNT d false 1 l1 ups (length D1) (ts_head_upd (tw_head w) 0 (length D1)))
        as [|ok l2 ups2 ch h2] eqn:Ec; [discriminate|].
      cbn [tw_st] in Hres. destruct ok; [|discriminate].
      pose proof (ts_commit_shape _ _ _ _ _ _ _ _ _ _ _ _ D1 Ec (le_n 1)) as Hshape.
      pose proof (ts_commit_head _ _ _ _ _ _ _ _ _ _ _ _ Ec (le_n 1) HD1h) as [Hh2 Hh20].
      pose proof (ts_commit_len _ _ _ _ _ _ _ _ _ _ _ _ Ec) as Hlen2.
      apply ts_commit_spec in Ec; [|assumption|cbn; destruct (tl_idx l); discriminate|assumption|apply Hext; assumption].
      destruct Ec as (-> & I1 & I2 & I3 & I4 & I5).
      constructor; cbn [tw_disk tw_lv tw_head].
      * cbn. unfold ts_cs0. rewrite I3. fold (ts_cs0 D1). split; [assumption|].
        split; [rewrite I1, ts_concat_snd_app1, app_nil_r; exact Hcat1|].
        destruct I4 as [I4|[I4 _]]; [assumption|discriminate].
      * constructor; [cbn; lia|assumption].
      * rewrite I3. assumption.
      * apply ts_adj_app_blk; [assumption|]. apply Hshape; [|intros; assumption].
        cbn. rewrite app_length. cbn. lia.
      * cbn. constructor.
      * rewrite I3, Hh20. assumption.
      * assumption.
      * cbn in *. apply Hlen2. lia.
    + apply Nat.leb_gt in Efull.
      constructor; cbn [tw_disk tw_lv tw_head]; auto.
      cbn. split; [assumption|]. split; [exact Hcat1|]. apply Hext; assumption.
Qed.

(* ------------------------------------------------------------------ all writes, then close *)
Lemma ts_write_st : forall w r, tw_st (ts_write A SE key summ d w r) = TsOk -> tw_st w = TsOk.
Proof.
  intros w r H. unfold ts_write in H. destruct (tw_st w) eqn:E; [reflexivity| |congruence].
  exfalso.
  destruct (tw_lv w) as [|l ups]; cbn -[ts_commit Nat.leb] in H.
  - destruct (_ || _); [discriminate|]. destruct (d <=? _); [|discriminate].
    destruct (ts_commit _ _ _ _ _ _ _ _ _ _) as [|[|] ? ? ? ?]; discriminate.
  - destruct (_ || _); [discriminate|]. destruct (d <=? _); [|discriminate].
    destruct (ts_commit _ _ _ _ _ _ _ _ _ _) as [|[|] ? ? ? ?]; discriminate.
Qed.

Lemma ts_writes_inv : forall rs recs w, 2 <= d -> ts_winv recs w -> tw_st w = TsOk ->
  tw_st (fold_left (ts_write A SE key summ d) rs w) = TsOk ->
  ts_winv (recs ++ rs) (fold_left (ts_write A SE key summ d) rs w).
Proof.
  induction rs as [|r rs IH]; intros recs w Hd Hw Hst Hres; cbn in *.
  - rewrite app_nil_r. assumption.
  - assert (Hst1 : tw_st (ts_write A SE key summ d w r) = TsOk).
    { clear - Hres. revert Hres. generalize (ts_write A SE key summ d w r). induction rs as [|r' rs IH]; intros w' H; cbn in H; [assumption|].
      apply IH in H. apply ts_write_st in H. assumption. }
    replace (recs ++ r :: rs) with ((recs ++ [r]) ++ rs) by (rewrite <- app_assoc; reflexivity).
    apply IH; auto. apply ts_write_inv; assumption.
Qed.

Lemma ts_repC_part : forall lvs L X D, ts_repC L X lvs D ->
  (lvs <> [] -> concat (map snd (ts_idxs L D)) = X) /\
  (forall K, L < K < L + length lvs -> concat (map snd (ts_idxs K D)) = ts_csL (K - 1) D) /\
  (lvs <> [] -> length (ts_idxs (L + length lvs - 1) D) = 1) /\
  (forall K, L + length lvs <= K -> ts_idxs K D = []).
Proof.
  induction lvs as [|l ups IH]; intros L X D H; cbn in H.
  - destruct H as [H1 H2]. split; [congruence|]. split; [cbn; intros; lia|]. split; [congruence|].
    intros K HK. apply H2. cbn in HK. lia.
  - destruct H as (H1 & H2 & H3). destruct (IH _ _ _ H3) as (I1 & I2 & I3 & I4).
    split; [intros; assumption|]. split; [|split].
    + intros K HK. cbn in HK. destruct (Nat.eq_dec K (S L)) as [->|Hne].
      * replace (S L - 1) with L by lia. apply I1. destruct ups; [cbn in HK; lia|discriminate].
      * apply I2. lia.
    + intros _. destruct ups as [|u ups'].
      * cbn in H3. destruct H3 as [H3 _]. unfold ts_csL in H3. rewrite map_length in H3.
        cbn. replace (L + 1 - 1) with L by lia. assumption.
      * cbn [length] in *. replace (L + S (S (length ups')) - 1) with (S L + S (length ups') - 1) by lia.
        apply I3. discriminate.
    + intros K HK. apply I4. cbn in HK. lia.
Qed.

Record ts_cinv (recs : list A) (D : list chunk) (h : nat -> nat) (T : nat) : Prop := {
  ci_datas : map snd (ts_datas D) = recs;
  ci_T : T < ts_LEVEL_COUNT;
  ci_T0 : T = 0 <-> recs = [];
  ci_part : forall L, 1 <= L <= T -> concat (map snd (ts_idxs L D)) = ts_cs (L - 1) D;
  ci_top : 1 <= T -> length (ts_idxs T D) = 1;
  ci_above : forall L, T < L -> ts_idxs L D = [];
  ci_adj : ts_adj D;
  ci_head0 : h 0 = ts_first_off (ts_datas D);
  ci_head : ts_headI h D }.

Lemma ts_close_st : forall w, tw_st (ts_close A SE d w) = TsOk -> tw_st w = TsOk.
Proof.
  intros w H. unfold ts_close in H. destruct (tw_st w) eqn:E; [reflexivity| |congruence].
  destruct (ts_close_loop _ _ _ _ _ _ _ _) as [[[? ?] ?]|]; discriminate.
Qed.

Theorem ts_file_cinv : forall recs, 2 <= d -> tw_st (ts_file A SE key summ d recs) = TsOk ->
  ts_cinv recs (tw_disk (ts_file A SE key summ d recs)) (tw_head (ts_file A SE key summ d recs))
          (length (tw_lv (ts_file A SE key summ d recs))).
Proof.
  intros recs Hd Hres. unfold ts_file in *.
  pose proof (ts_close_st _ Hres) as Hst0.
  pose proof (ts_writes_inv recs [] ts_wr0 Hd ts_winv0 eq_refl Hst0) as Hw. cbn [app] in Hw.
  set (w := fold_left (ts_write A SE key summ d) recs ts_wr0) in *.
  destruct Hw as [Hrep Hcnt Hdat Hadj Hl1 Hh0 Hh Hlen].
  unfold ts_close in *. rewrite Hst0 in *.
  destruct (tw_lv w) as [|l ups] eqn:Elv.
  - (* no record *)
    rewrite ts_close_loop_nil. cbn [tw_disk tw_head tw_lv]. unfold ts_LEVEL_COUNT in *.
    rewrite app_nil_r. cbn in Hrep. destruct Hrep as [HX Hno].
    assert (Hrecs : recs = []).
    { rewrite <- Hdat. unfold ts_cs0 in HX. destruct (ts_datas (tw_disk w)); [reflexivity|discriminate]. }
    constructor; auto; cbn.
    + tauto.
    + intros; lia.
    + intros; lia.
  - destruct (ts_close_loop A SE (ts_LEVEL_COUNT - 1) d 1 (l :: ups) (length (tw_disk w)) (tw_head w)) as [[[lvs' ch] h']|] eqn:El; [|discriminate].
    cbn [tw_disk tw_head tw_lv].
    apply ts_close_loop_spec with (X := ts_cs0 (tw_disk w)) in El;
      [|assumption|unfold ts_LEVEL_COUNT in *; cbn in *; lia|discriminate|assumption|left; assumption|lia|assumption|intros _; assumption].
    destruct El as (E1 & E2 & E3 & E4 & E5 & E6 & E7).
    destruct (ts_repC_part _ _ _ _ E1) as (P1 & P2 & P3 & P4).
    assert (Hne : lvs' <> []) by (destruct lvs'; [discriminate|discriminate]).
    assert (Hcs0 : ts_cs0 (tw_disk w ++ ch) = ts_cs0 (tw_disk w)) by (unfold ts_cs0; rewrite E4; reflexivity).
    cbn in Hrep. destruct Hrep as (HX & _).
    constructor.
    + rewrite E4. assumption.
    + rewrite E2. assumption.
    + split; [intros HT; destruct lvs'; [congruence|discriminate]|].
      intros Hr. exfalso. apply HX. unfold ts_cs0. rewrite <- Hdat in Hr. destruct (ts_datas (tw_disk w)); [reflexivity|discriminate].
    + intros L HL. destruct (Nat.eq_dec L 1) as [->|HL1].
      * cbn. rewrite Hcs0. apply P1; assumption.
      * rewrite P2 by lia. destruct (L - 1) eqn:EL; [lia|]. reflexivity.
    + intros _. replace (length lvs') with (1 + length lvs' - 1) by lia. apply P3; assumption.
    + intros L HL. apply P4. lia.
    + apply ts_adj_app_blk; assumption.
    + rewrite E7, E4. assumption.
    + assumption.
Qed.

(* ------------------------------------------------------------------ reader: seek *)
Lemma ts_heads_sorted : forall (Gs : list (list Z)), zsorted (concat Gs) -> Forall (fun G => G <> []) Gs ->
  zsorted (map (hd 0%Z) Gs).
Proof.
  induction Gs as [|G Gs IH]; intros Hs Hne; cbn; [constructor|].
  inversion Hne as [|? ? HG HGs]; subst. cbn in Hs.
  constructor; [apply IH; [eapply zsorted_app_r; eauto|assumption]|].
  destruct G as [|g G']; [congruence|]. cbn in *.
  apply zsorted_cons_all in Hs. apply Forall_app in Hs. destruct Hs as [_ Hs].
  clear - Hs HGs. induction Gs as [|G2 Gs IH]; cbn; [constructor|].
  inversion HGs as [|? ? HG2 HGs']; subst. cbn in Hs. apply Forall_app in Hs. destruct Hs as [Ha Hb].
  constructor; [|apply IH; assumption]. destruct G2; [congruence|]. inversion Ha; assumption.
Qed.

Definition ts_kgs (L : nat) (D : list chunk) : list (list Z) := map (fun p => map fst (snd p)) (ts_idxs L D).

Lemma ts_kgs_heads : forall L D, map (hd 0%Z) (ts_kgs L D) = map fst (ts_csL L D).
Proof.
  intros. unfold ts_kgs, ts_csL. rewrite !map_map. apply map_ext. intros [o G]. cbn. destruct G; reflexivity.
Qed.
Lemma ts_kgs_concat : forall L D, concat (ts_kgs L D) = map fst (concat (map snd (ts_idxs L D))).
Proof. intros. unfold ts_kgs. rewrite concat_map, map_map. reflexivity. Qed.

Section READ.
Variable recs : list A.
Variable D : list chunk.
Variable h : nat -> nat.
Variable T : nat.
Hypothesis Hinv : ts_cinv recs D h T.
Hypothesis Hsort : zsorted (map key recs).

Lemma ts_idx_nonempty : forall L o G, In (o, G) (ts_idxs L D) -> G <> [] /\ 1 <= L.
Proof.
  intros L o G Hin. pose proof (ts_view_bounds _ _ _ _ _ Hin) as Hb.
  apply ts_idx_rd in Hin. destruct o; [lia|]. cbn in Hin.
  destruct (ci_adj _ _ _ _ Hinv _ _ _ Hin) as (ss & _ & H1 & H2 & _). auto.
Qed.
Lemma ts_kgs_nonempty : forall L, Forall (fun G => G <> []) (ts_kgs L D).
Proof.
  intros L. unfold ts_kgs. rewrite Forall_map. rewrite Forall_forall. intros [o G] Hin. cbn.
  destruct (ts_idx_nonempty _ _ _ Hin) as [Hne _]. destruct G; [exfalso; apply Hne; reflexivity|discriminate].
Qed.

Lemma ts_cs0_keys : map fst (ts_cs0 D) = map key recs.
Proof. unfold ts_cs0. rewrite <- (ci_datas _ _ _ _ Hinv). rewrite !map_map. reflexivity. Qed.

Lemma ts_cs_sorted : forall L, L <= T -> zsorted (map fst (ts_cs L D)).
Proof.
  induction L as [|L IH]; intros HL.
  - cbn. rewrite ts_cs0_keys. assumption.
  - cbn [ts_cs]. rewrite <- ts_kgs_heads. apply ts_heads_sorted; [|apply ts_kgs_nonempty].
    rewrite ts_kgs_concat, (ci_part _ _ _ _ Hinv) by lia. replace (S L - 1) with L by lia. apply IH. lia.
Qed.

Lemma ts_len_concat_firstn_map : forall {X Y} (f : X -> Y) q (Gs : list (list X)),
  length (concat (firstn q (map (map f) Gs))) = length (concat (firstn q Gs)).
Proof.
  intros X Y f q. induction q as [|q IH]; intros Gs; [reflexivity|]. destruct Gs as [|G Gs]; [reflexivity|].
  cbn. rewrite !app_length, map_length, IH. reflexivity.
Qed.

Lemma ts_descend_ok : forall level t lvl, lvl <= T -> level <= lvl ->
  forall q k off, ts_PU t (map fst (ts_cs lvl D)) q -> nth_error (ts_cs lvl D) q = Some (k, off) ->
  exists p k' off', ts_descend A SE true D level t lvl off = Some off' /\
    nth_error (ts_cs level D) p = Some (k', off') /\
    ts_PF t (map fst (ts_cs level D)) p /\ (1 <= level -> ts_PU t (map fst (ts_cs level D)) p).
Proof.
  intros level t. induction lvl as [|lvl' IH]; intros HT Hlev q k off HPU Hq.
  - assert (level = 0) by lia. subst level. exists q, k, off. cbn. split; [reflexivity|]. split; [assumption|].
    split; [apply ts_PU_PF; assumption|intros; lia].
  - cbn [ts_descend]. destruct (S lvl' <=? level) eqn:E.
    + apply Nat.leb_le in E. assert (level = S lvl') by lia. subst level.
      exists q, k, off. split; [reflexivity|]. split; [assumption|]. split; [apply ts_PU_PF; assumption|auto].
    + apply Nat.leb_gt in E.
      cbn [ts_cs] in Hq. unfold ts_csL in Hq. rewrite nth_error_map in Hq.
      destruct (nth_error (ts_idxs (S lvl') D) q) as [[o G]|] eqn:Eq; [|discriminate].
      cbn in Hq. inversion Hq; subst k off. clear Hq.
      assert (Hin : In (o, G) (ts_idxs (S lvl') D)) by (eapply nth_error_In; eauto).
      destruct (ts_idx_nonempty _ _ _ Hin) as [HGne _].
      rewrite (ts_idx_rd _ _ _ _ Hin). destruct G as [|e es]; [congruence|].
      set (G := e :: es) in *. set (upper := true && (1 <? S lvl')).
      rewrite ts_scan_zscan.
      (* the step on key lists *)
      assert (Hnth : nth_error (ts_kgs (S lvl') D) q = Some (map fst G)).
      { unfold ts_kgs. apply (map_nth_error (fun p : nat * list ts_entry => map fst (snd p)) _ _ Eq). }
      assert (Hcat : concat (map snd (ts_idxs (S lvl') D)) = ts_cs lvl' D).
      { rewrite (ci_part _ _ _ _ Hinv) by lia. replace (S lvl' - 1) with lvl' by lia. reflexivity. }
      assert (Hs : zsorted (concat (ts_kgs (S lvl') D))).
      { rewrite ts_kgs_concat, Hcat. apply ts_cs_sorted. lia. }
      assert (HPU' : ts_PU t (map (hd 0%Z) (ts_kgs (S lvl') D)) q) by (rewrite ts_kgs_heads; exact HPU).
      destruct (ts_seek_step upper t _ q _ (ts_kgs_nonempty _) Hs HPU' Hnth) as [Hi Hpos].
      set (i := ts_zscan upper t (map fst G) 0) in *. rewrite map_length in Hi.
      rewrite ts_kgs_concat, Hcat in Hpos.
      unfold ts_kgs in Hpos. rewrite <- (map_map snd (map fst)) in Hpos. rewrite ts_len_concat_firstn_map in Hpos.
      set (p := length (concat (firstn q (map snd (ts_idxs (S lvl') D)))) + i) in *.
      assert (Hx : nth_error G i = Some (nth i G e)) by (apply nth_error_nth'; assumption).
      assert (Hp : nth_error (ts_cs lvl' D) p = Some (nth i G e)).
      { rewrite <- Hcat. eapply ts_nth_error_concat; [|exact Hx]. apply (map_nth_error snd _ _ Eq). }
      destruct (nth i G e) as [k' off'] eqn:En. cbn [snd].
      destruct lvl' as [|lvl''].
      * assert (level = 0) by lia. subst level. exists p, k', off'. cbn [ts_descend].
        split; [reflexivity|]. split; [assumption|]. split; [exact Hpos|intros; lia].
      * apply (IH ltac:(lia) ltac:(lia) p k' off'); assumption.
Qed.

Lemma ts_top_none : forall n, (forall k, k < n -> h k = 0) -> ts_top h n = None.
Proof.
  induction n as [|n IH]; intros H; cbn; [reflexivity|]. rewrite (H n) by lia. cbn. apply IH. intros; apply H; lia.
Qed.
Lemma ts_top_some : forall n, T < n -> h T <> 0 -> (forall k, T < k < n -> h k = 0) -> ts_top h n = Some T.
Proof.
  induction n as [|n IH]; intros HT Hne Hz; [lia|]. cbn.
  destruct (Nat.eq_dec n T) as [->|Hn].
  - destruct (Nat.eqb (h T) 0) eqn:E; [apply Nat.eqb_eq in E; congruence|reflexivity].
  - rewrite (Hz n) by lia. cbn. apply IH; [lia|assumption|intros; apply Hz; lia].
Qed.

Lemma ts_seek_ok : forall level t, recs <> [] -> level <= T ->
  exists p k' off', ts_seek A SE D h level t = TsSeekAt off' /\
    nth_error (ts_cs level D) p = Some (k', off') /\
    ts_PF t (map fst (ts_cs level D)) p /\ (1 <= level -> ts_PU t (map fst (ts_cs level D)) p).
Proof.
  intros level t Hne Hlev.
  assert (HT : 1 <= T).
  { destruct T; [|lia]. exfalso. apply Hne. apply (ci_T0 _ _ _ _ Hinv). reflexivity. }
  pose proof (ci_top _ _ _ _ Hinv HT) as Htop.
  destruct (ts_idxs T D) as [|[o G] [|? ?]] eqn:Et; try discriminate. clear Htop.
  assert (Hin : In (o, G) (ts_idxs T D)) by (rewrite Et; left; reflexivity).
  pose proof (ts_view_bounds _ _ _ _ _ Hin) as Hb.
  assert (HhT : h T = o) by (rewrite (ci_head _ _ _ _ Hinv T HT), Et; reflexivity).
  assert (Htopv : ts_top h ts_LEVEL_COUNT = Some T).
  { apply ts_top_some; [apply (ci_T _ _ _ _ Hinv)|lia|].
    intros k Hk. rewrite (ci_head _ _ _ _ Hinv k) by lia. rewrite (ci_above _ _ _ _ Hinv) by lia. reflexivity. }
  unfold ts_seek, ts_seek_gen. rewrite Htopv, HhT.
  assert (Hcs : ts_cs T D = [(fst (hd (0%Z, 0) G), o)]).
  { destruct T; [lia|]. cbn [ts_cs]. unfold ts_csL. rewrite Et. reflexivity. }
  destruct (ts_descend_ok level t T (le_n T) Hlev 0 (fst (hd (0%Z, 0) G)) o) as (p & k' & off' & H1 & H2 & H3 & H4).
  - rewrite Hcs. cbn. exists [], (fst (hd (0%Z, 0) G)), []. cbn. auto.
  - rewrite Hcs. reflexivity.
  - exists p, k', off'. rewrite H1. auto.
Qed.

End READ.

(* ------------------------------------------------------------------ reader: annotations *)
Fixpoint ts_take_stop (stop : nat -> A -> bool) (i : nat) (l : list A) : list A :=
  match l with [] => [] | r :: l' => if stop i r then [r] else r :: ts_take_stop stop (S i) l' end.

Lemma ts_view_length : forall {B} (f : chunk -> option B) D b, length (ts_view f b D) <= length D.
Proof.
  intros B f D. induction D as [|c D IH]; intros b; cbn; [lia|].
  destruct (f c); cbn; specialize (IH (S b)); lia.
Qed.

Lemma ts_anno_iter_spec : forall D stop post pre o r i fuel,
  ts_datas D = pre ++ (o, r) :: post -> length post + 2 <= fuel ->
  ts_anno_iter A SE fuel D stop i o = (ts_take_stop stop i (r :: map snd post), true).
Proof.
  intros D stop post. induction post as [|[o' r'] post IH]; intros pre o r i fuel Hd Hf.
  - destruct fuel as [|[|f]]; cbn in Hf; try lia.
    assert (Hin : In (o, r) (ts_datas D)) by (rewrite Hd; apply in_or_app; right; left; reflexivity).
    pose proof (ts_view_bounds _ _ _ _ _ Hin) as Hb. destruct o as [|o]; [lia|].
    cbn [ts_anno_iter]. rewrite (ts_data_rd _ _ _ Hin). cbn [ts_take_stop map].
    destruct (stop i r); [reflexivity|].
    rewrite (ts_next_view ts_f_data _ ts_sel_data _ _ _ _ _ Hd). reflexivity.
  - destruct fuel as [|f]; [cbn in Hf; lia|].
    assert (Hin : In (o, r) (ts_datas D)) by (rewrite Hd; apply in_or_app; right; left; reflexivity).
    pose proof (ts_view_bounds _ _ _ _ _ Hin) as Hb. destruct o as [|o]; [lia|].
    cbn [ts_anno_iter]. rewrite (ts_data_rd _ _ _ Hin). cbn [ts_take_stop map].
    destruct (stop i r); [reflexivity|].
    rewrite (ts_next_view ts_f_data _ ts_sel_data _ _ _ _ _ Hd). cbn [ts_first_off fst].
    rewrite (IH (pre ++ [(S o, r)]) o' r' (S i) f).
    + reflexivity.
    + rewrite <- app_assoc. exact Hd.
    + cbn in Hf. lia.
Qed.

Theorem ts_annotations_ok : forall recs D h T t,
  ts_cinv recs D h T -> zsorted (map key recs) ->
  exists j, (forall stop, ts_annotations_from A SE D h t stop = (ts_take_stop stop 0 (skipn j recs), true)) /\
            Nat.pred (ts_fge t (map key recs)) <= j <= ts_fge t (map key recs).
Proof.
  intros recs D h T t Hinv Hsort.
  destruct recs as [|r0 recs'] eqn:Erecs.
  - (* no record: NOT_FOUND is mapped to success *)
    exists 0. split; [|cbn; lia]. intros stop.
    assert (HT : T = 0) by (apply (ci_T0 _ _ _ _ Hinv); reflexivity). subst T.
    unfold ts_annotations_from, ts_annotations_gen, ts_seek_gen. rewrite ts_top_none; [reflexivity|].
    intros k Hk. destruct k.
    + rewrite (ci_head0 _ _ _ _ Hinv). pose proof (ci_datas _ _ _ _ Hinv) as Hd.
      destruct (ts_datas D); [reflexivity|discriminate].
    + rewrite (ci_head _ _ _ _ Hinv) by lia. rewrite (ci_above _ _ _ _ Hinv) by lia. reflexivity.
  - rewrite <- Erecs in *. assert (Hne : recs <> []) by (rewrite Erecs; discriminate).
    destruct (ts_seek_ok recs D h T Hinv Hsort 0 t Hne (Nat.le_0_l T)) as (p & k' & off' & H1 & H2 & H3 & _).
    cbn [ts_cs] in H2, H3. rewrite (ts_cs0_keys recs D h T Hinv) in H3.
    destruct (ts_PF_range _ _ _ Hsort H3) as [Hrange _].
    exists p. split; [|assumption]. intros stop.
    unfold ts_annotations_from, ts_annotations_gen. fold (ts_seek A SE D h 0 t). rewrite H1.
    unfold ts_cs0 in H2. rewrite nth_error_map in H2.
    destruct (nth_error (ts_datas D) p) as [[o r]|] eqn:Ep; [|discriminate]. cbn in H2. inversion H2; subst k' off'.
    destruct (nth_error_split _ _ Ep) as (pre & post & Hd & Hlen).
    rewrite (ts_anno_iter_spec D stop post pre o r 0 (S (length D)) Hd).
    + rewrite <- (ci_datas _ _ _ _ Hinv), Hd, map_app. rewrite <- Hlen, <- (map_length snd pre), ts_skipn_app_len. reflexivity.
    + pose proof (ts_view_length ts_f_data D 0) as Hl. fold (ts_datas D) in Hl. rewrite Hd, app_length in Hl. cbn in Hl. lia.
Qed.

Lemma ts_take_stop_never : forall l i, ts_take_stop (fun _ _ => false) i l = l.
Proof. induction l as [|r l IH]; intros i; cbn; [reflexivity|]. rewrite IH. reflexivity. Qed.

Lemma ts_take_stop_after : forall k l i, i < k ->
  ts_take_stop (fun j _ => k <=? S j) i l = firstn (k - i) l.
Proof.
  intros k l. induction l as [|r l IH]; intros i Hi; cbn [ts_take_stop].
  - destruct (k - i); reflexivity.
  - destruct (k <=? S i) eqn:E.
    + apply Nat.leb_le in E. replace (k - i) with 1 by lia. reflexivity.
    + apply Nat.leb_gt in E. rewrite IH by lia. replace (k - i) with (S (k - S i)) by lia. reflexivity.
Qed.

(* ------------------------------------------------------------------ reader: UTC *)
Definition ts_sum_at (D : list chunk) (o : nat) : list SE :=
  match ts_rd A SE D (S o) with Some (TsSummary _ ss) => ss | _ => [] end.

Fixpoint ts_batches (stop : nat -> bool) (k : nat) (s : Z) (sss : list (list SE)) : list (list SE) :=
  match sss with
  | [] => []
  | ss :: r =>
    match ts_skip_lt SE keyS s ss with
    | [] => ts_batches stop k s r
    | x :: b => if stop (k + length (x :: b)) then [x :: b] else (x :: b) :: ts_batches stop (k + length (x :: b)) s r
    end
  end.

Lemma ts_utc_iter_spec : forall D s stop, ts_adj D ->
  forall post pre o G k fuel,
  ts_idxs 1 D = pre ++ (o, G) :: post -> length post + 2 <= fuel ->
  ts_utc_iter A SE summ keyS fuel D s stop k o =
    (ts_batches stop k s (map (fun p => ts_sum_at D (fst p)) ((o, G) :: post)), true).
Proof.
  intros D s stop Hadj post. induction post as [|[o' G'] post IH]; intros pre o G k fuel Hd Hf.
  - destruct fuel as [|[|f]]; cbn in Hf; try lia.
    assert (Hin : In (o, G) (ts_idxs 1 D)) by (rewrite Hd; apply in_or_app; right; left; reflexivity).
    pose proof (ts_view_bounds _ _ _ _ _ Hin) as Hb. destruct o as [|o]; [lia|].
    pose proof (ts_idx_rd _ _ _ _ Hin) as Hrd.
    cbn [ts_utc_iter]. rewrite Hrd. cbn in Hrd. destruct (Hadj _ _ _ Hrd) as (ss & Hss & _).
    cbn [map ts_batches fst]. unfold ts_sum_at. cbn [ts_rd]. rewrite Hss.
    rewrite (ts_next_view (ts_f_idx 1) _ (ts_sel_index 1) _ _ _ _ _ Hd). cbn [ts_first_off].
    destruct (ts_skip_lt SE keyS s ss) as [|x b]; [reflexivity|].
    destruct (stop (k + length (x :: b))); reflexivity.
  - destruct fuel as [|f]; [cbn in Hf; lia|].
    assert (Hin : In (o, G) (ts_idxs 1 D)) by (rewrite Hd; apply in_or_app; right; left; reflexivity).
    pose proof (ts_view_bounds _ _ _ _ _ Hin) as Hb. destruct o as [|o]; [lia|].
    pose proof (ts_idx_rd _ _ _ _ Hin) as Hrd.
    cbn [ts_utc_iter]. rewrite Hrd. cbn in Hrd. destruct (Hadj _ _ _ Hrd) as (ss & Hss & _).
    cbn [map ts_batches fst]. unfold ts_sum_at at 1. cbn [ts_rd]. rewrite Hss.
    rewrite (ts_next_view (ts_f_idx 1) _ (ts_sel_index 1) _ _ _ _ _ Hd). cbn [ts_first_off fst].
    assert (Hd' : ts_idxs 1 D = (pre ++ [(S o, G)]) ++ (o', G') :: post) by (rewrite <- app_assoc; exact Hd).
    assert (Hf' : length post + 2 <= f) by (cbn in Hf; lia).
    destruct (ts_skip_lt SE keyS s ss) as [|x b].
    + rewrite (IH _ _ _ _ _ Hd' Hf'). reflexivity.
    + destruct (stop (k + length (x :: b))); [reflexivity|]. rewrite (IH _ _ _ _ _ Hd' Hf'). reflexivity.
Qed.

Lemma ts_batches_concat : forall s sss k,
  concat (ts_batches (fun _ => false) k s sss) = concat (map (ts_skip_lt SE keyS s) sss).
Proof.
  induction sss as [|ss r IH]; intros k; cbn; [reflexivity|].
  destruct (ts_skip_lt SE keyS s ss) as [|x b]; cbn; [apply IH|]. rewrite IH. reflexivity.
Qed.

Definition ts_ge (s : Z) (x : SE) : bool := (keyS x >=? s)%Z.

Lemma ts_skip_lt_filter : forall s ss, zsorted (map keyS ss) -> ts_skip_lt SE keyS s ss = filter (ts_ge s) ss.
Proof.
  induction ss as [|x r IH]; intros Hs; cbn; [reflexivity|]. unfold ts_ge at 1.
  destruct (s >? keyS x)%Z eqn:E.
  - destruct (keyS x >=? s)%Z eqn:E2; [lia|]. apply IH. inversion Hs; assumption.
  - destruct (keyS x >=? s)%Z eqn:E2; [|lia]. f_equal.
    cbn in Hs. apply zsorted_cons_all in Hs. clear - Hs E2. induction r as [|y r IH]; cbn; [reflexivity|].
    inversion Hs; subst. unfold ts_ge at 1. destruct (keyS y >=? s)%Z eqn:E3; [|lia]. f_equal. apply IH; assumption.
Qed.

Lemma ts_filter_none : forall s ss, Forall (fun y => (y < s)%Z) (map keyS ss) -> filter (ts_ge s) ss = [].
Proof.
  induction ss as [|x r IH]; intros H; cbn; [reflexivity|]. inversion H; subst. unfold ts_ge at 1.
  destruct (keyS x >=? s)%Z eqn:E; [lia|]. apply IH; assumption.
Qed.

Lemma ts_filter_concat : forall {X} (f : X -> bool) (ll : list (list X)), filter f (concat ll) = concat (map (filter f) ll).
Proof. intros X f ll. induction ll as [|l ll IH]; cbn; [reflexivity|]. rewrite filter_app, IH. reflexivity. Qed.

Lemma ts_zsorted_in_concat : forall (Ks : list (list Z)) K, zsorted (concat Ks) -> In K Ks -> zsorted K.
Proof.
  induction Ks as [|K0 Ks IH]; intros K Hs Hin; [contradiction|]. cbn in Hs. destruct Hin as [->|Hin].
  - eapply zsorted_app_l; eauto.
  - apply IH; [eapply zsorted_app_r; eauto|assumption].
Qed.

(* pure statement on aligned key groups / summary groups *)
Lemma ts_utc_pure : forall (Ks : list (list Z)) (sss : list (list SE)) s q,
  zsorted (concat Ks) -> Forall (fun K => K <> []) Ks ->
  Forall2 (fun K ss => map keyS ss = K) Ks sss ->
  ts_PU s (map (hd 0%Z) Ks) q ->
  filter (ts_ge s) (concat sss) = concat (map (ts_skip_lt SE keyS s) (skipn q sss)).
Proof.
  intros Ks sss s q Hs Hne Hal (Ak & x & Bk & HY & HA & Hc & _).
  destruct (ts_map_eq_app_cons _ _ _ _ _ HY) as (KA & K & KB & -> & <- & <- & <-).
  rewrite map_length in HA. subst q.
  apply Forall2_app_inv_l in Hal. destruct Hal as (sA & sR & HalA & HalR & ->).
  assert (HlenA : length sA = length KA) by (clear - HalA; induction HalA; cbn; congruence).
  rewrite <- HlenA, ts_skipn_app_len. rewrite concat_app, filter_app.
  assert (Hpre : filter (ts_ge s) (concat sA) = []).
  { apply ts_filter_none.
    assert (Hk : map keyS (concat sA) = concat KA).
    { clear - HalA. induction HalA; cbn; [reflexivity|]. rewrite map_app, IHHalA, H. reflexivity. }
    rewrite Hk. destruct Hc as [Hc|Hc].
    - destruct KA; [constructor|discriminate].
    - rewrite Forall_forall. intros y Hy. rewrite concat_app in Hs. cbn in Hs.
      apply Forall_app in Hne. destruct Hne as [_ Hne]. inversion Hne as [|? ? HK _]; subst.
      destruct K as [|k0 K']; [congruence|]. cbn in Hc.
      assert (y <= k0)%Z by (eapply (zsorted_app_le (concat KA)); eauto; left; reflexivity). lia. }
  rewrite Hpre. cbn [app]. rewrite ts_filter_concat. f_equal.
  assert (HsR : zsorted (concat (K :: KB))) by (rewrite concat_app in Hs; eapply zsorted_app_r; eauto).
  clear - HalR HsR. revert HsR. induction HalR as [|K0 ss Ks' sss' Hk Hr IH]; intros HsR; cbn; [reflexivity|].
  rewrite IH by (cbn in HsR; eapply zsorted_app_r; eauto). f_equal.
  symmetry. apply ts_skip_lt_filter. rewrite Hk. cbn in HsR. eapply zsorted_app_l; eauto.
Qed.

Lemma ts_Forall2_concat : forall {X Y} (R : X -> Y -> Prop) ll mm,
  Forall2 (Forall2 R) ll mm -> Forall2 R (concat ll) (concat mm).
Proof. intros X Y R ll mm H. induction H; cbn; [constructor|]. apply Forall2_app; assumption. Qed.

Hypothesis keyS_summ : forall r, keyS (summ r) = key r.

Lemma ts_R_keys : forall D G ss, Forall2 (ts_R D) G ss -> map keyS ss = map fst G.
Proof.
  intros D G ss H. induction H as [|e s' G' ss' (r & _ & -> & He) _ IH]; cbn; [reflexivity|].
  rewrite IH, keyS_summ, He. reflexivity.
Qed.

Lemma ts_R_datas : forall D v S', (forall p, In p v -> In p (ts_datas D)) ->
  Forall2 (ts_R D) (map ts_ent_of_data v) S' -> S' = map (fun p => summ (snd p)) v.
Proof.
  intros D v. induction v as [|[o r] v IH]; intros S' Hin H; cbn in *.
  - inversion H; reflexivity.
  - inversion H as [|? s' ? S'' (r' & Hr1 & -> & _) Hrest]; subst. cbn in Hr1.
    rewrite (ts_data_rd D o r) in Hr1 by (apply Hin; left; reflexivity). inversion Hr1; subst r'.
    f_equal. apply IH; [intros; apply Hin; right; assumption|assumption].
Qed.

Lemma ts_R_align : forall D Gs sss, Forall2 (Forall2 (ts_R D)) Gs sss ->
  Forall2 (fun K ss => map keyS ss = K) (map (map fst) Gs) sss.
Proof. intros D Gs sss H. induction H; cbn; constructor; auto. eapply ts_R_keys; eauto. Qed.

Theorem ts_utc_ok : forall recs D h T s,
  ts_cinv recs D h T -> zsorted (map key recs) ->
  concat (fst (ts_utc_from A SE summ keyS D h s (fun _ => false))) = filter (ts_ge s) (map summ recs) /\
  snd (ts_utc_from A SE summ keyS D h s (fun _ => false)) = true.
Proof.
  intros recs D h T s Hinv Hsort.
  destruct recs as [|r0 recs'] eqn:Erecs.
  - assert (HT : T = 0) by (apply (ci_T0 _ _ _ _ Hinv); reflexivity). subst T.
    unfold ts_utc_from, ts_seek, ts_seek_gen. rewrite ts_top_none; [split; reflexivity|].
    intros k Hk. destruct k.
    + rewrite (ci_head0 _ _ _ _ Hinv). pose proof (ci_datas _ _ _ _ Hinv) as Hd.
      destruct (ts_datas D); [reflexivity|discriminate].
    + rewrite (ci_head _ _ _ _ Hinv) by lia. rewrite (ci_above _ _ _ _ Hinv) by lia. reflexivity.
  - rewrite <- Erecs in *. assert (Hne : recs <> []) by (rewrite Erecs; discriminate).
    assert (HT : 1 <= T).
    { destruct T; [|lia]. exfalso. apply Hne. apply (ci_T0 _ _ _ _ Hinv). reflexivity. }
    destruct (ts_seek_ok recs D h T Hinv Hsort 1 s Hne HT) as (p & k' & off' & H1 & H2 & _ & H4).
    specialize (H4 (le_n 1)). unfold ts_utc_from. rewrite H1.
    cbn [ts_cs] in H2, H4. unfold ts_csL in H2. rewrite nth_error_map in H2.
    destruct (nth_error (ts_idxs 1 D) p) as [[o G]|] eqn:Ep; [|discriminate]. cbn in H2. inversion H2; subst k' off'.
    destruct (nth_error_split _ _ Ep) as (pre & post & Hd & Hlen).
    rewrite (ts_utc_iter_spec D s (fun _ => false) (ci_adj _ _ _ _ Hinv) post pre o G 0 (S (length D)) Hd).
    2:{ pose proof (ts_view_length (ts_f_idx 1) D 0) as Hl. fold (ts_idxs 1 D) in Hl. rewrite Hd, app_length in Hl. cbn in Hl. lia. }
    cbn [fst snd]. split; [|reflexivity]. rewrite ts_batches_concat.
    set (sss := map (fun p0 : nat * list ts_entry => ts_sum_at D (fst p0)) (ts_idxs 1 D)).
    assert (Hskip : map (fun p0 : nat * list ts_entry => ts_sum_at D (fst p0)) ((o, G) :: post) = skipn p sss).
    { unfold sss. rewrite Hd, map_app. rewrite <- Hlen, <- (map_length (fun p0 : nat * list ts_entry => ts_sum_at D (fst p0)) pre), ts_skipn_app_len. reflexivity. }
    rewrite Hskip.
    (* every level-1 index chunk is followed by the summaries of its records *)
    assert (HR : Forall2 (Forall2 (ts_R D)) (map snd (ts_idxs 1 D)) sss).
    { unfold sss. assert (Hall : forall q, In q (ts_idxs 1 D) -> Forall2 (ts_R D) (snd q) (ts_sum_at D (fst q))).
      { intros [o1 G1] Hin1. pose proof (ts_view_bounds _ _ _ _ _ Hin1) as Hb. apply ts_idx_rd in Hin1.
        destruct o1; [lia|]. cbn in Hin1. destruct (ci_adj _ _ _ _ Hinv _ _ _ Hin1) as (ss & Hss & _ & _ & _ & HF).
        cbn. unfold ts_sum_at. cbn [ts_rd]. rewrite Hss. apply HF. reflexivity. }
      clear - Hall. induction (ts_idxs 1 D) as [|q v IH]; cbn; [constructor|].
      constructor; [apply Hall; left; reflexivity|apply IH; intros; apply Hall; right; assumption]. }
    assert (Hcat : concat (map snd (ts_idxs 1 D)) = ts_cs0 D) by (apply (ci_part _ _ _ _ Hinv 1); lia).
    assert (Hsum : concat sss = map summ recs).
    { pose proof (ts_Forall2_concat _ _ _ HR) as HF. rewrite Hcat in HF. unfold ts_cs0 in HF.
      apply ts_R_datas in HF; [|auto]. rewrite HF, <- (ci_datas _ _ _ _ Hinv), map_map. reflexivity. }
    rewrite <- Hsum. symmetry.
    apply (ts_utc_pure (ts_kgs 1 D) sss s p).
    + rewrite ts_kgs_concat, Hcat, (ts_cs0_keys recs D h T Hinv). assumption.
    + apply (ts_kgs_nonempty recs D h T Hinv).
    + unfold ts_kgs. rewrite <- (map_map snd (map fst)). apply (ts_R_align D). exact HR.
    + rewrite ts_kgs_heads. exact H4.
Qed.

(* ------------------------------------------------------------------ no error / fault below d^15 records *)
Definition ts_sync (lvs : list level) : Prop := Forall (fun u : level => length (tl_sum u) = length (tl_idx u)) lvs.
Fixpoint ts_W (L : nat) (lvs : list level) : nat :=
  match lvs with [] => 0 | l :: r => length (tl_idx l) * d ^ (L - 1) + ts_W (S L) r end.

Lemma ts_pow_level : forall L, 1 <= L -> d * d ^ (L - 1) = d ^ L.
Proof. intros L HL. destruct L; [lia|]. cbn. rewrite Nat.sub_0_r. reflexivity. Qed.

Lemma ts_commit_progress : forall fuel L l ups b h, 2 <= d -> 1 <= L ->
  length (tl_idx l) = d -> ts_sync (l :: ups) ->
  Forall (fun u : level => length (tl_idx u) < d) ups -> length ups < fuel ->
  ts_W L (l :: ups) < d ^ 15 ->
  exists ups' ch h', ts_commit A SE fuel d false L l ups b h = TsCRes A SE true ts_level0 ups' ch h' /\
    ts_sync ups' /\ ts_W (S L) ups' = ts_W L (l :: ups).
Proof.
  induction fuel as [|f IH]; intros L l ups b h Hd HL Hfull Hsync Hcnt Hfuel HW; [lia|].
  inversion Hsync as [|? ? Hsl Hsu]; subst.
  assert (HL15 : S L < ts_LEVEL_COUNT).
  { unfold ts_LEVEL_COUNT. destruct (le_lt_dec 15 L) as [Hge|]; [|lia]. exfalso.
    cbn [ts_W] in HW. rewrite Hfull, (ts_pow_level L HL) in HW.
    assert (d ^ 15 <= d ^ L) by (apply Nat.pow_le_mono_r; lia). lia. }
  cbn [ts_W] in HW |- *. rewrite Hfull, (ts_pow_level L HL) in *.
  cbn [ts_commit]. destruct (tl_idx l) as [|e0 tl] eqn:El; [cbn in Hfull; lia|].
  replace (ts_LEVEL_COUNT <=? S L) with false by (symmetry; apply Nat.leb_gt; assumption).
  cbn [negb andb].
  destruct (tl_sum l) as [|s0 sl] eqn:Es; [cbn in Hsl; lia|].
  destruct ups as [|u ups2].
  - (* alloc(L+1) *)
    cbn [ts_level0 tl_idx tl_sum length app].
    replace (d <=? 0) with false by (symmetry; apply Nat.leb_gt; lia).
    replace (d <=? 1) with false by (symmetry; apply Nat.leb_gt; lia).
    eexists _, _, _. split; [reflexivity|]. split.
    + constructor; [reflexivity|constructor].
    + cbn. rewrite Nat.sub_0_r. lia.
  - inversion Hcnt as [|? ? Hcu Hcu2]; subst. inversion Hsu as [|? ? Hsu1 Hsu2]; subst.
    replace (d <=? length (tl_idx u)) with false by (symmetry; apply Nat.leb_gt; assumption).
    replace (d <=? length (tl_sum u)) with false by (symmetry; apply Nat.leb_gt; lia).
    cbn [ts_W] in HW |- *. replace (S L - 1) with L in * by lia.
    destruct (d <=? length (tl_idx u ++ [(fst e0, S b)])) eqn:Ef.
    + apply Nat.leb_le in Ef. rewrite app_length in Ef. cbn in Ef.
      destruct (IH (S L) {| tl_idx := tl_idx u ++ [(fst e0, S b)]; tl_sum := tl_sum u ++ [s0] |} ups2 (b + 2) (ts_head_upd h L (S b)))
        as (ups3 & ch & h' & Hc & Hs3 & HW3); try assumption; try lia.
      * cbn. rewrite app_length. cbn. lia.
      * constructor; [cbn; rewrite !app_length; cbn; lia|assumption].
      * cbn in Hfuel. lia.
      * cbn [ts_W tl_idx]. rewrite app_length. cbn [length]. replace (S L - 1) with L by lia. nia.
      * rewrite Hc. eexists _, _, _. split; [reflexivity|]. split.
        -- constructor; [reflexivity|assumption].
        -- cbn [ts_W tl_idx length]. rewrite HW3. cbn [ts_W tl_idx]. rewrite app_length. cbn [length tl_idx ts_level0].
           replace (S L - 1) with L by lia. nia.
    + eexists _, _, _. split; [reflexivity|]. split.
      * constructor; [cbn; rewrite !app_length; cbn; lia|assumption].
      * cbn [ts_W tl_idx]. rewrite app_length. cbn [length]. replace (S L - 1) with L by lia. nia.
Qed.

Lemma ts_commit_close_progress : forall fuel L l ups b h,
  Forall (fun u : level => length (tl_idx u) < d) ups -> length ups < fuel ->
  exists l' ups' ch h', ts_commit A SE fuel d true L l ups b h = TsCRes A SE true l' ups' ch h' /\
    length (tl_idx l') = 0 /\ Forall (fun u : level => length (tl_idx u) < d) ups'.
Proof.
  induction fuel as [|f IH]; intros L l ups b h Hcnt Hfuel; [lia|].
  cbn [ts_commit]. destruct (tl_idx l) as [|e0 tl] eqn:El.
  - eexists _, _, _, _. split; [reflexivity|]. split; [rewrite El; reflexivity|assumption].
  - cbn [negb andb]. destruct ups as [|u ups2].
    + eexists _, _, _, _. split; [reflexivity|]. split; [reflexivity|constructor].
    + inversion Hcnt as [|? ? Hcu Hcu2]; subst.
      replace (d <=? length (tl_idx u)) with false by (symmetry; apply Nat.leb_gt; assumption).
      destruct (d <=? length (tl_idx u ++ [(fst e0, S b)])) eqn:Ef.
      * destruct (IH (S L) {| tl_idx := tl_idx u ++ [(fst e0, S b)]; tl_sum := tl_sum u |} ups2 (b + 2) (ts_head_upd h L (S b)))
          as (u2 & ups3 & ch & h' & Hc & H0 & H3); [assumption|cbn in Hfuel; lia|].
        rewrite Hc. eexists _, _, _, _. split; [reflexivity|]. split; [reflexivity|].
        constructor; [lia|assumption].
      * apply Nat.leb_gt in Ef. eexists _, _, _, _. split; [reflexivity|]. split; [reflexivity|].
        constructor; [exact Ef|assumption].
Qed.

Lemma ts_close_loop_progress : forall n L lvs b h,
  Forall (fun u : level => length (tl_idx u) < d) lvs -> length lvs <= ts_LEVEL_COUNT ->
  ts_close_loop A SE n d L lvs b h <> None.
Proof.
  induction n as [|n IH]; intros L lvs b h Hcnt Hlen; cbn [ts_close_loop]; [discriminate|].
  destruct lvs as [|l ups]; [discriminate|]. inversion Hcnt as [|? ? Hc Hcu]; subst.
  destruct (ts_commit_close_progress ts_LEVEL_COUNT L l ups b h Hcu) as (l' & ups' & ch & h' & Hcm & H0 & H3);
    [cbn in Hlen; lia|].
  rewrite Hcm. destruct (ts_commit_close_ok _ _ _ _ _ _ _ _ _ _ _ Hcm) as [_ Hl].
  specialize (IH (S L) ups' (b + length ch) h' H3). 
  destruct (ts_close_loop A SE n d (S L) ups' (b + length ch) h') as [[[? ?] ?]|]; [discriminate|].
  exfalso. apply IH; [cbn in Hlen; lia|reflexivity].
Qed.

Lemma ts_write_ok : forall recs w r, 2 <= d ->
  ts_winv recs w -> tw_st w = TsOk -> ts_sync (tw_lv w) -> ts_W 1 (tw_lv w) = length recs ->
  S (length recs) < d ^ 15 ->
  tw_st (ts_write A SE key summ d w r) = TsOk /\ ts_sync (tw_lv (ts_write A SE key summ d w r)) /\
  ts_W 1 (tw_lv (ts_write A SE key summ d w r)) = S (length recs).
Proof.
  intros recs w r Hd Hinv Hst Hsync HW Hn. unfold ts_write. rewrite Hst.
  destruct (tw_lv w) as [|l ups] eqn:Elv.
  - cbn [ts_level0 tl_idx tl_sum length app].
    replace (d <=? 0) with false by (symmetry; apply Nat.leb_gt; lia). cbn [orb].
    replace (d <=? 1) with false by (symmetry; apply Nat.leb_gt; lia).
    cbn [tw_st tw_lv]. split; [reflexivity|]. split; [constructor; [reflexivity|constructor]|].
    cbn in HW. cbn. lia.
  - pose proof (wi_cnt _ _ Hinv) as Hcnt. pose proof (wi_len _ _ Hinv) as Hlen. rewrite Elv in Hcnt, Hlen.
    inversion Hcnt as [|? ? Hcl Hcu]; subst. inversion Hsync as [|? ? Hsl Hsu]; subst.
    replace (d <=? length (tl_idx l)) with false by (symmetry; apply Nat.leb_gt; assumption).
    replace (d <=? length (tl_sum l)) with false by (symmetry; apply Nat.leb_gt; lia). cbn [orb].
    cbn [ts_W] in HW. rewrite Nat.sub_diag, Nat.pow_0_r in HW.
    set (l1 := {| tl_idx := tl_idx l ++ [(key r, S (length (tw_disk w)))]; tl_sum := tl_sum l ++ [summ r] |}).
    assert (Hl1len : length (tl_idx l1) = S (length (tl_idx l))) by (cbn; rewrite app_length; cbn; lia).
    assert (Hl1sync : length (tl_sum l1) = length (tl_idx l1)) by (cbn; rewrite !app_length; cbn; lia).
    destruct (d <=? length (tl_idx l1)) eqn:Ef.
    + apply Nat.leb_le in Ef.
      destruct (ts_commit_progress ts_LEVEL_COUNT 1 l1 ups (S (length (tw_disk w))) (ts_head_upd (tw_head w) 0 (S (length (tw_disk w)))))
        as (ups' & ch & h' & Hc & Hs' & HW'); try assumption; try lia.
      * constructor; assumption.
      * cbn in Hlen. unfold ts_LEVEL_COUNT in *. lia.
      * cbn [ts_W]. rewrite Hl1len. rewrite ?Nat.sub_diag, ?Nat.pow_0_r. lia.
      * rewrite Hc. cbn [tw_st tw_lv]. split; [reflexivity|]. split; [constructor; [reflexivity|assumption]|].
        cbn [ts_W tl_idx ts_level0 length]. rewrite HW'. cbn [ts_W]. rewrite Hl1len. rewrite ?Nat.sub_diag, ?Nat.pow_0_r. lia.
    + cbn [tw_st tw_lv]. split; [reflexivity|]. split; [constructor; assumption|].
      cbn [ts_W]. rewrite Hl1len. rewrite ?Nat.sub_diag, ?Nat.pow_0_r. lia.
Qed.

Lemma ts_writes_ok : forall rs recs w, 2 <= d ->
  ts_winv recs w -> tw_st w = TsOk -> ts_sync (tw_lv w) -> ts_W 1 (tw_lv w) = length recs ->
  length (recs ++ rs) < d ^ 15 ->
  tw_st (fold_left (ts_write A SE key summ d) rs w) = TsOk.
Proof.
  induction rs as [|r rs IH]; intros recs w Hd Hinv Hst Hsync HW Hn; cbn; [assumption|].
  rewrite app_length in Hn. cbn [length] in Hn.
  destruct (ts_write_ok recs w r Hd Hinv Hst Hsync HW) as (H1 & H2 & H3); [lia|].
  apply (IH (recs ++ [r])); auto.
  - apply ts_write_inv; assumption.
  - rewrite H3, app_length. cbn. lia.
  - rewrite <- app_assoc, app_length. cbn [length app]. lia.
Qed.

Theorem ts_file_ok : forall recs, 2 <= d -> length recs < d ^ 15 ->
  tw_st (ts_file A SE key summ d recs) = TsOk.
Proof.
  intros recs Hd Hn. unfold ts_file.
  assert (Hst : tw_st (fold_left (ts_write A SE key summ d) recs ts_wr0) = TsOk).
  { apply (ts_writes_ok recs [] ts_wr0); auto; [apply ts_winv0|constructor]. }
  pose proof (ts_writes_inv recs [] ts_wr0 Hd ts_winv0 eq_refl Hst) as Hw.
  unfold ts_close. rewrite Hst.
  destruct (ts_close_loop A SE (ts_LEVEL_COUNT - 1) d 1 _ _ _) as [[[? ?] ?]|] eqn:El; [reflexivity|].
  exfalso. revert El. apply ts_close_loop_progress; [apply (wi_cnt _ _ Hw)|].
  pose proof (wi_len _ _ Hw). lia.
Qed.

(* ------------------------------------------------------------------ statements used by the Properties files *)
Lemma ts_cinv_entry : forall recs D h T, ts_cinv recs D h T ->
  forall L o es e, In (o, es) (ts_idxs L D) -> In e es ->
  (L = 1 /\ exists r, ts_rd A SE D (snd e) = Some (TsData r) /\ fst e = key r) \/
  (2 <= L /\ exists es', ts_rd A SE D (snd e) = Some (TsIndex (L - 1) es') /\ es' <> [] /\ fst e = fst (hd (0%Z, 0) es')).
Proof.
  intros recs D h T Hinv L o es e Hin He.
  destruct (ts_idx_nonempty recs D h T Hinv _ _ _ Hin) as [_ HL].
  assert (HLT : L <= T).
  { destruct (le_lt_dec L T); [assumption|]. rewrite (ci_above _ _ _ _ Hinv L) in Hin by assumption. contradiction. }
  assert (Hcat : In e (ts_cs (L - 1) D)).
  { rewrite <- (ci_part _ _ _ _ Hinv L) by lia. apply in_concat. exists es. split; [|assumption].
    apply in_map_iff. exists (o, es). auto. }
  destruct (Nat.eq_dec L 1) as [->|HL1].
  - left. split; [reflexivity|]. cbn in Hcat. unfold ts_cs0 in Hcat. apply in_map_iff in Hcat.
    destruct Hcat as ([o' r] & <- & Hd). exists r. cbn. split; [apply ts_data_rd; assumption|reflexivity].
  - right. split; [lia|]. destruct (L - 1) as [|L'] eqn:EL; [lia|]. cbn [ts_cs] in Hcat. unfold ts_csL in Hcat.
    apply in_map_iff in Hcat. destruct Hcat as ([o' es'] & <- & Hd). exists es'. cbn.
    split; [apply ts_idx_rd; assumption|]. split; [|reflexivity].
    apply (ts_idx_nonempty recs D h T Hinv _ _ _ Hd).
Qed.

Lemma ts_fge_skipn_ge : forall t ks, zsorted ks -> Forall (fun y => (t <= y)%Z) (skipn (ts_fge t ks) ks).
Proof.
  induction ks as [|k r IH]; intros Hs; cbn; [constructor|].
  destruct (k >=? t)%Z eqn:E.
  - cbn. constructor; [lia|]. apply zsorted_cons_all in Hs. eapply Forall_impl; [|exact Hs]. cbn; intros; lia.
  - cbn. apply IH. inversion Hs; assumption.
Qed.

Lemma ts_skipn_ge_mono : forall {X} (P : X -> Prop) (l : list X) a b, a <= b -> Forall P (skipn a l) -> Forall P (skipn b l).
Proof.
  intros X P l. induction l as [|x l IH]; intros a b Hab H.
  - rewrite skipn_nil. constructor.
  - destruct b as [|b]; [assert (a = 0) by lia; subst; assumption|]. destruct a as [|a]; cbn in *.
    + inversion H; subst. apply (IH 0 b); [lia|assumption].
    + apply (IH a b); [lia|assumption].
Qed.

Lemma ts_skipn_1_skipn : forall {X} (l : list X) j, skipn 1 (skipn j l) = skipn (S j) l.
Proof.
  intros X l. induction l as [|x l IH]; intros j; [destruct j; reflexivity|].
  destruct j as [|j]; [reflexivity|]. change (skipn (S j) (x :: l)) with (skipn j l).
  change (skipn (S (S j)) (x :: l)) with (skipn (S j) l). apply IH.
Qed.

(* the C11 statement for the chunk-level model, all parts *)
Theorem ts_anno_seek_all : forall recs t, 2 <= d -> length recs < d ^ 15 -> zsorted (map key recs) ->
  let w := ts_file A SE key summ d recs in
  exists j, (forall stop, ts_annotations_from A SE (tw_disk w) (tw_head w) t stop = (ts_take_stop stop 0 (skipn j recs), true)) /\
    Nat.pred (ts_fge t (map key recs)) <= j <= ts_fge t (map key recs) /\
    (forall r, In r recs -> (t <= key r)%Z -> In r (skipn j recs)) /\
    Forall (fun r => (t <= key r)%Z) (skipn 1 (skipn j recs)).
Proof.
  intros recs t Hd Hn Hsort w.
  pose proof (ts_file_cinv recs Hd (ts_file_ok recs Hd Hn)) as Hinv. fold w in Hinv.
  destruct (ts_annotations_ok recs _ _ _ t Hinv Hsort) as (j & H1 & H2).
  exists j. split; [assumption|]. split; [assumption|]. split.
  - intros r Hin Hge. rewrite <- (firstn_skipn j recs) in Hin. apply in_app_or in Hin. destruct Hin as [Hin|Hin]; [|assumption].
    exfalso. pose proof (ts_fge_firstn_lt t (map key recs)) as Hlt. rewrite firstn_map in Hlt.
    assert (Hin' : In r (firstn (ts_fge t (map key recs)) recs)).
    { rewrite <- (firstn_skipn j (firstn _ recs)). apply in_or_app. left. rewrite firstn_firstn.
      replace (Nat.min j (ts_fge t (map key recs))) with j by lia. assumption. }
    rewrite Forall_map, Forall_forall in Hlt. specialize (Hlt r Hin'). lia.
  - rewrite ts_skipn_1_skipn. pose proof (ts_fge_skipn_ge t (map key recs) Hsort) as Hge.
    rewrite skipn_map, Forall_map in Hge. eapply ts_skipn_ge_mono; [|exact Hge]. lia.
Qed.

Theorem ts_anno_roundtrip_all : forall recs t, 2 <= d -> length recs < d ^ 15 -> zsorted (map key recs) ->
  (forall r, In r recs -> (t <= key r)%Z) ->
  let w := ts_file A SE key summ d recs in
  ts_annotations_from A SE (tw_disk w) (tw_head w) t (fun _ _ => false) = (recs, true).
Proof.
  intros recs t Hd Hn Hsort Hall w.
  destruct (ts_anno_seek_all recs t Hd Hn Hsort) as (j & H1 & H2 & _). fold w in H1.
  rewrite H1, ts_take_stop_never.
  assert (Hf : ts_fge t (map key recs) = 0).
  { destruct recs as [|r recs']; [reflexivity|]. cbn. specialize (Hall r (or_introl eq_refl)).
    destruct (key r >=? t)%Z eqn:E; [reflexivity|lia]. }
  assert (j = 0) by lia. subst j. reflexivity.
Qed.

Theorem ts_utc_exact_all : forall recs s, 2 <= d -> length recs < d ^ 15 -> zsorted (map key recs) ->
  let w := ts_file A SE key summ d recs in
  concat (fst (ts_utc_from A SE summ keyS (tw_disk w) (tw_head w) s (fun _ => false))) = filter (ts_ge s) (map summ recs) /\
  snd (ts_utc_from A SE summ keyS (tw_disk w) (tw_head w) s (fun _ => false)) = true.
Proof.
  intros recs s Hd Hn Hsort w.
  pose proof (ts_file_cinv recs Hd (ts_file_ok recs Hd Hn)) as Hinv. fold w in Hinv.
  exact (ts_utc_ok recs _ _ _ s Hinv Hsort).
Qed.

End TSP.

(* ------------------------------------------------------------------ assembled statements *)
Theorem ts_inv_all : forall (A SE : Type) (key : A -> Z) (summ : A -> SE) (d : nat) (recs : list A),
  2 <= d -> length recs < d ^ 15 ->
  let w := ts_file A SE key summ d recs in
  let D := tw_disk w in
  let T := length (tw_lv w) in
  tw_st w = TsOk /\
  map snd (ts_datas A SE D) = recs /\
  T < 16 /\ (T = 0 <-> recs = []) /\
  (forall L, 1 <= L <= T -> concat (map snd (ts_idxs A SE L D)) = ts_cs A SE key (L - 1) D) /\
  (1 <= T -> length (ts_idxs A SE T D) = 1) /\
  (forall L, T < L -> ts_idxs A SE L D = []) /\
  (forall k L es, nth_error D k = Some (TsIndex L es) ->
     1 <= L /\ es <> [] /\ length es <= d /\
     exists ss, nth_error D (S k) = Some (TsSummary L ss) /\ (L = 1 -> Forall2 (ts_R A SE key summ D) es ss)) /\
  (forall L o es e, In (o, es) (ts_idxs A SE L D) -> In e es ->
     (L = 1 /\ exists r, ts_rd A SE D (snd e) = Some (TsData r) /\ fst e = key r) \/
     (2 <= L /\ exists es', ts_rd A SE D (snd e) = Some (TsIndex (L - 1) es') /\ es' <> [] /\ fst e = fst (hd (0%Z, 0) es'))) /\
  tw_head w 0 = ts_first_off (ts_datas A SE D) /\
  (forall L, 1 <= L -> tw_head w L = ts_first_off (ts_idxs A SE L D)).
Proof.
  intros A SE key summ d recs Hd Hn w D T.
  pose proof (ts_file_ok A SE key summ d recs Hd Hn) as Hok.
  pose proof (ts_file_cinv A SE key summ d recs Hd Hok) as Hinv. fold w in Hok, Hinv. fold D T in Hinv.
  destruct Hinv as [H1 H2 H3 H4 H5 H6 H7 H8 H9].
  split; [assumption|]. split; [assumption|]. split; [exact H2|]. split; [assumption|]. split; [assumption|].
  split; [assumption|]. split; [assumption|]. split.
  - intros k L es Hk. destruct (H7 _ _ _ Hk) as (ss & Hs & Ha & Hb & Hc & Hdd). eauto 10.
  - split; [|split; assumption].
    apply (ts_cinv_entry A SE key summ d recs D (tw_head w) T). constructor; assumption.
Qed.

Lemma ts_spec_first_ge : forall t l i, Spec.first_ge t l i = i + ts_fge t (map Spec.an_ts l).
Proof.
  induction l as [|a l IH]; intros i; cbn; [lia|].
  destruct (Spec.an_ts a >=? t)%Z; [lia|]. rewrite IH. lia.
Qed.

Lemma ts_spec_seek_range : forall s t,
  Spec.anno_seek_range s t = (Nat.pred (ts_fge t (map Spec.an_ts (Spec.ss_annos s))), ts_fge t (map Spec.an_ts (Spec.ss_annos s))).
Proof. intros. unfold Spec.anno_seek_range. rewrite ts_spec_first_ge. reflexivity. Qed.

Lemma ts_spec_utc_from : forall s sid, Spec.utc_from s sid = filter (ts_ge (Z * Z) fst sid) (Spec.ss_utcs s).
Proof. intros. reflexivity. Qed.

(* ------------------------------------------------------------------ C11 / C12 at the Spec types *)
Theorem ts_spec_anno_seek : forall (d : nat) (s : Spec.sigstate) (t : Z),
  2 <= d -> length (Spec.ss_annos s) < d ^ 15 -> StronglySorted Z.le (map Spec.an_ts (Spec.ss_annos s)) ->
  exists j,
    (forall stop, ts_anno_read true d (Spec.ss_annos s) t stop = (ts_take_stop Spec.anno stop 0 (skipn j (Spec.ss_annos s)), true)) /\
    fst (Spec.anno_seek_range s t) <= j <= snd (Spec.anno_seek_range s t) /\
    (forall a, In a (Spec.ss_annos s) -> (t <= Spec.an_ts a)%Z -> In a (skipn j (Spec.ss_annos s))) /\
    Forall (fun a => (t <= Spec.an_ts a)%Z) (skipn 1 (skipn j (Spec.ss_annos s))).
Proof.
  intros d s t Hd Hn Hs. rewrite ts_spec_seek_range. cbn [fst snd].
  exact (ts_anno_seek_all Spec.anno ts_anno_sum Spec.an_ts ts_anno_summ d (Spec.ss_annos s) t Hd Hn Hs).
Qed.

Theorem ts_spec_anno_stop : forall (d : nat) (s : Spec.sigstate) (t : Z) (k : nat),
  2 <= d -> length (Spec.ss_annos s) < d ^ 15 -> StronglySorted Z.le (map Spec.an_ts (Spec.ss_annos s)) -> 1 <= k ->
  exists j, fst (Spec.anno_seek_range s t) <= j <= snd (Spec.anno_seek_range s t) /\
    ts_anno_read true d (Spec.ss_annos s) t (fun _ _ => false) = (skipn j (Spec.ss_annos s), true) /\
    ts_anno_read true d (Spec.ss_annos s) t (fun i _ => k <=? S i) = (firstn k (skipn j (Spec.ss_annos s)), true).
Proof.
  intros d s t k Hd Hn Hs Hk. destruct (ts_spec_anno_seek d s t Hd Hn Hs) as (j & H1 & H2 & _).
  exists j. split; [assumption|]. rewrite !H1. rewrite ts_take_stop_never.
  rewrite (ts_take_stop_after Spec.anno k _ 0) by lia. rewrite Nat.sub_0_r. auto.
Qed.

Theorem ts_spec_anno_roundtrip : forall (d : nat) (s : Spec.sigstate) (t : Z),
  2 <= d -> length (Spec.ss_annos s) < d ^ 15 -> StronglySorted Z.le (map Spec.an_ts (Spec.ss_annos s)) ->
  (forall a, In a (Spec.ss_annos s) -> (t <= Spec.an_ts a)%Z) ->
  ts_anno_read true d (Spec.ss_annos s) t (fun _ _ => false) = (Spec.ss_annos s, true).
Proof.
  intros d s t Hd Hn Hs Hall.
  exact (ts_anno_roundtrip_all Spec.anno ts_anno_sum Spec.an_ts ts_anno_summ d (Spec.ss_annos s) t Hd Hn Hs Hall).
Qed.

Theorem ts_spec_utc_from_exact : forall (d : nat) (s : Spec.sigstate) (sid : Z),
  2 <= d -> length (Spec.ss_utcs s) < d ^ 15 -> StronglySorted Z.le (map fst (Spec.ss_utcs s)) ->
  concat (fst (ts_utc_read d (Spec.ss_utcs s) sid)) = Spec.utc_from s sid /\ snd (ts_utc_read d (Spec.ss_utcs s) sid) = true.
Proof.
  intros d s sid Hd Hn Hs. rewrite ts_spec_utc_from. unfold ts_utc_read, ts_utc_file.
  pose proof (ts_utc_exact_all (Z * Z) (Z * Z) fst (fun r => r) fst d (fun r => eq_refl) (Spec.ss_utcs s) sid Hd Hn Hs) as H.
  cbn zeta in H. rewrite map_id in H. exact H.
Qed.

(* strictly increasing ids (the property's hypothesis) are in particular non-decreasing *)
Lemma ts_strict_sorted : forall l : list Z, StronglySorted Z.lt l -> StronglySorted Z.le l.
Proof.
  induction 1 as [|x l Hl IH Hx]; constructor; [assumption|]. eapply Forall_impl; [|exact Hx]. cbn; intros; lia.
Qed.

(* ------------------------------------------------------------------ the previous seek rule; d = 0, 1; the level limit *)
Definition ts_mk_anno (t : Z) : Spec.anno :=
  {| Spec.an_ts := t; Spec.an_y := 0%N; Spec.an_type := 0%N; Spec.an_group := 0%N; Spec.an_stype := 1%N; Spec.an_data := [] |}.
(* 7 distinct timestamps, then 23 annotations at timestamp 100: the run straddles the index chunks 0..9 | 10..19 | 20..29 *)
Definition ts_witness_annos : list Spec.anno := map ts_mk_anno ([0; 1; 2; 3; 4; 5; 6] ++ repeat 100 23)%Z.
Definition ts_witness_sig : Spec.sigstate :=
  {| Spec.ss_def := Spec.signal0; Spec.ss_first := None; Spec.ss_samples := []; Spec.ss_annos := ts_witness_annos; Spec.ss_utcs := [] |}.

Lemma ts_witness_sorted : StronglySorted Z.le (map Spec.an_ts ts_witness_annos).
Proof. vm_compute. repeat (constructor; [|repeat constructor; discriminate]). constructor. Qed.

Theorem ts_anno_seek_old_refuted_lemma :
  exists (d : nat) (s : Spec.sigstate) (t : Z),
    d = 10 /\ length (Spec.ss_annos s) = 30 /\ StronglySorted Z.le (map Spec.an_ts (Spec.ss_annos s)) /\
    length (filter (fun a => (Spec.an_ts a >=? t)%Z) (Spec.ss_annos s)) = 23 /\
    length (fst (ts_anno_read false d (Spec.ss_annos s) t (fun _ _ => false))) = 20 /\
    ~ (exists j, fst (Spec.anno_seek_range s t) <= j <= snd (Spec.anno_seek_range s t) /\
                 fst (ts_anno_read false d (Spec.ss_annos s) t (fun _ _ => false)) = skipn j (Spec.ss_annos s)).
Proof.
  exists 10, ts_witness_sig, 100%Z.
  split; [reflexivity|]. split; [reflexivity|]. split; [exact ts_witness_sorted|].
  split; [vm_compute; reflexivity|]. split; [vm_compute; reflexivity|].
  intros (j & Hj & He). apply (f_equal (@length _)) in He. rewrite skipn_length in He.
  assert (H1 : Spec.anno_seek_range ts_witness_sig 100 = (6, 7)) by (vm_compute; reflexivity).
  rewrite H1 in Hj. cbn [fst snd] in Hj.
  assert (H2 : length (fst (ts_anno_read false 10 (Spec.ss_annos ts_witness_sig) 100 (fun _ _ => false))) = 20) by (vm_compute; reflexivity).
  assert (H3 : length (Spec.ss_annos ts_witness_sig) = 30) by reflexivity.
  rewrite H2, H3 in He. lia.
Qed.

(* what the C does for decimate factors 0 and 1 and beyond 15 levels *)
Lemma ts_d0_faults : forall (A SE : Type) (key : A -> Z) (summ : A -> SE) (r : A) (recs : list A),
  tw_st (ts_file A SE key summ 0 (r :: recs)) = TsFault.
Proof.
  intros. unfold ts_file. cbn [fold_left].
  assert (H : tw_st (ts_write A SE key summ 0 ts_wr0 r) = TsFault) by reflexivity.
  assert (Hf : forall l w, tw_st w = TsFault -> tw_st (fold_left (ts_write A SE key summ 0) l w) = TsFault).
  { induction l as [|x l IH]; intros w Hw; cbn; [assumption|]. apply IH. unfold ts_write. rewrite Hw. assumption. }
  unfold ts_close. rewrite (Hf recs _ H). apply Hf with (l := []). apply Hf. exact H.
Qed.

Lemma ts_d1_first_write_err : forall (A SE : Type) (key : A -> Z) (summ : A -> SE) (r : A),
  tw_st (ts_write A SE key summ 1 ts_wr0 r) = TsErr /\
  length (tw_disk (ts_write A SE key summ 1 ts_wr0 r)) = 29 /\
  tw_st (ts_file A SE key summ 1 [r]) = TsFault /\
  forall r2, tw_st (ts_write A SE key summ 1 (ts_write A SE key summ 1 ts_wr0 r) r2) = TsFault.
Proof. intros. repeat split. Qed.

Theorem ts_spec_utc_roundtrip : forall (d : nat) (s : Spec.sigstate) (sid : Z),
  2 <= d -> length (Spec.ss_utcs s) < d ^ 15 -> StronglySorted Z.le (map fst (Spec.ss_utcs s)) ->
  (forall p, In p (Spec.ss_utcs s) -> (sid <= fst p)%Z) ->
  concat (fst (ts_utc_read d (Spec.ss_utcs s) sid)) = Spec.ss_utcs s.
Proof.
  intros d s sid Hd Hn Hs Hall. destruct (ts_spec_utc_from_exact d s sid Hd Hn Hs) as [H _]. rewrite H.
  unfold Spec.utc_from. clear - Hall. induction (Spec.ss_utcs s) as [|p l IH]; cbn; [reflexivity|].
  pose proof (Hall p (or_introl eq_refl)) as Hp. destruct (fst p >=? sid)%Z eqn:E; [|lia].
  f_equal. apply IH. intros; apply Hall; right; assumption.
Qed.

(* the decimate factors stored for any signal definition (Spec.sp_align = the C's normalisation, C16)
   satisfy the hypothesis 2 <= d of the theorems above *)
Lemma ts_spec_factor_ok : forall sd : Spec.sigdef,
  2 <= N.to_nat (Spec.sg_adf (Spec.sp_align sd)) /\ 2 <= N.to_nat (Spec.sg_udf (Spec.sp_align sd)).
Proof.
  intros sd. unfold Spec.sp_align. cbn [Spec.sg_adf Spec.sg_udf].
  assert (H : forall x, 2 <= N.to_nat (N.max x Generated.SUMMARY_DECIMATE_FACTOR_MIN)).
  { intros x. assert (Generated.SUMMARY_DECIMATE_FACTOR_MIN <= N.max x Generated.SUMMARY_DECIMATE_FACTOR_MIN)%N by apply N.le_max_r.
    assert (2 <= Generated.SUMMARY_DECIMATE_FACTOR_MIN)%N by (vm_compute; discriminate). lia. }
  split; apply H.
Qed.
