(* Property C01, index/summary pyramid and seek arithmetic (slice `pyr`): the writer of
   /repo/src/wr_fsr.c (wr_data, summary1, summaryN, wr_summary, close) builds, for EVERY
   consistent definition, EVERY number of blocks, EVERY size of the last block, EVERY omission
   pattern and EVERY first sample id, a pyramid whose geometry is exactly what the reader of
   /repo/src/core.c (fsr_seek, fsr_length, rd_fsr_level1, rd_fsr_data0) assumes.
   Model: PyramidModel.v (chunks and entries, no bytes).  Proofs: PyramidProofs.v.
   Sample packing inside a block is the `bits` slice (Properties_C01_bits.v).

   Reading the statements.  A program is `pre ++ PyBlk n req :: post`: `pre` holds full blocks
   (samples_per_data samples each; `req` = omission decided by wr_data before the "never the
   first chunk" mask) and PySkip ops (chunks of other signals/tracks in between), then the last
   block of 1 <= n <= samples_per_data samples, then only PySkip ops, then jls_fsr_close.
   py_run ... = PyOk st excludes only the writer's faults; the single reachable fault is
   PF_LevelOOB (level[16]) - see writer_faults_only_level_oob.
   py_blocks lists the blocks as (sample count, effectively omitted); py_total sums the counts. *)
From Coq Require Import NArith ZArith List Bool.
From JLS Require Import Generated Spec PyramidModel PyramidProofs.
Import ListNotations.
Local Open Scope Z_scope.

(* 1. pyramid_inv.  After any such program and close:
   (a) index chunk number j (write order) of level L has timestamp t0 + j * cap(L) * step(L), where
       step is the reader's step_size formula (py_step) and cap the writer's index capacity (py_cap);
       it holds 1..cap entries, cap if it is not the last of its level; entry k is 0 for an omitted
       block (level 1 only) or the offset of the level-(L-1) chunk number j*cap+k, whose timestamp is
       chunk timestamp + k * step(L) (for level 1: the DATA chunk of block j*cap+k, with that
       block's sample count);
   (b) every INDEX chunk is immediately followed by the SUMMARY chunk of its level with the same timestamp;
   (c) there is a top level T (<= 14) with exactly one index chunk, timestamp t0, head_offsets[T]
       points to it, no chunk and a zero head offset above, head_offsets[L] = first index chunk of
       every level, and every DATA chunk / lower INDEX chunk is an entry of an index chunk one
       level up (so everything is reachable from the top). *)
Theorem pyramid_inv : forall d t0 pos0 pre n req post st,
  py_consistent d -> 0 < pos0 ->
  Forall (fun o => match o with PyBlk m _ => m = py_spd d | PySkip k => 0 <= k end) pre ->
  Forall (fun o => match o with PyBlk _ _ => False | PySkip k => 0 <= k end) post ->
  1 <= n <= py_spd d ->
  py_run d t0 pos0 (pre ++ PyBlk n req :: post) = PyOk st ->
  let disk := pw_disk st in
  let blks := py_blocks (pre ++ PyBlk n req :: post) in
  let idx := fun L => filter (fun c => py_kind_eqb (pc_kind c) (PyIndex L)) disk in
  (forall L j c, nth_error (idx L) j = Some c ->
     (1 <= L)%nat /\
     pc_ts c = t0 + Z.of_nat j * (py_cap d L * py_step d L) /\
     pc_count c = Z.of_nat (length (pc_entries c)) /\ 1 <= pc_count c <= py_cap d L /\
     ((S j < length (idx L))%nat -> pc_count c = py_cap d L) /\
     forall k o, nth_error (pc_entries c) k = Some o ->
       match L with
       | 1%nat => exists m om, nth_error blks (j * Z.to_nat (py_cap d 1) + k) = Some (m, om) /\
           if (om : bool) then o = 0 else
           exists t, In t disk /\ pc_off t = o /\ pc_kind t = PyData /\
                     pc_ts t = pc_ts c + Z.of_nat k * py_step d 1 /\ pc_count t = m
       | _ => exists t, nth_error (idx (pred L)) (j * Z.to_nat (py_cap d L) + k) = Some t /\ pc_off t = o /\
                        pc_ts t = pc_ts c + Z.of_nat k * py_step d L
       end) /\
  (forall i c L, nth_error disk i = Some c -> pc_kind c = PyIndex L ->
     exists s, nth_error disk (S i) = Some s /\ pc_kind s = PySummary L /\ pc_ts s = pc_ts c) /\
  (exists T top, (1 <= T <= 14)%nat /\ idx T = [top] /\ nth T (pw_heads st) 0 = pc_off top /\ pc_ts top = t0 /\
     (forall L, (T < L)%nat -> idx L = [] /\ nth L (pw_heads st) 0 = 0) /\
     (forall L, (1 <= L <= T)%nat -> exists f, nth_error (idx L) 0 = Some f /\ nth L (pw_heads st) 0 = pc_off f) /\
     (forall c, In c disk -> pc_kind c = PyData -> exists p, In p (idx 1%nat) /\ In (pc_off c) (pc_entries p)) /\
     (forall L c, (1 <= L < T)%nat -> In c (idx L) -> exists p, In p (idx (S L)) /\ In (pc_off c) (pc_entries p))).
Proof. exact PyramidProofs.pyr_pyramid_inv. Qed.
Print Assumptions pyramid_inv.

(* the recurrence that ties the reader's step formula to the writer's fan-out *)
Theorem step_recurrence : forall d L, (1 <= L)%nat ->
  py_step d 1 = py_spd d /\ py_step d (S L) = py_step d L * py_cap d L.
Proof. intros d L H. split; [apply PyramidProofs.py_step_1 | apply PyramidProofs.py_step_succ; exact H]. Qed.
Print Assumptions step_recurrence.

(* 2. seek_correct.  For every sample id t0 + x inside the signal, fsr_seek(level 1) lands on the
   level-1 index chunk whose range contains it (never an index-out-of-range error), and
   rd_fsr_data0 - started from any cache left by a fresh reader or by other signals, after any
   sequence `starts` of earlier reads of this signal (any positions, failing or not) - yields the
   block i = x / samples_per_data that contains the sample: the stored DATA chunk with timestamp
   t0 + i*spd and that block's sample count, or, for an omitted block, the reconstructed header
   with that timestamp and sdf * floor(count / sdf) samples (= count whenever the block is a
   whole number of summary entries). *)
Theorem seek_correct : forall d t0 pos0 pre n req post st sig cache starts x,
  py_consistent d -> 0 < pos0 ->
  Forall (fun o => match o with PyBlk m _ => m = py_spd d | PySkip k => 0 <= k end) pre ->
  Forall (fun o => match o with PyBlk _ _ => False | PySkip k => 0 <= k end) post ->
  1 <= n <= py_spd d ->
  py_run d t0 pos0 (pre ++ PyBlk n req :: post) = PyOk st ->
  0 <= sig < 256 -> (cc_meta cache <> 4096 + sig \/ cc_off cache = 0) ->
  let disk := pw_disk st in
  let heads := pw_heads st in
  let blks := py_blocks (pre ++ PyBlk n req :: post) in
  0 <= x < py_total blks ->
  let i := Z.to_nat (x / py_spd d) in
  (exists c1, py_fsr_seek d disk heads 1 (t0 + x) = PyOk (pc_off c1) /\ In c1 disk /\ pc_kind c1 = PyIndex 1 /\
              pc_ts c1 <= t0 + x < pc_ts c1 + pc_count c1 * py_spd d) /\
  exists m om, nth_error blks i = Some (m, om) /\ 0 <= x - Z.of_nat i * py_spd d < m /\
    let r := fst (py_rd_data0 d disk heads sig (py_reads d disk heads sig cache starts) (t0 + x)) in
    if (om : bool) then r = PyOk (PyOmitted (t0 + Z.of_nat i * py_spd d) (py_sdf d * (m / py_sdf d)))
    else exists cd, r = PyOk (PyStored cd) /\ In cd disk /\ pc_kind cd = PyData /\
                    pc_ts cd = t0 + Z.of_nat i * py_spd d /\ pc_count cd = m.
Proof. exact PyramidProofs.pyr_seek_correct. Qed.
Print Assumptions seek_correct.

(* 3. length_correct.  fsr_length = number of samples written, whenever the last block was not
   omitted on request with a fractional number of summary entries: i.e. no omission requested for
   it, or it is the only block (never omitted), or its size is a multiple of sample_decimate_factor.
   This includes a last block shorter than one summary entry (0-entry level-1 summary), 0-entry
   summaries at upper levels, and a last block omitted with a whole number of entries.
   For <= 8-bit types wr_data itself enforces the guard (line "omit_data &= (0 == entry_count %
   sample_decimate_factor)"): see PyramidModel.py_plan. *)
Theorem length_correct : forall d t0 pos0 pre n req post st,
  py_consistent d -> 0 < pos0 ->
  Forall (fun o => match o with PyBlk m _ => m = py_spd d | PySkip k => 0 <= k end) pre ->
  Forall (fun o => match o with PyBlk _ _ => False | PySkip k => 0 <= k end) post ->
  1 <= n <= py_spd d ->
  py_run d t0 pos0 (pre ++ PyBlk n req :: post) = PyOk st ->
  (req = false \/ py_blocks pre = [] \/ n mod py_sdf d = 0) ->
  py_fsr_length d (pw_disk st) (pw_heads st) = PyOk (py_total (py_blocks (pre ++ PyBlk n req :: post))).
Proof. exact PyramidProofs.pyr_length_correct. Qed.
Print Assumptions length_correct.

(* the exact value in every case: the one exception loses n mod sample_decimate_factor samples *)
Theorem length_general : forall d t0 pos0 pre n req post st,
  py_consistent d -> 0 < pos0 ->
  Forall (fun o => match o with PyBlk m _ => m = py_spd d | PySkip k => 0 <= k end) pre ->
  Forall (fun o => match o with PyBlk _ _ => False | PySkip k => 0 <= k end) post ->
  1 <= n <= py_spd d ->
  py_run d t0 pos0 (pre ++ PyBlk n req :: post) = PyOk st ->
  py_fsr_length d (pw_disk st) (pw_heads st) =
    PyOk (py_total (py_blocks (pre ++ PyBlk n req :: post)) -
          (if req && negb (py_nilb (py_blocks pre)) then n mod py_sdf d else 0)).
Proof. exact PyramidProofs.pyr_length_general. Qed.
Print Assumptions length_general.

(* the recorded known finding (K-C15-omit-partial-last-block): omission requested, last block of
   8 samples with sample_decimate_factor 16: 40 samples written, length 32 *)
Theorem length_omit_partial_refuted :
  exists d t0 pos0 pre n req post st,
    py_consistent d /\ 0 < pos0 /\
    Forall (fun o => match o with PyBlk m _ => m = py_spd d | PySkip k => 0 <= k end) pre /\
    Forall (fun o => match o with PyBlk _ _ => False | PySkip k => 0 <= k end) post /\
    1 <= n <= py_spd d /\
    py_run d t0 pos0 (pre ++ PyBlk n req :: post) = PyOk st /\
    py_total (py_blocks (pre ++ PyBlk n req :: post)) = 40 /\
    py_fsr_length d (pw_disk st) (pw_heads st) = PyOk 32.
Proof. exact PyramidProofs.pyr_length_omit_partial_refuted. Qed.
Print Assumptions length_omit_partial_refuted.

(* 4. cache_transparent.  The block rd_fsr_data0 delivers does not depend on the level-1 cache:
   any cache a fresh reader or reads of other signals can have left (chunk_meta of another
   signal, or offset 0), followed by any sequence of earlier reads of this signal, gives the same
   result as an empty cache. *)
Theorem cache_transparent : forall d t0 pos0 pre n req post st sig cache starts x,
  py_consistent d -> 0 < pos0 ->
  Forall (fun o => match o with PyBlk m _ => m = py_spd d | PySkip k => 0 <= k end) pre ->
  Forall (fun o => match o with PyBlk _ _ => False | PySkip k => 0 <= k end) post ->
  1 <= n <= py_spd d ->
  py_run d t0 pos0 (pre ++ PyBlk n req :: post) = PyOk st ->
  0 <= sig < 256 -> (cc_meta cache <> 4096 + sig \/ cc_off cache = 0) ->
  0 <= x < py_total (py_blocks (pre ++ PyBlk n req :: post)) ->
  fst (py_rd_data0 d (pw_disk st) (pw_heads st) sig (py_reads d (pw_disk st) (pw_heads st) sig cache starts) (t0 + x)) =
  fst (py_rd_data0 d (pw_disk st) (pw_heads st) sig py_cache0 (t0 + x)).
Proof. exact PyramidProofs.pyr_cache_transparent. Qed.
Print Assumptions cache_transparent.

(* 5. The hypothesis `py_run ... = PyOk st` of the theorems above excludes nothing but the overflow of
   the 16-entry level array: for every consistent definition and every program, the per-level index
   buffer (capacity py_cap) and summary buffer (entries_per_summary entries) are never overrun, and the
   writer either succeeds or faults in jls_core_fsr_summaryN(16) (which needs a 15th summary level). *)
Theorem writer_faults_only_level_oob : forall d t0 pos0 pre n req post e,
  py_consistent d -> 0 < pos0 ->
  Forall (fun o => match o with PyBlk m _ => m = py_spd d | PySkip k => 0 <= k end) pre ->
  Forall (fun o => match o with PyBlk _ _ => False | PySkip k => 0 <= k end) post ->
  1 <= n <= py_spd d ->
  py_run d t0 pos0 (pre ++ PyBlk n req :: post) = PyErr e -> e = PE_Fault PF_LevelOOB.
Proof. exact PyramidProofs.pyr_writer_faults_only_level_oob. Qed.
Print Assumptions writer_faults_only_level_oob.

Example level_oob_example :
  let d := {| py_spd := 10; py_sdf := 10; py_eps := 10; py_sumdf := 1 |} in
  py_consistent d /\ py_run d 0 1 (repeat (PyBlk 10 false) 9 ++ [PyBlk 10 false]) = PyErr (PE_Fault PF_LevelOOB).
Proof. exact PyramidProofs.pyr_level_oob_example. Qed.
Print Assumptions level_oob_example.

(* ---- the hypotheses are satisfiable ---- *)
(* Spec.sp_align on an all-defaults definition of every sample width gives a consistent definition *)
Example consistent_defaults :
  Forall (fun dt => let s := sp_align {| sg_id := 1; sg_src := 1; sg_type := JLS_SIGNAL_TYPE_FSR; sg_dtype := dt; sg_rate := 1000;
                                          sg_spd := 0; sg_sdf := 0; sg_eps := 0; sg_sumdf := 0; sg_adf := 0; sg_udf := 0;
                                          sg_name := SNull; sg_units := SNull |} in
                    py_consistent {| py_spd := Z.of_N (sg_spd s); py_sdf := Z.of_N (sg_sdf s);
                                     py_eps := Z.of_N (sg_eps s); py_sumdf := Z.of_N (sg_sumdf s) |})
         [JLS_DATATYPE_U1; JLS_DATATYPE_U4; JLS_DATATYPE_I4; JLS_DATATYPE_U8; JLS_DATATYPE_I8; JLS_DATATYPE_U16; JLS_DATATYPE_I16;
          JLS_DATATYPE_U32; JLS_DATATYPE_I32; JLS_DATATYPE_F32; JLS_DATATYPE_U64; JLS_DATATYPE_I64; JLS_DATATYPE_F64].
Proof. repeat constructor; apply PyramidProofs.py_consistentb_ok; vm_compute; reflexivity. Qed.
Print Assumptions consistent_defaults.

(* spd = 32, sdf = 16, eps = 10, sumdf = 10 (index capacities 5 and 10), first sample id 5, first
   chunk at offset 7, 57 full blocks (every third one requested omitted, chunks of other signals
   after every block) and a last block of 8 samples: 3 levels, length 1832, sample 1831 found *)
Example pyramid_example :
  let d := {| py_spd := 32; py_sdf := 16; py_eps := 10; py_sumdf := 10 |} in
  let pre := flat_map (fun k => [PyBlk 32 (Nat.eqb (k mod 3) 2); PySkip (Z.of_nat k)]) (seq 0 57) in
  py_consistent d /\
  Forall (fun o => match o with PyBlk m _ => m = py_spd d | PySkip k => 0 <= k end) pre /\
  exists st, py_run d 5 7 (pre ++ PyBlk 8 false :: [PySkip 3]) = PyOk st /\
    length (pw_disk st) = 69%nat /\
    pw_heads st = [7; 17; 1237; 1673] /\
    py_total (py_blocks (pre ++ PyBlk 8 false :: [PySkip 3])) = 1832 /\
    py_fsr_length d (pw_disk st) (pw_heads st) = PyOk 1832 /\
    py_fsr_seek d (pw_disk st) (pw_heads st) 1 (5 + 1831) = PyOk 1669 /\
    fst (py_rd_data0 d (pw_disk st) (pw_heads st) 1 py_cache0 (5 + 1831)) =
      PyOk (PyStored {| pc_off := 1665; pc_kind := PyData; pc_ts := 5 + 57 * 32; pc_count := 8; pc_entries := [] |}) /\
    fst (py_rd_data0 d (pw_disk st) (pw_heads st) 1 py_cache0 (5 + 2 * 32 + 31)) = PyOk (PyOmitted (5 + 2 * 32) 32).
Proof. exact PyramidProofs.pyr_pyramid_example. Qed.
Print Assumptions pyramid_example.
