(* Timestamp-indexed tracks (annotations, UTC) at the level of chunks and entries.
   Model of /repo/src/wr_ts.c (jls_wr_ts_anno / jls_wr_ts_utc / commit / jls_wr_ts_close),
   the DATA chunk part of jls_wr_annotation / jls_wr_utc (writer.c), jls_core_ts_seek (core.c)
   and jls_core_annotations / jls_core_utc (reader.c).  Definitions only.

   Abstractions (documented, checked by the correspondence run tools/props/C11_ts.py):
   * the "disk" is the list of this track's chunks in write order; the offset of the k-th
     chunk (0-based) is k+1 (non-zero, strictly increasing).  Chunks of other tracks that
     interleave in a real file are not represented.
   * item_next of a chunk = offset of the next chunk of the same kind and level (the
     per-track data / index[level] lists are appended in write order).
   * the pending per-level arrays index[1..15] / summary[1..15] of struct jls_core_ts_s are the
     list [ts_lv] (element i = level i+1): a level exists only once allocated, and levels
     are allocated contiguously (alloc(level+1) is only ever called from commit(level),
     alloc(1) from the write entry points).  Each array has [d] (decimate_factor) cells.
   * no bytes, no int64 wrap-around, no sample_id_offset.
   Faults are explicit: a store into cell [entry_count] of a [d]-cell array with
   entry_count >= d is [TsFault] (heap overflow: d = 0 at the first record, d = 1 at the
   second record, and the record after a failed commit at level 15). *)
From Coq Require Import ZArith NArith List Bool Arith.
From JLS Require Import Generated Spec.
Import ListNotations.

Section TS.
Variables A SE : Type.
Variable key : A -> Z.         (* timestamp (annotation) / sample id (UTC) of a record *)
Variable summ : A -> SE.        (* the summary entry written for a record *)
Variable keyS : SE -> Z.        (* sample_id field of a UTC summary entry *)

Definition ts_entry : Type := (Z * nat)%type.     (* struct jls_index_entry_s: timestamp, offset *)

Inductive ts_chunk :=
| TsData (r : A)
| TsIndex (lvl : nat) (es : list ts_entry)
| TsSummary (lvl : nat) (ss : list SE).

Record ts_level := { tl_idx : list ts_entry; tl_sum : list SE }.
Definition ts_level0 : ts_level := {| tl_idx := []; tl_sum := [] |}.

Inductive ts_status := TsOk | TsErr | TsFault.
(* TsErr: some call returned an error code (state keeps evolving as the C's does);
   TsFault: undefined behaviour happened (absorbing). *)

Record ts_wr := {
  tw_disk : list ts_chunk;
  tw_lv : list ts_level;           (* levels 1 .. length *)
  tw_head : nat -> nat;            (* track head_offsets[level], 0 = unset *)
  tw_st : ts_status }.

Definition ts_wr0 : ts_wr := {| tw_disk := []; tw_lv := []; tw_head := fun _ => 0; tw_st := TsOk |}.

(* jls_track_update: only the first chunk of a level is recorded *)
Definition ts_head_upd (h : nat -> nat) (L off : nat) : nat -> nat :=
  fun x => if Nat.eqb x L then (let v := h L in if Nat.eqb v 0 then off else v) else h x.

Definition ts_LEVEL_COUNT : nat := 16.   (* JLS_SUMMARY_LEVEL_COUNT *)

(* result of commit(level, mode): ok = returned 0; the level's own arrays, the upper
   levels, the chunks appended, the head offsets *)
Inductive ts_cres :=
| TsCFault
| TsCRes (ok : bool) (l : ts_level) (ups : list ts_level) (ch : list ts_chunk) (h : nat -> nat).

(* commit(self, L, mode) for an existing level L = [l], upper levels [ups], [base] chunks
   already on disk.  close = true: COMMIT_MODE_CLOSE.  fuel >= 16 - L suffices. *)
Fixpoint ts_commit (fuel : nat) (d : nat) (close : bool) (L : nat) (l : ts_level) (ups : list ts_level)
         (base : nat) (h : nat -> nat) : ts_cres :=
  match fuel with
  | O => TsCFault
  | S f =>
    match tl_idx l with
    | [] => TsCRes true l ups [] h                                  (* !entry_count: return 0 *)
    | e0 :: _ =>
      if negb close && (ts_LEVEL_COUNT <=? S L)
      then TsCRes false l ups [] h                                  (* alloc(level+1): PARAMETER_INVALID *)
      else
        let ups1 := if close then ups else match ups with [] => [ts_level0] | _ => ups end in
        let off := S base in
        let ci := TsIndex L (tl_idx l) in
        let cs := TsSummary L (tl_sum l) in
        let h1 := ts_head_upd h L off in
        match ups1 with
        | [] => TsCRes true ts_level0 [] [ci; cs] h1                (* index_up == NULL *)
        | u :: ups2 =>
          if d <=? length (tl_idx u) then TsCFault                  (* index_up->entries[entry_count++] *)
          else
            let uidx := tl_idx u ++ [(fst e0, off)] in
            let usum :=
              if close then Some (tl_sum u)
              else match tl_sum l with
                   | [] => None                                   (* summary->entries[0] never written *)
                   | s0 :: _ => if d <=? length (tl_sum u) then None else Some (tl_sum u ++ [s0])
                   end in
            match usum with
            | None => TsCFault
            | Some us =>
              let u1 := {| tl_idx := uidx; tl_sum := us |} in
              if d <=? length uidx
              then match ts_commit f d close (S L) u1 ups2 (base + 2) h1 with
                   | TsCFault => TsCFault
                   | TsCRes false u2 ups3 ch h2 => TsCRes false l (u2 :: ups3) (ci :: cs :: ch) h2   (* ROE: no reset *)
                   | TsCRes true u2 ups3 ch h2 => TsCRes true ts_level0 (u2 :: ups3) (ci :: cs :: ch) h2
                   end
              else TsCRes true ts_level0 (u1 :: ups2) [ci; cs] h1
            end
        end
    end
  end.

(* jls_wr_annotation / jls_wr_utc followed by jls_wr_ts_anno / jls_wr_ts_utc *)
Definition ts_write (d : nat) (w : ts_wr) (r : A) : ts_wr :=
  match tw_st w with
  | TsFault => w
  | st =>
    let base := length (tw_disk w) in
    let off := S base in
    let disk1 := tw_disk w ++ [TsData r] in
    let h1 := ts_head_upd (tw_head w) 0 off in
    let lvs1 := match tw_lv w with [] => [ts_level0] | _ => tw_lv w end in      (* alloc(self, 1) *)
    match lvs1 with
    | [] => {| tw_disk := disk1; tw_lv := []; tw_head := h1; tw_st := TsFault |}
    | l :: ups =>
      if (d <=? length (tl_idx l)) || (d <=? length (tl_sum l))
      then {| tw_disk := disk1; tw_lv := lvs1; tw_head := h1; tw_st := TsFault |}
      else
        let l1 := {| tl_idx := tl_idx l ++ [(key r, off)]; tl_sum := tl_sum l ++ [summ r] |} in
        if d <=? length (tl_idx l1)
        then match ts_commit ts_LEVEL_COUNT d false 1 l1 ups (S base) h1 with
             | TsCFault => {| tw_disk := disk1; tw_lv := l1 :: ups; tw_head := h1; tw_st := TsFault |}
             | TsCRes ok l2 ups2 ch h2 =>
               {| tw_disk := disk1 ++ ch; tw_lv := l2 :: ups2; tw_head := h2;
                  tw_st := if ok then st else TsErr |}
             end
        else {| tw_disk := disk1; tw_lv := l1 :: ups; tw_head := h1; tw_st := st |}
    end
  end.

(* jls_wr_ts_close: for level = 1 .. 15: commit(self, level, CLOSE), return value ignored.
   [lvs] = levels L.. ; a level beyond the allocated ones returns at once; n = levels left. *)
Fixpoint ts_close_loop (n : nat) (d : nat) (L : nat) (lvs : list ts_level) (base : nat) (h : nat -> nat)
  : option (list ts_level * list ts_chunk * (nat -> nat)) :=
  match n with
  | O => Some (lvs, [], h)
  | S n' =>
    match lvs with
    | [] => Some ([], [], h)
    | l :: ups =>
      match ts_commit ts_LEVEL_COUNT d true L l ups base h with
      | TsCFault => None
      | TsCRes _ l1 ups1 ch h1 =>
        match ts_close_loop n' d (S L) ups1 (base + length ch) h1 with
        | None => None
        | Some (ups2, ch2, h2) => Some (l1 :: ups2, ch ++ ch2, h2)
        end
      end
    end
  end.

Definition ts_close (d : nat) (w : ts_wr) : ts_wr :=
  match tw_st w with
  | TsFault => w
  | st =>
    match ts_close_loop (ts_LEVEL_COUNT - 1) d 1 (tw_lv w) (length (tw_disk w)) (tw_head w) with
    | None => {| tw_disk := tw_disk w; tw_lv := tw_lv w; tw_head := tw_head w; tw_st := TsFault |}
    | Some (lvs, ch, h) => {| tw_disk := tw_disk w ++ ch; tw_lv := lvs; tw_head := h; tw_st := st |}
    end
  end.

Definition ts_file (d : nat) (recs : list A) : ts_wr := ts_close d (fold_left (ts_write d) recs ts_wr0).

(* ------------------------------------------------------------------ reader *)
Definition ts_rd (disk : list ts_chunk) (off : nat) : option ts_chunk :=
  match off with O => None | S k => nth_error disk k end.

(* item_next: the next chunk of the same list after the chunk at [off] (0 = none) *)
Fixpoint ts_find (sel : ts_chunk -> bool) (b : nat) (l : list ts_chunk) : nat :=
  match l with
  | [] => 0
  | c :: r => if sel c then S b else ts_find sel (S b) r
  end.
Definition ts_next (sel : ts_chunk -> bool) (disk : list ts_chunk) (off : nat) : nat :=
  ts_find sel off (skipn off disk).
Definition ts_is_data (c : ts_chunk) : bool := match c with TsData _ => true | _ => false end.
Definition ts_is_index (L : nat) (c : ts_chunk) : bool :=
  match c with TsIndex L' _ => Nat.eqb L' L | _ => false end.

(* initial_level: the highest level 15..0 with a non-zero head offset *)
Fixpoint ts_top (h : nat -> nat) (n : nat) : option nat :=
  match n with
  | O => None
  | S k => if Nat.eqb (h k) 0 then ts_top h k else Some k
  end.

(* the scan loop of jls_core_ts_seek over the entries of one index chunk; [upper] = the
   repaired rule applies (lvl > 1); the result is already clamped at 0 *)
Fixpoint ts_scan (upper : bool) (t : Z) (es : list ts_entry) (idx : nat) : nat :=
  match es with
  | [] => Nat.pred idx
  | e :: r =>
    if (fst e >? t)%Z then Nat.pred idx
    else if (fst e =? t)%Z then (if upper && (0 <? idx) then Nat.pred idx else idx)
    else ts_scan upper t r (S idx)
  end.

(* descend from level [lvl] (chunk at [off]) to level [level]; [fixed] = the rule after
   the repair of jls_core_ts_seek (false = the previous rule: first exact match at every
   level).  None = an error return. *)
Fixpoint ts_descend (fixed : bool) (disk : list ts_chunk) (level : nat) (t : Z) (lvl : nat) (off : nat) : option nat :=
  match lvl with
  | O => Some off
  | S lvl' =>
    if lvl <=? level then Some off
    else match ts_rd disk off with
         | Some (TsIndex _ (e :: es)) =>
           let i := ts_scan (fixed && (1 <? lvl)) t (e :: es) 0 in
           ts_descend fixed disk level t lvl' (snd (nth i (e :: es) e))
         | _ => None
         end
  end.

Inductive ts_seek_res := TsSeekNotFound | TsSeekError | TsSeekAt (off : nat).
Definition ts_seek_gen (fixed : bool) (disk : list ts_chunk) (h : nat -> nat) (level : nat) (t : Z) : ts_seek_res :=
  match ts_top h ts_LEVEL_COUNT with
  | None => TsSeekNotFound
  | Some top => match ts_descend fixed disk level t top (h top) with None => TsSeekError | Some o => TsSeekAt o end
  end.
Definition ts_seek := ts_seek_gen true.

(* jls_core_annotations: the callback [stop i r] (i = number of earlier deliveries) returns
   non-zero to end the iteration; the result is the delivered list and the return code
   (true = 0). *)
Fixpoint ts_anno_iter (fuel : nat) (disk : list ts_chunk) (stop : nat -> A -> bool) (i : nat) (pos : nat) : list A * bool :=
  match fuel with
  | O => ([], false)
  | S f =>
    match pos with
    | O => ([], true)
    | _ => match ts_rd disk pos with
           | Some (TsData r) =>
             if stop i r then ([r], true)
             else let '(l, ok) := ts_anno_iter f disk stop (S i) (ts_next ts_is_data disk pos) in (r :: l, ok)
           | _ => ([], false)
           end
    end
  end.
Definition ts_annotations_gen (fixed : bool) (disk : list ts_chunk) (h : nat -> nat) (t : Z) (stop : nat -> A -> bool) : list A * bool :=
  match ts_seek_gen fixed disk h 0 t with
  | TsSeekNotFound => ([], true)
  | TsSeekError => ([], false)
  | TsSeekAt o => ts_anno_iter (S (length disk)) disk stop 0 o
  end.
Definition ts_annotations_from := ts_annotations_gen true.

(* jls_core_utc: batches handed to the callback; [stop k] (k = entries delivered so far,
   including the current batch) ends the iteration *)
Fixpoint ts_skip_lt (s : Z) (ss : list SE) : list SE :=
  match ss with [] => [] | x :: r => if (s >? keyS x)%Z then ts_skip_lt s r else ss end.
Fixpoint ts_utc_iter (fuel : nat) (disk : list ts_chunk) (s : Z) (stop : nat -> bool) (k : nat) (pos : nat) : list (list SE) * bool :=
  match fuel with
  | O => ([], false)
  | S f =>
    match pos with
    | O => ([], true)
    | _ => match ts_rd disk pos with
           | Some (TsData r) =>
             if stop (S k) then ([[summ r]], true)
             else let '(l, ok) := ts_utc_iter f disk s stop (S k) (ts_next ts_is_data disk pos) in ([summ r] :: l, ok)
           | Some (TsIndex L _) =>
             match ts_rd disk (S pos) with
             | Some (TsSummary _ ss) =>
               let b := ts_skip_lt s ss in
               match b with
               | [] => ts_utc_iter f disk s stop k (ts_next (ts_is_index L) disk pos)
               | _ => if stop (k + length b) then ([b], true)
                      else let '(l, ok) := ts_utc_iter f disk s stop (k + length b) (ts_next (ts_is_index L) disk pos) in (b :: l, ok)
               end
             | _ => ([], false)
             end
           | _ => ([], false)
           end
    end
  end.
Definition ts_utc_from (disk : list ts_chunk) (h : nat -> nat) (s : Z) (stop : nat -> bool) : list (list SE) * bool :=
  match ts_seek disk h 1 s with
  | TsSeekNotFound => ([], true)
  | TsSeekError => ([], false)
  | TsSeekAt o => ts_utc_iter (S (length disk)) disk s stop 0 o
  end.

End TS.

Arguments TsData {A SE} _.
Arguments TsIndex {A SE} _ _.
Arguments TsSummary {A SE} _ _.
Arguments ts_wr0 {A SE}.
Arguments tw_disk {A SE} _.
Arguments tw_lv {A SE} _.
Arguments tw_head {A SE} _.
Arguments tw_st {A SE} _.
Arguments tl_idx {SE} _.
Arguments tl_sum {SE} _.
Arguments ts_level0 {SE}.

(* ---- instance used by the correspondence driver (ocaml/drv_ts.ml): records are (key, value)
        pairs and the summary entry of a record is the record itself ---- *)
Definition ts_kv : Type := (Z * Z)%type.
Definition ts_kv_key (r : ts_kv) : Z := fst r.
Definition ts_kv_id (r : ts_kv) : ts_kv := r.
Definition ts_kv_writes (d : nat) (recs : list ts_kv) : ts_wr ts_kv ts_kv :=
  fold_left (ts_write ts_kv ts_kv ts_kv_key ts_kv_id d) recs ts_wr0.
Definition ts_kv_close (d : nat) (w : ts_wr ts_kv ts_kv) : ts_wr ts_kv ts_kv := ts_close ts_kv ts_kv d w.
Definition ts_kv_annotations (fixed : bool) (w : ts_wr ts_kv ts_kv) (t : Z) (stop_after : nat) : list ts_kv * bool :=
  ts_annotations_gen ts_kv ts_kv fixed (tw_disk w) (tw_head w) t
    (fun i _ => match stop_after with O => false | _ => stop_after <=? S i end).
Definition ts_kv_utc (w : ts_wr ts_kv ts_kv) (s : Z) (stop_after : nat) : list (list ts_kv) * bool :=
  ts_utc_from ts_kv ts_kv ts_kv_id ts_kv_key (tw_disk w) (tw_head w) s
    (fun k => match stop_after with O => false | _ => stop_after <=? k end).

(* ---- instances for the abstract specification (coq/Spec.v) ---- *)
(* annotations: struct jls_annotation_summary_entry_s = timestamp, annotation_type, group_id, y *)
Definition ts_anno_sum : Type := (Z * N * N * N)%type.
Definition ts_anno_summ (a : anno) : ts_anno_sum := (an_ts a, an_type a, an_group a, an_y a).
Definition ts_anno_file (d : nat) (annos : list anno) : ts_wr anno ts_anno_sum :=
  ts_file anno ts_anno_sum an_ts ts_anno_summ d annos.
Definition ts_anno_read (fixed : bool) (d : nat) (annos : list anno) (t : Z) (stop : nat -> anno -> bool) : list anno * bool :=
  let w := ts_anno_file d annos in ts_annotations_gen anno ts_anno_sum fixed (tw_disk w) (tw_head w) t stop.
(* UTC: records and summary entries are (sample_id, utc) pairs *)
Definition ts_utc_file (d : nat) (utcs : list (Z * Z)) : ts_wr (Z * Z) (Z * Z) :=
  ts_file (Z * Z) (Z * Z) fst (fun r => r) d utcs.
Definition ts_utc_read (d : nat) (utcs : list (Z * Z)) (sid : Z) : list (list (Z * Z)) * bool :=
  let w := ts_utc_file d utcs in ts_utc_from (Z * Z) (Z * Z) (fun r => r) fst (tw_disk w) (tw_head w) sid (fun _ => false).
