(* The SIGNAL_DEF chunk of an accepted jls_wr_signal_def is a chunk of the chunk view of the complete log, with the payload
   wm_signal_payload d (from RefineLog.rf_base_append at the call, and monotonicity of the chunk view).
   Every top-level name starts with lk_. *)
From Coq Require Import NArith ZArith List Bool Lia Arith.
From Coq Require Import ZifyBool ZifyN ZifyNat.
From JLS Require Import Generated CrcDefs Spec Format FormatProofs WriteOnce WriteOnceProofs
  WmRaw WmCore WmTs WmFsr WriterModel WmProofs WmWriteOnce WmWriteOnce2 WmWriteOnce3
  RefineLog RefineProg LinksCore LinksOpen.
Import ListNotations.
Local Open Scope N_scope.
Ltac Zify.zify_post_hook ::= Z.div_mod_to_equations.
Local Opaque crc32c.

Lemma lk_ble_chunks : forall b b' c, wmw_ble b b' -> In c (rf_chunks (wm_rlog (wm_b_raw b))) -> In c (rf_chunks (wm_rlog (wm_b_raw b'))).
Proof.
  intros b b' c (l & Hl & _) Hin. rewrite Hl. destruct (lk_chunks_app l (wm_rlog (wm_b_raw b))) as (rest & E). rewrite E.
  apply in_or_app. left. exact Hin.
Qed.

Lemma lk_sigdef_step_chunk : forall st d0 d, rf_bok (wm_st_base st) ->
  snd (wm_api_signal_def st d0) = 0 -> wm_sig_align d0 = Some d -> sg_type d = JLS_SIGNAL_TYPE_FSR ->
  exists c, In c (rf_chunks (wm_st_log (fst (wm_api_signal_def st d0)))) /\
            rc_tag c = JLS_TAG_SIGNAL_DEF /\ rc_meta c = sg_id d /\ rc_pay c = wm_signal_payload d.
Proof.
  intros st d0 d Hb Hrc Hal Hty. unfold wm_api_signal_def in Hrc |- *.
  destruct (N.leb_spec JLS_SIGNAL_COUNT (sg_id d0)) as [|Hid]; [discriminate Hrc|].
  destruct (JLS_SOURCE_COUNT <=? sg_src d0); [discriminate Hrc|].
  destruct (negb (existsb (N.eqb (sg_src d0)) (wm_st_srcs st))); [discriminate Hrc|].
  destruct (wm_find_sig st (sg_id d0)); [discriminate Hrc|].
  destruct (negb ((sg_type d0 =? JLS_SIGNAL_TYPE_FSR) || (sg_type d0 =? JLS_SIGNAL_TYPE_VSR))); [discriminate Hrc|].
  destruct (wm_str_fits (sg_name d0) && wm_str_fits (sg_units d0)) eqn:Efit; cbn [negb] in Hrc |- *; [|discriminate Hrc].
  destruct (negb (wm_dt_valid (sg_dtype d0))); [discriminate Hrc|].
  rewrite Hal in Hrc |- *.
  destruct ((sg_type d =? JLS_SIGNAL_TYPE_FSR) && (sg_rate d =? 0)); [discriminate Hrc|].
  clear Hrc. cbv zeta.
  assert (Hnm : sg_id d = sg_id d0 /\ sg_name d = sg_name d0 /\ sg_units d = sg_units d0).
  { unfold wm_sig_align in Hal.
    destruct (wm_round_up _ _) as [a1|]; [|discriminate Hal]. destruct (wm_round_up _ _) as [a2|]; [|discriminate Hal].
    destruct (wm_round_up _ _) as [a3|]; [|discriminate Hal].
    destruct (_ <? _); [discriminate Hal|]. destruct (_ <? _); [discriminate Hal|]. injection Hal as <-. repeat split. }
  destruct Hnm as (Eid & Enm & Eun).
  apply andb_true_iff in Efit as [F1 F2].
  assert (Hlen : rf_len (wm_signal_payload d) < 4294967296).
  { unfold rf_len, wm_signal_payload. rewrite !app_length, repeat_length. unfold fm_enc_u16, fm_enc_u8, fm_enc_u32. rewrite !fm_enc_length.
    rewrite Enm, Eun. pose proof (rp_str_len _ F1). pose proof (rp_str_len _ F2). unfold JLS_BUF_STRING_SIZE, fm_signal_reserved in *. lia. }
  unfold JLS_SIGNAL_COUNT in Hid.
  pose proof Hb as (Hr & H1 & H2 & H3).
  pose proof (rf_base_append (wm_st_base st) (wm_b_signal_head (wm_st_base st)) (wm_ck_offset (wm_b_signal_head (wm_st_base st)))
                JLS_TAG_SIGNAL_DEF (sg_id d) (wm_signal_payload d) Hb H2 ltac:(discriminate) ltac:(reflexivity) ltac:(lia) Hlen) as X.
  cbv zeta in X. change (wm_len (wm_signal_payload d)) with (rf_len (wm_signal_payload d)).
  destruct (wm_raw_wr _ _ (wm_signal_payload d)) as [r1 h1]. cbn [fst snd] in X.
  destruct (wm_update_item_head r1 _ _) as [r2 sh]. cbn [fst snd] in X.
  destruct X as (_ & _ & _ & Hout & _).
  set (b1 := wm_b_set_signal_head (wm_b_set_raw (wm_st_base st) r2) sh).
  set (cdef := {| rc_off := wm_raw_chunk_tell (wm_b_raw (wm_st_base st)); rc_tag := JLS_TAG_SIGNAL_DEF; rc_meta := sg_id d; rc_pay := wm_signal_payload d |}) in *.
  assert (Hin1 : In cdef (rf_chunks (wm_rlog (wm_b_raw b1)))).
  { unfold b1. cbn [wm_b_raw wm_b_set_signal_head wm_b_set_raw]. unfold rf_chunks. rewrite Hout. apply in_rev. rewrite rev_involutive. left. reflexivity. }
  exists cdef. split; [|repeat split].
  rewrite Hty. change (JLS_SIGNAL_TYPE_FSR =? JLS_SIGNAL_TYPE_FSR) with true. cbv iota.
  assert (Hid' : sg_id d < 256) by lia.
  destruct (wm_def_track b1 (sg_id d) JLS_TRACK_TYPE_FSR) as [b2 tf] eqn:D1.
  destruct (wm_def_track b2 (sg_id d) JLS_TRACK_TYPE_ANNOTATION) as [b3 ta] eqn:D2.
  destruct (wm_def_track b3 (sg_id d) JLS_TRACK_TYPE_UTC) as [b4 tu] eqn:D3.
  cbn [fst]. unfold wm_st_log. cbn [wm_st_base].
  pose proof (proj1 (wmw_def_track_step _ _ _ _ _ D1 ltac:(reflexivity) Hid')) as L1.
  pose proof (proj1 (wmw_def_track_step _ _ _ _ _ D2 ltac:(reflexivity) Hid')) as L2.
  pose proof (proj1 (wmw_def_track_step _ _ _ _ _ D3 ltac:(reflexivity) Hid')) as L3.
  apply (lk_ble_chunks b3 b4 _ L3). apply (lk_ble_chunks b2 b3 _ L2). apply (lk_ble_chunks b1 b2 _ L1). exact Hin1.
Qed.

Lemma lk_sigdef_chunk : forall summ1 summN d0 d p1 p2,
  sg_id d <> 0 -> sg_type d = JLS_SIGNAL_TYPE_FSR ->
  Forall (rp_ok (sg_id d)) (p1 ++ WSig d0 :: p2) ->
  Forall (fun o => match o with WSig d' => sg_id d' <> sg_id d | _ => True end) p1 ->
  snd (wm_api_signal_def (fst (wm_steps summ1 summN wm_api_open p1 [])) d0) = 0 -> wm_sig_align d0 = Some d ->
  exists c, In c (rf_chunks (wm_st_log (fst (wm_run_full summ1 summN (p1 ++ WSig d0 :: p2))))) /\
            rc_tag c = JLS_TAG_SIGNAL_DEF /\ rc_meta c = sg_id d /\ rc_pay c = wm_signal_payload d.
Proof.
  intros summ1 summN d0 d p1 p2 Hsid0 Hty Hok Hns Hrc Hal.
  apply Forall_app in Hok. destruct Hok as [Hok1 _].
  set (st_a := fst (wm_steps summ1 summN wm_api_open p1 [])) in *.
  assert (G0 : rp_G0 d st_a).
  { unfold st_a. rewrite rp_steps_fold. apply rp_G0_steps; [apply rp_G0_open; exact Hsid0|exact Hok1|exact Hns]. }
  destruct (lk_sigdef_step_chunk st_a d0 d (proj1 G0) Hrc Hal Hty) as (c & Hc & T & M & P).
  exists c. split; [|auto].
  rewrite rp_run_full_eq. cbn [wm_step_rc]. fold st_a.
  set (st_b := fst (wm_api_signal_def st_a d0)) in *.
  rewrite <- (rp_steps_fold summ1 summN p2 st_b []).
  set (st_e := fst (wm_steps summ1 summN st_b p2 [])).
  rewrite wmw_api_close_eq.
  set (pre := wmw_close_pre summ1 summN st_e).
  unfold wm_st_log. cbn [wm_st_base wm_st_set_base wm_b_raw wm_b_set_raw].
  destruct (wmw_close_log (wm_b_raw (wm_st_base pre))) as [Lc _]. rewrite Lc.
  destruct (lk_chunks_app [WmWrite 0 (wm_file_header_bytes (wm_fend (wm_b_raw (wm_st_base pre))))] (wm_rlog (wm_b_raw (wm_st_base pre)))) as (rest & E).
  cbn [app] in E. rewrite E. apply in_or_app. left.
  apply (lk_ble_chunks (wm_st_base st_e) (wm_st_base pre) c (proj1 (wmw_close_pre_step summ1 summN st_e))).
  apply (lk_ble_chunks (wm_st_base st_b) (wm_st_base st_e) c (proj1 (wmw_steps_step summ1 summN p2 st_b []))).
  exact Hc.
Qed.
