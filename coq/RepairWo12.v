(* WHAT THE REPAIR-ON-OPEN WRITES, part 12: consequences and examples.
     - rs_open_preserved: for the file left by rp_open, under the strict classification and the condition rs_clear on
       the open's own events: payload, pad and payload CRC of a chunk below the last chunk are the given file's bytes;
       its header keeps bytes 8..27 (rs_rest_fields: which fields that means)
     - rs_chain_preserved: the same for every chunk of the chain of the file from offset 32 that is not a HEAD chunk
     - rq_*: the strict write-once checker of C14 (WriteOnce.v) fed with the repair's events: it rejects the payload
       re-write of the last chunk (identical bytes, but a stored payload is written again)
     - concrete images.
   Names start with rs_ / rq_. *)
From Coq Require Import NArith ZArith List Bool Lia Arith.
From Coq Require Import ZifyBool ZifyN ZifyNat.
From JLS Require Import Generated CrcDefs Spec Format FormatProofs WriteOnce WriteOnceProofs WmRaw WmCore WmFsr WriterModel WmProofs
  WmWriteOnce RepairRaw RawReadProofs RepairModel RepairProofs RepairProofs2 RepairProofsData
  RepairWo RepairWo2 RepairWo8 RepairWo10 RepairWo11 RepairWoData.
Import ListNotations.
Local Open Scope N_scope.
Ltac Zify.zify_post_hook ::= Z.div_mod_to_equations.

(* ================================================================ bytes 8..27 = six fields *)
Lemma rs_enc_inj : forall n x y, fm_enc n x = fm_enc n y -> x mod 256 ^ N.of_nat n = y mod 256 ^ N.of_nat n.
Proof. intros n x y H. rewrite <- !rw_dec_enc, H. reflexivity. Qed.
Lemma rs_app_inj : forall (A : Type) (a a' b b' : list A), length a = length a' -> a ++ b = a' ++ b' -> a = a' /\ b = b'.
Proof.
  intros A a. induction a as [| x a IH]; intros a' b b' Hl H; destruct a' as [| y a']; cbn in Hl; try discriminate Hl.
  - split; [reflexivity | exact H].
  - cbn in H. inversion H; subst y. destruct (IH a' b b' ltac:(lia) H2) as (E1 & E2). subst a'. split; [reflexivity | exact E2].
Qed.
Lemma rs_rest_fields : forall h h', rw_rest h' = rw_rest h ->
  fm_item_prev h' mod fm_two64 = fm_item_prev h mod fm_two64 /\ fm_tag h' mod 256 = fm_tag h mod 256 /\
  fm_rsv0 h' mod 256 = fm_rsv0 h mod 256 /\ fm_chunk_meta h' mod 65536 = fm_chunk_meta h mod 65536 /\
  fm_payload_length h' mod 4294967296 = fm_payload_length h mod 4294967296 /\
  fm_payload_prev_length h' mod 4294967296 = fm_payload_prev_length h mod 4294967296.
Proof.
  intros h h' H. unfold rw_rest, fm_enc_u64, fm_enc_u32, fm_enc_u16, fm_enc_u8 in H.
  apply rs_app_inj in H; [| rewrite !fm_enc_length; reflexivity]. destruct H as (H1 & H).
  apply rs_app_inj in H; [| rewrite !fm_enc_length; reflexivity]. destruct H as (H2 & H).
  apply rs_app_inj in H; [| rewrite !fm_enc_length; reflexivity]. destruct H as (H3 & H).
  apply rs_app_inj in H; [| rewrite !fm_enc_length; reflexivity]. destruct H as (H4 & H).
  apply rs_app_inj in H; [| rewrite !fm_enc_length; reflexivity]. destruct H as (H5 & H6).
  split; [exact (rs_enc_inj 8 _ _ H1) |]. split; [exact (rs_enc_inj 1 _ _ H2) |]. split; [exact (rs_enc_inj 1 _ _ H3) |].
  split; [exact (rs_enc_inj 2 _ _ H4) |]. split; [exact (rs_enc_inj 4 _ _ H5) | exact (rs_enc_inj 4 _ _ H6)].
Qed.

(* ================================================================ the file after the open *)
Section RSO.
Variable summ1 : N -> list N -> wm_sentry.
Variable summN : bool -> list wm_sentry -> wm_sentry.

Lemma rs_after_of_run : forall strict f pos st', In st' (rw_runs strict f pos (rw_st0 f) (rp_events (rp_open summ1 summN f))) ->
  rw_g st' = rp_after (rp_open summ1 summN f).
Proof.
  intros strict f pos st' H. destruct (rw_runs_file _ _ _ _ _ _ H) as (A & _). cbn [rw_st0 rw_g rw_n] in A.
  pose proof (rpp_open_coherent summ1 summN f) as C. unfold rpp_res_coh in C. rewrite rw_apply_log_fold, rev_involutive, <- A in C.
  inversion C. reflexivity.
Qed.

Theorem rs_open_preserved : forall f o h,
  let r := rp_open summ1 summN f in
  let size := fm_chunk_size (fm_payload_length h) in
  rw_check true f (rw_pos f) (rp_events r) = true ->
  rw_hdr_at f o = Some h -> 32 <= o -> o + size <= rw_pos f -> o + size <= rp_len f ->
  rs_clear o size (rp_events r) = true ->
  (forall i, o + 32 <= i -> i < o + size -> nth (N.to_nat i) (rp_after r) 0 = nth (N.to_nat i) f 0) /\
  (exists h', rw_hdr_at (rp_after r) o = Some h' /\ rw_rest h' = rw_rest h).
Proof.
  intros f o h r size Hc Hh Ho Hp Hl Hcl. unfold rw_check in Hc. apply existsb_exists in Hc. destruct Hc as (st' & Hin & _).
  pose proof (rs_after_of_run true f (rw_pos f) st' Hin) as Ea. fold r in Ea. rewrite <- Ea.
  exact (rs_sound f (rw_pos f) o h Hh Ho Hp (rp_events r) st' Hl Hin Hcl).
Qed.

(* the chain of chunks of a file from offset 32 *)
Fixpoint rs_chain (fuel : nat) (f : list N) (o : N) : list (N * fm_chunk_header) :=
  match fuel with
  | O => []
  | S fu =>
    match rw_hdr_at f o with
    | Some h => if o + fm_chunk_size (fm_payload_length h) <=? rp_len f
                then (o, h) :: rs_chain fu f (o + fm_chunk_size (fm_payload_length h)) else []
    | None => []
    end
  end.
Lemma rs_chain_in : forall fuel f o0 o h, 32 <= o0 -> In (o, h) (rs_chain fuel f o0) ->
  rw_hdr_at f o = Some h /\ 32 <= o /\ o + fm_chunk_size (fm_payload_length h) <= rp_len f.
Proof.
  induction fuel as [| fu IH]; intros f o0 o h H0 Hin; cbn [rs_chain] in Hin; [destruct Hin |].
  destruct (rw_hdr_at f o0) as [h0 |] eqn:E; [| destruct Hin].
  destruct (o0 + fm_chunk_size (fm_payload_length h0) <=? rp_len f) eqn:El; [| destruct Hin]. apply N.leb_le in El.
  destruct Hin as [Hin | Hin].
  - inversion Hin; subst o0 h0. repeat split; assumption.
  - apply (IH f (o0 + fm_chunk_size (fm_payload_length h0)) o h); [| exact Hin]. pose proof (fm_chunk_size_ge (fm_payload_length h0)). lia.
Qed.
Definition rs_is_head (h : fm_chunk_header) : bool :=
  (fm_tag_chunk_kind (fm_tag h) =? JLS_TRACK_CHUNK_HEAD) && (fm_payload_length h =? SIZEOF_track_head).
(* every chunk of the chain below the last chunk that is not a HEAD chunk is clear of the open's writes *)
Definition rs_all_clear (f : list N) (pos : N) (evs : list wm_entry) : bool :=
  forallb (fun x : N * fm_chunk_header =>
             let size := fm_chunk_size (fm_payload_length (snd x)) in
             rs_is_head (snd x) || (pos <? fst x + size) || rs_clear (fst x) size evs)
          (rs_chain (S (length f)) f 32).

Theorem rs_chain_preserved : forall f,
  let r := rp_open summ1 summN f in
  rw_check true f (rw_pos f) (rp_events r) = true -> rs_all_clear f (rw_pos f) (rp_events r) = true ->
  forall o h, In (o, h) (rs_chain (S (length f)) f 32) -> rs_is_head h = false -> o + fm_chunk_size (fm_payload_length h) <= rw_pos f ->
    (forall i, o + 32 <= i -> i < o + fm_chunk_size (fm_payload_length h) -> nth (N.to_nat i) (rp_after r) 0 = nth (N.to_nat i) f 0) /\
    (exists h', rw_hdr_at (rp_after r) o = Some h' /\ rw_rest h' = rw_rest h).
Proof.
  intros f r Hc Ha o h Hin Hnh Hp. unfold rs_all_clear in Ha. rewrite forallb_forall in Ha. specialize (Ha _ Hin). cbn [fst snd] in Ha.
  rewrite Hnh in Ha. replace (rw_pos f <? o + fm_chunk_size (fm_payload_length h)) with false in Ha by (symmetry; apply N.ltb_ge; exact Hp).
  cbn [orb] in Ha. destruct (rs_chain_in _ _ _ _ _ (N.le_refl 32) Hin) as (A & B & C).
  exact (rs_open_preserved f o h Hc A B Hp C Ha).
Qed.

End RSO.

(* ================================================================ the write-once checker of C14 on the repair's events *)
(* checker level: in a state whose tracked chunks include one at o that is not a HEAD chunk, any in-place write at
   o + 32 (the first byte of its payload) is rejected with WoR_tbl_not_head - also when the bytes are the stored ones *)
Lemma rq_payload_rewrite_rejected : forall s o x b,
  wo_pending s = WoIdle -> wo_len s <> 0 -> o <> 0 -> o + 32 < wo_len s ->
  wo_find o (wo_exts s) = Some x -> wo_find (o + 32) (wo_exts s) = None ->
  fm_is_head_tag (fm_tag (wo_e_hdr x)) = false ->
  wo_step false s (WoWrite (o + 32) b) = inr WoR_tbl_not_head.
Proof.
  intros s o x b Hp Hl Ho Hlt Hf Hn Hh. cbn [wo_step]. unfold wo_step_write. cbv zeta.
  replace (o + 32 =? 0) with false by (symmetry; apply N.eqb_neq; lia).
  replace (wo_len s =? 0) with false by (symmetry; apply N.eqb_neq; exact Hl).
  rewrite Hp.
  replace (wo_len s <? o + 32) with false by (symmetry; apply N.ltb_ge; lia).
  replace (o + 32 =? wo_len s) with false by (symmetry; apply N.eqb_neq; lia).
  cbn [wo_is_idle negb]. rewrite Hn.
  replace (o + 32 <? SIZEOF_chunk_header) with false by (symmetry; apply N.ltb_ge; unfold SIZEOF_chunk_header; lia).
  replace (o + 32 - SIZEOF_chunk_header) with o by (unfold SIZEOF_chunk_header; lia). rewrite Hf, Hh. reflexivity.
Qed.

(* ================================================================ examples on real bytes *)
Definition rq_evs (l : list wm_entry) : list wo_ev := map wmw_to_wo l.

(* the crash image of Properties_C19: classification, strict; the chunk at 832 (USER_DATA) keeps its bytes *)
Lemma rs_ex_crash_image :
  let r := rp_open wm_zero_summ1 wm_zero_summN rpp_crash_image in
  rp_fault r = 0 /\ rp_rc r = 0 /\ rw_pos rpp_crash_image = 912 /\ rw_T rpp_crash_image 912 = 952 /\ rw_heads_below rpp_crash_image = true /\
  rw_check true rpp_crash_image 912 (rp_events r) = true /\ rs_all_clear rpp_crash_image 912 (rp_events r) = true /\ length (rp_events r) = 10%nat.
Proof. vm_compute. repeat split. Qed.

(* an FSR image: the repair appends INDEX / SUMMARY chunks; every DATA, INDEX, SUMMARY, definition chunk below the last one is clear *)
Lemma rs_ex_fsr_image :
  let r := rp_open wm_zero_summ1 wm_zero_summN rwd_fsr_image in
  rp_fault r = 0 /\ rp_rc r = 0 /\ rw_pos rwd_fsr_image = 2928 /\ rw_T rwd_fsr_image 2928 = 3016 /\ rw_heads_below rwd_fsr_image = true /\
  rw_check true rwd_fsr_image 2928 (rp_events r) = true /\ rs_all_clear rwd_fsr_image 2928 (rp_events r) = true /\
  length (rp_events r) = 34%nat /\ length (rs_chain (S (length rwd_fsr_image)) rwd_fsr_image 32) = 28%nat /\
  In (1696, fm_ch_fields (fm_sub 1696 32 rwd_fsr_image)) (rs_chain (S (length rwd_fsr_image)) rwd_fsr_image 32) /\
  fm_tag (fm_ch_fields (fm_sub 1696 32 rwd_fsr_image)) = JLS_TAG_TRACK_FSR_DATA.
Proof. vm_compute. repeat split. do 15 right. left. reflexivity. Qed.

(* forged: an FSR INDEX chunk that is not followed by its SUMMARY.  The open succeeds, the model does not fault, and it writes
   a header whose bytes 8..27 are all zero (tag 0, payload_length 0) over the header of the INDEX chunk at 2576 and over the
   chunk at 2712: the strict classification fails, the lenient one holds *)
Lemma rs_ex_forged_zero :
  let r := rp_open wm_zero_summ1 wm_zero_summN rwd_forged_zero in
  rp_fault r = 0 /\ rp_rc r = 0 /\ rw_heads_below rwd_forged_zero = true /\
  rw_check true rwd_forged_zero (rw_pos rwd_forged_zero) (rp_events r) = false /\
  rw_check false rwd_forged_zero (rw_pos rwd_forged_zero) (rp_events r) = true /\
  (exists b, nth_error (rp_events r) 17 = Some (WmWrite 2576 b) /\ fm_sub 8 20 b = repeat 0 20 /\
             fm_tag (fm_ch_fields (fm_sub 2576 32 rwd_forged_zero)) = JLS_TAG_TRACK_FSR_INDEX).
Proof. vm_compute. repeat split. eexists. repeat split. Qed.

(* forged: an FSR INDEX chunk with entry_size_bits 32.  jls_core_repair_fsr returns JLS_ERROR_PARAMETER_INVALID, jls_rd_open closes
   the reader, and jls_fsr_close writes an INDEX chunk where the raw stands: over the FSR DATA chunk at 2928.  Not classified. *)
Lemma rs_ex_forged_esb :
  let r := rp_open wm_zero_summ1 wm_zero_summN rwd_forged_esb in
  rp_fault r = 0 /\ rp_rc r = JLS_ERROR_PARAMETER_INVALID /\ rw_heads_below rwd_forged_esb = true /\
  rw_check false rwd_forged_esb (rw_pos rwd_forged_esb) (rp_events r) = false /\
  (exists b, nth_error (rp_events r) 16 = Some (WmWrite 2928 b) /\ nth 16 b 0 = JLS_TAG_TRACK_FSR_INDEX /\
             fm_tag (fm_ch_fields (fm_sub 2928 32 rwd_forged_esb)) = JLS_TAG_TRACK_FSR_DATA /\ 2928 + 32 < rp_len rwd_forged_esb).
Proof. vm_compute. repeat split. eexists. repeat split. Qed.

(* the write-once checker: the writer's log up to the crash is accepted and produces the image; with the repair's events
   appended the strict checker stops at the payload re-write of the last chunk (event 2 of the open = index 35); without the
   two events of that re-write (payload, pad + CRC: identical bytes) it accepts the whole open *)
Definition rq_counts (r : wo_st + (N * wo_reason)) : (N * N * N * N * N) + (N * wo_reason) :=
  match r with inl s => inl (wo_len s, wo_n_app s, wo_n_link s, wo_n_tbl s, wo_n_fh s) | inr x => inr x end.
Lemma rq_ex_crash_image :
  let evs := rq_evs (rp_events (rp_open wm_zero_summ1 wm_zero_summN rpp_crash_image)) in
  rq_counts (wo_run false wo_st0 0 rwd_crash_log) = inl (952, 10, 5, 1, 1) /\
  wo_file_after rwd_crash_log = rpp_crash_image /\
  wo_run false wo_st0 0 (rwd_crash_log ++ evs) = inr (35, WoR_tbl_not_head) /\
  nth_error evs 2 = Some (WoWrite 944 (fm_sub 944 3 rpp_crash_image)) /\
  rq_counts (wo_run false wo_st0 0 (rwd_crash_log ++ firstn 2 evs ++ skipn 4 evs)) = inl (984, 11, 6, 3, 2).
Proof. vm_compute. repeat split. Qed.
